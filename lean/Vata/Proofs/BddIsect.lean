import Vata.BddIsect
import Vata.Proofs.BddAbsTD
import Vata.Proofs.IsectModel
import Vata.Proofs.IsectBUInv
/-!
# The symbolic intersections accept exactly the intersection; the product states are numbered densely (C08, C20)

Theorems about the models of `Vata/BddIsect.lean` (`bddIsectTDFrom c0` / `bddIsectBUFrom c0`: the work-lists of
`bdd_td_tree_aut_isect.cc` / `bdd_bu_tree_aut_isect.cc` with the counter `stateCnt` starting at `c0`; `bddIsectTD`,
`bddIsectBU` are the instances `c0 = 0`).

* **invariants of the translator** (`Pres`, `transl_pres` … `apply2S_inv`, `tdLoop_pres`, `buLoop_pres`): a property of
  the translation map and the counter that is kept by the insertion of a fresh pair is kept by the leaf operations, by the
  apply with a side effect and by the two loops.  Instances: `NumFrom c0` (entry `i` of the map carries the number
  `c0 + i`, the counter is `c0 + |map|`), hence `NumFrom.dense` (the values are `c0, c0+1, …` in discovery order) and
  `NumFrom.injOn` (different pairs, different numbers); `ext_pres` (the map only grows).
* **top-down** (`TdCert`, `tdCertB_sound`): whenever the model returns `(R, F, m)`,
  `bddIsectTDFrom_abs`: the abstraction `absTD syms R F` is, as sets of rules and final states, the product automaton
  `prodOn (absTD syms TA FA) (absTD syms TB FB) (dom m) m` of `Vata/Isect.lean`, `dom m` is `Closed` and contains `FA × FB`,
  `m` is injective; `bddIsectTDFrom_lang`, `bddIsectTD_lang`: by `isect_cert` the language is the intersection – for
  every initial value of the counter.  Hypothesis `ArityOK` on both operands: the arity variables under which a state
  has a tuple hold the length of the tuple (`arityOK_ofRulesTD`, `arityOK_getTopDownAut`: true of loaded and of converted
  tables with arities below 64); without it the C++ fails its `assert(lhsTuple.size() == rhsTuple.size())`.
* **bottom-up** (`BuCert`, `buCertB_sound`): whenever the model returns `(R, F, m)`, `bddIsectBUFrom_abs`: the
  abstraction `absBU syms R F` is the BOTTOM-UP product `prodBU (absBU syms TA FA) (absBU syms TB FB) (dom m) m` of
  `Vata/IsectBU.lean` (the pairs of rules ALL OF WHOSE CHILDREN pairs were discovered, final = the discovered pairs of final
  states), `dom m` is `BUClosed`, `m` is injective; `bddIsectBUFrom_lang`, `bddIsectBU_lang`: by `isect_bu_cert` the
  language is the intersection.  No hypothesis on the operand tables.
* **numbering** (`bddIsectTDFrom_numbers`, `bddIsectBUFrom_numbers`, `bddIsect_numbers_dense`): the returned translation
  map takes exactly the values `c0, …, c0 + n - 1` in discovery order – `0, …, n - 1` for `stateCnt = 0` – and is injective.
  These are invariants of the loops, not consequences of the certificate check.

That the certificate checks never fail on what the loops compute and that the fuels `tdFuel` / `buFuel` suffice is proved
in `Vata/Proofs/BddIsectTotal.lean` (the apply with a side effect, top-down) and `Vata/Proofs/BddIsectBUTotal.lean`
(bottom-up).
-/
namespace Vata
namespace BddIsect
open M BddAbs BddAbsTD

/-! ### the leaf pairs visited by an apply -/

/-- `voidApply2` lists (at least) the pairs of values that the two diagrams take under a common valuation (no
well-formedness needed for this direction) -/
theorem voidApply2_complete {α β : Type} (ρ : Nat → Bool) :
    ∀ (a : Node α) (b : Node β), (eval a ρ, eval b ρ) ∈ voidApply2 a b := by
  intro a b
  induction a, b using voidApply2.induct with
  | case1 v w => simp [voidApply2, eval]
  | case2 x lo hi w ih1 ih2 =>
    rw [voidApply2, List.mem_append]
    simp only [eval] at ih1 ih2 ⊢
    split
    · exact Or.inr ih2
    · exact Or.inl ih1
  | case3 v y lo hi ih1 ih2 =>
    rw [voidApply2, List.mem_append]
    simp only [eval] at ih1 ih2 ⊢
    split
    · exact Or.inr ih2
    · exact Or.inl ih1
  | case4 x alo ahi blo bhi ih1 ih2 =>
    rw [voidApply2]; simp only [if_true]
    rw [List.mem_append]
    simp only [eval]
    split
    · exact Or.inr ih2
    · exact Or.inl ih1
  | case5 x alo ahi y blo bhi hne hlt ih1 ih2 =>
    rw [voidApply2]; simp only [hne, hlt, if_false, if_true]
    rw [List.mem_append]
    simp only [eval] at ih1 ih2 ⊢
    by_cases hx : ρ x = true
    · simp only [hx, if_true] at ih2 ⊢; exact Or.inr ih2
    · simp only [hx] at ih1 ⊢; exact Or.inl ih1
  | case6 x alo ahi y blo bhi hne hlt ih1 ih2 =>
    rw [voidApply2]; simp only [hne, hlt, if_false]
    rw [List.mem_append]
    simp only [eval] at ih1 ih2 ⊢
    by_cases hy : ρ y = true
    · simp only [hy, if_true] at ih2 ⊢; exact Or.inr ih2
    · simp only [hy] at ih1 ⊢; exact Or.inl ih1

/-! ### invariants of the translator -/

/-- a property of the translation map and the counter that is kept when a fresh pair is inserted -/
def Pres (Q : PMap → Nat → Prop) : Prop :=
  ∀ m c pr, Q m c → m.lookup pr = none → Q (m ++ [(pr, c)]) (c + 1)

/-- `Q` holds of the map and the counter of a state -/
def St.Sat (Q : PMap → Nat → Prop) (s : St) : Prop := Q s.map s.cnt

theorem transl_pres {Q : PMap → Nat → Prop} (hQ : Pres Q) (s : St) (pr : Nat × Nat) (h : s.Sat Q) :
    (transl s pr).1.Sat Q := by
  unfold transl
  split
  · exact h
  · rename_i hn
    exact hQ _ _ _ h hn

theorem translL_pres {Q : PMap → Nat → Prop} (hQ : Pres Q) : ∀ (ps : List (Nat × Nat)) (s : St), s.Sat Q →
    (translL s ps).1.Sat Q
  | [], _, h => h
  | pr :: ps, s, h => translL_pres hQ ps _ (transl_pres hQ s pr h)

theorem translLL_pres {Q : PMap → Nat → Prop} (hQ : Pres Q) : ∀ (ls : List (List (Nat × Nat))) (s : St), s.Sat Q →
    (translLL s ls).1.Sat Q
  | [], _, h => h
  | l :: ls, s, h => translLL_pres hQ ls _ (translL_pres hQ l s h)

theorem leafBU_pres {Q : PMap → Nat → Prop} (hQ : Pres Q) (s : St) (a b : List Nat) (h : s.Sat Q) :
    (leafBU s a b).1.Sat Q := translL_pres hQ _ s h

theorem leafTD_pres {Q : PMap → Nat → Prop} (hQ : Pres Q) (s : St) (a b : List (List Nat)) (h : s.Sat Q) :
    (leafTD s a b).1.Sat Q := translLL_pres hQ _ s h

/-- an invariant of the leaf operation is an invariant of the apply -/
theorem apply2S_inv {σ α β γ : Type} [DecidableEq γ] (f : σ → α → β → σ × γ) (P : σ → Prop)
    (hf : ∀ s v w, P s → P (f s v w).1) : ∀ (s : σ) (a : Node α) (b : Node β), P s → P (apply2S f s a b).1 := by
  intro s a b
  induction s, a, b using apply2S.induct (f := f) with
  | case1 s v w => intro h; rw [apply2S]; exact hf s v w h
  | case2 s x lo hi w ih1 ih2 => intro h; rw [apply2S]; exact ih2 (ih1 h)
  | case3 s v y lo hi ih1 ih2 => intro h; rw [apply2S]; exact ih2 (ih1 h)
  | case4 s x alo ahi blo bhi ih1 ih2 => intro h; rw [apply2S]; simp only [if_true]; exact ih2 (ih1 h)
  | case5 s x alo ahi y blo bhi hne hlt ih1 ih2 =>
    intro h; rw [apply2S]; simp only [hne, hlt, if_false, if_true]; exact ih2 (ih1 h)
  | case6 s x alo ahi y blo bhi hne hlt ih1 ih2 =>
    intro h; rw [apply2S]; simp only [hne, hlt, if_false]; exact ih2 (ih1 h)

theorem apply2S_pres {α β γ : Type} [DecidableEq γ] {Q : PMap → Nat → Prop} (f : St → α → β → St × γ)
    (hf : ∀ s v w, s.Sat Q → (f s v w).1.Sat Q) (s : St) (a : Node α) (b : Node β) (h : s.Sat Q) :
    (apply2S f s a b).1.Sat Q := apply2S_inv f (St.Sat Q) hf s a b h

theorem erase_sat {Q : PMap → Nat → Prop} {s : St} (x : Nat) (h : s.Sat Q) : (s.erase x).Sat Q := h

/-- the top-down loop keeps the invariants of the translator -/
theorem tdLoop_pres {Q : PMap → Nat → Prop} (hQ : Pres Q) (TA TB : TableTD) : ∀ (fuel : Nat) (s : St) (R : TableTD)
    (s' : St) (R' : TableTD), tdLoop TA TB fuel s R = some (s', R') → s.Sat Q → s'.Sat Q
  | 0, s, R, s', R', h, hs => by
    unfold tdLoop at h
    split at h
    · simp only [Option.some.injEq, Prod.mk.injEq] at h; rw [← h.1]; exact hs
    · cases h
  | fuel + 1, s, R, s', R', h, hs => by
    unfold tdLoop at h
    split at h
    · simp only [Option.some.injEq, Prod.mk.injEq] at h; rw [← h.1]; exact hs
    · exact tdLoop_pres hQ TA TB fuel _ _ s' R' h
        (erase_sat _ (apply2S_pres leafTD (fun s v w => leafTD_pres hQ s v w) s _ _ hs))

theorem buPair_pres {Q : PMap → Nat → Prop} (hQ : Pres Q) (x : Nat) (pr : Nat × Nat) (eA eB : List Nat × MT) (s : St)
    (R : Table) (hs : s.Sat Q) : (buPair x pr eA eB s R).1.Sat Q := by
  unfold buPair
  split
  · exact hs
  · split
    · exact hs
    · split
      · exact hs
      · exact apply2S_pres leafBU (fun s v w => leafBU_pres hQ s v w) s _ _ hs

theorem buProc_pres {Q : PMap → Nat → Prop} (hQ : Pres Q) (x : Nat) (pr : Nat × Nat) :
    ∀ (L : List ((List Nat × MT) × (List Nat × MT))) (s : St) (R : Table), s.Sat Q → (buProc x pr L s R).1.Sat Q
  | [], _, _, hs => hs
  | ee :: rest, s, R, hs => buProc_pres hQ x pr rest _ _ (buPair_pres hQ x pr ee.1 ee.2 s R hs)

/-- the bottom-up loop keeps the invariants of the translator -/
theorem buLoop_pres {Q : PMap → Nat → Prop} (hQ : Pres Q) (TA TB : Table) (FA FB : List Nat) :
    ∀ (fuel : Nat) (s : St) (R : Table) (F : List Nat) (s' : St) (R' : Table) (F' : List Nat),
      buLoop TA TB FA FB fuel s R F = some (s', R', F') → s.Sat Q → s'.Sat Q
  | 0, s, R, F, s', R', F', h, hs => by
    unfold buLoop at h
    split at h
    · simp only [Option.some.injEq, Prod.mk.injEq] at h; rw [← h.1]; exact hs
    · cases h
  | fuel + 1, s, R, F, s', R', F', h, hs => by
    unfold buLoop at h
    split at h
    · simp only [Option.some.injEq, Prod.mk.injEq] at h; rw [← h.1]; exact hs
    · exact buLoop_pres hQ TA TB FA FB fuel _ _ _ s' R' F' h (erase_sat _ (buProc_pres hQ _ _ _ s R hs))

/-! ### the numbering -/

/-- entry `i` of the map carries the number `c0 + i`, and the counter is `c0 +` the size of the map -/
def NumFrom (c0 : Nat) (m : PMap) (c : Nat) : Prop :=
  c = c0 + m.length ∧ ∀ (i : Nat) (e : (Nat × Nat) × Nat), m[i]? = some e → e.2 = c0 + i

theorem numFrom_init (c0 : Nat) : NumFrom c0 [] c0 := ⟨by simp, fun i e h => by simp at h⟩

theorem numFrom_pres (c0 : Nat) : Pres (NumFrom c0) := by
  intro m c pr ⟨hc, h⟩ _
  refine ⟨by rw [List.length_append, List.length_singleton]; omega, ?_⟩
  intro i e he
  by_cases hi : i < m.length
  · rw [List.getElem?_append_left hi] at he
    exact h i e he
  · rw [List.getElem?_append_right (Nat.le_of_not_lt hi)] at he
    by_cases h0 : i - m.length = 0
    · rw [h0] at he
      simp only [List.getElem?_cons_zero, Option.some.injEq] at he
      subst he
      simp only
      omega
    · obtain ⟨j, hj⟩ := Nat.exists_eq_succ_of_ne_zero h0
      rw [hj] at he
      simp at he

/-- the values of the map are `c0, c0 + 1, …` in insertion order -/
theorem NumFrom.dense {c0 : Nat} {m : PMap} {c : Nat} (h : NumFrom c0 m c) :
    m.map Prod.snd = List.range' c0 m.length := by
  apply List.ext_getElem (by simp)
  intro i h1 h2
  rw [List.getElem_map, List.getElem_range']
  have hi : i < m.length := by simpa using h1
  have := h.2 i m[i] (List.getElem?_eq_getElem hi)
  omega

/-- different pairs have different numbers -/
theorem NumFrom.injOn {c0 : Nat} {m : PMap} {c : Nat} (h : NumFrom c0 m c) : InjOn (lookupF m) m.dom := by
  intro x hx y hy he
  obtain ⟨n, hn⟩ := Isx.mem_dom_iff.mp hx
  obtain ⟨n', hn'⟩ := Isx.mem_dom_iff.mp hy
  simp only [lookupF, hn, hn', Option.getD_some] at he
  subst he
  obtain ⟨i, hi⟩ := List.mem_iff_getElem?.mp (Ibu.mem_of_lookup hn)
  obtain ⟨j, hj⟩ := List.mem_iff_getElem?.mp (Ibu.mem_of_lookup hn')
  have h1 := h.2 i _ hi
  have h2 := h.2 j _ hj
  simp only at h1 h2
  have : i = j := by omega
  subst this
  rw [hi] at hj
  exact (Prod.mk.inj (Option.some.inj hj)).1

/-- every number of the map is in `c0 … c0 + n - 1` -/
theorem NumFrom.lookup_lt {c0 : Nat} {m : PMap} {c : Nat} (h : NumFrom c0 m c) {p : Nat × Nat} {n : Nat}
    (hn : m.lookup p = some n) : c0 ≤ n ∧ n < c := by
  obtain ⟨i, hi⟩ := List.mem_iff_getElem?.mp (Ibu.mem_of_lookup hn)
  have h1 := h.2 i _ hi
  have : i < m.length := by
    apply Classical.byContradiction
    intro hlt
    rw [List.getElem?_eq_none (Nat.le_of_not_lt hlt)] at hi
    cases hi
  simp only at h1
  rw [h.1]; omega

/-- the map only grows (`Isx.Ext`) -/
theorem ext_pres (m0 : PMap) : Pres (fun m _ => Isx.Ext m0 m) :=
  fun _ _ pr h _ => Isx.Ext.trans h (Isx.ext_snoc pr _)

/-! ### the certificate, top-down -/

theorem mem_prodTS {tr : Nat × Nat → Nat} {a b : List (List Nat)} {x : List Nat} :
    x ∈ prodTS tr a b ↔ ∃ ks ks', ks ∈ a ∧ ks' ∈ b ∧ (ks.zip ks').map tr = x := by
  simp only [prodTS, mem_normT, List.mem_flatMap, List.mem_map]
  constructor
  · rintro ⟨ks, h1, ks', h2, h⟩; exact ⟨ks, ks', h1, h2, h⟩
  · rintro ⟨ks, ks', h1, h2, h⟩; exact ⟨ks, h1, ks', h2, h⟩

theorem mem_allPairs {a b : List Nat} {pr : Nat × Nat} : pr ∈ allPairs a b ↔ pr.1 ∈ a ∧ pr.2 ∈ b := by
  simp only [allPairs, List.mem_flatMap, List.mem_map]
  constructor
  · rintro ⟨x, hx, y, hy, rfl⟩; exact ⟨hx, hy⟩
  · rintro ⟨h1, h2⟩; exact ⟨pr.1, h1, pr.2, h2, rfl⟩

/-- the arity bits of a valuation under which a state has a tuple hold the length of the tuple (the invariant of the
top-down encoding: `addArityToSymbol`; arities are below `MAX_SYMBOL_ARITY = 64`) -/
def ArityOK (T : TableTD) : Prop :=
  ∀ (ρ : Nat → Bool) (n p : Nat) (ks : List Nat), n < 64 → HasRuleTD T (withArity ρ n) p ks → ks.length = n

/-- a loaded table has the invariant -/
theorem arityOK_ofRulesTD (rs : List Rule) (h : ∀ r, r ∈ rs → r.kids.length < 64) : ArityOK (ofRulesTD rs) := by
  intro ρ n p ks hn hr
  obtain ⟨r, hr, h1, _, _, h4⟩ := (hasRuleTD_ofRulesTD_gen rs _ p ks).mp hr
  have hk : ks.length < 64 := by rw [← h1]; exact h r hr
  exact ((arOK_withArity_lt ρ hn hk).mp h4).symm

/-- the table obtained from a bottom-up table by `GetTopDownAut` has the invariant -/
theorem arityOK_getTopDownAut {T : Table} (hT : TableOk T) (F : List Nat) (h : ∀ ks, ks ∈ T.keys → ks.length < 64) :
    ArityOK (getTopDownAut T F) := by
  intro ρ n p ks hn hr
  have hk : ks.length < 64 := h ks (hasRule_key ((absTD_invert_gen hT F _ p ks).mp hr).2.2)
  exact (absTD_invert_arity hT F ρ p ks n hn hk hr).symm

/-- what the Boolean check `tdCertB` establishes -/
structure TdCert (TA : TableTD) (FA : List Nat) (TB : TableTD) (FB : List Nat) (m : PMap) (R : TableTD) (F : List Nat) :
    Prop where
  closed : ∀ pr, pr ∈ m.dom → ∀ (ρ : Nat → Bool) (ks ks' : List Nat), ks ∈ eval (getTD TA pr.1) ρ →
    ks' ∈ eval (getTD TB pr.2) ρ → ∀ c, c ∈ ks.zip ks' → c ∈ m.dom
  table : ∀ pr, pr ∈ m.dom →
    getTD R (lookupF m pr) = apply2 (prodTS (lookupF m)) (getTD TA pr.1) (getTD TB pr.2)
  keys : ∀ x, x ∈ keysTD R → ∃ pr, pr ∈ m.dom ∧ lookupF m pr = x
  fin : ∀ pr, pr ∈ finalPairsL FA FB → pr ∈ m.dom
  finEq : F = (finalPairsL FA FB).map (lookupF m)

theorem tdCertB_sound {TA : TableTD} {FA : List Nat} {TB : TableTD} {FB : List Nat} {m : PMap} {R : TableTD}
    {F : List Nat} (h : tdCertB TA FA TB FB m R F = true) : TdCert TA FA TB FB m R F := by
  simp only [tdCertB, tdClosedB, tdTableB, Bool.and_eq_true, List.all_eq_true, List.contains_iff_mem, beq_iff_eq,
    List.mem_map] at h
  obtain ⟨⟨⟨h1, h2, h3⟩, h4⟩, h5⟩ := h
  exact ⟨fun pr hpr ρ ks ks' hk hk' c hc => h1 pr hpr _ (voidApply2_complete ρ _ _) ks hk ks' hk' c hc,
    h2, h3, h4, h5⟩

/-- the rules of the abstraction of the result are those of the product automaton on the discovered pairs -/
theorem TdCert.rules {TA : TableTD} {FA : List Nat} {TB : TableTD} {FB : List Nat} {m : PMap} {R : TableTD} {F : List Nat}
    (h : TdCert TA FA TB FB m R F) (hA : ArityOK TA) (hB : ArityOK TB) (syms : List Nat) (r : Rule) :
    r ∈ absRulesTD syms R ↔ r ∈ prodRules (absTD syms TA FA) (absTD syms TB FB) m.dom (lookupF m) := by
  rw [mem_absRulesTD, mem_prodRules]
  constructor
  · rintro ⟨hs, n, hn, hr⟩
    obtain ⟨pr, hpr, hx⟩ := h.keys _ (hasRuleTD_key hr)
    unfold HasRuleTD at hr
    rw [← hx, h.table pr hpr, apply2_eval, mem_prodTS] at hr
    obtain ⟨ks, ks', hk, hk', he⟩ := hr
    have l1 : ks.length = n := hA (bits r.sym) n pr.1 ks hn hk
    have l2 : ks'.length = n := hB (bits r.sym) n pr.2 ks' hn hk'
    refine ⟨⟨r.sym, ks, pr.1⟩, mem_absRulesTD.mpr ⟨hs, n, hn, hk⟩, ⟨r.sym, ks', pr.2⟩,
      mem_absRulesTD.mpr ⟨hs, n, hn, hk'⟩, rfl, by simp only [l1, l2], hpr, ?_⟩
    cases r
    simp only [Rule.mk.injEq, true_and] at he hx ⊢
    exact ⟨he.symm, hx.symm⟩
  · rintro ⟨rA, hrA, rB, hrB, hs, hl, hd, rfl⟩
    obtain ⟨hsA, n, hn, hkA⟩ := mem_absRulesTD.mp hrA
    obtain ⟨_, n', hn', hkB⟩ := mem_absRulesTD.mp hrB
    have l1 : rA.kids.length = n := hA _ n _ _ hn hkA
    have l2 : rB.kids.length = n' := hB _ n' _ _ hn' hkB
    have : n' = n := by omega
    subst this
    refine ⟨hsA, n', hn, ?_⟩
    unfold HasRuleTD
    simp only
    rw [h.table _ hd, apply2_eval, mem_prodTS]
    rw [hs] at hkB
    exact ⟨rA.kids, rB.kids, hkA, hkB, rfl⟩

theorem TdCert.final {TA : TableTD} {FA : List Nat} {TB : TableTD} {FB : List Nat} {m : PMap} {R : TableTD} {F : List Nat}
    (h : TdCert TA FA TB FB m R F) (syms : List Nat) (x : Nat) :
    x ∈ F ↔ x ∈ prodFinal (absTD syms TA FA) (absTD syms TB FB) (lookupF m) := by
  rw [h.finEq, Isx.mem_prodFinal]
  exact Iff.rfl

/-- the abstraction of the result is the product automaton on the discovered pairs, as sets of rules and final states -/
theorem TdCert.setEq {TA : TableTD} {FA : List Nat} {TB : TableTD} {FB : List Nat} {m : PMap} {R : TableTD} {F : List Nat}
    (h : TdCert TA FA TB FB m R F) (hA : ArityOK TA) (hB : ArityOK TB) (syms : List Nat) :
    SetEqTA (absTD syms R F) (prodOn (absTD syms TA FA) (absTD syms TB FB) m.dom (lookupF m)) :=
  ⟨h.rules hA hB syms, h.final syms⟩

/-- the discovered pairs are closed under the children of matching rules of the abstractions -/
theorem TdCert.closedAbs {TA : TableTD} {FA : List Nat} {TB : TableTD} {FB : List Nat} {m : PMap} {R : TableTD}
    {F : List Nat} (h : TdCert TA FA TB FB m R F) (hA : ArityOK TA) (hB : ArityOK TB) (syms : List Nat) :
    Closed (absTD syms TA FA) (absTD syms TB FB) m.dom := by
  intro rA hrA rB hrB hs hl hd c hc
  obtain ⟨_, n, hn, hkA⟩ := mem_absRulesTD.mp hrA
  obtain ⟨_, n', hn', hkB⟩ := mem_absRulesTD.mp hrB
  have l1 : rA.kids.length = n := hA _ n _ _ hn hkA
  have l2 : rB.kids.length = n' := hB _ n' _ _ hn' hkB
  have : n' = n := by omega
  subst this
  rw [hs] at hkB
  exact h.closed _ hd _ _ _ hkA hkB c hc

theorem TdCert.finalPairs {TA : TableTD} {FA : List Nat} {TB : TableTD} {FB : List Nat} {m : PMap} {R : TableTD}
    {F : List Nat} (h : TdCert TA FA TB FB m R F) (syms : List Nat) :
    ∀ p, p ∈ (absTD syms TA FA).final → ∀ q, q ∈ (absTD syms TB FB).final → (p, q) ∈ m.dom :=
  fun p hp q hq => h.fin (p, q) (mem_allPairs.mpr ⟨hp, hq⟩)

/-- a certified table accepts (in the abstraction) exactly the intersection -/
theorem TdCert.lang {TA : TableTD} {FA : List Nat} {TB : TableTD} {FB : List Nat} {m : PMap} {R : TableTD} {F : List Nat}
    (h : TdCert TA FA TB FB m R F) (hinj : InjOn (lookupF m) m.dom) (hA : ArityOK TA) (hB : ArityOK TB)
    (syms : List Nat) (t : Tree) :
    accepts (absTD syms R F) t = (accepts (absTD syms TA FA) t && accepts (absTD syms TB FB) t) := by
  rw [(h.setEq hA hB syms).lang, Bool.eq_iff_iff, Bool.and_eq_true]
  exact isect_cert _ _ m.dom (lookupF m) (h.closedAbs hA hB syms) hinj (h.finalPairs syms) t

/-! ### the top-down model -/

/-- everything the top-down model establishes about its output: the certificate and the numbering -/
theorem bddIsectTDFrom_spec {c0 : Nat} {TA : TableTD} {FA : List Nat} {TB : TableTD} {FB : List Nat} {fuel : Nat}
    {R : TableTD} {F : List Nat} {m : PMap} (h : bddIsectTDFrom c0 TA FA TB FB fuel = some (R, F, m)) :
    TdCert TA FA TB FB m R F ∧ ∃ c, NumFrom c0 m c := by
  unfold bddIsectTDFrom at h
  split at h
  · cases h
  · rename_i s R' hl
    split at h
    · rename_i hc
      simp only [Option.some.injEq, Prod.mk.injEq] at h
      obtain ⟨rfl, rfl, rfl⟩ := h
      refine ⟨tdCertB_sound hc, s.cnt, ?_⟩
      exact tdLoop_pres (numFrom_pres c0) TA TB fuel _ _ _ _ hl
        (translL_pres (numFrom_pres c0) _ _ (numFrom_init c0))
    · cases h

/-- the abstraction of the result of the top-down symbolic intersection is the product automaton of the abstractions
of the operands on the discovered pairs, numbered by the translation map (as sets of rules and of final states) -/
theorem bddIsectTDFrom_abs {c0 : Nat} {TA : TableTD} {FA : List Nat} {TB : TableTD} {FB : List Nat} {fuel : Nat}
    {R : TableTD} {F : List Nat} {m : PMap} (h : bddIsectTDFrom c0 TA FA TB FB fuel = some (R, F, m))
    (hA : ArityOK TA) (hB : ArityOK TB) (syms : List Nat) :
    SetEqTA (absTD syms R F) (prodOn (absTD syms TA FA) (absTD syms TB FB) m.dom (lookupF m)) ∧
    Closed (absTD syms TA FA) (absTD syms TB FB) m.dom ∧ InjOn (lookupF m) m.dom ∧
    (∀ p, p ∈ FA → ∀ q, q ∈ FB → (p, q) ∈ m.dom) := by
  obtain ⟨hc, c, hn⟩ := bddIsectTDFrom_spec h
  exact ⟨hc.setEq hA hB syms, hc.closedAbs hA hB syms, hn.injOn, hc.finalPairs syms⟩

/-- the top-down symbolic intersection accepts exactly the intersection, whatever the initial value of the counter -/
theorem bddIsectTDFrom_lang {c0 : Nat} {TA : TableTD} {FA : List Nat} {TB : TableTD} {FB : List Nat} {fuel : Nat}
    {R : TableTD} {F : List Nat} {m : PMap} (h : bddIsectTDFrom c0 TA FA TB FB fuel = some (R, F, m))
    (hA : ArityOK TA) (hB : ArityOK TB) (syms : List Nat) (t : Tree) :
    accepts (absTD syms R F) t = (accepts (absTD syms TA FA) t && accepts (absTD syms TB FB) t) := by
  obtain ⟨hc, c, hn⟩ := bddIsectTDFrom_spec h
  exact hc.lang hn.injOn hA hB syms t

/-- **the top-down symbolic intersection accepts exactly the intersection** -/
theorem bddIsectTD_lang {TA : TableTD} {FA : List Nat} {TB : TableTD} {FB : List Nat} {fuel : Nat}
    {R : TableTD} {F : List Nat} {m : PMap} (h : bddIsectTD TA FA TB FB fuel = some (R, F, m))
    (hA : ArityOK TA) (hB : ArityOK TB) (syms : List Nat) (t : Tree) :
    accepts (absTD syms R F) t = (accepts (absTD syms TA FA) t && accepts (absTD syms TB FB) t) :=
  bddIsectTDFrom_lang h hA hB syms t

/-- the translation map of the top-down model takes exactly the values `c0, …, c0 + n - 1`, in discovery order, and is
injective -/
theorem bddIsectTDFrom_numbers {c0 : Nat} {TA : TableTD} {FA : List Nat} {TB : TableTD} {FB : List Nat} {fuel : Nat}
    {R : TableTD} {F : List Nat} {m : PMap} (h : bddIsectTDFrom c0 TA FA TB FB fuel = some (R, F, m)) :
    m.map Prod.snd = List.range' c0 m.length ∧ InjOn (lookupF m) m.dom := by
  obtain ⟨_, c, hn⟩ := bddIsectTDFrom_spec h
  exact ⟨hn.dense, hn.injOn⟩

/-! ### the certificate, bottom-up -/

theorem mem_buReady {TA TB : Table} {D : List (Nat × Nat)} {ks ks' : List Nat} :
    (ks, ks') ∈ buReady TA TB D ↔
      ks ∈ TA.keys ∧ ks' ∈ TB.keys ∧ ks'.length = ks.length ∧ ∀ c, c ∈ ks.zip ks' → c ∈ D := by
  simp only [buReady, List.mem_flatMap, List.mem_map, List.mem_filter, Bool.and_eq_true, beq_iff_eq,
    List.all_eq_true, List.contains_iff_mem, Prod.mk.injEq]
  constructor
  · rintro ⟨a, ha, b, ⟨hb, hl, hd⟩, rfl, rfl⟩; exact ⟨ha, hb, hl, hd⟩
  · rintro ⟨ha, hb, hl, hd⟩; exact ⟨ks, ha, ks', ⟨hb, hl, hd⟩, rfl, rfl⟩

/-- what the Boolean check `buCertB` establishes -/
structure BuCert (TA : Table) (FA : List Nat) (TB : Table) (FB : List Nat) (m : PMap) (R : Table) (F : List Nat) :
    Prop where
  closed : ∀ ks ks', (ks, ks') ∈ buReady TA TB m.dom → ∀ (ρ : Nat → Bool) (p q : Nat), p ∈ eval (TA.get ks) ρ →
    q ∈ eval (TB.get ks') ρ → (p, q) ∈ m.dom
  table : ∀ ks ks', (ks, ks') ∈ buReady TA TB m.dom →
    R.get ((ks.zip ks').map (lookupF m)) = apply2 (prodS (lookupF m)) (TA.get ks) (TB.get ks')
  keys : ∀ kk, kk ∈ R.keys → ∃ ks ks', (ks, ks') ∈ buReady TA TB m.dom ∧ (ks.zip ks').map (lookupF m) = kk
  fin : ∀ x, x ∈ F ↔ ∃ pr, pr ∈ m.dom ∧ pr.1 ∈ FA ∧ pr.2 ∈ FB ∧ lookupF m pr = x

theorem nil_mem_keys (T : Table) : [] ∈ T.keys := List.mem_cons_self

theorem buCertB_sound {TA : Table} {FA : List Nat} {TB : Table} {FB : List Nat} {m : PMap} {R : Table}
    {F : List Nat} (h : buCertB TA FA TB FB m R F = true) : BuCert TA FA TB FB m R F := by
  simp only [buCertB, buSymClosedB, buTableB, Bool.and_eq_true, List.all_eq_true, List.contains_iff_mem, beq_iff_eq,
    List.mem_map, seteq_iff, List.mem_filter] at h
  obtain ⟨⟨h1, h2, h3⟩, h4⟩ := h
  refine ⟨fun ks ks' hk ρ p q hp hq => h1 (ks, ks') hk _ (voidApply2_complete ρ _ _) p hp q hq,
    fun ks ks' hk => h2 (ks, ks') hk, ?_, ?_⟩
  · intro kk hkk
    rcases List.mem_cons.mp hkk with rfl | hkk
    · exact ⟨[], [], mem_buReady.mpr ⟨nil_mem_keys _, nil_mem_keys _, rfl, fun c hc => by simp at hc⟩, rfl⟩
    · obtain ⟨e, he, rfl⟩ := List.mem_map.mp hkk
      obtain ⟨kk', hk', h'⟩ := h3 e he
      exact ⟨kk'.1, kk'.2, hk', h'⟩
  · intro x
    rw [h4 x]
    constructor
    · rintro ⟨pr, ⟨h5, h6, h7⟩, h8⟩; exact ⟨pr, h5, h6, h7, h8⟩
    · rintro ⟨pr, h5, h6, h7, h8⟩; exact ⟨pr, ⟨h5, h6, h7⟩, h8⟩

/-- the rules of the abstraction of the result are those of the bottom-up product automaton on the discovered pairs -/
theorem BuCert.rules {TA : Table} {FA : List Nat} {TB : Table} {FB : List Nat} {m : PMap} {R : Table} {F : List Nat}
    (h : BuCert TA FA TB FB m R F) (syms : List Nat) (r : Rule) :
    r ∈ absRules syms R ↔ r ∈ prodRulesBU (absBU syms TA FA) (absBU syms TB FB) m.dom (lookupF m) := by
  rw [mem_absRules, Ibu.mem_prodRulesBU]
  constructor
  · rintro ⟨hs, hr⟩
    obtain ⟨ks, ks', hk, he⟩ := h.keys _ (hasRule_key hr)
    unfold HasRule at hr
    rw [← he, h.table ks ks' hk, apply2_eval, mem_prodS] at hr
    obtain ⟨p, q, hp, hq, hx⟩ := hr
    obtain ⟨_, _, hl, hd⟩ := mem_buReady.mp hk
    refine ⟨⟨r.sym, ks, p⟩, mem_absRules.mpr ⟨hs, hp⟩, ⟨r.sym, ks', q⟩, mem_absRules.mpr ⟨hs, hq⟩, rfl, hl, hd, ?_⟩
    cases r
    simp only [Rule.mk.injEq, true_and] at he hx ⊢
    exact ⟨he.symm, hx.symm⟩
  · rintro ⟨rA, hrA, rB, hrB, hs, hl, hd, rfl⟩
    obtain ⟨hsA, hkA⟩ := mem_absRules.mp hrA
    obtain ⟨_, hkB⟩ := mem_absRules.mp hrB
    refine ⟨hsA, ?_⟩
    have hk : (rA.kids, rB.kids) ∈ buReady TA TB m.dom := mem_buReady.mpr ⟨hasRule_key hkA, hasRule_key hkB, hl, hd⟩
    unfold HasRule
    simp only
    rw [h.table _ _ hk, apply2_eval, mem_prodS]
    rw [hs] at hkB
    exact ⟨rA.parent, rB.parent, hkA, hkB, rfl⟩

/-- the abstraction of the result is the bottom-up product automaton on the discovered pairs, as sets of rules and
final states -/
theorem BuCert.setEq {TA : Table} {FA : List Nat} {TB : Table} {FB : List Nat} {m : PMap} {R : Table} {F : List Nat}
    (h : BuCert TA FA TB FB m R F) (syms : List Nat) :
    SetEqTA (absBU syms R F) (prodBU (absBU syms TA FA) (absBU syms TB FB) m.dom (lookupF m)) :=
  ⟨h.rules syms, fun x => (h.fin x).trans
    (Ibu.mem_prodFinalBU (A := absBU syms TA FA) (B := absBU syms TB FB) (D := m.dom) (m := lookupF m) (x := x)).symm⟩

/-- the discovered pairs are bottom-up closed for the abstractions -/
theorem BuCert.closedAbs {TA : Table} {FA : List Nat} {TB : Table} {FB : List Nat} {m : PMap} {R : Table}
    {F : List Nat} (h : BuCert TA FA TB FB m R F) (syms : List Nat) :
    BUClosed (absBU syms TA FA) (absBU syms TB FB) m.dom := by
  intro rA hrA rB hrB hs hl hd
  obtain ⟨_, hkA⟩ := mem_absRules.mp hrA
  obtain ⟨_, hkB⟩ := mem_absRules.mp hrB
  rw [hs] at hkB
  exact h.closed _ _ (mem_buReady.mpr ⟨hasRule_key hkA, hasRule_key hkB, hl, hd⟩) _ _ _ hkA hkB

/-- a certified table accepts (in the abstraction) exactly the intersection -/
theorem BuCert.lang {TA : Table} {FA : List Nat} {TB : Table} {FB : List Nat} {m : PMap} {R : Table} {F : List Nat}
    (h : BuCert TA FA TB FB m R F) (hinj : InjOn (lookupF m) m.dom) (syms : List Nat) (t : Tree) :
    accepts (absBU syms R F) t = (accepts (absBU syms TA FA) t && accepts (absBU syms TB FB) t) := by
  rw [(h.setEq syms).lang, Bool.eq_iff_iff, Bool.and_eq_true]
  exact isect_bu_cert _ _ m.dom (lookupF m) (h.closedAbs syms) hinj t

/-! ### the bottom-up model -/

/-- everything the bottom-up model establishes about its output: the certificate and the numbering -/
theorem bddIsectBUFrom_spec {c0 : Nat} {TA : Table} {FA : List Nat} {TB : Table} {FB : List Nat} {fuel : Nat}
    {R : Table} {F : List Nat} {m : PMap} (h : bddIsectBUFrom c0 TA FA TB FB fuel = some (R, F, m)) :
    BuCert TA FA TB FB m R F ∧ ∃ c, NumFrom c0 m c := by
  unfold bddIsectBUFrom at h
  split at h
  · cases h
  · rename_i s R' F' hl
    split at h
    · rename_i hc
      simp only [Option.some.injEq, Prod.mk.injEq] at h
      obtain ⟨rfl, rfl, rfl⟩ := h
      refine ⟨buCertB_sound hc, s.cnt, ?_⟩
      exact buLoop_pres (numFrom_pres c0) TA TB FA FB fuel _ _ _ _ _ _ hl
        (apply2S_pres leafBU (fun s v w => leafBU_pres (numFrom_pres c0) s v w) _ _ _ (numFrom_init c0))
    · cases h

/-- the abstraction of the result of the bottom-up symbolic intersection is the bottom-up product automaton (`prodBU`:
the pairs of rules all of whose children pairs were discovered) of the abstractions of the operands on the discovered
pairs, numbered by the translation map (as sets of rules and of final states); the discovered set is bottom-up closed -/
theorem bddIsectBUFrom_abs {c0 : Nat} {TA : Table} {FA : List Nat} {TB : Table} {FB : List Nat} {fuel : Nat}
    {R : Table} {F : List Nat} {m : PMap} (h : bddIsectBUFrom c0 TA FA TB FB fuel = some (R, F, m)) (syms : List Nat) :
    SetEqTA (absBU syms R F) (prodBU (absBU syms TA FA) (absBU syms TB FB) m.dom (lookupF m)) ∧
    BUClosed (absBU syms TA FA) (absBU syms TB FB) m.dom ∧ InjOn (lookupF m) m.dom := by
  obtain ⟨hc, c, hn⟩ := bddIsectBUFrom_spec h
  exact ⟨hc.setEq syms, hc.closedAbs syms, hn.injOn⟩

/-- the bottom-up symbolic intersection accepts exactly the intersection, whatever the initial value of the counter -/
theorem bddIsectBUFrom_lang {c0 : Nat} {TA : Table} {FA : List Nat} {TB : Table} {FB : List Nat} {fuel : Nat}
    {R : Table} {F : List Nat} {m : PMap} (h : bddIsectBUFrom c0 TA FA TB FB fuel = some (R, F, m)) (syms : List Nat)
    (t : Tree) : accepts (absBU syms R F) t = (accepts (absBU syms TA FA) t && accepts (absBU syms TB FB) t) := by
  obtain ⟨hc, c, hn⟩ := bddIsectBUFrom_spec h
  exact hc.lang hn.injOn syms t

/-- **the bottom-up symbolic intersection accepts exactly the intersection** -/
theorem bddIsectBU_lang {TA : Table} {FA : List Nat} {TB : Table} {FB : List Nat} {fuel : Nat}
    {R : Table} {F : List Nat} {m : PMap} (h : bddIsectBU TA FA TB FB fuel = some (R, F, m)) (syms : List Nat)
    (t : Tree) : accepts (absBU syms R F) t = (accepts (absBU syms TA FA) t && accepts (absBU syms TB FB) t) :=
  bddIsectBUFrom_lang h syms t

/-- the translation map of the bottom-up model takes exactly the values `c0, …, c0 + n - 1`, in discovery order, and is
injective -/
theorem bddIsectBUFrom_numbers {c0 : Nat} {TA : Table} {FA : List Nat} {TB : Table} {FB : List Nat} {fuel : Nat}
    {R : Table} {F : List Nat} {m : PMap} (h : bddIsectBUFrom c0 TA FA TB FB fuel = some (R, F, m)) :
    m.map Prod.snd = List.range' c0 m.length ∧ InjOn (lookupF m) m.dom := by
  obtain ⟨_, c, hn⟩ := bddIsectBUFrom_spec h
  exact ⟨hn.dense, hn.injOn⟩

/-- **dense numbering**: the translation maps returned by the two symbolic intersections (`stateCnt = 0`) take exactly the
values `0, 1, …, n - 1`, in the order in which the pairs were discovered, and are injective.  (With a counter that starts
at `c0` the values are `c0, …, c0 + n - 1`: `bddIsectTDFrom_numbers`, `bddIsectBUFrom_numbers`.) -/
theorem bddIsect_numbers_dense :
    (∀ {TA : TableTD} {FA : List Nat} {TB : TableTD} {FB : List Nat} {fuel : Nat} {R : TableTD} {F : List Nat} {m : PMap},
      bddIsectTD TA FA TB FB fuel = some (R, F, m) →
        m.map Prod.snd = List.range m.length ∧ InjOn (lookupF m) m.dom) ∧
    (∀ {TA : Table} {FA : List Nat} {TB : Table} {FB : List Nat} {fuel : Nat} {R : Table} {F : List Nat} {m : PMap},
      bddIsectBU TA FA TB FB fuel = some (R, F, m) →
        m.map Prod.snd = List.range m.length ∧ InjOn (lookupF m) m.dom) := by
  constructor
  · intro TA FA TB FB fuel R F m h
    have := bddIsectTDFrom_numbers h
    rw [← List.range_eq_range'] at this
    exact this
  · intro TA FA TB FB fuel R F m h
    have := bddIsectBUFrom_numbers h
    rw [← List.range_eq_range'] at this
    exact this

/-! ### examples (non-vacuity) -/
namespace BddIsectEx

/-- `a → 0`, `b → 0`, `g(0,0) → 1`, `h(1) → 1`; final 1 -/
def exA : TA := ⟨[⟨0, [], 0⟩, ⟨1, [], 0⟩, ⟨2, [0, 0], 1⟩, ⟨3, [1], 1⟩], [1]⟩
/-- `a → 0`, `g(0,0) → 1`, `g(1,0) → 1`, `h(1) → 2`, `h(2) → 1`; final 1 -/
def exB : TA := ⟨[⟨0, [], 0⟩, ⟨2, [0, 0], 1⟩, ⟨2, [1, 0], 1⟩, ⟨3, [1], 2⟩, ⟨3, [2], 1⟩], [1]⟩
def syms : List Nat := [0, 1, 2, 3]
def showRules (rs : List Rule) : List (Nat × List Nat × Nat) := rs.map (fun r => (r.sym, r.kids, r.parent))

def tdA : TableTD := ofRulesTD exA.rules
def tdB : TableTD := ofRulesTD exB.rules
def buA : Table := ofRules exA.rules
def buB : Table := ofRules exB.rules

-- top-down: the pair of final states first, then the pairs in the tuples in the order of the leaves of the apply
#guard (bddIsectTD tdA [1] tdB [1] 10).map (fun r => (showRules (absRulesTD syms r.1), r.2)) ==
  some ([(0, [], 2), (3, [0], 1), (2, [2, 2], 0), (2, [3, 2], 0), (3, [1], 0)], [0],
    [((1, 1), 0), ((1, 2), 1), ((0, 0), 2), ((0, 1), 3)])
-- the pair `(0, 1)` is discovered top-down (through `g(0,0) → 1` and `g(1,0) → 1`) although no tree reaches it
-- bottom-up: the pairs of leaf states first; only pairs that label a common tree
#guard (bddIsectBU buA [1] buB [1] 10).map (fun r => (showRules (absRules syms r.1), r.2)) ==
  some ([(0, [], 0), (3, [2], 1), (3, [1], 2), (2, [0, 0], 1)], [1], [((0, 0), 0), ((1, 1), 1), ((1, 2), 2)])
-- the same automata in the explicit models: the same products up to the order of discovery
#guard (isectTD exA exB 10).map (fun r => (showRules r.1.rules, r.1.final, r.2)) ==
  some ([(2, [1, 1], 0), (2, [2, 1], 0), (3, [3], 0), (3, [0], 3), (0, [], 1)], [0],
    [((1, 1), 0), ((0, 0), 1), ((0, 1), 2), ((1, 2), 3)])
-- a counter that does not start at 0 (defect D10: uninitialised) shifts the numbers and nothing else
#guard (bddIsectTDFrom 7 tdA [1] tdB [1] 10).map (fun r => (showRules (absRulesTD syms r.1), r.2)) ==
  some ([(0, [], 9), (3, [7], 8), (2, [9, 9], 7), (2, [10, 9], 7), (3, [8], 7)], [7],
    [((1, 1), 7), ((1, 2), 8), ((0, 0), 9), ((0, 1), 10)])
#guard (bddIsectBUFrom 7 buA [1] buB [1] 10).map (fun r => (showRules (absRules syms r.1), r.2)) ==
  some ([(0, [], 7), (3, [9], 8), (3, [8], 9), (2, [7, 7], 8)], [8], [((0, 0), 7), ((1, 1), 8), ((1, 2), 9)])
-- out of fuel
#guard (bddIsectTD tdA [1] tdB [1] 3).isNone && (bddIsectBU buA [1] buB [1] 2).isNone
-- the apply with a side effect on the nullary MTBDDs: the translator is called on `(0, 0)` once
#guard ((apply2S leafBU ⟨[], [], 0⟩ (buA.get []) (buB.get [])).1.map,
    (apply2S leafBU ⟨[], [], 0⟩ (buA.get []) (buB.get [])).1.ws,
    (apply2S leafBU ⟨[], [], 0⟩ (buA.get []) (buB.get [])).1.cnt) == ([((0, 0), 0)], [(0, (0, 0))], 1)

theorem arityA : ArityOK tdA := arityOK_ofRulesTD _ (by decide)
theorem arityB : ArityOK tdB := arityOK_ofRulesTD _ (by decide)

-- the hypotheses of the main theorems hold on the example
example : (bddIsectTD tdA [1] tdB [1] 10).isSome = true ∧ (bddIsectBU buA [1] buB [1] 10).isSome = true ∧
    (bddIsectTDFrom 7 tdA [1] tdB [1] 10).isSome = true := by decide +kernel

example (t : Tree) : ∃ R F m, bddIsectTD tdA [1] tdB [1] 10 = some (R, F, m) ∧
    accepts (absTD syms R F) t = (accepts (absTD syms tdA [1]) t && accepts (absTD syms tdB [1]) t) := by
  cases h : bddIsectTD tdA [1] tdB [1] 10 with
  | none => exact absurd h (by decide +kernel)
  | some r => exact ⟨r.1, r.2.1, r.2.2, rfl, bddIsectTD_lang h arityA arityB syms t⟩

example (t : Tree) : ∃ R F m, bddIsectBU buA [1] buB [1] 10 = some (R, F, m) ∧
    accepts (absBU syms R F) t = (accepts (absBU syms buA [1]) t && accepts (absBU syms buB [1]) t) := by
  cases h : bddIsectBU buA [1] buB [1] 10 with
  | none => exact absurd h (by decide +kernel)
  | some r => exact ⟨r.1, r.2.1, r.2.2, rfl, bddIsectBU_lang h syms t⟩

-- the numbering of the example
example : (bddIsectTD tdA [1] tdB [1] 10).map (·.2.2.map Prod.snd) = some [0, 1, 2, 3] ∧
    (bddIsectTDFrom 7 tdA [1] tdB [1] 10).map (·.2.2.map Prod.snd) = some [7, 8, 9, 10] := by decide +kernel

-- `ArityOK` is needed: a table that holds the tuple `(5)` under the arity 0 against one that holds `()`: the model
-- (like the C++ without assertions) pairs them up to the rule `a → 0`, but the abstractions have no common tree
#guard (bddIsectTD [(1, .leaf [[5]])] [1] [(2, .leaf [[]])] [2] 5).map (fun r => showRules (absRulesTD [0] r.1)) ==
  some (List.replicate 64 (0, [], 0))

end BddIsectEx

end BddIsect
end Vata
