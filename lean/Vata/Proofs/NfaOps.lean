import Vata.NfaOps
/-!
# Language theorems for the word-automata operations (property C10)

`acceptsW` is characterised by paths (`acceptsW_iff`); every operation of `Vata/NfaOps.lean` is then handled by a
path transformation.
-/
namespace Vata
open Vata.W

/-! ### paths -/

/-- `Path N p w q`: the word `w` labels a path from `p` to `q` in `N` -/
inductive Path (N : NFA) : Nat → List Nat → Nat → Prop
  | nil (q : Nat) : Path N q [] q
  | cons {p a r : Nat} {w : List Nat} {q : Nat} : (p, a, r) ∈ N.trans → Path N r w q → Path N p (a :: w) q

theorem mem_stepW {N : NFA} {S : List Nat} {a q : Nat} :
    q ∈ stepW N S a ↔ ∃ p, p ∈ S ∧ (p, a, q) ∈ N.trans := by
  simp only [stepW, List.mem_map, List.mem_filter, Bool.and_eq_true, List.contains_iff_mem, beq_iff_eq]
  constructor
  · rintro ⟨⟨p, b, r⟩, ⟨he, hp, hb⟩, hr⟩
    simp only at hp hb hr
    subst hb; subst hr
    exact ⟨p, hp, he⟩
  · rintro ⟨p, hp, he⟩; exact ⟨(p, a, q), ⟨he, hp, rfl⟩, rfl⟩

theorem Path.snoc {N : NFA} {p r q a : Nat} {w : List Nat} (h : Path N p w r) (he : (r, a, q) ∈ N.trans) :
    Path N p (w ++ [a]) q := by
  induction h with
  | nil r => exact .cons he (.nil q)
  | cons h1 _ ih => exact .cons h1 (ih he)

theorem Path.append {N : NFA} {p r q : Nat} {u v : List Nat} (h1 : Path N p u r) (h2 : Path N r v q) :
    Path N p (u ++ v) q := by
  induction h1 with
  | nil r => exact h2
  | cons h1 _ ih => exact .cons h1 (ih h2)

theorem mem_foldl_stepW (N : NFA) : ∀ (w : List Nat) (S : List Nat) (q : Nat),
    q ∈ w.foldl (stepW N) S ↔ ∃ s, s ∈ S ∧ Path N s w q
  | [], S, q => by
    simp only [List.foldl_nil]
    constructor
    · intro h; exact ⟨q, h, .nil q⟩
    · rintro ⟨s, hs, hp⟩; cases hp; exact hs
  | a :: w, S, q => by
    rw [List.foldl_cons, mem_foldl_stepW N w]
    constructor
    · rintro ⟨r, hr, hp⟩
      obtain ⟨p, hpS, he⟩ := mem_stepW.mp hr
      exact ⟨p, hpS, .cons he hp⟩
    · rintro ⟨s, hs, hp⟩
      cases hp with
      | cons he hp' => exact ⟨_, mem_stepW.mpr ⟨s, hs, he⟩, hp'⟩

/-- path characterisation of `run` -/
theorem mem_run_iff (N : NFA) (w : List Nat) (q : Nat) : q ∈ run N w ↔ ∃ s, s ∈ N.start ∧ Path N s w q :=
  mem_foldl_stepW N w N.start q

/-- path characterisation of acceptance -/
theorem acceptsW_iff (N : NFA) (w : List Nat) :
    acceptsW N w = true ↔ ∃ s, s ∈ N.start ∧ ∃ q, q ∈ N.final ∧ Path N s w q := by
  simp only [W.acceptsW, W.accepting, List.any_eq_true, List.contains_iff_mem, mem_run_iff]
  constructor
  · rintro ⟨q, ⟨s, hs, hp⟩, hf⟩; exact ⟨s, hs, q, hf, hp⟩
  · rintro ⟨s, hs, q, hf, hp⟩; exact ⟨q, ⟨s, hs, hp⟩, hf⟩

/-- a state map that sends transitions to transitions sends paths to paths -/
theorem Path.map {N M : NFA} (f : Nat → Nat) (h : ∀ p a q, (p, a, q) ∈ N.trans → (f p, a, f q) ∈ M.trans)
    {p q : Nat} {w : List Nat} (hp : Path N p w q) : Path M (f p) w (f q) := by
  induction hp with
  | nil q => exact .nil _
  | cons he _ ih => exact .cons (h _ _ _ he) ih

theorem Path.mono {N M : NFA} (h : ∀ e, e ∈ N.trans → e ∈ M.trans) {p q : Nat} {w : List Nat}
    (hp : Path N p w q) : Path M p w q :=
  Path.map (fun x => x) (fun _ _ _ he => h _ he) hp

/-- a path that starts in a set `X` which the transitions of `U` cannot leave, and on which they are transitions
of `A`, is a path of `A` (and ends in `X`) -/
theorem Path.restrict {U A : NFA} (X : Nat → Prop)
    (h : ∀ p a q, (p, a, q) ∈ U.trans → X p → (p, a, q) ∈ A.trans ∧ X q)
    {p q : Nat} {w : List Nat} (hp : Path U p w q) : X p → Path A p w q ∧ X q := by
  induction hp with
  | nil q => intro hx; exact ⟨.nil _, hx⟩
  | cons he _ ih =>
    intro hx
    obtain ⟨h1, h2⟩ := h _ _ _ he hx
    obtain ⟨h3, h4⟩ := ih h2
    exact ⟨.cons h1 h3, h4⟩

/-! ### 1. reversal -/

theorem mem_nfaReverse_trans {N : NFA} {p a q : Nat} : (p, a, q) ∈ (nfaReverse N).trans ↔ (q, a, p) ∈ N.trans := by
  simp only [nfaReverse, List.mem_map]
  constructor
  · rintro ⟨⟨x, b, y⟩, he, heq⟩
    simp only [Prod.mk.injEq] at heq
    obtain ⟨h1, h2, h3⟩ := heq
    subst h1; subst h2; subst h3
    exact he
  · intro he; exact ⟨(q, a, p), he, rfl⟩

/-- reversing all edges reverses paths -/
theorem Path.reverse {N : NFA} {p q : Nat} {w : List Nat} (hp : Path N p w q) :
    Path (nfaReverse N) q w.reverse p := by
  induction hp with
  | nil q => exact .nil _
  | cons he _ ih =>
    rw [List.reverse_cons]
    exact ih.snoc (mem_nfaReverse_trans.mpr he)

theorem Path.of_reverse {N : NFA} {p q : Nat} {w : List Nat} (hp : Path (nfaReverse N) q w p) :
    Path N p w.reverse q := by
  induction hp with
  | nil q => exact .nil _
  | cons he _ ih =>
    rw [List.reverse_cons]
    exact ih.snoc (mem_nfaReverse_trans.mp he)

theorem path_nfaReverse_iff {N : NFA} {p q : Nat} {w : List Nat} :
    Path (nfaReverse N) q w p ↔ Path N p w.reverse q := by
  constructor
  · exact Path.of_reverse
  · intro h; have := h.reverse; rwa [List.reverse_reverse] at this

theorem nfaReverse_lang (N : NFA) (w : List Nat) : acceptsW (nfaReverse N) w = acceptsW N w.reverse := by
  rw [Bool.eq_iff_iff, acceptsW_iff, acceptsW_iff]
  constructor
  · rintro ⟨s, hs, q, hq, hp⟩; exact ⟨q, hq, s, hs, path_nfaReverse_iff.mp hp⟩
  · rintro ⟨s, hs, q, hq, hp⟩; exact ⟨q, hq, s, hs, path_nfaReverse_iff.mpr hp⟩

/-- non-vacuity: `a b` is accepted, hence `b a` by the reverse -/
example : acceptsW ⟨[0], [2], [(0, 7, 1), (1, 8, 2)]⟩ [7, 8] = true ∧
    acceptsW (nfaReverse ⟨[0], [2], [(0, 7, 1), (1, 8, 2)]⟩) [8, 7] = true ∧
    acceptsW (nfaReverse ⟨[0], [2], [(0, 7, 1), (1, 8, 2)]⟩) [7, 8] = false := by decide

/-! ### 5. sub-automata (witnesses, candidates) -/

theorem sub_nfa_sub_lang (R N : NFA) (w : List Nat)
    (hs : ∀ q, q ∈ R.start → q ∈ N.start) (hf : ∀ q, q ∈ R.final → q ∈ N.final)
    (ht : ∀ e, e ∈ R.trans → e ∈ N.trans) : acceptsW R w = true → acceptsW N w = true := by
  rw [acceptsW_iff, acceptsW_iff]
  rintro ⟨s, h1, q, h2, hp⟩
  exact ⟨s, hs s h1, q, hf q h2, hp.mono ht⟩

theorem nfaSubB_sound {R N : NFA} (h : nfaSubB R N = true) :
    (∀ q, q ∈ R.start → q ∈ N.start) ∧ (∀ q, q ∈ R.final → q ∈ N.final) ∧ (∀ e, e ∈ R.trans → e ∈ N.trans) := by
  simp only [nfaSubB, Bool.and_eq_true, List.all_eq_true, List.contains_iff_mem] at h
  exact ⟨h.1.1, h.1.2, h.2⟩

theorem nfaSubB_lang {R N : NFA} (h : nfaSubB R N = true) (w : List Nat) :
    acceptsW R w = true → acceptsW N w = true := by
  obtain ⟨h1, h2, h3⟩ := nfaSubB_sound h
  exact sub_nfa_sub_lang R N w h1 h2 h3

/-- non-vacuity: a proper sub-automaton -/
example : nfaSubB ⟨[0], [2], [(0, 7, 1), (1, 8, 2)]⟩ ⟨[0, 3], [2, 3], [(0, 7, 1), (1, 8, 2), (1, 8, 1)]⟩ = true ∧
    acceptsW ⟨[0], [2], [(0, 7, 1), (1, 8, 2)]⟩ [7, 8] = true := by decide

/-! ### 2. union -/

theorem mem_nfaStates {N : NFA} {q : Nat} :
    q ∈ nfaStates N ↔ q ∈ N.start ∨ q ∈ N.final ∨ ∃ e, e ∈ N.trans ∧ (q = e.1 ∨ q = e.2.2) := by
  simp only [nfaStates, List.mem_append, List.mem_flatMap, List.mem_cons, List.not_mem_nil, or_false, or_assoc]

theorem src_mem_nfaStates {N : NFA} {p a q : Nat} (h : (p, a, q) ∈ N.trans) : p ∈ nfaStates N :=
  mem_nfaStates.mpr (Or.inr (Or.inr ⟨_, h, Or.inl rfl⟩))

theorem tgt_mem_nfaStates {N : NFA} {p a q : Nat} (h : (p, a, q) ∈ N.trans) : q ∈ nfaStates N :=
  mem_nfaStates.mpr (Or.inr (Or.inr ⟨_, h, Or.inr rfl⟩))

theorem start_mem_nfaStates {N : NFA} {q : Nat} (h : q ∈ N.start) : q ∈ nfaStates N :=
  mem_nfaStates.mpr (Or.inl h)

theorem final_mem_nfaStates {N : NFA} {q : Nat} (h : q ∈ N.final) : q ∈ nfaStates N :=
  mem_nfaStates.mpr (Or.inr (Or.inl h))

/-- a path of the disjoint union that starts in `A` is a path of `A` -/
theorem path_union_left {A B : NFA} (hdis : ∀ q, q ∈ nfaStates A → q ∈ nfaStates B → False)
    {p q : Nat} {w : List Nat} (hp : Path (nfaUnionDisjoint A B) p w q) (hx : p ∈ nfaStates A) :
    Path A p w q ∧ q ∈ nfaStates A := by
  refine Path.restrict (fun x => x ∈ nfaStates A) ?_ hp hx
  intro p a q he hpA
  rcases List.mem_append.mp he with h | h
  · exact ⟨h, tgt_mem_nfaStates h⟩
  · exact (hdis p hpA (src_mem_nfaStates h)).elim

theorem path_union_right {A B : NFA} (hdis : ∀ q, q ∈ nfaStates A → q ∈ nfaStates B → False)
    {p q : Nat} {w : List Nat} (hp : Path (nfaUnionDisjoint A B) p w q) (hx : p ∈ nfaStates B) :
    Path B p w q ∧ q ∈ nfaStates B := by
  refine Path.restrict (fun x => x ∈ nfaStates B) ?_ hp hx
  intro p a q he hpB
  rcases List.mem_append.mp he with h | h
  · exact (hdis p (src_mem_nfaStates h) hpB).elim
  · exact ⟨h, tgt_mem_nfaStates h⟩

theorem nfaUnionDisjoint_lang (A B : NFA) (w : List Nat)
    (hdis : ∀ q, q ∈ nfaStates A → q ∈ nfaStates B → False) :
    acceptsW (nfaUnionDisjoint A B) w = (acceptsW A w || acceptsW B w) := by
  rw [Bool.eq_iff_iff, Bool.or_eq_true]
  constructor
  · intro h
    obtain ⟨s, hs, q, hq, hp⟩ := (acceptsW_iff _ _).mp h
    rcases List.mem_append.mp hs with hsA | hsB
    · obtain ⟨hpA, hqA⟩ := path_union_left hdis hp (start_mem_nfaStates hsA)
      left
      rcases List.mem_append.mp hq with hf | hf
      · exact (acceptsW_iff _ _).mpr ⟨s, hsA, q, hf, hpA⟩
      · exact (hdis q hqA (final_mem_nfaStates hf)).elim
    · obtain ⟨hpB, hqB⟩ := path_union_right hdis hp (start_mem_nfaStates hsB)
      right
      rcases List.mem_append.mp hq with hf | hf
      · exact (hdis q (final_mem_nfaStates hf) hqB).elim
      · exact (acceptsW_iff _ _).mpr ⟨s, hsB, q, hf, hpB⟩
  · rintro (h | h)
    · exact sub_nfa_sub_lang A _ w (fun _ h => List.mem_append_left _ h) (fun _ h => List.mem_append_left _ h)
        (fun _ h => List.mem_append_left _ h) h
    · exact sub_nfa_sub_lang B _ w (fun _ h => List.mem_append_right _ h) (fun _ h => List.mem_append_right _ h)
        (fun _ h => List.mem_append_right _ h) h

/-- without disjointness the union only over-approximates -/
theorem nfaUnionDisjoint_lang_ge (A B : NFA) (w : List Nat) :
    (acceptsW A w || acceptsW B w) = true → acceptsW (nfaUnionDisjoint A B) w = true := by
  rw [Bool.or_eq_true]
  rintro (h | h)
  · exact sub_nfa_sub_lang A _ w (fun _ h => List.mem_append_left _ h) (fun _ h => List.mem_append_left _ h)
      (fun _ h => List.mem_append_left _ h) h
  · exact sub_nfa_sub_lang B _ w (fun _ h => List.mem_append_right _ h) (fun _ h => List.mem_append_right _ h)
      (fun _ h => List.mem_append_right _ h) h

/-- non-vacuity of the disjointness hypothesis, and its necessity: with a shared state the union accepts more -/
example : (∀ q, q ∈ nfaStates ⟨[0], [1], [(0, 7, 1)]⟩ → q ∈ nfaStates ⟨[2], [3], [(2, 8, 3)]⟩ → False) := by decide
example : acceptsW (nfaUnionDisjoint ⟨[0], [1], [(0, 7, 1)]⟩ ⟨[1], [2], [(1, 8, 2)]⟩) [7, 8] = true ∧
    acceptsW ⟨[0], [1], [(0, 7, 1)]⟩ [7, 8] = false ∧ acceptsW ⟨[1], [2], [(1, 8, 2)]⟩ [7, 8] = false := by decide

/-- `f` is injective on the list `S` -/
def NfaInjOn (f : Nat → Nat) (S : List Nat) : Prop := ∀ p, p ∈ S → ∀ q, q ∈ S → f p = f q → p = q

theorem mem_nfaMap_trans {f : Nat → Nat} {N : NFA} {x a y : Nat} :
    (x, a, y) ∈ (nfaMap f N).trans ↔ ∃ p q, (p, a, q) ∈ N.trans ∧ x = f p ∧ y = f q := by
  simp only [nfaMap, List.mem_map]
  constructor
  · rintro ⟨⟨p, b, q⟩, he, heq⟩
    simp only [Prod.mk.injEq] at heq
    obtain ⟨h1, h2, h3⟩ := heq
    subst h2
    exact ⟨p, q, he, h1.symm, h3.symm⟩
  · rintro ⟨p, q, he, rfl, rfl⟩; exact ⟨(p, a, q), he, rfl⟩

theorem mem_nfaStates_nfaMap {f : Nat → Nat} {N : NFA} {x : Nat} :
    x ∈ nfaStates (nfaMap f N) ↔ ∃ q, q ∈ nfaStates N ∧ x = f q := by
  constructor
  · intro h
    rcases mem_nfaStates.mp h with h | h | ⟨⟨p, a, q⟩, he, h⟩
    · obtain ⟨q, hq, rfl⟩ := List.mem_map.mp h; exact ⟨q, start_mem_nfaStates hq, rfl⟩
    · obtain ⟨q, hq, rfl⟩ := List.mem_map.mp h; exact ⟨q, final_mem_nfaStates hq, rfl⟩
    · obtain ⟨p', q', he', h1, h2⟩ := mem_nfaMap_trans.mp he
      rcases h with h | h
      · exact ⟨p', src_mem_nfaStates he', h.trans h1⟩
      · exact ⟨q', tgt_mem_nfaStates he', h.trans h2⟩
  · rintro ⟨q, hq, rfl⟩
    rcases mem_nfaStates.mp hq with h | h | ⟨⟨p, a, r⟩, he, h⟩
    · exact start_mem_nfaStates (List.mem_map.mpr ⟨q, h, rfl⟩)
    · exact final_mem_nfaStates (List.mem_map.mpr ⟨q, h, rfl⟩)
    · have he' : (f p, a, f r) ∈ (nfaMap f N).trans := mem_nfaMap_trans.mpr ⟨p, r, he, rfl, rfl⟩
      rcases h with h | h
      · rw [h]; exact src_mem_nfaStates he'
      · rw [h]; exact tgt_mem_nfaStates he'

theorem Path.nfaMap {f : Nat → Nat} {N : NFA} {p q : Nat} {w : List Nat} (hp : Path N p w q) :
    Path (nfaMap f N) (f p) w (f q) :=
  Path.map f (fun p _ q he => mem_nfaMap_trans.mpr ⟨p, q, he, rfl, rfl⟩) hp

/-- a path of the image under a map injective on the states comes from a path of the original -/
theorem path_nfaMap_inv {f : Nat → Nat} {N : NFA} (hinj : NfaInjOn f (nfaStates N))
    {x y : Nat} {w : List Nat} (hp : Path (nfaMap f N) x w y) :
    ∀ s, s ∈ nfaStates N → x = f s → ∃ q, q ∈ nfaStates N ∧ y = f q ∧ Path N s w q := by
  induction hp with
  | nil x => intro s hs hx; exact ⟨s, hs, hx, .nil s⟩
  | cons he _ ih =>
    intro s hs hx
    obtain ⟨p, r, he', h1, h2⟩ := mem_nfaMap_trans.mp he
    have hps : p = s := hinj p (src_mem_nfaStates he') s hs (h1.symm.trans hx)
    rw [hps] at he'
    obtain ⟨q, hq, hy, hpq⟩ := ih r (tgt_mem_nfaStates he') h2
    exact ⟨q, hq, hy, .cons he' hpq⟩

theorem nfaMap_inj_lang (f : Nat → Nat) (N : NFA) (w : List Nat) (hinj : NfaInjOn f (nfaStates N)) :
    acceptsW (nfaMap f N) w = acceptsW N w := by
  rw [Bool.eq_iff_iff, acceptsW_iff, acceptsW_iff]
  constructor
  · rintro ⟨s', hs', q', hq', hp⟩
    obtain ⟨s, hs, rfl⟩ := List.mem_map.mp hs'
    obtain ⟨q0, hq0, hq0'⟩ := List.mem_map.mp hq'
    obtain ⟨q, hq, hy, hpq⟩ := path_nfaMap_inv hinj hp s (start_mem_nfaStates hs) rfl
    have : q0 = q := hinj q0 (final_mem_nfaStates hq0) q hq (hq0'.trans hy)
    rw [this] at hq0
    exact ⟨s, hs, q, hq0, hpq⟩
  · rintro ⟨s, hs, q, hq, hp⟩
    exact ⟨f s, List.mem_map.mpr ⟨s, hs, rfl⟩, f q, List.mem_map.mpr ⟨q, hq, rfl⟩, hp.nfaMap⟩

/-- every word of `N` is accepted by any image of `N` (no injectivity needed) -/
theorem nfaMap_lang_ge (f : Nat → Nat) (N : NFA) (w : List Nat) :
    acceptsW N w = true → acceptsW (nfaMap f N) w = true := by
  rw [acceptsW_iff, acceptsW_iff]
  rintro ⟨s, hs, q, hq, hp⟩
  exact ⟨f s, List.mem_map.mpr ⟨s, hs, rfl⟩, f q, List.mem_map.mpr ⟨q, hq, rfl⟩, hp.nfaMap⟩

theorem nfaUnionWith_lang (fA fB : Nat → Nat) (A B : NFA) (w : List Nat)
    (hA : NfaInjOn fA (nfaStates A)) (hB : NfaInjOn fB (nfaStates B))
    (hdis : ∀ p, p ∈ nfaStates A → ∀ q, q ∈ nfaStates B → fA p ≠ fB q) :
    acceptsW (nfaUnionWith fA fB A B) w = (acceptsW A w || acceptsW B w) := by
  rw [nfaUnionWith, nfaUnionDisjoint_lang, nfaMap_inj_lang fA A w hA, nfaMap_inj_lang fB B w hB]
  intro x h1 h2
  obtain ⟨p, hp, rfl⟩ := mem_nfaStates_nfaMap.mp h1
  obtain ⟨q, hq, h⟩ := mem_nfaStates_nfaMap.mp h2
  exact hdis p hp q hq h

/-- non-vacuity: two automata sharing the state names, separated by the translation maps -/
example : NfaInjOn (fun q => 2 * q) (nfaStates ⟨[0], [1], [(0, 7, 1)]⟩) ∧
    NfaInjOn (fun q => 2 * q + 1) (nfaStates ⟨[0], [1], [(0, 8, 1)]⟩) ∧
    (∀ p, p ∈ nfaStates ⟨[0], [1], [(0, 7, 1)]⟩ → ∀ q, q ∈ nfaStates ⟨[0], [1], [(0, 8, 1)]⟩ →
      (fun q => 2 * q) p ≠ (fun q => 2 * q + 1) q) := by
  refine ⟨?_, ?_, ?_⟩
  · intro p _ q _ h; simp only at h; omega
  · intro p _ q _ h; simp only at h; omega
  · intro p _ q _ h; simp only at h; omega

/-! the concrete numbering of `nfaUnion` -/

theorem idxOf_inj {l : List Nat} {p q : Nat} (hp : p ∈ l) (h : l.idxOf p = l.idxOf q) : p = q := by
  have h1 : l.idxOf p < l.length := List.idxOf_lt_length_iff.mpr hp
  have h2 : l.idxOf q < l.length := h ▸ h1
  have e1 := List.getElem_idxOf h1
  have e2 := List.getElem_idxOf h2
  rw [← e1, ← e2]
  simp only [h]

theorem mem_nfaStateList {N : NFA} {q : Nat} : q ∈ nfaStateList N ↔ q ∈ nfaStates N := by
  simp only [nfaStateList, List.mem_eraseDups]

theorem nfaUnion_lang (A B : NFA) (w : List Nat) : acceptsW (nfaUnion A B) w = (acceptsW A w || acceptsW B w) := by
  apply nfaUnionWith_lang
  · intro p hp q _ h
    exact idxOf_inj (mem_nfaStateList.mpr hp) h
  · intro p hp q _ h
    exact idxOf_inj (mem_nfaStateList.mpr hp) (Nat.add_left_cancel h)
  · intro p hp q _ h
    have : (nfaStateList A).idxOf p < (nfaStateList A).length :=
      List.idxOf_lt_length_iff.mpr (mem_nfaStateList.mpr hp)
    omega

example : acceptsW (nfaUnion ⟨[0], [1], [(0, 7, 1)]⟩ ⟨[0], [1], [(0, 8, 1)]⟩) [8] = true ∧
    acceptsW (nfaUnion ⟨[0], [1], [(0, 7, 1)]⟩ ⟨[0], [1], [(0, 8, 1)]⟩) [7] = true ∧
    acceptsW (nfaUnion ⟨[0], [1], [(0, 7, 1)]⟩ ⟨[0], [1], [(0, 8, 1)]⟩) [7, 8] = false := by decide

/-! ### 4. removal of unreachable and of useless states -/

theorem mem_nfaSucc {N : NFA} {S : List Nat} {q : Nat} :
    q ∈ nfaSucc N S ↔ ∃ p a, p ∈ S ∧ (p, a, q) ∈ N.trans := by
  simp only [nfaSucc, List.mem_map, List.mem_filter, List.contains_iff_mem]
  constructor
  · rintro ⟨⟨p, a, r⟩, ⟨he, hp⟩, hr⟩
    simp only at hp hr
    subst hr
    exact ⟨p, a, hp, he⟩
  · rintro ⟨p, a, hp, he⟩; exact ⟨(p, a, q), ⟨he, hp⟩, rfl⟩

theorem nfaClosedB_iff {N : NFA} {S : List Nat} :
    nfaClosedB N S = true ↔ ∀ p a q, p ∈ S → (p, a, q) ∈ N.trans → q ∈ S := by
  simp only [nfaClosedB, List.all_eq_true, List.contains_iff_mem, mem_nfaSucc]
  constructor
  · intro h p a q hp he; exact h q ⟨p, a, hp, he⟩
  · rintro h q ⟨p, a, hp, he⟩; exact h p a q hp he

/-- restricting to a closed set that contains the start states preserves the language -/
theorem nfaRestrict_lang (N : NFA) (R : List Nat) (w : List Nat) (hst : ∀ s, s ∈ N.start → s ∈ R)
    (hcl : nfaClosedB N R = true) : acceptsW (nfaRestrict N R) w = acceptsW N w := by
  rw [Bool.eq_iff_iff]
  constructor
  · apply sub_nfa_sub_lang
    · intro q h; exact h
    · intro q h; exact (List.mem_filter.mp h).1
    · intro e h; exact (List.mem_filter.mp h).1
  · rw [acceptsW_iff, acceptsW_iff]
    rintro ⟨s, hs, q, hq, hp⟩
    have hcl' := nfaClosedB_iff.mp hcl
    have hstep : ∀ p a q, (p, a, q) ∈ N.trans → p ∈ R → (p, a, q) ∈ (nfaRestrict N R).trans ∧ q ∈ R := by
      intro p a q he hpR
      exact ⟨List.mem_filter.mpr ⟨he, List.contains_iff_mem.mpr hpR⟩, hcl' p a q hpR he⟩
    obtain ⟨h1, h2⟩ := Path.restrict (fun x => x ∈ R) hstep hp (hst s hs)
    exact ⟨s, hs, q, List.mem_filter.mpr ⟨hq, List.contains_iff_mem.mpr h2⟩, h1⟩

theorem sub_nfaGrow (N : NFA) (S : List Nat) (x : Nat) (h : x ∈ S) : x ∈ nfaGrow N S :=
  List.mem_append_left _ h

theorem sub_nfaReachIter (N : NFA) : ∀ (n : Nat) (S : List Nat) (x : Nat), x ∈ S → x ∈ nfaReachIter N n S
  | 0, _, _, h => h
  | n + 1, S, x, h => by
    simp only [nfaReachIter]
    split
    · exact h
    · exact sub_nfaReachIter N n _ x (sub_nfaGrow N S x h)

theorem start_sub_nfaReachable (N : NFA) (s : Nat) (h : s ∈ N.start) : s ∈ nfaReachable N :=
  sub_nfaReachIter N _ _ s h

theorem nfaRemoveUnreachable_lang (N : NFA) (w : List Nat) :
    acceptsW (nfaRemoveUnreachable N) w = acceptsW N w := by
  simp only [nfaRemoveUnreachable]
  split
  · rename_i h; exact nfaRestrict_lang N _ w (start_sub_nfaReachable N) h
  · rfl

theorem nfaRemoveUseless_lang (N : NFA) (w : List Nat) : acceptsW (nfaRemoveUseless N) w = acceptsW N w := by
  simp only [nfaRemoveUseless, nfaReverse_lang, nfaRemoveUnreachable_lang, List.reverse_reverse]

/-- non-vacuity: state 3 is unreachable, state 4 is reachable but useless -/
example : (nfaRemoveUnreachable ⟨[0], [2], [(0, 7, 1), (1, 8, 2), (3, 7, 2), (1, 9, 4)]⟩).trans
      = [(0, 7, 1), (1, 8, 2), (1, 9, 4)] ∧
    (nfaRemoveUseless ⟨[0], [2], [(0, 7, 1), (1, 8, 2), (3, 7, 2), (1, 9, 4)]⟩).trans = [(0, 7, 1), (1, 8, 2)] ∧
    acceptsW (nfaRemoveUseless ⟨[0], [2], [(0, 7, 1), (1, 8, 2), (3, 7, 2), (1, 9, 4)]⟩) [7, 8] = true := by decide

/-! the closure check of `nfaRemoveUnreachable` never fails: each round that does not end the search brings the target
of at least one more transition into the set, so `N.trans.length` rounds suffice -/

theorem length_filter_le_of_imp {α : Type} (p p' : α → Bool) (himp : ∀ x, p' x = true → p x = true) :
    ∀ l : List α, (l.filter p').length ≤ (l.filter p).length
  | [] => Nat.le_refl _
  | y :: l => by
    have ih := length_filter_le_of_imp p p' himp l
    by_cases h' : p' y = true
    · rw [List.filter_cons_of_pos h', List.filter_cons_of_pos (himp y h'), List.length_cons, List.length_cons]
      omega
    · by_cases h : p y = true
      · rw [List.filter_cons_of_neg h', List.filter_cons_of_pos h, List.length_cons]; omega
      · rw [List.filter_cons_of_neg h', List.filter_cons_of_neg h]; exact ih

theorem length_filter_lt_of_imp {α : Type} (p p' : α → Bool) (himp : ∀ x, p' x = true → p x = true)
    (x : α) (hpx : p x = true) (hpx' : ¬ p' x = true) :
    ∀ l : List α, x ∈ l → (l.filter p').length < (l.filter p).length
  | [], h => by simp at h
  | y :: l, h => by
    have hle := length_filter_le_of_imp p p' himp l
    by_cases hxy : x = y
    · subst hxy
      rw [List.filter_cons_of_neg hpx', List.filter_cons_of_pos hpx, List.length_cons]; omega
    · have hx : x ∈ l := by
        rcases List.mem_cons.mp h with h | h
        · exact (hxy h).elim
        · exact h
      have ih := length_filter_lt_of_imp p p' himp x hpx hpx' l hx
      by_cases h' : p' y = true
      · rw [List.filter_cons_of_pos h', List.filter_cons_of_pos (himp y h'), List.length_cons, List.length_cons]
        omega
      · by_cases h : p y = true
        · rw [List.filter_cons_of_neg h', List.filter_cons_of_pos h, List.length_cons]; omega
        · rw [List.filter_cons_of_neg h', List.filter_cons_of_neg h]; exact ih

theorem not_contains_iff {α : Type} [BEq α] [LawfulBEq α] {S : List α} {q : α} :
    (!S.contains q) = true ↔ q ∉ S := by
  rw [Bool.not_eq_true', ← Bool.not_eq_true, List.contains_iff_mem]

/-- number of transitions whose target is outside `S` -/
def nfaOut (N : NFA) (S : List Nat) : Nat := (N.trans.filter (fun e => !S.contains e.2.2)).length

theorem mem_nfaGrow {N : NFA} {S : List Nat} {q : Nat} : q ∈ nfaGrow N S ↔ q ∈ S ∨ q ∈ nfaSucc N S := by
  simp only [nfaGrow, List.mem_append, List.mem_eraseDups, List.mem_filter, not_contains_iff]
  constructor
  · rintro (h | ⟨h, _⟩)
    · exact Or.inl h
    · exact Or.inr h
  · rintro (h | h)
    · exact Or.inl h
    · by_cases hq : q ∈ S
      · exact Or.inl hq
      · exact Or.inr ⟨h, hq⟩

theorem nfaClosedB_of_out_zero {N : NFA} {S : List Nat} (h : nfaOut N S = 0) : nfaClosedB N S = true := by
  rw [nfaClosedB_iff]
  intro p a q _ he
  have h0 := List.length_eq_zero_iff.mp h
  rw [List.filter_eq_nil_iff] at h0
  have := h0 (p, a, q) he
  simpa using this

theorem nfaOut_grow_lt {N : NFA} {S : List Nat} (h : ¬ nfaClosedB N S = true) :
    nfaOut N (nfaGrow N S) < nfaOut N S := by
  rw [nfaClosedB_iff] at h
  have hex : ∃ p a q, p ∈ S ∧ (p, a, q) ∈ N.trans ∧ q ∉ S := by
    apply Classical.byContradiction
    intro hn
    apply h
    intro p a q hp he
    apply Classical.byContradiction
    intro hq
    exact hn ⟨p, a, q, hp, he, hq⟩
  obtain ⟨p, a, q, hp, he, hq⟩ := hex
  unfold nfaOut
  apply length_filter_lt_of_imp _ _ _ (p, a, q) _ _ _ he
  · intro x hx
    rw [not_contains_iff] at hx ⊢
    intro hxS; exact hx (sub_nfaGrow N S _ hxS)
  · exact not_contains_iff.mpr hq
  · rw [not_contains_iff]
    intro hn
    exact hn (mem_nfaGrow.mpr (Or.inr (mem_nfaSucc.mpr ⟨p, a, hp, he⟩)))

theorem nfaReachIter_closed (N : NFA) : ∀ (n : Nat) (S : List Nat), nfaOut N S ≤ n →
    nfaClosedB N (nfaReachIter N n S) = true
  | 0, S, h => nfaClosedB_of_out_zero (Nat.le_zero.mp h)
  | n + 1, S, h => by
    simp only [nfaReachIter]
    split
    · assumption
    · rename_i hc
      have := nfaOut_grow_lt hc
      exact nfaReachIter_closed N n _ (by omega)

theorem nfaReachable_closed (N : NFA) : nfaClosedB N (nfaReachable N) = true :=
  nfaReachIter_closed N _ _ (List.length_filter_le _ _)

/-- the fallback branch of the certifying form is dead code -/
theorem nfaRemoveUnreachable_eq (N : NFA) : nfaRemoveUnreachable N = nfaRestrict N (nfaReachable N) := by
  simp only [nfaRemoveUnreachable, nfaReachable_closed, if_true]

/-- `nfaReachable` is exactly the set of states reachable from a start state -/
theorem nfaReachIter_sound (N : NFA) : ∀ (n : Nat) (S : List Nat),
    (∀ q, q ∈ S → ∃ s, s ∈ N.start ∧ ∃ w, Path N s w q) →
    ∀ q, q ∈ nfaReachIter N n S → ∃ s, s ∈ N.start ∧ ∃ w, Path N s w q
  | 0, _, h => h
  | n + 1, S, h => by
    simp only [nfaReachIter]
    split
    · exact h
    · apply nfaReachIter_sound N n
      intro q hq
      rcases mem_nfaGrow.mp hq with hq | hq
      · exact h q hq
      · obtain ⟨p, a, hp, he⟩ := mem_nfaSucc.mp hq
        obtain ⟨s, hs, w, hw⟩ := h p hp
        exact ⟨s, hs, w ++ [a], hw.snoc he⟩

theorem mem_nfaReachable_iff (N : NFA) (q : Nat) :
    q ∈ nfaReachable N ↔ ∃ s, s ∈ N.start ∧ ∃ w, Path N s w q := by
  constructor
  · apply nfaReachIter_sound
    intro s hs; exact ⟨s, hs, [], .nil s⟩
  · rintro ⟨s, hs, w, hp⟩
    have hcl := nfaClosedB_iff.mp (nfaReachable_closed N)
    exact (Path.restrict (A := N) (fun x => x ∈ nfaReachable N)
      (fun p a q he hpR => ⟨he, hcl p a q hpR he⟩) hp (start_sub_nfaReachable N s hs)).2

/-- what `RemoveUnreachableStates` keeps, in terms of paths -/
theorem mem_nfaRemoveUnreachable_trans (N : NFA) (e : Nat × Nat × Nat) :
    e ∈ (nfaRemoveUnreachable N).trans ↔ e ∈ N.trans ∧ ∃ s, s ∈ N.start ∧ ∃ w, Path N s w e.1 := by
  rw [nfaRemoveUnreachable_eq, ← mem_nfaReachable_iff]
  simp only [nfaRestrict, List.mem_filter, List.contains_iff_mem]

theorem mem_nfaRemoveUnreachable_final (N : NFA) (q : Nat) :
    q ∈ (nfaRemoveUnreachable N).final ↔ q ∈ N.final ∧ ∃ s, s ∈ N.start ∧ ∃ w, Path N s w q := by
  rw [nfaRemoveUnreachable_eq, ← mem_nfaReachable_iff]
  simp only [nfaRestrict, List.mem_filter, List.contains_iff_mem]

theorem nfaRemoveUnreachable_start (N : NFA) : (nfaRemoveUnreachable N).start = N.start := by
  rw [nfaRemoveUnreachable_eq]; rfl

/-! what `RemoveUselessStates` keeps: the result is the trim part of the input -/

/-- `q` is reachable from a start state -/
def NfaReach (N : NFA) (q : Nat) : Prop := ∃ s, s ∈ N.start ∧ ∃ w, Path N s w q
/-- a final state is reachable from `q` -/
def NfaCoReach (N : NFA) (q : Nat) : Prop := ∃ f, f ∈ N.final ∧ ∃ w, Path N q w f

theorem NfaReach.path {N : NFA} {p q : Nat} {w : List Nat} (h : NfaReach N p) (hp : Path N p w q) : NfaReach N q := by
  obtain ⟨s, hs, u, hu⟩ := h
  exact ⟨s, hs, u ++ w, hu.append hp⟩

theorem NfaCoReach.path {N : NFA} {p q : Nat} {w : List Nat} (h : NfaCoReach N q) (hp : Path N p w q) :
    NfaCoReach N p := by
  obtain ⟨f, hf, v, hv⟩ := h
  exact ⟨f, hf, w ++ v, hp.append hv⟩

theorem NfaReach.step {N : NFA} {p a q : Nat} (h : NfaReach N p) (he : (p, a, q) ∈ N.trans) : NfaReach N q :=
  h.path (.cons he (.nil q))

theorem NfaCoReach.step {N : NFA} {p a q : Nat} (h : NfaCoReach N q) (he : (p, a, q) ∈ N.trans) : NfaCoReach N p :=
  h.path (.cons he (.nil q))

theorem NfaReach.of_start {N : NFA} {s : Nat} (h : s ∈ N.start) : NfaReach N s := ⟨s, h, [], .nil s⟩
theorem NfaCoReach.of_final {N : NFA} {f : Nat} (h : f ∈ N.final) : NfaCoReach N f := ⟨f, h, [], .nil f⟩

theorem nfaReach_reverse {M : NFA} {q : Nat} : NfaReach (nfaReverse M) q ↔ NfaCoReach M q := by
  constructor
  · rintro ⟨f, hf, w, hp⟩; exact ⟨f, hf, w.reverse, path_nfaReverse_iff.mp hp⟩
  · rintro ⟨f, hf, w, hp⟩
    refine ⟨f, hf, w.reverse, path_nfaReverse_iff.mpr ?_⟩
    rw [List.reverse_reverse]; exact hp

theorem path_nfaRemoveUnreachable {N : NFA} {p q : Nat} {w : List Nat} (hr : NfaReach N p) :
    Path (nfaRemoveUnreachable N) p w q ↔ Path N p w q := by
  constructor
  · intro h; exact h.mono (fun e he => ((mem_nfaRemoveUnreachable_trans N e).mp he).1)
  · intro h
    refine (Path.restrict (NfaReach N) ?_ h hr).1
    intro p a q he hp
    exact ⟨(mem_nfaRemoveUnreachable_trans N _).mpr ⟨he, hp⟩, hp.step he⟩

theorem nfaCoReach_unreach {N : NFA} {q : Nat} :
    NfaCoReach (nfaRemoveUnreachable N) q ↔ NfaReach N q ∧ NfaCoReach N q := by
  constructor
  · rintro ⟨f, hf, w, hp⟩
    obtain ⟨hf1, hf2⟩ := (mem_nfaRemoveUnreachable_final N f).mp hf
    have hpN : Path N q w f := hp.mono (fun e he => ((mem_nfaRemoveUnreachable_trans N e).mp he).1)
    refine ⟨?_, f, hf1, w, hpN⟩
    cases hp with
    | nil => exact hf2
    | cons he _ => exact ((mem_nfaRemoveUnreachable_trans N _).mp he).2
  · rintro ⟨hr, f, hf, w, hp⟩
    exact ⟨f, (mem_nfaRemoveUnreachable_final N f).mpr ⟨hf, hr.path hp⟩, w, (path_nfaRemoveUnreachable hr).mpr hp⟩

theorem mem_nfaRemoveUseless_trans (N : NFA) (p a q : Nat) :
    (p, a, q) ∈ (nfaRemoveUseless N).trans ↔ (p, a, q) ∈ N.trans ∧ NfaReach N p ∧ NfaCoReach N q := by
  rw [nfaRemoveUseless, mem_nfaReverse_trans, mem_nfaRemoveUnreachable_trans, mem_nfaReverse_trans,
    mem_nfaRemoveUnreachable_trans]
  show _ ∧ NfaReach (nfaReverse (nfaRemoveUnreachable N)) q ↔ _
  rw [nfaReach_reverse, nfaCoReach_unreach]
  constructor
  · rintro ⟨⟨he, hp⟩, _, hq⟩; exact ⟨he, hp, hq⟩
  · rintro ⟨he, hp, hq⟩; exact ⟨⟨he, hp⟩, NfaReach.step hp he, hq⟩

theorem mem_nfaRemoveUseless_start (N : NFA) (s : Nat) :
    s ∈ (nfaRemoveUseless N).start ↔ s ∈ N.start ∧ NfaCoReach N s := by
  show s ∈ (nfaRemoveUnreachable (nfaReverse (nfaRemoveUnreachable N))).final ↔ _
  rw [mem_nfaRemoveUnreachable_final]
  show s ∈ (nfaRemoveUnreachable N).start ∧ NfaReach (nfaReverse (nfaRemoveUnreachable N)) s ↔ _
  rw [nfaRemoveUnreachable_start, nfaReach_reverse, nfaCoReach_unreach]
  constructor
  · rintro ⟨hs, _, hc⟩; exact ⟨hs, hc⟩
  · rintro ⟨hs, hc⟩; exact ⟨hs, NfaReach.of_start hs, hc⟩

theorem mem_nfaRemoveUseless_final (N : NFA) (f : Nat) :
    f ∈ (nfaRemoveUseless N).final ↔ f ∈ N.final ∧ NfaReach N f := by
  show f ∈ (nfaRemoveUnreachable (nfaReverse (nfaRemoveUnreachable N))).start ↔ _
  rw [nfaRemoveUnreachable_start]
  exact mem_nfaRemoveUnreachable_final N f

/-- a path of `N` between a reachable and a co-reachable state survives `RemoveUselessStates` -/
theorem path_nfaRemoveUseless {N : NFA} {p q : Nat} {w : List Nat} (hp : Path N p w q) :
    NfaReach N p → NfaCoReach N q → Path (nfaRemoveUseless N) p w q := by
  induction hp with
  | nil q => intro _ _; exact .nil q
  | cons he hp' ih =>
    intro hr hc
    exact .cons ((mem_nfaRemoveUseless_trans N _ _ _).mpr ⟨he, hr, hc.path hp'⟩) (ih (hr.step he) hc)

/-- every state of the result is useful in the input -/
theorem nfaRemoveUseless_states_useful (N : NFA) (q : Nat) (hq : q ∈ nfaStates (nfaRemoveUseless N)) :
    NfaReach N q ∧ NfaCoReach N q := by
  rcases mem_nfaStates.mp hq with h | h | ⟨⟨p, a, r⟩, he, h⟩
  · obtain ⟨h1, h2⟩ := (mem_nfaRemoveUseless_start N q).mp h
    exact ⟨NfaReach.of_start h1, h2⟩
  · obtain ⟨h1, h2⟩ := (mem_nfaRemoveUseless_final N q).mp h
    exact ⟨h2, NfaCoReach.of_final h1⟩
  · obtain ⟨h1, h2, h3⟩ := (mem_nfaRemoveUseless_trans N p a r).mp he
    rcases h with h | h
    · rw [h]; exact ⟨h2, h3.step h1⟩
    · rw [h]; exact ⟨h2.step h1, h3⟩

/-- the result of `RemoveUselessStates` is trim: each of its states lies on an accepting path of the result -/
theorem nfaRemoveUseless_trim (N : NFA) (q : Nat) (hq : q ∈ nfaStates (nfaRemoveUseless N)) :
    NfaReach (nfaRemoveUseless N) q ∧ NfaCoReach (nfaRemoveUseless N) q := by
  obtain ⟨hr, hc⟩ := nfaRemoveUseless_states_useful N q hq
  constructor
  · obtain ⟨s, hs, u, hu⟩ := hr
    exact ⟨s, (mem_nfaRemoveUseless_start N s).mpr ⟨hs, hc.path hu⟩, u,
      path_nfaRemoveUseless hu (NfaReach.of_start hs) hc⟩
  · obtain ⟨f, hf, v, hv⟩ := hc
    exact ⟨f, (mem_nfaRemoveUseless_final N f).mpr ⟨hf, hr.path hv⟩, v,
      path_nfaRemoveUseless hv hr (NfaCoReach.of_final hf)⟩

/-! ### 3. product on a set of pairs (certificate form) -/

def NfaPairInjOn (m : Nat × Nat → Nat) (D : List (Nat × Nat)) : Prop :=
  ∀ p, p ∈ D → ∀ p', p' ∈ D → m p = m p' → p = p'

/-- `D` is closed under joint successors -/
def NfaPairClosed (A B : NFA) (D : List (Nat × Nat)) : Prop :=
  ∀ p, p ∈ D → ∀ (a : Nat) (q : Nat × Nat), (p.1, a, q.1) ∈ A.trans → (p.2, a, q.2) ∈ B.trans → q ∈ D

theorem mem_nfaStartPairs {A B : NFA} {p : Nat × Nat} :
    p ∈ nfaStartPairs A B ↔ p.1 ∈ A.start ∧ p.2 ∈ B.start := by
  simp only [nfaStartPairs, List.mem_flatMap, List.mem_map]
  constructor
  · rintro ⟨a, ha, b, hb, rfl⟩; exact ⟨ha, hb⟩
  · rintro ⟨ha, hb⟩; exact ⟨p.1, ha, p.2, hb, rfl⟩

theorem mem_nfaJoint {A B : NFA} {p : Nat × Nat} {x : Nat × (Nat × Nat)} :
    x ∈ nfaJoint A B p ↔ (p.1, x.1, x.2.1) ∈ A.trans ∧ (p.2, x.1, x.2.2) ∈ B.trans := by
  simp only [nfaJoint, List.mem_flatMap, List.mem_map, List.mem_filter, Bool.and_eq_true, beq_iff_eq]
  constructor
  · rintro ⟨⟨p1, a, q1⟩, ⟨he, h1⟩, ⟨p2, b, q2⟩, ⟨he', h2, h3⟩, rfl⟩
    simp only at h1 h2 h3
    subst h1; subst h2; subst h3
    exact ⟨he, he'⟩
  · rintro ⟨h1, h2⟩
    exact ⟨(p.1, x.1, x.2.1), ⟨h1, rfl⟩, (p.2, x.1, x.2.2), ⟨h2, rfl, rfl⟩, rfl⟩

theorem mem_nfaProdOn_trans {A B : NFA} {D : List (Nat × Nat)} {m : Nat × Nat → Nat} {x a y : Nat} :
    (x, a, y) ∈ (nfaProdOn A B D m).trans ↔
      ∃ p, p ∈ D ∧ ∃ q : Nat × Nat, (p.1, a, q.1) ∈ A.trans ∧ (p.2, a, q.2) ∈ B.trans ∧ x = m p ∧ y = m q := by
  simp only [nfaProdOn, List.mem_flatMap, List.mem_map, mem_nfaJoint]
  constructor
  · rintro ⟨p, hp, ⟨b, q⟩, ⟨h1, h2⟩, heq⟩
    simp only [Prod.mk.injEq] at heq
    obtain ⟨e1, e2, e3⟩ := heq
    simp only at h1 h2 e2
    subst e2
    exact ⟨p, hp, q, h1, h2, e1.symm, e3.symm⟩
  · rintro ⟨p, hp, q, h1, h2, rfl, rfl⟩
    exact ⟨p, hp, (a, q), ⟨h1, h2⟩, rfl⟩

theorem mem_nfaProdOn_final {A B : NFA} {D : List (Nat × Nat)} {m : Nat × Nat → Nat} {y : Nat} :
    y ∈ (nfaProdOn A B D m).final ↔ ∃ p, p ∈ D ∧ p.1 ∈ A.final ∧ p.2 ∈ B.final ∧ y = m p := by
  simp only [nfaProdOn, List.mem_map, List.mem_filter, Bool.and_eq_true, List.contains_iff_mem]
  constructor
  · rintro ⟨p, ⟨hp, h1, h2⟩, rfl⟩; exact ⟨p, hp, h1, h2, rfl⟩
  · rintro ⟨p, hp, h1, h2, rfl⟩; exact ⟨p, ⟨hp, h1, h2⟩, rfl⟩

/-- a path of the product projects to a pair of paths -/
theorem path_nfaProdOn_proj {A B : NFA} {D : List (Nat × Nat)} {m : Nat × Nat → Nat}
    (hc : NfaPairClosed A B D) (hinj : NfaPairInjOn m D) {x y : Nat} {w : List Nat}
    (hp : Path (nfaProdOn A B D m) x w y) :
    ∀ p, p ∈ D → x = m p → ∃ q, q ∈ D ∧ y = m q ∧ Path A p.1 w q.1 ∧ Path B p.2 w q.2 := by
  induction hp with
  | nil x => intro p hp hx; exact ⟨p, hp, hx, .nil _, .nil _⟩
  | cons he _ ih =>
    intro p hp hx
    obtain ⟨p0, hp0, r, h1, h2, e1, e2⟩ := mem_nfaProdOn_trans.mp he
    have : p0 = p := hinj p0 hp0 p hp (e1.symm.trans hx)
    rw [this] at h1 h2
    obtain ⟨q, hq, hy, hA, hB⟩ := ih r (hc p hp _ r h1 h2) e2
    exact ⟨q, hq, hy, .cons h1 hA, .cons h2 hB⟩

/-- a pair of paths with the same word from a pair in `D` is a path of the product -/
theorem path_nfaProdOn_pair {A B : NFA} {D : List (Nat × Nat)} {m : Nat × Nat → Nat}
    (hc : NfaPairClosed A B D) : ∀ (w : List Nat) (p1 p2 q1 q2 : Nat), (p1, p2) ∈ D →
      Path A p1 w q1 → Path B p2 w q2 → Path (nfaProdOn A B D m) (m (p1, p2)) w (m (q1, q2)) ∧ (q1, q2) ∈ D
  | [], p1, p2, q1, q2, hp, hA, hB => by
    cases hA; cases hB
    exact ⟨.nil _, hp⟩
  | a :: w, p1, p2, q1, q2, hp, hA, hB => by
    cases hA with
    | cons h1 hA' =>
      cases hB with
      | cons h2 hB' =>
        rename_i r1 r2
        have hr : (r1, r2) ∈ D := hc (p1, p2) hp a (r1, r2) h1 h2
        obtain ⟨h3, h4⟩ := path_nfaProdOn_pair hc w r1 r2 q1 q2 hr hA' hB'
        exact ⟨.cons (mem_nfaProdOn_trans.mpr ⟨(p1, p2), hp, (r1, r2), h1, h2, rfl, rfl⟩) h3, h4⟩

theorem nfaProd_cert (A B : NFA) (D : List (Nat × Nat)) (m : Nat × Nat → Nat) (w : List Nat)
    (hstart : ∀ p, p ∈ nfaStartPairs A B → p ∈ D) (hc : NfaPairClosed A B D) (hinj : NfaPairInjOn m D) :
    acceptsW (nfaProdOn A B D m) w = (acceptsW A w && acceptsW B w) := by
  rw [Bool.eq_iff_iff, Bool.and_eq_true, acceptsW_iff, acceptsW_iff, acceptsW_iff]
  constructor
  · rintro ⟨x, hx, y, hy, hp⟩
    obtain ⟨p, hp0, rfl⟩ := List.mem_map.mp hx
    obtain ⟨q, hq, hyq, hA, hB⟩ := path_nfaProdOn_proj hc hinj hp p (hstart p hp0) rfl
    obtain ⟨q', hq', hf1, hf2, hyq'⟩ := mem_nfaProdOn_final.mp hy
    have : q' = q := hinj q' hq' q hq (hyq'.symm.trans hyq)
    rw [this] at hf1 hf2
    obtain ⟨hs1, hs2⟩ := mem_nfaStartPairs.mp hp0
    exact ⟨⟨p.1, hs1, q.1, hf1, hA⟩, ⟨p.2, hs2, q.2, hf2, hB⟩⟩
  · rintro ⟨⟨s1, hs1, q1, hf1, hA⟩, ⟨s2, hs2, q2, hf2, hB⟩⟩
    have hp0 : (s1, s2) ∈ nfaStartPairs A B := mem_nfaStartPairs.mpr ⟨hs1, hs2⟩
    obtain ⟨h1, h2⟩ := path_nfaProdOn_pair (m := m) hc w s1 s2 q1 q2 (hstart _ hp0) hA hB
    exact ⟨m (s1, s2), List.mem_map.mpr ⟨_, hp0, rfl⟩, m (q1, q2),
      mem_nfaProdOn_final.mpr ⟨_, h2, hf1, hf2, rfl⟩, h1⟩

/-- the Boolean certificate check implies the hypotheses of `nfaProd_cert` -/
theorem nfaProdCertB_sound {A B : NFA} {D : List (Nat × Nat)} {m : Nat × Nat → Nat}
    (h : nfaProdCertB A B D m = true) :
    (∀ p, p ∈ nfaStartPairs A B → p ∈ D) ∧ NfaPairClosed A B D ∧ NfaPairInjOn m D := by
  simp only [nfaProdCertB, Bool.and_eq_true, List.all_eq_true, List.contains_iff_mem, Bool.or_eq_true,
    bne_iff_ne, beq_iff_eq] at h
  obtain ⟨⟨h1, h2⟩, h3⟩ := h
  refine ⟨h1, ?_, ?_⟩
  · intro p hp a q hA hB
    exact h2 p hp (a, q) (mem_nfaJoint.mpr ⟨hA, hB⟩)
  · intro p hp p' hp' he
    rcases h3 p hp p' hp' with h | h
    · exact (h he).elim
    · exact h

theorem nfaProdCertB_lang {A B : NFA} {D : List (Nat × Nat)} {m : Nat × Nat → Nat}
    (h : nfaProdCertB A B D m = true) (w : List Nat) :
    acceptsW (nfaProdOn A B D m) w = (acceptsW A w && acceptsW B w) := by
  obtain ⟨h1, h2, h3⟩ := nfaProdCertB_sound h
  exact nfaProd_cert A B D m w h1 h2 h3

/-- non-vacuity: `A` = words over {7,8} ending in 8, `B` = words of even length; three reachable pairs -/
example : nfaProdCertB ⟨[0], [1], [(0, 7, 0), (0, 8, 0), (0, 8, 1)]⟩ ⟨[0], [0], [(0, 7, 1), (0, 8, 1), (1, 7, 0), (1, 8, 0)]⟩
      [(0, 0), (0, 1), (1, 1), (1, 0)] (fun p => 2 * p.1 + p.2) = true ∧
    acceptsW (nfaProdOn ⟨[0], [1], [(0, 7, 0), (0, 8, 0), (0, 8, 1)]⟩ ⟨[0], [0], [(0, 7, 1), (0, 8, 1), (1, 7, 0), (1, 8, 0)]⟩
      [(0, 0), (0, 1), (1, 1), (1, 0)] (fun p => 2 * p.1 + p.2)) [7, 8] = true := by decide

/-! ### the model of `Intersection` -/

theorem idxOf_inj' {α : Type} [BEq α] [LawfulBEq α] {l : List α} {p q : α} (hp : p ∈ l)
    (h : l.idxOf p = l.idxOf q) : p = q := by
  have h1 : l.idxOf p < l.length := List.idxOf_lt_length_iff.mpr hp
  have h2 : l.idxOf q < l.length := h ▸ h1
  have e1 := List.getElem_idxOf h1
  have e2 := List.getElem_idxOf h2
  rw [← e1, ← e2]
  simp only [h]

theorem nfaPairClosedB_iff {A B : NFA} {D : List (Nat × Nat)} :
    nfaPairClosedB A B D = true ↔ NfaPairClosed A B D := by
  simp only [nfaPairClosedB, nfaPairSucc, List.all_eq_true, List.contains_iff_mem, List.mem_flatMap, List.mem_map,
    NfaPairClosed]
  constructor
  · intro h p hp a q hA hB
    exact h q ⟨p, hp, (a, q), mem_nfaJoint.mpr ⟨hA, hB⟩, rfl⟩
  · rintro h q ⟨p, hp, x, hx, rfl⟩
    obtain ⟨hA, hB⟩ := mem_nfaJoint.mp hx
    exact h p hp x.1 x.2 hA hB

theorem sub_nfaPairIter (A B : NFA) : ∀ (n : Nat) (D : List (Nat × Nat)) (x : Nat × Nat),
    x ∈ D → x ∈ nfaPairIter A B n D
  | 0, _, _, h => h
  | n + 1, D, x, h => by
    simp only [nfaPairIter]
    split
    · exact h
    · exact sub_nfaPairIter A B n _ x (List.mem_append_left _ h)

theorem nfaIntersection_lang (A B : NFA) (fuel : Nat) (P : NFA) (h : nfaIntersection A B fuel = some P)
    (w : List Nat) : acceptsW P w = (acceptsW A w && acceptsW B w) := by
  simp only [nfaIntersection] at h
  split at h
  · rename_i hc
    cases h
    rw [nfaRemoveUseless_lang]
    apply nfaProd_cert
    · intro p hp
      exact sub_nfaPairIter A B _ _ p (List.mem_eraseDups.mpr hp)
    · exact nfaPairClosedB_iff.mp hc
    · intro p hp q _ he
      exact idxOf_inj' hp he
  · cases h

/-- non-vacuity: the fuel suffices and the product accepts exactly the common words -/
example : ((nfaIntersection ⟨[0], [1], [(0, 7, 0), (0, 8, 0), (0, 8, 1)]⟩
      ⟨[0], [0], [(0, 7, 1), (0, 8, 1), (1, 7, 0), (1, 8, 0)]⟩ 5).map (fun P => (acceptsW P [7, 8], acceptsW P [8])))
    = some (true, false) := by decide

/-! the number of rounds of `nfaIsect` always suffices (same counting argument as for `nfaReachable`) -/

theorem mem_nfaJointAll {A B : NFA} {p : Nat × Nat} {a : Nat} {q : Nat × Nat} :
    (p, a, q) ∈ nfaJointAll A B ↔ (p.1, a, q.1) ∈ A.trans ∧ (p.2, a, q.2) ∈ B.trans := by
  simp only [nfaJointAll, List.mem_flatMap, List.mem_map, List.mem_filter, beq_iff_eq]
  constructor
  · rintro ⟨⟨p1, a1, q1⟩, he, ⟨p2, a2, q2⟩, ⟨he', h1⟩, heq⟩
    simp only [Prod.mk.injEq] at heq h1
    obtain ⟨e1, e2, e3⟩ := heq
    subst e1; subst e2; subst e3; subst h1
    exact ⟨he, he'⟩
  · rintro ⟨h1, h2⟩
    exact ⟨(p.1, a, q.1), h1, (p.2, a, q.2), ⟨h2, rfl⟩, rfl⟩

theorem mem_nfaPairSucc {A B : NFA} {D : List (Nat × Nat)} {q : Nat × Nat} :
    q ∈ nfaPairSucc A B D ↔ ∃ p, p ∈ D ∧ ∃ a, (p.1, a, q.1) ∈ A.trans ∧ (p.2, a, q.2) ∈ B.trans := by
  simp only [nfaPairSucc, List.mem_flatMap, List.mem_map]
  constructor
  · rintro ⟨p, hp, x, hx, rfl⟩
    exact ⟨p, hp, x.1, mem_nfaJoint.mp hx⟩
  · rintro ⟨p, hp, a, h1, h2⟩
    exact ⟨p, hp, (a, q), mem_nfaJoint.mpr ⟨h1, h2⟩, rfl⟩

def nfaPairOut (A B : NFA) (D : List (Nat × Nat)) : Nat :=
  ((nfaJointAll A B).filter (fun t => !D.contains t.2.2)).length

theorem nfaPairClosedB_of_out_zero {A B : NFA} {D : List (Nat × Nat)} (h : nfaPairOut A B D = 0) :
    nfaPairClosedB A B D = true := by
  rw [nfaPairClosedB_iff]
  intro p _ a q hA hB
  have h0 := List.length_eq_zero_iff.mp h
  rw [List.filter_eq_nil_iff] at h0
  have := h0 (p, a, q) (mem_nfaJointAll.mpr ⟨hA, hB⟩)
  rw [not_contains_iff] at this
  exact Classical.not_not.mp this

theorem nfaPairOut_grow_lt {A B : NFA} {D : List (Nat × Nat)} (h : ¬ nfaPairClosedB A B D = true) :
    nfaPairOut A B (D ++ ((nfaPairSucc A B D).filter (fun q => !D.contains q)).eraseDups) < nfaPairOut A B D := by
  rw [nfaPairClosedB_iff] at h
  have hex : ∃ p a q, p ∈ D ∧ (p.1, a, q.1) ∈ A.trans ∧ (p.2, a, q.2) ∈ B.trans ∧ q ∉ D := by
    apply Classical.byContradiction
    intro hn
    apply h
    intro p hp a q hA hB
    apply Classical.byContradiction
    intro hq
    exact hn ⟨p, a, q, hp, hA, hB, hq⟩
  obtain ⟨p, a, q, hp, hA, hB, hq⟩ := hex
  unfold nfaPairOut
  apply length_filter_lt_of_imp _ _ _ (p, a, q) _ _ _ (mem_nfaJointAll.mpr ⟨hA, hB⟩)
  · intro x hx
    rw [not_contains_iff] at hx ⊢
    intro hxD; exact hx (List.mem_append_left _ hxD)
  · exact not_contains_iff.mpr hq
  · rw [not_contains_iff]
    intro hn
    apply hn
    apply List.mem_append_right
    rw [List.mem_eraseDups, List.mem_filter, not_contains_iff]
    exact ⟨mem_nfaPairSucc.mpr ⟨p, hp, a, hA, hB⟩, hq⟩

theorem nfaPairIter_closed (A B : NFA) : ∀ (n : Nat) (D : List (Nat × Nat)), nfaPairOut A B D ≤ n →
    nfaPairClosedB A B (nfaPairIter A B n D) = true
  | 0, _, h => nfaPairClosedB_of_out_zero (Nat.le_zero.mp h)
  | n + 1, D, h => by
    simp only [nfaPairIter]
    split
    · assumption
    · rename_i hc
      have := nfaPairOut_grow_lt hc
      exact nfaPairIter_closed A B n _ (by omega)

theorem nfaIntersection_isSome (A B : NFA) : ∃ P, nfaIntersection A B (nfaJointAll A B).length = some P := by
  simp only [nfaIntersection]
  rw [if_pos (nfaPairIter_closed A B _ _ (List.length_filter_le _ _))]
  exact ⟨_, rfl⟩

theorem nfaIsect_lang (A B : NFA) (w : List Nat) : acceptsW (nfaIsect A B) w = (acceptsW A w && acceptsW B w) := by
  obtain ⟨P, hP⟩ := nfaIntersection_isSome A B
  rw [nfaIsect, hP]
  exact nfaIntersection_lang A B _ P hP w

example : acceptsW (nfaIsect ⟨[0], [1], [(0, 7, 0), (0, 8, 0), (0, 8, 1)]⟩
      ⟨[0], [0], [(0, 7, 1), (0, 8, 1), (1, 7, 0), (1, 8, 0)]⟩) [7, 8] = true ∧
    (nfaIsect ⟨[0], [1], [(0, 7, 0), (0, 8, 0), (0, 8, 1)]⟩
      ⟨[0], [0], [(0, 7, 1), (0, 8, 1), (1, 7, 0), (1, 8, 0)]⟩).trans.length = 5 := by decide

/-! ### the model of `GetCandidateTree` -/

/-- `R` is a sub-automaton of `N` -/
def NfaSub (R N : NFA) : Prop :=
  (∀ q, q ∈ R.start → q ∈ N.start) ∧ (∀ q, q ∈ R.final → q ∈ N.final) ∧ (∀ e, e ∈ R.trans → e ∈ N.trans)

theorem NfaSub.lang {R N : NFA} (h : NfaSub R N) (w : List Nat) : acceptsW R w = true → acceptsW N w = true :=
  sub_nfa_sub_lang R N w h.1 h.2.1 h.2.2

theorem NfaSub.refl (N : NFA) : NfaSub N N := ⟨fun _ h => h, fun _ h => h, fun _ h => h⟩

theorem mem_cand_cl {N : NFA} {act : Nat} {e : Nat × Nat × Nat} :
    e ∈ N.trans.filter (fun e => e.1 == act) ↔ e ∈ N.trans ∧ e.1 = act := by
  simp only [List.mem_filter, beq_iff_eq]

theorem mem_cand_tg {N : NFA} {act q : Nat} :
    q ∈ (N.trans.filter (fun e => e.1 == act)).map (·.2.2) ↔ ∃ a, (act, a, q) ∈ N.trans := by
  simp only [List.mem_map, mem_cand_cl]
  constructor
  · rintro ⟨⟨p, a, r⟩, ⟨he, h1⟩, h2⟩
    simp only at h1 h2
    subst h1; subst h2
    exact ⟨a, he⟩
  · rintro ⟨a, he⟩; exact ⟨(act, a, q), ⟨he, rfl⟩, rfl⟩

theorem nfaCandLoop_sub (N : NFA) : ∀ (n : Nat) (queue seen : List Nat) (T : List (Nat × Nat × Nat)),
    (∀ e, e ∈ T → e ∈ N.trans) → NfaSub (nfaCandLoop N n queue seen T) N
  | 0, _, _, _, _ => NfaSub.refl N
  | _ + 1, [], _, _, hT => ⟨fun _ h => h, fun _ h => (nomatch h), hT⟩
  | n + 1, act :: queue, seen, T, hT => by
    have hT' : ∀ e, e ∈ T ++ N.trans.filter (fun e => e.1 == act) → e ∈ N.trans := by
      intro e he
      rcases List.mem_append.mp he with h | h
      · exact hT e h
      · exact (mem_cand_cl.mp h).1
    simp only [nfaCandLoop]
    split
    · rename_i f hf
      refine ⟨fun _ h => h, ?_, hT'⟩
      intro q hq
      rw [List.mem_singleton] at hq
      subst hq
      exact List.contains_iff_mem.mp (List.find?_some hf)
    · exact nfaCandLoop_sub N n _ _ _ hT'

theorem nfaCandidateRaw_sub (N : NFA) : NfaSub (nfaCandidateRaw N) N := by
  unfold nfaCandidateRaw
  split
  · rename_i s hs
    have hsf : s ∈ N.final := List.contains_iff_mem.mp (List.find?_some hs)
    have hss : s ∈ N.start := List.mem_of_find?_eq_some hs
    refine ⟨?_, ?_, fun _ h => nomatch h⟩
    · intro q hq
      rcases List.mem_append.mp hq with h | h
      · exact (List.takeWhile_sublist _).subset h
      · rw [List.mem_singleton] at h; rw [h]; exact hss
    · intro q hq
      rw [List.mem_singleton] at hq; rw [hq]; exact hsf
  · exact nfaCandLoop_sub N _ _ _ _ (fun _ h => nomatch h)

/-- the candidate accepts only words of the input -/
theorem nfaCandidate_sub_lang (N : NFA) (w : List Nat) :
    acceptsW (nfaCandidate N) w = true → acceptsW N w = true := by
  rw [nfaCandidate, nfaRemoveUseless_lang]
  exact (nfaCandidateRaw_sub N).lang w

/-- invariant of the breadth-first search -/
structure CandInv (N : NFA) (queue seen : List Nat) (T : List (Nat × Nat × Nat)) : Prop where
  hT : ∀ e, e ∈ T → e ∈ N.trans
  hq : ∀ q, q ∈ queue → q ∈ seen
  hnf : ∀ q, q ∈ seen → q ∉ N.final
  hreach : ∀ q, q ∈ seen → ∃ s, s ∈ N.start ∧ ∃ w, Path ⟨[], [], T⟩ s w q
  hst : ∀ s, s ∈ N.start → s ∈ seen
  hexp : ∀ p, p ∈ seen → p ∈ queue ∨ ∀ a q, (p, a, q) ∈ N.trans → q ∈ seen

theorem candInv_step {N : NFA} {act : Nat} {queue seen : List Nat} {T : List (Nat × Nat × Nat)}
    (inv : CandInv N (act :: queue) seen T)
    (hnone : ((N.trans.filter (fun e => e.1 == act)).map (·.2.2)).find? N.final.contains = none) :
    CandInv N
      (queue ++ (((N.trans.filter (fun e => e.1 == act)).map (·.2.2)).filter (fun q => !seen.contains q)).eraseDups)
      (seen ++ (((N.trans.filter (fun e => e.1 == act)).map (·.2.2)).filter (fun q => !seen.contains q)).eraseDups)
      (T ++ N.trans.filter (fun e => e.1 == act)) := by
  have hnew : ∀ q, q ∈ (((N.trans.filter (fun e => e.1 == act)).map (·.2.2)).filter
      (fun q => !seen.contains q)).eraseDups ↔ (∃ a, (act, a, q) ∈ N.trans) ∧ q ∉ seen := by
    intro q
    rw [List.mem_eraseDups, List.mem_filter, mem_cand_tg, not_contains_iff]
  rw [List.find?_eq_none] at hnone
  refine ⟨?_, ?_, ?_, ?_, ?_, ?_⟩
  · intro e he
    rcases List.mem_append.mp he with h | h
    · exact inv.hT e h
    · exact (mem_cand_cl.mp h).1
  · intro q hq
    rcases List.mem_append.mp hq with h | h
    · exact List.mem_append_left _ (inv.hq q (List.mem_cons_of_mem _ h))
    · exact List.mem_append_right _ h
  · intro q hq
    rcases List.mem_append.mp hq with h | h
    · exact inv.hnf q h
    · intro hf
      exact hnone q (mem_cand_tg.mpr ((hnew q).mp h).1) (List.contains_iff_mem.mpr hf)
  · intro q hq
    rcases List.mem_append.mp hq with h | h
    · obtain ⟨s, hs, w, hp⟩ := inv.hreach q h
      exact ⟨s, hs, w, hp.mono (fun e he => List.mem_append_left _ he)⟩
    · obtain ⟨⟨a, he⟩, _⟩ := (hnew q).mp h
      obtain ⟨s, hs, w, hp⟩ := inv.hreach act (inv.hq act List.mem_cons_self)
      refine ⟨s, hs, w ++ [a], ?_⟩
      apply Path.snoc (hp.mono (fun e he => List.mem_append_left _ he))
      exact List.mem_append_right _ (mem_cand_cl.mpr ⟨he, rfl⟩)
  · intro s hs; exact List.mem_append_left _ (inv.hst s hs)
  · intro p hp
    have hact : ∀ a q, (act, a, q) ∈ N.trans → q ∈ seen ++ (((N.trans.filter (fun e => e.1 == act)).map
        (·.2.2)).filter (fun q => !seen.contains q)).eraseDups := by
      intro a q he
      by_cases hq : q ∈ seen
      · exact List.mem_append_left _ hq
      · exact List.mem_append_right _ ((hnew q).mpr ⟨⟨a, he⟩, hq⟩)
    rcases List.mem_append.mp hp with h | h
    · rcases inv.hexp p h with h' | h'
      · rcases List.mem_cons.mp h' with h'' | h''
        · right; rw [h'']; exact hact
        · left; exact List.mem_append_left _ h''
      · right; intro a q he; exact List.mem_append_left _ (h' a q he)
    · left; exact List.mem_append_right _ h

theorem nfaCandLoop_nonempty (N : NFA) (hne : ∃ w, acceptsW N w = true) :
    ∀ (n : Nat) (queue seen : List Nat) (T : List (Nat × Nat × Nat)), CandInv N queue seen T →
      ∃ w, acceptsW (nfaCandLoop N n queue seen T) w = true
  | 0, _, _, _, _ => hne
  | _ + 1, [], seen, T, inv => by
    exfalso
    obtain ⟨w, hw⟩ := hne
    obtain ⟨s, hs, q, hq, hp⟩ := (acceptsW_iff N w).mp hw
    have hstep : ∀ p a q, (p, a, q) ∈ N.trans → p ∈ seen → (p, a, q) ∈ N.trans ∧ q ∈ seen := by
      intro p a q he hps
      rcases inv.hexp p hps with h | h
      · exact nomatch h
      · exact ⟨he, h a q he⟩
    exact inv.hnf q (Path.restrict (fun x => x ∈ seen) hstep hp (inv.hst s hs)).2 hq
  | n + 1, act :: queue, seen, T, inv => by
    simp only [nfaCandLoop]
    split
    · rename_i f hf
      obtain ⟨a, he⟩ := mem_cand_tg.mp (List.mem_of_find?_eq_some hf)
      obtain ⟨s, hs, w, hp⟩ := inv.hreach act (inv.hq act List.mem_cons_self)
      refine ⟨w ++ [a], (acceptsW_iff _ _).mpr ⟨s, hs, f, List.mem_singleton.mpr rfl, ?_⟩⟩
      apply Path.snoc (hp.mono (fun e he => List.mem_append_left _ he))
      exact List.mem_append_right _ (mem_cand_cl.mpr ⟨he, rfl⟩)
    · rename_i hnone
      exact nfaCandLoop_nonempty N hne n _ _ _ (candInv_step inv hnone)

theorem nfaCandidateRaw_nonempty (N : NFA) (hne : ∃ w, acceptsW N w = true) :
    ∃ w, acceptsW (nfaCandidateRaw N) w = true := by
  unfold nfaCandidateRaw
  split
  · rename_i s hs
    refine ⟨[], (acceptsW_iff _ _).mpr ⟨s, ?_, s, List.mem_singleton.mpr rfl, .nil s⟩⟩
    exact List.mem_append_right _ (List.mem_singleton.mpr rfl)
  · rename_i hnone
    rw [List.find?_eq_none] at hnone
    apply nfaCandLoop_nonempty N hne
    refine ⟨fun _ h => (nomatch h), fun _ h => h, ?_, ?_, ?_, ?_⟩
    · intro q hq hf
      exact hnone q (List.mem_eraseDups.mp hq) (List.contains_iff_mem.mpr hf)
    · intro q hq; exact ⟨q, List.mem_eraseDups.mp hq, [], .nil q⟩
    · intro s hs; exact List.mem_eraseDups.mpr hs
    · intro p hp; exact Or.inl hp

/-- the candidate is empty exactly when the input is -/
theorem nfaCandidate_nonempty_iff (N : NFA) :
    (∃ w, acceptsW (nfaCandidate N) w = true) ↔ ∃ w, acceptsW N w = true := by
  constructor
  · rintro ⟨w, hw⟩; exact ⟨w, nfaCandidate_sub_lang N w hw⟩
  · intro hne
    obtain ⟨w, hw⟩ := nfaCandidateRaw_nonempty N hne
    exact ⟨w, by rw [nfaCandidate, nfaRemoveUseless_lang]; exact hw⟩

/-- non-vacuity: the search stops at the first final state found (2), the branch to 3 is dropped -/
example : (nfaCandidate ⟨[0], [2, 4], [(0, 7, 1), (1, 8, 2), (1, 9, 3), (3, 7, 4)]⟩).trans = [(0, 7, 1), (1, 8, 2)] ∧
    acceptsW (nfaCandidate ⟨[0], [2, 4], [(0, 7, 1), (1, 8, 2), (1, 9, 3), (3, 7, 4)]⟩) [7, 8] = true ∧
    acceptsW ⟨[0], [2, 4], [(0, 7, 1), (1, 8, 2), (1, 9, 3), (3, 7, 4)]⟩ [7, 9, 7] = true ∧
    acceptsW (nfaCandidate ⟨[0], [2, 4], [(0, 7, 1), (1, 8, 2), (1, 9, 3), (3, 7, 4)]⟩) [7, 9, 7] = false := by decide

end Vata
