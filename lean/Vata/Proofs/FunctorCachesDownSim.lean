import Vata.Proofs.FunctorCachesDown
/-!
# The caches of the recursive downward inclusion algorithm are transparent – with the library's deleter (C01, C07)

Model: `Vata/FunctorCachesDown.lean`; heap lemmas: `Vata/Proofs/FunctorCachesDown.lean`.

The simulation relation `DRel o ctx ccC stC cc st` between the cached state (a `childrenCache_` of pairs (state, address), the
global state with `nonIncl_` and the heap) and the state of `InclDown` (pairs (state, set)):

* the heap invariant `HInvD` (every entry of `lteCache` mentions live addresses only and stores `NonCachedLte` of the sets
  now there);
* `ctx` – the handles held by the frames of the call stack that do not change while the current code runs (the work-set, the
  `childrenCache_`s of the functors up the stack, the argument of the running `expand`), each with the VALUE it must keep: all
  live, all with that value;
* the addresses in `childrenCache_` and `nonIncl_` are live, and read through the heap the two containers are those of the
  cache-free run; the ghost sets are equal.

Every combinator of the functor's `operator()` preserves it (`forAllLC_rel` … `bodyC_rel`), `wrapC_rel` is the creation of the
temporary and the deaths at the return of `expand` (any allocator; the roots cover `ctx`), `expandC_rel` the induction on the
recursion depth.  Results: `rootLoopC_rel`, `runC_eq`, `inclDown_cached_eq`, `inclDownSim_cached_eq`, `runC_heap_sound`.
-/
namespace Vata
namespace FCD
open Vata.InclDown Vata.CM
open Vata.FCU (Heap hval hLookup hCollect Live)
open Vata.InclUp (normS prodWit Wit)

/-- the handles of the frozen frames are live and hold the expected values -/
def CtxOK (h : Heap) (ctx : List (Nat × List Nat)) : Prop := ∀ x, x ∈ ctx → Live h x.1 ∧ hval h x.1 = x.2

structure DRel (o : Ord) (ctx : List (Nat × List Nat)) (ccC : List CP) (stC : StC) (cc : List Pair) (st : St) : Prop where
  hi : HInvD o stC.h
  ok : CtxOK stC.h ctx
  lcc : ∀ x, x ∈ ccC → Live stC.h x.2
  lni : ∀ x, x ∈ stC.nonIncl → Live stC.h x.2.1
  ecc : ccC.map (derefP stC.h) = cc
  eni : stC.nonIncl.map (derefN stC.h) = st.nonIncl
  etr : stC.trues = st.trues

/-- a heap in which the objects the state can see are still live with the same values; the context may shrink -/
theorem DRel.heap {o : Ord} {ctx ctx' : List (Nat × List Nat)} {ccC : List CP} {stC : StC} {cc : List Pair} {st : St}
    (h : DRel o ctx ccC stC cc st) {h' : Heap} (hi' : HInvD o h')
    (hp : ∀ a, ((∃ x, x ∈ ctx' ∧ x.1 = a) ∨ (∃ x, x ∈ ccC ∧ x.2 = a) ∨ (∃ x, x ∈ stC.nonIncl ∧ x.2.1 = a)) →
      Live stC.h a → Live h' a ∧ hval h' a = hval stC.h a)
    (hsub : ∀ x, x ∈ ctx' → x ∈ ctx) : DRel o ctx' ccC { stC with h := h' } cc st := by
  refine ⟨hi', ?_, ?_, ?_, ?_, ?_, h.etr⟩
  · intro x hx
    obtain ⟨l, v⟩ := h.ok x (hsub x hx)
    obtain ⟨l', v'⟩ := hp x.1 (Or.inl ⟨x, hx, rfl⟩) l
    exact ⟨l', v'.trans v⟩
  · intro x hx
    exact (hp x.2 (Or.inr (Or.inl ⟨x, hx, rfl⟩)) (h.lcc x hx)).1
  · intro x hx
    exact (hp x.2.1 (Or.inr (Or.inr ⟨x, hx, rfl⟩)) (h.lni x hx)).1
  · rw [← h.ecc]
    apply List.map_congr_left
    intro x hx
    simp only [derefP, (hp x.2 (Or.inr (Or.inl ⟨x, hx, rfl⟩)) (h.lcc x hx)).2]
  · rw [← h.eni]
    apply List.map_congr_left
    intro x hx
    simp only [derefN, (hp x.2.1 (Or.inr (Or.inr ⟨x, hx, rfl⟩)) (h.lni x hx)).2]

/-- a heap with the same objects (only `lteCache` grew) -/
theorem DRel.sameStore {o : Ord} {ctx : List (Nat × List Nat)} {ccC : List CP} {stC : StC} {cc : List Pair} {st : St}
    (h : DRel o ctx ccC stC cc st) {h' : Heap} (hi' : HInvD o h') (hs : h'.store = stC.h.store) :
    DRel o ctx ccC { stC with h := h' } cc st :=
  h.heap hi' (fun a _ ha => ⟨(FCU.live_store hs a).mpr ha, FCU.hval_store hs a⟩) (fun _ hx => hx)

theorem DRel.cons {o : Ord} {ctx : List (Nat × List Nat)} {ccC : List CP} {stC : StC} {cc : List Pair} {st : St}
    (h : DRel o ctx ccC stC cc st) {a : Nat} {Q : List Nat} (hl : Live stC.h a) (hv : hval stC.h a = Q) :
    DRel o ((a, Q) :: ctx) ccC stC cc st :=
  ⟨h.hi, fun x hx => by
      rcases List.mem_cons.mp hx with rfl | hx
      · exact ⟨hl, hv⟩
      · exact h.ok x hx, h.lcc, h.lni, h.ecc, h.eni, h.etr⟩

def RetRel {γ : Type} (o : Ord) (ctx : List (Nat × List Nat)) :
    Option (γ × List CP × StC) → Option (γ × List Pair × St) → Prop
  | none, none => True
  | some (v, ccC, stC), some (v', cc, st) => v = v' ∧ DRel o ctx ccC stC cc st
  | _, _ => False

theorem retRel_none {γ : Type} {o : Ord} {ctx : List (Nat × List Nat)} : RetRel (γ := γ) o ctx none none := by
  simp [RetRel]

theorem retRel_some {γ : Type} {o : Ord} {ctx : List (Nat × List Nat)} {v : γ} {ccC : List CP} {stC : StC}
    {cc : List Pair} {st : St} (h : DRel o ctx ccC stC cc st) :
    RetRel o ctx (some (v, ccC, stC)) (some (v, cc, st)) := by
  simp only [RetRel]; exact ⟨trivial, h⟩

theorem retRel_elim {γ : Type} {o : Ord} {ctx : List (Nat × List Nat)} {rc : Option (γ × List CP × StC)}
    {r : Option (γ × List Pair × St)} (h : RetRel o ctx rc r) :
    (rc = none ∧ r = none) ∨
    ∃ v ccC stC cc st, rc = some (v, ccC, stC) ∧ r = some (v, cc, st) ∧ DRel o ctx ccC stC cc st := by
  cases rc with
  | none =>
    cases r with
    | none => exact Or.inl ⟨rfl, rfl⟩
    | some y => simp [RetRel] at h
  | some x =>
    obtain ⟨v, ccC, stC⟩ := x
    cases r with
    | none => simp [RetRel] at h
    | some y =>
      obtain ⟨v', cc, st⟩ := y
      simp only [RetRel] at h
      obtain ⟨rfl, hr⟩ := h
      exact Or.inr ⟨_, _, _, _, _, rfl, rfl, hr⟩

def StepRel {γ : Type} (o : Ord) (ctx : List (Nat × List Nat)) (fC : List CP → StC → Option (γ × List CP × StC))
    (f : List Pair → St → Option (γ × List Pair × St)) : Prop :=
  ∀ ccC stC cc st, DRel o ctx ccC stC cc st → RetRel o ctx (fC ccC stC) (f cc st)

def CallRel (o : Ord) (ctx : List (Nat × List Nat)) (cC : CallC) (c : Call) : Prop :=
  ∀ q Q, StepRel o ctx (fun cc st => cC cc st q Q) (fun cc st => c cc st q Q)

/-! ### the functor's `operator()` -/

theorem forAllLC_rel {α : Type} {o : Ord} {ctx : List (Nat × List Nat)} {fC : α → List CP → StC → RetC}
    {f : α → List Pair → St → Ret} (hf : ∀ a, StepRel o ctx (fC a) (f a)) :
    ∀ l : List α, StepRel o ctx (forAllLC fC l) (forAllL f l)
  | [] => fun ccC stC cc st h => by simp only [forAllLC, forAllL]; exact retRel_some h
  | a :: l => fun ccC stC cc st h => by
    rcases retRel_elim (hf a ccC stC cc st h) with ⟨e1, e2⟩ | ⟨v, ccC', stC', cc', st', e1, e2, hr⟩
    · simp only [forAllLC, forAllL, e1, e2]; exact retRel_none
    · cases v with
      | holds => simp only [forAllLC, forAllL, e1, e2]; exact forAllLC_rel hf l _ _ _ _ hr
      | fails w => simp only [forAllLC, forAllL, e1, e2]; exact retRel_some hr

theorem allPosC_rel {o : Ord} {ctx : List (Nat × List Nat)} {cC : CallC} {c : Call} (hc : CallRel o ctx cC c)
    (lhs rhs : List Nat) : StepRel o ctx (allPosC cC lhs rhs) (allPos c lhs rhs) :=
  forAllLC_rel (α := Nat × Nat) (fC := fun lr cc st => cC cc st lr.1 [lr.2]) (f := fun lr cc st => c cc st lr.1 [lr.2])
    (fun lr => hc lr.1 [lr.2]) (lhs.zip rhs)

theorem anyTupleC_rel {o : Ord} {ctx : List (Nat × List Nat)} {cC : CallC} {c : Call} (hc : CallRel o ctx cC c)
    (lhs : List Nat) : ∀ W : List (List Nat), StepRel o ctx (anyTupleC cC lhs W) (anyTuple c lhs W)
  | [] => fun ccC stC cc st h => by simp only [anyTupleC, anyTuple]; exact retRel_some h
  | w :: W => fun ccC stC cc st h => by
    rcases retRel_elim (allPosC_rel hc lhs w ccC stC cc st h) with ⟨e1, e2⟩ | ⟨v, ccC', stC', cc', st', e1, e2, hr⟩
    · simp only [anyTupleC, anyTuple, e1, e2]; exact retRel_none
    · cases v with
      | holds => simp only [anyTupleC, anyTuple, e1, e2]; exact retRel_some hr
      | fails t => simp only [anyTupleC, anyTuple, e1, e2]; exact anyTupleC_rel hc lhs W _ _ _ _ hr

theorem consTC_rel {o : Ord} {ctx : List (Nat × List Nat)} (t : Tree) {rc : Option (Option (List Tree) × List CP × StC)}
    {r : Option (Option (List Tree) × List Pair × St)} (h : RetRel o ctx rc r) : RetRel o ctx (consTC t rc) (consT t r) := by
  rcases retRel_elim h with ⟨e1, e2⟩ | ⟨v, ccC', stC', cc', st', e1, e2, hr⟩
  · subst e1; subst e2; exact retRel_none
  · subst e1; subst e2
    cases v with
    | none => exact retRel_some hr
    | some ts => exact retRel_some hr

theorem tryPosC_rel {o : Ord} {ctx : List (Nat × List Nat)} {cC : CallC} {c : Call} (hc : CallRel o ctx cC c)
    (wit : Wit) (post : List Nat → List Nat) (W : List (List Nat)) (cs : List Nat) :
    ∀ (ls : List Nat) (i : Nat), StepRel o ctx (tryPosC cC wit post W cs i ls) (tryPos c wit post W cs i ls)
  | [], i => fun ccC stC cc st h => by simp only [tryPosC, tryPos]; exact retRel_some h
  | l :: ls, i => fun ccC stC cc st h => by
    simp only [tryPosC, tryPos]
    split
    · exact consTC_rel _ (tryPosC_rel hc wit post W cs ls (i+1) _ _ _ _ h)
    · rcases retRel_elim (hc l (posSet post W cs i) ccC stC cc st h) with ⟨e1, e2⟩ | ⟨v, ccC', stC', cc', st', e1, e2, hr⟩
      · simp only at e1 e2; simp only [e1, e2]; exact retRel_none
      · simp only at e1 e2
        cases v with
        | holds => simp only [e1, e2]; exact retRel_some hr
        | fails t => simp only [e1, e2]; exact consTC_rel _ (tryPosC_rel hc wit post W cs ls (i+1) _ _ _ _ hr)

theorem oneCfC_rel {o : Ord} {ctx : List (Nat × List Nat)} {cC : CallC} {c : Call} (hc : CallRel o ctx cC c)
    (wit : Wit) (post : List Nat → List Nat) (f : Nat) (lhs : List Nat) (W : List (List Nat)) (cs : List Nat) :
    StepRel o ctx (oneCfC cC wit post f lhs W cs) (oneCf c wit post f lhs W cs) := fun ccC stC cc st h => by
  rcases retRel_elim (tryPosC_rel hc wit post W cs lhs 0 ccC stC cc st h) with ⟨e1, e2⟩ | ⟨v, ccC', stC', cc', st', e1, e2, hr⟩
  · simp only [oneCfC, oneCf, e1, e2]; exact retRel_none
  · cases v with
    | none => simp only [oneCfC, oneCf, e1, e2]; exact retRel_some hr
    | some ts => simp only [oneCfC, oneCf, e1, e2]; exact retRel_some hr

theorem cfAllC_rel {o : Ord} {ctx : List (Nat × List Nat)} {oneC : List Nat → List CP → StC → RetC}
    {one : List Nat → List Pair → St → Ret} (h1 : ∀ cs, StepRel o ctx (oneC cs) (one cs)) (n : Nat) :
    ∀ (m : Nat) (cs : List Nat), StepRel o ctx (cfAllC oneC n m cs) (cfAll one n m cs)
  | 0, cs => fun ccC stC cc st h => by simp only [cfAllC, cfAll]; exact h1 cs _ _ _ _ h
  | m+1, cs => fun ccC stC cc st h => by
    simp only [cfAllC, cfAll]
    exact forAllLC_rel (fun i => cfAllC_rel h1 n m (i :: cs)) _ _ _ _ _ h

theorem procTupleC_rel {o : Ord} {ctx : List (Nat × List Nat)} {c1C c2C : CallC} {c1 c2 : Call}
    (hc1 : CallRel o ctx c1C c1) (hc2 : CallRel o ctx c2C c2) (wit : Wit) (post : List Nat → List Nat) (f : Nat)
    (W : List (List Nat)) (lhs : List Nat) :
    StepRel o ctx (procTupleC c1C c2C wit post f W lhs) (procTuple c1 c2 wit post f W lhs) := fun ccC stC cc st h => by
  rcases retRel_elim (anyTupleC_rel hc1 lhs W ccC stC cc st h) with ⟨e1, e2⟩ | ⟨v, ccC', stC', cc', st', e1, e2, hr⟩
  · simp only [procTupleC, procTuple, e1, e2]; exact retRel_none
  · cases v with
    | true => simp only [procTupleC, procTuple, e1, e2]; exact retRel_some hr
    | false =>
      simp only [procTupleC, procTuple, e1, e2]
      exact cfAllC_rel (fun cs => oneCfC_rel hc2 wit post f lhs W cs) _ _ _ _ _ _ _ hr

theorem procGroupC_rel {o : Ord} {ctx : List (Nat × List Nat)} {c1C c2C : CallC} {c1 c2 : Call}
    (hc1 : CallRel o ctx c1C c1) (hc2 : CallRel o ctx c2C c2) (A B : TA) (wit : Wit) (post : List Nat → List Nat)
    (p : Nat) (P : List Nat) (f n : Nat) :
    StepRel o ctx (procGroupC c1C c2C A B wit post p P f n) (procGroup c1 c2 A B wit post p P f n) :=
  fun ccC stC cc st h => by
  simp only [procGroupC, procGroup]
  split
  · split
    · exact retRel_some h
    · exact retRel_some h
  · split
    · exact retRel_some h
    · exact forAllLC_rel (fun lhs => procTupleC_rel hc1 hc2 wit post f _ lhs) _ _ _ _ _ h

theorem bodyC_rel {o : Ord} {ctx : List (Nat × List Nat)} {c1C c2C : CallC} {c1 c2 : Call}
    (hc1 : CallRel o ctx c1C c1) (hc2 : CallRel o ctx c2C c2) (A B : TA) (wit : Wit) (post : List Nat → List Nat)
    (p : Nat) (P : List Nat) :
    StepRel o ctx (bodyC c1C c2C A B wit post p P) (body c1 c2 A B wit post p P) :=
  forAllLC_rel (α := Nat × Nat) (fC := fun g => procGroupC c1C c2C A B wit post p P g.1 g.2)
    (f := fun g => procGroup c1 c2 A B wit post p P g.1 g.2)
    (fun g => procGroupC_rel hc1 hc2 A B wit post p P g.1 g.2) (lhsGroups A p)

/-! ### the temporary of a call and the deaths at its return -/

theorem mem_rootsOf {roots : List Nat} {cc : List CP} {st : StC} {a : Nat} :
    a ∈ rootsOf roots cc st ↔ a ∈ roots ∨ (∃ x, x ∈ cc ∧ x.2 = a) ∨ (∃ x, x ∈ st.nonIncl ∧ x.2.1 = a) := by
  simp only [rootsOf, List.mem_append, List.mem_map, or_assoc]

/-- `expand(q, biggerTypeCache_.lookup(Q))` as the calling functor sees it, for any allocator: if `expand` on the looked-up
address simulates the cache-free `expand` on the value, the call with the creation of the temporary before and the deaths
after it does -/
theorem wrapC_rel {o : Ord} (pick : List Nat → Nat) {ctx : List (Nat × List Nat)} {roots : List Nat}
    {e : List CP → StC → Nat → Nat → RetC} {c : Call} (hroots : ∀ x, x ∈ ctx → x.1 ∈ roots)
    (he : ∀ q a Q, StepRel o ((a, Q) :: ctx) (fun cc st => e cc st q a) (fun cc st => c cc st q Q)) :
    CallRel o ctx (wrapC .lib pick roots e) c := fun q Q ccC stC cc st h => by
  obtain ⟨l1, l2, l3, l4⟩ := hLookupD_spec pick h.hi Q
  have h1 : DRel o ctx ccC { stC with h := (hLookup pick stC.h Q).1 } cc st :=
    h.heap l1 (fun a _ ha => l4 a ha) (fun _ hx => hx)
  have h2 := DRel.cons h1 (a := (hLookup pick stC.h Q).2) (Q := Q) l2 l3
  simp only [wrapC]
  rcases retRel_elim (he q _ Q ccC _ cc st h2) with ⟨e1, e2⟩ | ⟨v, ccC', stC', cc', st', e1, e2, hr⟩
  · simp only at e1 e2; simp only [e1, e2]; exact retRel_none
  · simp only at e1 e2
    simp only [e1, e2]
    obtain ⟨g1, g2⟩ := hCollectD_spec hr.hi (rootsOf roots ccC' stC')
    refine retRel_some (hr.heap g1 (fun a ha hl => g2 a (mem_rootsOf.mpr ?_) hl) (fun x hx => List.mem_cons_of_mem _ hx))
    rcases ha with ⟨x, hx, rfl⟩ | hcc | hni
    · exact Or.inl (hroots x hx)
    · exact Or.inr (Or.inl hcc)
    · exact Or.inr (Or.inr hni)

/-! ### `expand` -/

/-- **`expand` with its caches simulates the cache-free `expand`**, for every allocator, with the library's deleter -/
theorem expandC_rel {o : Ord} (hr : ∀ q, o.leB q q = true) (pick : List Nat → Nat) (A B : TA) (wit : Wit) :
    ∀ (fuel : Nat) (ws : List CP) (outer : List Nat) (wsV : List Pair) (ctx : List (Nat × List Nat)),
    (∀ h, CtxOK h ctx → ws.map (derefP h) = wsV) → (∀ x, x ∈ ws → ∃ V, (x.2, V) ∈ ctx) →
    ∀ (p a : Nat) (P : List Nat), (a, P) ∈ ctx →
    (∀ x, x ∈ ctx → x.1 = a ∨ x.1 ∈ ws.map (·.2) ∨ x.1 ∈ outer) →
    StepRel o ctx (fun cc st => expandC o .lib pick A B wit fuel ws outer cc st p a)
      (fun cc st => expand o A B wit fuel wsV cc st p P)
  | 0, _, _, _, _, _, _, _, _, _, _, _ => fun _ _ _ _ _ => by simp only [expandC, expand]; exact retRel_none
  | fuel+1, ws, outer, wsV, ctx, hws, hwc, p, a, P, hmem, hcov => fun ccC stC cc st h => by
    obtain ⟨ha, hP⟩ := h.ok _ hmem
    have hwsl : ∀ x, x ∈ ws → Live stC.h x.2 := fun x hx => by
      obtain ⟨V, hV⟩ := hwc x hx
      exact (h.ok _ hV).1
    -- isInWorkset
    obtain ⟨e1, m1, c1⟩ := coversC_spec hr ws p a h.hi ha hwsl
    rw [hws _ h.ok, hP] at e1
    simp only [expandC, expand]
    rw [e1]
    by_cases hc1 : covers o wsV p P = true
    · rw [if_pos hc1, if_pos hc1]; exact retRel_some (h.sameStore m1 c1)
    rw [if_neg hc1, if_neg hc1]
    have h1 := h.sameStore m1 c1
    -- isNoninclusionImplied
    obtain ⟨e2, m2, c2⟩ := niFindC_spec hr stC.nonIncl p a m1 ((FCU.live_store c1 _).mpr ha) h1.lni
    rw [h1.eni, FCU.hval_store c1, hP] at e2
    have c2' := c2.trans c1
    cases hn : (niFindC o stC.nonIncl p a (coversC o ws p a stC.h).1).2 with
    | some x =>
      rw [hn] at e2
      simp only [Option.map_some] at e2
      rw [← e2]
      exact retRel_some (h.sameStore m2 c2')
    | none =>
      rw [hn] at e2
      simp only [Option.map_none] at e2
      rw [← e2]
      simp only []
      have h2 := h.sameStore m2 c2'
      -- isImpliedByChildren
      obtain ⟨e3, m3, c3⟩ := coversC_spec hr ccC p a m2 ((FCU.live_store c2' _).mpr ha) h2.lcc
      rw [h2.ecc, FCU.hval_store c2', hP] at e3
      have c3' := c3.trans c2'
      rw [e3]
      by_cases hc3 : covers o cc p P = true
      · rw [if_pos hc3, if_pos hc3]; exact retRel_some (h.sameStore m3 c3')
      rw [if_neg hc3, if_neg hc3]
      -- IsImpliedByPreorder
      rw [FCU.hval_store c3', hP]
      by_cases hc4 : byPre o p P = true
      · rw [if_pos hc4, if_pos hc4]; exact retRel_some (h.sameStore m3 c3')
      rw [if_neg hc4, if_neg hc4]
      have h3 := h.sameStore m3 c3'
      -- the body, run by `innerFctor`; the `childrenCache_` of `*this` is frozen meanwhile
      let ctx1 : List (Nat × List Nat) := ctx ++ ccC.map (fun x => (x.2, hval stC.h x.2))
      have hctx1 : ∀ x, x ∈ ctx1 ↔ x ∈ ctx ∨ ∃ y, y ∈ ccC ∧ x = (y.2, hval stC.h y.2) := by
        intro x
        simp only [ctx1, List.mem_append, List.mem_map]
        constructor
        · rintro (hx | ⟨y, hy, rfl⟩)
          · exact Or.inl hx
          · exact Or.inr ⟨y, hy, rfl⟩
        · rintro (hx | ⟨y, hy, rfl⟩)
          · exact Or.inl hx
          · exact Or.inr ⟨y, hy, rfl⟩
      have hcall : CallRel o ctx1
          (wrapC .lib pick (a :: ws.map (·.2) ++ (outer ++ ccC.map (·.2)))
            (expandC o .lib pick A B wit fuel ((p, a) :: ws) (outer ++ ccC.map (·.2))))
          (expand o A B wit fuel ((p, P) :: wsV)) := by
        apply wrapC_rel pick
        · intro x hx
          simp only [List.cons_append, List.mem_cons, List.mem_append, List.mem_map]
          rcases (hctx1 x).mp hx with hx | ⟨y, hy, rfl⟩
          · rcases hcov x hx with hx | hx | hx
            · exact Or.inl hx
            · exact Or.inr (Or.inl (List.mem_map.mp hx))
            · exact Or.inr (Or.inr (Or.inl hx))
          · exact Or.inr (Or.inr (Or.inr ⟨y, hy, rfl⟩))
        · intro q a' Q
          apply expandC_rel hr pick A B wit fuel
          · intro hh hok
            have hok' : CtxOK hh ctx := fun x hx =>
              hok x (List.mem_cons_of_mem _ ((hctx1 x).mpr (Or.inl hx)))
            simp only [List.map_cons, hws hh hok', derefP, (hok' _ hmem).2]
          · intro x hx
            rcases List.mem_cons.mp hx with rfl | hx
            · exact ⟨P, List.mem_cons_of_mem _ ((hctx1 _).mpr (Or.inl hmem))⟩
            · obtain ⟨V, hV⟩ := hwc x hx
              exact ⟨V, List.mem_cons_of_mem _ ((hctx1 _).mpr (Or.inl hV))⟩
          · exact List.mem_cons_self
          · intro x hx
            simp only [List.map_cons, List.mem_cons, List.mem_append, List.mem_map]
            rcases List.mem_cons.mp hx with rfl | hx
            · exact Or.inl rfl
            · rcases (hctx1 x).mp hx with hx | ⟨y, hy, rfl⟩
              · rcases hcov x hx with hx | hx | hx
                · exact Or.inr (Or.inl (Or.inl hx))
                · exact Or.inr (Or.inl (Or.inr (List.mem_map.mp hx)))
                · exact Or.inr (Or.inr (Or.inl hx))
              · exact Or.inr (Or.inr (Or.inr ⟨y, hy, rfl⟩))
      have hb0 : DRel o ctx1 [] { stC with h := (coversC o ccC p a (niFindC o stC.nonIncl p a (coversC o ws p a stC.h).1).1).1 }
          [] st := by
        refine ⟨m3, ?_, (fun x hx => by cases hx), h3.lni, rfl, h3.eni, h3.etr⟩
        intro x hx
        rcases (hctx1 x).mp hx with hx | ⟨y, hy, rfl⟩
        · exact h3.ok x hx
        · exact ⟨h3.lcc y hy, FCU.hval_store c3' _⟩
      rcases retRel_elim (bodyC_rel hcall hcall A B wit normS p P [] _ [] st hb0) with ⟨e5, e6⟩ |
        ⟨v, cc1, st', cc1V, stV, e5, e6, hb⟩
      · rw [e5, e6]; exact retRel_none
      · rw [e5, e6]
        have hctxsub : ∀ x, x ∈ ctx → x ∈ ctx1 := fun x hx => (hctx1 x).mpr (Or.inl hx)
        obtain ⟨ha', hP'⟩ := hb.ok _ (hctxsub _ hmem)
        have hccl : ∀ x, x ∈ ccC → Live st'.h x.2 ∧ hval st'.h x.2 = hval stC.h x.2 := fun x hx =>
          hb.ok _ ((hctx1 _).mpr (Or.inr ⟨x, hx, rfl⟩))
        have hccv : ccC.map (derefP st'.h) = cc := by
          rw [← h.ecc]
          apply List.map_congr_left
          intro x hx
          simp only [derefP, (hccl x hx).2]
        cases v with
        | holds =>
          simp only []
          obtain ⟨e4, m4, c4, s4⟩ := ccAddC_spec hr ccC p a hb.hi ha' (fun x hx => (hccl x hx).1)
          rw [hccv, hP'] at e4
          rw [hP']
          have hrel4 : DRel o ctx (ccAddC o ccC p a st'.h).2
              ⟨st'.nonIncl, addTrue st'.trues (p, P), (ccAddC o ccC p a st'.h).1⟩ (ccAdd o cc p P)
              ⟨stV.nonIncl, addTrue stV.trues (p, P)⟩ := by
            refine ⟨m4, ?_, ?_, ?_, ?_, ?_, ?_⟩
            · intro x hx
              obtain ⟨l, v⟩ := hb.ok x (hctxsub x hx)
              exact ⟨(FCU.live_store c4 _).mpr l, (FCU.hval_store c4 _).trans v⟩
            · intro x hx
              apply (FCU.live_store c4 _).mpr
              rcases s4 x hx with hx | rfl
              · exact (hccl x hx).1
              · exact ha'
            · intro x hx
              exact (FCU.live_store c4 _).mpr (hb.lni x hx)
            · show (ccAddC o ccC p a st'.h).2.map (derefP (ccAddC o ccC p a st'.h).1) = _
              rw [derefP_store c4]; exact e4
            · show st'.nonIncl.map (derefN (ccAddC o ccC p a st'.h).1) = _
              rw [derefN_store c4]; exact hb.eni
            · show addTrue st'.trues (p, P) = addTrue stV.trues (p, P)
              rw [hb.etr]
          obtain ⟨g1, g2⟩ := hCollectD_spec m4 (rootsOf (a :: ws.map (·.2) ++ outer ++ cc1.map (·.2)) (ccAddC o ccC p a st'.h).2
            ⟨st'.nonIncl, addTrue st'.trues (p, P), (ccAddC o ccC p a st'.h).1⟩)
          refine retRel_some (hrel4.heap g1 (fun a' ha'' hl => g2 a' (mem_rootsOf.mpr ?_) hl) (fun _ hx => hx))
          rcases ha'' with ⟨x, hx, rfl⟩ | hcc | hni
          · refine Or.inl ?_
            simp only [List.cons_append, List.mem_cons, List.mem_append]
            rcases hcov x hx with hx | hx | hx
            · exact Or.inl hx
            · exact Or.inr (Or.inl (Or.inl hx))
            · exact Or.inr (Or.inl (Or.inr hx))
          · exact Or.inr (Or.inl hcc)
          · exact Or.inr (Or.inr hni)
        | fails t =>
          simp only []
          obtain ⟨e4, m4, c4, s4⟩ := niAddC_spec hr st'.nonIncl p a t hb.hi ha' hb.lni
          rw [hb.eni, hP'] at e4
          have hrel4 : DRel o ctx ccC
              ⟨(niAddC o st'.nonIncl p a t st'.h).2, stC.trues, (niAddC o st'.nonIncl p a t st'.h).1⟩ cc
              ⟨niAdd o stV.nonIncl p P t, st.trues⟩ := by
            refine ⟨m4, ?_, ?_, ?_, ?_, ?_, ?_⟩
            · intro x hx
              obtain ⟨l, v⟩ := hb.ok x (hctxsub x hx)
              exact ⟨(FCU.live_store c4 _).mpr l, (FCU.hval_store c4 _).trans v⟩
            · intro x hx
              exact (FCU.live_store c4 _).mpr (hccl x hx).1
            · intro x hx
              apply (FCU.live_store c4 _).mpr
              rcases s4 x hx with hx | rfl
              · exact hb.lni x hx
              · exact ha'
            · show ccC.map (derefP (niAddC o st'.nonIncl p a t st'.h).1) = _
              rw [derefP_store c4]; exact hccv
            · show (niAddC o st'.nonIncl p a t st'.h).2.map (derefN (niAddC o st'.nonIncl p a t st'.h).1) = _
              rw [derefN_store c4]; exact e4
            · exact h.etr
          obtain ⟨g1, g2⟩ := hCollectD_spec m4 (rootsOf (a :: ws.map (·.2) ++ outer ++ cc1.map (·.2)) ccC
            ⟨(niAddC o st'.nonIncl p a t st'.h).2, stC.trues, (niAddC o st'.nonIncl p a t st'.h).1⟩)
          refine retRel_some (hrel4.heap g1 (fun a' ha'' hl => g2 a' (mem_rootsOf.mpr ?_) hl) (fun _ hx => hx))
          rcases ha'' with ⟨x, hx, rfl⟩ | hcc | hni
          · refine Or.inl ?_
            simp only [List.cons_append, List.mem_cons, List.mem_append]
            rcases hcov x hx with hx | hx | hx
            · exact Or.inl hx
            · exact Or.inr (Or.inl (Or.inl hx))
            · exact Or.inr (Or.inl (Or.inr hx))
          · exact Or.inr (Or.inl hcc)
          · exact Or.inr (Or.inr hni)

end FCD
end Vata
