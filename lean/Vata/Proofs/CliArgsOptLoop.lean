import Vata.Proofs.CliArgs
/-!
# The `-o` loop of `parseArguments` with `find` / `substr` explicit

`optLoopRaw_eq`: the loop as coded on indices (`lastPos`, `newPos`, `substr(lastPos, newPos - lastPos)`) never makes `substr`
throw `std::out_of_range` – which would be an exception that is NOT a `std::runtime_error` – and is the "cut at every
comma, `processOption` + `insert` per piece" (`parseOptionList`) the list-level model uses.
-/
namespace Vata.CliArgs

theorem optPiece_eq (p : Str) (ps : List Str) (m : Options) (k : Options → OptRaw)
    (hk : ∀ m', k m' = OptRaw.ofExcept (insertPieces ps m')) :
    optPiece p m k = OptRaw.ofExcept (insertPieces (p :: ps) m) := by
  unfold optPiece
  simp only [insertPieces]
  cases processOption p with
  | error e => rfl
  | ok kv =>
    obtain ⟨key, v⟩ := kv
    simp only []
    by_cases h : (mapInsert key v m).2 = true
    · simp only [h, if_true]; exact hk _
    · simp only [h, if_false, Bool.false_eq_true]; rfl

theorem contains_iff_mem (c : Char) (r : Str) : r.contains c = true ↔ c ∈ r := by simp

/-- a string with a comma: the part before the first comma, the comma, the rest -/
theorem split_at_first (c : Char) (r : Str) (h : c ∈ r) :
    ∃ rest, r = r.takeWhile (· != c) ++ c :: rest ∧ c ∉ r.takeWhile (· != c) := by
  have hsplit := List.takeWhile_append_dropWhile (p := (· != c)) (l := r)
  cases hd : r.dropWhile (· != c) with
  | nil => exact absurd h (dropWhile_ne_nil c r hd)
  | cons x rest =>
    have hx := dropWhile_ne_head c r x rest hd
    subst hx
    rw [hd] at hsplit
    exact ⟨rest, hsplit.symm, not_mem_takeWhile_ne x r⟩

theorem optLoopRaw_eq (s : Str) : ∀ (fuel lastPos : Nat) (m : Options), lastPos ≤ s.length →
    (s.drop lastPos).length < fuel →
    optLoopRaw s fuel lastPos m = OptRaw.ofExcept (insertPieces (Vata.T.splitDelim ',' (s.drop lastPos)) m) := by
  intro fuel
  induction fuel with
  | zero => intro _ _ _ h; omega
  | succ fuel ih =>
    intro lastPos m hle hfuel
    unfold optLoopRaw findFrom
    by_cases hc : ',' ∈ s.drop lastPos
    · obtain ⟨rest, hr, hp⟩ := split_at_first ',' (s.drop lastPos) hc
      have hcont : (s.drop lastPos).contains ',' = true := (contains_iff_mem _ _).mpr hc
      simp only [hcont, if_true]
      generalize (s.drop lastPos).takeWhile (· != ',') = p at hr hp ⊢
      have hsub : substr s lastPos (some (lastPos + p.length - lastPos)) = some p := by
        unfold substr
        have : ¬ lastPos > s.length := by omega
        simp only [this, if_false, Nat.add_sub_cancel_left]
        rw [hr]
        simp
      rw [hsub]
      simp only []
      have hlen : (s.drop lastPos).length = p.length + 1 + rest.length := by
        rw [hr]; simp; omega
      have hdrop : s.drop (lastPos + p.length + 1) = rest := by
        rw [Nat.add_assoc, ← List.drop_drop, hr]
        simp
      have hlen2 : (s.drop lastPos).length = s.length - lastPos := List.length_drop
      rw [hr, Vata.T.splitDelim_append_nodelim ',' _ hp rest]
      apply optPiece_eq
      intro m'
      rw [ih _ m' (by omega) (by rw [hdrop]; omega), hdrop]
    · have hcont : (s.drop lastPos).contains ',' = false := by
        cases h : (s.drop lastPos).contains ','
        · rfl
        · exact absurd ((contains_iff_mem _ _).mp h) hc
      simp only [hcont, Bool.false_eq_true, if_false]
      have hsub : substr s lastPos none = some (s.drop lastPos) := by
        unfold substr
        have : ¬ lastPos > s.length := by omega
        simp [this]
      rw [hsub, Vata.T.splitDelim_nodelim ',' _ hc]
      simp only []
      apply optPiece_eq
      intro m'
      simp [insertPieces, OptRaw.ofExcept]

/-- the loop as coded on a whole `-o` argument: never `out_of_range`, and equal to `parseOptionList` -/
theorem optLoopRaw_full (s : Str) (m : Options) :
    optLoopRaw s (s.length + 1) 0 m = OptRaw.ofExcept (parseOptionList s m) := by
  rw [optLoopRaw_eq s (s.length + 1) 0 m (by omega) (by simp)]
  simp [parseOptionList]

theorem optLoopRaw_no_out_of_range (s : Str) (m : Options) :
    optLoopRaw s (s.length + 1) 0 m ≠ .outOfRange ∧ optLoopRaw s (s.length + 1) 0 m ≠ .fuel := by
  rw [optLoopRaw_full]
  cases parseOptionList s m <;> simp [OptRaw.ofExcept]

end Vata.CliArgs
