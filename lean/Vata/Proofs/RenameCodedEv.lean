import Vata.Proofs.RenameCodedGen
import Vata.Proofs.Store
/-!
# C14 as coded – part 2: the destination as a fold of store events

With a stateless partial translator `optT g` the destination after the call – also after an exception – is the fold of a PREFIX
of the event list `touchC q'`, `touchTS q' f`, `add rule'` (`clusterEvs`), the whole list when nothing was thrown.
`contains` (`ContainsTransition`) after a fold of events: the old content plus the `add`ed rules; the weak invariant `WInv`
(keys unique, no duplicate tuple – but possibly an EMPTY cluster / tuple set) is kept.
-/
namespace Vata.RenameCoded
open Vata.Store

inductive Ev where
  | touchC (q : Nat)
  | touchTS (q f : Nat)
  | add (r : Rule)
deriving Repr, DecidableEq

def stepEv (s : Store) : Ev → Store
  | .touchC q => touchCluster q s
  | .touchTS q f => touchTupleSet q f s
  | .add r => addTransition s r

/-- a partial map read as a total one (the default is never used on a run that does not throw) -/
def gd (g : Nat → Option Nat) (k : Nat) : Nat := (g k).getD 0

def tupleEvs (h : Nat → Nat) (q' f : Nat) (ts : TupleSet) : List Ev := ts.map (fun t => Ev.add ⟨f, t.map h, q'⟩)
def symbolEvs (h : Nat → Nat) (q' : Nat) (c : Cluster) : List Ev :=
  c.flatMap (fun ft => Ev.touchTS q' ft.1 :: tupleEvs h q' ft.1 ft.2)
def clusterEvs (h : Nat → Nat) (m : List (Nat × Cluster)) : List Ev :=
  m.flatMap (fun qc => Ev.touchC (h qc.1) :: symbolEvs h (h qc.1) qc.2)

def rulesOf (evs : List Ev) : List Rule := evs.filterMap (fun e => match e with | .add r => some r | _ => none)

theorem rulesOf_append (a b : List Ev) : rulesOf (a ++ b) = rulesOf a ++ rulesOf b := by simp [rulesOf]

theorem rulesOf_tupleEvs (h : Nat → Nat) (q' f : Nat) (ts : TupleSet) :
    rulesOf (tupleEvs h q' f ts) = ts.map (fun t => (⟨f, t.map h, q'⟩ : Rule)) := by
  induction ts with
  | nil => rfl
  | cons t ts ih =>
    simp only [tupleEvs, List.map_cons, rulesOf, List.filterMap_cons] at ih ⊢
    rw [ih]

theorem rulesOf_symbolEvs (h : Nat → Nat) (q : Nat) (c : Cluster) :
    rulesOf (symbolEvs h (h q) c) = (flatCluster q c).map (mapRule h) := by
  induction c with
  | nil => rfl
  | cons ft c ih =>
    simp only [symbolEvs, List.flatMap_cons, flatCluster] at ih ⊢
    rw [List.cons_append, rulesOf, List.filterMap_cons]
    simp only
    rw [← rulesOf, rulesOf_append, ih, rulesOf_tupleEvs, List.map_append, List.map_map]
    rfl

theorem rulesOf_clusterEvs (h : Nat → Nat) (m : List (Nat × Cluster)) (fin : List Nat) :
    rulesOf (clusterEvs h m) = (iterate ⟨m, fin⟩).map (mapRule h) := by
  induction m with
  | nil => rfl
  | cons qc m ih =>
    simp only [clusterEvs, List.flatMap_cons, iterate] at ih ⊢
    rw [List.cons_append, rulesOf, List.filterMap_cons]
    simp only
    rw [← rulesOf, rulesOf_append, ih, rulesOf_symbolEvs, List.map_append]

/-! ### the stateless translator -/

theorem trTuple_opt (g : Nat → Option Nat) : ∀ (ks : List Nat) (acc : List Nat),
    (trTuple (optT g) ks () acc).1 = none → (trTuple (optT g) ks () acc).2.1 = acc ++ ks.map (gd g)
  | [], acc, _ => by simp [trTuple]
  | s :: ss, acc, h => by
    cases hg : g s with
    | none => simp [trTuple, optT, hg] at h
    | some v =>
      have ha : (optT g).app () s = some (v, ()) := by simp [optT, hg]
      simp only [trTuple, ha] at h ⊢
      rw [trTuple_opt g ss _ h]
      simp [gd, hg]

/-- `d` is the fold of a prefix of `evs` over `dst`; of all of `evs` when nothing was thrown -/
def EvSpec (thrown : Option Nat) (d dst : Store) (evs : List Ev) : Prop :=
  ∃ pre suf, evs = pre ++ suf ∧ (thrown = none → suf = []) ∧ d = pre.foldl stepEv dst

theorem EvSpec.stop {k : Nat} (dst : Store) (evs : List Ev) : EvSpec (some k) dst dst evs :=
  ⟨[], evs, rfl, (fun h => by cases h), rfl⟩

theorem EvSpec.cons {thrown : Option Nat} {d dst : Store} {e : Ev} {evs : List Ev} (h : EvSpec thrown d (stepEv dst e) evs) :
    EvSpec thrown d dst (e :: evs) := by
  obtain ⟨pre, suf, e1, e2, e3⟩ := h
  exact ⟨e :: pre, suf, by rw [e1]; rfl, e2, by rw [e3]; rfl⟩

theorem EvSpec.append_thrown {k : Nat} {d dst : Store} {evs : List Ev} (evs2 : List Ev) (h : EvSpec (some k) d dst evs) :
    EvSpec (some k) d dst (evs ++ evs2) := by
  obtain ⟨pre, suf, e1, _, e3⟩ := h
  exact ⟨pre, suf ++ evs2, by rw [e1, List.append_assoc], (fun h => by cases h), e3⟩

theorem EvSpec.append_ok {thrown : Option Nat} {d1 d dst : Store} {evs evs2 : List Ev} (h1 : EvSpec none d1 dst evs)
    (h2 : EvSpec thrown d d1 evs2) : EvSpec thrown d dst (evs ++ evs2) := by
  obtain ⟨pre, suf, e1, e2, e3⟩ := h1
  obtain ⟨pre', suf', e1', e2', e3'⟩ := h2
  have := e2 rfl
  subst this
  rw [List.append_nil] at e1
  subst e1
  exact ⟨evs ++ pre', suf', by rw [e1', List.append_assoc], e2', by rw [e3', e3, List.foldl_append]⟩

theorem tuplesLoop_ev (g : Nat → Option Nat) (q' f : Nat) : ∀ (ts : TupleSet) (dst : Store),
    EvSpec (tuplesLoop (optT g) q' f ts dst ()).thrown (tuplesLoop (optT g) q' f ts dst ()).dst dst (tupleEvs (gd g) q' f ts)
  | [], dst => ⟨[], [], rfl, fun _ => rfl, rfl⟩
  | t :: ts, dst => by
    cases hr : (trTuple (optT g) t () []).1 with
    | some k =>
      simp only [tuplesLoop, hr]
      exact EvSpec.stop _ _
    | none =>
      have e := trTuple_opt g t [] hr
      simp only [List.nil_append] at e
      simp only [tuplesLoop, hr, e, tupleEvs, List.map_cons]
      exact EvSpec.cons (tuplesLoop_ev g q' f ts _)

theorem symbolsLoop_ev (g : Nat → Option Nat) (q' : Nat) : ∀ (c : Cluster) (dst : Store),
    EvSpec (symbolsLoop (optT g) q' c dst ()).thrown (symbolsLoop (optT g) q' c dst ()).dst dst (symbolEvs (gd g) q' c)
  | [], dst => ⟨[], [], rfl, fun _ => rfl, rfl⟩
  | ft :: c, dst => by
    have h1 := tuplesLoop_ev g q' ft.1 ft.2 (touchTupleSet q' ft.1 dst)
    cases hr : (tuplesLoop (optT g) q' ft.1 ft.2 (touchTupleSet q' ft.1 dst) ()).thrown with
    | some k =>
      rw [hr] at h1
      simp only [symbolsLoop, hr, symbolEvs, List.flatMap_cons, List.cons_append]
      exact EvSpec.cons (EvSpec.append_thrown _ h1)
    | none =>
      rw [hr] at h1
      simp only [symbolsLoop, hr, symbolEvs, List.flatMap_cons, List.cons_append]
      exact EvSpec.cons (EvSpec.append_ok h1 (symbolsLoop_ev g q' c _))

theorem clustersLoop_ev (g : Nat → Option Nat) : ∀ (m : List (Nat × Cluster)) (dst : Store),
    EvSpec (clustersLoop (optT g) m dst ()).thrown (clustersLoop (optT g) m dst ()).dst dst (clusterEvs (gd g) m)
  | [], dst => ⟨[], [], rfl, fun _ => rfl, rfl⟩
  | qc :: m, dst => by
    cases hg : g qc.1 with
    | none =>
      have ha : (optT g).app () qc.1 = none := by simp [optT, hg]
      simp only [clustersLoop, ha]
      exact EvSpec.stop _ _
    | some q' =>
      have hq : gd g qc.1 = q' := by simp [gd, hg]
      have h1 := symbolsLoop_ev g q' qc.2 (touchCluster q' dst)
      have ha : (optT g).app () qc.1 = some (q', ()) := by simp [optT, hg]
      cases hr : (symbolsLoop (optT g) q' qc.2 (touchCluster q' dst) ()).thrown with
      | some k =>
        rw [hr] at h1
        simp only [clustersLoop, ha, hr, clusterEvs, List.flatMap_cons, List.cons_append, hq]
        exact EvSpec.cons (EvSpec.append_thrown _ h1)
      | none =>
        rw [hr] at h1
        simp only [clustersLoop, ha, hr, clusterEvs, List.flatMap_cons, List.cons_append, hq]
        exact EvSpec.cons (EvSpec.append_ok h1 (clustersLoop_ev g m _))

/-- the final-state loop: a prefix of the final states was inserted (all of them when nothing was thrown); clusters untouched -/
theorem finalsLoop_opt (g : Nat → Option Nat) : ∀ (qs : List Nat) (dst : Store),
    (finalsLoop (optT g) qs dst ()).dst.clusters = dst.clusters ∧
    ∃ pre suf, qs = pre ++ suf ∧ ((finalsLoop (optT g) qs dst ()).thrown = none → suf = []) ∧
      (finalsLoop (optT g) qs dst ()).dst.final = (pre.map (gd g)).foldl (fun acc q => insN q acc) dst.final
  | [], dst => ⟨rfl, [], [], rfl, fun _ => rfl, rfl⟩
  | q :: qs, dst => by
    cases hg : g q with
    | none =>
      have ha : (optT g).app () q = none := by simp [optT, hg]
      simp only [finalsLoop, ha]
      exact ⟨by simp, [], q :: qs, rfl, (fun h => by cases h), rfl⟩
    | some q' =>
      have hq : gd g q = q' := by simp [gd, hg]
      obtain ⟨ih1, pre, suf, e1, e2, e3⟩ := finalsLoop_opt g qs (setFinal dst q')
      have ha : (optT g).app () q = some (q', ()) := by simp [optT, hg]
      simp only [finalsLoop, ha]
      refine ⟨ih1, q :: pre, suf, by rw [e1]; rfl, e2, ?_⟩
      rw [e3, List.map_cons, List.foldl_cons, hq]
      rfl

/-! ### what a fold of events does to `ContainsTransition` -/

theorem clusterOf_touchCluster (q p : Nat) (s : Store) : clusterOf (touchCluster q s) p = clusterOf s p := by
  unfold clusterOf touchCluster
  simp only [lookup_upsert]
  split
  · rename_i h; subst h; simp
  · rfl

theorem tuplesOf_touch (f f' : Nat) (c : Cluster) : tuplesOf (upsert f (fun o' => o'.getD []) c) f' = tuplesOf c f' := by
  unfold tuplesOf
  rw [lookup_upsert]
  split
  · rename_i h; subst h; simp
  · rfl

theorem clusterOf_touchTupleSet (q f p : Nat) (s : Store) :
    clusterOf (touchTupleSet q f s) p = if p = q then upsert f (fun o' => o'.getD []) (clusterOf s q) else clusterOf s p := by
  unfold clusterOf touchTupleSet
  simp only [lookup_upsert]
  split <;> simp

theorem contains_stepEv (s : Store) (e : Ev) (x : Rule) :
    contains (stepEv s e) x = true ↔ contains s x = true ∨ x ∈ rulesOf [e] := by
  cases e with
  | touchC q =>
    simp only [stepEv, rulesOf, List.filterMap_cons, List.filterMap_nil, List.not_mem_nil, or_false]
    rw [contains_eq, contains_eq, clusterOf_touchCluster]
  | touchTS q f =>
    simp only [stepEv, rulesOf, List.filterMap_cons, List.filterMap_nil, List.not_mem_nil, or_false]
    rw [contains_eq, contains_eq, clusterOf_touchTupleSet]
    split
    · rename_i h; rw [tuplesOf_touch, h]
    · rfl
  | add r =>
    simp only [stepEv, rulesOf, List.filterMap_cons, List.filterMap_nil, List.mem_singleton]
    exact contains_addTransition s r x

theorem contains_foldl_stepEv (x : Rule) : ∀ (evs : List Ev) (s : Store),
    contains (evs.foldl stepEv s) x = true ↔ contains s x = true ∨ x ∈ rulesOf evs
  | [], s => by simp [rulesOf]
  | e :: evs, s => by
    rw [List.foldl_cons, contains_foldl_stepEv x evs, contains_stepEv]
    have : rulesOf (e :: evs) = rulesOf [e] ++ rulesOf evs := rulesOf_append [e] evs
    rw [this, List.mem_append, or_assoc]

theorem final_foldl_stepEv : ∀ (evs : List Ev) (s : Store), (evs.foldl stepEv s).final = s.final
  | [], _ => rfl
  | e :: evs, s => by
    rw [List.foldl_cons, final_foldl_stepEv evs]
    cases e <;> rfl

/-! ### the weak invariant: everything but non-emptiness -/

structure WInv (s : Store) : Prop where
  keys : KeysNodup s.clusters
  clusters : ∀ qc, qc ∈ s.clusters → KeysNodup qc.2 ∧ ∀ ft, ft ∈ qc.2 → ft.2.Nodup
  final : s.final.Nodup

theorem WInv.of_inv {s : Store} (h : Inv s) : WInv s :=
  ⟨h.keys, fun qc hqc => ⟨(h.clusters qc hqc).keys, fun ft hft => ((h.clusters qc hqc).tuples ft hft).2⟩, h.final⟩

theorem winv_empty : WInv empty := WInv.of_inv inv_empty

def CW (c : Cluster) : Prop := KeysNodup c ∧ ∀ ft, ft ∈ c → ft.2.Nodup

theorem cw_nil : CW [] := ⟨keysNodup_nil, by intro ft h; cases h⟩

theorem cw_upsert (f : Nat) (gg : Option TupleSet → TupleSet) (h0 : (gg none).Nodup) (h1 : ∀ v, v.Nodup → (gg (some v)).Nodup)
    {c : Cluster} (hc : CW c) : CW (upsert f gg c) :=
  ⟨keysNodup_upsert _ _ hc.1, forall_upsert (P := fun ts : TupleSet => ts.Nodup) f gg h0 h1 hc.2⟩

theorem winv_stepEv {s : Store} (h : WInv s) (e : Ev) : WInv (stepEv s e) := by
  cases e with
  | touchC q =>
    refine ⟨keysNodup_upsert _ _ h.keys, ?_, h.final⟩
    exact forall_upsert (P := CW) q _ cw_nil (fun v hv => hv) h.clusters
  | touchTS q f =>
    refine ⟨keysNodup_upsert _ _ h.keys, ?_, h.final⟩
    apply forall_upsert (P := CW) q _ _ _ h.clusters
    · exact cw_upsert f _ List.nodup_nil (fun v hv => hv) cw_nil
    · intro v hv
      exact cw_upsert f _ List.nodup_nil (fun v hv => hv) hv
  | add r =>
    refine ⟨keysNodup_upsert _ _ h.keys, ?_, h.final⟩
    apply forall_upsert (P := CW) r.parent _ _ _ h.clusters
    · exact cw_upsert r.sym _ (nodup_insTuple _ List.nodup_nil) (fun v hv => nodup_insTuple _ hv) cw_nil
    · intro v hv
      exact cw_upsert r.sym _ (nodup_insTuple _ List.nodup_nil) (fun v hv => nodup_insTuple _ hv) hv

theorem winv_foldl_stepEv : ∀ (evs : List Ev) {s : Store}, WInv s → WInv (evs.foldl stepEv s)
  | [], _, h => h
  | e :: evs, _, h => winv_foldl_stepEv evs (winv_stepEv h e)

theorem winv_setFinals {s : Store} (h : WInv s) (qs : List Nat) (d : Store) (hc : d.clusters = s.clusters)
    (hf : d.final = qs.foldl (fun acc q => insN q acc) s.final) : WInv d :=
  ⟨by rw [hc]; exact h.keys, by rw [hc]; exact h.clusters, by rw [hf]; exact nodup_foldl_insN qs h.final⟩

/-- under the weak invariant `ContainsTransition` still decides membership in what the iterator yields -/
theorem contains_iff_mem_iterate_w {s : Store} (h : WInv s) (r : Rule) : contains s r = true ↔ r ∈ iterate s := by
  rw [mem_iterate]
  unfold contains
  constructor
  · intro hc
    split at hc
    · cases hc
    · rename_i c hl
      have hm := mem_of_lookup hl
      refine ⟨c, hm, ?_⟩
      split at hc
      · cases hc
      · rename_i ts hl2
        exact ⟨ts, mem_of_lookup hl2, List.contains_iff_mem.mp hc⟩
  · rintro ⟨c, hm, ts, hm2, ht⟩
    rw [lookup_of_mem h.keys hm]
    simp only
    rw [lookup_of_mem (h.clusters _ hm).1 hm2]
    simp only
    exact List.contains_iff_mem.mpr ht

/-- and the iterator yields no rule twice -/
theorem nodup_iterate_w {s : Store} (h : WInv s) : (iterate s).Nodup := by
  unfold iterate
  rw [List.nodup_iff_pairwise_ne, List.pairwise_flatMap]
  constructor
  · intro qc hqc
    have hc := h.clusters qc hqc
    exact List.nodup_iff_pairwise_ne.mp (nodup_flatCluster qc.1 hc.1 hc.2)
  · have hk' : List.Pairwise (fun a b : Nat × Cluster => a.1 ≠ b.1) s.clusters := by
      have := List.nodup_iff_pairwise_ne.mp h.keys
      rwa [List.pairwise_map] at this
    apply List.Pairwise.imp _ hk'
    intro a b hab x hx y hy e
    apply hab
    rw [← (mem_flatCluster.mp hx).1, ← (mem_flatCluster.mp hy).1, e]

end Vata.RenameCoded
