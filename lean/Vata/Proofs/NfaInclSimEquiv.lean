import Vata.NfaInclSim
import Vata.Proofs.NfaInclCongrTotal
/-!
# The exploration of the equivalence functor (`nfaInclEquiv`) is exact and total

For operands `A`, `B` with disjoint states and `U = A ⊎ B`:

* `equivSkip_sound`     : a pair that passes the two-closure test of `MakePost` is in the congruence closure of the rules
                          (`next_ ∪ relation_`) – also for the early exit through `congrMap` and with the `areEqual` that is
                          `false` on empty sets;
* `eqCloseLoop_not_stuck`: the fuel of the closure loop (number of rules + 1) is never used up;
* `runEquiv_inv`        : `return false` at `w` ⇒ `A` accepts `w` and `B` does not; `return true` ⇒ the final `relation_` is a
                          bisimulation up to congruence relating the start macro-states (`CongrCert`);
* `runEquiv_terminates` : above `fuelBoundCongr A B` the exploration ends;
* `nfaInclEquiv_iff`, `nfaInclEquiv_total`, `checkNfaInclEquiv_iff`, `checkNfaInclEquiv_total`.
-/
namespace Vata
open Vata.W
namespace NfaIncl

/-- strictly increasing: the representation of a macro-state -/
abbrev Srt (l : List Nat) : Prop := List.Pairwise (· < ·) l

/-! ### `areEqual`, `MatchPair` -/

/-- a duplicate-free list inside a list that is not longer covers it -/
theorem sub_of_sorted_sub_len : ∀ (l r : List Nat), Srt l → (∀ x, x ∈ l → x ∈ r) → r.length ≤ l.length →
    ∀ x, x ∈ r → x ∈ l
  | [], r, _, _, hlen, x, hx => by
    have : r = [] := List.eq_nil_of_length_eq_zero (by simpa using hlen)
    rw [this] at hx; exact hx
  | y :: l, r, hs, hsub, hlen, x, hx => by
    have hy : y ∈ r := hsub y List.mem_cons_self
    have hyl : ¬ y ∈ l := fun h => by have := (List.pairwise_cons.mp hs).1 y h; omega
    have hsub' : ∀ z, z ∈ l → z ∈ r.erase y := by
      intro z hz
      have hne : z ≠ y := fun e => hyl (e ▸ hz)
      exact (List.mem_erase_of_ne hne).mpr (hsub z (List.mem_cons_of_mem _ hz))
    have hlen' : (r.erase y).length ≤ l.length := by
      rw [List.length_erase_of_mem hy]
      simp only [List.length_cons] at hlen
      omega
    by_cases hxy : x = y
    · rw [hxy]; exact List.mem_cons_self
    · exact List.mem_cons_of_mem _
        (sub_of_sorted_sub_len l (r.erase y) (List.pairwise_cons.mp hs).2 hsub' hlen' x
          ((List.mem_erase_of_ne hxy).mpr hx))

theorem areEqualB_mem {l r : List Nat} (hl : Srt l) (h : areEqualB l r = true) : ∀ x, x ∈ l ↔ x ∈ r := by
  simp only [areEqualB, Bool.and_eq_true, beq_iff_eq, subB_iff] at h
  obtain ⟨⟨⟨hlen, _⟩, _⟩, hsub⟩ := h
  exact fun x => ⟨hsub x, sub_of_sorted_sub_len l r hl hsub (by omega) x⟩

theorem areEqualB_ne_nil {l r : List Nat} (h : areEqualB l r = true) : l ≠ [] := by
  simp only [areEqualB, Bool.and_eq_true, Bool.not_eq_true', List.isEmpty_eq_false_iff] at h
  exact h.1.1.2

theorem matchPair_sub {c r : List Nat} (h : matchPair c r = true) : ∀ x, x ∈ r → x ∈ c := by
  simp only [matchPair, Bool.and_eq_true, subB_iff] at h
  exact h.2

/-! ### the closure loop stays inside the congruence class -/

/-- the entries of `congrMap` are congruent to the start set and are macro-states -/
def TrOK (R : List CRule) (b : List Nat) (tr : CTrace) : Prop := ∀ p, p ∈ tr → CongrCl R b p.2 ∧ Srt p.2

theorem eqSweep_sound {R : List CRule} {b : List Nat} {man : Nat → List Nat → Bool} :
    ∀ (rs un : List (CRule × Nat)) (set : List Nat) (tr : CTrace) (ap : Bool),
    (∀ r, r ∈ rs → r.1 ∈ R) → (∀ r, r ∈ un → r.1 ∈ R) → CongrCl R b set → Srt set → TrOK R b tr →
    (∀ un' set' tr' ap', eqSweep man rs un set tr ap = some (un', set', tr', ap') →
      (∀ r, r ∈ un' → r.1 ∈ R) ∧ CongrCl R b set' ∧ Srt set' ∧ TrOK R b tr') ∧
    (eqSweep man rs un set tr ap = none → ∃ i set', CongrCl R b set' ∧ man i set' = false)
  | [], un, set, tr, ap, _, hun, hset, hsrt, htr => by
    constructor
    · intro un' set' tr' ap' h
      simp only [eqSweep, Option.some.injEq, Prod.mk.injEq] at h
      obtain ⟨rfl, rfl, rfl, _⟩ := h
      exact ⟨fun r hr => hun r (List.mem_reverse.mp hr), hset, hsrt, htr⟩
    · intro h; simp [eqSweep] at h
  | r :: rs, un, set, tr, ap, hrs, hun, hset, hsrt, htr => by
    have hrs' : ∀ r', r' ∈ rs → r'.1 ∈ R := fun r' h => hrs r' (List.mem_cons_of_mem _ h)
    have hr : r.1 ∈ R := hrs r List.mem_cons_self
    unfold eqSweep
    split
    · next hm =>
      have hm' : (∀ x, x ∈ r.1.1 → x ∈ set) ∨ (∀ x, x ∈ r.1.2 → x ∈ set) := by
        simp only [Bool.or_eq_true] at hm
        exact hm.imp matchPair_sub matchPair_sub
      have hset' : CongrCl R b (normS (set ++ r.1.1 ++ r.1.2)) := .trans hset (congrCl_fire hr hm')
      simp only
      split
      · refine eqSweep_sound rs un _ _ true hrs' hun hset' (normS_sorted _) ?_
        intro p hp
        rcases List.mem_append.mp hp with hp | hp
        · exact htr p hp
        · rw [List.mem_singleton.mp hp]; exact ⟨hset', normS_sorted _⟩
      · next hman =>
        constructor
        · intro _ _ _ _ h; cases h
        · intro _; exact ⟨r.2, _, hset', by simpa using hman⟩
    · exact eqSweep_sound rs (r :: un) set tr ap hrs'
        (fun r' h => by rcases List.mem_cons.mp h with rfl | h; exact hr; exact hun r' h) hset hsrt htr

theorem eqCloseLoop_sound {R : List CRule} {b : List Nat} {man : Nat → List Nat → Bool} :
    ∀ (n : Nat) (rules : List (CRule × Nat)) (set : List Nat) (tr : CTrace),
    (∀ r, r ∈ rules → r.1 ∈ R) → CongrCl R b set → Srt set → TrOK R b tr →
    (∀ set' tr', eqCloseLoop man n rules set tr = .done set' tr' → CongrCl R b set' ∧ Srt set' ∧ TrOK R b tr') ∧
    (eqCloseLoop man n rules set tr = .stop → ∃ i set', CongrCl R b set' ∧ man i set' = false)
  | 0, _, _, _, _, _, _, _ => by
    constructor
    · intro _ _ h; simp [eqCloseLoop] at h
    · intro h; simp [eqCloseLoop] at h
  | n+1, rules, set, tr, hrules, hset, hsrt, htr => by
    obtain ⟨h1, h2⟩ := eqSweep_sound (man := man) rules [] set tr false hrules (fun _ h => by simp at h) hset hsrt htr
    unfold eqCloseLoop
    split
    · next hsw =>
      constructor
      · intro _ _ h; cases h
      · intro _; exact h2 hsw
    · next un set' tr' ap hsw =>
      obtain ⟨hun, hset', hsrt', htr'⟩ := h1 un set' tr' ap hsw
      split
      · exact eqCloseLoop_sound n un set' tr' hun hset' hsrt' htr'
      · constructor
        · intro s t h
          simp only [ClRes.done.injEq] at h
          obtain ⟨rfl, rfl⟩ := h
          exact ⟨hset', hsrt', htr'⟩
        · intro h; cases h

theorem mem_zipIdx_fst {α : Type} {l : List α} {p : α × Nat} (h : p ∈ l.zipIdx) : p.1 ∈ l := by
  obtain ⟨a, i⟩ := p
  exact (List.mem_zipIdx h).2.2 ▸ List.getElem_mem _

theorem traceGet_mem {tr : CTrace} {i : Nat} (h : traceGet tr i ≠ []) : ∃ p, p ∈ tr ∧ p.2 = traceGet tr i := by
  unfold traceGet at h ⊢
  split
  · next p hp => exact ⟨p, List.mem_of_find?_eq_some hp, rfl⟩
  · next hp => rw [hp] at h; exact (h rfl).elim

/-- a pair that passes the test of `MakePost` is in the congruence closure of the rules -/
theorem equivSkip_sound {rules : List CRule} {X Y : List Nat} (hX : Srt X) (hY : Srt Y)
    (h : equivSkip rules X Y = some true) : CongrCl rules X Y := by
  have hr : ∀ r, r ∈ rules.zipIdx → r.1 ∈ rules := fun r hr => mem_zipIdx_fst hr
  unfold equivSkip at h
  split at h
  · next cs cm hcs =>
    obtain ⟨hcs1, _, hcm⟩ := (eqCloseLoop_sound (R := rules) (b := X) _ _ X [] hr (.rfl' X) hX
      (fun _ h => by simp at h)).1 cs cm hcs
    split at h
    · next hstop =>
      obtain ⟨i, set', hs', hman⟩ := (eqCloseLoop_sound (R := rules) (b := Y) _ _ Y [] hr (.rfl' Y) hY
        (fun _ h => by simp at h)).2 hstop
      have heq : areEqualB (traceGet cm i) set' = true := by simpa using hman
      obtain ⟨p, hp, hpe⟩ := traceGet_mem (areEqualB_ne_nil heq)
      obtain ⟨hp1, hp2⟩ := hcm p hp
      rw [hpe] at hp1 hp2
      exact .trans hp1 (.trans (.refl (areEqualB_mem hp2 heq)) hs'.symm)
    · next cb _ hcb =>
      obtain ⟨hcb1, hcb2, _⟩ := (eqCloseLoop_sound (R := rules) (b := Y) _ _ Y [] hr (.rfl' Y) hY
        (fun _ h => by simp at h)).1 cb _ hcb
      simp only [Option.some.injEq] at h
      exact .trans hcs1 (.trans (CongrCl.symm (.refl (areEqualB_mem hcb2 h))) hcb1.symm)
    · cases h
  · cases h

/-! ### the closure loop is never stuck -/

theorem eqSweep_length {man : Nat → List Nat → Bool} :
    ∀ (rs un : List (CRule × Nat)) (set : List Nat) (tr : CTrace) (ap : Bool) un' set' tr' ap',
    eqSweep man rs un set tr ap = some (un', set', tr', ap') →
      un'.length ≤ un.length + rs.length ∧ (ap' = true → ap = true ∨ un'.length < un.length + rs.length)
  | [], un, set, tr, ap, un', set', tr', ap', h => by
    simp only [eqSweep, Option.some.injEq, Prod.mk.injEq] at h
    obtain ⟨rfl, _, _, rfl⟩ := h
    simp only [List.length_reverse, List.length_nil, Nat.add_zero, Nat.le_refl, true_and]
    exact Or.inl
  | r :: rs, un, set, tr, ap, un', set', tr', ap', h => by
    unfold eqSweep at h
    split at h
    · simp only at h
      split at h
      · have := eqSweep_length rs un _ _ true un' set' tr' ap' h
        simp only [List.length_cons]
        exact ⟨by omega, fun _ => Or.inr (by omega)⟩
      · cases h
    · have := eqSweep_length rs (r :: un) set tr ap un' set' tr' ap' h
      simp only [List.length_cons] at this ⊢
      exact ⟨by omega, fun h' => (this.2 h').imp id (by omega)⟩

theorem eqCloseLoop_not_stuck {man : Nat → List Nat → Bool} : ∀ (n : Nat) (rules : List (CRule × Nat))
    (set : List Nat) (tr : CTrace), rules.length < n → eqCloseLoop man n rules set tr ≠ .stuck
  | 0, _, _, _, h => absurd h (Nat.not_lt_zero _)
  | n+1, rules, set, tr, h => by
    unfold eqCloseLoop
    split
    · intro h'; cases h'
    · next un set' tr' ap hsw =>
      have hl := eqSweep_length rules [] set tr false un set' tr' ap hsw
      split
      · next hap =>
        apply eqCloseLoop_not_stuck n
        rcases hl.2 hap with h' | h'
        · cases h'
        · simp only [List.length_nil, Nat.zero_add] at h'; omega
      · intro h'; cases h'

theorem eqSweep_ne_none {man : Nat → List Nat → Bool} (hman : ∀ i s, man i s = true) :
    ∀ (rs un : List (CRule × Nat)) (set : List Nat) (tr : CTrace) (ap : Bool), eqSweep man rs un set tr ap ≠ none
  | [], un, set, tr, ap => by simp [eqSweep]
  | r :: rs, un, set, tr, ap => by
    unfold eqSweep
    split
    · simp only [hman, if_true]
      exact eqSweep_ne_none hman rs un _ _ true
    · exact eqSweep_ne_none hman rs (r :: un) set tr ap

theorem eqCloseLoop_ne_stop {man : Nat → List Nat → Bool} (hman : ∀ i s, man i s = true) :
    ∀ (n : Nat) (rules : List (CRule × Nat)) (set : List Nat) (tr : CTrace), eqCloseLoop man n rules set tr ≠ .stop
  | 0, _, _, _ => by simp [eqCloseLoop]
  | n+1, rules, set, tr => by
    unfold eqCloseLoop
    split
    · next h => exact absurd h (eqSweep_ne_none hman _ _ _ _ _)
    · split
      · exact eqCloseLoop_ne_stop hman n _ _ _
      · intro h; cases h

theorem equivSkip_isSome (rules : List CRule) (X Y : List Nat) : ∃ b, equivSkip rules X Y = some b := by
  have hlen : rules.zipIdx.length < rules.length + 1 := by simp
  unfold equivSkip
  split
  · split
    · exact ⟨_, rfl⟩
    · exact ⟨_, rfl⟩
    · next h => exact absurd h (eqCloseLoop_not_stuck _ _ _ _ hlen)
  · next h =>
    exfalso
    cases hc : eqCloseLoop (fun _ _ => true) (rules.length + 1) rules.zipIdx X [] with
    | stuck => exact eqCloseLoop_not_stuck _ _ _ _ hlen hc
    | done s t => exact h s t hc
    | stop => exact eqCloseLoop_ne_stop (fun _ _ => rfl) _ _ _ _ hc

/-! ### the invariant of the exploration -/

/-- both components are macro-states (strictly increasing lists) -/
def CSorted (i : CItem) : Prop := Srt i.X ∧ Srt i.Y

theorem csucc_sorted (U B : NFA) (it : CItem) (a : Nat) : CSorted (csucc U B it a) :=
  ⟨normS_sorted _, normS_sorted _⟩

theorem congrPost_sorted {U B : NFA} {breadth : Bool} {it : CItem} : ∀ (as : List Nat) (st st' : CSt),
    (∀ i, i ∈ st.next → CSorted i) → congrPost U B breadth it as st = .ok st' → ∀ i, i ∈ st'.next → CSorted i
  | [], st, st', hs, h => by
    simp only [congrPost, Except.ok.injEq] at h
    subst h; exact hs
  | a :: as, st, st', hs, h => by
    rw [congrPost_cons] at h
    split at h
    · cases h
    · split at h
      · exact congrPost_sorted as st st' hs h
      · split at h
        · exact congrPost_sorted as st st' hs h
        · refine congrPost_sorted as _ st' ?_ h
          intro i hi
          rcases mem_addNext.mp hi with rfl | hi
          · exact csucc_sorted U B it a
          · exact hs i hi

/-- the loop: a `return false` is justified, a `return true` leaves a bisimulation up to congruence -/
theorem loopEquiv_inv {A B : NFA} (hdis : ∀ q, q ∈ nfaStates A → q ∈ nfaStates B → False) {breadth : Bool} :
    ∀ (n : Nat) (st : CSt), CInv A B (rulesE [] st) st → (∀ i, i ∈ st.next → CSorted i) →
    (∀ w, loopEquiv (nfaUnionDisjoint A B) B breadth n st = some (.error w) →
      acceptsW A w = true ∧ acceptsW B w = false) ∧
    (∀ R, loopEquiv (nfaUnionDisjoint A B) B breadth n st = some (.ok R) → CongrCert A B (rulesOf R))
  | 0, _, _, _ => by constructor <;> intro _ h <;> simp [loopEquiv] at h
  | n+1, st, hI, hS => by
    unfold loopEquiv
    split
    · next hn =>
      constructor
      · intro w h; simp at h
      · intro R h
        simp only [Option.some.injEq, Except.ok.injEq] at h
        subst h
        have hT : ∀ p, p ∈ rulesE [] st → p ∈ rulesOf st.relation := by
          intro p hp
          rcases mem_rulesE.mp hp with hp | ⟨i, hi, rfl⟩
          · simp at hp
          · rcases hi with hi | hi
            · rw [hn] at hi; simp at hi
            · exact mem_rulesOf.mpr ⟨i, hi, rfl⟩
        refine ⟨hdis, hI.init.mono hT, ?_⟩
        intro p hp
        obtain ⟨i, hi, rfl⟩ := mem_rulesOf.mp hp
        exact ⟨(hI.bisim i hi).1, fun a => ((hI.bisim i hi).2 a).mono hT⟩
    · next it rest hn =>
      have hit : CWordOK (nfaUnionDisjoint A B) B it := hI.words it (by rw [hn]; exact List.mem_cons_self)
      have hitacc := hI.acc it (by rw [hn]; exact List.mem_cons_self)
      have hitS : CSorted it := hS it (by rw [hn]; exact List.mem_cons_self)
      have hrestS : ∀ i, i ∈ rest → CSorted i := fun i hi => hS i (by rw [hn]; exact List.mem_cons_of_mem _ hi)
      -- the state after the pop, with the picked pair as an extra rule
      have hI1 : CInv A B (rulesE [(it.X, it.Y)] ⟨st.relation, rest, st.visited⟩) ⟨st.relation, rest, st.visited⟩ := by
        have := hI.transfer (T' := rulesE [(it.X, it.Y)] ⟨st.relation, rest, st.visited⟩) (by
          intro p hp
          refine .base ?_
          rcases mem_rulesE.mp hp with hp | ⟨i, hi, rfl⟩
          · simp at hp
          · rcases hi with hi | hi
            · rw [hn] at hi
              rcases List.mem_cons.mp hi with rfl | hi
              · exact mem_rulesE.mpr (Or.inl (List.mem_singleton.mpr rfl))
              · exact mem_rulesE.mpr (Or.inr ⟨i, Or.inl hi, rfl⟩)
            · exact mem_rulesE.mpr (Or.inr ⟨i, Or.inr hi, rfl⟩))
        exact ⟨fun i hi => hI.words i (by rw [hn]; exact List.mem_cons_of_mem _ hi), this.init,
          fun i hi => hI.acc i (by rw [hn]; exact List.mem_cons_of_mem _ hi), this.bisim, this.visited⟩
      split
      · constructor <;> intro _ h <;> cases h
      · next hcl =>
        -- the pair is in the congruence closure of the other pairs: it is dropped
        refine loopEquiv_inv hdis n ⟨st.relation, rest, st.visited⟩ ?_ hrestS
        have hc : CongrCl (rulesOf (rest.reverse ++ st.relation)) it.X it.Y := equivSkip_sound hitS.1 hitS.2 hcl
        apply hI1.transfer
        intro p hp
        have hsub : ∀ p, p ∈ rulesOf (rest.reverse ++ st.relation) →
            p ∈ rulesE [] ⟨st.relation, rest, st.visited⟩ := by
          intro p hp
          obtain ⟨i, hi, rfl⟩ := mem_rulesOf.mp hp
          refine mem_rulesE.mpr (Or.inr ⟨i, ?_, rfl⟩)
          rcases List.mem_append.mp hi with hi | hi
          · exact Or.inl (List.mem_reverse.mp hi)
          · exact Or.inr hi
        rcases mem_rulesE.mp hp with hp | ⟨i, hi, rfl⟩
        · rw [List.mem_singleton.mp hp]; exact hc.mono hsub
        · exact .base (mem_rulesE.mpr (Or.inr ⟨i, hi, rfl⟩))
      · split
        · next w hw =>
          constructor
          · intro w' h
            simp only [Option.some.injEq, Except.error.injEq] at h
            subst h
            obtain ⟨a, hne, rfl⟩ := congrPost_error _ _ _ hw
            exact cbad_counterexample hdis (csucc_ok hit a) hne
          · intro R h; simp at h
        · next st' h' =>
          obtain ⟨h1, h2, _, h4⟩ := congrPost_inv hdis hit _ _ st' hI1 h'
          have hS' := congrPost_sorted _ ⟨st.relation, rest, st.visited⟩ st' hrestS h'
          refine loopEquiv_inv hdis n ⟨st'.relation ++ [it], st'.next, st'.visited⟩ ?_ hS'
          -- the picked pair moves from the extra rules to the relation
          have hT : ∀ p, p ∈ rulesE [(it.X, it.Y)] st' →
              p ∈ rulesE [] ⟨st'.relation ++ [it], st'.next, st'.visited⟩ := by
            intro p hp
            rcases mem_rulesE.mp hp with hp | ⟨i, hi, rfl⟩
            · rw [List.mem_singleton.mp hp]
              exact mem_rulesE.mpr (Or.inr ⟨it, Or.inr (List.mem_append_right _ (List.mem_singleton.mpr rfl)), rfl⟩)
            · refine mem_rulesE.mpr (Or.inr ⟨i, ?_, rfl⟩)
              rcases hi with hi | hi
              · exact Or.inl hi
              · exact Or.inr (List.mem_append_left _ hi)
          have h1' := h1.transfer (fun p hp => CongrCl.base (hT p hp))
          refine ⟨h1.words, h1'.init, h1.acc, ?_, h1'.visited⟩
          intro i hi
          rcases List.mem_append.mp hi with hi | hi
          · exact h1'.bisim i hi
          · rw [List.mem_singleton.mp hi]
            refine ⟨hitacc, fun a => ?_⟩
            -- the successors in `U`, from the successors the code computes
            have hY : ∀ x, x ∈ stepW (nfaUnionDisjoint A B) it.Y a ↔ x ∈ stepW B it.Y a :=
              stepW_union_right hdis hit.y_states a
            have e2 : CongrCl (rulesE [] ⟨st'.relation ++ [it], st'.next, st'.visited⟩)
                (csucc (nfaUnionDisjoint A B) B it a).Y (stepW (nfaUnionDisjoint A B) it.Y a) :=
              .refl (fun x => by
                show x ∈ normS (stepW B it.Y a) ↔ _
                rw [mem_normS, hY])
            have e1 : CongrCl (rulesE [] ⟨st'.relation ++ [it], st'.next, st'.visited⟩)
                (stepW (nfaUnionDisjoint A B) it.X a) (csucc (nfaUnionDisjoint A B) B it a).X :=
              .refl (fun x => by
                show _ ↔ x ∈ normS (stepW (nfaUnionDisjoint A B) it.X a)
                rw [mem_normS])
            refine .trans e1 (.trans ?_ e2)
            by_cases ha : a ∈ postSyms (nfaUnionDisjoint A B) B it.X it.Y
            · rcases (h4 a ha).2 with ⟨hx, hy⟩ | hv
              · rw [hx, hy]; exact .rfl' []
              · exact h1'.visited _ hv
            · obtain ⟨hx, hy⟩ := stepW_nil_of_not_postSym ha
              have hx' : (csucc (nfaUnionDisjoint A B) B it a).X = [] := by
                show normS (stepW (nfaUnionDisjoint A B) it.X a) = []
                rw [hx]; rfl
              have hy' : (csucc (nfaUnionDisjoint A B) B it a).Y = [] := by
                show normS (stepW B it.Y a) = []
                rw [hy]; rfl
              rw [hx', hy']; exact .rfl' []

theorem runEquiv_inv {A B : NFA} (hdis : ∀ q, q ∈ nfaStates A → q ∈ nfaStates B → False) {breadth : Bool}
    {fuel : Nat} :
    (∀ w, runEquiv (nfaUnionDisjoint A B) B breadth fuel = some (.error w) →
      acceptsW A w = true ∧ acceptsW B w = false) ∧
    (∀ R, runEquiv (nfaUnionDisjoint A B) B breadth fuel = some (.ok R) → CongrCert A B (rulesOf R)) := by
  have hw0 : CWordOK (nfaUnionDisjoint A B) B ⟨normS (nfaUnionDisjoint A B).start, normS B.start, []⟩ :=
    ⟨fun _ => mem_normS, fun _ => mem_normS⟩
  unfold runEquiv
  simp only
  split
  · next hne =>
    constructor
    · intro w h
      simp only [Option.some.injEq, Except.error.injEq] at h
      subst h
      exact cbad_counterexample hdis hw0 (by simpa using hne)
    · intro R h; simp at h
  · next hacc =>
    have hacc' : W.accepting (nfaUnionDisjoint A B) (normS (nfaUnionDisjoint A B).start) =
        W.accepting B (normS B.start) := by simpa using hacc
    apply loopEquiv_inv hdis fuel
    · refine ⟨?_, ?_, ?_, fun _ h => by simp at h, ?_⟩
      · intro i hi; rw [List.mem_singleton.mp hi]; exact hw0
      · have hb : CongrCl (rulesE [] ⟨[], [⟨normS (nfaUnionDisjoint A B).start, normS B.start, []⟩],
            [(normS (nfaUnionDisjoint A B).start, normS B.start)]⟩)
            (normS (nfaUnionDisjoint A B).start) (normS B.start) :=
          .base (mem_rulesE.mpr (Or.inr ⟨_, Or.inl (List.mem_singleton.mpr rfl), rfl⟩))
        exact .trans (.refl (fun x => (mem_normS (l := A.start ++ B.start)).symm))
          (.trans hb (.refl (fun x => mem_normS)))
      · intro i hi
        rw [List.mem_singleton.mp hi]
        show W.accepting _ (normS (nfaUnionDisjoint A B).start) = W.accepting _ (normS B.start)
        rw [hacc', accepting_union_right hdis hw0.y_states]
      · intro v hv
        rw [List.mem_singleton.mp hv]
        exact .base (mem_rulesE.mpr (Or.inr ⟨_, Or.inl (List.mem_singleton.mpr rfl), rfl⟩))
    · intro i hi
      rw [List.mem_singleton.mp hi]
      exact ⟨normS_sorted _, normS_sorted _⟩

/-! ### termination -/

theorem loopEquiv_terminates {U B : NFA} {breadth : Bool} : ∀ (n : Nat) (st : CSt), psi U B st < n →
    ∃ r, loopEquiv U B breadth n st = some r
  | 0, _, h => absurd h (Nat.not_lt_zero _)
  | n+1, st, h => by
    unfold loopEquiv
    split
    · exact ⟨_, rfl⟩
    · next it rest hn =>
      have h2 : psi U B ⟨st.relation, rest, st.visited⟩ + 1 = psi U B st := by
        unfold psi; rw [hn]; simp only [List.length_cons]; omega
      split
      · next hnone =>
        obtain ⟨b, hb⟩ := equivSkip_isSome (rulesOf (rest.reverse ++ st.relation)) it.X it.Y
        rw [hb] at hnone; cases hnone
      · exact loopEquiv_terminates n _ (by omega)
      · split
        · exact ⟨_, rfl⟩
        · next st' h' =>
          apply loopEquiv_terminates n
          have h1 := (psi_congrPost _ _ st' h').1
          have h3 : psi U B ⟨st'.relation ++ [it], st'.next, st'.visited⟩ = psi U B st' := rfl
          omega

theorem runEquiv_terminates {A B : NFA} {breadth : Bool} {fuel : Nat} (h : fuelBoundCongr A B < fuel) :
    ∃ r, runEquiv (nfaUnionDisjoint A B) B breadth fuel = some r := by
  unfold runEquiv
  simp only
  split
  · exact ⟨_, rfl⟩
  · apply loopEquiv_terminates
    have : psi (nfaUnionDisjoint A B) B ⟨[], [⟨normS (nfaUnionDisjoint A B).start, normS B.start, []⟩],
        [(normS (nfaUnionDisjoint A B).start, normS B.start)]⟩ ≤ (cuniv (nfaUnionDisjoint A B) B).length + 1 := by
      unfold psi
      have := List.countP_le_length (l := cuniv (nfaUnionDisjoint A B) B)
        (p := fun p => !([(normS (nfaUnionDisjoint A B).start, normS B.start)] : List CRule).contains p)
      simp only [List.length_singleton]
      omega
    rw [length_cuniv] at this
    unfold fuelBoundCongr at h
    omega

end NfaIncl

open NfaIncl

/-! ### the verdicts -/

/-- every verdict of the equivalence functor on `(A ⊎ B, B)` is the truth of `L(A) ⊆ L(B)` (state-disjoint operands) -/
theorem nfaInclEquiv_iff {A B : NFA} (hdis : ∀ q, q ∈ nfaStates A → q ∈ nfaStates B → False) {depthFirst : Bool}
    {fuel : Nat} {b : Bool} (h : nfaInclEquiv A B depthFirst fuel = some b) : b = true ↔ InclW A B := by
  unfold nfaInclEquiv nfaInclEquivRun at h
  split at h
  · cases h
  · next R hr =>
    simp only [Option.some.injEq] at h
    subst h
    exact ⟨fun _ => congr_cert_sound ((runEquiv_inv hdis).2 R hr), fun _ => rfl⟩
  · next w hr =>
    simp only [Option.some.injEq] at h
    subst h
    obtain ⟨h1, h2⟩ := (runEquiv_inv hdis).1 w hr
    constructor
    · intro h; cases h
    · intro hi
      have := hi w h1
      rw [h2] at this; cases this

/-- a `false` comes from a word accepted by `A` and not by `B`, a `true` from a bisimulation up to congruence -/
theorem nfaInclEquivRun_certified {A B : NFA} (hdis : ∀ q, q ∈ nfaStates A → q ∈ nfaStates B → False)
    {depthFirst : Bool} {fuel : Nat} :
    (∀ w, nfaInclEquivRun A B depthFirst fuel = some (.error w) → acceptsW A w = true ∧ acceptsW B w = false) ∧
    (∀ R, nfaInclEquivRun A B depthFirst fuel = some (.ok R) → CongrCert A B (rulesOf R)) :=
  runEquiv_inv hdis

/-- above the bound the equivalence functor returns a verdict -/
theorem nfaInclEquiv_total (A B : NFA) {depthFirst : Bool} {fuel : Nat} (hf : fuelBoundCongr A B < fuel) :
    ∃ b, nfaInclEquiv A B depthFirst fuel = some b := by
  obtain ⟨r, hr⟩ := runEquiv_terminates (breadth := !depthFirst) hf
  unfold nfaInclEquiv nfaInclEquivRun
  rw [hr]
  cases r <;> exact ⟨_, rfl⟩

theorem checkNfaInclEquiv_iff {A B : NFA} {depthFirst : Bool} {fuel : Nat} {b : Bool}
    (h : checkNfaInclEquiv A B depthFirst fuel = some b) : b = true ↔ InclW A B := by
  rw [← sanitize_incl A B]
  exact nfaInclEquiv_iff (sanitize_disjoint A B) h

theorem checkNfaInclEquiv_total (A B : NFA) {depthFirst : Bool} {fuel : Nat}
    (hf : fuelBoundCongr (nfaSanitize A B).1 (nfaSanitize A B).2 < fuel) :
    ∃ b, checkNfaInclEquiv A B depthFirst fuel = some b :=
  nfaInclEquiv_total _ _ hf

end Vata
