import Vata.Proofs.ReduceCoded
/-!
# `Reduce` on the store, part 3: the store `CollapseStates` returns, as a VALUE

`uniqueCluster(q')` and `uniqueTuplePtrSet(f)` create an empty cluster / tuple set BEFORE the children are translated.  When
the source satisfies the store invariant (no empty cluster, no empty tuple set) and nothing is thrown, each `uniqueCluster` is
followed by a `uniqueTuplePtrSet` on the same cluster and each `uniqueTuplePtrSet` by an `insert` into the same tuple set, which
ABSORB them: the destination is literally the store `AddTransition` builds from the images of the rules in iteration order.
Hence it satisfies the FULL store invariant.
-/
namespace Vata.ReduceCoded
open Vata Vata.Store Vata.RenameCoded Vata.TrimCoded Vata.SimPipe Vata.BinRel

theorem upsert_upsert {β : Type} (k : Nat) (g1 g2 : Option β → β) : ∀ (l : List (Nat × β)),
    upsert k g2 (upsert k g1 l) = upsert k (fun o => g2 (some (g1 o))) l
  | [] => by simp [upsert]
  | (k', v) :: l => by
    by_cases h : k' = k
    · simp [upsert, h]
    · simp only [upsert, h, if_false]
      rw [upsert_upsert k g1 g2 l]

/-- `uniqueTuplePtrSet(f)` followed by the `insert` into that tuple set is the `insert` -/
theorem add_touchTupleSet (s : Store) (q f : Nat) (t : List Nat) :
    addTransition (touchTupleSet q f s) ⟨f, t, q⟩ = addTransition s ⟨f, t, q⟩ := by
  unfold addTransition touchTupleSet addToMap
  simp only
  rw [upsert_upsert]
  congr 2
  funext o
  simp only [Option.getD_some]
  unfold addToCluster
  rw [upsert_upsert]
  rfl

/-- `uniqueCluster(q)` followed by `uniqueTuplePtrSet` on that cluster is the latter -/
theorem touchTupleSet_touchCluster (s : Store) (q f : Nat) :
    touchTupleSet q f (touchCluster q s) = touchTupleSet q f s := by
  unfold touchTupleSet touchCluster
  simp only
  rw [upsert_upsert]
  rfl

theorem foldl_tupleEvs (h : Nat → Nat) (q f : Nat) : ∀ (ts : TupleSet) (s : Store),
    (tupleEvs h q f ts).foldl stepEv s = (rulesOf (tupleEvs h q f ts)).foldl addTransition s
  | [], _ => rfl
  | t :: ts, s => by
    have ih := foldl_tupleEvs h q f ts (addTransition s ⟨f, t.map h, q⟩)
    simp only [tupleEvs, List.map_cons, List.foldl_cons, stepEv, rulesOf, List.filterMap_cons] at ih ⊢
    exact ih

theorem foldl_symbolEvs (h : Nat → Nat) (q : Nat) : ∀ (c : Cluster), (∀ ft, ft ∈ c → ft.2 ≠ []) → ∀ (s : Store),
    (symbolEvs h q c).foldl stepEv s = (rulesOf (symbolEvs h q c)).foldl addTransition s
  | [], _, _ => rfl
  | (f, []) :: _, hne, _ => absurd rfl (hne (f, []) List.mem_cons_self)
  | (f, t :: ts) :: c, hne, s => by
    have ih := foldl_symbolEvs h q c (fun ft hft => hne ft (List.mem_cons_of_mem _ hft))
    have e : symbolEvs h q ((f, t :: ts) :: c) =
        Ev.touchTS q f :: Ev.add ⟨f, t.map h, q⟩ :: (tupleEvs h q f ts ++ symbolEvs h q c) := by
      simp [symbolEvs, tupleEvs]
    rw [e]
    have r : rulesOf (Ev.touchTS q f :: Ev.add ⟨f, t.map h, q⟩ :: (tupleEvs h q f ts ++ symbolEvs h q c)) =
        ⟨f, t.map h, q⟩ :: (rulesOf (tupleEvs h q f ts) ++ rulesOf (symbolEvs h q c)) := by
      rw [← rulesOf_append]; rfl
    rw [r]
    simp only [List.foldl_cons, List.foldl_append, stepEv]
    rw [add_touchTupleSet, foldl_tupleEvs, ih]

theorem foldl_touchC_symbolEvs (h : Nat → Nat) (q : Nat) (c : Cluster) (hc : c ≠ []) (hne : ∀ ft, ft ∈ c → ft.2 ≠ [])
    (s : Store) :
    (Ev.touchC q :: symbolEvs h q c).foldl stepEv s = (rulesOf (symbolEvs h q c)).foldl addTransition s := by
  rw [← foldl_symbolEvs h q c hne s]
  cases c with
  | nil => exact absurd rfl hc
  | cons ft c =>
    have e : symbolEvs h q (ft :: c) = Ev.touchTS q ft.1 :: (tupleEvs h q ft.1 ft.2 ++ symbolEvs h q c) := by
      simp [symbolEvs]
    rw [e]
    simp only [List.foldl_cons, stepEv]
    rw [touchTupleSet_touchCluster]

theorem foldl_clusterEvs (h : Nat → Nat) : ∀ (m : List (Nat × Cluster)),
    (∀ qc, qc ∈ m → qc.2 ≠ [] ∧ ∀ ft, ft ∈ qc.2 → ft.2 ≠ []) → ∀ (s : Store),
    (clusterEvs h m).foldl stepEv s = (rulesOf (clusterEvs h m)).foldl addTransition s
  | [], _, _ => rfl
  | qc :: m, hm, s => by
    have ih := foldl_clusterEvs h m (fun x hx => hm x (List.mem_cons_of_mem _ hx))
    have e : clusterEvs h (qc :: m) = (Ev.touchC (h qc.1) :: symbolEvs h (h qc.1) qc.2) ++ clusterEvs h m := by
      simp [clusterEvs]
    have r : rulesOf (Ev.touchC (h qc.1) :: symbolEvs h (h qc.1) qc.2) = rulesOf (symbolEvs h (h qc.1) qc.2) := rfl
    rw [e, rulesOf_append, List.foldl_append, List.foldl_append, r,
      foldl_touchC_symbolEvs h (h qc.1) qc.2 (hm qc List.mem_cons_self).1 (hm qc List.mem_cons_self).2, ih]

/-- a run of `ReindexStates(dst, index)` with final states that does not throw, from a source that satisfies the store invariant:
the destination is the store `SetStateFinal` / `AddTransition` build from the images, in iteration order -/
theorem reindexInto_opt_value (g : Nat → Option Nat) (src dst : Store) (hs : Inv src)
    (hthr : (reindexInto (optT g) src dst () true).thrown = none) :
    (reindexInto (optT g) src dst () true).dst =
      ((iterate src).map (mapRule (gd g))).foldl addTransition (setFinals dst (src.final.map (gd g))) := by
  obtain ⟨hc, fpre, fsuf, f1, f2, f3⟩ := finalsLoop_opt g src.final dst
  cases hr : (finalsLoop (optT g) src.final dst ()).thrown with
  | some k => simp [reindexInto, hr] at hthr
  | none =>
    have := f2 hr
    subst this
    rw [List.append_nil] at f1
    subst f1
    have hd : (finalsLoop (optT g) src.final dst ()).dst = setFinals dst (src.final.map (gd g)) := by
      rw [← store_eta (finalsLoop (optT g) src.final dst ()).dst, hc, f3]
      rfl
    obtain ⟨pre, suf, e1, e2, e3⟩ := clustersLoop_ev g src.clusters (finalsLoop (optT g) src.final dst ()).dst
    have hthr' : (clustersLoop (optT g) src.clusters (finalsLoop (optT g) src.final dst ()).dst ()).thrown = none := by
      simpa [reindexInto, hr] using hthr
    have := e2 hthr'
    subst this
    rw [List.append_nil] at e1
    subst e1
    have hdst : (reindexInto (optT g) src dst () true).dst =
        (clustersLoop (optT g) src.clusters (finalsLoop (optT g) src.final dst ()).dst ()).dst := by
      simp only [reindexInto, if_true, hr]
    rw [hdst, e3, hd, foldl_clusterEvs (gd g) src.clusters
      (fun qc hqc => ⟨(hs.clusters qc hqc).nonempty, fun ft hft => ((hs.clusters qc hqc).tuples ft hft).1⟩),
      rulesOf_clusterEvs (gd g) src.clusters src.final]

/-- **the collapsed store as a value**: under the hypotheses of `collapse_strict_ok`, `CollapseStates(m)` returns the store
`AddTransition` builds from the images of the rules (in the source's iteration order) on top of the images of the final
states – and that store satisfies the full store invariant -/
theorem collapse_strict_value (S : Store) (hS : Inv S) (m : List (Nat × Nat))
    (hm : ∀ q, q ∈ usedStates S → ∃ v, m.lookup q = some v) :
    collapseCoded strictT S m =
      .ok (((iterate S).map (mapRule (applyMap m))).foldl addTransition (setFinals empty (S.final.map (applyMap m))), m) ∧
    Inv (((iterate S).map (mapRule (applyMap m))).foldl addTransition (setFinals empty (S.final.map (applyMap m)))) := by
  have hg := (reindexInto_gen lawful_strictT S empty m true).1
  rw [appSeq_strict] at hg
  have hfind : (lookupOrder S true).find? (fun k => (m.lookup k).isNone) = none := by
    rw [List.find?_eq_none]
    intro k hk
    obtain ⟨v, hv⟩ := hm k ((mem_lookupOrder hS k).mp hk)
    simp [hv]
  rw [hfind] at hg
  have hthr : (reindexInto strictT S empty m true).thrown = none := congrArg Prod.fst hg
  have htr : (reindexInto strictT S empty m true).tr = m := congrArg Prod.snd hg
  have hrep := (reindexInto_gen lawful_strictT S empty m true).2 (fun k => m.lookup k)
    (by rw [htr]; exact Le.refl _) (by intro k hk; rw [hthr] at hk; cases hk)
  have hthr' : (reindexInto (optT (fun k => m.lookup k)) S empty () true).thrown = none := by rw [hrep]; exact hthr
  have hval := reindexInto_opt_value (fun k => m.lookup k) S empty hS hthr'
  rw [hrep] at hval
  simp only at hval
  have hgd : ∀ q, q ∈ usedStates S → gd (fun k => m.lookup k) q = applyMap m q := by
    intro q hq
    obtain ⟨v, hv⟩ := hm q hq
    simp [gd, applyMap, hv]
  have e1 : (iterate S).map (mapRule (gd (fun k => m.lookup k))) = (iterate S).map (mapRule (applyMap m)) := by
    apply List.map_congr_left
    intro r hr
    exact mapRule_congr (hgd _ (mem_usedStates.mpr (Or.inr ⟨r, hr, Or.inl rfl⟩)))
      (fun k hk => hgd _ (mem_usedStates.mpr (Or.inr ⟨r, hr, Or.inr hk⟩)))
  have e2 : S.final.map (gd (fun k => m.lookup k)) = S.final.map (applyMap m) := by
    apply List.map_congr_left
    intro q hq
    exact hgd _ (mem_usedStates.mpr (Or.inl hq))
  rw [e1, e2] at hval
  constructor
  · unfold collapseCoded reindexCoded Run.toExcept
    rw [hthr, htr, hval]
  · apply inv_foldl_add
    exact inv_noTrans _ (nodup_foldl_insN _ List.nodup_nil)

/-- the intermediate store of `reduceCodedOn_spec` satisfies the full store invariant -/
theorem reduceCodedOn_collapsed_inv (simA : TA) (S : Store) (hS : Inv S) (heq : TAEquiv (RenameCoded.toTA S) simA)
    (m : List (Nat × Nat)) (d : Store) (hm : collapseMapAsCoded simA = some m) (hd : collapseCoded strictT S m = .ok (d, m)) :
    Inv d ∧ d = ((iterate S).map (mapRule (applyMap m))).foldl addTransition (setFinals empty (S.final.map (applyMap m))) := by
  have hcov : ∀ q, q ∈ usedStates S → ∃ v, m.lookup q = some v := by
    intro q hq
    exact collapseMap_covers simA m hm ((taEquiv_states heq q).mp ((usedStates_toTA S q).mp hq))
  obtain ⟨h1, h2⟩ := collapse_strict_value S hS m hcov
  rw [h1] at hd
  injection hd with hd
  injection hd with hd _
  rw [← hd]
  exact ⟨h2, rfl⟩

end Vata.ReduceCoded
