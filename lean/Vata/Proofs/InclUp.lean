import Vata.InclUp
import Vata.UpCert
import Vata.Lang
/-!
# The certifying upward antichain inclusion model `inclUp` (property C01): every verdict it returns is right

* `upCertB_sound` / `upCertB_iff` : the Boolean certificate check is exactly `UpCert` plus "no bad pair";
* `inclUp_true`, `inclUp_false`, `inclUp_iff` : whatever the exploration did, a returned verdict is the truth about
  `Incl A B` (the language inclusion of `Vata/Lang.lean`).

The exploration itself (`InclUp.run`) is analysed in `Vata/Proofs/InclUpInv.lean` and `Vata/Proofs/InclUpTotal.lean`.
-/
namespace Vata
open InclUp

namespace InclUp

/-- "no bad pair": a pair whose `A`-state is final has a final state of `B` in its macro-state -/
def NoBad (A B : TA) (X : List (Nat × List Nat)) : Prop :=
  ∀ q S, (q, S) ∈ X → q ∈ A.final → ∃ s, s ∈ S ∧ s ∈ B.final

theorem mem_choices {X : List (Nat × List Nat)} : ∀ {ks : List Nat} {Ss : List (List Nat)},
    Ss ∈ choices X ks ↔ All2 (fun k S => (k, S) ∈ X) ks Ss
  | [], Ss => by
    simp only [choices, List.mem_singleton]
    constructor
    · rintro rfl; exact All2.nil
    · intro h; cases h; rfl
  | k :: ks, Ss => by
    simp only [choices, List.mem_flatMap, List.mem_filter, List.mem_map, beq_iff_eq]
    constructor
    · rintro ⟨p, ⟨hp, hk⟩, Ss', hSs', rfl⟩
      refine All2.cons ?_ (mem_choices.mp hSs')
      rw [← hk]; exact hp
    · intro h
      cases h with
      | cons hd tl => exact ⟨(k, _), ⟨hd, rfl⟩, _, mem_choices.mpr tl, rfl⟩

theorem accepting_iff {B : TA} {S : List Nat} : accepting B S = true ↔ ∃ s, s ∈ S ∧ s ∈ B.final := by
  simp only [accepting, List.any_eq_true, List.contains_iff_mem]

end InclUp

/-- the Boolean check decides `UpCert` together with "no bad pair" -/
theorem upCertB_iff (A B : TA) (X : List (Nat × List Nat)) :
    upCertB A B X = true ↔ UpCert A B X ∧ NoBad A B X := by
  simp only [upCertB, Bool.and_eq_true, List.all_eq_true, List.any_eq_true, beq_iff_eq, subB_iff, Bool.or_eq_true,
    Bool.not_eq_true', UpCert, NoBad]
  constructor
  · rintro ⟨h1, h2⟩
    refine ⟨?_, ?_⟩
    · intro ρ hρ Ss hSs
      obtain ⟨p, hp, hq, hsub⟩ := h1 ρ hρ Ss (mem_choices.mpr hSs)
      refine ⟨p.2, ?_, hsub⟩
      rw [← hq]; exact hp
    · intro q S hqS hf
      rcases h2 (q, S) hqS with h | h
      · have : A.final.contains q = true := List.contains_iff_mem.mpr hf
        simp only at h
        rw [h] at this; cases this
      · exact accepting_iff.mp h
  · rintro ⟨h1, h2⟩
    refine ⟨?_, ?_⟩
    · intro ρ hρ Ss hSs
      obtain ⟨S', hS', hsub⟩ := h1 ρ hρ Ss (mem_choices.mp hSs)
      exact ⟨(ρ.parent, S'), hS', rfl, hsub⟩
    · intro p hp
      cases hc : A.final.contains p.1 with
      | false => exact Or.inl rfl
      | true => exact Or.inr (accepting_iff.mpr (h2 p.1 p.2 hp (List.contains_iff_mem.mp hc)))

theorem upCertB_sound {A B : TA} {X : List (Nat × List Nat)} (h : upCertB A B X = true) :
    UpCert A B X ∧ ∀ q S, (q, S) ∈ X → q ∈ A.final → ∃ s, s ∈ S ∧ s ∈ B.final :=
  (upCertB_iff A B X).mp h

/-- a checked certificate proves the inclusion (the antichain principle `up_cert_incl`) -/
theorem upCertB_incl {A B : TA} {X : List (Nat × List Nat)} (h : upCertB A B X = true) : Incl A B :=
  fun t ht => up_cert_incl A B X (upCertB_sound h).1 (upCertB_sound h).2 t ht

namespace InclUp

/-- what a returned result consists of -/
theorem inclUp_some {A B : TA} {fuel : Nat} {b : Bool} {c : Cert} (h : inclUp A B fuel = some (b, c)) :
    (b = true ∧ ∃ X, c = .closed X ∧ upCertB A B X = true) ∨
    (b = false ∧ ∃ w, c = .witness w ∧ accepts A w = true ∧ accepts B w = false) := by
  unfold inclUp at h
  split at h
  · cases h
  · next P _ =>
    simp only at h
    split at h
    · next hc =>
      simp only [Option.some.injEq, Prod.mk.injEq] at h
      exact Or.inl ⟨h.1.symm, _, h.2.symm, hc⟩
    · cases h
  · next q t _ =>
    simp only at h
    split at h
    · next hc =>
      simp only [Option.some.injEq, Prod.mk.injEq] at h
      simp only [Bool.and_eq_true, Bool.not_eq_true'] at hc
      exact Or.inr ⟨h.1.symm, _, h.2.symm, hc.1, hc.2⟩
    · cases h

end InclUp

theorem inclUp_true {A B : TA} {fuel : Nat} {c : Cert} (h : inclUp A B fuel = some (true, c)) : Incl A B := by
  rcases inclUp_some h with ⟨_, X, _, hX⟩ | ⟨hb, _⟩
  · exact upCertB_incl hX
  · cases hb

theorem inclUp_false {A B : TA} {fuel : Nat} {c : Cert} (h : inclUp A B fuel = some (false, c)) : ¬ Incl A B := by
  rcases inclUp_some h with ⟨hb, _⟩ | ⟨_, w, _, hA, hB⟩
  · cases hb
  · intro hincl
    rw [hincl w hA] at hB
    cases hB

theorem inclUp_iff {A B : TA} {fuel : Nat} {b : Bool} {c : Cert} (h : inclUp A B fuel = some (b, c)) :
    b = true ↔ Incl A B := by
  cases b with
  | true => exact ⟨fun _ => inclUp_true h, fun _ => rfl⟩
  | false => exact ⟨fun hb => (by cases hb), fun hi => absurd hi (inclUp_false h)⟩

/-- the certificate of a `true` verdict is an `UpCert` without bad pair, that of a `false` verdict a separating tree -/
theorem inclUp_cert {A B : TA} {fuel : Nat} {b : Bool} {c : Cert} (h : inclUp A B fuel = some (b, c)) :
    match c with
    | .closed X => b = true ∧ UpCert A B X ∧ NoBad A B X
    | .witness w => b = false ∧ accepts A w = true ∧ accepts B w = false := by
  rcases inclUp_some h with ⟨hb, X, hc, hX⟩ | ⟨hb, w, hc, hA, hB⟩
  · subst hc; exact ⟨hb, upCertB_sound hX⟩
  · subst hc; exact ⟨hb, hA, hB⟩

/-! ### examples (non-vacuity) -/
namespace InclUpEx

/-- `{a}` -/
def exA : TA := ⟨[⟨0, [], 1⟩], [1]⟩
/-- `{a, b}` -/
def exAB : TA := ⟨[⟨0, [], 3⟩, ⟨1, [], 3⟩], [3]⟩
/-- `a → 1`, `b → 1`, `g(1,1) → 2` final: all four trees `g(x,y)` -/
def exG : TA := ⟨[⟨0, [], 1⟩, ⟨1, [], 1⟩, ⟨2, [1, 1], 2⟩], [2]⟩
/-- `a → 3`, `b → 4`, `g(3,3) → 9`, `g(4,4) → 9` final: only `g(a,a)` and `g(b,b)` -/
def exH : TA := ⟨[⟨0, [], 3⟩, ⟨1, [], 4⟩, ⟨2, [3, 3], 9⟩, ⟨2, [4, 4], 9⟩], [9]⟩
/-- lists `cons(…cons(nil))` of even length / of any length -/
def exEven : TA := ⟨[⟨0, [], 0⟩, ⟨1, [1], 0⟩, ⟨1, [0], 1⟩], [0]⟩
def exAll : TA := ⟨[⟨0, [], 5⟩, ⟨1, [5], 5⟩], [5]⟩
/-- `h(g(a))` against `{a}`: the macro-state of `g(a)` is empty and its `A`-state is not final -/
def exDeep : TA := ⟨[⟨0, [], 1⟩, ⟨2, [1], 5⟩, ⟨3, [5], 2⟩], [2]⟩

def verdict (r : Option (Bool × Cert)) : Option Bool := r.map (·.1)

-- `{a} ⊆ {a,b}` true; the certificate is the single pair `(1, {3})`
#guard verdict (inclUp exA exAB 10) == some true
#guard (match inclUp exA exAB 10 with | some (_, .closed X) => X == [(1, [3])] | _ => false)
-- `{a,b} ⊆ {a}` false with the witness `b`
#guard verdict (inclUp exAB exA 10) == some false
#guard (match inclUp exAB exA 10 with | some (_, .witness w) => showTree w == "1" | _ => false)
-- the `g(a,b)` shape: false, the witness is `g(a,b)`
#guard verdict (inclUp exG exH 10) == some false
#guard (match inclUp exG exH 10 with | some (_, .witness w) => showTree w == "2(0,1)" | _ => false)
-- the converse holds; three pairs
#guard verdict (inclUp exH exG 10) == some true
#guard (match inclUp exH exG 10 with | some (_, .closed X) => X == [(3, [1]), (4, [1]), (9, [2])] | _ => false)
-- recursion: even ⊆ all, all ⊄ even (witness `cons(nil)`)
#guard verdict (inclUp exEven exAll 10) == some true
#guard verdict (inclUp exAll exEven 10) == some false
-- the exit on an empty macro-state: the tree `g(a)` is completed to `h(g(a))`
#guard (match inclUp exDeep exA 10 with | some (false, .witness w) => showTree w == "3(2(0))" | _ => false)
-- fuel
#guard verdict (inclUp exEven exAll 1) == none

-- the theorems apply to these runs
example : Incl exA exAB := inclUp_true (fuel := 10) (c := .closed [(1, [3])]) rfl
example : upCertB exH exG [(3, [1]), (4, [1]), (9, [2])] = true := by decide
example : UpCert exH exG [(3, [1]), (4, [1]), (9, [2])] ∧ NoBad exH exG [(3, [1]), (4, [1]), (9, [2])] :=
  upCertB_sound (by decide)
example : Incl exH exG := upCertB_incl (X := [(3, [1]), (4, [1]), (9, [2])]) (by decide)
example : ¬ Incl exG exH :=
  inclUp_false (fuel := 10) (c := .witness (.node 2 [.node 0 [], .node 1 []])) rfl
example : (true = true ↔ Incl exEven exAll) :=
  inclUp_iff (fuel := 10) (c := .closed [(0, [5]), (1, [5])]) rfl
-- an antichain that is not closed is refused: the pair for `g` is missing
example : upCertB exH exG [(3, [1]), (4, [1])] = false := by decide
-- a bad pair is refused
example : upCertB exAB exA [(3, [])] = false := by decide

end InclUpEx

end Vata
