import Vata.Proofs.CliArgs
import Vata.Proofs.CliArgsHelpText
/-!
# The command line of the `vata` binary – the help text against the code, and facts about `performOperation`
-/
namespace Vata.CliArgs
open Vata.Dispatch (fAlg fDir fCache fRec fSim fOrder fEquiv)

/-! ## reading the help text -/

def hasInfix (pat : Str) : Str → Bool
  | [] => pat.isEmpty
  | c :: r => pat.isPrefixOf (c :: r) || hasInfix pat r

/-- the text between the first two `'` of a line -/
def quoted (l : Str) : Option Str :=
  match l.dropWhile (· != '\'') with
  | [] => none
  | _ :: r => if r.contains '\'' then some (r.takeWhile (· != '\'')) else none

/-- the options a block of help lines marks with `(default)` -/
def claimedDefaults (lines : List Str) : List Str :=
  lines.filterMap (fun l => if hasInfix (lit "(default)") l then quoted l else none)

/-- all options a block of help lines lists -/
def listedOptions (lines : List Str) : List Str := lines.filterMap quoted

/-- the option lines below the line of a command: the lines after the one starting with `    <cmd> ` up to the next line
that is not indented by six blanks -/
def sectionOf (cmd : Str) (lines : List Str) : List Str :=
  ((lines.dropWhile (fun l => !(lit "    " ++ cmd ++ lit " ").isPrefixOf l)).drop 1).takeWhile
    (fun l => (lit "      ").isPrefixOf l)

/-- … of `VATA_USAGE_COMMANDS` (the model's strings; `usageCommands_chars`: = `sectionOf cmd usageCommandsL`) -/
def helpSection (cmd : String) : List Str := sectionOf (lit cmd) (usageCommands.map String.toList)

theorem helpSection_eq (cmd : String) : helpSection cmd = sectionOf (lit cmd) usageCommandsL := by
  unfold helpSection; rw [usageCommands_chars]

/-- a line of the help text, as characters -/
def helpLine (s : Str) : Prop := s ∈ usageCommands.map String.toList ∨ s ∈ usageFlags.map String.toList

theorem helpLine_iff (s : Str) : helpLine s ↔ s ∈ usageCommandsL ∨ s ∈ usageFlagsL := by
  unfold helpLine; rw [usageCommands_chars, usageFlags_chars]

/-- `name=value` as a pair -/
def asPair (s : Str) : Str × Str := (s.takeWhile (· != '='), (s.dropWhile (· != '=')).drop 1)

/-! ## `incl`: the defaults the help text claims are the defaults the code inserts … -/

theorem help_incl_listed : (listedOptions (helpSection "incl")).map String.ofList =
    ["alg=antichains", "alg=congr", "dir=down", "dir=up", "sim=yes", "sim=no", "order=depth", "order=breadth", "optC=yes",
     "optC=no", "rec=no", "rec=yes", "timeS=yes", "timeS=no"] := by rw [helpSection_eq]; decide +kernel

theorem help_incl_defaults : (claimedDefaults (helpSection "incl")).map String.ofList =
    ["alg=antichains", "dir=up", "sim=no", "order=depth", "optC=no", "rec=no", "timeS=yes"] := by
  rw [helpSection_eq]; decide +kernel

/-- the `(default)` marks of the `incl` block, read as a map, are exactly the map `CheckInclusion` works with when no option
is given -/
theorem help_incl_defaults_are_coded :
    insertAll ((claimedDefaults (helpSection "incl")).map asPair) [] = inclDefaults [] := by
  rw [helpSection_eq]; decide +kernel

/-- every value the help text lists for an inclusion option is accepted, and nothing else is (`checkInclusionOpts_ok_iff`):
the listed words are the two words of each block -/
theorem help_incl_values_are_coded :
    ((listedOptions (helpSection "incl")).map asPair).all (fun kv =>
      (checkInclusionOpts [kv]).toOption.isSome) = true := by rw [helpSection_eq]; decide +kernel

/-! ## … but the DESCRIPTIONS of `rec=no` / `rec=yes` are swapped -/

/-- the help text: `rec=no` is "recursive", `rec=yes` "non-recursive" -/
theorem help_rec_lines :
    "               'rec=no'   : recursive version of the algorithm (default)\n" ∈ usageCommands ∧
    "               'rec=yes'  : non-recursive version of the algorithm\n" ∈ usageCommands ∧
    (listedOptions (helpSection "incl")).filter (fun o => (lit "rec=").isPrefixOf o) = [lit "rec=no", lit "rec=yes"] := by
  rw [helpSection_eq]; decide +kernel

/-- the code: `rec=no` CLEARS `FLAG_MASK_RECURSIVE`, `rec=yes` sets it … -/
theorem coded_rec {opts : Options} (hs : SortedMap opts) {c : InclChoice} (h : checkInclusionOpts opts = .ok c) :
    (optVal opts "rec" "no" = lit "no" → Vata.Dispatch.has c.word fRec = false) ∧
    (optVal opts "rec" "no" = lit "yes" → Vata.Dispatch.has c.word fRec = true) := by
  have h3 := ((checkInclusionOpts_ok_iff hs c).mp h).2.2.1
  have hw := (word_spec c).2.2.1
  rw [hw]
  cases hr : c.recursive
  · rw [hr] at h3; simp only [Bool.false_eq_true, if_false] at h3
    rw [h3]; exact ⟨fun _ => rfl, fun e => absurd e (by decide)⟩
  · rw [hr] at h3; simp only [if_true] at h3
    rw [h3]; exact ⟨fun e => absurd e (by decide), fun _ => rfl⟩

/-- … and in every tree-automata dispatcher the cases with that bit are the RECURSIVE implementations (`downRec`: the
recursive `CheckDownwardTreeInclusion`, `viaTopDown`: the same through the top-down encoding), the cases without it the
non-recursive ones (`explUp`, `bddUp`, `explDownNonrec`) -/
theorem rec_bit_is_recursive :
    (Vata.Gen.explDispatch ++ Vata.Gen.tdDispatch ++ Vata.Gen.buDispatch).all (fun c =>
      Vata.Dispatch.has c.word fRec == (c.callee == "downRec" || c.callee == "viaTopDown")) = true := by decide +kernel

/-- with no options at all the word is 0 = `ANTICHAINS_UP_NOSIM`: upward, NON-recursive, no simulation -/
theorem default_word : (checkInclusionOpts []).map (·.word) = .ok 0 ∧
    Vata.Gen.namedWords.lookup "ANTICHAINS_UP_NOSIM" = some 0 := by decide +kernel

/-! ## `sim`, `red`, `equiv`, `symbolic`, the flags -/

theorem help_sim_defaults : (claimedDefaults (helpSection "sim")).map String.ofList = ["dir=down", "dir=fwd"] := by
  rw [helpSection_eq]; decide +kernel

/-- the help text claims `dir=fwd` as the default for finite automata; the code inserts `dir=down` whatever the
representation (the option handling of `ComputeSimulation` does not look at it): without `-o` the relation is
`TA_DOWNWARD`; `FA_FORWARD` / `FA_BACKWARD` only on request -/
theorem coded_sim_default : computeSimulationOpts [] = .ok relDown ∧
    computeSimulationOpts [(lit "dir", lit "fwd")] = .ok relFwd ∧
    computeSimulationOpts [(lit "dir", lit "bwd")] = .ok relBwd ∧
    computeSimulationOpts [(lit "dir", lit "up")] = .ok relUp := by decide +kernel

theorem help_red : (listedOptions (helpSection "red")).map String.ofList = ["dir=down", "dir=up"] ∧
    (claimedDefaults (helpSection "red")).map String.ofList = ["dir=down"] := by rw [helpSection_eq]; decide +kernel

/-- `red`: the default is `dir=down` as claimed; the listed `dir=up` is refused with `Unimplemented.` -/
theorem coded_red : computeReductionOpts [] = .ok () ∧
    computeReductionOpts [(lit "dir", lit "up")] = .error (lit "Unimplemented.") := by decide +kernel

theorem help_equiv : (listedOptions (helpSection "equiv")).map String.ofList = ["order=depth", "order=breadth"] := by
  rw [helpSection_eq]; decide +kernel

/-- the representation / format defaults of the flags block, and "(stronger than -p)" -/
theorem help_flags :
    "       Choices: 'expl'   : explicit (default)\n" ∈ usageFlags ∧
    "       Formats: 'timbuk'  : Timbuk format (default)\n" ∈ usageFlags ∧
    "    -s                      Prune useless states first (stronger than -p)\n" ∈ usageFlags := by decide +kernel

theorem coded_flag_defaults : ({} : Arguments).representation = .expl ∧ ({} : Arguments).inputFormat = .timbuk ∧
    ({} : Arguments).outputFormat = .timbuk := ⟨rfl, rfl, rfl⟩

/-! ## `performOperation` -/

/-- the `symbolic` option is examined before anything is loaded: an unknown value ends the run with `Invalid options: …`
and an empty log -/
theorem perform_symbolic_invalid (a : Arguments)
    (h : mapGet (withDefault "symbolic" "no" a.options) (lit "symbolic") ≠ lit "yes" ∧
         mapGet (withDefault "symbolic" "no" a.options) (lit "symbolic") ≠ lit "no") :
    perform a = { exc := some (lit "Invalid options: " ++ showOptions (withDefault "symbolic" "no" a.options)) } := by
  unfold perform
  simp only []
  rw [if_pos h]

/-- `-p` / `-s` have NO effect on `witness`, `incl`, `equiv`, `sim` (silently ignored) -/
theorem perform_prune_ignored (a : Arguments) (h : prunes a.command = false) (p s : Bool) :
    perform { a with pruneUnreachable := p, pruneUseless := s } = perform a := by
  unfold perform
  simp only [h, Bool.false_and, Bool.false_eq_true, if_false]

/-- `-s` is "stronger than `-p`": with `-s` given, `-p` changes nothing -/
theorem perform_useless_wins (a : Arguments) (h : a.pruneUseless = true) (p : Bool) :
    perform { a with pruneUnreachable := p } = perform a := by
  unfold perform
  simp only [h, if_true]

/-- `-n`: nothing is written to the standard output -/
theorem perform_no_output (a : Arguments) (h : a.dontOutputResult = true) : (perform a).out = [] := by
  unfold perform
  simp only []
  split
  · rfl
  · split
    · rfl
    · simp

/-- the commands that prune, each with both flags, on the recording automaton: `-s` alone, `-p` alone, both, none -/
theorem perform_prune_examples :
    String.ofList (perform { command := .load, operands := 1, fileName1 := lit "A", pruneUseless := true }).out =
      "dump(us(ld(A,));A>0)\n" ∧
    String.ofList (perform { command := .load, operands := 1, fileName1 := lit "A", pruneUnreachable := true }).out =
      "dump(ur(ld(A,));A>0)\n" ∧
    String.ofList (perform { command := .load, operands := 1, fileName1 := lit "A", pruneUnreachable := true, pruneUseless := true }).out =
      "dump(us(ld(A,));A>0)\n" ∧
    String.ofList (perform { command := .witness, operands := 1, fileName1 := lit "A", pruneUseless := true }).out =
      "dump(cand(ld(A,));A>0)\n" ∧
    String.ofList (perform { command := .union, operands := 2, fileName1 := lit "B", fileName2 := lit "A", pruneUnreachable := true }).out =
      "dump(union(ur(ld(B,)),ur(ld(A,)));A_2>1,B_1>0)\n" := by decide +kernel

/-- which dictionary the dump uses: the first operand's for `load` / `witness` / `red`; NONE for `cmpl` unless the
representation is `expl_fa`; the union / product dictionary for `union` / `isect` -/
theorem perform_dump_examples :
    String.ofList (perform { command := .cmpl, operands := 1, fileName1 := lit "A" }).out =
      "dump(cmpl(ld(A,)))\n" ∧
    String.ofList (perform { command := .cmpl, operands := 1, fileName1 := lit "A", representation := .explFa }).out =
      "dump(cmpl(ld(A,));A>0)\n" ∧
    String.ofList (perform { command := .red, operands := 1, fileName1 := lit "A" }).out =
      "dump(red(ld(A,));A>0)\n" ∧
    String.ofList (perform { command := .isect, operands := 2, fileName1 := lit "A", fileName2 := lit "B" }).out =
      "dump(isect(ld(A,),ld(B,));[A_1|B_2]>0)\n" := by decide +kernel

/-- `incl` with `sim=yes`: the simulation is computed BEFORE the dispatcher is reached – on the disjoint union for the
antichain algorithms, but with `alg=congr` on the default-constructed (empty) automaton `unionAut` while the union replaces
`smaller` -/
theorem perform_incl_sim_examples :
    ((perform { command := .incl, operands := 2, fileName1 := lit "A", fileName2 := lit "B",
                 options := [(lit "sim", lit "yes")] }).log.drop 4).map String.ofList =
      ["sim(udisj(ri(us(ld(A,))),ri(us(ld(B,)))),1,2)", "incl(ri(us(ld(A,))),ri(us(ld(B,))),16)"] ∧
    ((perform { command := .incl, operands := 2, fileName1 := lit "A", fileName2 := lit "B",
                 options := [(lit "alg", lit "congr"), (lit "sim", lit "yes")] }).log.drop 4).map String.ofList =
      ["sim(0,1,2)", "incl(udisj(ri(us(ld(A,))),ri(us(ld(B,)))),ri(us(ld(B,))),17)"] := by decide +kernel

end Vata.CliArgs
