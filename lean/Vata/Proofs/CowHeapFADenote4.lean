import Vata.Proofs.CowHeapFADenote3
/-!
# What the values of the finite-automaton heap model denote – part 4: `GetCandidateTree` (partial)

`vCandRaw_sub`: the local `res` of `GetCandidateTree` is a sub-automaton of the object (start states, final states and
transitions all taken from it); hence `vCandidate_sub_lang`: the language of the value-level `GetCandidateTree` is a subset
of the language of the object.  The link `vCandRaw v ≈ nfasCandidateRaw v` (same search order) is NOT proved.
-/
namespace Vata.CowHeapFA

open Vata Vata.W Vata.NfaS
open Vata.Store (KeysNodup)
open Vata.CowHeapX (missing mem_missing)

/-- the value members collected so far are taken from the object -/
def MemSub (v : FAVal) (s : CandSt) : Prop :=
  (∀ q, q ∈ s.mem.start → q ∈ v.mem.start) ∧ (∀ q, q ∈ s.mem.final → q ∈ v.mem.final)

theorem ite_reach_mem (s : CandSt) (q : Nat) :
    (if s.reach.contains q then s else { s with reach := s.reach ++ [q], queue := s.queue ++ [q] }).mem = s.mem := by
  split <;> rfl

theorem candStart_memSub (v : FAVal) (l : List Nat) (hl : ∀ q, q ∈ l → q ∈ v.mem.start) (s : CandSt)
    (hs : MemSub v s) : MemSub v (candStart v l s) := by
  induction l generalizing s with
  | nil => exact hs
  | cons q l ih =>
    have hq : q ∈ v.mem.start := hl q List.mem_cons_self
    simp only [candStart]
    split
    · rename_i hf
      refine ⟨fun x hx => ?_, fun x hx => ?_⟩
      · simp only [ite_reach_mem, NfaS.mem_insN] at hx
        rcases hx with h | h
        · exact hs.1 x h
        · exact h ▸ hq
      · simp only [ite_reach_mem, NfaS.mem_insN] at hx
        rcases hx with h | h
        · exact hs.2 x h
        · exact h ▸ List.contains_iff_mem.mp hf
    · apply ih (fun x hx => hl x (List.mem_cons_of_mem _ hx))
      refine ⟨fun x hx => ?_, fun x hx => ?_⟩
      · simp only [ite_reach_mem, NfaS.mem_insN] at hx
        rcases hx with h | h
        · exact hs.1 x h
        · exact h ▸ hq
      · simp only [ite_reach_mem] at hx
        exact hs.2 x hx

theorem candInner_memSub (v : FAVal) (act : Nat) (ts : List Nat) (s : CandSt) (hs : MemSub v s) :
    MemSub v (candInner v act ts s) := by
  induction ts generalizing s with
  | nil => exact hs
  | cons q ts ih =>
    simp only [candInner]
    split
    · rename_i hf
      refine ⟨fun x hx => ?_, fun x hx => ?_⟩
      · simp only [ite_reach_mem] at hx
        exact hs.1 x hx
      · simp only [ite_reach_mem, NfaS.mem_insN] at hx
        rcases hx with h | h
        · exact hs.2 x h
        · exact h ▸ List.contains_iff_mem.mp hf
    · apply ih
      refine ⟨fun x hx => ?_, fun x hx => ?_⟩
      · simp only [ite_reach_mem] at hx
        exact hs.1 x hx
      · simp only [ite_reach_mem] at hx
        exact hs.2 x hx

theorem candLoop_memSub (v : FAVal) (n : Nat) (s : CandSt) (hs : MemSub v s) : MemSub v (candLoop v n s) := by
  induction n generalizing s with
  | zero => exact hs
  | succ n ih =>
    simp only [candLoop]
    split
    · exact hs
    · split
      · exact hs
      · split
        · exact ih _ hs
        · exact ih _ (candInner_memSub v _ _ _ hs)

/-- the local `res` of `GetCandidateTree` is a sub-automaton of the object -/
theorem vCandRaw_sub (v : FAVal) : NfaSub (vCandRaw v).toNFA v.toNFA := by
  have hm : MemSub v (candSearch v) := by
    unfold candSearch
    apply candLoop_memSub
    apply candStart_memSub v v.mem.start (fun q h => h)
    exact ⟨fun q h => by simp at h, fun q h => by simp at h⟩
  refine ⟨hm.1, hm.2, fun e he => ?_⟩
  have he' : e ∈ transOf (missing [] (pick v.trans (candSearch v).keys)) := he
  obtain ⟨c, hc, h⟩ := mem_transOf.mp he'
  exact mem_transOf.mpr ⟨c, Store.mem_of_lookup (mem_missing_pick.mp hc).2, h⟩

/-- the automaton `GetCandidateTree` returns is, up to list order, `nfasRemoveUseless` of its local `res` … -/
theorem vCandidate_denote_useless (v : FAVal) :
    NEquiv (vCandidate v).toNFAS (nfasRemoveUseless (vCandRaw v).toNFAS) :=
  vUseless_denote (vCandRaw v) (keysNodup_missing_nil _)

/-- … so its language is the language of `res`, a subset of the language of the object -/
theorem vCandidate_sub_lang (v : FAVal) (w : List Nat) (h : acceptsW (vCandidate v).toNFA w = true) :
    acceptsW v.toNFA w = true := by
  have e : acceptsW (vCandidate v).toNFA w = acceptsW (vCandRaw v).toNFA w := by
    have := (vCandidate_denote_useless v).lang w
    rw [nfasRemoveUseless_lang] at this
    exact this
  rw [e] at h
  exact (vCandRaw_sub v).lang w h

end Vata.CowHeapFA
