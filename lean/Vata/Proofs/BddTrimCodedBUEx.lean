import Vata.BddTrimCodedBU
import Vata.Proofs.BddAbsTD
/-!
# Regression examples for the bottom-up symbolic trimming as coded (property C08)

Variants of `buUnreachCoded` / `buUselessCoded` with one realistic slip each, and concrete tables (built by `AddTransition`)
on which the slip is visible: a different rule set, a different language.
-/
namespace Vata
namespace BddTrimCoded
namespace BUEx
open M BddAbs BddAbsTD BddAbsTD.BddAbsTDEx

/-! ### slip 1 (`RemoveUnreachableStates`): the check "all states of the tuple are reachable" is left out -/

/-- `scanStep` without the loop `for (i = 0; i < tuple.size(); ++i) if (reachable->find(tuple[i]) == …) break;` -/
def scanStepAny (state : Nat) (st : BuSt) (e : List Nat × MT) : BuSt :=
  if e.1.contains state then
    let rw := collect (st.reach, st.ws) e.2
    ⟨rw.1, rw.2, st.tuples, st.result.set e.1 e.2⟩
  else ⟨st.reach, st.ws, st.tuples ++ [e], st.result⟩

def buUnreachLoopAny : Nat → BuSt → Option BuSt
  | _, ⟨r, [], tu, R⟩ => some ⟨r, [], tu, R⟩
  | 0, ⟨_, _ :: _, _, _⟩ => none
  | fuel + 1, ⟨r, state :: ws, tu, R⟩ => buUnreachLoopAny fuel (tu.foldl (scanStepAny state) ⟨r, ws, [], R⟩)

def buUnreachCodedAny (T : Table) (final : List Nat) (fuel : Nat) : Option (Table × List Nat) :=
  (buUnreachLoopAny fuel (buUnreachInit T)).map (fun st => (st.result, final.filter (fun q => st.reach.contains q)))

/-! ### slip 2 (`RemoveUnreachableStates`): the classic erase-while-iterating slip – after `tuples.erase(tmpIt)` the
iterator is advanced once more (the `continue` is missing), so the tuple after an erased one is not examined -/

/-- the scan with a flag "skip the next tuple" -/
def scanStepSkip (state : Nat) (a : BuSt × Bool) (e : List Nat × MT) : BuSt × Bool :=
  if a.2 then (⟨a.1.reach, a.1.ws, a.1.tuples ++ [e], a.1.result⟩, false)
  else if e.1.contains state && e.1.all (fun q => a.1.reach.contains q) then
    let rw := collect (a.1.reach, a.1.ws) e.2
    (⟨rw.1, rw.2, a.1.tuples, a.1.result.set e.1 e.2⟩, true)
  else (⟨a.1.reach, a.1.ws, a.1.tuples ++ [e], a.1.result⟩, false)

def buUnreachLoopSkip : Nat → BuSt → Option BuSt
  | _, ⟨r, [], tu, R⟩ => some ⟨r, [], tu, R⟩
  | 0, ⟨_, _ :: _, _, _⟩ => none
  | fuel + 1, ⟨r, state :: ws, tu, R⟩ =>
    buUnreachLoopSkip fuel (tu.foldl (scanStepSkip state) (⟨r, ws, [], R⟩, false)).1

def buUnreachCodedSkip (T : Table) (final : List Nat) (fuel : Nat) : Option (Table × List Nat) :=
  (buUnreachLoopSkip fuel (buUnreachInit T)).map (fun st => (st.result, final.filter (fun q => st.reach.contains q)))

/-! ### slip 3 (`RemoveUselessStates`): the edge is added in the wrong direction,
`graph_.AddEdge(itOtherNode->second, node)` -/

def addEdgesRev (nodes : List (Nat × Nat)) (node : Nat) (tuple : List Nat) (G : Graph) : Graph :=
  tuple.foldl (fun G t => match findBwd nodes t with
    | some m => G.addEdge m node
    | none => G) G

def collectStepGRev (tuple : List Nat) (s : FSt) (q : Nat) : FSt :=
  let rw := collectStep (s.reach, s.ws) q
  let gn : Graph × List (Nat × Nat) × Nat := match findBwd s.nodes q with
    | some n => (s.graph, s.nodes, n)
    | none => let a := s.graph.addNode; (a.1, s.nodes ++ [(a.2, q)], a.2)
  ⟨rw.1, rw.2, addEdgesRev gn.2.1 gn.2.2 tuple gn.1, gn.2.1⟩

def collectGRev (tuple : List Nat) (s : FSt) (m : MT) : FSt := (leafParents m).foldl (collectStepGRev tuple) s

def scanStepGRev (state : Nat) (st : BuGSt) (e : List Nat × MT) : BuGSt :=
  if e.1.contains state && e.1.all (fun q => st.reach.contains q) then
    let s := collectGRev e.1 ⟨st.reach, st.ws, st.graph, st.nodes⟩ e.2
    ⟨s.reach, s.ws, st.tuples, s.graph, s.nodes⟩
  else ⟨st.reach, st.ws, st.tuples ++ [e], st.graph, st.nodes⟩

def buGLoopRev : Nat → BuGSt → Option BuGSt
  | _, ⟨r, [], tu, G, d⟩ => some ⟨r, [], tu, G, d⟩
  | 0, ⟨_, _ :: _, _, _, _⟩ => none
  | fuel + 1, ⟨r, state :: ws, tu, G, d⟩ => buGLoopRev fuel (tu.foldl (scanStepGRev state) ⟨r, ws, [], G, d⟩)

def buGInitRev (T : Table) : BuGSt :=
  let s := collectGRev [] ⟨[], [], Graph.empty, []⟩ T.nullary
  ⟨s.reach, s.ws, T.entries.filter (fun e => e.1 != []), s.graph, s.nodes⟩

def buUselessCodedRev (T : Table) (final : List Nat) (fuel : Nat) : Option (Table × List Nat) :=
  match buGLoopRev fuel (buGInitRev T) with
  | none => none
  | some st =>
    let seed := final.foldl (seedStep st.nodes) ([], [])
    match traverse st.nodes fuel ⟨seed.1, seed.2, st.graph⟩ with
    | none => none
    | some tr => some ((pairs T).foldl (restrictStep tr.useful) Table.empty,
        final.filter (fun q => (findBwd st.nodes q).isSome))

/-! ### slip 4 (`RemoveUselessStates`): the graph is built over ALL tuples containing the popped state (the check "all
states reachable" is left out): a state below an unproductive tuple becomes `useful` -/

def scanStepGAny (state : Nat) (st : BuGSt) (e : List Nat × MT) : BuGSt :=
  if e.1.contains state then
    let s := collectG e.1 ⟨st.reach, st.ws, st.graph, st.nodes⟩ e.2
    ⟨s.reach, s.ws, st.tuples, s.graph, s.nodes⟩
  else ⟨st.reach, st.ws, st.tuples ++ [e], st.graph, st.nodes⟩

def buGLoopAny : Nat → BuGSt → Option BuGSt
  | _, ⟨r, [], tu, G, d⟩ => some ⟨r, [], tu, G, d⟩
  | 0, ⟨_, _ :: _, _, _, _⟩ => none
  | fuel + 1, ⟨r, state :: ws, tu, G, d⟩ => buGLoopAny fuel (tu.foldl (scanStepGAny state) ⟨r, ws, [], G, d⟩)

def buUselessCodedAny (T : Table) (final : List Nat) (fuel : Nat) : Option (Table × List Nat) :=
  match buGLoopAny fuel (buGInit T) with
  | none => none
  | some st =>
    let seed := final.foldl (seedStep st.nodes) ([], [])
    match traverse st.nodes fuel ⟨seed.1, seed.2, st.graph⟩ with
    | none => none
    | some tr => some ((pairs T).foldl (restrictStep tr.useful) Table.empty,
        final.filter (fun q => (findBwd st.nodes q).isSome))

/-! ### the examples -/

def tA : Table := ofRules rsA

/-- the rules of an answer -/
def rulesOf (o : Option (Table × List Nat)) : Option (List (Nat × List Nat × Nat)) :=
  o.map (fun R => showRules (absRules syms R.1))

def langOf (o : Option (Table × List Nat)) (t : Tree) : Option Bool := o.map (fun R => accepts (absBU syms R.1 R.2) t)

/-- `a → 1`, `g(1,1) → 2`, `h(1) → 7`; final: 2 (the table lists the tuple `[1]` before `[1,1]`) -/
def rsB : List Rule := [⟨0, [], 1⟩, ⟨2, [1, 1], 2⟩, ⟨3, [1], 7⟩]
def tB : Table := ofRules rsB
def finB : List Nat := [2]
/-- `g(a, a)` -/
def trB : Tree := .node 2 [.node 0 [], .node 0 []]

/-- `a → 1`, `b → 5`, `g(4,5) → 2` (4 has no rule), `g(1,1) → 2`; final: 2 -/
def rsC : List Rule := [⟨0, [], 1⟩, ⟨1, [], 5⟩, ⟨2, [4, 5], 2⟩, ⟨2, [1, 1], 2⟩]
def tC : Table := ofRules rsC

-- the coded functions on the example automaton `rsA` of `Vata/Proofs/BddAbsTD.lean`: the answers of the abstract models
example : rulesOf (buUnreachCoded tA finA 5) =
    some [(0, [], 1), (0, [], 3), (1, [], 1), (1, [], 5), (3, [5], 6), (2, [1, 1], 2)] := by decide +kernel
example : rulesOf (buUnreachCoded tA finA 5) = rulesOf (some (removeUnreachableBU tA finA)) := by decide +kernel
example : (buUnreachSt tA 5).map (fun s => (s.reach, s.tuples.map (·.1))) = some ([1, 3, 5, 2, 6], [[4, 1]]) := by decide +kernel
example : buUnreachCoded tA finA 4 = none := by decide +kernel
example : rulesOf (buUselessCoded tA finA 5) = some [(0, [], 1), (1, [], 1), (2, [1, 1], 2)] := by decide +kernel
example : rulesOf (buUselessCoded tA finA 5) = rulesOf (some (removeUselessBU tA finA)) := by decide +kernel
-- the nodes 0 … 4 stand for the states 1, 3, 5, 2, 6; the edges 2 → 1 (node 3 → node 0), 6 → 5 (node 4 → node 2);
-- the traversal from the node of 2 erases the edge 3 → 0 when it pops the node 0
example : (buUselessSt tA finA 5).map (fun s => (s.1.nodes, s.2.useful, (List.range 5).map s.1.graph.egr,
    (List.range 5).map s.2.graph.egr)) =
    some ([(0, 1), (1, 3), (2, 5), (3, 2), (4, 6)], [2, 1], [[], [], [], [0], [2]], [[], [], [], [], [2]]) := by decide +kernel

/-- **slip 1 is visible**: the rule `g(4,1) → 2` on the unreachable (unproductive) state 4 stays -/
example : rulesOf (buUnreachCodedAny tA finA 5) =
    some [(0, [], 1), (0, [], 3), (1, [], 1), (1, [], 5), (3, [5], 6), (2, [1, 1], 2), (2, [4, 1], 2)] := by decide +kernel
example : rulesOf (buUnreachCodedAny tA finA 5) ≠ rulesOf (buUnreachCoded tA finA 5) := by decide +kernel

/-- **slip 2 is visible**: the tuple `[1,1]` is never examined, the language changes -/
example : langOf (buUnreachCoded tB finB 5) trB = some true ∧ langOf (buUnreachCodedSkip tB finB 5) trB = some false ∧
    accepts (absBU syms tB finB) trB = true := by decide +kernel

/-- **slip 3 is visible**: nothing but the final state is `useful`, the language becomes empty -/
example : rulesOf (buUselessCodedRev tA finA 5) = some [] ∧
    langOf (buUselessCoded tA finA 5) trB = some true ∧ langOf (buUselessCodedRev tA finA 5) trB = some false ∧
    accepts (absBU syms tA finA) trB = true := by decide +kernel

/-- **slip 4 is visible**: the state 5 (used only together with the unproductive state 4) is kept as useful -/
example : rulesOf (buUselessCoded tC finA 5) = some [(0, [], 1), (2, [1, 1], 2)] ∧
    rulesOf (buUselessCodedAny tC finA 5) = some [(0, [], 1), (1, [], 5), (2, [1, 1], 2)] := by decide +kernel

end BUEx
end BddTrimCoded
end Vata
