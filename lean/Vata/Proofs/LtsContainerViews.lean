import Vata.Proofs.LtsContainerInv
/-!
# `ExplicitLTS` container: the invariant of `bwLabels_` over every history and the views after the repaired `init()` (C16)
-/
namespace Vata.LC
open Vata.L

theorem mem_getD {α : Type} (d : α) (l : List α) (x : α) (h : x ∈ l) : ∃ i, i < l.length ∧ l.getD i d = x := by
  obtain ⟨i, hi, e⟩ := List.getElem_of_mem h
  exact ⟨i, hi, by simp [List.getD_eq_getElem?_getD, List.getElem?_eq_getElem hi, e]⟩

theorem pre_nil_of_ge (c : LtsC) (a r : Nat) (h : c.data.length ≤ a) : c.pre a r = [] := by
  simp [LtsC.pre, List.getD_eq_getElem?_getD, List.getElem?_eq_none h]

/-- the invariant of the index of incoming labels (holds after EVERY history of the repaired class, `binv_run`): no set was
ever asked for a key out of its range, and a label that is in the index of `r` has an edge into `r` -/
structure BInv (c : LtsC) : Prop where
  len : c.bw.length ≤ c.states
  ub : c.ub = false
  bad : ∀ r, r < c.bw.length → (c.bw.getD r default).bad = false
  keys : ∀ r, r < c.bw.length →
    (c.bw.getD r default).keys.Nodup ∧ ∀ a ∈ (c.bw.getD r default).keys, c.pre a r ≠ []

theorem binv_empty (c : LtsC) (h : c.bw = []) (hu : c.ub = false) : BInv c :=
  ⟨by simp [h], hu, fun r hr => by simp [h] at hr, fun r hr => by simp [h] at hr⟩

theorem binv_add (L : LTS) (c : LtsC) (d : DInv L c) (b : BInv c) (q a r : Nat) : BInv (addTransition c q a r) := by
  have hbw : (addTransition c q a r).bw = c.bw := rfl
  have hub : (addTransition c q a r).ub = c.ub := rfl
  refine ⟨?_, by rw [hub]; exact b.ub, fun r' hr => ?_, fun r' hr => ?_⟩
  · rw [hbw, addTransition_states c q a r (d.lens a).1 (d.lens a).2]; have := b.len; omega
  · rw [hbw] at hr ⊢; exact b.bad r' hr
  · rw [hbw] at hr ⊢
    refine ⟨(b.keys r' hr).1, fun a' ha => ?_⟩
    rw [addTransition_pre]
    split
    · simp
    · exact (b.keys r' hr).2 a' ha

/-- set `r` after the repaired `init()`: the fresh set of the current range taken through all labels; the old `bwLabels_`
does not occur -/
theorem init_set (L : LTS) (c : LtsC) (d : DInv L c) (r : Nat) (hr : r < c.states) :
    (init c).bw.getD r default = initSetF (fun a => (c.pre a r).length) (SSet.new c.data.length) c.data.length := by
  rw [(init_spec c (fun a => (d.lens a).2)).2.2.2.2.2.1 r hr, initSet_eq]; rfl

/-- the repaired `init()` never asks a set for a key out of its range -/
theorem init_ub (L : LTS) (c : LtsC) (d : DInv L c) : (init c).ub = c.ub := by
  have hs := init_spec c (fun a => (d.lens a).2)
  have : (init c).bw.any (·.bad) = false := by
    rw [List.any_eq_false]
    intro s hs'
    obtain ⟨r, hr', e⟩ := mem_getD default _ _ hs'
    rw [hs.2.2.2.2.1] at hr'
    rw [← e, init_set L c d r hr', (initSetF_new _ _).2.1]
    simp
  rw [hs.2.2.2.2.2.2, this, Bool.or_false]

/-- the facts about set `r` after `init()` -/
theorem init_set_facts (L : LTS) (c : LtsC) (d : DInv L c) (r : Nat) (hr : r < c.states) :
    ((init c).bw.getD r default).range = c.data.length ∧ ((init c).bw.getD r default).bad = false ∧
    ((init c).bw.getD r default).keys = (List.range c.data.length).filter (fun a => decide (0 < (c.pre a r).length)) ∧
    (∀ a, ((init c).bw.getD r default).count a = (c.pre a r).length) := by
  rw [init_set L c d r hr]
  have f := initSetF_new (fun a => (c.pre a r).length) c.data.length
  refine ⟨f.1, f.2.1, f.2.2.1, fun a => ?_⟩
  by_cases l : a < c.data.length
  · exact f.2.2.2.1 a l
  · rw [f.2.2.2.2 a (by omega), pre_nil_of_ge c a r (by omega)]; rfl

theorem binv_init (L : LTS) (c : LtsC) (d : DInv L c) (b : BInv c) : BInv (init c) := by
  have hs := init_spec c (fun a => (d.lens a).2)
  refine ⟨by rw [hs.2.2.2.2.1, hs.1]; exact Nat.le_refl _, by rw [init_ub L c d]; exact b.ub, fun r hr => ?_, fun r hr => ?_⟩
  · rw [hs.2.2.2.2.1] at hr
    exact (init_set_facts L c d r hr).2.1
  · rw [hs.2.2.2.2.1] at hr
    have f := init_set_facts L c d r hr
    rw [f.2.2.1]
    refine ⟨List.Nodup.sublist List.filter_sublist List.nodup_range, fun a ha => ?_⟩
    rw [init_pre c d.lens]
    have := (List.mem_filter.1 ha).2
    simp only [decide_eq_true_eq] at this
    exact List.length_pos_iff.1 this

theorem binv_step (L : LTS) (c : LtsC) (d : DInv L c) (b : BInv c) (op : Op) : BInv (step c op) := by
  cases op with
  | construct n => exact binv_empty _ rfl b.ub
  | add q a r => exact binv_add L c d b q a r
  | init => exact binv_init L c d b
  | clear => exact binv_empty _ rfl b.ub

theorem binv_foldl (h : List Op) : ∀ (L : LTS) (c : LtsC), DInv L c → BInv c → BInv (h.foldl step c) := by
  induction h with
  | nil => intro L c _ b; exact b
  | cons op h ih => intro L c d b; exact ih _ _ (dinv_step L c d op) (binv_step L c d b op)

theorem binv_run (h : List Op) : BInv (run h) := binv_foldl h _ _ (dinv_construct 0 false) (binv_empty _ rfl rfl)

/-! ### abstract `bwLabels` -/

theorem hasIn_iff (L : LTS) (a r : Nat) : LE.hasIn L a r = true ↔ LE.pre L a r ≠ [] := by
  unfold LE.hasIn LE.pre
  rw [List.any_eq_true]
  constructor
  · rintro ⟨e, he, hp⟩ hnil
    have : e ∈ L.edges.filter (fun e => e.2.1 == a && e.2.2 == r) := List.mem_filter.2 ⟨he, hp⟩
    rw [List.map_eq_nil_iff] at hnil
    rw [hnil] at this; cases this
  · intro hne
    rw [Ne, List.map_eq_nil_iff] at hne
    obtain ⟨e, he⟩ := List.exists_mem_of_ne_nil _ hne
    exact ⟨e, (List.mem_filter.1 he).1, (List.mem_filter.1 he).2⟩

theorem mem_bwLabels (L : LTS) (a r : Nat) : a ∈ LE.bwLabels L r ↔ a < LE.labels L ∧ LE.pre L a r ≠ [] := by
  simp only [LE.bwLabels, List.mem_filter, List.mem_range, hasIn_iff]

theorem nodup_bwLabels (L : LTS) (r : Nat) : (LE.bwLabels L r).Nodup :=
  List.Nodup.sublist List.filter_sublist List.nodup_range

/-! ### the views after `init()` -/

/-- everything the engine reads from the object `init c`, in terms of the abstract system `L` of the history; no
hypothesis about the earlier `bwLabels_` -/
theorem views_after_init (L : LTS) (c : LtsC) (d : DInv L c) :
    (init c).states = L.n ∧ (init c).labels = LE.labels L ∧ (init c).transitions = L.edges.length ∧
    (∀ a q, (init c).post a q = LE.post L a q) ∧ (∀ a r, (init c).pre a r = LE.pre L a r) ∧
    (∀ a, a < LE.labels L → ((init c).data.getD a ([], [])).1.length = L.n ∧ ((init c).data.getD a ([], [])).2.length = L.n) ∧
    (init c).bw.length = L.n ∧
    (∀ r, r < L.n → (init c).bwLabels r = LE.bwLabels L r ∧
      (∀ a, (init c).bwCount r a = (LE.pre L a r).length) ∧
      ((init c).bw.getD r default).range = LE.labels L ∧ ((init c).bw.getD r default).bad = false) := by
  have d' := dinv_init L c d
  have hs := init_spec c (fun a => (d.lens a).2)
  refine ⟨d'.states, d'.labels, d'.trans, d'.post, d'.pre, fun a ha => ?_, by rw [hs.2.2.2.2.1, d.states], fun r hr => ?_⟩
  · have := (init_entry c d.lens a).2.2.1 (by rw [d.labels]; exact ha)
    rw [d.states] at this; exact this
  · rw [← d.states] at hr
    have f := init_set_facts L c d r hr
    refine ⟨?_, fun a => ?_, by rw [f.1, d.labels], f.2.1⟩
    · unfold LtsC.bwLabels
      rw [f.2.2.1]
      simp only [LE.bwLabels, d.labels]
      apply List.filter_congr
      intro a _
      rw [d.pre]
      by_cases e : LE.pre L a r = []
      · have : LE.hasIn L a r = false := by
          cases hh : LE.hasIn L a r
          · rfl
          · exact absurd e ((hasIn_iff L a r).1 hh)
        simp [e, this]
      · have : LE.hasIn L a r = true := (hasIn_iff L a r).2 e
        simp [this, List.length_pos_iff.2 e]
    · unfold LtsC.bwCount
      rw [f.2.2.2 a, d.pre]

theorem run_snoc (h : List Op) (op : Op) : run (h ++ [op]) = step (run h) op := by
  simp [run, List.foldl_append]

theorem spec_snoc (h : List Op) (op : Op) : spec (h ++ [op]) = specStep (spec h) op := by
  simp [spec, List.foldl_append]

end Vata.LC
