import Vata.Proofs.LtsContainerInv
/-!
# `ExplicitLTS` container: the invariant of `bwLabels_` over every history and the views after `init()` (C16)
-/
namespace Vata.LC
open Vata.L

theorem getD_resizeL' {α : Type} (d d' : α) (l : List α) (n i : Nat) (h : l.length ≤ n) (hi : i < n) :
    (resizeL d l n).getD i d' = if i < l.length then l.getD i d' else d := by
  unfold resizeL
  rw [List.take_of_length_le h]
  simp only [List.getD_eq_getElem?_getD]
  by_cases hl : i < l.length
  · rw [List.getElem?_append_left hl, if_pos hl]
  · rw [List.getElem?_append_right (by omega), List.getElem?_replicate, if_neg hl, if_pos (by omega)]; rfl

theorem getD_mem {α : Type} (d : α) (l : List α) (i : Nat) (h : i < l.length) : l.getD i d ∈ l := by
  simp only [List.getD_eq_getElem?_getD, List.getElem?_eq_getElem h, Option.getD_some]
  exact List.getElem_mem h

theorem mem_getD {α : Type} (d : α) (l : List α) (x : α) (h : x ∈ l) : ∃ i, i < l.length ∧ l.getD i d = x := by
  obtain ⟨i, hi, e⟩ := List.getElem_of_mem h
  exact ⟨i, hi, by simp [List.getD_eq_getElem?_getD, List.getElem?_eq_getElem hi, e]⟩

theorem pre_nil_of_ge (c : LtsC) (a r : Nat) (h : c.data.length ≤ a) : c.pre a r = [] := by
  simp [LtsC.pre, List.getD_eq_getElem?_getD, List.getElem?_eq_none h]

/-- the invariant of the index of incoming labels (holds after EVERY history, `binv_run`) -/
structure BInv (c : LtsC) : Prop where
  len : c.bw.length ≤ c.states
  range : ∀ r, r < c.bw.length → (c.bw.getD r default).range ≤ c.data.length
  bad : ∀ r, r < c.bw.length → (c.bw.getD r default).bad = true → c.ub = true
  keys : c.ub = false → ∀ r, r < c.bw.length →
    (c.bw.getD r default).keys.Nodup ∧ ∀ a ∈ (c.bw.getD r default).keys, c.pre a r ≠ []

theorem binv_empty (c : LtsC) (h : c.bw = []) : BInv c :=
  ⟨by simp [h], fun r hr => by simp [h] at hr, fun r hr => by simp [h] at hr, fun _ r hr => by simp [h] at hr⟩

theorem binv_add (L : LTS) (c : LtsC) (d : DInv L c) (b : BInv c) (q a r : Nat) : BInv (addTransition c q a r) := by
  have hbw : (addTransition c q a r).bw = c.bw := rfl
  have hub : (addTransition c q a r).ub = c.ub := rfl
  refine ⟨?_, fun r' hr => ?_, fun r' hr => ?_, fun hu r' hr => ?_⟩
  · rw [hbw, addTransition_states c q a r (d.lens a).1 (d.lens a).2]; have := b.len; omega
  · rw [hbw] at hr ⊢; rw [addTransition_data_length]; have := b.range r' hr; omega
  · rw [hbw] at hr ⊢; rw [hub]; exact b.bad r' hr
  · rw [hbw] at hr ⊢; rw [hub] at hu
    refine ⟨(b.keys hu r' hr).1, fun a' ha => ?_⟩
    rw [addTransition_pre]
    split
    · simp
    · exact (b.keys hu r' hr).2 a' ha

/-- the start value of set `r` in `init()` (after `bwLabels_.resize`) -/
theorem init_start (c : LtsC) (b : BInv c) (r : Nat) (hr : r < c.states) :
    (resizeL (SSet.new c.data.length) c.bw c.states).getD r default =
      if r < c.bw.length then c.bw.getD r default else SSet.new c.data.length :=
  getD_resizeL' _ _ _ _ _ b.len hr

/-- set `r` after `init()` -/
theorem init_set (L : LTS) (c : LtsC) (d : DInv L c) (b : BInv c) (r : Nat) (hr : r < c.states) :
    (init c).bw.getD r default =
      initSetF (fun a => (c.pre a r).length)
        (if r < c.bw.length then c.bw.getD r default else SSet.new c.data.length) c.data.length := by
  rw [(init_spec c (fun a => (d.lens a).2)).2.2.2.2.2.1 r hr, init_start c b r hr, initSet_eq]; rfl

theorem init_ub_false (L : LTS) (c : LtsC) (d : DInv L c) (b : BInv c) (h : (init c).ub = false) :
    c.ub = false ∧ ∀ r, r < c.bw.length → (c.bw.getD r default).range = c.data.length := by
  have hs := init_spec c (fun a => (d.lens a).2)
  rw [hs.2.2.2.2.2.2] at h
  simp only [Bool.or_eq_false_iff] at h
  refine ⟨h.1, fun r hr => ?_⟩
  have hr' : r < c.states := Nat.lt_of_lt_of_le hr b.len
  have hm : (init c).bw.getD r default ∈ (init c).bw := getD_mem _ _ _ (by rw [hs.2.2.2.2.1]; exact hr')
  have hb : ((init c).bw.getD r default).bad = false := by
    have := h.2
    rw [List.any_eq_false] at this
    simpa using this _ hm
  rw [init_set L c d b r hr', if_pos hr, initSetF_bad] at hb
  simp only [Bool.or_eq_false_iff, decide_eq_false_iff_not] at hb
  have := b.range r hr
  omega

/-- what `init()` does about out-of-range keys: it stays clean exactly when every set that exists already was created for
the present number of labels -/
theorem init_ub_iff (L : LTS) (c : LtsC) (d : DInv L c) (b : BInv c) :
    (init c).ub = false ↔ c.ub = false ∧ ∀ r, r < c.bw.length → (c.bw.getD r default).range = c.data.length := by
  refine ⟨init_ub_false L c d b, fun ⟨hu, hr⟩ => ?_⟩
  have hs := init_spec c (fun a => (d.lens a).2)
  rw [hs.2.2.2.2.2.2, hu, Bool.false_or, List.any_eq_false]
  intro s hs'
  obtain ⟨r, hr', e⟩ := mem_getD default _ _ hs'
  rw [hs.2.2.2.2.1] at hr'
  rw [← e, init_set L c d b r hr', initSetF_bad]
  by_cases l : r < c.bw.length
  · rw [if_pos l, hr r l]
    have : (c.bw.getD r default).bad = false := by
      cases hb : (c.bw.getD r default).bad
      · rfl
      · have := b.bad r l hb; rw [hu] at this; cases this
    rw [this]; simp
  · rw [if_neg l]; simp [SSet.new]

/-- the facts about set `r` after a clean `init()` -/
theorem init_set_facts (L : LTS) (c : LtsC) (d : DInv L c) (b : BInv c) (h : (init c).ub = false) (r : Nat) (hr : r < c.states) :
    ((init c).bw.getD r default).keys.Nodup ∧
    (∀ a, a ∈ ((init c).bw.getD r default).keys ↔ a < c.data.length ∧ c.pre a r ≠ []) ∧
    (∀ a, a < c.data.length → ((init c).bw.getD r default).count a = (c.pre a r).length) ∧
    ((init c).bw.getD r default).range = c.data.length ∧
    ((init c).bw.getD r default).keys =
      (if r < c.bw.length then (c.bw.getD r default).keys else []) ++
      (List.range c.data.length).filter (fun a => decide (0 < (c.pre a r).length) &&
        !(if r < c.bw.length then (c.bw.getD r default).keys else []).contains a) := by
  obtain ⟨hu, hrg⟩ := init_ub_false L c d b h
  rw [init_set L c d b r hr]
  generalize hs0 : (if r < c.bw.length then c.bw.getD r default else SSet.new c.data.length) = s0
  have hrange : s0.range = c.data.length := by
    rw [← hs0]; split
    · exact hrg r ‹_›
    · rfl
  have hkeys : s0.keys = if r < c.bw.length then (c.bw.getD r default).keys else [] := by
    rw [← hs0]; split <;> rfl
  have hold : s0.keys.Nodup ∧ ∀ a ∈ s0.keys, c.pre a r ≠ [] := by
    rw [hkeys]; split
    · exact b.keys hu r ‹_›
    · simp
  have hpos : ∀ a ∈ s0.keys, 0 < (fun a => (c.pre a r).length) a := fun a ha =>
    List.length_pos_iff.2 (hold.2 a ha)
  have hk : c.data.length ≤ s0.range := by omega
  refine ⟨initSetF_nodup _ _ hpos hold.1 _ hk, fun a => ?_, fun a ha => initSetF_count _ _ _ hk a ha,
    by rw [initSetF_range, hrange], by rw [initSetF_keys _ _ hpos _ hk, hkeys]⟩
  rw [initSetF_mem _ _ hpos _ hk]
  constructor
  · rintro (h1 | ⟨h1, h2⟩)
    · have hne := hold.2 a h1
      refine ⟨?_, hne⟩
      by_cases l : a < c.data.length
      · exact l
      · exact absurd (pre_nil_of_ge c a r (by omega)) hne
    · exact ⟨h1, List.length_pos_iff.1 h2⟩
  · rintro ⟨h1, h2⟩; exact Or.inr ⟨h1, List.length_pos_iff.2 h2⟩

theorem binv_init (L : LTS) (c : LtsC) (d : DInv L c) (b : BInv c) : BInv (init c) := by
  have hs := init_spec c (fun a => (d.lens a).2)
  refine ⟨by rw [hs.2.2.2.2.1, hs.1]; exact Nat.le_refl _, fun r hr => ?_, fun r hr hb => ?_, fun hu r hr => ?_⟩
  · rw [hs.2.2.2.2.1] at hr
    rw [init_set L c d b r hr, initSetF_range, hs.2.2.1]
    split
    · exact b.range r ‹_›
    · exact Nat.le_refl _
  · rw [hs.2.2.2.2.2.2]
    have : (init c).bw.any (·.bad) = true := List.any_eq_true.2 ⟨_, getD_mem default _ _ hr, hb⟩
    simp [this]
  · rw [hs.2.2.2.2.1] at hr
    have f := init_set_facts L c d b hu r hr
    refine ⟨f.1, fun a ha => ?_⟩
    rw [init_pre c d.lens]
    exact ((f.2.1 a).1 ha).2

theorem binv_step (L : LTS) (c : LtsC) (d : DInv L c) (b : BInv c) (op : Op) : BInv (step c op) := by
  cases op with
  | construct n => exact binv_empty _ rfl
  | add q a r => exact binv_add L c d b q a r
  | init => exact binv_init L c d b
  | clear => exact binv_empty _ rfl

theorem binv_foldl (h : List Op) : ∀ (L : LTS) (c : LtsC), DInv L c → BInv c → BInv (h.foldl step c) := by
  induction h with
  | nil => intro L c _ b; exact b
  | cons op h ih => intro L c d b; exact ih _ _ (dinv_step L c d op) (binv_step L c d b op)

theorem binv_run (h : List Op) : BInv (run h) := binv_foldl h _ _ (dinv_construct 0 false) (binv_empty _ rfl)

/-! ### abstract `bwLabels` -/

theorem hasIn_iff (L : LTS) (a r : Nat) : LE.hasIn L a r = true ↔ LE.pre L a r ≠ [] := by
  unfold LE.hasIn LE.pre
  rw [List.any_eq_true]
  constructor
  · rintro ⟨e, he, hp⟩ hnil
    have : e ∈ L.edges.filter (fun e => e.2.1 == a && e.2.2 == r) := List.mem_filter.2 ⟨he, hp⟩
    rw [List.map_eq_nil_iff] at hnil
    rw [hnil] at this; cases this
  · intro hne
    rw [Ne, List.map_eq_nil_iff] at hne
    obtain ⟨e, he⟩ := List.exists_mem_of_ne_nil _ hne
    exact ⟨e, (List.mem_filter.1 he).1, (List.mem_filter.1 he).2⟩

theorem mem_bwLabels (L : LTS) (a r : Nat) : a ∈ LE.bwLabels L r ↔ a < LE.labels L ∧ LE.pre L a r ≠ [] := by
  simp only [LE.bwLabels, List.mem_filter, List.mem_range, hasIn_iff]

theorem nodup_bwLabels (L : LTS) (r : Nat) : (LE.bwLabels L r).Nodup :=
  List.Nodup.sublist List.filter_sublist List.nodup_range

/-! ### the views after `init()` -/

/-- everything the engine reads from the object `init c`, in terms of the abstract system `L` of the history -/
theorem views_after_init (L : LTS) (c : LtsC) (d : DInv L c) (b : BInv c) (h : (init c).ub = false) :
    (init c).states = L.n ∧ (init c).labels = LE.labels L ∧ (init c).transitions = L.edges.length ∧
    (∀ a q, (init c).post a q = LE.post L a q) ∧ (∀ a r, (init c).pre a r = LE.pre L a r) ∧
    (∀ a, a < LE.labels L → ((init c).data.getD a ([], [])).1.length = L.n ∧ ((init c).data.getD a ([], [])).2.length = L.n) ∧
    (init c).bw.length = L.n ∧
    (∀ r, r < L.n → ((init c).bwLabels r).Perm (LE.bwLabels L r) ∧
      (∀ a, a < LE.labels L → (init c).bwCount r a = (LE.pre L a r).length) ∧
      (c.bw.length ≤ r → (init c).bwLabels r = LE.bwLabels L r)) := by
  have d' := dinv_init L c d
  have hs := init_spec c (fun a => (d.lens a).2)
  refine ⟨d'.states, d'.labels, d'.trans, d'.post, d'.pre, fun a ha => ?_, by rw [hs.2.2.2.2.1, d.states], fun r hr => ?_⟩
  · have := (init_entry c d.lens a).2.2.1 (by rw [d.labels]; exact ha)
    rw [d.states] at this; exact this
  · rw [← d.states] at hr
    have f := init_set_facts L c d b h r hr
    refine ⟨?_, fun a ha => ?_, fun hge => ?_⟩
    · refine (List.perm_ext_iff_of_nodup f.1 (nodup_bwLabels L r)).2 (fun a => ?_)
      show a ∈ ((init c).bw.getD r default).keys ↔ _
      rw [f.2.1 a, mem_bwLabels, d.labels, d.pre]
    · unfold LtsC.bwCount
      rw [f.2.2.1 a (by rw [d.labels]; exact ha), d.pre]
    · unfold LtsC.bwLabels
      rw [f.2.2.2.2, if_neg (by omega)]
      simp only [List.nil_append, LE.bwLabels, d.labels]
      apply List.filter_congr
      intro a _
      rw [d.pre]
      simp only [List.contains_nil, Bool.not_false, Bool.and_true]
      by_cases e : LE.pre L a r = []
      · have : LE.hasIn L a r = false := by
          cases hh : LE.hasIn L a r
          · rfl
          · exact absurd e ((hasIn_iff L a r).1 hh)
        simp [e, this]
      · have : LE.hasIn L a r = true := (hasIn_iff L a r).2 e
        simp [this, List.length_pos_iff.2 e]

theorem run_snoc (h : List Op) (op : Op) : run (h ++ [op]) = step (run h) op := by
  simp [run, List.foldl_append]

theorem spec_snoc (h : List Op) (op : Op) : spec (h ++ [op]) = specStep (spec h) op := by
  simp [spec, List.foldl_append]

end Vata.LC
