import Vata.Proofs.NfaLoadDumpLang
import Vata.Proofs.UnionModel
/-!
# Proofs about `ReindexStates` / `Union` of word automata as coded (`nfasReindexInto`, `nfaUnionCoded` of
`Vata/NfaLoadDump.lean`)
-/
namespace Vata
namespace NfaLD
open NfaS W

/-! ## the three loops of `ReindexStates` -/

theorem foldAddTrans_spec (g : Nat × Nat × Nat → Nat × Nat × Nat) (l : List (Nat × Nat × Nat)) : ∀ (D : NFAS),
    (l.foldl (fun D e => nfasAddTrans D (g e).1 (g e).2.1 (g e).2.2) D).start = D.start ∧
    (l.foldl (fun D e => nfasAddTrans D (g e).1 (g e).2.1 (g e).2.2) D).final = D.final ∧
    (l.foldl (fun D e => nfasAddTrans D (g e).1 (g e).2.1 (g e).2.2) D).startSyms = D.startSyms ∧
    (l.foldl (fun D e => nfasAddTrans D (g e).1 (g e).2.1 (g e).2.2) D).trans = D.trans ++ l.map g := by
  induction l with
  | nil => intro D; simp
  | cons e l ih =>
    intro D
    obtain ⟨h1, h2, h3, h4⟩ := ih (nfasAddTrans D (g e).1 (g e).2.1 (g e).2.2)
    simp only [List.foldl_cons]
    refine ⟨h1, h2, h3, ?_⟩
    rw [h4]
    show (D.trans ++ [((g e).1, (g e).2.1, (g e).2.2)]) ++ _ = _
    simp

/-- the loop of `SetExistingStateStart (index[s], GetStartSymbols (s))` calls -/
def foldStarts (f : Nat → Nat) (g : Nat → List Nat) (l : List Nat) (D : NFAS) : NFAS :=
  l.foldl (fun D q => nfasSetExistingStart D (f q) (g q)) D

theorem foldStarts_spec (f : Nat → Nat) (g : Nat → List Nat) (l : List Nat) : ∀ (D : NFAS),
    (foldStarts f g l D).final = D.final ∧ (foldStarts f g l D).trans = D.trans ∧
    (∀ q, q ∈ (foldStarts f g l D).start ↔ q ∈ D.start ∨ q ∈ l.map f) ∧
    (∀ p, smHas (foldStarts f g l D).startSyms p = true ↔ smHas D.startSyms p = true ∨ p ∈ l.map f) ∧
    (∀ p, smHas D.startSyms p = true → (foldStarts f g l D).symsOf p = D.symsOf p) := by
  induction l with
  | nil => intro D; simp [foldStarts]
  | cons s l ih =>
    intro D
    obtain ⟨h1, h2, h3, h4, h5⟩ := ih (nfasSetExistingStart D (f s) (g s))
    have e : foldStarts f g (s :: l) D = foldStarts f g l (nfasSetExistingStart D (f s) (g s)) := rfl
    rw [e]
    refine ⟨h1, h2, ?_, ?_, ?_⟩
    · intro q
      rw [h3 q]
      show q ∈ insN D.start (f s) ∨ _ ↔ _
      rw [mem_insN, List.map_cons, List.mem_cons]
      constructor
      · rintro ((h | h) | h)
        · exact Or.inl h
        · exact Or.inr (Or.inl h)
        · exact Or.inr (Or.inr h)
      · rintro (h | h | h)
        · exact Or.inl (Or.inl h)
        · exact Or.inl (Or.inr h)
        · exact Or.inr h
    · intro p
      rw [h4 p]
      show smHas (smInsert D.startSyms (f s) (g s)) p = true ∨ _ ↔ _
      rw [smHas_smInsert, List.map_cons, List.mem_cons]
      simp only [Bool.or_eq_true, decide_eq_true_eq]
      constructor
      · rintro ((h | h) | h)
        · exact Or.inl h
        · exact Or.inr (Or.inl h)
        · exact Or.inr (Or.inr h)
      · rintro (h | h | h)
        · exact Or.inl (Or.inl h)
        · exact Or.inl (Or.inr h)
        · exact Or.inr h
    · intro p hp
      have hp' : smHas (nfasSetExistingStart D (f s) (g s)).startSyms p = true := by
        show smHas (smInsert D.startSyms (f s) (g s)) p = true
        rw [smHas_smInsert, hp]; rfl
      rw [h5 p hp', nfasSetExistingStart_symsOf]
      split
      · rename_i hc; rw [hc.2] at hp; rw [hc.1] at hp; cases hp
      · rfl

/-- a start state whose new number has no entry yet gets its own symbol set, provided the states that share its new number
(none, when the translation is injective) have the same set -/
theorem foldStarts_symsOf (f : Nat → Nat) (g : Nat → List Nat) (l : List Nat) : ∀ (D : NFAS),
    (∀ s, s ∈ l → ∀ s', s' ∈ l → f s = f s' → g s = g s') →
    ∀ s, s ∈ l → smHas D.startSyms (f s) = false → (foldStarts f g l D).symsOf (f s) = g s := by
  induction l with
  | nil => intro D _ s hs; cases hs
  | cons s0 l ih =>
    intro D hc s hs hn
    have e : foldStarts f g (s0 :: l) D = foldStarts f g l (nfasSetExistingStart D (f s0) (g s0)) := rfl
    rw [e]
    by_cases hf : f s = f s0
    · have hg : g s = g s0 := hc s hs s0 List.mem_cons_self hf
      obtain ⟨_, _, _, _, h5⟩ := foldStarts_spec f g l (nfasSetExistingStart D (f s0) (g s0))
      have hp' : smHas (nfasSetExistingStart D (f s0) (g s0)).startSyms (f s) = true := by
        show smHas (smInsert D.startSyms (f s0) (g s0)) (f s) = true
        rw [smHas_smInsert, hf]; simp
      rw [h5 _ hp', nfasSetExistingStart_symsOf, if_pos ⟨hf ▸ hn, hf⟩, hg]
    · have hsl : s ∈ l := by
        rcases List.mem_cons.mp hs with h | h
        · exact absurd (by rw [h]) hf
        · exact h
      apply ih _ (fun a ha b hb => hc a (List.mem_cons_of_mem _ ha) b (List.mem_cons_of_mem _ hb)) s hsl
      show smHas (smInsert D.startSyms (f s0) (g s0)) (f s) = false
      rw [smHas_smInsert, hn]; simp [hf]

/-- `ReindexStates (dst, index)` -/
theorem nfasReindexInto_spec (dst : NFAS) (f : Nat → Nat) (A : NFAS) :
    (nfasReindexInto dst f A).trans = dst.trans ++ A.trans.map (fun e => (f e.1, e.2.1, f e.2.2)) ∧
    (∀ q, q ∈ (nfasReindexInto dst f A).final ↔ q ∈ dst.final ∨ q ∈ A.final.map f) ∧
    (∀ q, q ∈ (nfasReindexInto dst f A).start ↔ q ∈ dst.start ∨ q ∈ A.start.map f) ∧
    (nfasReindexInto dst f A).startSyms =
      (foldStarts f A.symsOf A.start (A.final.foldl (fun D q => nfasSetFinal D (f q)) dst)).startSyms ∧
    (A.final.foldl (fun D q => nfasSetFinal D (f q)) dst).startSyms = dst.startSyms := by
  obtain ⟨t1, t2, t3, t4⟩ := foldAddTrans_spec (fun e => (f e.1, e.2.1, f e.2.2)) A.trans
    (foldStarts f A.symsOf A.start (A.final.foldl (fun D q => nfasSetFinal D (f q)) dst))
  obtain ⟨s1, s2, s3, _, _⟩ := foldStarts_spec f A.symsOf A.start (A.final.foldl (fun D q => nfasSetFinal D (f q)) dst)
  have ef : A.final.foldl (fun D q => nfasSetFinal D (f q)) dst = (A.final.map f).foldl nfasSetFinal dst := by
    rw [List.foldl_map]
  obtain ⟨f1, f2, f3, f4⟩ := nfasSetFinals_spec (A.final.map f) dst
  rw [← ef] at f1 f2 f3 f4
  have eU : nfasReindexInto dst f A =
      A.trans.foldl (fun D e => nfasAddTrans D (f e.1) e.2.1 (f e.2.2))
        (foldStarts f A.symsOf A.start (A.final.foldl (fun D q => nfasSetFinal D (f q)) dst)) := rfl
  refine ⟨?_, ?_, ?_, ?_, f3⟩
  · rw [eU, t4, s2, f2]
  · intro q; rw [eU, t2, s1, f4 q]
  · intro q; rw [eU, t1, s3 q, f1]
  · rw [eU, t3]

/-! ## `Union` -/

/-- the result of the two `ReindexStates` calls has the transitions, final and start states of `nfaUnionWith` -/
theorem reindexBoth_sets (fL fR : Nat → Nat) (A B : NFAS) :
    (nfasReindexInto (nfasReindexInto nfasEmpty fL A) fR B).trans = (nfaUnionWith fL fR A.toNFA B.toNFA).trans ∧
    (∀ q, q ∈ (nfasReindexInto (nfasReindexInto nfasEmpty fL A) fR B).final ↔ q ∈ (nfaUnionWith fL fR A.toNFA B.toNFA).final) ∧
    (∀ q, q ∈ (nfasReindexInto (nfasReindexInto nfasEmpty fL A) fR B).start ↔ q ∈ (nfaUnionWith fL fR A.toNFA B.toNFA).start) := by
  obtain ⟨a1, a2, a3, _⟩ := nfasReindexInto_spec nfasEmpty fL A
  obtain ⟨b1, b2, b3, _⟩ := nfasReindexInto_spec (nfasReindexInto nfasEmpty fL A) fR B
  refine ⟨?_, ?_, ?_⟩
  · rw [b1, a1]; rfl
  · intro q
    rw [b2 q, a2 q]
    simp [nfasEmpty, nfaUnionWith, nfaUnionDisjoint, nfaMap]
  · intro q
    rw [b3 q, a3 q]
    simp [nfasEmpty, nfaUnionWith, nfaUnionDisjoint, nfaMap]

/-- the language of the two `ReindexStates` calls, for translations that are injective on their operand with disjoint images -/
theorem reindexBoth_lang (fL fR : Nat → Nat) (A B : NFAS) (w : List Nat)
    (hA : NfaInjOn fL (nfaStates A.toNFA)) (hB : NfaInjOn fR (nfaStates B.toNFA))
    (hdis : ∀ p, p ∈ nfaStates A.toNFA → ∀ q, q ∈ nfaStates B.toNFA → fL p ≠ fR q) :
    acceptsW (nfasReindexInto (nfasReindexInto nfasEmpty fL A) fR B).toNFA w = (acceptsW A.toNFA w || acceptsW B.toNFA w) := by
  obtain ⟨h1, h2, h3⟩ := reindexBoth_sets fL fR A B
  rw [← nfaUnionWith_lang fL fR A.toNFA B.toNFA w hA hB hdis]
  exact acceptsW_congr_sets h3 h2 (fun e => by rw [show (NFAS.toNFA _).trans = _ from h1]) w

/-- the start symbols in the result: every start state of either operand shows, under its new number, its own set -/
theorem reindexBoth_symsOf (fL fR : Nat → Nat) (A B : NFAS)
    (hA : NfaInjOn fL (nfaStates A.toNFA)) (hB : NfaInjOn fR (nfaStates B.toNFA))
    (hdis : ∀ p, p ∈ nfaStates A.toNFA → ∀ q, q ∈ nfaStates B.toNFA → fL p ≠ fR q) :
    (∀ s, s ∈ A.start → (nfasReindexInto (nfasReindexInto nfasEmpty fL A) fR B).symsOf (fL s) = A.symsOf s) ∧
    (∀ s, s ∈ B.start → (nfasReindexInto (nfasReindexInto nfasEmpty fL A) fR B).symsOf (fR s) = B.symsOf s) := by
  obtain ⟨_, _, _, a4, a5⟩ := nfasReindexInto_spec nfasEmpty fL A
  obtain ⟨_, _, _, b4, b5⟩ := nfasReindexInto_spec (nfasReindexInto nfasEmpty fL A) fR B
  have cA : ∀ s, s ∈ A.start → ∀ s', s' ∈ A.start → fL s = fL s' → A.symsOf s = A.symsOf s' := by
    intro s hs s' hs' e
    rw [hA s (start_mem_nfaStates hs) s' (start_mem_nfaStates hs') e]
  have cB : ∀ s, s ∈ B.start → ∀ s', s' ∈ B.start → fR s = fR s' → B.symsOf s = B.symsOf s' := by
    intro s hs s' hs' e
    rw [hB s (start_mem_nfaStates hs) s' (start_mem_nfaStates hs') e]
  -- the entries after the first call: exactly the new numbers of the start states of `A`
  obtain ⟨_, _, _, k4, _⟩ := foldStarts_spec fL A.symsOf A.start (A.final.foldl (fun D q => nfasSetFinal D (fL q)) nfasEmpty)
  have hasA : ∀ p, smHas (nfasReindexInto nfasEmpty fL A).startSyms p = true ↔ p ∈ A.start.map fL := by
    intro p
    rw [a4, k4 p, a5]
    simp [nfasEmpty, smHas, smFind]
  have symA : ∀ s, s ∈ A.start → (nfasReindexInto nfasEmpty fL A).symsOf (fL s) = A.symsOf s := by
    intro s hs
    unfold NFAS.symsOf
    rw [a4]
    apply foldStarts_symsOf fL A.symsOf A.start _ cA s hs
    rw [a5]; rfl
  obtain ⟨_, _, _, _, k5⟩ := foldStarts_spec fR B.symsOf B.start
    ((B.final.foldl (fun D q => nfasSetFinal D (fR q)) (nfasReindexInto nfasEmpty fL A)))
  constructor
  · intro s hs
    have h1 : smHas (B.final.foldl (fun D q => nfasSetFinal D (fR q)) (nfasReindexInto nfasEmpty fL A)).startSyms (fL s) = true := by
      rw [b5]; exact (hasA _).mpr (List.mem_map.mpr ⟨s, hs, rfl⟩)
    have := k5 (fL s) h1
    show smGet (nfasReindexInto (nfasReindexInto nfasEmpty fL A) fR B).startSyms (fL s) = _
    rw [b4]
    refine this.trans ?_
    show smGet (B.final.foldl (fun D q => nfasSetFinal D (fR q)) (nfasReindexInto nfasEmpty fL A)).startSyms (fL s) = _
    rw [b5]
    exact symA s hs
  · intro s hs
    unfold NFAS.symsOf
    rw [b4]
    apply foldStarts_symsOf fR B.symsOf B.start _ cB s hs
    rw [b5]
    cases h : smHas (nfasReindexInto nfasEmpty fL A).startSyms (fR s) with
    | false => rfl
    | true =>
      obtain ⟨s', hs', e⟩ := List.mem_map.mp ((hasA _).mp h)
      exact absurd e (hdis s' (start_mem_nfaStates hs') s (start_mem_nfaStates hs))

theorem mem_nfaVisitOrder {A : NFAS} {q : Nat} : q ∈ nfaVisitOrder A ↔ q ∈ nfaStates A.toNFA := by
  unfold nfaVisitOrder nfaStates
  simp only [List.mem_append]
  constructor
  · rintro ((h | h) | h)
    · exact Or.inl (Or.inr h)
    · exact Or.inl (Or.inl h)
    · exact Or.inr h
  · rintro ((h | h) | h)
    · exact Or.inl (Or.inr h)
    · exact Or.inl (Or.inl h)
    · exact Or.inr h

end NfaLD

open NfaLD W

/-- the maps `Union` leaves: injective on the states of their operand, with disjoint images; they extend the caller's maps
and are defined on all states – for any start value `c` of the counter above the numbers in both maps -/
theorem nfaUnionCodedFrom_maps (c : Nat) (oA oB : List Nat) (A B : NFAS) (mL mR : SMap)
    (hoA : ∀ q, q ∈ nfaStates A.toNFA → q ∈ oA) (hoB : ∀ q, q ∈ nfaStates B.toNFA → q ∈ oB)
    (hbL : Um.Below mL c) (hbR : Um.Below mR c) (hL : Um.Inj mL) (hR : Um.Inj mR) (hD : Um.Disj mL mR) :
    NfaInjOn (applyMap (nfaUnionCodedFrom c oA oB A B mL mR).2.1) (nfaStates A.toNFA) ∧
    NfaInjOn (applyMap (nfaUnionCodedFrom c oA oB A B mL mR).2.2) (nfaStates B.toNFA) ∧
    (∀ p, p ∈ nfaStates A.toNFA → ∀ q, q ∈ nfaStates B.toNFA →
      applyMap (nfaUnionCodedFrom c oA oB A B mL mR).2.1 p ≠ applyMap (nfaUnionCodedFrom c oA oB A B mL mR).2.2 q) ∧
    Um.Inj (nfaUnionCodedFrom c oA oB A B mL mR).2.1 ∧ Um.Inj (nfaUnionCodedFrom c oA oB A B mL mR).2.2 ∧
    Um.Disj (nfaUnionCodedFrom c oA oB A B mL mR).2.1 (nfaUnionCodedFrom c oA oB A B mL mR).2.2 ∧
    Um.Ext mL (nfaUnionCodedFrom c oA oB A B mL mR).2.1 ∧ Um.Ext mR (nfaUnionCodedFrom c oA oB A B mL mR).2.2 ∧
    (∀ q, q ∈ nfaStates A.toNFA → ∃ n, (nfaUnionCodedFrom c oA oB A B mL mR).2.1.lookup q = some n) ∧
    (∀ q, q ∈ nfaStates B.toNFA → ∃ n, (nfaUnionCodedFrom c oA oB A B mL mR).2.2.lookup q = some n) := by
  obtain ⟨h1, h2, h3, h4, h5, h6, h7⟩ := Um.passes (oA := oA) (oB := oB) hbL hbR hL hR hD
  have tA : ∀ q, q ∈ nfaStates A.toNFA → ∃ n, (weakTrAll oA mL c).1.lookup q = some n := fun q hq => h6 q (hoA q hq)
  have tB : ∀ q, q ∈ nfaStates B.toNFA → ∃ n, (weakTrAll oB mR (weakTrAll oA mL c).2).1.lookup q = some n :=
    fun q hq => h7 q (hoB q hq)
  refine ⟨?_, ?_, ?_, h1, h2, h3, h4, h5, tA, tB⟩
  · intro p hp q hq e; exact Um.injOn_of h1 tA p q hp hq e
  · intro p hp q hq e; exact Um.injOn_of h2 tB p q hp hq e
  · intro p hp q hq; exact Um.disjOn_of h3 tA tB p q hp hq

/-- **`Union` as coded accepts the union**, for all visiting orders that cover the states and all pre-filled maps that are
injective with disjoint images; and every start state keeps its start symbols -/
theorem nfaUnionCodedOrd_lang (oA oB : List Nat) (A B : NFAS) (mL mR : SMap)
    (hoA : ∀ q, q ∈ nfaStates A.toNFA → q ∈ oA) (hoB : ∀ q, q ∈ nfaStates B.toNFA → q ∈ oB)
    (hL : Um.Inj mL) (hR : Um.Inj mR) (hD : Um.Disj mL mR) :
    (∀ w, acceptsW (nfaUnionCodedOrd oA oB A B mL mR).1.toNFA w = (acceptsW A.toNFA w || acceptsW B.toNFA w)) ∧
    (∀ s, s ∈ A.start → (nfaUnionCodedOrd oA oB A B mL mR).1.symsOf
      (applyMap (nfaUnionCodedOrd oA oB A B mL mR).2.1 s) = A.symsOf s) ∧
    (∀ s, s ∈ B.start → (nfaUnionCodedOrd oA oB A B mL mR).1.symsOf
      (applyMap (nfaUnionCodedOrd oA oB A B mL mR).2.2 s) = B.symsOf s) := by
  obtain ⟨i1, i2, i3, _⟩ := nfaUnionCodedFrom_maps (unionCnt mL mR) oA oB A B mL mR hoA hoB
    (Um.below_unionCnt_left mL mR) (Um.below_unionCnt_right mL mR) hL hR hD
  obtain ⟨s1, s2⟩ := reindexBoth_symsOf _ _ A B i1 i2 i3
  exact ⟨fun w => reindexBoth_lang _ _ A B w i1 i2 i3, s1, s2⟩

end Vata
