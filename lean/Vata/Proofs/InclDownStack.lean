import Vata.InclDownStack
import Vata.Proofs.InclDownTotal
/-!
# The stack machine of `expand` refines the recursive model (`InclDown.expandN`) — the loops inside a frame

`Reach m m'` : the machine (with the `pop` of the C++) gets from `m` to `m'` in some number of transitions.  For every
loop of the recursive model (`allPos`, `anyTuple`, `tryPos`, `cfAll`, `procTuple`, `forAllL … procGroup` = `body`) a
lemma says: if the recursive loop returns `some` result, the machine gets from the head of the corresponding C++ loop
to the exit the result dictates, with the antichains as the recursive model computes them, with the same stack of
saved frames, and with the locals of the enclosing loops untouched.  The hypothesis about the calls (`CallOK`) is what
the induction on the fuel of `expandN` provides (`Vata/Proofs/InclDownStackMain.lean`).
-/
namespace Vata
namespace InclDownStack
open InclDown
open InclUp (normS Wit)

/-- exactly `n` transitions, none of them final -/
def stepsM (o : Ord) (A B : TA) (wit : Wit) (pop : Frame → Frame → Frame) : Nat → Machine → Option Machine
  | 0, m => some m
  | n+1, m =>
    match stepM o A B wit pop m with
    | .inl m' => stepsM o A B wit pop n m'
    | .inr _ => none

def Reach (o : Ord) (A B : TA) (wit : Wit) (m m' : Machine) : Prop := ∃ n, stepsM o A B wit popAll n m = some m'

section
variable {o : Ord} {A B : TA} {wit : Wit}

theorem Reach.refl (m : Machine) : Reach o A B wit m m := ⟨0, rfl⟩

theorem Reach.step {m m' : Machine} (h : stepM o A B wit popAll m = .inl m') : Reach o A B wit m m' :=
  ⟨1, by simp [stepsM, h]⟩

theorem stepsM_trans {pop : Frame → Frame → Frame} : ∀ (a : Nat) {b : Nat} {m m' m'' : Machine},
    stepsM o A B wit pop a m = some m' → stepsM o A B wit pop b m' = some m'' →
    stepsM o A B wit pop (a + b) m = some m''
  | 0, b, m, m', m'', h1, h2 => by
    simp only [stepsM, Option.some.injEq] at h1; subst h1; simpa using h2
  | a+1, b, m, m', m'', h1, h2 => by
    have : a + 1 + b = (a + b) + 1 := by omega
    rw [this]
    simp only [stepsM] at h1 ⊢
    split at h1
    · exact stepsM_trans a h1 h2
    · cases h1

theorem Reach.trans {m m' m'' : Machine} (h1 : Reach o A B wit m m') (h2 : Reach o A B wit m' m'') :
    Reach o A B wit m m'' := by
  obtain ⟨a, ha⟩ := h1
  obtain ⟨b, hb⟩ := h2
  exact ⟨a + b, stepsM_trans a ha hb⟩

theorem Reach.head {m m' m'' : Machine} (h : stepM o A B wit popAll m = .inl m') (h2 : Reach o A B wit m' m'') :
    Reach o A B wit m m'' := (Reach.step h).trans h2

theorem runM_of_steps {pop : Frame → Frame → Frame} : ∀ (n : Nat) {k : Nat} {m m' : Machine} {r : Verdict × St},
    stepsM o A B wit pop n m = some m' → runM o A B wit pop k m' = some r → runM o A B wit pop (n + k) m = some r
  | 0, k, m, m', r, h1, h2 => by
    simp only [stepsM, Option.some.injEq] at h1; subst h1; simpa using h2
  | n+1, k, m, m', r, h1, h2 => by
    have : n + 1 + k = (n + k) + 1 := by omega
    rw [this]
    simp only [stepsM] at h1
    simp only [runM]
    split at h1
    · next m1 heq => rw [heq]; exact runM_of_steps n h1 h2
    · cases h1

theorem runM_mono {pop : Frame → Frame → Frame} : ∀ {n k : Nat} {m : Machine} {r : Verdict × St},
    runM o A B wit pop n m = some r → n ≤ k → runM o A B wit pop k m = some r
  | 0, _, _, _, h, _ => by simp [runM] at h
  | n+1, 0, _, _, _, hk => by omega
  | n+1, k+1, m, r, h, hk => by
    simp only [runM] at h ⊢
    split
    · next m1 heq => rw [heq] at h; exact runM_mono h (by omega)
    · next r1 heq => rw [heq] at h; exact h

/-- what the induction on the fuel of the recursive model provides for the calls made from inside a frame whose
work-set is `ws`: a call returns the `childrenCache` argument unchanged, and the machine gets from `_call` to
`EXPAND_RETURN` with `top`, the saved frames, the work-set and the registers `r_i`, `S`, `retAddr` as at the call -/
def CallOK (o : Ord) (A B : TA) (wit : Wit) (call : Call) (ws : List Pair) : Prop :=
  ∀ cc st q Q v cc' st', call cc st q Q = some (v, cc', st') →
    cc' = cc ∧ ∀ (top : Frame) (K : List Frame) (k : Nat) (f0 : Verdict),
      Reach o A B wit ⟨.call, top, K, ws, st, q, Q, k, f0⟩ ⟨.ret, top, K, ws, st', q, Q, k, v⟩

theorem drop_cons_inv {α : Type} : ∀ {l : List α} {i : Nat} {z : α} {zs : List α},
    l.drop i = z :: zs → l[i]? = some z ∧ l.drop (i + 1) = zs
  | [], i, z, zs, h => by simp at h
  | x :: l, 0, z, zs, h => by
    simp only [List.drop_zero, List.cons.injEq] at h
    obtain ⟨rfl, rfl⟩ := h
    simp
  | x :: l, i+1, z, zs, h => by
    simp only [List.drop_succ_cons] at h
    have := drop_cons_inv h
    simpa using this

/-! ### phase 1: `for (top.i …) { EXPAND_CALL(2) _simret: … }` = `allPos` -/

theorem reach_simI {call1 : Call} {ws : List Pair} (H : CallOK o A B wit call1 ws) (K : List Frame)
    (top : Frame) (lhs w : List Nat) (r1 r2 : List (List Nat))
    (h1 : top.tupleSetIter = lhs :: r1) (h2 : top.tupleSetIter2 = w :: r2) :
    ∀ (zs : List (Nat × Nat)) (i : Nat), (lhs.zip w).drop i = zs →
    ∀ (cc : List Pair) (st : St) (v : Verdict) (cc' : List Pair) (st' : St) (r : Nat) (S : List Nat) (ra : Nat)
      (fnd : Verdict), (zs ≠ [] ∨ fnd = Verdict.holds) →
      forAllL (fun (lr : Nat × Nat) cc st => call1 cc st lr.1 [lr.2]) zs cc st = some (v, cc', st') →
      cc' = cc ∧ ∃ i' r' S' ra', Reach o A B wit ⟨.forSimI, { top with i := i }, K, ws, st, r, S, ra, fnd⟩
        ⟨.afterSim, { top with i := i' }, K, ws, st', r', S', ra', v⟩ := by
  intro zs
  induction zs with
  | nil =>
    intro i hd cc st v cc' st' r S ra fnd hf h
    simp only [forAllL, Option.some.injEq, Prod.mk.injEq] at h
    obtain ⟨rfl, rfl, rfl⟩ := h
    have hfnd : fnd = .holds := by
      cases hf with
      | inl h => exact absurd rfl h
      | inr h => exact h
    subst hfnd
    refine ⟨rfl, i, r, S, ra, Reach.step ?_⟩
    have : (lhs.zip w)[i]? = none := by
      rw [List.getElem?_eq_none_iff]; exact List.drop_eq_nil_iff.mp hd
    simp [stepM, h1, h2, this]
  | cons z zs ih =>
    intro i hd cc st v cc' st' r S ra fnd _ h
    obtain ⟨hz, hd'⟩ := drop_cons_inv hd
    have s1 : stepM o A B wit popAll ⟨.forSimI, { top with i := i }, K, ws, st, r, S, ra, fnd⟩
        = .inl ⟨.call, { top with i := i }, K, ws, st, z.1, [z.2], 2, fnd⟩ := by
      simp [stepM, h1, h2, hz]
    simp only [forAllL] at h
    split at h
    · cases h
    · next cc1 st1 heq =>
      obtain ⟨rfl, hr⟩ := H _ _ _ _ _ _ _ heq
      have s2 : stepM o A B wit popAll ⟨.ret, { top with i := i }, K, ws, st1, z.1, [z.2], 2, .holds⟩
          = .inl ⟨.simret, { top with i := i }, K, ws, st1, z.1, [z.2], 2, .holds⟩ := by
        simp [stepM]
      have s3 : stepM o A B wit popAll ⟨.simret, { top with i := i }, K, ws, st1, z.1, [z.2], 2, .holds⟩
          = .inl ⟨.forSimI, { top with i := i + 1 }, K, ws, st1, z.1, [z.2], 2, .holds⟩ := by
        simp [stepM]
      obtain ⟨hcc, i', r', S', ra', hR⟩ := ih (i + 1) hd' _ st1 v cc' st' z.1 [z.2] 2 .holds (Or.inr rfl) h
      exact ⟨hcc, i', r', S', ra', Reach.head s1 ((hr _ K 2 fnd).trans (Reach.head s2 (Reach.head s3 hR)))⟩
    · next w0 cc1 st1 heq =>
      obtain ⟨rfl, hr⟩ := H _ _ _ _ _ _ _ heq
      simp only [Option.some.injEq, Prod.mk.injEq] at h
      obtain ⟨rfl, rfl, rfl⟩ := h
      have s2 : stepM o A B wit popAll ⟨.ret, { top with i := i }, K, ws, st1, z.1, [z.2], 2, .fails w0⟩
          = .inl ⟨.simret, { top with i := i }, K, ws, st1, z.1, [z.2], 2, .fails w0⟩ := by
        simp [stepM]
      have s3 : stepM o A B wit popAll ⟨.simret, { top with i := i }, K, ws, st1, z.1, [z.2], 2, .fails w0⟩
          = .inl ⟨.afterSim, { top with i := i }, K, ws, st1, z.1, [z.2], 2, .fails w0⟩ := by
        simp [stepM]
      exact ⟨rfl, i, _, _, _, Reach.head s1 ((hr _ K 2 fnd).trans (Reach.head s2 (Reach.step s3)))⟩

/-! ### phase 1: `for (top.tupleSetIter2 …)` = `anyTuple` -/

theorem reach_tuple2 {call1 : Call} {ws : List Pair} (H : CallOK o A B wit call1 ws) (K : List Frame)
    (top : Frame) (lhs : List Nat) (r1 : List (List Nat)) (h1 : top.tupleSetIter = lhs :: r1) :
    ∀ (Wr : List (List Nat)), (∀ w, w ∈ Wr → lhs.zip w ≠ []) →
    ∀ (cc : List Pair) (st : St) (b : Bool) (cc' : List Pair) (st' : St) (i : Nat) (r : Nat) (S : List Nat)
      (ra : Nat) (fnd : Verdict),
      anyTuple call1 lhs Wr cc st = some (b, cc', st') →
      cc' = cc ∧ ∃ i' ti2' r' S' ra' fnd', Reach o A B wit
        ⟨.forTuple2, { top with tupleSetIter2 := Wr, i := i }, K, ws, st, r, S, ra, fnd⟩
        ⟨(if b then PC.nexttuple else PC.choiceInit), { top with tupleSetIter2 := ti2', i := i' }, K, ws, st',
          r', S', ra', fnd'⟩ := by
  intro Wr
  induction Wr with
  | nil =>
    intro _ cc st b cc' st' i r S ra fnd h
    simp only [anyTuple, Option.some.injEq, Prod.mk.injEq] at h
    obtain ⟨rfl, rfl, rfl⟩ := h
    exact ⟨rfl, i, [], r, S, ra, fnd, Reach.step (by simp [stepM])⟩
  | cons w Wr ih =>
    intro hW cc st b cc' st' i r S ra fnd h
    have s1 : stepM o A B wit popAll ⟨.forTuple2, { top with tupleSetIter2 := w :: Wr, i := i }, K, ws, st, r, S, ra, fnd⟩
        = .inl ⟨.forSimI, { ({ top with tupleSetIter2 := w :: Wr } : Frame) with i := 0 }, K, ws, st, r, S, ra, fnd⟩ := by
      simp [stepM]
    have hz : lhs.zip w ≠ [] := hW w List.mem_cons_self
    simp only [anyTuple, allPos] at h
    split at h
    · cases h
    · next cc1 st1 heq =>
      simp only [Option.some.injEq, Prod.mk.injEq] at h
      obtain ⟨rfl, rfl, rfl⟩ := h
      obtain ⟨hcc, i', r', S', ra', hR⟩ := reach_simI H K { top with tupleSetIter2 := w :: Wr } lhs w r1 Wr h1 rfl
        (lhs.zip w) 0 rfl cc st .holds cc1 st1 r S ra fnd (Or.inl hz) heq
      have s2 : stepM o A B wit popAll
          ⟨.afterSim, { ({ top with tupleSetIter2 := w :: Wr } : Frame) with i := i' }, K, ws, st1, r', S', ra', .holds⟩
          = .inl ⟨.nexttuple, { top with tupleSetIter2 := w :: Wr, i := i' }, K, ws, st1, r', S', ra', .holds⟩ := by
        simp [stepM]
      exact ⟨hcc, i', w :: Wr, r', S', ra', .holds, Reach.head s1 (hR.trans (Reach.step s2))⟩
    · next w0 cc1 st1 heq =>
      obtain ⟨hcc, i', r', S', ra', hR⟩ := reach_simI H K { top with tupleSetIter2 := w :: Wr } lhs w r1 Wr h1 rfl
        (lhs.zip w) 0 rfl cc st (.fails w0) cc1 st1 r S ra fnd (Or.inl hz) heq
      subst hcc
      have s2 : stepM o A B wit popAll
          ⟨.afterSim, { ({ top with tupleSetIter2 := w :: Wr } : Frame) with i := i' }, K, ws, st1, r', S', ra', .fails w0⟩
          = .inl ⟨.forTuple2, { top with tupleSetIter2 := Wr, i := i' }, K, ws, st1, r', S', ra', .fails w0⟩ := by
        simp [stepM]
      obtain ⟨hcc2, i'', ti2', r'', S'', ra'', fnd'', hR2⟩ :=
        ih (fun w' hw' => hW w' (List.mem_cons_of_mem _ hw')) cc1 st1 b cc' st' i' r' S' ra' (.fails w0) h
      exact ⟨hcc2, i'', ti2', r'', S'', ra'', fnd'', Reach.head s1 (hR.trans (Reach.head s2 hR2))⟩

/-! ### one choice function: `for (top.i …) { … EXPAND_CALL(1) _stdret: … }` = `tryPos` with `cachedCall` -/

theorem consT_eq_some {t : Tree} {x : Option (Option (List Tree) × List Pair × St)}
    {res : Option (List Tree)} {cc' : List Pair} {st' : St} (h : consT t x = some (res, cc', st')) :
    ∃ res0, x = some (res0, cc', st') ∧ res = res0.map (t :: ·) := by
  cases x with
  | none => simp [consT] at h
  | some y =>
    obtain ⟨r0, c, s⟩ := y
    cases r0 with
    | none =>
      simp only [consT, Option.some.injEq, Prod.mk.injEq] at h
      obtain ⟨rfl, rfl, rfl⟩ := h
      exact ⟨none, rfl, rfl⟩
    | some ts =>
      simp only [consT, Option.some.injEq, Prod.mk.injEq] at h
      obtain ⟨rfl, rfl, rfl⟩ := h
      exact ⟨some ts, rfl, rfl⟩

theorem reach_cfI {call1 : Call} {ws : List Pair} (H : CallOK o A B wit call1 ws) (K : List Frame)
    (top : Frame) (lhs : List Nat) (r1 : List (List Nat)) (f n0 : Nat) (ra0 : List (Nat × Nat))
    (h1 : top.tupleSetIter = lhs :: r1) (h2 : top.cfArity = lhs.length) (h3 : top.a = (f, n0) :: ra0) :
    ∀ (ls : List Nat) (i : Nat), lhs.drop i = ls →
    ∀ (cc : List Pair) (st : St) (trees : List Tree) (res : Option (List Tree)) (cc' : List Pair) (st' : St)
      (r : Nat) (S : List Nat) (ra : Nat) (w0 : Tree),
      tryPos (cachedCall o call1) wit (fun l => normS (maxElems o l [])) top.W top.choiceFunction i ls cc st
        = some (res, cc', st') →
      match res with
      | none => ∃ i' trees' r' S' ra' fnd', Reach o A B wit
          ⟨.forCfI, { top with i := i, trees := trees, childrenCache := cc }, K, ws, st, r, S, ra, .fails w0⟩
          ⟨.nextchoice, { top with i := i', trees := trees', childrenCache := cc' }, K, ws, st', r', S', ra', fnd'⟩
      | some ts => ∃ i' trees' r' S' ra', Reach o A B wit
          ⟨.forCfI, { top with i := i, trees := trees, childrenCache := cc }, K, ws, st, r, S, ra, .fails w0⟩
          ⟨.popReturn, { top with i := i', trees := trees', childrenCache := cc' }, K, ws, st', r', S', ra',
            .fails (.node f (trees.reverse ++ ts))⟩ := by
  intro ls
  induction ls with
  | nil =>
    intro i hd cc st trees res cc' st' r S ra w0 h
    simp only [tryPos, Option.some.injEq, Prod.mk.injEq] at h
    obtain ⟨rfl, rfl, rfl⟩ := h
    have hi : ¬ i < lhs.length := by
      have := List.drop_eq_nil_iff.mp hd
      omega
    exact ⟨i, trees, r, S, ra, Reach.step (by simp [stepM, h2, hi, curSym, h3])⟩
  | cons l ls ih =>
    intro i hd cc st trees res cc' st' r S ra w0 h
    obtain ⟨hl, hd'⟩ := drop_cons_inv hd
    have hi : i < lhs.length := by
      rcases Nat.lt_or_ge i lhs.length with h' | h'
      · exact h'
      · rw [List.getElem?_eq_none_iff.mpr h'] at hl; cases hl
    have hl' : lhs[i] = l := by
      obtain ⟨_, h'⟩ := List.getElem?_eq_some_iff.mp hl
      exact h'
    simp only [tryPos] at h
    split at h
    · next hemp =>
      obtain ⟨res0, hx, rfl⟩ := consT_eq_some h
      have s1 : stepM o A B wit popAll
          ⟨.forCfI, { top with i := i, trees := trees, childrenCache := cc }, K, ws, st, r, S, ra, .fails w0⟩
          = .inl ⟨.forCfI, { top with i := i + 1, trees := treeOf wit l :: trees, childrenCache := cc }, K, ws, st,
              r, S, ra, .fails w0⟩ := by
        simp [stepM, h1, h2, hi, hl, hl', hemp]
      have := ih (i + 1) hd' cc st (treeOf wit l :: trees) res0 cc' st' r S ra w0 hx
      cases res0 with
      | none =>
        obtain ⟨i', trees', r', S', ra', fnd', hR⟩ := this
        exact ⟨i', trees', r', S', ra', fnd', Reach.head s1 hR⟩
      | some ts =>
        obtain ⟨i', trees', r', S', ra', hR⟩ := this
        refine ⟨i', trees', r', S', ra', ?_⟩
        simpa using Reach.head s1 hR
    · next hemp =>
      split at h
      · cases h
      · next cc1 st1 heq =>
        simp only [Option.some.injEq, Prod.mk.injEq] at h
        obtain ⟨rfl, rfl, rfl⟩ := h
        unfold cachedCall at heq
        split at heq
        · next hcov =>
          simp only [Option.some.injEq, Prod.mk.injEq, true_and] at heq
          obtain ⟨rfl, rfl⟩ := heq
          exact ⟨i, trees, l, posSet (fun l => normS (maxElems o l [])) top.W top.choiceFunction i, ra, .fails w0,
            Reach.step (by simp [stepM, h1, h2, hi, hl, hl', hemp, hcov])⟩
        · next hcov =>
          split at heq
          · cases heq
          · next cc2 st2 hcall =>
            simp only [Option.some.injEq, Prod.mk.injEq, true_and] at heq
            obtain ⟨rfl, rfl⟩ := heq
            obtain ⟨_, hr⟩ := H _ _ _ _ _ _ _ hcall
            have s1 : stepM o A B wit popAll
                ⟨.forCfI, { top with i := i, trees := trees, childrenCache := cc }, K, ws, st, r, S, ra, .fails w0⟩
                = .inl ⟨.call, { top with i := i, trees := trees, childrenCache := cc }, K, ws, st, l,
                    posSet (fun l => normS (maxElems o l [])) top.W top.choiceFunction i, 1, .fails w0⟩ := by
              simp [stepM, h1, h2, hi, hl, hl', hemp, hcov]
            have s2 : stepM o A B wit popAll
                ⟨.ret, { top with i := i, trees := trees, childrenCache := cc }, K, ws, st2, l,
                    posSet (fun l => normS (maxElems o l [])) top.W top.choiceFunction i, 1, .holds⟩
                = .inl ⟨.stdret, { top with i := i, trees := trees, childrenCache := cc }, K, ws, st2, l,
                    posSet (fun l => normS (maxElems o l [])) top.W top.choiceFunction i, 1, .holds⟩ := by
              simp [stepM]
            have s3 : stepM o A B wit popAll
                ⟨.stdret, { top with i := i, trees := trees, childrenCache := cc }, K, ws, st2, l,
                    posSet (fun l => normS (maxElems o l [])) top.W top.choiceFunction i, 1, .holds⟩
                = .inl ⟨.nextchoice, { top with i := i, trees := trees, childrenCache := (cc.filter (fun x => !(o.leA x.1 l && setLe o
                        (posSet (fun l => normS (maxElems o l [])) top.W top.choiceFunction i) x.2)) ++
                      [(l, posSet (fun l => normS (maxElems o l [])) top.W top.choiceFunction i)]) }, K, ws, st2, l,
                    posSet (fun l => normS (maxElems o l [])) top.W top.choiceFunction i, 1, .holds⟩ := by
              simp [stepM]
            exact ⟨i, trees, _, _, _, _, Reach.head s1 ((hr _ K 1 _).trans (Reach.head s2 (Reach.step s3)))⟩
          · simp at heq
      · next w1 cc1 st1 heq =>
        unfold cachedCall at heq
        split at heq
        · simp at heq
        · next hcov =>
          split at heq
          · cases heq
          · simp at heq
          · next w2 cc2 st2 hcall =>
            simp only [Option.some.injEq, Prod.mk.injEq, Verdict.fails.injEq] at heq
            obtain ⟨rfl, rfl, rfl⟩ := heq
            obtain ⟨_, hr⟩ := H _ _ _ _ _ _ _ hcall
            obtain ⟨res0, hx, rfl⟩ := consT_eq_some h
            have s1 : stepM o A B wit popAll
                ⟨.forCfI, { top with i := i, trees := trees, childrenCache := cc }, K, ws, st, r, S, ra, .fails w0⟩
                = .inl ⟨.call, { top with i := i, trees := trees, childrenCache := cc }, K, ws, st, l,
                    posSet (fun l => normS (maxElems o l [])) top.W top.choiceFunction i, 1, .fails w0⟩ := by
              simp [stepM, h1, h2, hi, hl, hl', hemp, hcov]
            have s2 : stepM o A B wit popAll
                ⟨.ret, { top with i := i, trees := trees, childrenCache := cc }, K, ws, st2, l,
                    posSet (fun l => normS (maxElems o l [])) top.W top.choiceFunction i, 1, .fails w2⟩
                = .inl ⟨.stdret, { top with i := i, trees := trees, childrenCache := cc }, K, ws, st2, l,
                    posSet (fun l => normS (maxElems o l [])) top.W top.choiceFunction i, 1, .fails w2⟩ := by
              simp [stepM]
            have s3 : stepM o A B wit popAll
                ⟨.stdret, { top with i := i, trees := trees, childrenCache := cc }, K, ws, st2, l,
                    posSet (fun l => normS (maxElems o l [])) top.W top.choiceFunction i, 1, .fails w2⟩
                = .inl ⟨.forCfI, { top with i := i + 1, trees := w2 :: trees, childrenCache := cc }, K, ws,
                  ⟨niAdd o st2.nonIncl l (posSet (fun l => normS (maxElems o l [])) top.W top.choiceFunction i) w2,
                    st2.trues⟩, l, posSet (fun l => normS (maxElems o l [])) top.W top.choiceFunction i, 1,
                  .fails w2⟩ := by
              simp [stepM]
            have hR0 := Reach.head s1 ((hr _ K 1 _).trans (Reach.head s2 (Reach.step s3)))
            have := ih (i + 1) hd' cc _ (w2 :: trees) res0 cc' st' l
              (posSet (fun l => normS (maxElems o l [])) top.W top.choiceFunction i) 1 w2 hx
            cases res0 with
            | none =>
              obtain ⟨i', trees', r', S', ra', fnd', hR⟩ := this
              exact ⟨i', trees', r', S', ra', fnd', hR0.trans hR⟩
            | some ts =>
              obtain ⟨i', trees', r', S', ra', hR⟩ := this
              refine ⟨i', trees', r', S', ra', ?_⟩
              simpa using hR0.trans hR

/-! ### `ChoiceFunction::next` -/

theorem cfNext_last (n : Nat) (hn : 0 < n) :
    ∀ m, cfNext n (List.replicate m (n - 1)) = (false, List.replicate m 0)
  | 0 => rfl
  | m+1 => by
    have : n - 1 + 1 = n := by omega
    simp [List.replicate_succ, cfNext, this, cfNext_last n hn m]

theorem cfNext_carry (n : Nat) (hn : 0 < n) (j : Nat) (hj : j + 1 ≠ n) (cs : List Nat) :
    ∀ m, cfNext n (List.replicate m (n - 1) ++ j :: cs) = (true, List.replicate m 0 ++ (j + 1) :: cs)
  | 0 => by simp [cfNext, hj]
  | m+1 => by
    have : n - 1 + 1 = n := by omega
    simp [List.replicate_succ, cfNext, this, cfNext_carry n hn j hj cs m]

end
end InclDownStack
end Vata
