import Vata.Proofs.TimbukLayout
/-!
# The Timbuk parser on text the serializer did not write – file level (property C13)

A `Layout` describes a whole text: header lines (any subset of `Ops`, `Automaton`, `States`, `Final States`, in any
order, each at most once) with free white space, the `Transitions` line, transition lines in free layout (`TLine`), blank
lines everywhere, any white space except `\n` at the line ends (so `\r\n` line ends are included), with or without a
final line end.  `parseC_layout`: the parser returns exactly the sections that were written.
-/
namespace Vata.Timbuk
open Vata.T (splitDelim joinWith splitDelim_joinWith)

/-! ## header lines -/

inductive HKind | ops | aut | states | final
deriving DecidableEq, Repr

def HKind.kw : HKind → Str
  | .ops => kwOps
  | .aut => kwAutomaton
  | .states => kwStates
  | .final => kwFinal

/-- a header line: `pre keyword g1 w1 g2 w2 … post` (for `Final` the first word is `States`) -/
structure HLine where
  kind : HKind
  pre : Str
  gws : List (Str × Str)
  post : Str
deriving Repr

def HLine.text (l : HLine) : Str := layWords l.pre l.kind.kw l.gws l.post

/-- the words that follow the keyword in the section of `d`; the name is written as it is (nothing for the empty name) -/
def secWords (d : Desc) : HKind → List Str
  | .ops => d.symbols.map tokOf
  | .aut => if d.name.isEmpty then [] else [d.name]
  | .states => d.states
  | .final => kwStates :: d.final

structure HLine.Ok (l : HLine) (d : Desc) : Prop where
  pre : Blank l.pre
  post : Blank l.post
  gaps : ∀ p ∈ l.gws, Blank p.1 ∧ p.1 ≠ []
  words : l.gws.map (·.2) = secWords d l.kind

def PState.flag (st : PState) : HKind → Bool
  | .ops => st.opsP
  | .aut => st.autP
  | .states => st.statesP
  | .final => st.finalP

/-- what a header line of kind `k` written from `d` does to the parser state -/
def applyH (d : Desc) (k : HKind) (st : PState) : PState :=
  match k with
  | .ops => { st with opsP := true, d := { st.d with symbols := setInsertAll ltSym st.d.symbols d.symbols } }
  | .aut => { st with autP := true, d := { st.d with name := d.name } }
  | .states => { st with statesP := true, d := { st.d with states := setInsertAll ltStr st.d.states d.states } }
  | .final => { st with finalP := true, d := { st.d with final := setInsertAll ltStr st.d.final d.final } }

theorem kw_word (k : HKind) : Word k.kw := by
  cases k
  · exact kwOps_word
  · exact kwAutomaton_word
  · exact kwStates_word
  · exact kwFinal_word

theorem secWords_word {d : Desc} (h : WF d) (k : HKind) : ∀ w ∈ secWords d k, Word w := by
  intro w hw
  cases k with
  | ops =>
    obtain ⟨p, hp, rfl⟩ := List.mem_map.mp hw
    exact tokOf_word (h.symbols p hp).1.noWs
  | aut =>
    simp only [secWords] at hw
    split at hw
    · cases hw
    · rename_i hne
      rw [List.mem_singleton] at hw; subst hw
      exact ⟨by simpa using hne, h.name⟩
  | states => exact (h.states w hw).word
  | final =>
    rcases List.mem_cons.mp hw with hw | hw
    · subst hw; exact kwStates_word
    · exact (h.final w hw).word

theorem HLine.gapsOk {l : HLine} {d : Desc} (h : WF d) (hl : l.Ok d) : GapsOk l.gws := by
  intro p hp
  refine ⟨(hl.gaps p hp).1.allWs, (hl.gaps p hp).2, secWords_word h l.kind p.2 ?_⟩
  rw [← hl.words]
  exact List.mem_map.mpr ⟨p, hp, rfl⟩

theorem parseLines_hline {d : Desc} (h : WF d) {l : HLine} (hl : l.Ok d) (st : PState) (ls : List Str)
    (ht : st.areTrans = false) (hf : st.flag l.kind = false) :
    parseLines st (l.text :: ls) = parseLines (applyH d l.kind st) ls := by
  have hg := HLine.gapsOk h hl
  refine parseLines_header ls ht (trim_layWords_ne hl.pre.allWs hl.post.allWs (kw_word _) hg) ?_
  show stepHeader st l.text (trim (layWords l.pre l.kind.kw l.gws l.post)) = _
  rw [stepHeader_gaps st _ hl.pre.allWs hl.post.allWs (kw_word _) hg, hl.words]
  cases hk : l.kind with
  | ops =>
    rw [hk] at hf
    exact stepHeader_ops st _ hf h.symbols
  | aut =>
    rw [hk] at hf
    simp only [secWords, HKind.kw]
    by_cases hn : d.name.isEmpty = true
    · rw [if_pos hn, stepHeader_aut_noname st _ hf]
      have : d.name = [] := by simpa using hn
      simp [applyH, this]
    · rw [if_neg hn]
      exact stepHeader_aut st _ hf ⟨by simpa using hn, h.name⟩
  | states =>
    rw [hk] at hf
    exact stepHeader_states st _ hf h.states
  | final =>
    rw [hk] at hf
    exact stepHeader_final st _ hf h.final

theorem applyH_areTrans (d : Desc) (k : HKind) (st : PState) : (applyH d k st).areTrans = st.areTrans := by
  cases k <;> rfl

theorem applyH_flag_ne (d : Desc) {k k' : HKind} (st : PState) (h : k' ≠ k) :
    (applyH d k st).flag k' = st.flag k' := by
  cases k <;> cases k' <;> first | rfl | exact absurd rfl h

theorem parseLines_blanks {bs : List Str} (h : ∀ b ∈ bs, Blank b) (st : PState) (ls : List Str) :
    parseLines st (bs ++ ls) = parseLines st ls := by
  induction bs with
  | nil => rfl
  | cons b r ih =>
    have : trim b = [] := trim_allWs (h b List.mem_cons_self).allWs
    show parseLines st (b :: (r ++ ls)) = _
    rw [parseLines]
    simp only [this, if_true]
    exact ih (fun x hx => h x (List.mem_cons_of_mem _ hx))

/-- the text lines of a list of (blank lines before, line) -/
def withBlanks {α : Type} (text : α → Str) (l : List (List Str × α)) : List Str :=
  (l.map (fun p => p.1 ++ [text p.2])).flatten

theorem withBlanks_cons {α : Type} (text : α → Str) (p : List Str × α) (r : List (List Str × α)) (ls : List Str) :
    withBlanks text (p :: r) ++ ls = p.1 ++ (text p.2 :: (withBlanks text r ++ ls)) := by
  simp [withBlanks]

def foldH (d : Desc) (st : PState) (ks : List HKind) : PState := ks.foldl (fun s k => applyH d k s) st

theorem foldH_areTrans (d : Desc) (ks : List HKind) (st : PState) : (foldH d st ks).areTrans = st.areTrans := by
  induction ks generalizing st with
  | nil => rfl
  | cons k r ih =>
    show (foldH d (applyH d k st) r).areTrans = _
    rw [ih, applyH_areTrans]

/-- the header section: every line sets its section -/
theorem parseLines_hdr {d : Desc} (h : WF d) (ls : List Str) :
    ∀ (hdr : List (List Str × HLine)) (st : PState), st.areTrans = false →
      (∀ p ∈ hdr, (∀ b ∈ p.1, Blank b) ∧ p.2.Ok d) → (hdr.map (·.2.kind)).Nodup →
      (∀ p ∈ hdr, st.flag p.2.kind = false) →
      parseLines st (withBlanks HLine.text hdr ++ ls) = parseLines (foldH d st (hdr.map (·.2.kind))) ls := by
  intro hdr
  induction hdr with
  | nil => intro st _ _ _ _; rfl
  | cons p r ih =>
    intro st ht hok hnd hfl
    obtain ⟨hb, hl⟩ := hok p List.mem_cons_self
    rw [withBlanks_cons, parseLines_blanks hb, parseLines_hline h hl st _ ht (hfl p List.mem_cons_self)]
    have hnd' : p.2.kind ∉ r.map (·.2.kind) ∧ (r.map (·.2.kind)).Nodup := by
      simpa using hnd
    rw [ih (applyH d p.2.kind st) (by rw [applyH_areTrans]; exact ht)
      (fun q hq => hok q (List.mem_cons_of_mem _ hq)) hnd'.2 ?_]
    · rfl
    · intro q hq
      have hne : q.2.kind ≠ p.2.kind := by
        intro e
        exact hnd'.1 (e ▸ List.mem_map.mpr ⟨q, hq, rfl⟩)
      rw [applyH_flag_ne d st hne]
      exact hfl q (List.mem_cons_of_mem _ hq)

/-- the sections that were written, in closed form -/
theorem foldH_d (d : Desc) : ∀ (ks : List HKind) (st : PState), ks.Nodup →
    (foldH d st ks).d =
      { name := if HKind.aut ∈ ks then d.name else st.d.name
        symbols := if HKind.ops ∈ ks then setInsertAll ltSym st.d.symbols d.symbols else st.d.symbols
        states := if HKind.states ∈ ks then setInsertAll ltStr st.d.states d.states else st.d.states
        final := if HKind.final ∈ ks then setInsertAll ltStr st.d.final d.final else st.d.final
        trans := st.d.trans } := by
  intro ks
  induction ks with
  | nil => intro st _; rfl
  | cons k r ih =>
    intro st hnd
    have hnd' : k ∉ r ∧ r.Nodup := by simpa using hnd
    show (foldH d (applyH d k st) r).d = _
    rw [ih _ hnd'.2]
    cases k <;> simp [applyH, hnd'.1]

/-! ## the `Transitions` line and the transition section -/

theorem parseLines_transitions' (st : PState) {pre post : Str} (hpre : Blank pre) (hpost : Blank post) (ls : List Str)
    (ht : st.areTrans = false) :
    parseLines st ((pre ++ kwTransitions ++ post) :: ls) = parseLines { st with areTrans := true } ls := by
  have et : trim (pre ++ kwTransitions ++ post) = kwTransitions :=
    trim_pad _ hpre.allWs hpost.allWs kwTransitions_word.2.headOk kwTransitions_word.2.lastOk
  refine parseLines_header ls ht ?_ ?_
  · rw [et]; decide
  · rw [et]; exact stepHeader_transitions st _

theorem parseLines_tls (endBlanks : List Str) (he : ∀ b ∈ endBlanks, Blank b) :
    ∀ (tls : List (List Str × TLine)) (st : PState), st.areTrans = true →
      (∀ p ∈ tls, (∀ b ∈ p.1, Blank b) ∧ p.2.Ok) →
      parseLines st (withBlanks TLine.text tls ++ endBlanks) =
        .ok { st with d := { st.d with trans := setInsertAll ltTrans st.d.trans (tls.map (·.2.trans)) } } := by
  intro tls
  induction tls with
  | nil =>
    intro st _ _
    have := parseLines_blanks he st []
    simp only [List.append_nil] at this
    simp only [withBlanks, List.map_nil, List.flatten_nil, List.nil_append, this]
    rfl
  | cons p r ih =>
    intro st ht hok
    obtain ⟨hb, hl⟩ := hok p List.mem_cons_self
    have hne : trim p.2.text ≠ [] := by rw [TLine.trim_text hl]; exact TLine.core_ne
    rw [withBlanks_cons, parseLines_blanks hb,
      parseLines_transLine _ ht hne (stepTrans_tline st p.2.text hl),
      ih (addTrans st p.2.trans) ht (fun q hq => hok q (List.mem_cons_of_mem _ hq))]
    rfl

/-! ## the whole text -/

structure Layout where
  /-- header lines, each with the blank lines before it -/
  hdr : List (List Str × HLine)
  /-- blank lines before the `Transitions` line, the white space around the keyword -/
  trBlanks : List Str
  trPre : Str
  trPost : Str
  /-- transition lines, each with the blank lines before it -/
  tls : List (List Str × TLine)
  /-- blank lines at the end; `[[]]` is a text that ends with `\n`, `[]` one that does not -/
  endBlanks : List Str
deriving Repr

def Layout.kinds (F : Layout) : List HKind := F.hdr.map (·.2.kind)

def Layout.lines (F : Layout) : List Str :=
  withBlanks HLine.text F.hdr ++
    (F.trBlanks ++ ((F.trPre ++ kwTransitions ++ F.trPost) :: (withBlanks TLine.text F.tls ++ F.endBlanks)))

/-- the text: the lines joined by `\n` -/
def Layout.text (F : Layout) : Str := joinWith '\n' F.lines

/-- `F` is a layout of `d`: white space where white space is expected, every section at most once, the words of the
sections and the transitions are those of `d`, in the order of `d` -/
structure Layout.Ok (F : Layout) (d : Desc) : Prop where
  hdr : ∀ p ∈ F.hdr, (∀ b ∈ p.1, Blank b) ∧ p.2.Ok d
  nodup : F.kinds.Nodup
  trBlanks : ∀ b ∈ F.trBlanks, Blank b
  trPre : Blank F.trPre
  trPost : Blank F.trPost
  tls : ∀ p ∈ F.tls, (∀ b ∈ p.1, Blank b) ∧ p.2.Ok
  endBlanks : ∀ b ∈ F.endBlanks, Blank b
  trans : F.tls.map (·.2.trans) = d.trans

/-- what the parser returns: the sections that were written, as `std::set`s -/
def Layout.result (F : Layout) (d : Desc) : Desc where
  name := if HKind.aut ∈ F.kinds then d.name else []
  symbols := if HKind.ops ∈ F.kinds then norm ltSym d.symbols else []
  states := if HKind.states ∈ F.kinds then norm ltStr d.states else []
  final := if HKind.final ∈ F.kinds then norm ltStr d.final else []
  trans := norm ltTrans d.trans

theorem gapCat_noNl {gws : List (Str × Str)} (h : ∀ p ∈ gws, Blank p.1 ∧ NoWs p.2) : '\n' ∉ gapCat gws := by
  intro hc
  simp only [gapCat, List.mem_flatten, List.mem_map] at hc
  obtain ⟨_, ⟨p, hp, rfl⟩, hc⟩ := hc
  rcases List.mem_append.mp hc with hc | hc
  · exact (h p hp).1.noNl hc
  · exact nl_not_noWs (h p hp).2 hc

theorem HLine.text_noNl {l : HLine} {d : Desc} (h : WF d) (hl : l.Ok d) : '\n' ∉ l.text := by
  have hg := HLine.gapsOk h hl
  intro hc
  simp only [HLine.text, layWords, List.mem_append] at hc
  rcases hc with (hc | hc | hc) | hc
  · exact hl.pre.noNl hc
  · exact nl_not_noWs (kw_word _).2 hc
  · exact gapCat_noNl (fun p hp => ⟨(hl.gaps p hp).1, (hg p hp).2.2.2⟩) hc
  · exact hl.post.noNl hc

theorem withBlanks_noNl {α : Type} (text : α → Str) {l : List (List Str × α)}
    (h : ∀ p ∈ l, (∀ b ∈ p.1, Blank b) ∧ '\n' ∉ text p.2) : ∀ x ∈ withBlanks text l, '\n' ∉ x := by
  intro x hx
  simp only [withBlanks, List.mem_flatten, List.mem_map] at hx
  obtain ⟨_, ⟨p, hp, rfl⟩, hx⟩ := hx
  rcases List.mem_append.mp hx with hx | hx
  · exact ((h p hp).1 x hx).noNl
  · rw [List.mem_singleton] at hx; subst hx; exact (h p hp).2

theorem Layout.lines_noNl {F : Layout} {d : Desc} (h : WF d) (hF : F.Ok d) : ∀ x ∈ F.lines, '\n' ∉ x := by
  intro x hx
  simp only [Layout.lines, List.mem_append, List.mem_cons] at hx
  rcases hx with hx | hx | hx | hx | hx
  · exact withBlanks_noNl _ (fun p hp => ⟨(hF.hdr p hp).1, HLine.text_noNl h (hF.hdr p hp).2⟩) x hx
  · exact (hF.trBlanks x hx).noNl
  · subst hx
    intro hc
    simp only [List.mem_append] at hc
    rcases hc with (hc | hc) | hc
    · exact hF.trPre.noNl hc
    · revert hc; decide
    · exact hF.trPost.noNl hc
  · exact withBlanks_noNl _ (fun p hp => ⟨(hF.tls p hp).1, TLine.text_noNl (hF.tls p hp).2⟩) x hx
  · exact (hF.endBlanks x hx).noNl

theorem Layout.lines_ne (F : Layout) : F.lines ≠ [] := by
  simp [Layout.lines]

theorem flag_init (k : HKind) : ({} : PState).flag k = false := by
  cases k <;> rfl

/-- **the parser on any layout of `d`**: it succeeds and returns the sections that were written -/
theorem parseC_layout (d : Desc) (h : WF d) (F : Layout) (hF : F.Ok d) : parseC F.text = .ok (F.result d) := by
  unfold parseC Layout.text
  rw [splitDelim_joinWith '\n' _ F.lines_ne (fun p hp => Layout.lines_noNl h hF p hp)]
  unfold Layout.lines
  rw [parseLines_hdr h _ F.hdr {} rfl hF.hdr hF.nodup (fun _ _ => flag_init _),
    parseLines_blanks hF.trBlanks, parseLines_transitions' _ hF.trPre hF.trPost _ (by rw [foldH_areTrans]),
    parseLines_tls _ hF.endBlanks _ _ rfl hF.tls]
  simp only [if_true]
  have hd := foldH_d d F.kinds {} hF.nodup
  unfold Layout.kinds at hd
  rw [hd, hF.trans]
  rfl

/-! ## the layouts of what the serializer writes -/

/-- the tokens the serializer writes for `d`: `anonymous` for the empty name, the sections in `std::set` order -/
def serTokens (d : Desc) : Desc where
  name := if d.name.isEmpty then kwAnonymous else d.name
  symbols := norm ltSym d.symbols
  states := norm ltStr d.states
  final := norm ltStr d.final
  trans := norm ltTrans d.trans

theorem serTokens_wf {d : Desc} (h : WF d) : WF (serTokens d) where
  name := by
    show NoWs (if d.name.isEmpty then kwAnonymous else d.name)
    split
    · exact kwAnonymous_word.2
    · exact h.name
  symbols := fun p hp => h.symbols p ((mem_norm _ _ _).mp hp)
  states := fun p hp => h.states p ((mem_norm _ _ _).mp hp)
  final := fun p hp => h.final p ((mem_norm _ _ _).mp hp)
  trans := fun p hp => h.trans p ((mem_norm _ _ _).mp hp)

/-- a layout with all four sections returns what parsing the serializer's own text returns -/
theorem layout_result_full (d : Desc) (F : Layout) (hall : ∀ k, k ∈ F.kinds) :
    F.result (serTokens d) = roundTrip d := by
  simp [Layout.result, hall, serTokens, roundTrip]

/-- **layout insensitivity**: every layout of the serializer's tokens with all four sections parses to what the
serializer's text parses to -/
theorem parseC_layout_serialize (d : Desc) (h : WF d) (F : Layout) (hF : F.Ok (serTokens d)) (hall : ∀ k, k ∈ F.kinds) :
    parseC F.text = parseC (serializeC d) := by
  rw [parseC_layout _ (serTokens_wf h) F hF, layout_result_full d F hall, parseC_serializeC d h]

/-! ## nullary rules with and without parentheses -/

/-- rewrite a nullary line: `none` – no parentheses; `some (a, i)` – `sym a ( i )`; other lines are left alone -/
def TLine.withParens (c : Option (Str × Str)) (l : TLine) : TLine :=
  if l.kids = [] then { l with args := c.map (fun p => (p.1, p.2, [])) } else l

theorem TLine.withParens_trans (c : Option (Str × Str)) (l : TLine) : (l.withParens c).trans = l.trans := by
  unfold TLine.withParens
  split
  · rename_i hk
    cases c <;> simp [TLine.trans, TLine.kids] <;> exact hk
  · rfl

theorem TLine.withParens_ok {c : Option (Str × Str)} {l : TLine} (hc : ∀ p, c = some p → Blank p.1 ∧ Blank p.2)
    (h : l.Ok) : (l.withParens c).Ok := by
  unfold TLine.withParens
  split
  · refine ⟨h.pre, h.post, h.beforeArrow, h.afterArrow, h.sym, h.par, ?_⟩
    intro a i ks ha
    cases c with
    | none => simp at ha
    | some p =>
      simp only [Option.map_some, Option.some.injEq, Prod.mk.injEq] at ha
      obtain ⟨rfl, rfl, rfl⟩ := ha
      exact ⟨(hc p rfl).1, (hc p rfl).2, fun k hk => by cases hk⟩
  · exact h

/-- choose the spelling of every nullary line anew -/
def Layout.reparen (c : TLine → Option (Str × Str)) (F : Layout) : Layout :=
  { F with tls := F.tls.map (fun p => (p.1, p.2.withParens (c p.2))) }

theorem Layout.reparen_ok {c : TLine → Option (Str × Str)} {F : Layout} {d : Desc}
    (hc : ∀ l p, c l = some p → Blank p.1 ∧ Blank p.2) (h : F.Ok d) : (F.reparen c).Ok d := by
  refine ⟨h.hdr, h.nodup, h.trBlanks, h.trPre, h.trPost, ?_, h.endBlanks, ?_⟩
  · intro p hp
    simp only [Layout.reparen, List.mem_map] at hp
    obtain ⟨q, hq, rfl⟩ := hp
    exact ⟨(h.tls q hq).1, TLine.withParens_ok (hc q.2) (h.tls q hq).2⟩
  · rw [← h.trans]
    simp [Layout.reparen, TLine.withParens_trans]

/-- **nullary rules**: however the nullary rules of a layout are respelled – `a`, `a()`, `a( )`, `a ()`, with any
blanks / tabs before and inside the parentheses – the text parses to the same description -/
theorem parseC_reparen (d : Desc) (h : WF d) (F : Layout) (hF : F.Ok d) (c : TLine → Option (Str × Str))
    (hc : ∀ l p, c l = some p → Blank p.1 ∧ Blank p.2) : parseC (F.reparen c).text = parseC F.text := by
  rw [parseC_layout d h F hF, parseC_layout d h _ (Layout.reparen_ok hc hF)]
  rfl

/-! ## executable check of `Layout.Ok` (for examples) -/

def blankB (s : Str) : Bool := s.all (fun c => isSpace c && c != '\n')

theorem blank_of_blankB {s : Str} (h : blankB s = true) : Blank s := by
  intro c hc
  have := List.all_eq_true.mp h c hc
  simpa using this

def HLine.okB (l : HLine) (d : Desc) : Bool :=
  blankB l.pre && blankB l.post && l.gws.all (fun p => blankB p.1 && !p.1.isEmpty) &&
    decide (l.gws.map (·.2) = secWords d l.kind)

theorem HLine.ok_of_okB {l : HLine} {d : Desc} (h : l.okB d = true) : l.Ok d := by
  simp only [HLine.okB, Bool.and_eq_true, List.all_eq_true, decide_eq_true_eq, Bool.not_eq_true',
    List.isEmpty_eq_false_iff] at h
  obtain ⟨⟨⟨h1, h2⟩, h3⟩, h4⟩ := h
  exact ⟨blank_of_blankB h1, blank_of_blankB h2, fun p hp => ⟨blank_of_blankB (h3 p hp).1, (h3 p hp).2⟩, h4⟩

def TLine.okB (l : TLine) : Bool :=
  blankB l.pre && blankB l.post && blankB l.beforeArrow && blankB l.afterArrow && goodName l.sym && goodName l.par &&
    (match l.args with
     | none => true
     | some (a, i, ks) => blankB a && blankB i && ks.all (fun k => blankB k.1 && goodName k.2.1 && blankB k.2.2))

theorem TLine.ok_of_okB {l : TLine} (h : l.okB = true) : l.Ok := by
  simp only [TLine.okB, Bool.and_eq_true] at h
  obtain ⟨⟨⟨⟨⟨⟨h1, h2⟩, h3⟩, h4⟩, h5⟩, h6⟩, h7⟩ := h
  refine ⟨blank_of_blankB h1, blank_of_blankB h2, blank_of_blankB h3, blank_of_blankB h4, good_of_goodName h5,
    good_of_goodName h6, ?_⟩
  intro a i ks ha
  rw [ha] at h7
  simp only [Bool.and_eq_true, List.all_eq_true] at h7
  exact ⟨blank_of_blankB h7.1.1, blank_of_blankB h7.1.2,
    fun k hk => ⟨blank_of_blankB (h7.2 k hk).1.1, good_of_goodName (h7.2 k hk).1.2, blank_of_blankB (h7.2 k hk).2⟩⟩

def nodupB {α : Type} [DecidableEq α] : List α → Bool
  | [] => true
  | a :: r => !r.contains a && nodupB r

theorem nodup_of_nodupB {α : Type} [DecidableEq α] : ∀ {l : List α}, nodupB l = true → l.Nodup
  | [], _ => List.nodup_nil
  | a :: r, h => by
    simp only [nodupB, Bool.and_eq_true, Bool.not_eq_true', List.contains_eq_mem, decide_eq_false_iff_not] at h
    exact List.nodup_cons.mpr ⟨h.1, nodup_of_nodupB h.2⟩

def Layout.okB (F : Layout) (d : Desc) : Bool :=
  F.hdr.all (fun p => p.1.all blankB && p.2.okB d) && nodupB F.kinds && F.trBlanks.all blankB && blankB F.trPre &&
    blankB F.trPost && F.tls.all (fun p => p.1.all blankB && p.2.okB) && F.endBlanks.all blankB &&
    decide (F.tls.map (·.2.trans) = d.trans)

theorem Layout.ok_of_okB {F : Layout} {d : Desc} (h : F.okB d = true) : F.Ok d := by
  simp only [Layout.okB, Bool.and_eq_true, List.all_eq_true, decide_eq_true_eq] at h
  obtain ⟨⟨⟨⟨⟨⟨⟨h1, h2⟩, h3⟩, h4⟩, h5⟩, h6⟩, h7⟩, h8⟩ := h
  exact ⟨fun p hp => ⟨fun b hb => blank_of_blankB ((h1 p hp).1 b hb), HLine.ok_of_okB (h1 p hp).2⟩,
    nodup_of_nodupB h2, fun b hb => blank_of_blankB (h3 b hb), blank_of_blankB h4, blank_of_blankB h5,
    fun p hp => ⟨fun b hb => blank_of_blankB ((h6 p hp).1 b hb), TLine.ok_of_okB (h6 p hp).2⟩,
    fun b hb => blank_of_blankB (h7 b hb), h8⟩

end Vata.Timbuk
