import Vata.Lang
import Vata.NfaEmbed
import Vata.Ref
import Vata.Proofs.TrimAux
import Vata.Proofs.PropAux
import Vata.Proofs.SatTotal
/-!
# Totality of the multi-automaton profile engine `forallTrees` and of every decider built on it

`msat As fuel P` (`Vata/Multi.lean`) closes a list of profiles (tuples of state sets, one per automaton) under all
symbols of the joint alphabet; one unit of fuel is one round.  It is an instance of the generic loop `Total.gsat`
(`msat_eq`), so by `Total.gsat_isSome`:

* a round that does not stop represents at least one new class of profiles (no round wastes fuel);
* every profile the loop ever stores is the profile of a tree (`MGen`, the invariant already used for soundness), and
  the state set of a tree in `A` only contains *parents of rules* of `A` (`reach_sub_parents`);
* hence the list `allProfs As` of all tuples of subsets of the parent states represents everything the loop can
  produce, and `fuelBoundM As = ∏ 2^|parents Aᵢ| = (allProfs As).length` rounds always suffice
  (`msat_total`, `forallTrees_total`).

`parents A` ⊆ `A.states`, so `fuelBoundM As ≤ 2^(Σ |states Aᵢ|)` (`fuelBoundM_le_states`): the bound announced in the
task, slightly sharpened (states that occur only as children or only in the final set do not count).

A semantic variant is also proved: *any* list that represents the profile of every tree bounds the number of rounds by its
length (`msat_total_of_cover`), i.e. the loop needs at most as many rounds as there are classes of reachable profiles.

The corollaries give, for every decider of `Vata/Lang.lean` and `Vata/NfaEmbed.lean`, `…_total` (a verdict is returned)
and `…_decides` (the verdict returned is the language statement) for every fuel above the bound.
-/
namespace Vata
open Vata.Total

namespace Total

/-! ### the states a run can reach: parents of rules -/

/-- the states that occur as the parent of a rule, each once -/
def parents (A : TA) : List Nat := dedupL (A.rules.map (·.parent))

theorem nodup_parents (A : TA) : (parents A).Nodup := PropAux.nodup_unionL _ [] List.nodup_nil

theorem mem_parents {A : TA} {q : Nat} : q ∈ parents A ↔ ∃ r, r ∈ A.rules ∧ r.parent = q := by
  unfold parents
  rw [mem_dedupL, List.mem_map]

theorem post_sub_parents (A : TA) (f : Nat) (ss : List (List Nat)) : ∀ q, q ∈ post A f ss → q ∈ parents A := by
  intro q hq
  obtain ⟨r, hr, _, _, hp⟩ := mem_post'.mp hq
  exact mem_parents.mpr ⟨r, hr, hp⟩

theorem reach_sub_parents (A : TA) : ∀ (t : Tree) (q : Nat), q ∈ reach A t → q ∈ parents A
  | .node f ts, q, hq => by
    rw [reach] at hq
    exact post_sub_parents A f _ q hq

/-- any list containing the parent of every rule is at least as long as `parents A` -/
theorem parents_length_le_of_subset (A : TA) (S : List Nat) (h : ∀ r, r ∈ A.rules → r.parent ∈ S) :
    (parents A).length ≤ S.length := by
  apply List.Nodup.length_le_of_subset (nodup_parents A)
  intro q hq
  obtain ⟨r, hr, rfl⟩ := mem_parents.mp hq
  exact h r hr

theorem parents_length_le_states (A : TA) : (parents A).length ≤ A.states.length :=
  parents_length_le_of_subset A A.states (fun r hr => mem_states.mpr (Or.inr ⟨r, hr, Or.inl rfl⟩))

theorem parents_length_le_rules (A : TA) : (parents A).length ≤ A.rules.length := by
  have := parents_length_le_of_subset A (A.rules.map (·.parent)) (fun r hr => List.mem_map.mpr ⟨r, hr, rfl⟩)
  simpa using this

/-! ### the universe of profiles -/

/-- all tuples of subsets of the parent states -/
def allProfs : List TA → List MProf
  | [] => [[]]
  | A :: As => (subs (parents A)).flatMap (fun s => (allProfs As).map (fun p => s :: p))

theorem allProfs_cover : ∀ (As : List TA) (t : Tree), ∃ u, u ∈ allProfs As ∧ MProfEq u (mprofOf As t)
  | [], _ => ⟨[], List.mem_singleton.mpr rfl, All2.nil⟩
  | A :: As, t => by
    obtain ⟨s, hs, hse⟩ := subs_cover (parents A) (reach A t) (reach_sub_parents A t)
    obtain ⟨u, hu, hue⟩ := allProfs_cover As t
    refine ⟨s :: u, ?_, ?_⟩
    · simp only [allProfs, List.mem_flatMap, List.mem_map]
      exact ⟨s, hs, u, hu, rfl⟩
    · show MProfEq (s :: u) (reach A t :: mprofOf As t)
      exact All2.cons hse hue

/-! ### `msat` is an instance of the generic loop -/

theorem mprofEqB_isEqv : IsEqv mprofEqB where
  refl := fun a => mprofEqB_iff.mpr (All2.refl_setEq a)
  symm := fun _ _ h => mprofEqB_iff.mpr (MProfEq.symm (mprofEqB_iff.mp h))
  trans := fun _ _ _ h h' => mprofEqB_iff.mpr (MProfEq.trans (mprofEqB_iff.mp h) (mprofEqB_iff.mp h'))

theorem mmemP_eq (P : List MProf) (p : MProf) : mmemP P p = gmem mprofEqB P p := rfl

theorem maddNew_eq : ∀ (N P : List MProf), maddNew P N = gaddNew mprofEqB P N
  | [], _ => rfl
  | p :: ps, P => by
    simp only [maddNew, gaddNew, mmemP_eq, maddNew_eq ps]

theorem mclosedB_eq (As : List TA) (P : List MProf) : mclosedB As P = gclosed mprofEqB (mstep As) P := rfl

theorem msat_eq (As : List TA) : ∀ (fuel : Nat) (P : List MProf), msat As fuel P = gsat mprofEqB (mstep As) fuel P
  | 0, P => by
    rw [msat, gsat, mclosedB_eq]
  | n+1, P => by
    rw [msat, gsat, mclosedB_eq, maddNew_eq, msat_eq As n]

/-- **the loop terminates within the number of unrepresented classes of reachable profiles**: `L` may be any list that
represents the profile of every tree -/
theorem msat_isSome_of_cover (As : List TA) (L : List MProf)
    (hL : ∀ t, ∃ u, u ∈ L ∧ MProfEq u (mprofOf As t)) (fuel : Nat) (P : List MProf) (hP : MGen As P)
    (h : uncov mprofEqB L P ≤ fuel) : (msat As fuel P).isSome = true := by
  rw [msat_eq]
  refine gsat_isSome mprofEqB_isEqv (mstep As) L (MGen As) ?_ ?_ fuel P hP h
  · intro Q hQ
    rw [← maddNew_eq]
    exact mgen_addNew As Q _ hQ (mgen_step As Q hQ)
  · intro Q hQ p hp
    obtain ⟨t, ht⟩ := mgen_step As Q hQ p hp
    obtain ⟨u, hu, hut⟩ := hL t
    exact ⟨u, hu, mprofEqB_iff.mpr (hut.trans ht.symm)⟩

theorem mgen_nil (As : List TA) : MGen As [] := by intro p hp; cases hp

end Total

/-! ### the fuel bound -/

/-- `∏ 2^|parents Aᵢ|`: the number of tuples of sets of states that can head a rule -/
def fuelBoundM : List TA → Nat
  | [] => 1
  | A :: As => 2 ^ (Total.parents A).length * fuelBoundM As

theorem Total.length_allProfs : ∀ (As : List TA), (allProfs As).length = fuelBoundM As
  | [] => rfl
  | A :: As => by
    simp only [allProfs, fuelBoundM]
    rw [length_flatMap_map (fun s p => s :: p) (allProfs As) (subs (parents A)), length_subs,
      Total.length_allProfs As]

theorem fuelBoundM_eq_pow : ∀ (As : List TA), fuelBoundM As = 2 ^ (As.map (fun A => (Total.parents A).length)).sum
  | [] => rfl
  | A :: As => by
    simp only [fuelBoundM, List.map_cons, List.sum_cons, Nat.pow_add, fuelBoundM_eq_pow As]

theorem Total.sum_parents_le_states : ∀ (As : List TA),
    (As.map (fun A => (parents A).length)).sum ≤ (As.map (fun A => A.states.length)).sum
  | [] => Nat.le_refl _
  | A :: As => by
    simp only [List.map_cons, List.sum_cons]
    exact Nat.add_le_add (parents_length_le_states A) (Total.sum_parents_le_states As)

/-- the bound of the task: at most the product of `2^|states Aᵢ|` -/
theorem fuelBoundM_le_states (As : List TA) : fuelBoundM As ≤ 2 ^ (As.map (fun A => A.states.length)).sum := by
  rw [fuelBoundM_eq_pow]
  exact Nat.pow_le_pow_right (by decide) (Total.sum_parents_le_states As)

/-- a numeric form: if the automata have at most `n` states altogether, `2^n` rounds suffice -/
theorem fuelBoundM_le_of_states (As : List TA) (n : Nat) (h : (As.map (fun A => A.states.length)).sum ≤ n) :
    fuelBoundM As ≤ 2 ^ n :=
  Nat.le_trans (fuelBoundM_le_states As) (Nat.pow_le_pow_right (by decide) h)

theorem fuelBoundM_pos : ∀ (As : List TA), 0 < fuelBoundM As
  | [] => by decide
  | A :: As => by
    simp only [fuelBoundM]
    exact Nat.mul_pos (Nat.pow_pos (by decide)) (fuelBoundM_pos As)

/-! ### totality of the engine -/

/-- semantic bound: the saturation needs at most as many rounds as a list representing all tree profiles is long -/
theorem msat_total_of_cover (As : List TA) (L : List MProf)
    (hL : ∀ t, ∃ u, u ∈ L ∧ MProfEq u (mprofOf As t)) (fuel : Nat) (h : L.length ≤ fuel) :
    (msat As fuel []).isSome = true :=
  msat_isSome_of_cover As L hL fuel [] (mgen_nil As) (Nat.le_trans (uncov_le_length _ _ _) h)

theorem msat_total (As : List TA) (fuel : Nat) (h : fuelBoundM As ≤ fuel) : (msat As fuel []).isSome = true :=
  msat_total_of_cover As (allProfs As) (allProfs_cover As) fuel (by rw [Total.length_allProfs]; exact h)

/-- **Totality of the engine**: above the bound `forallTrees` never returns `none` -/
theorem forallTrees_total (As : List TA) (φ : List Bool → Bool) (fuel : Nat) (h : fuelBoundM As ≤ fuel) :
    (forallTrees As φ fuel).isSome = true := by
  unfold forallTrees
  rw [Option.isSome_map]
  exact msat_total As fuel h

/-- semantic variant of `forallTrees_total` -/
theorem forallTrees_total_of_cover (As : List TA) (φ : List Bool → Bool) (L : List MProf)
    (hL : ∀ t, ∃ u, u ∈ L ∧ MProfEq u (mprofOf As t)) (fuel : Nat) (h : L.length ≤ fuel) :
    (forallTrees As φ fuel).isSome = true := by
  unfold forallTrees
  rw [Option.isSome_map]
  exact msat_total_of_cover As L hL fuel h

/-- from "returns something" and "everything returned is exact" to "returns the exact verdict" -/
theorem Total.decides {o : Option Bool} {Q : Prop} (hs : o.isSome = true) (hi : ∀ b, o = some b → (b = true ↔ Q)) :
    ∃ b, o = some b ∧ (b = true ↔ Q) := by
  cases o with
  | none => cases hs
  | some b => exact ⟨b, rfl, hi b rfl⟩

/-- the same, as the two verdicts -/
theorem Total.verdicts {o : Option Bool} {Q : Prop} (h : ∃ b, o = some b ∧ (b = true ↔ Q)) :
    (Q → o = some true) ∧ (¬ Q → o = some false) := by
  obtain ⟨b, hb, hq⟩ := h
  subst hb
  cases b
  · exact ⟨fun q => absurd (hq.mpr q) (by simp), fun _ => rfl⟩
  · exact ⟨fun _ => rfl, fun nq => absurd (hq.mp rfl) nq⟩

theorem forallTrees_decides (As : List TA) (φ : List Bool → Bool) (fuel : Nat) (h : fuelBoundM As ≤ fuel) :
    ∃ b, forallTrees As φ fuel = some b ∧ (b = true ↔ ∀ t, φ (As.map (fun A => accepts A t)) = true) :=
  Total.decides (forallTrees_total As φ fuel h) (fun b hb => forallTrees_iff As φ fuel b hb)

/-- more fuel never changes a verdict of the engine -/
theorem forallTrees_fuel_mono (As : List TA) (φ : List Bool → Bool) (fuel : Nat) (b : Bool)
    (h : forallTrees As φ fuel = some b) : forallTrees As φ (fuel + 1) = some b := by
  simp only [forallTrees, Option.map_eq_some_iff] at h ⊢
  obtain ⟨R, hR, hb⟩ := h
  refine ⟨R, ?_, hb⟩
  rw [msat_eq] at hR ⊢
  exact gsat_mono _ _ _ _ hR

/-! ### the tree deciders of `Vata/Lang.lean` -/

theorem inclM_total (A B : TA) (fuel : Nat) (h : fuelBoundM [A, B] ≤ fuel) : (inclM A B fuel).isSome = true :=
  forallTrees_total _ _ _ h

theorem inclM_decides (A B : TA) (fuel : Nat) (h : fuelBoundM [A, B] ≤ fuel) :
    ∃ b, inclM A B fuel = some b ∧ (b = true ↔ Incl A B) :=
  Total.decides (inclM_total A B fuel h) (fun b hb => inclM_iff A B fuel b hb)

theorem equivM_total (A B : TA) (fuel : Nat) (h : fuelBoundM [A, B] ≤ fuel) : (equivM A B fuel).isSome = true :=
  forallTrees_total _ _ _ h

theorem equivM_decides (A B : TA) (fuel : Nat) (h : fuelBoundM [A, B] ≤ fuel) :
    ∃ b, equivM A B fuel = some b ∧ (b = true ↔ LangEq A B) :=
  Total.decides (equivM_total A B fuel h) (fun b hb => equivM_iff A B fuel b hb)

theorem emptyM_total (A : TA) (fuel : Nat) (h : fuelBoundM [A] ≤ fuel) : (emptyM A fuel).isSome = true :=
  forallTrees_total _ _ _ h

theorem emptyM_decides (A : TA) (fuel : Nat) (h : fuelBoundM [A] ≤ fuel) :
    ∃ b, emptyM A fuel = some b ∧ (b = true ↔ LangEmpty A) :=
  Total.decides (emptyM_total A fuel h) (fun b hb => emptyM_iff A fuel b hb)

theorem isUnionM_total (U A B : TA) (fuel : Nat) (h : fuelBoundM [U, A, B] ≤ fuel) :
    (isUnionM U A B fuel).isSome = true :=
  forallTrees_total _ _ _ h

theorem isUnionM_decides (U A B : TA) (fuel : Nat) (h : fuelBoundM [U, A, B] ≤ fuel) :
    ∃ b, isUnionM U A B fuel = some b ∧ (b = true ↔ ∀ t, accepts U t = (accepts A t || accepts B t)) :=
  Total.decides (isUnionM_total U A B fuel h) (fun b hb => isUnionM_iff U A B fuel b hb)

theorem isIsectM_total (P A B : TA) (fuel : Nat) (h : fuelBoundM [P, A, B] ≤ fuel) :
    (isIsectM P A B fuel).isSome = true :=
  forallTrees_total _ _ _ h

theorem isIsectM_decides (P A B : TA) (fuel : Nat) (h : fuelBoundM [P, A, B] ≤ fuel) :
    ∃ b, isIsectM P A B fuel = some b ∧ (b = true ↔ ∀ t, accepts P t = (accepts A t && accepts B t)) :=
  Total.decides (isIsectM_total P A B fuel h) (fun b hb => isIsectM_iff P A B fuel b hb)

/-- the bound of the complement check, with the alphabet argument: the third automaton is `univ Sg` -/
def fuelBoundCompl (C A : TA) (Sg : List (Nat × Nat)) : Nat := fuelBoundM [C, A, univ Sg]

theorem isComplM_total (C A : TA) (Sg : List (Nat × Nat)) (fuel : Nat) (h : fuelBoundCompl C A Sg ≤ fuel) :
    (isComplM C A Sg fuel).isSome = true :=
  forallTrees_total _ _ _ h

theorem isComplM_decides (C A : TA) (Sg : List (Nat × Nat)) (fuel : Nat) (h : fuelBoundCompl C A Sg ≤ fuel) :
    ∃ b, isComplM C A Sg fuel = some b ∧
      (b = true ↔ ∀ t, (overSig Sg t = true → accepts C t = !accepts A t) ∧
        (overSig Sg t = false → accepts C t = false)) :=
  Total.decides (isComplM_total C A Sg fuel h) (fun b hb => isComplM_iff C A Sg fuel b hb)

/-- the universal automaton has one state, so the alphabet costs a factor of at most `2` whatever its size -/
theorem Total.parents_univ_le (Sg : List (Nat × Nat)) : (parents (univ Sg)).length ≤ 1 := by
  have := parents_length_le_of_subset (univ Sg) [0] (by
    intro r hr
    simp only [univ, List.mem_map] at hr
    obtain ⟨fa, _, rfl⟩ := hr
    simp)
  simpa using this

theorem fuelBoundCompl_le (C A : TA) (Sg : List (Nat × Nat)) :
    fuelBoundCompl C A Sg ≤ 2 ^ ((Total.parents C).length + (Total.parents A).length + 1) := by
  unfold fuelBoundCompl
  rw [fuelBoundM_eq_pow]
  apply Nat.pow_le_pow_right (by decide)
  simp only [List.map_cons, List.map_nil, List.sum_cons, List.sum_nil]
  have := Total.parents_univ_le Sg
  omega

theorem fuelBoundCompl_le_states (C A : TA) (Sg : List (Nat × Nat)) :
    fuelBoundCompl C A Sg ≤ 2 ^ (C.states.length + A.states.length + 1) := by
  apply Nat.le_trans (fuelBoundCompl_le C A Sg)
  apply Nat.pow_le_pow_right (by decide)
  have h1 := Total.parents_length_le_states C
  have h2 := Total.parents_length_le_states A
  omega

/-! ### the word deciders of `Vata/NfaEmbed.lean` -/
open Vata.W

/-- the states a word can reach: start states and targets of transitions -/
def Total.nfaTargets (N : NFA) : List Nat := dedupL (N.start ++ N.trans.map (·.2.2))

theorem Total.parents_toTA (N : NFA) : parents (toTA N) = nfaTargets N := by
  unfold parents nfaTargets toTA
  simp only [List.map_append, List.map_map]
  congr 2
  · induction N.start with
    | nil => rfl
    | cons a l ih => simp only [List.map_cons, Function.comp_apply, ih]

/-- the bound for word automata: `∏ 2^|start ∪ targets of Nᵢ|` -/
def fuelBoundW (Ns : List NFA) : Nat := fuelBoundM (Ns.map toTA)

theorem fuelBoundW_eq_pow (Ns : List NFA) :
    fuelBoundW Ns = 2 ^ (Ns.map (fun N => (Total.nfaTargets N).length)).sum := by
  unfold fuelBoundW
  rw [fuelBoundM_eq_pow, List.map_map]
  congr 2
  apply List.map_congr_left
  intro N _
  simp only [Function.comp_apply, Total.parents_toTA]

theorem Total.nfaTargets_length_le (N : NFA) : (nfaTargets N).length ≤ N.start.length + N.trans.length := by
  have := parents_length_le_rules (toTA N)
  rw [Total.parents_toTA] at this
  simpa [toTA] using this

/-- any list containing the start states and the transition targets is at least as long -/
theorem Total.nfaTargets_length_le_of_subset (N : NFA) (S : List Nat) (h1 : ∀ q, q ∈ N.start → q ∈ S)
    (h2 : ∀ e, e ∈ N.trans → e.2.2 ∈ S) : (nfaTargets N).length ≤ S.length := by
  rw [← Total.parents_toTA]
  apply parents_length_le_of_subset
  intro r hr
  simp only [toTA, List.mem_append, List.mem_map] at hr
  rcases hr with ⟨q, hq, rfl⟩ | ⟨e, he, rfl⟩
  · exact h1 q hq
  · exact h2 e he

theorem forallWords_total (Ns : List NFA) (φ : List Bool → Bool) (fuel : Nat) (h : fuelBoundW Ns ≤ fuel) :
    (forallWords Ns φ fuel).isSome = true :=
  forallTrees_total _ _ _ h

theorem forallWords_decides (Ns : List NFA) (φ : List Bool → Bool) (fuel : Nat) (h : fuelBoundW Ns ≤ fuel) :
    ∃ b, forallWords Ns φ fuel = some b ∧
      (b = true ↔ (∀ w, φ (Ns.map (fun N => acceptsW N w)) = true) ∧ φ (Ns.map (fun _ => false)) = true) :=
  Total.decides (forallWords_total Ns φ fuel h) (fun b hb => forallWords_iff Ns φ fuel b hb)

theorem inclW_total (A B : NFA) (fuel : Nat) (h : fuelBoundW [A, B] ≤ fuel) : (inclW A B fuel).isSome = true :=
  forallWords_total _ _ _ h

theorem inclW_decides (A B : NFA) (fuel : Nat) (h : fuelBoundW [A, B] ≤ fuel) :
    ∃ b, inclW A B fuel = some b ∧ (b = true ↔ InclW A B) :=
  Total.decides (inclW_total A B fuel h) (fun b hb => inclW_iff A B fuel b hb)

theorem equivW_total (A B : NFA) (fuel : Nat) (h : fuelBoundW [A, B] ≤ fuel) : (equivW A B fuel).isSome = true :=
  forallWords_total _ _ _ h

theorem equivW_decides (A B : NFA) (fuel : Nat) (h : fuelBoundW [A, B] ≤ fuel) :
    ∃ b, equivW A B fuel = some b ∧ (b = true ↔ ∀ w, acceptsW A w = acceptsW B w) :=
  Total.decides (equivW_total A B fuel h) (fun b hb => equivW_iff A B fuel b hb)

theorem emptyW_total (A : NFA) (fuel : Nat) (h : fuelBoundW [A] ≤ fuel) : (emptyW A fuel).isSome = true :=
  forallWords_total _ _ _ h

theorem emptyW_decides (A : NFA) (fuel : Nat) (h : fuelBoundW [A] ≤ fuel) :
    ∃ b, emptyW A fuel = some b ∧ (b = true ↔ ∀ w, acceptsW A w = false) :=
  Total.decides (emptyW_total A fuel h) (fun b hb => emptyW_iff A fuel b hb)

theorem isUnionW_total (U A B : NFA) (fuel : Nat) (h : fuelBoundW [U, A, B] ≤ fuel) :
    (isUnionW U A B fuel).isSome = true :=
  forallWords_total _ _ _ h

theorem isUnionW_decides (U A B : NFA) (fuel : Nat) (h : fuelBoundW [U, A, B] ≤ fuel) :
    ∃ b, isUnionW U A B fuel = some b ∧ (b = true ↔ ∀ w, acceptsW U w = (acceptsW A w || acceptsW B w)) :=
  Total.decides (isUnionW_total U A B fuel h) (fun b hb => isUnionW_iff U A B fuel b hb)

theorem isIsectW_total (P A B : NFA) (fuel : Nat) (h : fuelBoundW [P, A, B] ≤ fuel) :
    (isIsectW P A B fuel).isSome = true :=
  forallWords_total _ _ _ h

theorem isIsectW_decides (P A B : NFA) (fuel : Nat) (h : fuelBoundW [P, A, B] ≤ fuel) :
    ∃ b, isIsectW P A B fuel = some b ∧ (b = true ↔ ∀ w, acceptsW P w = (acceptsW A w && acceptsW B w)) :=
  Total.decides (isIsectW_total P A B fuel h) (fun b hb => isIsectW_iff P A B fuel b hb)

/-! ### non-vacuity: concrete automata, bounds and verdicts -/
namespace MultiTotalEx

/-- `a`, `f(a)`, `f(f(a))`, … with the parity of the height as the state; even heights accepted -/
def exEven : TA := ⟨[⟨0, [], 0⟩, ⟨1, [0], 1⟩, ⟨1, [1], 0⟩], [0]⟩
/-- all `f*(a)` -/
def exAll : TA := ⟨[⟨0, [], 0⟩, ⟨1, [0], 0⟩], [0]⟩
/-- a word automaton for `(ab)*` and one for all words over `{a,b}` -/
def nAB : NFA := ⟨[0], [0], [(0, 0, 1), (1, 1, 0)]⟩
def nAll : NFA := ⟨[0], [0], [(0, 0, 0), (0, 1, 0)]⟩

example : fuelBoundM [exEven, exAll] = 8 := by decide
example : fuelBoundM [exEven, exAll] ≤ 8 ∧ inclM exEven exAll 8 = some true := ⟨by decide, by decide⟩
example : ∃ b, inclM exEven exAll 8 = some b ∧ (b = true ↔ Incl exEven exAll) :=
  inclM_decides exEven exAll 8 (by decide)
example : ∃ b, inclM exAll exEven 8 = some b ∧ (b = true ↔ Incl exAll exEven) :=
  inclM_decides exAll exEven 8 (by decide)
example : inclM exAll exEven 8 = some false := by decide
/-- the bound is not vacuous as a bound: with too little fuel the engine does answer `none` -/
example : inclM exEven exAll 1 = none := by decide
example : fuelBoundM [exEven] = 4 ∧ emptyM exEven 4 = some false := ⟨by decide, by decide⟩
example : fuelBoundM [exAll, exEven, exAll] = 16 ∧ isUnionM exAll exEven exAll 16 = some true := ⟨by decide, by decide⟩
example : fuelBoundM [exEven, exEven, exAll] = 32 ∧ isIsectM exEven exEven exAll 32 = some true :=
  ⟨by decide, by decide⟩
example : fuelBoundCompl exEven exAll [(0, 0), (1, 1)] = 16 := by decide
example : fuelBoundW [nAB, nAll] = 8 ∧ inclW nAB nAll 8 = some true ∧ inclW nAll nAB 8 = some false :=
  ⟨by decide, by decide, by decide⟩
example : ∃ b, equivW nAB nAll 8 = some b ∧ (b = true ↔ ∀ w, acceptsW nAB w = acceptsW nAll w) :=
  equivW_decides nAB nAll 8 (by decide)

end MultiTotalEx

end Vata
