import Vata.ArityPrefix
import Vata.Proofs.BddLoad
import Vata.Proofs.BddIsect
/-!
# The arity prefix: the code is injective within its bounds, the seeded variants collide (proofs)

Part 1 of the proofs for `Vata/ArityPrefix.lean`: the assignments and their numbers.  The tables are in
`Vata/Proofs/ArityPrefixTables.lean`.
-/
namespace Vata
namespace ArityPrefix
open M BddAbs BddAbsTD

/-! ## the constructor and `append` as coded give `symAsgn sym ++ arAsgn ar` -/

theorem arAsgn_eq_bitsLE (n : Nat) : arAsgn n = Glue.bitsLE 6 n := (Glue.bitsLE_eq_range_map 6 n).symm

/-- `SymbolType prefix(SYMBOL_ARITY_LENGTH, arity)` never runs into the undefined shift (6 ≤ 31) and is the list of the 6
low bits of `arity` -/
theorem arityPrefix_eq (n : Nat) : arityPrefix n = some (arAsgn n) := by
  rw [arityPrefix, SYMBOL_ARITY_LENGTH, Glue.ofNum_eq_bitsLE n (by decide), arAsgn_eq_bitsLE]

theorem addArityToSymbol_eq (sym ar : Nat) : addArityToSymbol (symAsgn sym) ar = some (rankedAsgn sym ar) := by
  rw [addArityToSymbol, arityPrefix_eq]; rfl

/-- the ranked symbol is what `BddAbsTD.addCubeTD` puts into the MTBDD -/
theorem rankedAsgn_eq_symArAsgn (sym ar : Nat) : rankedAsgn sym ar = symArAsgn sym ar := rfl

theorem rankedAsgn_length (sym ar : Nat) : (rankedAsgn sym ar).length = SYMBOL_TOTAL_SIZE := by
  simp [rankedAsgn, Glue.append, symAsgn, arAsgn, SYMBOL_TOTAL_SIZE, Glue.SYMBOL_SIZE, SYMBOL_ARITY_LENGTH]

/-! ## the number -/

theorem toNum_append : ∀ (a b : Glue.Asgn), Glue.toNum (a ++ b) = Glue.toNum a + 2 ^ a.length * Glue.toNum b
  | [], b => by simp [Glue.toNum]
  | v :: a, b => by
    simp only [List.cons_append, Glue.toNum, toNum_append a b, List.length_cons, Nat.pow_succ]
    rw [Nat.mul_add, Nat.mul_comm (2 ^ a.length) 2, Nat.mul_assoc]
    omega

/-- the code: the 16 low bits of the symbol number, the 6 low bits of the arity above them -/
theorem rankedCode_eq (sym ar : Nat) : rankedCode sym ar = sym % 2 ^ 16 + 2 ^ 16 * (ar % 2 ^ 6) := by
  rw [rankedCode, rankedAsgn, Glue.append, toNum_append, symAsgn_length, arAsgn_eq_bitsLE, Glue.toNum_bitsLE,
    BddLoad.symAsgn_eq_bitsLE, Glue.toNum_bitsLE]

theorem rankedCode_lt (sym ar : Nat) : rankedCode sym ar < 2 ^ 22 := by
  rw [rankedCode_eq]
  have h1 : sym % 2 ^ 16 < 2 ^ 16 := Nat.mod_lt _ (by decide)
  have h2 : ar % 2 ^ 6 < 2 ^ 6 := Nat.mod_lt _ (by decide)
  omega

/-- **within the bounds the code determines the symbol and the arity** -/
theorem rankedCode_injective {sym ar sym' ar' : Nat} (hs : sym < 2 ^ 16) (ha : ar < 64) (hs' : sym' < 2 ^ 16)
    (ha' : ar' < 64) (h : rankedCode sym ar = rankedCode sym' ar') : sym = sym' ∧ ar = ar' := by
  rw [rankedCode_eq, rankedCode_eq, Nat.mod_eq_of_lt hs, Nat.mod_eq_of_lt hs', Nat.mod_eq_of_lt (show ar < 2 ^ 6 from ha),
    Nat.mod_eq_of_lt (show ar' < 2 ^ 6 from ha')] at h
  omega

theorem rankedAsgn_injective {sym ar sym' ar' : Nat} (hs : sym < 2 ^ 16) (ha : ar < 64) (hs' : sym' < 2 ^ 16)
    (ha' : ar' < 64) (h : rankedAsgn sym ar = rankedAsgn sym' ar') : sym = sym' ∧ ar = ar' :=
  rankedCode_injective hs ha hs' ha' (by rw [rankedCode, rankedCode, h])

/-- without the bounds only the residues are determined -/
theorem rankedCode_eq_iff (sym ar sym' ar' : Nat) :
    rankedCode sym ar = rankedCode sym' ar' ↔ sym % 2 ^ 16 = sym' % 2 ^ 16 ∧ ar % 64 = ar' % 64 := by
  rw [rankedCode_eq, rankedCode_eq]
  have h1 : sym % 2 ^ 16 < 2 ^ 16 := Nat.mod_lt _ (by decide)
  have h2 : sym' % 2 ^ 16 < 2 ^ 16 := Nat.mod_lt _ (by decide)
  constructor
  · intro h; omega
  · intro h; omega

/-- the valuations in the cube of a ranked symbol: the symbol part in the cube of the symbol, the arity part the arity -/
theorem agrees_rankedAsgn (ρ : Nat → Bool) (sym ar : Nat) :
    agrees ρ (rankedAsgn sym ar) 0 = (agrees ρ (symAsgn sym) 0 && arOK ρ ar) :=
  agrees_withAr ρ (symAsgn sym) (symAsgn_length sym) ar

/-- **semantic injectivity**: within the bounds, the cube of the ranked symbol `(f, n)` contains the valuation of the
ranked symbol `(g, m)` iff they are the same -/
theorem agrees_bitsAr_rankedAsgn {g m f n : Nat} (hg : g < 2 ^ 16) (hm : m < 64) (hf : f < 2 ^ 16) (hn : n < 64) :
    agrees (bitsAr g m) (rankedAsgn f n) 0 = true ↔ g = f ∧ m = n := by
  rw [agrees_rankedAsgn, Bool.and_eq_true, bitsAr, agrees_withArity _ _ _ (by rw [symAsgn_length]; omega),
    agrees_symAsgn_lt hg hf, arOK_withArity_lt _ hm hn]

/-! ## variant 1: `arity % 63` -/

theorem arAsgnMod63_63 : arAsgnMod63 63 = arAsgnMod63 0 := by decide

/-- **arity 63 collides with arity 0**, for every symbol -/
theorem rankedAsgnMod63_collides (sym : Nat) : rankedAsgnMod63 sym 63 = rankedAsgnMod63 sym 0 := by
  rw [rankedAsgnMod63, rankedAsgnMod63, arAsgnMod63_63]

theorem rankedCodeMod63_collides (sym : Nat) : rankedCodeMod63 sym 63 = rankedCodeMod63 sym 0 := by
  rw [rankedCodeMod63, rankedCodeMod63, rankedAsgnMod63_collides]

/-- below 63 the variant is the code as coded -/
theorem rankedAsgnMod63_lt {ar : Nat} (h : ar < 63) (sym : Nat) : rankedAsgnMod63 sym ar = rankedAsgn sym ar := by
  rw [rankedAsgnMod63, arAsgnMod63, Nat.mod_eq_of_lt h]; rfl

/-! ## variant 2: `append` one variable short -/

theorem arAsgn_dropLast (n : Nat) : (arAsgn n).dropLast = (List.range 5).map (fun i => some (n.testBit i)) := by
  simp [arAsgn, List.range_succ]

theorem testBit_add_32 (n i : Nat) (hi : i < 5) : (n + 32).testBit i = n.testBit i := by
  have h1 := Nat.testBit_mod_two_pow (n + 32) 5 i
  have h2 := Nat.testBit_mod_two_pow n 5 i
  simp only [hi, decide_true, Bool.true_and] at h1 h2
  rw [← h1, ← h2]
  congr 1
  omega

theorem arAsgn_dropLast_add_32 (n : Nat) : (arAsgn (n + 32)).dropLast = (arAsgn n).dropLast := by
  rw [arAsgn_dropLast, arAsgn_dropLast]
  apply List.map_congr_left
  intro i hi
  rw [testBit_add_32 n i (List.mem_range.mp hi)]

theorem arAsgn_ne_nil (n : Nat) : arAsgn n ≠ [] := by simp [arAsgn, List.range_succ]

theorem appendOneShort_arAsgn (a : Glue.Asgn) (n : Nat) : appendOneShort a (arAsgn n) = a ++ (arAsgn n).dropLast ++ [none] := by
  unfold appendOneShort
  split
  · next h => exact absurd h (arAsgn_ne_nil n)
  · next h => rw [h]

/-- **the ranks `r` and `r + 32` collide**, for every symbol (in fact for every assignment the prefix is appended to) -/
theorem appendOneShort_collides (a : Glue.Asgn) (r : Nat) :
    appendOneShort a (arAsgn r) = appendOneShort a (arAsgn (r + 32)) := by
  rw [appendOneShort_arAsgn, appendOneShort_arAsgn, arAsgn_dropLast_add_32]

theorem rankedAsgnShort_collides (sym r : Nat) : rankedAsgnShort sym r = rankedAsgnShort sym (r + 32) :=
  appendOneShort_collides _ r

theorem arAsgnShort_eq (n : Nat) : arAsgnShort n = (arAsgn n).dropLast ++ [none] := by
  rw [arAsgnShort, appendOneShort_arAsgn]; rfl

theorem arAsgnShort_collides (r : Nat) : arAsgnShort r = arAsgnShort (r + 32) := appendOneShort_collides [] r

theorem rankedAsgnShort_eq (sym n : Nat) : rankedAsgnShort sym n = symAsgn sym ++ arAsgnShort n := by
  rw [rankedAsgnShort, appendOneShort_arAsgn, arAsgnShort_eq, List.append_assoc]

/-- the valuations in the short prefix: the five low arity variables hold the five low bits of the arity; the top one
is free -/
theorem preOK_short (ρ : Nat → Bool) (n : Nat) :
    preOK ρ (arAsgnShort n) = true ↔ ∀ j, j < 5 → ρ (j + 16) = n.testBit j := by
  rw [preOK, arAsgnShort_eq, arAsgn_dropLast, agrees_append]
  have := agrees_go (fun j => ρ (j + 16)) n 5 0
  simp only [Nat.zero_add, Nat.zero_le, true_implies] at this
  rw [List.range_eq_range', Bool.and_eq_true, this]
  simp [agrees]

end ArityPrefix
end Vata
