import Vata.Proofs.Wrapper
import Vata.Proofs.TrimCodedResult
/-!
# The wrapper `ExplicitTreeAut`: invariants of reachable worlds

* `step_ok`, `reach_ok`       every public call keeps `World.Ok` (every alphabet object two-way, counter at the size)
* `Safe`, `ReachSafe`, `reachSafe_ranked`   along calls that do not by-pass the alphabet, every rule of every automaton
                              carries the number that its alphabet gives to (some name, its number of children)
* `toStringW_error_iff`       `ToString (trans)` throws exactly for an unregistered symbol of an `OnTheFlyAlphabet`
-/
namespace Vata.Wrapper
open Vata Vata.LoadDump Vata.Dict

/-! ## `World.Ok` is kept by every call -/

theorem loadW_spec {w : World} {i : Nat} {d : AutDesc} {sd : StateDict} {r : World × StateDict}
    (e : loadW w i d sd = .ok r) :
    ∃ A yd n, w.aut? i = .ok A ∧ w.alpha? A.alpha = .ok (.otf yd n) ∧
      r.1 = { alphas := w.alphas.set A.alpha
                (.otf (loadFromW ⟨sd, 0, yd, n⟩ d).2.yd (loadFromW ⟨sd, 0, yd, n⟩ d).2.next),
              auts := w.auts.set i
                ⟨⟨A.core.rules ++ (loadFromW ⟨sd, 0, yd, n⟩ d).1.rules, A.core.final ++ (loadFromW ⟨sd, 0, yd, n⟩ d).1.final⟩,
                  A.alpha⟩ } ∧
      r.2 = (loadFromW ⟨sd, 0, yd, n⟩ d).2.sd := by
  unfold loadW at e
  split at e
  · cases e
  · rename_i A hA
    split at e
    · cases e
    · cases e
    · rename_i yd n hal
      cases e
      exact ⟨A, yd, n, hA, hal, rfl, rfl⟩

theorem loadW_ok {w : World} (h : w.Ok) {i : Nat} {d : AutDesc} {sd : StateDict} {r : World × StateDict}
    (e : loadW w i d sd = .ok r) : r.1.Ok := by
  obtain ⟨A, yd, n, hA, hal, e1, _⟩ := loadW_spec e
  rw [e1]
  have hok := h.alphas _ (alpha?_mem hal)
  obtain ⟨y, _⟩ := loadFromW_y sd 0 yd n hok.1 hok.2 d
  refine ⟨?_, ?_, ?_⟩
  · show ∃ d' n', (w.alphas.set A.alpha _)[0]? = some (.otf d' n')
    by_cases h0 : A.alpha = 0
    · rw [h0, List.getElem?_set_self h.zero_lt]; exact ⟨_, _, rfl⟩
    · rw [List.getElem?_set_ne h0]; exact h.global
  · intro B hB
    show B.alpha < (w.alphas.set A.alpha _).length
    rw [List.length_set]
    rcases List.mem_or_eq_of_mem_set hB with hB | hB
    · exact h.alpha B hB
    · subst hB; exact alpha?_lt hal
  · intro al hal'
    rcases List.mem_or_eq_of_mem_set hal' with hm | hm
    · exact h.alphas al hm
    · subst hm; exact ⟨y.ok, y.sync⟩

theorem step_ok {w w' : World} (h : w.Ok) (o : Op) (e : step w o = .ok w') : w'.Ok := by
  cases o with
  | newAut => simp only [step] at e; cases e; exact push_ok h _ h.zero_lt
  | copyAut i ct cf =>
    simp only [step] at e
    split at e
    · cases e
    · rename_i A hA; cases e; exact push_ok h _ (h.alpha A (aut?_mem hA))
  | assign dst src =>
    simp only [step] at e
    split at e
    · rename_i B A hB hA; cases e; exact setAut_ok h _ _ (h.alpha A (aut?_mem hA))
    · cases e
    · cases e
  | newOtf => simp only [step] at e; cases e; exact addAlpha_ok h _ ⟨ok_nil, rfl⟩
  | copyOtf a =>
    simp only [step] at e
    split at e
    · rename_i d n hal; cases e; exact addAlpha_ok h _ (h.alphas _ (alpha?_mem hal))
    · cases e
    · cases e
  | newDirect => simp only [step] at e; cases e; exact addAlpha_ok h _ trivial
  | setAlphabet i a =>
    simp only [step] at e
    split at e
    · rename_i A al hA hal; cases e; exact setAut_ok h _ _ (alpha?_lt hal)
    · cases e
    · cases e
  | load i d sd =>
    simp only [step] at e
    split at e
    · rename_i r hr; cases e; exact loadW_ok h hr
    · cases e
  | addTransition i kids sym parent =>
    simp only [step] at e
    split at e
    · cases e
    · rename_i A hA; cases e; exact setAut_ok h _ _ (h.alpha A (aut?_mem hA))
  | setFinal i q =>
    simp only [step] at e
    split at e
    · cases e
    · rename_i A hA; cases e; exact setAut_ok h _ _ (h.alpha A (aut?_mem hA))
  | clear i =>
    simp only [step] at e
    split at e
    · cases e
    · rename_i A hA; cases e; exact setAut_ok h _ _ (h.alpha A (aut?_mem hA))
  | removeUnreachable i =>
    simp only [step] at e
    split at e
    · cases e
    · rename_i A hA; cases e; exact push_ok h _ (unreachAlpha_lt h _ (h.alpha A (aut?_mem hA)))
  | removeUseless i =>
    simp only [step] at e
    split at e
    · cases e
    · rename_i A hA; cases e; exact push_ok h _ h.zero_lt
  | unionDisjoint i j =>
    simp only [step] at e
    split at e
    · rename_i L R hL hR; cases e; exact push_ok h _ (h.alpha L (aut?_mem hL))
    · cases e
    · cases e
  | translateSymbols i g =>
    simp only [step] at e
    split at e
    · cases e
    · rename_i A hA; cases e; exact push_ok h _ (h.alpha A (aut?_mem hA))
  | reindex i f =>
    simp only [step] at e
    split at e
    · cases e
    · rename_i A hA; cases e; exact push_ok h _ (h.alpha A (aut?_mem hA))
  | reduce i c =>
    simp only [step] at e
    split at e
    · cases e
    · rename_i A hA; cases e; exact push_ok h _ (unreachAlpha_lt h _ (h.alpha A (aut?_mem hA)))
  | core1 k i f =>
    simp only [step] at e
    split at e
    · cases e
    · rename_i A hA
      split at e
      · cases e
      · cases e
      · cases e; exact push_ok h _ (K1.alpha_lt h _ (h.alpha A (aut?_mem hA)))
  | core2 k i j f =>
    simp only [step] at e
    split at e
    · cases e; exact push_ok h _ h.zero_lt
    · cases e
    · cases e

/-- **every reachable world is `Ok`** -/
theorem reach_ok {w : World} (h : Reach w) : w.Ok := by
  induction h with
  | init => exact worldInit_ok
  | step o _ e ih => exact step_ok ih o e

/-- … in particular: in every `OnTheFlyAlphabet` of a reachable world a symbol number has exactly one `(name, rank)`,
a `(name, rank)` exactly one number, the numbers in use are `0 … nextSymbol_ - 1` -/
theorem reach_alphabet_two_way {w : World} (h : Reach w) {a : Nat} {d : SymDict} {n : Nat}
    (ha : w.alphas[a]? = some (.otf d n)) :
    n = d.length ∧ (∀ k v, d.bwd? v = some k ↔ d.fwd? k = some v) ∧
      (∀ v, (∃ k, d.bwd? v = some k) ↔ v < n) ∧
      (∀ v k k', d.bwd? v = some k → d.bwd? v = some k' → k = k') ∧
      (∀ k v v', d.fwd? k = some v → d.fwd? k = some v' → v = v') ∧
      (∀ k k' v, d.fwd? k = some v → d.fwd? k' = some v → k = k') := by
  obtain ⟨hd, hn⟩ := (reach_ok h).alphas _ (List.mem_of_getElem? ha)
  refine ⟨hn, fun k v => hd.bwd_fwd, ?_, ?_, ?_, ?_⟩
  · intro v
    rw [hn]
    constructor
    · rintro ⟨k, e⟩
      exact hd.mem_vals.mp (List.mem_map.mpr ⟨(k, v), bwd?_some_mem e, rfl⟩)
    · intro hv; exact hd.bwd_some_of_lt hv
  · intro v k k' e e'; rw [e] at e'; exact Option.some.inj e'
  · intro k v v' e e'; rw [e] at e'; exact Option.some.inj e'
  · intro k k' v e e'
    have := hd.bwd_fwd.mpr e
    rw [hd.bwd_fwd.mpr e'] at this
    exact (Option.some.inj this).symm

/-! ## rules carry the numbers of their (name, arity) -/

/-- the alphabet translates the rule's symbol number back to a `StringRank` whose rank is the rule's number of
children.  (A `DirectAlphabet` back-translates every number to rank 0 and nothing can be loaded through it: no claim.) -/
def RankedIn : Alphabet → Rule → Prop
  | .otf d _, r => ∃ name, d.bwd? r.sym = some (name, r.kids.length)
  | .direct, _ => True

/-- every rule of every automaton is ranked in the alphabet of its automaton -/
def World.Ranked (w : World) : Prop :=
  ∀ A, A ∈ w.auts → ∀ al, w.alphas[A.alpha]? = some al → ∀ r, r ∈ A.core.rules → RankedIn al r

/-- the rules of `B` use (symbol, arity) pairs of the rules `As` only -/
def SymSub (B : TA) (As : List Rule) : Prop :=
  ∀ r, r ∈ B.rules → ∃ r', r' ∈ As ∧ r'.sym = r.sym ∧ r'.kids.length = r.kids.length

/-- the calls that do not by-pass the alphabet (everything not listed is safe without condition, in particular every
load, on any alphabet, with any state dictionary) -/
def Safe (w : World) : Op → Prop
  | .setAlphabet i a => ∀ A, w.aut? i = .ok A → A.core.rules = [] ∨ a = A.alpha
  | .addTransition i kids sym parent =>
    ∀ A al, w.aut? i = .ok A → w.alpha? A.alpha = .ok al → RankedIn al ⟨sym, kids, parent⟩
  | .removeUnreachable i => ∀ A, w.aut? i = .ok A → unreachAlpha A.core A.alpha = A.alpha
  | .removeUseless i => ∀ A, w.aut? i = .ok A → A.alpha = 0
  | .unionDisjoint i j => ∀ L R, w.aut? i = .ok L → w.aut? j = .ok R → L.alpha = R.alpha
  | .translateSymbols i g =>
    ∀ A al, w.aut? i = .ok A → w.alpha? A.alpha = .ok al → ∀ r, r ∈ A.core.rules → RankedIn al (mapSym g r)
  | .reduce i c =>
    ∀ A, w.aut? i = .ok A → SymSub (c A.core) A.core.rules ∧ unreachAlpha (c A.core) A.alpha = A.alpha
  | .core1 k i f =>
    ∀ A al, w.aut? i = .ok A → w.alpha? A.alpha = .ok al → k.alpha A.alpha = A.alpha ∧
      ∀ r, r ∈ (f A.core).rules →
        (∃ r', r' ∈ A.core.rules ∧ r'.sym = r.sym ∧ r'.kids.length = r.kids.length) ∨ RankedIn al r
  | .core2 _ i j f =>
    ∀ L R, w.aut? i = .ok L → w.aut? j = .ok R →
      L.alpha = 0 ∧ R.alpha = 0 ∧ SymSub (f L.core R.core) (L.core.rules ++ R.core.rules)
  | _ => True

/-- worlds reached by safe calls only -/
inductive ReachSafe : World → Prop where
  | init : ReachSafe World.init
  | step {w w' : World} (o : Op) : ReachSafe w → Safe w o → step w o = .ok w' → ReachSafe w'

theorem ReachSafe.reach {w : World} (h : ReachSafe w) : Reach w := by
  induction h with
  | init => exact .init
  | step o _ _ e ih => exact .step o ih e

theorem RankedIn.same {al : Alphabet} {r r' : Rule} (h : RankedIn al r') (e1 : r'.sym = r.sym)
    (e2 : r'.kids.length = r.kids.length) : RankedIn al r := by
  cases al with
  | direct => trivial
  | otf d n => obtain ⟨nm, e⟩ := h; exact ⟨nm, by rw [← e1, ← e2]; exact e⟩

theorem RankedIn.ext {d d' : SymDict} {n n' : Nat} {r : Rule} (h : RankedIn (.otf d n) r) (hd : d.Ok) (hd' : d'.Ok)
    (hs : Sub d d') : RankedIn (.otf d' n') r := by
  obtain ⟨nm, e⟩ := h
  exact ⟨nm, hd'.bwd_fwd.mpr (hs _ _ (hd.bwd_fwd.mp e))⟩

theorem RankedIn.ofRuleIn {d : SymDict} {n : Nat} {r : Rule} (hd : d.Ok) (h : RuleIn d r) : RankedIn (.otf d n) r := by
  obtain ⟨nm, e⟩ := h
  exact ⟨nm, hd.bwd_fwd.mpr e⟩

theorem push_ranked {w : World} (h : w.Ranked) (B : WAut)
    (hB : ∀ al, w.alphas[B.alpha]? = some al → ∀ r, r ∈ B.core.rules → RankedIn al r) : (w.push B).Ranked := by
  intro A hA al hal r hr
  simp only [World.push, List.mem_append, List.mem_singleton] at hA
  rcases hA with hA | hA
  · exact h A hA al hal r hr
  · subst hA; exact hB al hal r hr

theorem setAut_ranked {w : World} (h : w.Ranked) (i : Nat) (B : WAut)
    (hB : ∀ al, w.alphas[B.alpha]? = some al → ∀ r, r ∈ B.core.rules → RankedIn al r) :
    ({ w with auts := w.auts.set i B } : World).Ranked := by
  intro A hA al hal r hr
  rcases List.mem_or_eq_of_mem_set hA with hA | hA
  · exact h A hA al hal r hr
  · subst hA; exact hB al hal r hr

theorem addAlpha_ranked {w : World} (hok : w.Ok) (h : w.Ranked) (al : Alphabet) :
    ({ w with alphas := w.alphas ++ [al] } : World).Ranked := by
  intro A hA al' hal r hr
  have hlt := hok.alpha A hA
  have hal2 : (w.alphas ++ [al])[A.alpha]? = some al' := hal
  rw [List.getElem?_append_left hlt] at hal2
  exact h A hA al' hal2 r hr

theorem unreachWith_sub (test : TA → List Nat → Bool) (A : TA) {r : Rule}
    (hr : r ∈ (TrimCoded.unreachWith test A).rules) : r ∈ A.rules := by
  unfold TrimCoded.unreachWith at hr
  simp only at hr
  split at hr
  · exact hr
  · simp only [List.mem_flatMap, TrimCoded.clusterOf, List.mem_filter] at hr
    obtain ⟨_, _, h, _⟩ := hr
    exact h

theorem unreachCoded_sub (A : TA) {r : Rule} (hr : r ∈ (TrimCoded.unreachCoded A).rules) : r ∈ A.rules :=
  unreachWith_sub _ A hr

theorem uselessCoded_sub (A : TA) {r : Rule} (hr : r ∈ (TrimCoded.uselessCoded A).rules) : r ∈ A.rules := by
  rw [TrimCoded.uselessCoded_eq] at hr
  have h1 := unreachCoded_sub _ hr
  have h2 := ((TrimCoded.preUnreach_equiv A).1 r).mp h1
  simp only [restrict, List.mem_filter] at h2
  exact h2.1

/-- a safe call keeps `Ranked` -/
theorem step_ranked {w w' : World} (hok : w.Ok) (h : w.Ranked) (o : Op) (hs : Safe w o) (e : step w o = .ok w') :
    w'.Ranked := by
  cases o with
  | newAut =>
    simp only [step] at e; cases e
    exact push_ranked h _ (fun al _ r hr => by cases hr)
  | copyAut i ct cf =>
    simp only [step] at e
    split at e
    · cases e
    · rename_i A hA; cases e
      refine push_ranked h _ (fun al hal r hr => ?_)
      cases ct
      · cases hr
      · exact h A (aut?_mem hA) al hal r hr
  | assign dst src =>
    simp only [step] at e
    split at e
    · rename_i B A hB hA; cases e
      exact setAut_ranked h _ _ (fun al hal r hr => h A (aut?_mem hA) al hal r hr)
    · cases e
    · cases e
  | newOtf => simp only [step] at e; cases e; exact addAlpha_ranked hok h _
  | copyOtf a =>
    simp only [step] at e
    split at e
    · cases e; exact addAlpha_ranked hok h _
    · cases e
    · cases e
  | newDirect => simp only [step] at e; cases e; exact addAlpha_ranked hok h _
  | setAlphabet i a =>
    simp only [step] at e
    split at e
    · rename_i A al0 hA hal0; cases e
      refine setAut_ranked h _ _ (fun al hal r hr => ?_)
      rcases hs A hA with hn | ha
      · have hr' : r ∈ A.core.rules := hr
        rw [hn] at hr'; cases hr'
      · subst ha; exact h A (aut?_mem hA) al hal r hr
    · cases e
    · cases e
  | load i d sd =>
    simp only [step] at e
    split at e
    · rename_i r0 hr0; cases e
      obtain ⟨A, yd, n, hA, hal, e1, _⟩ := loadW_spec hr0
      rw [e1]
      have hyd := hok.alphas _ (alpha?_mem hal)
      obtain ⟨y, yr⟩ := loadFromW_y sd 0 yd n hyd.1 hyd.2 d
      have halt := alpha?_lt hal
      intro B hB al hal' r hr
      have hal2 : (w.alphas.set A.alpha
          (.otf (loadFromW ⟨sd, 0, yd, n⟩ d).2.yd (loadFromW ⟨sd, 0, yd, n⟩ d).2.next))[B.alpha]? = some al := hal'
      have hB' : B ∈ w.auts.set i
          ⟨⟨A.core.rules ++ (loadFromW ⟨sd, 0, yd, n⟩ d).1.rules, A.core.final ++ (loadFromW ⟨sd, 0, yd, n⟩ d).1.final⟩,
            A.alpha⟩ := hB
      rcases List.mem_or_eq_of_mem_set hB' with hm | hm
      · -- another automaton: its alphabet object is unchanged or extended
        by_cases hsame : A.alpha = B.alpha
        · rw [hsame, List.getElem?_set_self (hsame ▸ halt)] at hal2
          cases hal2
          have := h B hm (.otf yd n) (by rw [← hsame]; exact alpha?_ok hal) r hr
          exact this.ext hyd.1 y.ok y.sub
        · rw [List.getElem?_set_ne hsame] at hal2
          exact h B hm al hal2 r hr
      · subst hm
        rw [List.getElem?_set_self halt] at hal2
        cases hal2
        have hr' : r ∈ A.core.rules ++ (loadFromW ⟨sd, 0, yd, n⟩ d).1.rules := hr
        rcases List.mem_append.mp hr' with hr1 | hr1
        · exact (h A (aut?_mem hA) (.otf yd n) (alpha?_ok hal) r hr1).ext hyd.1 y.ok y.sub
        · exact RankedIn.ofRuleIn y.ok (yr r hr1)
    · cases e
  | addTransition i kids sym parent =>
    simp only [step] at e
    split at e
    · cases e
    · rename_i A hA; cases e
      refine setAut_ranked h _ _ (fun al hal r hr => ?_)
      have hr' : r ∈ A.core.rules ++ [⟨sym, kids, parent⟩] := hr
      rcases List.mem_append.mp hr' with hr1 | hr1
      · exact h A (aut?_mem hA) al hal r hr1
      · rw [List.mem_singleton] at hr1; subst hr1
        have : w.alpha? A.alpha = .ok al := by unfold World.alpha?; rw [show w.alphas[A.alpha]? = some al from hal]
        exact hs A al hA this
  | setFinal i q =>
    simp only [step] at e
    split at e
    · cases e
    · rename_i A hA; cases e
      exact setAut_ranked h _ _ (fun al hal r hr => h A (aut?_mem hA) al hal r hr)
  | clear i =>
    simp only [step] at e
    split at e
    · cases e
    · rename_i A hA; cases e
      exact setAut_ranked h _ _ (fun al hal r hr => by cases hr)
  | removeUnreachable i =>
    simp only [step] at e
    split at e
    · cases e
    · rename_i A hA; cases e
      refine push_ranked h _ (fun al hal r hr => ?_)
      have hal' : w.alphas[unreachAlpha A.core A.alpha]? = some al := hal
      rw [hs A hA] at hal'
      exact h A (aut?_mem hA) al hal' r (unreachCoded_sub _ hr)
  | removeUseless i =>
    simp only [step] at e
    split at e
    · cases e
    · rename_i A hA; cases e
      refine push_ranked h _ (fun al hal r hr => ?_)
      have hal' : w.alphas[0]? = some al := hal
      rw [← hs A hA] at hal'
      exact h A (aut?_mem hA) al hal' r (uselessCoded_sub _ hr)
  | unionDisjoint i j =>
    simp only [step] at e
    split at e
    · rename_i L R hL hR; cases e
      refine push_ranked h _ (fun al hal r hr => ?_)
      have hal' : w.alphas[L.alpha]? = some al := hal
      have hr' : r ∈ L.core.rules ++ R.core.rules := hr
      rcases List.mem_append.mp hr' with hr1 | hr1
      · exact h L (aut?_mem hL) al hal' r hr1
      · rw [hs L R hL hR] at hal'
        exact h R (aut?_mem hR) al hal' r hr1
    · cases e
    · cases e
  | translateSymbols i g =>
    simp only [step] at e
    split at e
    · cases e
    · rename_i A hA; cases e
      refine push_ranked h _ (fun al hal r hr => ?_)
      have hal' : w.alphas[A.alpha]? = some al := hal
      have hr' : r ∈ (translateSymbols g A.core).rules := hr
      simp only [translateSymbols, List.mem_map] at hr'
      obtain ⟨r0, hr0, rfl⟩ := hr'
      have : w.alpha? A.alpha = .ok al := by unfold World.alpha?; rw [hal']
      exact hs A al hA this r0 hr0
  | reindex i f =>
    simp only [step] at e
    split at e
    · cases e
    · rename_i A hA; cases e
      refine push_ranked h _ (fun al hal r hr => ?_)
      have hal' : w.alphas[A.alpha]? = some al := hal
      have hr' : r ∈ (reindex f A.core).rules := hr
      simp only [reindex, List.mem_map] at hr'
      obtain ⟨r0, hr0, rfl⟩ := hr'
      exact (h A (aut?_mem hA) al hal' r0 hr0).same rfl (by simp [mapRule])
  | reduce i c =>
    simp only [step] at e
    split at e
    · cases e
    · rename_i A hA; cases e
      obtain ⟨s1, s2⟩ := hs A hA
      refine push_ranked h _ (fun al hal r hr => ?_)
      have hal' : w.alphas[unreachAlpha (c A.core) A.alpha]? = some al := hal
      rw [s2] at hal'
      obtain ⟨r', hr', e1, e2⟩ := s1 r (unreachCoded_sub _ hr)
      exact (h A (aut?_mem hA) al hal' r' hr').same e1 e2
  | core1 k i f =>
    simp only [step] at e
    split at e
    · cases e
    · rename_i A hA
      split at e
      · cases e
      · cases e
      · rename_i k _ _ al0 _ hal0; cases e
        obtain ⟨s1, s2⟩ := hs A al0 hA hal0
        refine push_ranked h _ (fun al hal r hr => ?_)
        have hal' : w.alphas[k.alpha A.alpha]? = some al := hal
        rw [s1, alpha?_ok hal0] at hal'
        cases hal'
        rcases s2 r hr with ⟨r', hr', e1, e2⟩ | hr2
        · exact (h A (aut?_mem hA) al0 (alpha?_ok hal0) r' hr').same e1 e2
        · exact hr2
  | core2 k i j f =>
    simp only [step] at e
    split at e
    · rename_i L R hL hR; cases e
      obtain ⟨s1, s2, s3⟩ := hs L R hL hR
      refine push_ranked h _ (fun al hal r hr => ?_)
      have hal' : w.alphas[0]? = some al := hal
      obtain ⟨r', hr', e1, e2⟩ := s3 r hr
      rcases List.mem_append.mp hr' with hr1 | hr1
      · rw [← s1] at hal'; exact (h L (aut?_mem hL) al hal' r' hr1).same e1 e2
      · rw [← s2] at hal'; exact (h R (aut?_mem hR) al hal' r' hr1).same e1 e2
    · cases e
    · cases e

theorem init_ranked : World.init.Ranked := by
  intro A hA; cases hA

/-- **along safe calls every rule is ranked in the alphabet of its automaton** -/
theorem reachSafe_ranked {w : World} (h : ReachSafe w) : w.Ranked := by
  induction h with
  | init => exact init_ranked
  | step o hw hs e ih => exact step_ranked (reach_ok hw.reach) ih o hs e

/-! ## `ToString (trans)` -/

/-- `ToString` throws exactly when the automaton's alphabet is an `OnTheFlyAlphabet` whose reverse map lacks the symbol -/
theorem toStringW_error_iff {w : World} {i : Nat} {A : WAut} {al : Alphabet} (hA : w.aut? i = .ok A)
    (hal : w.alpha? A.alpha = .ok al) (t : Rule) :
    (∃ msg, toStringW w i t = .error msg) ↔ ∃ d n, al = .otf d n ∧ d.bwd? t.sym = none := by
  unfold toStringW World.alphaOf
  simp only [hA, hal]
  cases al with
  | direct => simp [Alphabet.back]
  | otf d n =>
    simp only [Alphabet.back]
    cases hb : d.bwd? t.sym with
    | none => simp [hb]
    | some k => simp [hb]

theorem toStringW_error_msg {w : World} {i : Nat} {A : WAut} {d : SymDict} {n : Nat} (hA : w.aut? i = .ok A)
    (hal : w.alpha? A.alpha = .ok (.otf d n)) (t : Rule) (hb : d.bwd? t.sym = none) :
    toStringW w i t = .error (noTransl t.sym) := by
  unfold toStringW World.alphaOf
  simp only [hA, hal, Alphabet.back, hb]

theorem toStringW_ok {w : World} {i : Nat} {A : WAut} {d : SymDict} {n : Nat} {k : String × Nat} (hA : w.aut? i = .ok A)
    (hal : w.alpha? A.alpha = .ok (.otf d n)) (t : Rule) (hb : d.bwd? t.sym = some k) :
    toStringW w i t = .ok (k.1 ++ "(" ++ joinNums t.kids ++ ") -> " ++ toString t.parent) := by
  unfold toStringW World.alphaOf
  simp only [hA, hal, Alphabet.back, hb]

end Vata.Wrapper
