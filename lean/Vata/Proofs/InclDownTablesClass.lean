import Vata.Proofs.InclDownTablesDump
import Vata.Proofs.InclDownTotal
/-!
# `expandT` on tables whose left side is NOT symbol-deterministic: the specification of the exploration

Without `SymDet` the traversal as coded makes one call per pair of LEAVES (a class of ranked symbols, or several classes merged by the
cache of `VoidApply2Functor`), the abstract model `InclDown.expand` on the dump one call per ranked symbol.  The two runs are no
longer equal call for call.  What remains true, and is all the analysis of the exploration (`Vata/Proofs/InclDownInv.lean`) needs:

* `CallsCover TA TB A B` – every call of the traversal with a non-empty left leaf IS a group of `p` in `A` (its ghost symbol
  `reprSym`, its `lhsTuples`, its `rhsTuples` against `B`), and every group of `p` is DELIVERED by some call with the same two tuple
  sets (`callsCover_pathOrder`: it holds for the dumps in path order of any `TabOK` tables – no `SymDet`);
* the closure condition of a group depends on the two tuple SETS only (`groupOK_transfer`), hence the traversal as coded satisfies the
  specification of `InclDown.body` (`bodyT_spec`), `expandT` that of `InclDown.expand` (`expandT_spec`: the invariant `Inv` – every
  pair of `trues` closed, every entry of `nonincluded` refuted by its tree, everything the `childrenCache` covers subsumed), and the
  run on the tables returns a set that passes the certificate check of the dumps or a separating tree (`runTD_spec`);
* the run on the tables ends within the same bound on the fuel (`runTD_terminates`).
-/
namespace Vata
namespace InclDownTables
open M BddAbs BddAbsTD BddTraverse InclDown
open InclUp (normS prodWit Wit)

/-- every call with a non-empty left leaf is a group of `p` (symbol = the ghost symbol of the call), every group of `p` is
delivered by a call with the same tuple sets – weaker than `GroupsAgree` (no order, multiplicities free) -/
def CallsCover (TA TB : TableTD) (A B : Vata.TA) : Prop :=
  ∀ p P,
    (∀ c, c ∈ travDown TA TB p P → c.2.1 ≠ [] →
      ∃ g, g ∈ lhsGroups A p ∧ g.1 = reprSym c.1 ∧ c.2.1 = lhsTuples A p g.1 g.2 ∧ c.2.2 = rhsTuples B P g.1 g.2) ∧
    (∀ g, g ∈ lhsGroups A p →
      ∃ c, c ∈ travDown TA TB p P ∧ c.2.1 = lhsTuples A p g.1 g.2 ∧ c.2.2 = rhsTuples B P g.1 g.2)

theorem groupsAgree_callsCover {TA TB : TableTD} {A B : Vata.TA} (h : GroupsAgree TA TB A B) : CallsCover TA TB A B := by
  intro p P
  have hp := h p P
  unfold groupItems at hp
  constructor
  · intro c hc hne
    have hm : callItem c ∈ (neCalls (travDown TA TB p P)).map callItem :=
      List.mem_map_of_mem (List.mem_filter.mpr ⟨hc, by simpa using hne⟩)
    rw [hp] at hm
    obtain ⟨g, hg, he⟩ := List.mem_map.mp hm
    simp only [callItem, Prod.mk.injEq] at he
    exact ⟨g, hg, he.1, he.2.1.symm, he.2.2.symm⟩
  · intro g hg
    have hm : (g.1, lhsTuples A p g.1 g.2, rhsTuples B P g.1 g.2) ∈
        (lhsGroups A p).map (fun g => (g.1, lhsTuples A p g.1 g.2, rhsTuples B P g.1 g.2)) :=
      List.mem_map.mpr ⟨g, hg, rfl⟩
    rw [← hp] at hm
    obtain ⟨c, hc, he⟩ := List.mem_map.mp hm
    simp only [callItem, Prod.mk.injEq] at he
    exact ⟨c, (List.mem_filter.mp hc).1, he.2.1, he.2.2⟩

/-! ### the closure condition of a group depends on the two tuple sets only -/

theorem groupOK_transfer {o : Ord} {A B : Vata.TA} {ws : List Pair} {p : Nat} {P : List Nat} {f n f' n' : Nat}
    {T : List Pair} (hL : lhsTuples A p f' n' = lhsTuples A p f n) (hW : rhsTuples B P f' n' = rhsTuples B P f n)
    (h : GroupOK o A B ws p P f n T) : GroupOK o A B ws p P f' n' T := by
  intro ρ' g1 g2 g3 g4 c hc
  have hm : ρ'.kids ∈ lhsTuples A p f n := by
    rw [← hL]; exact mem_lhsTuples.mpr ⟨ρ', g1, g2, g3, g4, rfl⟩
  obtain ⟨ρ, k1, k2, k3, k4, k5⟩ := mem_lhsTuples.mp hm
  let rep : List Nat → Rule := fun w => ((rulesOf B P f' n').find? (fun σ => σ.kids == w)).getD ⟨0, [], 0⟩
  have hrep : ∀ w, w ∈ rhsTuples B P f' n' → rep w ∈ rulesOf B P f' n' ∧ (rep w).kids = w := by
    intro w hw'
    obtain ⟨σ, hσ, hσw⟩ := mem_rhsTuples.mp hw'
    cases hf : (rulesOf B P f' n').find? (fun σ => σ.kids == w) with
    | none =>
      have := List.find?_eq_none.mp hf σ hσ
      simp [hσw] at this
    | some τ =>
      have h1 := List.mem_of_find?_eq_some hf
      have h2 := List.find?_some hf
      simp only [beq_iff_eq] at h2
      simp only [rep, hf, Option.getD_some]
      exact ⟨h1, h2⟩
  have hlen : ρ.kids.length = ρ'.kids.length := by rw [k5]
  have hin : ∀ σ, σ ∈ rulesOf B P ρ.sym ρ.kids.length → σ.kids ∈ rhsTuples B P f' n' := by
    intro σ hσ
    rw [k3, k4] at hσ
    rw [hW]; exact mem_rhsTuples.mpr ⟨σ, hσ, rfl⟩
  obtain ⟨i, k, hk, hs⟩ := h ρ k1 k2 k3 k4 (fun σ => c (rep σ.kids)) (by
    intro σ hσ
    have := hc (rep σ.kids) (by rw [g3, g4]; exact (hrep _ (hin σ hσ)).1)
    rw [hlen]; exact this)
  refine ⟨i, k, by rw [← k5]; exact hk, subO_mono (fun x hx => hx) ?_ hs⟩
  intro s hs'
  obtain ⟨σ, hσ, hcσ, hget⟩ := mem_sset.mp hs'
  obtain ⟨r1, r2⟩ := hrep _ (hin σ hσ)
  exact mem_sset.mpr ⟨rep σ.kids, by rw [g3, g4]; exact r1, hcσ, by rw [r2]; exact hget⟩

/-! ### the traversal as coded satisfies the specification of `InclDown.body` -/

theorem bodyT_spec {o : Ord} {TA TB : TableTD} {A B : Vata.TA} (hcv : CallsCover TA TB A B) {ws : List Pair}
    {call1 call2 : Call} {wit : Wit} {post : List Nat → List Nat} (hO : LangOrd A B (leAP o) (leBP o) (leABP o))
    (hc1 : CallSpec o A B ws call1) (hc2 : CallSpec o A B ws call2) (hp : PostOK o post) (hW : WitOK A wit)
    (p : Nat) (P : List Nat) :
    Spec o A B ws (bodyT call1 call2 TA TB wit post p P) (fun T => ClosedAt o A B (T ++ ws) (p, P))
      (Refutes A B p P) := by
  unfold bodyT
  have key := forAllL_spec (o := o) (A := A) (B := B) (ws := ws)
    (f := actLeaf call1 call2 wit post)
    (Qh := fun (c : LeafCall) T => ∀ g, g ∈ lhsGroups A p → c.2.1 = lhsTuples A p g.1 g.2 →
      c.2.2 = rhsTuples B P g.1 g.2 → GroupOK o A B ws p P g.1 g.2 T) (Qf := Refutes A B p P)
    (fun c T T' hT h g hg e1 e2 => mono_groupOK o A B ws p P g.1 g.2 T T' hT (h g hg e1 e2))
    (travDown TA TB p P)
    (fun c hc => by
      by_cases hne : c.2.1 = []
      · -- `if (lhs.empty()) return;`
        intro cc st v cc' st' h hI
        unfold actLeaf at h
        rw [hne, procLeaf_nil] at h
        simp only [Option.some.injEq, Prod.mk.injEq] at h
        obtain ⟨h1, h2, h3⟩ := h
        subst h1 h2 h3
        refine ⟨hI, fun x hx => hx, ?_⟩
        intro g hg e1 _ ρ g1 g2 g3 g4
        have : ρ.kids ∈ lhsTuples A p g.1 g.2 := mem_lhsTuples.mpr ⟨ρ, g1, g2, g3, g4, rfl⟩
        rw [← e1, hne] at this
        cases this
      · obtain ⟨g0, hg0, e0, eL, eW⟩ := (hcv p P).1 c hc hne
        have hs := procGroup_spec hO hc1 hc2 hp hW p P g0.1 g0.2 hg0
        intro cc st v cc' st' h hI
        have h' : procGroup call1 call2 A B wit post p P g0.1 g0.2 cc st = some (v, cc', st') := by
          rw [procGroup_eq_procLeaf call1 call2 A B wit post p P hg0, ← eL, ← eW, e0]
          exact h
        obtain ⟨k1, k2, k3⟩ := hs cc st v cc' st' h' hI
        refine ⟨k1, k2, ?_⟩
        cases v with
        | fails w => exact k3
        | holds =>
          intro g _ e1 e2
          exact groupOK_transfer (by rw [← e1, eL]) (by rw [← e2, eW]) k3)
  refine spec_weaken ?_ (fun _ h => h) key
  intro T h ρ g1 g2 c hc
  have hg : (ρ.sym, ρ.kids.length) ∈ lhsGroups A p := mem_lhsGroups.mpr ⟨ρ, g1, g2, rfl, rfl⟩
  obtain ⟨cl, hcl, e1, e2⟩ := (hcv p P).2 _ hg
  exact h cl hcl _ hg e1 e2 ρ g1 g2 rfl rfl c hc

/-- the recursive call on the tables decides its pair (the statement of `InclDown.expand_spec`) -/
theorem expandT_spec {o : Ord} {TA TB : TableTD} {A B : Vata.TA} (hcv : CallsCover TA TB A B) {wit : Wit}
    (hO : LangOrd A B (leAP o) (leBP o) (leABP o)) (hr : OrdRefl o) (hW : WitOK A wit) :
    ∀ (fuel : Nat) (ws : List Pair), CallSpec o A B ws (expandT o TA TB wit fuel ws)
  | 0, ws => by
    intro p P cc st v cc' st' h
    simp [expandT] at h
  | fuel+1, ws => by
    intro p P cc st v cc' st' h hI
    simp only [expandT] at h
    split at h
    · next hws =>
      simp only [Option.some.injEq, Prod.mk.injEq] at h
      obtain ⟨h1, h2, h3⟩ := h
      subst h1 h2 h3
      exact ⟨hI, fun x hx => hx, covers_subO hws (fun x hx => List.mem_append_right _ hx)⟩
    · split at h
      · next x hx =>
        simp only [Option.some.injEq, Prod.mk.injEq] at h
        obtain ⟨h1, h2, h3⟩ := h
        subst h1 h2 h3
        exact ⟨hI, fun x hx => hx, niFind_refutes hO hx hI.ni⟩
      · split at h
        · next hcc =>
          simp only [Option.some.injEq, Prod.mk.injEq] at h
          obtain ⟨h1, h2, h3⟩ := h
          subst h1 h2 h3
          exact ⟨hI, fun x hx => hx, covers_ccOK hcc hI.cc_sub⟩
        · split at h
          · next hpre =>
            simp only [Option.some.injEq, Prod.mk.injEq] at h
            obtain ⟨h1, h2, h3⟩ := h
            subst h1 h2 h3
            exact ⟨hI, fun x hx => hx, byPre_subO hpre⟩
          · have hcall := expandT_spec hcv hO hr hW fuel ((p, P) :: ws)
            have hbody := bodyT_spec hcv hO hcall hcall (postOK_normS hr) hW p P
            split at h
            · cases h
            · next cc1 st1 heq =>
              simp only [Option.some.injEq, Prod.mk.injEq] at h
              obtain ⟨h1, h2, h3⟩ := h
              subst h1 h2 h3
              exact finish_call hr hI (v := .holds) (hbody [] st _ _ _ heq (inv_push (p, P) hI))
            · next w cc1 st1 heq =>
              simp only [Option.some.injEq, Prod.mk.injEq] at h
              obtain ⟨h1, h2, h3⟩ := h
              subst h1 h2 h3
              have := finish_call hr hI (v := .fails w) (hbody [] st _ _ _ heq (inv_push (p, P) hI))
              exact ⟨this.1, fun x hx => hx, this.2⟩

theorem rootLoopT_spec {o : Ord} {TA TB : TableTD} {A B : Vata.TA} (hcv : CallsCover TA TB A B) {wit : Wit}
    (hO : LangOrd A B (leAP o) (leBP o) (leABP o)) (hr : OrdRefl o) (hW : WitOK A wit) (fuel : Nat) (FB : List Nat) :
    ∀ (fs : List Nat) (cc : List Pair) (st : St) (res : Except Tree St),
      rootLoopT o TA TB wit fuel FB fs cc st = some res → Inv o A B [] cc st → RootPost o A B FB fs st res
  | [], cc, st, res, h, hI => by
    simp only [rootLoopT, Option.some.injEq] at h
    subst h
    exact ⟨⟨cc, hI⟩, fun x hx => hx, fun f hf => by simp at hf⟩
  | f :: fs, cc, st, res, h, hI => by
    simp only [rootLoopT] at h
    split at h
    · next hpre =>
      have := rootLoopT_spec hcv hO hr hW fuel FB fs cc st res h hI
      cases res with
      | ok st' =>
        obtain ⟨h1, h2, h3⟩ := this
        refine ⟨h1, h2, fun f' hf' => ?_⟩
        rcases List.mem_cons.mp hf' with he | hf'
        · rw [he]; exact byPre_subO hpre
        · exact h3 f' hf'
      | error w =>
        obtain ⟨f', hf', href⟩ := this
        exact ⟨f', List.mem_cons_of_mem _ hf', href⟩
    · have hcall := expandT_spec hcv hO hr hW fuel []
      have hbody := bodyT_spec hcv hO hcall hcall (postOK_normS hr) hW f FB
      split at h
      · cases h
      · next cc1 st1 heq =>
        obtain ⟨g1, g2, g3⟩ := hbody cc st _ _ _ heq hI
        have hsub : ∀ x, x ∈ st1.trues ++ [] → x ∈ addTrue st1.trues (f, FB) ++ [] := by
          intro x hx
          simp only [List.append_nil] at hx ⊢
          exact mem_addTrue.mpr (Or.inl hx)
        have hI2 : Inv o A B [] cc1 ⟨st1.nonIncl, addTrue st1.trues (f, FB)⟩ := by
          refine ⟨fun x hx => ccOK_mono hsub (g1.cc_sub x hx), ?_, g1.ni⟩
          intro x hx
          rcases mem_addTrue.mp hx with h' | h'
          · exact closedAt_mono hsub (g1.closed x h')
          · rw [h']; exact closedAt_mono hsub g3
        have := rootLoopT_spec hcv hO hr hW fuel FB fs cc1 _ res h hI2
        cases res with
        | ok st' =>
          obtain ⟨h1, h2, h3⟩ := this
          refine ⟨h1, fun x hx => h2 x (mem_addTrue.mpr (Or.inl (g2 x hx))), fun f' hf' => ?_⟩
          rcases List.mem_cons.mp hf' with he | hf'
          · rw [he]
            exact Or.inr ⟨f, FB, h2 _ (mem_addTrue.mpr (Or.inr rfl)), hr.reflA f, fun s hs => ⟨s, hs, hr.reflB s⟩⟩
          · exact h3 f' hf'
        | error w =>
          obtain ⟨f', hf', href⟩ := this
          exact ⟨f', List.mem_cons_of_mem _ hf', href⟩
      · next w cc1 st1 heq =>
        simp only [Option.some.injEq] at h
        subst h
        obtain ⟨_, _, g3⟩ := hbody cc st _ _ _ heq hI
        exact ⟨f, List.mem_cons_self, g3⟩

/-- a finished run on the tables returns a set that passes the certificate check against `A`, `B`, or a separating tree -/
theorem runTD_spec {o : Ord} {TA TB : TableTD} {A B : Vata.TA} (hcv : CallsCover TA TB A B)
    (hO : LangOrd A B (leAP o) (leBP o) (leABP o)) (hr : OrdRefl o)
    (hA : ∀ r, r ∈ A.rules → ∀ k, k ∈ r.kids → Productive A k) {fuel : Nat} {res : Except Tree (List Pair)}
    (h : runTD o TA A.final TB B.final (prodWit A) fuel = some res) : RunPost (downCertRB o A B) A B res := by
  unfold runTD at h
  split at h
  · cases h
  · next st heq =>
    simp only [Option.some.injEq] at h
    subst h
    exact cert_of_rootPost (rootLoopT_spec hcv hO hr (witOK_prodWit hA) fuel _ _ _ _ _ heq (inv_init o A B))
  · next w heq =>
    simp only [Option.some.injEq] at h
    subst h
    exact accepts_of_rootPost (rootLoopT_spec hcv hO hr (witOK_prodWit hA) fuel _ _ _ _ _ heq (inv_init o A B))

/-! ### termination -/

theorem bodyT_total {TA TB : TableTD} {A B : Vata.TA} (hcv : CallsCover TA TB A B) {call1 call2 : Call} {wit : Wit}
    {post : List Nat → List Nat} (hc1 : TotalCall A B call1) (hc2 : TotalCall A B call2)
    (hps : ∀ l s, s ∈ post l → s ∈ l) (p : Nat) (P : List Nat) (cc : List Pair) (st : St) :
    bodyT call1 call2 TA TB wit post p P cc st ≠ none := by
  unfold bodyT
  apply forAllL_total
  intro c hc cc st
  unfold actLeaf
  by_cases hne : c.2.1 = []
  · rw [hne, procLeaf_nil]; simp
  · obtain ⟨g0, _, _, eL, eW⟩ := (hcv p P).1 c hc hne
    have hT : forAllL (procTuple call1 call2 wit post (reprSym c.1) c.2.2) c.2.1 cc st ≠ none := by
      rw [eL, eW]
      exact forAllL_total _ (fun lhs hlhs cc st =>
        procTuple_total hc1 hc2 hps rhsTuples_states _ (lhsTuples_states lhs hlhs) cc st) cc st
    unfold procLeaf
    simp only []
    by_cases h1 : c.2.1.isEmpty = true
    · rw [if_pos h1]; simp
    · rw [if_neg h1]
      by_cases h2 : (c.2.1.headD []).length = 0
      · rw [if_pos h2]; split <;> simp
      · rw [if_neg h2]
        by_cases h3 : c.2.2.isEmpty = true
        · rw [if_pos h3]; simp
        · rw [if_neg h3]; exact hT

theorem expandT_total {o : Ord} (hr : OrdRefl o) {TA TB : TableTD} {A B : Vata.TA} (hcv : CallsCover TA TB A B)
    {wit : Wit} : ∀ (fuel : Nat) (ws : List Pair), muD o A B ws < fuel → TotalCall A B (expandT o TA TB wit fuel ws)
  | 0, _, h => by omega
  | fuel+1, ws, h => by
    intro cc st p P hp hP
    simp only [expandT]
    split
    · simp
    · next hws =>
      split
      · simp
      · split
        · simp
        · split
          · simp
          · have hlt := muD_push_lt hr hp hP (by simpa using hws)
            have hc := expandT_total hr hcv (wit := wit) fuel ((p, P) :: ws) (by omega)
            have hb := bodyT_total hcv (wit := wit) hc hc (fun _ _ hs => InclUp.mem_normS.mp hs) p P [] st
            split
            · next heq => exact absurd heq hb
            · simp
            · simp

theorem rootLoopT_total {o : Ord} {TA TB : TableTD} {A B : Vata.TA} (hcv : CallsCover TA TB A B) {wit : Wit} {fuel : Nat}
    (hc : TotalCall A B (expandT o TA TB wit fuel [])) (FB : List Nat) :
    ∀ (fs : List Nat) (cc : List Pair) (st : St), rootLoopT o TA TB wit fuel FB fs cc st ≠ none
  | [], cc, st => by simp [rootLoopT]
  | f :: fs, cc, st => by
    simp only [rootLoopT]
    split
    · exact rootLoopT_total hcv hc FB fs cc st
    · have hb := bodyT_total hcv (wit := wit) hc hc (fun _ _ hs => InclUp.mem_normS.mp hs) f FB cc st
      split
      · next heq => exact absurd heq hb
      · exact rootLoopT_total hcv hc FB fs _ _
      · simp

/-- the exploration on the tables ends within the bound of the abstract model -/
theorem runTD_terminates {o : Ord} (hr : OrdRefl o) {TA TB : TableTD} {A B : Vata.TA} (hcv : CallsCover TA TB A B)
    {fuel : Nat} (h : fuelBoundD A B < fuel) : ∃ r, runTD o TA A.final TB B.final (prodWit A) fuel = some r := by
  have hc : TotalCall A B (expandT o TA TB (prodWit A) fuel []) :=
    expandT_total hr hcv fuel [] (Nat.lt_of_le_of_lt (muD_le o A B []) h)
  have := rootLoopT_total hcv hc (normS B.final) (dedup A.final) [] ⟨[], []⟩
  unfold runTD
  split
  · next heq => exact absurd heq this
  · exact ⟨_, rfl⟩
  · exact ⟨_, rfl⟩

/-! ### the plain verdict of the run on the tables is exact -/

/-- whatever the run on the tables answers is right: `true` comes with a set that passes the certificate check (modulo the
preorder), `false` with a tree of `L(A) \ L(B)` -/
theorem inclDownTrav_iff {o : Ord} {TA TB : TableTD} {A B : Vata.TA} (hcv : CallsCover TA TB A B)
    (hO : LangOrd A B (leAP o) (leBP o) (leABP o)) (hr : OrdRefl o) (hA : KidsProductive A) {fuel : Nat} {b : Bool}
    (h : inclDownTrav o TA A.final TB B.final (prodWit A) fuel = some b) : b = true ↔ Incl A B := by
  unfold inclDownTrav at h
  split at h
  · cases h
  · next X heq =>
    simp only [Option.some.injEq] at h
    subst h
    have : downCertRB o A B X = true := runTD_spec hcv hO hr hA heq
    exact ⟨fun _ => downCertRB_incl hO this, fun _ => rfl⟩
  · next w heq =>
    simp only [Option.some.injEq] at h
    subst h
    have hw : accepts A w = true ∧ accepts B w = false := runTD_spec hcv hO hr hA heq
    constructor
    · intro hb; cases hb
    · intro hi
      have := hi w hw.1
      rw [hw.2] at this
      cases this

theorem inclDownTrav_total {o : Ord} (hr : OrdRefl o) {TA TB : TableTD} {A B : Vata.TA} (hcv : CallsCover TA TB A B)
    {fuel : Nat} (h : fuelBoundD A B < fuel) : ∃ b, inclDownTrav o TA A.final TB B.final (prodWit A) fuel = some b := by
  obtain ⟨r, hr'⟩ := runTD_terminates hr hcv h
  unfold inclDownTrav
  rw [hr']
  cases r with
  | ok X => exact ⟨true, rfl⟩
  | error w => exact ⟨false, rfl⟩

/-- the certified verdict (certify-then-trust against `A`, `B`) IS the plain one: the check never refuses -/
theorem finish_runTD_eq {TA TB : TableTD} {A B : Vata.TA} (hcv : CallsCover TA TB A B) (hA : KidsProductive A) (fuel : Nat) :
    finish (downCertB A B) A B (runTD idOrd TA A.final TB B.final (prodWit A) fuel) =
      verdictOf (runTD idOrd TA A.final TB B.final (prodWit A) fuel) := by
  apply finish_eq_verdictOf
  intro res hres
  have := runTD_spec hcv (idOrd_langOrd A B) ordRefl_id hA hres
  cases res with
  | ok X => exact (downCertRB_id A B X).symm.trans this
  | error w => exact this

/-! ### the dumps in path order: `CallsCover` without `SymDet` -/

theorem callsCover_pathOrder {n : Nat} {ar : Nat → Nat} {syms : List Nat} {TA TB : TableTD} (FA FB : List Nat)
    (hs : syms.Pairwise (· < ·)) (hb : ∀ c, c ∈ syms → c < 2 ^ n)
    (hcov : ∀ p c, c < 2 ^ n → eval (getTD TA p) (bits c) ≠ [] → c ∈ syms)
    (okA : TabOK n ar TA) (okB : TabOK n ar TB) :
    CallsCover TA TB (pathOrder syms TA FA) (pathOrder syms TB FB) := by
  intro p P
  have hu := unionAllTD_wf okB.wf P
  have hgr := lhsGroups_pathOrder FA hs hb okA p
  constructor
  · intro c hc hne
    have hcP : c ∈ voidApply2P (getTD TA p) (unionAllTD TB P) := (travDown_calls TA TB p P).1 c hc
    obtain ⟨hlt, hin, _⟩ := voidApply2P_nonempty (okA.wf p).1 hu.1 (okA.wf p).2 hu.2 hcP
    obtain ⟨s1, s2⟩ := voidApply2P_sound _ _ _ c hcP hin
    have hsym : reprSym c.1 ∈ syms := hcov p _ hlt (by rw [← s1]; exact hne)
    refine ⟨(reprSym c.1, ar (reprSym c.1)), ?_, rfl, ?_, ?_⟩
    · rw [hgr]
      refine List.mem_map.mpr ⟨reprSym c.1, List.mem_filter.mpr ⟨hsym, ?_⟩, rfl⟩
      rw [← s1]
      simpa using hne
    · rw [s1]; exact (lhsTuples_pathOrder FA hs okA p hsym hlt).symm
    · rw [s2]; exact (rhsTuples_pathOrder FB hs okB P hsym hlt).symm
  · intro g hg
    rw [hgr] at hg
    obtain ⟨f, hf, rfl⟩ := List.mem_map.mp hg
    obtain ⟨hf1, _⟩ := List.mem_filter.mp hf
    have hlt := hb f hf1
    have hpart := voidApply2P_partition (bits f) (getTD TA p) (unionAllTD TB P)
    have hpos : 0 < (voidApply2P (getTD TA p) (unionAllTD TB P)).countP (fun c => inPath (bits f) c.1) := by omega
    obtain ⟨c0, hc0, hin⟩ := List.countP_pos_iff.mp hpos
    obtain ⟨s1, s2⟩ := voidApply2P_sound _ _ _ c0 hc0 hin
    obtain ⟨c', hc', he⟩ := (travDown_calls TA TB p P).2 c0 hc0
    refine ⟨c', hc', ?_, ?_⟩
    · rw [he, s1]; exact (lhsTuples_pathOrder FA hs okA p hf1 hlt).symm
    · rw [he, s2]; exact (rhsTuples_pathOrder FB hs okB P hf1 hlt).symm

end InclDownTables
end Vata
