import Vata.Proofs.InclDownInv
/-!
# Termination and totality of the downward inclusion models

* `run_terminates`, `runN_terminates` : the explorations end when the fuel (the nesting depth of the calls) exceeds
  `fuelBoundD A B = |Q_A| · 2^|Q_B|`: a pair is explored only if the work-set does not cover it, afterwards it does;
* `inclDownRec_total`, `inclDownRec_complete` (and the other models): on an `A` without unproductive children the
  models return a verdict, hence the right one, for every fuel above the bound;
* `checkInclDownRec_total`, `checkInclDownRec_complete`, … : the models of `CheckInclusion` need no hypothesis.
-/
namespace Vata
namespace InclDown
open InclUp (Wit prodWit lookupT normS Cert subsets)

/-! ### the loops are total when the calls are -/

/-- the call answers on the pairs of the domain -/
def TotalCall (A B : TA) (call : Call) : Prop :=
  ∀ cc st p P, p ∈ A.states → (∀ s, s ∈ P → s ∈ B.states) → call cc st p P ≠ none

theorem forAllL_total {α : Type} {f : α → List Pair → St → Ret} :
    ∀ (as : List α), (∀ a, a ∈ as → ∀ cc st, f a cc st ≠ none) → ∀ cc st, forAllL f as cc st ≠ none
  | [], _, cc, st => by simp [forAllL]
  | a :: as, h, cc, st => by
    simp only [forAllL]
    have h1 := h a List.mem_cons_self cc st
    split
    · next heq => exact absurd heq h1
    · exact forAllL_total as (fun a' ha' => h a' (List.mem_cons_of_mem _ ha')) _ _
    · simp

theorem allPos_total {A B : TA} {call : Call} (hc : TotalCall A B call) {lhs rhs : List Nat}
    (hl : ∀ l, l ∈ lhs → l ∈ A.states) (hr : ∀ s, s ∈ rhs → s ∈ B.states) (cc : List Pair) (st : St) :
    allPos call lhs rhs cc st ≠ none := by
  unfold allPos
  apply forAllL_total
  intro lr hlr cc st
  obtain ⟨h1, h2⟩ := List.of_mem_zip hlr
  exact hc cc st lr.1 [lr.2] (hl _ h1) (fun s hs => by simp only [List.mem_singleton] at hs; rw [hs]; exact hr _ h2)

theorem anyTuple_total {A B : TA} {call : Call} (hc : TotalCall A B call) {lhs : List Nat}
    (hl : ∀ l, l ∈ lhs → l ∈ A.states) : ∀ (W : List (List Nat)), (∀ w, w ∈ W → ∀ s, s ∈ w → s ∈ B.states) →
      ∀ cc st, anyTuple call lhs W cc st ≠ none
  | [], _, cc, st => by simp [anyTuple]
  | w :: W, hW, cc, st => by
    simp only [anyTuple]
    have h1 := allPos_total hc hl (hW w List.mem_cons_self) cc st
    split
    · next heq => exact absurd heq h1
    · simp
    · exact anyTuple_total hc hl W (fun w' hw' => hW w' (List.mem_cons_of_mem _ hw')) _ _

theorem rawSet_sub {W : List (List Nat)} {cs : List Nat} {i s : Nat} (h : s ∈ rawSet W cs i) :
    ∃ w, w ∈ W ∧ s ∈ w := by
  obtain ⟨w, c, hz, _, hget⟩ := mem_rawSet.mp h
  exact ⟨w, (List.of_mem_zip hz).1, List.mem_of_getElem? hget⟩

theorem consT_ne_none {t : Tree} {r : Option (Option (List Tree) × List Pair × St)} (h : r ≠ none) :
    consT t r ≠ none := by
  unfold consT
  split
  · simp
  · exact h

theorem tryPos_total {A B : TA} {call : Call} {wit : Wit} {post : List Nat → List Nat} (hc : TotalCall A B call)
    (hps : ∀ l s, s ∈ post l → s ∈ l) {W : List (List Nat)} (hW : ∀ w, w ∈ W → ∀ s, s ∈ w → s ∈ B.states)
    (cs : List Nat) : ∀ (ls : List Nat), (∀ l, l ∈ ls → l ∈ A.states) → ∀ i cc st,
      tryPos call wit post W cs i ls cc st ≠ none
  | [], _, i, cc, st => by simp [tryPos]
  | l :: ls, hl, i, cc, st => by
    have hl' : ∀ l', l' ∈ ls → l' ∈ A.states := fun l' h => hl l' (List.mem_cons_of_mem _ h)
    simp only [tryPos]
    split
    · exact consT_ne_none (tryPos_total hc hps hW cs ls hl' _ _ _)
    · have h1 := hc cc st l (posSet post W cs i) (hl l List.mem_cons_self) (fun s hs => by
        obtain ⟨w, hw, hsw⟩ := rawSet_sub (hps _ s hs)
        exact hW w hw s hsw)
      split
      · next heq => exact absurd heq h1
      · simp
      · exact consT_ne_none (tryPos_total hc hps hW cs ls hl' _ _ _)

theorem oneCf_total {A B : TA} {call : Call} {wit : Wit} {post : List Nat → List Nat} (hc : TotalCall A B call)
    (hps : ∀ l s, s ∈ post l → s ∈ l) {W : List (List Nat)} (hW : ∀ w, w ∈ W → ∀ s, s ∈ w → s ∈ B.states)
    (f : Nat) {lhs : List Nat} (hl : ∀ l, l ∈ lhs → l ∈ A.states) (cs : List Nat) (cc : List Pair) (st : St) :
    oneCf call wit post f lhs W cs cc st ≠ none := by
  unfold oneCf
  have h1 := tryPos_total (wit := wit) hc hps hW cs lhs hl 0 cc st
  split
  · next heq => exact absurd heq h1
  · simp
  · simp

theorem cfAll_total {one : List Nat → List Pair → St → Ret} (h : ∀ cs cc st, one cs cc st ≠ none) (n : Nat) :
    ∀ (m : Nat) (cs : List Nat) (cc : List Pair) (st : St), cfAll one n m cs cc st ≠ none
  | 0, cs, cc, st => by simp only [cfAll]; exact h cs cc st
  | m+1, cs, cc, st => by
    simp only [cfAll]
    exact forAllL_total _ (fun i _ cc st => cfAll_total h n m (i :: cs) cc st) cc st

theorem procTuple_total {A B : TA} {call1 call2 : Call} {wit : Wit} {post : List Nat → List Nat}
    (hc1 : TotalCall A B call1) (hc2 : TotalCall A B call2) (hps : ∀ l s, s ∈ post l → s ∈ l)
    {W : List (List Nat)} (hW : ∀ w, w ∈ W → ∀ s, s ∈ w → s ∈ B.states) (f : Nat) {lhs : List Nat}
    (hl : ∀ l, l ∈ lhs → l ∈ A.states) (cc : List Pair) (st : St) :
    procTuple call1 call2 wit post f W lhs cc st ≠ none := by
  unfold procTuple
  have h1 := anyTuple_total hc1 hl W hW cc st
  split
  · next heq => exact absurd heq h1
  · simp
  · exact cfAll_total (fun cs cc st => oneCf_total hc2 hps hW f hl cs cc st) _ _ _ _ _

theorem rhsTuples_states {B : TA} {P : List Nat} {f n : Nat} : ∀ w, w ∈ rhsTuples B P f n → ∀ s, s ∈ w → s ∈ B.states := by
  intro w hw s hs
  obtain ⟨σ, hσ, hσw⟩ := mem_rhsTuples.mp hw
  exact Rn.kid_mem_states (mem_rulesOf.mp hσ).1 (by rw [hσw]; exact hs)

theorem lhsTuples_states {A : TA} {p f n : Nat} : ∀ lhs, lhs ∈ lhsTuples A p f n → ∀ l, l ∈ lhs → l ∈ A.states := by
  intro lhs hlhs l hl
  obtain ⟨ρ, hρ, _, _, _, hk⟩ := mem_lhsTuples.mp hlhs
  exact Rn.kid_mem_states hρ (by rw [hk]; exact hl)

theorem body_total {A B : TA} {call1 call2 : Call} {wit : Wit} {post : List Nat → List Nat}
    (hc1 : TotalCall A B call1) (hc2 : TotalCall A B call2) (hps : ∀ l s, s ∈ post l → s ∈ l)
    (p : Nat) (P : List Nat) (cc : List Pair) (st : St) : body call1 call2 A B wit post p P cc st ≠ none := by
  unfold body
  apply forAllL_total
  intro g _ cc st
  unfold procGroup
  simp only
  split
  · split <;> simp
  · split
    · simp
    · exact forAllL_total _ (fun lhs hlhs cc st =>
        procTuple_total hc1 hc2 hps rhsTuples_states g.1 (lhsTuples_states lhs hlhs) cc st) cc st


/-! ### the measure: pairs of the universe not covered by the work-set -/

/-- all pairs of a state of `A` and a subset of the states of `B` -/
def univD (A B : TA) : List Pair := A.states.flatMap (fun q => (subsets B.states).map (fun T => (q, T)))

/-- the bound on the nesting depth of the calls -/
def fuelBoundD (A B : TA) : Nat := A.states.length * 2 ^ B.states.length

theorem length_univD (A B : TA) : (univD A B).length = fuelBoundD A B := by
  unfold univD fuelBoundD
  rw [InclUp.length_flatMap_const _ (2 ^ B.states.length)]
  intro a
  simp [InclUp.length_subsets]

def muD (o : Ord) (A B : TA) (ws : List Pair) : Nat := (univD A B).countP (fun x => !covers o ws x.1 x.2)

theorem muD_le (o : Ord) (A B : TA) (ws : List Pair) : muD o A B ws ≤ fuelBoundD A B := by
  rw [← length_univD]; exact List.countP_le_length

theorem setLe_mono {o : Ord} {S P P' : List Nat} (h : setLe o S P = true) (hP : ∀ s, s ∈ P → s ∈ P') :
    setLe o S P' = true := by
  simp only [setLe, List.all_eq_true, List.any_eq_true] at h ⊢
  intro s' hs'
  obtain ⟨s, hs, hle⟩ := h s' hs'
  exact ⟨s, hP s hs, hle⟩

theorem covers_mono {o : Ord} {ws : List Pair} {p : Nat} {P P' : List Nat} (h : covers o ws p P = true)
    (hP : ∀ s, s ∈ P → s ∈ P') : covers o ws p P' = true := by
  simp only [covers, List.any_eq_true, Bool.and_eq_true] at h ⊢
  obtain ⟨x, hx, h1, h2⟩ := h
  exact ⟨x, hx, h1, setLe_mono h2 hP⟩

/-- exploring a pair that the work-set does not cover decreases the measure -/
theorem muD_push_lt {o : Ord} (hr : OrdRefl o) {A B : TA} {ws : List Pair} {p : Nat} {P : List Nat}
    (hp : p ∈ A.states) (hP : ∀ s, s ∈ P → s ∈ B.states) (hc : covers o ws p P = false) :
    muD o A B ((p, P) :: ws) < muD o A B ws := by
  apply countP_lt_of_new
  · intro x _ hx
    simp only [covers, List.any_cons, Bool.not_or, Bool.and_eq_true] at hx
    exact hx.2
  · refine ⟨(p, B.states.filter (fun s => P.contains s)), ?_, ?_, ?_⟩
    · simp only [univD, List.mem_flatMap, List.mem_map, Prod.mk.injEq]
      exact ⟨p, hp, _, InclUp.filter_mem_subsets _ _, rfl, rfl⟩
    · simp only [Bool.not_eq_true']
      cases hc' : covers o ws p (B.states.filter (fun s => P.contains s)) with
      | false => rfl
      | true =>
        have := covers_mono hc' (P' := P) (fun s hs => by
          simp only [List.mem_filter, List.contains_iff_mem] at hs
          exact hs.2)
        rw [hc] at this; cases this
    · have : covers o ((p, P) :: ws) p (B.states.filter (fun s => P.contains s)) = true := by
        simp only [covers, List.any_cons, Bool.or_eq_true, Bool.and_eq_true]
        refine Or.inl ⟨hr.reflA p, ?_⟩
        simp only [setLe, List.all_eq_true, List.any_eq_true]
        intro s hs
        exact ⟨s, by simp only [List.mem_filter, List.contains_iff_mem]; exact ⟨hP s hs, hs⟩, hr.reflB s⟩
      rw [this]; simp

/-! ### the recursive algorithm terminates -/

theorem expand_total {o : Ord} (hr : OrdRefl o) {A B : TA} {wit : Wit} :
    ∀ (fuel : Nat) (ws : List Pair), muD o A B ws < fuel → TotalCall A B (expand o A B wit fuel ws)
  | 0, _, h => by omega
  | fuel+1, ws, h => by
    intro cc st p P hp hP
    simp only [expand]
    split
    · simp
    · next hws =>
      split
      · simp
      · split
        · simp
        · split
          · simp
          · have hlt := muD_push_lt hr hp hP (by simpa using hws)
            have hc := expand_total hr (A := A) (B := B) (wit := wit) fuel ((p, P) :: ws) (by omega)
            have hb := body_total (wit := wit) hc hc (fun _ _ hs => InclUp.mem_normS.mp hs) p P [] st
            split
            · next heq => exact absurd heq hb
            · simp
            · simp

theorem rootLoop_total {o : Ord} {A B : TA} {wit : Wit} {fuel : Nat}
    (hc : TotalCall A B (expand o A B wit fuel [])) (FB : List Nat) :
    ∀ (fs : List Nat) (cc : List Pair) (st : St), rootLoop o A B wit fuel FB fs cc st ≠ none
  | [], cc, st => by simp [rootLoop]
  | f :: fs, cc, st => by
    simp only [rootLoop]
    split
    · exact rootLoop_total hc FB fs cc st
    · have hb := body_total (wit := wit) hc hc (fun _ _ hs => InclUp.mem_normS.mp hs) f FB cc st
      split
      · next heq => exact absurd heq hb
      · exact rootLoop_total hc FB fs _ _
      · simp

/-- the exploration of the recursive algorithm ends within the bound -/
theorem run_terminates {o : Ord} (hr : OrdRefl o) {A B : TA} {fuel : Nat} (h : fuelBoundD A B < fuel) :
    ∃ r, run o A B fuel = some r := by
  have hc : TotalCall A B (expand o A B (prodWit A) fuel []) :=
    expand_total hr fuel [] (Nat.lt_of_le_of_lt (muD_le o A B []) h)
  have := rootLoop_total hc (normS B.final) (dedup A.final) [] ⟨[], []⟩
  unfold run
  split
  · next heq => exact absurd heq this
  · exact ⟨_, rfl⟩
  · exact ⟨_, rfl⟩

/-! ### the non-recursive algorithm terminates -/

theorem cachedCall_total {o : Ord} {A B : TA} {call : Call} (hc : TotalCall A B call) :
    TotalCall A B (cachedCall o call) := by
  intro cc st p P hp hP
  unfold cachedCall
  split
  · simp
  · have := hc cc st p P hp hP
    split
    · next heq => exact absurd heq this
    · simp
    · simp

theorem maxPost_sub (o : Ord) : ∀ (l : List Nat) (s : Nat), s ∈ normS (maxElems o l []) → s ∈ l := by
  intro l s hs
  rcases mem_maxElems (InclUp.mem_normS.mp hs) with h | h
  · exact h
  · exact absurd h List.not_mem_nil

theorem expandN_total {o : Ord} (hr : OrdRefl o) {A B : TA} {wit : Wit} :
    ∀ (fuel : Nat) (ws : List Pair), muD o A B ws < fuel → TotalCall A B (expandN o A B wit fuel ws)
  | 0, _, h => by omega
  | fuel+1, ws, h => by
    intro cc st p P hp hP
    simp only [expandN]
    split
    · simp
    · split
      · simp
      · next hws =>
        split
        · simp
        · have hlt := muD_push_lt hr hp hP (by simpa using hws)
          have hc := expandN_total hr (A := A) (B := B) (wit := wit) fuel ((p, P) :: ws) (by omega)
          have hb := body_total (wit := wit) (post := fun l => normS (maxElems o l [])) hc
            (cachedCall_total (o := o) hc) (maxPost_sub o) p P [] st
          split
          · next heq => exact absurd heq hb
          · simp
          · simp

theorem rootLoopN_total {o : Ord} {A B : TA} {wit : Wit} {fuel : Nat}
    (hc : TotalCall A B (expandN o A B wit fuel [])) {FB : List Nat} (hFB : ∀ s, s ∈ FB → s ∈ B.states) :
    ∀ (fs : List Nat), (∀ f, f ∈ fs → f ∈ A.states) → ∀ (st : St), rootLoopN o A B wit fuel FB fs st ≠ none
  | [], _, st => by simp [rootLoopN]
  | f :: fs, hfs, st => by
    simp only [rootLoopN]
    have := hc [] st f FB (hfs f List.mem_cons_self) hFB
    split
    · next heq => exact absurd heq this
    · exact rootLoopN_total hc hFB fs (fun f' hf' => hfs f' (List.mem_cons_of_mem _ hf')) _
    · simp

theorem runN_terminates {o : Ord} (hr : OrdRefl o) {A B : TA} {fuel : Nat} (h : fuelBoundD A B < fuel) :
    ∃ r, runN o A B fuel = some r := by
  have hc : TotalCall A B (expandN o A B (prodWit A) fuel []) :=
    expandN_total hr fuel [] (Nat.lt_of_le_of_lt (muD_le o A B []) h)
  have := rootLoopN_total hc (FB := normS B.final)
    (fun s hs => Rn.final_mem_states (InclUp.mem_normS.mp hs)) (dedup A.final)
    (fun f hf => Rn.final_mem_states (mem_dedup.mp hf)) ⟨[], []⟩
  unfold runN
  split
  · next heq => exact absurd heq this
  · exact ⟨_, rfl⟩
  · exact ⟨_, rfl⟩


theorem verdictOf_some (res : Except Tree (List Pair)) : ∃ b c, verdictOf (some res) = some (b, c) := by
  cases res with
  | ok X => exact ⟨true, .closed X, rfl⟩
  | error w => exact ⟨false, .witness w, rfl⟩

theorem complete_of_total {A B : TA} {m : Option (Bool × Cert)}
    (hiff : ∀ b c, m = some (b, c) → (b = true ↔ Incl A B)) (htot : ∃ b c, m = some (b, c)) :
    (Incl A B → ∃ c, m = some (true, c)) ∧ (¬ Incl A B → ∃ c, m = some (false, c)) := by
  obtain ⟨b, c, h⟩ := htot
  have := hiff b c h
  cases b with
  | true => exact ⟨fun _ => ⟨c, h⟩, fun hn => absurd (this.mp rfl) hn⟩
  | false => exact ⟨fun hi => (by cases this.mpr hi), fun _ => ⟨c, h⟩⟩

end InclDown

open InclDown

/-! ### totality and completeness of the models -/

/-- on an `A` without unproductive children the recursive model returns a verdict for every fuel above the bound -/
theorem inclDownRec_total {A B : TA} (hA : KidsProductive A) {fuel : Nat} (hf : fuelBoundD A B < fuel) :
    ∃ b c, inclDownRec A B fuel = some (b, c) := by
  obtain ⟨r, hr⟩ := run_terminates (o := idOrd) ordRefl_id hf
  rw [inclDownRec_eq_run hA, hr]
  exact verdictOf_some r

/-- … and it is the right one -/
theorem inclDownRec_complete {A B : TA} (hA : KidsProductive A) {fuel : Nat} (hf : fuelBoundD A B < fuel) :
    (Incl A B → ∃ c, inclDownRec A B fuel = some (true, c)) ∧
    (¬ Incl A B → ∃ c, inclDownRec A B fuel = some (false, c)) :=
  complete_of_total (fun _ _ h => inclDownRec_iff h) (inclDownRec_total hA hf)

theorem inclDownNonrec_total {A B : TA} (hA : KidsProductive A) {fuel : Nat} (hf : fuelBoundD A B < fuel) :
    ∃ b c, inclDownNonrec A B fuel = some (b, c) := by
  obtain ⟨r, hr⟩ := runN_terminates (o := idOrd) ordRefl_id hf
  rw [inclDownNonrec_eq_run hA, hr]
  exact verdictOf_some r

theorem inclDownNonrec_complete {A B : TA} (hA : KidsProductive A) {fuel : Nat} (hf : fuelBoundD A B < fuel) :
    (Incl A B → ∃ c, inclDownNonrec A B fuel = some (true, c)) ∧
    (¬ Incl A B → ∃ c, inclDownNonrec A B fuel = some (false, c)) :=
  complete_of_total (fun _ _ h => inclDownNonrec_iff h) (inclDownNonrec_total hA hf)

/-- the models of `CheckInclusion` (operands sanitised first) are total and complete without hypothesis -/
theorem checkInclDownRec_total (A B : TA) {fuel : Nat}
    (hf : fuelBoundD (removeUseless A) (removeUseless B) < fuel) : ∃ b c, checkInclDownRec A B fuel = some (b, c) :=
  inclDownRec_total (kidsProductive_removeUseless A) hf

theorem checkInclDownRec_complete (A B : TA) {fuel : Nat}
    (hf : fuelBoundD (removeUseless A) (removeUseless B) < fuel) :
    (Incl A B → ∃ c, checkInclDownRec A B fuel = some (true, c)) ∧
    (¬ Incl A B → ∃ c, checkInclDownRec A B fuel = some (false, c)) :=
  complete_of_total (fun _ _ h => checkInclDownRec_iff h) (checkInclDownRec_total A B hf)

theorem checkInclDownNonrec_total (A B : TA) {fuel : Nat}
    (hf : fuelBoundD (removeUseless A) (removeUseless B) < fuel) :
    ∃ b c, checkInclDownNonrec A B fuel = some (b, c) :=
  inclDownNonrec_total (kidsProductive_removeUseless A) hf

theorem checkInclDownNonrec_complete (A B : TA) {fuel : Nat}
    (hf : fuelBoundD (removeUseless A) (removeUseless B) < fuel) :
    (Incl A B → ∃ c, checkInclDownNonrec A B fuel = some (true, c)) ∧
    (¬ Incl A B → ∃ c, checkInclDownNonrec A B fuel = some (false, c)) :=
  complete_of_total (fun _ _ h => checkInclDownNonrec_iff h) (checkInclDownNonrec_total A B hf)

/-- with a validated simulation on disjoint operands -/
theorem inclDownSim_total {A B : TA} {R : Rel} (hA : KidsProductive A)
    (hsim : isDownSimB (unionDisjoint A B) R = true) (hdis : disjointB A B = true) {fuel : Nat}
    (hf : fuelBoundD A B < fuel) : ∃ b c, inclDownSim A B R fuel = some (b, c) := by
  obtain ⟨r, hr⟩ := run_terminates (o := ordOf R A B) (ordRefl_ordOf R A B) hf
  rw [inclDownSim_eq_run hA hsim hdis, hr]
  exact verdictOf_some r

theorem inclDownSim_complete {A B : TA} {R : Rel} (hA : KidsProductive A)
    (hsim : isDownSimB (unionDisjoint A B) R = true) (hdis : disjointB A B = true) {fuel : Nat}
    (hf : fuelBoundD A B < fuel) :
    (Incl A B → ∃ c, inclDownSim A B R fuel = some (true, c)) ∧
    (¬ Incl A B → ∃ c, inclDownSim A B R fuel = some (false, c)) :=
  complete_of_total (fun _ _ h => inclDownSim_iff h) (inclDownSim_total hA hsim hdis hf)

theorem inclDownNonrecSim_total {A B : TA} {R : Rel} (hA : KidsProductive A)
    (hsim : isDownSimB (unionDisjoint A B) R = true) (hdis : disjointB A B = true)
    (hR : ∀ a b c, (a, b) ∈ R → (b, c) ∈ R → (a, c) ∈ R) {fuel : Nat}
    (hf : fuelBoundD A B < fuel) : ∃ b c, inclDownNonrecSim A B R fuel = some (b, c) := by
  obtain ⟨r, hr⟩ := runN_terminates (o := ordOf R A B) (ordRefl_ordOf R A B) hf
  rw [inclDownNonrecSim_eq_run hA hsim hdis hR, hr]
  exact verdictOf_some r

theorem inclDownNonrecSim_complete {A B : TA} {R : Rel} (hA : KidsProductive A)
    (hsim : isDownSimB (unionDisjoint A B) R = true) (hdis : disjointB A B = true)
    (hR : ∀ a b c, (a, b) ∈ R → (b, c) ∈ R → (a, c) ∈ R) {fuel : Nat} (hf : fuelBoundD A B < fuel) :
    (Incl A B → ∃ c, inclDownNonrecSim A B R fuel = some (true, c)) ∧
    (¬ Incl A B → ∃ c, inclDownNonrecSim A B R fuel = some (false, c)) :=
  complete_of_total (fun _ _ h => inclDownNonrecSim_iff h) (inclDownNonrecSim_total hA hsim hdis hR hf)

/-! ### examples (non-vacuity) -/
namespace InclDownTotalEx
open InclDownEx InclUp

example : fuelBoundD exG exH = 16 := by decide
example : muD idOrd exG exH [] = 16 := by decide
example : muD idOrd exG exH [(1, [3])] < muD idOrd exG exH [] :=
  muD_push_lt ordRefl_id (by decide) (by decide) (by decide)
example : ∃ r, run idOrd exG exH 17 = some r := run_terminates ordRefl_id (by decide)
example : ∃ b c, inclDownRec exG exH 17 = some (b, c) :=
  inclDownRec_total (trimmed_of_allUsefulB (by decide)).1 (by decide)
example : ¬ Incl exG exH → ∃ c, inclDownNonrec exG exH 17 = some (false, c) :=
  (inclDownNonrec_complete (trimmed_of_allUsefulB (by decide)).1 (by decide)).2
example : fuelBoundD exS1 exS2 = 48 := by decide
example : Incl exS1 exS2 → ∃ c, inclDownSim exS1 exS2 [(5, 6)] 49 = some (true, c) :=
  (inclDownSim_complete (trimmed_of_allUsefulB (by decide)).1 (by decide) (by decide) (by decide)).1
-- the bound is generous: the runs of the examples need little fuel (bounds 16 and 192)
#guard verdict (inclDownRec exG exH 1) == some false
#guard verdict (inclDownRec exU1 exU2 3) == some false
#guard verdict (inclDownRec exU1 exU2 2) == none
#guard verdict (inclDownRec exU2 exU1 4) == some true
#guard verdict (inclDownRec exU2 exU1 3) == none

end InclDownTotalEx

end Vata
