import Vata.Spec
/-!
# The reference simulations `downSimRef` / `upSimRef` (C04) and the quotient `reduce` (C05)

* `isDownSimB_iff`, `isUpSimB_iff`     the Boolean checkers are exactly the specifications `DownSim` / `IsUpSim`
* `downSimRef_contains`, `upSimRef_contains`   every simulation is contained in the computed relation (on `A.states`)
* `downSimRef_sim`, `upSimRef_sim`     the computed relation is a simulation (unconditionally: `|Q|²+1` rounds suffice)
* `greatest_downSim_preorder`, `greatest_upSim_preorder`   reflexive on `A.states`, transitive
* `collapse_lang_on`, `reduce_lang`, `reduce_trim_lang`    collapsing simulation-equivalent states keeps the language

Helper lemmas live in the namespace `Vata.SimModel`; the main theorems in `Vata`.
-/
namespace Vata

/-- the relation (as a predicate) given by a list of pairs -/
def RelOf (R : Rel) : Nat → Nat → Prop := fun q r => (q, r) ∈ R

instance (R : Rel) (q r : Nat) : Decidable (RelOf R q r) := inferInstanceAs (Decidable ((q, r) ∈ R))

namespace SimModel

/-! ### the duplicate-free list toolkit of `Ref.lean` -/

theorem mem_ins {x y : Nat} {l : List Nat} : y ∈ ins x l ↔ y ∈ l ∨ y = x := by
  unfold ins
  split
  · rename_i h
    have hx : x ∈ l := List.contains_iff_mem.mp h
    constructor
    · intro hy; exact Or.inl hy
    · intro hy
      cases hy with
      | inl hy => exact hy
      | inr hy => rw [hy]; exact hx
  · simp only [List.mem_append, List.mem_singleton]

theorem mem_unionL {y : Nat} : ∀ {l₂ l₁ : List Nat}, y ∈ unionL l₁ l₂ ↔ y ∈ l₁ ∨ y ∈ l₂
  | [], l₁ => by simp [unionL]
  | x :: l₂, l₁ => by
    have ih := @mem_unionL y l₂ (ins x l₁)
    unfold unionL at ih ⊢
    rw [List.foldl_cons, ih, mem_ins, List.mem_cons]
    constructor
    · rintro ((h | h) | h)
      · exact Or.inl h
      · exact Or.inr (Or.inl h)
      · exact Or.inr (Or.inr h)
    · rintro (h | h | h)
      · exact Or.inl (Or.inl h)
      · exact Or.inl (Or.inr h)
      · exact Or.inr h

theorem mem_dedupL {y : Nat} {l : List Nat} : y ∈ dedupL l ↔ y ∈ l := by
  unfold dedupL
  rw [mem_unionL]
  simp

/-- the states of `A` are the states occurring in a rule or in the final set -/
theorem mem_states {A : TA} {q : Nat} :
    q ∈ A.states ↔ q ∈ A.final ∨ ∃ ρ, ρ ∈ A.rules ∧ (ρ.parent = q ∨ q ∈ ρ.kids) := by
  unfold TA.states
  rw [mem_dedupL, List.mem_append, List.mem_flatMap]
  constructor
  · rintro (⟨ρ, hρ, hq⟩ | h)
    · refine Or.inr ⟨ρ, hρ, ?_⟩
      simp only [Rule.states, List.mem_cons] at hq
      cases hq with
      | inl h => exact Or.inl h.symm
      | inr h => exact Or.inr h
    · exact Or.inl h
  · rintro (h | ⟨ρ, hρ, hq⟩)
    · exact Or.inr h
    · refine Or.inl ⟨ρ, hρ, ?_⟩
      simp only [Rule.states, List.mem_cons]
      cases hq with
      | inl h => exact Or.inl h.symm
      | inr h => exact Or.inr h

theorem mem_states_iff_occurs {A : TA} {q : Nat} : q ∈ A.states ↔ Occurs A q := mem_states

theorem parent_mem_states {A : TA} {ρ : Rule} (hρ : ρ ∈ A.rules) : ρ.parent ∈ A.states :=
  mem_states.mpr (Or.inr ⟨ρ, hρ, Or.inl rfl⟩)

theorem kid_mem_states {A : TA} {ρ : Rule} (hρ : ρ ∈ A.rules) {k : Nat} (hk : k ∈ ρ.kids) : k ∈ A.states :=
  mem_states.mpr (Or.inr ⟨ρ, hρ, Or.inr hk⟩)

theorem final_mem_states {A : TA} {q : Nat} (hq : q ∈ A.final) : q ∈ A.states :=
  mem_states.mpr (Or.inl hq)

/-! ### `allPairs` -/

theorem mem_allPairs {Q : List Nat} {q r : Nat} : (q, r) ∈ allPairs Q ↔ q ∈ Q ∧ r ∈ Q := by
  unfold allPairs
  simp only [List.mem_flatMap, List.mem_map, Prod.mk.injEq]
  constructor
  · rintro ⟨a, ha, b, hb, h1, h2⟩
    exact ⟨h1 ▸ ha, h2 ▸ hb⟩
  · rintro ⟨hq, hr⟩
    exact ⟨q, hq, r, hr, rfl, rfl⟩

theorem length_flatMap_map {α β γ : Type} (f : α → β → γ) (Q' : List β) :
    ∀ Q : List α, (Q.flatMap (fun q => Q'.map (f q))).length = Q.length * Q'.length
  | [] => by simp
  | q :: Q => by
    rw [List.flatMap_cons, List.length_append, length_flatMap_map f Q' Q, List.length_map, List.length_cons,
      Nat.succ_mul, Nat.add_comm]

theorem length_allPairs (Q : List Nat) : (allPairs Q).length = Q.length * Q.length :=
  length_flatMap_map _ Q Q

/-! ### `All2` -/

theorem all2_mono {α β : Type} {R R' : α → β → Prop} (h : ∀ a b, R a b → R' a b) :
    ∀ {l : List α} {l' : List β}, All2 R l l' → All2 R' l l'
  | _, _, All2.nil => All2.nil
  | _, _, All2.cons hd tl => All2.cons (h _ _ hd) (all2_mono h tl)

/-- monotonicity where the relation only has to be enlarged on the elements of the two lists -/
theorem all2_mono_mem {α β : Type} {R R' : α → β → Prop} :
    ∀ {l : List α} {l' : List β}, All2 R l l' → (∀ a b, a ∈ l → b ∈ l' → R a b → R' a b) → All2 R' l l'
  | _, _, All2.nil, _ => All2.nil
  | _, _, All2.cons hd tl, h =>
    All2.cons (h _ _ List.mem_cons_self List.mem_cons_self hd)
      (all2_mono_mem tl (fun a b ha hb => h a b (List.mem_cons_of_mem _ ha) (List.mem_cons_of_mem _ hb)))

theorem all2_refl {α : Type} : ∀ l : List α, All2 (fun a b => a = b) l l
  | [] => All2.nil
  | _ :: l => All2.cons rfl (all2_refl l)

theorem all2_comp {α β γ : Type} {R : α → β → Prop} {R' : β → γ → Prop} :
    ∀ {l : List α} {l' : List β} {l'' : List γ}, All2 R l l' → All2 R' l' l'' →
      All2 (fun a c => ∃ b, R a b ∧ R' b c) l l''
  | _, _, _, All2.nil, All2.nil => All2.nil
  | _, _, _, All2.cons hd tl, All2.cons hd' tl' => All2.cons ⟨_, hd, hd'⟩ (all2_comp tl tl')

/-! ### the Boolean checks against the specifications -/

theorem kidsRel_iff (R : Rel) : ∀ ks ks' : List Nat, kidsRel R ks ks' = true ↔ All2 (RelOf R) ks ks'
  | [], [] => by simp only [kidsRel, true_iff]; exact All2.nil
  | [], _ :: _ => by
    simp only [kidsRel, Bool.false_eq_true, false_iff]
    intro h; cases h
  | _ :: _, [] => by
    simp only [kidsRel, Bool.false_eq_true, false_iff]
    intro h; cases h
  | k :: ks, k' :: ks' => by
    simp only [kidsRel, Bool.and_eq_true, List.contains_iff_mem, kidsRel_iff R ks ks']
    constructor
    · rintro ⟨h1, h2⟩; exact All2.cons h1 h2
    · intro h
      cases h with
      | cons h1 h2 => exact ⟨h1, h2⟩

/-- `downOk` is exactly the transfer condition of a downward simulation for the pair `(q, r)` -/
theorem downOk_iff (A : TA) (R : Rel) (q r : Nat) :
    downOk A R q r = true ↔ ∀ ρ, ρ ∈ A.rules → ρ.parent = q →
      ∃ σ, σ ∈ A.rules ∧ σ.parent = r ∧ σ.sym = ρ.sym ∧ All2 (RelOf R) ρ.kids σ.kids := by
  simp only [downOk, List.all_eq_true, Bool.or_eq_true, bne_iff_ne, ne_eq, List.any_eq_true, Bool.and_eq_true,
    beq_iff_eq, kidsRel_iff]
  constructor
  · intro h ρ hρ hp
    cases h ρ hρ with
    | inl h1 => exact absurd hp h1
    | inr h1 =>
      obtain ⟨σ, hσ, ⟨h2, h3⟩, h4⟩ := h1
      exact ⟨σ, hσ, h2, h3, h4⟩
  · intro h ρ hρ
    by_cases hp : ρ.parent = q
    · obtain ⟨σ, hσ, h2, h3, h4⟩ := h ρ hρ hp
      exact Or.inr ⟨σ, hσ, ⟨h2, h3⟩, h4⟩
    · exact Or.inl hp

/-- `upOk` is exactly the transfer condition of an upward simulation for the pair `(q, r)` -/
theorem upOk_iff (A : TA) (R : Rel) (q r : Nat) :
    upOk A R q r = true ↔ (q ∈ A.final → r ∈ A.final) ∧
      ∀ ρ, ρ ∈ A.rules → ∀ i, ρ.kids[i]? = some q →
        ∃ σ, σ ∈ A.rules ∧ σ.sym = ρ.sym ∧ σ.kids = setAt ρ.kids i r ∧ RelOf R ρ.parent σ.parent := by
  simp only [upOk, List.all_eq_true, Bool.or_eq_true, bne_iff_ne, ne_eq, List.any_eq_true, Bool.and_eq_true,
    beq_iff_eq, List.contains_iff_mem, Bool.not_eq_true', List.mem_range, RelOf]
  constructor
  · rintro ⟨hf, h⟩
    refine ⟨?_, ?_⟩
    · intro hq
      cases hf with
      | inl h1 =>
        have : A.final.contains q = true := List.contains_iff_mem.mpr hq
        rw [h1] at this; cases this
      | inr h1 => exact h1
    · intro ρ hρ i hi
      have hlt : i < ρ.kids.length := by
        obtain ⟨hlt, _⟩ := List.getElem?_eq_some_iff.mp hi
        exact hlt
      cases h ρ hρ i hlt with
      | inl h1 => exact absurd hi h1
      | inr h1 =>
        obtain ⟨σ, hσ, ⟨h2, h3⟩, h4⟩ := h1
        exact ⟨σ, hσ, h2, h3, h4⟩
  · rintro ⟨hf, h⟩
    refine ⟨?_, ?_⟩
    · by_cases hq : q ∈ A.final
      · exact Or.inr (hf hq)
      · left
        cases hc : A.final.contains q with
        | false => rfl
        | true => exact absurd (List.contains_iff_mem.mp hc) hq
    · intro ρ hρ i _
      by_cases hi : ρ.kids[i]? = some q
      · obtain ⟨σ, hσ, h2, h3, h4⟩ := h ρ hρ i hi
        exact Or.inr ⟨σ, hσ, ⟨h2, h3⟩, h4⟩
      · exact Or.inl hi

/-! ### the refinement loop -/

theorem refineIter_sub (ok : Rel → Nat → Nat → Bool) :
    ∀ (n : Nat) (R : Rel) (p : Nat × Nat), p ∈ refineIter ok n R → p ∈ R
  | 0, _, _, h => h
  | n+1, R, p, h => by
    simp only [refineIter] at h
    split at h
    · exact h
    · exact (List.mem_filter.mp (refineIter_sub ok n _ p h)).1

/-- a set `P` of pairs that always passes the test (whenever it is inside the current relation) is never filtered out -/
theorem refineIter_contains (ok : Rel → Nat → Nat → Bool) (P : Nat × Nat → Prop)
    (hstep : ∀ R : Rel, (∀ p, P p → p ∈ R) → ∀ p, P p → ok R p.1 p.2 = true) :
    ∀ (n : Nat) (R : Rel), (∀ p, P p → p ∈ R) → ∀ p, P p → p ∈ refineIter ok n R
  | 0, _, h, p, hp => h p hp
  | n+1, R, h, p, hp => by
    simp only [refineIter]
    split
    · exact h p hp
    · apply refineIter_contains ok P hstep n _ _ p hp
      intro p' hp'
      exact List.mem_filter.mpr ⟨h p' hp', hstep R h p' hp'⟩

/-- with more rounds than pairs, the loop stops at a relation all of whose pairs pass the test -/
theorem refineIter_stable (ok : Rel → Nat → Nat → Bool) :
    ∀ (n : Nat) (R : Rel), R.length < n →
      ∀ p, p ∈ refineIter ok n R → ok (refineIter ok n R) p.1 p.2 = true
  | 0, _, h, _, _ => absurd h (Nat.not_lt_zero _)
  | n+1, R, h, p, hp => by
    simp only [refineIter] at hp ⊢
    split
    · rename_i heq
      rw [if_pos heq] at hp
      exact List.length_filter_eq_length_iff.mp (eq_of_beq heq) p hp
    · rename_i hne
      rw [if_neg hne] at hp
      have hle := List.length_filter_le (fun p => ok R p.1 p.2) R
      have hne' : (R.filter (fun p => ok R p.1 p.2)).length ≠ R.length := fun e => hne (by rw [e]; exact beq_self_eq_true _)
      exact refineIter_stable ok n _ (by omega) p hp

end SimModel

open SimModel

/-! ### 1. Boolean checkers = specifications -/

theorem isDownSimB_iff (A : TA) (R : Rel) : isDownSimB A R = true ↔ DownSim A (RelOf R) := by
  simp only [isDownSimB, List.all_eq_true, downOk_iff, DownSim]
  constructor
  · intro h q r hqr; exact h (q, r) hqr
  · intro h p hp; exact h p.1 p.2 hp

theorem isUpSimB_iff (A : TA) (R : Rel) : isUpSimB A R = true ↔ IsUpSim A (RelOf R) := by
  simp only [isUpSimB, List.all_eq_true, upOk_iff, IsUpSim]
  constructor
  · intro h q r hqr; exact h (q, r) hqr
  · intro h p hp; exact h p.1 p.2 hp


/-! a concrete automaton for the non-vacuity examples:
`a → 0`, `a → 1`, `f(0,1) → 2`, `f(1,0) → 3`, `g(2) → 4`, final `{2, 3}`;  `0 ≃ 1`, `2 ≃ 3`, and `4` is simulated by nothing else -/
def SimModel.exA : TA := ⟨[⟨0, [], 0⟩, ⟨0, [], 1⟩, ⟨1, [0, 1], 2⟩, ⟨1, [1, 0], 3⟩, ⟨2, [2], 4⟩], [2, 3]⟩
def SimModel.exH : Nat → Nat := fun q => if q = 1 then 0 else if q = 3 then 2 else q

example : isDownSimB exA [(0, 1), (1, 0), (2, 3)] = true ∧ DownSim exA (RelOf [(0, 1), (1, 0), (2, 3)]) :=
  ⟨by decide, (isDownSimB_iff _ _).mp (by decide)⟩
example : isDownSimB exA [(2, 4)] = false ∧ ¬ DownSim exA (RelOf [(2, 4)]) :=
  ⟨by decide, fun h => absurd ((isDownSimB_iff _ _).mpr h) (by decide)⟩
example : isUpSimB exA [(3, 2), (4, 0)] = true ∧ IsUpSim exA (RelOf [(3, 2), (4, 0)]) :=
  ⟨by decide, (isUpSimB_iff _ _).mp (by decide)⟩
example : isUpSimB exA [(0, 1)] = false ∧ ¬ IsUpSim exA (RelOf [(0, 1)]) :=
  ⟨by decide, fun h => absurd ((isUpSimB_iff _ _).mpr h) (by decide)⟩

/-! ### 2. every simulation is contained in the computed relation -/

theorem downSimRef_sub (A : TA) {q r : Nat} (h : (q, r) ∈ downSimRef A) : q ∈ A.states ∧ r ∈ A.states :=
  mem_allPairs.mp (refineIter_sub (downOk A) _ _ _ h)

theorem upSimRef_sub (A : TA) {q r : Nat} (h : (q, r) ∈ upSimRef A) : q ∈ A.states ∧ r ∈ A.states :=
  mem_allPairs.mp (refineIter_sub (upOk A) _ _ _ h)

theorem downSimRef_contains (A : TA) (S : Nat → Nat → Prop) (hS : DownSim A S) (q r : Nat)
    (hq : q ∈ A.states) (hr : r ∈ A.states) : S q r → (q, r) ∈ downSimRef A := by
  intro hqr
  refine refineIter_contains (downOk A) (fun p => S p.1 p.2 ∧ p.1 ∈ A.states ∧ p.2 ∈ A.states) ?_ _ _ ?_
    (q, r) ⟨hqr, hq, hr⟩
  · intro R hR p hp
    rw [downOk_iff]
    intro ρ hρ hpar
    obtain ⟨σ, hσ, h1, h2, h3⟩ := hS p.1 p.2 hp.1 ρ hρ hpar
    refine ⟨σ, hσ, h1, h2, all2_mono_mem h3 ?_⟩
    intro a b ha hb hab
    exact hR (a, b) ⟨hab, kid_mem_states hρ ha, kid_mem_states hσ hb⟩
  · intro p hp
    exact mem_allPairs.mpr hp.2

theorem upSimRef_contains (A : TA) (S : Nat → Nat → Prop) (hS : IsUpSim A S) (q r : Nat)
    (hq : q ∈ A.states) (hr : r ∈ A.states) : S q r → (q, r) ∈ upSimRef A := by
  intro hqr
  refine refineIter_contains (upOk A) (fun p => S p.1 p.2 ∧ p.1 ∈ A.states ∧ p.2 ∈ A.states) ?_ _ _ ?_
    (q, r) ⟨hqr, hq, hr⟩
  · intro R hR p hp
    rw [upOk_iff]
    refine ⟨(hS p.1 p.2 hp.1).1, ?_⟩
    intro ρ hρ i hi
    obtain ⟨σ, hσ, h1, h2, h3⟩ := (hS p.1 p.2 hp.1).2 ρ hρ i hi
    exact ⟨σ, hσ, h1, h2, hR (ρ.parent, σ.parent) ⟨h3, parent_mem_states hρ, parent_mem_states hσ⟩⟩
  · intro p hp
    exact mem_allPairs.mpr hp.2

example : DownSim exA (RelOf [(0, 1), (1, 0), (2, 3)]) ∧ 2 ∈ exA.states ∧ 3 ∈ exA.states ∧ RelOf [(0, 1), (1, 0), (2, 3)] 2 3 :=
  ⟨(isDownSimB_iff _ _).mp (by decide), by decide, by decide, by decide⟩
example : IsUpSim exA (RelOf [(3, 2), (4, 0)]) ∧ 3 ∈ exA.states ∧ 2 ∈ exA.states ∧ RelOf [(3, 2), (4, 0)] 3 2 :=
  ⟨(isUpSimB_iff _ _).mp (by decide), by decide, by decide, by decide⟩

/-! ### 3. the computed relation is a simulation -/

/-- the final Boolean check of the driver never fails: `|Q|² + 1` rounds reach the fixed point -/
theorem downSimRef_check (A : TA) : isDownSimB A (downSimRef A) = true := by
  simp only [isDownSimB, List.all_eq_true]
  intro p hp
  exact refineIter_stable (downOk A) _ _ (by rw [length_allPairs]; exact Nat.lt_succ_self _) p hp

theorem upSimRef_check (A : TA) : isUpSimB A (upSimRef A) = true := by
  simp only [isUpSimB, List.all_eq_true]
  intro p hp
  exact refineIter_stable (upOk A) _ _ (by rw [length_allPairs]; exact Nat.lt_succ_self _) p hp

/-- certifying form (item 1) -/
theorem downSimRef_isSim (A : TA) : isDownSimB A (downSimRef A) = true → DownSim A (RelOf (downSimRef A)) :=
  (isDownSimB_iff A (downSimRef A)).mp

theorem upSimRef_isSim (A : TA) : isUpSimB A (upSimRef A) = true → IsUpSim A (RelOf (upSimRef A)) :=
  (isUpSimB_iff A (upSimRef A)).mp

/-- unconditional form -/
theorem downSimRef_sim (A : TA) : DownSim A (RelOf (downSimRef A)) := downSimRef_isSim A (downSimRef_check A)

theorem upSimRef_sim (A : TA) : IsUpSim A (RelOf (upSimRef A)) := upSimRef_isSim A (upSimRef_check A)

/-- C04: `downSimRef A` is the greatest downward simulation on the states of `A` -/
theorem downSimRef_greatest (A : TA) :
    DownSim A (RelOf (downSimRef A)) ∧
    ∀ S : Nat → Nat → Prop, DownSim A S → ∀ q r, q ∈ A.states → r ∈ A.states → S q r → (q, r) ∈ downSimRef A :=
  ⟨downSimRef_sim A, fun S hS q r hq hr => downSimRef_contains A S hS q r hq hr⟩

theorem upSimRef_greatest (A : TA) :
    IsUpSim A (RelOf (upSimRef A)) ∧
    ∀ S : Nat → Nat → Prop, IsUpSim A S → ∀ q r, q ∈ A.states → r ∈ A.states → S q r → (q, r) ∈ upSimRef A :=
  ⟨upSimRef_sim A, fun S hS q r hq hr => upSimRef_contains A S hS q r hq hr⟩

example : (2, 3) ∈ downSimRef exA ∧ (0, 1) ∈ downSimRef exA ∧ (4, 2) ∉ downSimRef exA := by decide
example : (3, 2) ∈ upSimRef exA ∧ (4, 0) ∈ upSimRef exA ∧ (0, 1) ∉ upSimRef exA := by decide

/-! ### 4. the greatest simulations are preorders -/

namespace SimModel

theorem downSim_id (A : TA) : DownSim A (fun q r => q = r) := by
  intro q r hqr ρ hρ hp
  exact ⟨ρ, hρ, hqr ▸ hp, rfl, all2_refl _⟩

theorem downSim_comp (A : TA) {R R' : Nat → Nat → Prop} (hR : DownSim A R) (hR' : DownSim A R') :
    DownSim A (fun a c => ∃ b, R a b ∧ R' b c) := by
  intro q s hqs ρ hρ hp
  obtain ⟨r, hqr, hrs⟩ := hqs
  obtain ⟨σ, hσ, h1, h2, h3⟩ := hR q r hqr ρ hρ hp
  obtain ⟨τ, hτ, k1, k2, k3⟩ := hR' r s hrs σ hσ h1
  exact ⟨τ, hτ, k1, k2.trans h2, all2_comp h3 k3⟩

theorem downSim_union (A : TA) {R R' : Nat → Nat → Prop} (hR : DownSim A R) (hR' : DownSim A R') :
    DownSim A (fun a b => R a b ∨ R' a b) := by
  intro q r hqr ρ hρ hp
  cases hqr with
  | inl h =>
    obtain ⟨σ, hσ, h1, h2, h3⟩ := hR q r h ρ hρ hp
    exact ⟨σ, hσ, h1, h2, all2_mono (fun _ _ => Or.inl) h3⟩
  | inr h =>
    obtain ⟨σ, hσ, h1, h2, h3⟩ := hR' q r h ρ hρ hp
    exact ⟨σ, hσ, h1, h2, all2_mono (fun _ _ => Or.inr) h3⟩

theorem setAt_self : ∀ (ks : List Nat) (i q : Nat), ks[i]? = some q → setAt ks i q = ks
  | [], _, _, h => by simp at h
  | k :: ks, 0, q, h => by
    simp only [List.getElem?_cons_zero, Option.some.injEq] at h
    simp only [setAt, h]
  | k :: ks, i+1, q, h => by
    simp only [List.getElem?_cons_succ] at h
    simp only [setAt, setAt_self ks i q h]

theorem getElem?_setAt : ∀ (ks : List Nat) (i q r : Nat), ks[i]? = some q → (setAt ks i r)[i]? = some r
  | [], _, _, _, h => by simp at h
  | k :: ks, 0, q, r, _ => by simp only [setAt, List.getElem?_cons_zero]
  | k :: ks, i+1, q, r, h => by
    simp only [List.getElem?_cons_succ] at h
    simp only [setAt, List.getElem?_cons_succ, getElem?_setAt ks i q r h]

theorem setAt_setAt : ∀ (ks : List Nat) (i r s : Nat), setAt (setAt ks i r) i s = setAt ks i s
  | [], _, _, _ => by simp only [setAt]
  | k :: ks, 0, r, s => by simp only [setAt]
  | k :: ks, i+1, r, s => by simp only [setAt, setAt_setAt ks i r s]

theorem upSim_id (A : TA) : IsUpSim A (fun q r => q = r) := by
  intro q r hqr
  refine ⟨fun h => hqr ▸ h, ?_⟩
  intro ρ hρ i hi
  exact ⟨ρ, hρ, rfl, by rw [← hqr, setAt_self _ _ _ hi], rfl⟩

theorem upSim_comp (A : TA) {R R' : Nat → Nat → Prop} (hR : IsUpSim A R) (hR' : IsUpSim A R') :
    IsUpSim A (fun a c => ∃ b, R a b ∧ R' b c) := by
  intro q s hqs
  obtain ⟨r, hqr, hrs⟩ := hqs
  refine ⟨fun h => (hR' r s hrs).1 ((hR q r hqr).1 h), ?_⟩
  intro ρ hρ i hi
  obtain ⟨σ, hσ, h1, h2, h3⟩ := (hR q r hqr).2 ρ hρ i hi
  have hi' : σ.kids[i]? = some r := by rw [h2]; exact getElem?_setAt _ _ _ _ hi
  obtain ⟨τ, hτ, k1, k2, k3⟩ := (hR' r s hrs).2 σ hσ i hi'
  exact ⟨τ, hτ, k1.trans h1, by rw [k2, h2, setAt_setAt], ⟨_, h3, k3⟩⟩

end SimModel

theorem greatest_downSim_preorder (A : TA) :
    (∀ q, q ∈ A.states → (q, q) ∈ downSimRef A) ∧
    (∀ a b c, (a, b) ∈ downSimRef A → (b, c) ∈ downSimRef A → (a, c) ∈ downSimRef A) := by
  refine ⟨?_, ?_⟩
  · intro q hq
    exact downSimRef_contains A _ (downSim_id A) q q hq hq rfl
  · intro a b c hab hbc
    exact downSimRef_contains A _ (downSim_comp A (downSimRef_sim A) (downSimRef_sim A)) a c
      (downSimRef_sub A hab).1 (downSimRef_sub A hbc).2 ⟨b, hab, hbc⟩

theorem greatest_upSim_preorder (A : TA) :
    (∀ q, q ∈ A.states → (q, q) ∈ upSimRef A) ∧
    (∀ a b c, (a, b) ∈ upSimRef A → (b, c) ∈ upSimRef A → (a, c) ∈ upSimRef A) := by
  refine ⟨?_, ?_⟩
  · intro q hq
    exact upSimRef_contains A _ (upSim_id A) q q hq hq rfl
  · intro a b c hab hbc
    exact upSimRef_contains A _ (upSim_comp A (upSimRef_sim A) (upSimRef_sim A)) a c
      (upSimRef_sub A hab).1 (upSimRef_sub A hbc).2 ⟨b, hab, hbc⟩

example : 4 ∈ exA.states ∧ (0, 1) ∈ downSimRef exA ∧ (1, 0) ∈ downSimRef exA := by decide

/-! ### 5. (C05) collapsing simulation-equivalent states keeps the language -/

namespace SimModel

theorem reindex_congr (A : TA) (h h' : Nat → Nat) (he : ∀ q, q ∈ A.states → h q = h' q) :
    reindex h A = reindex h' A := by
  have h1 : A.rules.map (mapRule h) = A.rules.map (mapRule h') := by
    apply List.map_congr_left
    intro ρ hρ
    simp only [mapRule, Rule.mk.injEq, true_and]
    exact ⟨List.map_congr_left (fun k hk => he k (kid_mem_states hρ hk)), he _ (parent_mem_states hρ)⟩
  have h2 : A.final.map h = A.final.map h' := List.map_congr_left (fun q hq => he q (final_mem_states hq))
  simp only [reindex, h1, h2]

end SimModel

/-- `collapse_lang` where the representative map only has to be given on the states of `A`
(outside `A.states` the map is irrelevant: `reindex_congr`) -/
theorem collapse_lang_on (A : TA) (R : Nat → Nat → Prop) (hR : DownSim A R) (h : Nat → Nat)
    (hh : ∀ q, q ∈ A.states → R q (h q) ∧ R (h q) q) (hRt : ∀ a b c, R a b → R b c → R a c) (t : Tree) :
    accepts (reindex h A) t = accepts A t := by
  have e : reindex h A = reindex (fun q => if q ∈ A.states then h q else q) A :=
    reindex_congr A _ _ (fun q hq => by simp only [hq, if_true])
  rw [e]
  refine collapse_lang A (fun a b => R a b ∨ a = b) (downSim_union A hR (downSim_id A)) _ ?_ ?_ t
  · intro q
    by_cases hq : q ∈ A.states
    · rw [if_pos hq]
      exact ⟨Or.inl (hh q hq).1, Or.inl (hh q hq).2⟩
    · rw [if_neg hq]
      exact ⟨Or.inr rfl, Or.inr rfl⟩
  · intro a b c hab hbc
    cases hab with
    | inl hab =>
      cases hbc with
      | inl hbc => exact Or.inl (hRt a b c hab hbc)
      | inr hbc => exact Or.inl (hbc ▸ hab)
    | inr hab => exact hab ▸ hbc

/-- C05: the quotient by (any choice of representatives of) downward-simulation equivalence keeps the language.
The hypothesis is asked for the states of `A` only (for `q ∉ A.states` it could never hold, since
`downSimRef A ⊆ A.states × A.states`). -/
theorem reduce_lang (A : TA) (h : Nat → Nat)
    (hh : ∀ q, q ∈ A.states → (q, h q) ∈ downSimRef A ∧ (h q, q) ∈ downSimRef A) (t : Tree) :
    accepts (reindex h A) t = accepts A t :=
  collapse_lang_on A (RelOf (downSimRef A)) (downSimRef_sim A) h hh (greatest_downSim_preorder A).2 t

/-- the model of `Reduce`: quotient, then removal of the unreachable states (whose correctness is a hypothesis here) -/
theorem reduce_trim_lang (hU : ∀ (B : TA) (t : Tree), accepts (removeUnreachable B) t = accepts B t)
    (A : TA) (h : Nat → Nat)
    (hh : ∀ q, q ∈ A.states → (q, h q) ∈ downSimRef A ∧ (h q, q) ∈ downSimRef A) (t : Tree) :
    accepts (removeUnreachable (reindex h A)) t = accepts A t := by
  rw [hU, reduce_lang A h hh t]

example : ∀ q, q ∈ exA.states → (q, exH q) ∈ downSimRef exA ∧ (exH q, q) ∈ downSimRef exA := by decide

namespace SimModel
theorem le_sum_of_mem : ∀ (l : List Nat) (x : Nat), x ∈ l → x ≤ l.sum
  | [], _, h => by cases h
  | y :: l, x, h => by
    rw [List.sum_cons]
    cases List.mem_cons.mp h with
    | inl h => omega
    | inr h => have := le_sum_of_mem l x h; omega
end SimModel

/-- why the hypothesis of `reduce_lang` is restricted to `A.states`: asked for all `q` it is unsatisfiable -/
theorem reduce_hyp_all_unsat (A : TA) (h : Nat → Nat) :
    ¬ ∀ q, (q, h q) ∈ downSimRef A ∧ (h q, q) ∈ downSimRef A := by
  intro hh
  have h1 := (downSimRef_sub A (hh (A.states.sum + 1)).1).1
  have := le_sum_of_mem _ _ h1
  omega
example : (reindex exH exA).states = [0, 2, 4] := by decide

end Vata
