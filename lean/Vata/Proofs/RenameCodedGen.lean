import Vata.RenameCoded
/-!
# C14 as coded – part 1: any translator object

* `…_gen`: for every loop of `ReindexStates` the translator sees exactly the keys of `lookupOrder`, in that order, up to the first
  one that throws (`appSeq`), and
* the run with a LAWFUL translator object (answers are never revised: `Lawful`) is the run with the stateless partial function
  `optT g` for every `g` that extends the final container and is undefined on the thrown key.
-/
namespace Vata.RenameCoded
open Vata.Store

/-- `v2` extends the partial map `v1` -/
def Le (v1 v2 : Nat → Option Nat) : Prop := ∀ x y, v1 x = some y → v2 x = some y

theorem Le.refl (v : Nat → Option Nat) : Le v v := fun _ _ h => h
theorem Le.trans {a b c : Nat → Option Nat} (h1 : Le a b) (h2 : Le b c) : Le a c := fun x y h => h2 x y (h1 x y h)

/-- the translator behaves like a growing partial map `view st`: an answer is recorded, recorded answers are kept, a call
throws only on an unrecorded key -/
structure Lawful {σ : Type} (T : Transl σ) (view : σ → Nat → Option Nat) : Prop where
  hit : ∀ st q q' st', T.app st q = some (q', st') → view st' q = some q'
  mono : ∀ st q q' st', T.app st q = some (q', st') → Le (view st) (view st')
  miss : ∀ st q, T.app st q = none → view st q = none

section
variable {σ : Type} {T : Transl σ}

theorem appSeq_append (T : Transl σ) : ∀ (a b : List Nat) (st : σ),
    appSeq T (a ++ b) st = match (appSeq T a st).1 with
      | some k => (some k, (appSeq T a st).2)
      | none => appSeq T b (appSeq T a st).2
  | [], b, st => by simp [appSeq]
  | k :: a, b, st => by
    simp only [List.cons_append, appSeq]
    cases h : T.app st k with
    | none => simp
    | some p => simp only; exact appSeq_append T a b p.2

theorem appSeq_append_none {a : List Nat} {st : σ} (b : List Nat) (h : (appSeq T a st).1 = none) :
    appSeq T (a ++ b) st = appSeq T b (appSeq T a st).2 := by
  rw [appSeq_append, h]

theorem appSeq_append_some {a : List Nat} {st : σ} {k : Nat} (b : List Nat) (h : (appSeq T a st).1 = some k) :
    appSeq T (a ++ b) st = (some k, (appSeq T a st).2) := by
  rw [appSeq_append, h]

variable {view : σ → Nat → Option Nat}

theorem appSeq_le (L : Lawful T view) : ∀ (ks : List Nat) (st : σ), Le (view st) (view (appSeq T ks st).2)
  | [], st => Le.refl _
  | k :: ks, st => by
    simp only [appSeq]
    cases h : T.app st k with
    | none => exact Le.refl _
    | some p =>
      obtain ⟨q', st'⟩ := p
      exact (L.mono st k q' st' h).trans (appSeq_le L ks st')

/-- any property of the container that every call preserves holds afterwards -/
theorem appSeq_pres {P : σ → Prop} (hP : ∀ st q q' st', P st → T.app st q = some (q', st') → P st') :
    ∀ (ks : List Nat) (st : σ), P st → P (appSeq T ks st).2
  | [], st, h => h
  | k :: ks, st, h => by
    simp only [appSeq]
    cases ha : T.app st k with
    | none => exact h
    | some p =>
      obtain ⟨q', st'⟩ := p
      exact appSeq_pres hP ks st' (hP st k q' st' h ha)

/-- a thrown key is a key of the list, the call on it throws in the final state, every earlier call succeeded -/
theorem appSeq_thrown : ∀ (ks : List Nat) (st : σ) (k : Nat), (appSeq T ks st).1 = some k →
    k ∈ ks ∧ T.app (appSeq T ks st).2 k = none
  | [], st, k, h => by simp [appSeq] at h
  | x :: ks, st, k, h => by
    simp only [appSeq] at h ⊢
    cases ha : T.app st x with
    | none =>
      rw [ha] at h
      simp only [Option.some.injEq] at h
      subst h
      exact ⟨List.mem_cons_self, ha⟩
    | some p =>
      rw [ha] at h
      have := appSeq_thrown ks p.2 k h
      exact ⟨List.mem_cons_of_mem _ this.1, this.2⟩

/-! ### the loops: keys in order, and replay by a stateless partial function -/

theorem trTuple_gen (L : Lawful T view) : ∀ (ks : List Nat) (st : σ) (acc : List Nat),
    ((trTuple T ks st acc).1, (trTuple T ks st acc).2.2) = appSeq T ks st ∧
    ∀ g, Le (view (trTuple T ks st acc).2.2) g → (∀ k, (trTuple T ks st acc).1 = some k → g k = none) →
      trTuple (optT g) ks () acc = ((trTuple T ks st acc).1, (trTuple T ks st acc).2.1, ())
  | [], st, acc => ⟨rfl, fun _ _ _ => rfl⟩
  | s :: ss, st, acc => by
    cases ha : T.app st s with
    | none =>
      simp only [trTuple, appSeq, ha]
      refine ⟨by first | rfl | trivial, fun g _ hk => ?_⟩
      simp [optT, hk s rfl]
    | some p =>
      obtain ⟨s', st'⟩ := p
      have ih := trTuple_gen L ss st' (acc ++ [s'])
      simp only [trTuple, appSeq, ha]
      refine ⟨ih.1, fun g hle hk => ?_⟩
      have hle' : Le (view st') (view (trTuple T ss st' (acc ++ [s'])).2.2) := by
        have := appSeq_le L ss st'
        rw [← ih.1] at this
        exact this
      have hg : g s = some s' := hle _ _ (hle' _ _ (L.hit st s s' st' ha))
      simp only [optT, hg, Option.map_some]
      exact ih.2 g hle hk

theorem tuplesLoop_gen (L : Lawful T view) (q' f : Nat) : ∀ (ts : TupleSet) (dst : Store) (st : σ),
    ((tuplesLoop T q' f ts dst st).thrown, (tuplesLoop T q' f ts dst st).tr) = appSeq T ts.flatten st ∧
    ∀ g, Le (view (tuplesLoop T q' f ts dst st).tr) g → (∀ k, (tuplesLoop T q' f ts dst st).thrown = some k → g k = none) →
      tuplesLoop (optT g) q' f ts dst () = ⟨(tuplesLoop T q' f ts dst st).thrown, (tuplesLoop T q' f ts dst st).dst, ()⟩
  | [], dst, st => ⟨rfl, fun _ _ _ => rfl⟩
  | t :: ts, dst, st => by
    have h1 := trTuple_gen L t st []
    have e1 : (appSeq T t st).1 = (trTuple T t st []).1 := by rw [← h1.1]
    have e2 : (appSeq T t st).2 = (trTuple T t st []).2.2 := by rw [← h1.1]
    cases hr : (trTuple T t st []).1 with
    | some k =>
      simp only [tuplesLoop, hr, List.flatten_cons]
      rw [appSeq_append_some _ (e1.trans hr), e2]
      refine ⟨rfl, fun g hle hk => ?_⟩
      have := h1.2 g hle (by rw [hr]; exact hk)
      rw [this, hr]
    | none =>
      have ih := tuplesLoop_gen L q' f ts (addTransition dst ⟨f, (trTuple T t st []).2.1, q'⟩) (trTuple T t st []).2.2
      simp only [tuplesLoop, hr, List.flatten_cons]
      rw [appSeq_append_none _ (e1.trans hr), e2]
      refine ⟨ih.1, fun g hle hk => ?_⟩
      have hle' : Le (view (trTuple T t st []).2.2) g := by
        have := appSeq_le L ts.flatten (trTuple T t st []).2.2
        rw [← ih.1] at this
        exact this.trans hle
      have := h1.2 g hle' (by rw [hr]; intro k hk'; cases hk')
      rw [this, hr]
      exact ih.2 g hle hk

theorem symbolsLoop_gen (L : Lawful T view) (q' : Nat) : ∀ (c : Cluster) (dst : Store) (st : σ),
    ((symbolsLoop T q' c dst st).thrown, (symbolsLoop T q' c dst st).tr) = appSeq T (clusterKeys c) st ∧
    ∀ g, Le (view (symbolsLoop T q' c dst st).tr) g → (∀ k, (symbolsLoop T q' c dst st).thrown = some k → g k = none) →
      symbolsLoop (optT g) q' c dst () = ⟨(symbolsLoop T q' c dst st).thrown, (symbolsLoop T q' c dst st).dst, ()⟩
  | [], dst, st => ⟨rfl, fun _ _ _ => rfl⟩
  | ft :: c, dst, st => by
    have h1 := tuplesLoop_gen L q' ft.1 ft.2 (touchTupleSet q' ft.1 dst) st
    have e1 : (appSeq T ft.2.flatten st).1 = (tuplesLoop T q' ft.1 ft.2 (touchTupleSet q' ft.1 dst) st).thrown := by rw [← h1.1]
    have e2 : (appSeq T ft.2.flatten st).2 = (tuplesLoop T q' ft.1 ft.2 (touchTupleSet q' ft.1 dst) st).tr := by rw [← h1.1]
    cases hr : (tuplesLoop T q' ft.1 ft.2 (touchTupleSet q' ft.1 dst) st).thrown with
    | some k =>
      simp only [symbolsLoop, hr, clusterKeys, List.flatMap_cons]
      rw [appSeq_append_some _ (e1.trans hr), e2]
      refine ⟨rfl, fun g hle hk => ?_⟩
      have := h1.2 g hle (by rw [hr]; exact hk)
      rw [this, hr]
    | none =>
      have ih := symbolsLoop_gen L q' c (tuplesLoop T q' ft.1 ft.2 (touchTupleSet q' ft.1 dst) st).dst
        (tuplesLoop T q' ft.1 ft.2 (touchTupleSet q' ft.1 dst) st).tr
      simp only [symbolsLoop, hr, clusterKeys, List.flatMap_cons]
      rw [appSeq_append_none _ (e1.trans hr), e2]
      refine ⟨ih.1, fun g hle hk => ?_⟩
      have hle' : Le (view (tuplesLoop T q' ft.1 ft.2 (touchTupleSet q' ft.1 dst) st).tr) g := by
        have := appSeq_le L (clusterKeys c) (tuplesLoop T q' ft.1 ft.2 (touchTupleSet q' ft.1 dst) st).tr
        rw [← ih.1] at this
        exact this.trans hle
      have := h1.2 g hle' (by rw [hr]; intro k hk'; cases hk')
      rw [this, hr]
      exact ih.2 g hle hk

theorem clustersLoop_gen (L : Lawful T view) : ∀ (m : List (Nat × Cluster)) (dst : Store) (st : σ),
    ((clustersLoop T m dst st).thrown, (clustersLoop T m dst st).tr) = appSeq T (mapKeys m) st ∧
    ∀ g, Le (view (clustersLoop T m dst st).tr) g → (∀ k, (clustersLoop T m dst st).thrown = some k → g k = none) →
      clustersLoop (optT g) m dst () = ⟨(clustersLoop T m dst st).thrown, (clustersLoop T m dst st).dst, ()⟩
  | [], dst, st => ⟨rfl, fun _ _ _ => rfl⟩
  | qc :: m, dst, st => by
    cases ha : T.app st qc.1 with
    | none =>
      simp only [clustersLoop, ha, mapKeys, List.flatMap_cons, List.cons_append, appSeq]
      refine ⟨by first | rfl | trivial, fun g _ hk => ?_⟩
      simp [optT, hk qc.1 rfl]
    | some p =>
      obtain ⟨q', st'⟩ := p
      have h1 := symbolsLoop_gen L q' qc.2 (touchCluster q' dst) st'
      have e1 : (appSeq T (clusterKeys qc.2) st').1 = (symbolsLoop T q' qc.2 (touchCluster q' dst) st').thrown := by rw [← h1.1]
      have e2 : (appSeq T (clusterKeys qc.2) st').2 = (symbolsLoop T q' qc.2 (touchCluster q' dst) st').tr := by rw [← h1.1]
      have hq : view st' qc.1 = some q' := L.hit st qc.1 q' st' ha
      have hle1 : Le (view st') (view (symbolsLoop T q' qc.2 (touchCluster q' dst) st').tr) := by
        have := appSeq_le L (clusterKeys qc.2) st'
        rw [e2] at this
        exact this
      cases hr : (symbolsLoop T q' qc.2 (touchCluster q' dst) st').thrown with
      | some k =>
        simp only [clustersLoop, ha, hr, mapKeys, List.flatMap_cons, List.cons_append, appSeq]
        rw [appSeq_append_some _ (e1.trans hr), e2]
        refine ⟨rfl, fun g hle hk => ?_⟩
        have hg : g qc.1 = some q' := hle _ _ (hle1 _ _ hq)
        have := h1.2 g hle (by rw [hr]; exact hk)
        simp only [optT, hg, Option.map_some]
        simp only [optT] at this
        rw [this, hr]
      | none =>
        have ih := clustersLoop_gen L m (symbolsLoop T q' qc.2 (touchCluster q' dst) st').dst
          (symbolsLoop T q' qc.2 (touchCluster q' dst) st').tr
        simp only [clustersLoop, ha, hr, mapKeys, List.flatMap_cons, List.cons_append, appSeq]
        rw [appSeq_append_none _ (e1.trans hr), e2]
        refine ⟨ih.1, fun g hle hk => ?_⟩
        have hle' : Le (view (symbolsLoop T q' qc.2 (touchCluster q' dst) st').tr) g := by
          have := appSeq_le L (mapKeys m) (symbolsLoop T q' qc.2 (touchCluster q' dst) st').tr
          rw [← ih.1] at this
          exact this.trans hle
        have hg : g qc.1 = some q' := hle' _ _ (hle1 _ _ hq)
        have := h1.2 g hle' (by rw [hr]; intro k hk'; cases hk')
        simp only [optT, hg, Option.map_some]
        simp only [optT] at this
        rw [this, hr]
        exact ih.2 g hle hk

theorem finalsLoop_gen (L : Lawful T view) : ∀ (qs : List Nat) (dst : Store) (st : σ),
    ((finalsLoop T qs dst st).thrown, (finalsLoop T qs dst st).tr) = appSeq T qs st ∧
    ∀ g, Le (view (finalsLoop T qs dst st).tr) g → (∀ k, (finalsLoop T qs dst st).thrown = some k → g k = none) →
      finalsLoop (optT g) qs dst () = ⟨(finalsLoop T qs dst st).thrown, (finalsLoop T qs dst st).dst, ()⟩
  | [], dst, st => ⟨rfl, fun _ _ _ => rfl⟩
  | q :: qs, dst, st => by
    cases ha : T.app st q with
    | none =>
      simp only [finalsLoop, ha, appSeq]
      refine ⟨by first | rfl | trivial, fun g _ hk => ?_⟩
      simp [optT, hk q rfl]
    | some p =>
      obtain ⟨q', st'⟩ := p
      have ih := finalsLoop_gen L qs (setFinal dst q') st'
      simp only [finalsLoop, appSeq, ha]
      refine ⟨ih.1, fun g hle hk => ?_⟩
      have hle' : Le (view st') (view (finalsLoop T qs (setFinal dst q') st').tr) := by
        have := appSeq_le L qs st'
        rw [← ih.1] at this
        exact this
      have hg : g q = some q' := hle _ _ (hle' _ _ (L.hit st q q' st' ha))
      simp only [optT, hg, Option.map_some]
      exact ih.2 g hle hk

theorem symLoop_gen (L : Lawful T view) : ∀ (rs : List Rule) (dst : Store) (st : σ),
    ((symLoop T rs dst st).thrown, (symLoop T rs dst st).tr) = appSeq T (rs.map Rule.sym) st ∧
    ∀ g, Le (view (symLoop T rs dst st).tr) g → (∀ k, (symLoop T rs dst st).thrown = some k → g k = none) →
      symLoop (optT g) rs dst () = ⟨(symLoop T rs dst st).thrown, (symLoop T rs dst st).dst, ()⟩
  | [], dst, st => ⟨rfl, fun _ _ _ => rfl⟩
  | r :: rs, dst, st => by
    cases ha : T.app st r.sym with
    | none =>
      simp only [symLoop, ha, appSeq, List.map_cons]
      refine ⟨by first | rfl | trivial, fun g _ hk => ?_⟩
      simp [optT, hk r.sym rfl]
    | some p =>
      obtain ⟨f', st'⟩ := p
      have ih := symLoop_gen L rs (addTransition dst ⟨f', r.kids, r.parent⟩) st'
      simp only [symLoop, appSeq, ha, List.map_cons]
      refine ⟨ih.1, fun g hle hk => ?_⟩
      have hle' : Le (view st') (view (symLoop T rs (addTransition dst ⟨f', r.kids, r.parent⟩) st').tr) := by
        have := appSeq_le L (rs.map Rule.sym) st'
        rw [← ih.1] at this
        exact this
      have hg : g r.sym = some f' := hle _ _ (hle' _ _ (L.hit st r.sym f' st' ha))
      simp only [optT, hg, Option.map_some]
      exact ih.2 g hle hk

/-- `ReindexStates(dst, index, addFinalStates)`: the keys the translator sees, and the replay -/
theorem reindexInto_gen (L : Lawful T view) (src dst : Store) (st : σ) (af : Bool) :
    ((reindexInto T src dst st af).thrown, (reindexInto T src dst st af).tr) = appSeq T (lookupOrder src af) st ∧
    ∀ g, Le (view (reindexInto T src dst st af).tr) g → (∀ k, (reindexInto T src dst st af).thrown = some k → g k = none) →
      reindexInto (optT g) src dst () af = ⟨(reindexInto T src dst st af).thrown, (reindexInto T src dst st af).dst, ()⟩ := by
  cases af with
  | false =>
    have h := clustersLoop_gen L src.clusters dst st
    simp only [reindexInto, lookupOrder, Bool.false_eq_true, if_false, List.nil_append]
    exact h
  | true =>
    have h1 := finalsLoop_gen L src.final dst st
    have e1 : (appSeq T src.final st).1 = (finalsLoop T src.final dst st).thrown := by rw [← h1.1]
    have e2 : (appSeq T src.final st).2 = (finalsLoop T src.final dst st).tr := by rw [← h1.1]
    cases hr : (finalsLoop T src.final dst st).thrown with
    | some k =>
      simp only [reindexInto, lookupOrder, if_true, hr]
      rw [appSeq_append_some _ (e1.trans hr), e2]
      refine ⟨rfl, fun g hle hk => ?_⟩
      have := h1.2 g hle (by rw [hr]; exact hk)
      rw [this, hr]
    | none =>
      have h2 := clustersLoop_gen L src.clusters (finalsLoop T src.final dst st).dst (finalsLoop T src.final dst st).tr
      simp only [reindexInto, lookupOrder, if_true, hr]
      rw [appSeq_append_none _ (e1.trans hr), e2]
      refine ⟨h2.1, fun g hle hk => ?_⟩
      have hle' : Le (view (finalsLoop T src.final dst st).tr) g := by
        have := appSeq_le L (mapKeys src.clusters) (finalsLoop T src.final dst st).tr
        rw [← h2.1] at this
        exact this.trans hle
      have := h1.2 g hle' (by rw [hr]; intro k hk'; cases hk')
      rw [this, hr]
      exact h2.2 g hle hk

end

/-! ### the translator classes are lawful -/

theorem lawful_optT (g : Nat → Option Nat) : Lawful (optT g) (fun _ => g) := by
  refine ⟨?_, fun _ _ _ _ _ => Le.refl _, ?_⟩
  · intro st q q' st' h
    simp only [optT, Option.map_eq_some_iff] at h
    obtain ⟨v, hv, e⟩ := h
    cases e
    exact hv
  · intro st q h
    simpa [optT] using h

theorem lawful_totalT (h : Nat → Nat) : Lawful (totalT h) (fun _ q => some (h q)) := by
  refine ⟨?_, fun _ _ _ _ _ => Le.refl _, ?_⟩
  · intro st q q' st' e
    simp only [totalT, Option.some.injEq, Prod.mk.injEq] at e
    rw [e.1]
  · intro st q e
    simp [totalT] at e

theorem lawful_strictT : Lawful strictT (fun m q => m.lookup q) := by
  refine ⟨?_, ?_, ?_⟩
  · intro st q q' st' h
    simp only [strictT, Glue.strict, Option.map_eq_some_iff] at h
    obtain ⟨v, hv, e⟩ := h
    cases e
    exact hv
  · intro st q q' st' h
    simp only [strictT, Glue.strict, Option.map_eq_some_iff] at h
    obtain ⟨v, hv, e⟩ := h
    cases e
    exact Le.refl _
  · intro st q h
    simpa [strictT, Glue.strict] using h

theorem weakT_app (f : Glue.Alloc) (st : WeakSt) (q : Nat) :
    (weakT f).app st q = some ((Glue.weakMap st.map (fun _ _ => (f.run st.cnt st.map.length).1) q).2,
      ⟨(Glue.weakMap st.map (fun _ _ => (f.run st.cnt st.map.length).1) q).1,
        if (st.map.lookup q).isSome then st.cnt else (f.run st.cnt st.map.length).2⟩) := by
  simp only [weakT]
  cases h : st.map.lookup q with
  | some b => simp [Glue.weakMap, h]
  | none => simp [Glue.weakMap, h]

end Vata.RenameCoded
