import Vata.Proofs.IsectBUInv
/-!
# Property C02 – `IntersectionBU`: the model `isectBU` returns a result for the fuel `isectBUFuel`

Every pop of the loop either skips an entry whose number is already in `newStates`, or processes a NEW pair of states
(at most `|Q_A|·|Q_B|` times) and pushes at most one entry per examined pair of rules and common position (at most
`|Δ_A|·|Δ_B|·maxArity` per processed pair).  Hence `|stack| + (|Q_A|·|Q_B| − |newStates|)·|Δ_A|·|Δ_B|·maxArity` decreases
with every pop.

* `Ibu.buLoop_total`     the loop ends within that many pops
* `isectBURef_isSome`    `isectBURef A B` returns
* `isectBURef_lang`      … a product that accepts exactly the intersection
-/
namespace Vata
namespace Ibu
open Isx

/-! ### counting -/

theorem length_flatMap_le {α β : Type} (f : α → List β) (c : Nat) : ∀ (l : List α),
    (∀ x, x ∈ l → (f x).length ≤ c) → (l.flatMap f).length ≤ l.length * c
  | [], _ => by simp
  | x :: l, h => by
    have h1 := h x List.mem_cons_self
    have h2 := length_flatMap_le f c l (fun y hy => h y (List.mem_cons_of_mem _ hy))
    simp only [List.flatMap_cons, List.length_append, List.length_cons, Nat.succ_mul]
    omega

/-- the largest arity of a rule of `A` -/
def maxAr (A : TA) : Nat := A.rules.foldl (fun a r => max a r.kids.length) 0

theorem foldl_max_le : ∀ (l : List Rule) (a : Nat),
    a ≤ l.foldl (fun a r => max a r.kids.length) a ∧ ∀ r, r ∈ l → r.kids.length ≤ l.foldl (fun a r => max a r.kids.length) a
  | [], a => ⟨Nat.le_refl _, fun r hr => by simp at hr⟩
  | x :: l, a => by
    obtain ⟨h1, h2⟩ := foldl_max_le l (max a x.kids.length)
    simp only [List.foldl_cons]
    refine ⟨Nat.le_trans (Nat.le_max_left _ _) h1, ?_⟩
    intro r hr
    rcases List.mem_cons.mp hr with h | h
    · rw [h]; exact Nat.le_trans (Nat.le_max_right _ _) h1
    · exact h2 r h

theorem le_maxAr {A : TA} {r : Rule} (h : r ∈ A.rules) : r.kids.length ≤ maxAr A := (foldl_max_le A.rules 0).2 r h

/-- the number of pushes caused by one processed pair -/
def pushBound (A B : TA) : Nat := A.rules.length * B.rules.length * maxAr A

theorem length_buMatching_le (A B : TA) (pr : Nat × Nat) : (buMatching A B pr).length ≤ pushBound A B := by
  unfold buMatching pushBound
  have h1 : ∀ r, r ∈ A.rules → ((List.range r.kids.length).flatMap (fun i =>
      if r.kids[i]? == some pr.1 then
        (B.rules.filter (fun r' => r'.sym == r.sym && r'.kids.length == r.kids.length && r'.kids[i]? == some pr.2)).map
          (fun r' => (r, r'))
      else [])).length ≤ maxAr A * B.rules.length := by
    intro r hr
    refine Nat.le_trans (length_flatMap_le _ B.rules.length _ ?_) ?_
    · intro i _
      split
      · rw [List.length_map]; exact List.length_filter_le _ _
      · simp
    · rw [List.length_range]
      exact Nat.mul_le_mul_right _ (le_maxAr hr)
  refine Nat.le_trans (length_flatMap_le _ _ _ h1) ?_
  rw [Nat.mul_comm (maxAr A), Nat.mul_assoc]
  exact Nat.le_refl _

theorem length_buLeafPairs_le (A B : TA) : (buLeafPairs A B).length ≤ A.rules.length * B.rules.length := by
  unfold buLeafPairs
  refine Nat.le_trans (length_flatMap_le _ B.rules.length _ ?_) (Nat.mul_le_mul_right _ (List.length_filter_le _ _))
  intro r _
  rw [List.length_map]; exact List.length_filter_le _ _

/-! ### the size of the stack -/

theorem length_buProcPair_le (r r' : Rule) (m : PMap) (st : List BUEntry) (rs : List Rule) :
    (buProcPair r r' m st rs).2.1.length ≤ st.length + 1 := by
  unfold buProcPair
  simp only
  split <;> simp

theorem length_buProcAll_le : ∀ (L : List (Rule × Rule)) (m : PMap) (st : List BUEntry) (rs : List Rule),
    (buProcAll L m st rs).2.1.length ≤ st.length + L.length
  | [], m, st, rs => by simp [buProcAll]
  | rr :: rest, m, st, rs => by
    have h1 := length_buProcPair_le rr.1 rr.2 m st rs
    have h2 := length_buProcAll_le rest (buProcPair rr.1 rr.2 m st rs).1 (buProcPair rr.1 rr.2 m st rs).2.1
      (buProcPair rr.1 rr.2 m st rs).2.2
    simp only [buProcAll, List.length_cons]
    omega

theorem length_buLeafPhase (A B : TA) : ∀ (L : List (Rule × Rule)) (m : PMap) (st : List BUEntry) (rs : List Rule)
    (fs : List Nat), (buLeafPhase A B L m st rs fs).2.1.length = st.length + L.length
  | [], m, st, rs, fs => by simp [buLeafPhase]
  | rr :: rest, m, st, rs, fs => by
    simp only [buLeafPhase, List.length_cons]
    rw [length_buLeafPhase A B rest]
    simp only [List.length_cons]
    omega

/-! ### the discovered pairs are distinct pairs of states -/

/-- the keys of the map are distinct and pairs of states -/
def DomOk (A B : TA) (m : PMap) : Prop := m.dom.Nodup ∧ ∀ p, p ∈ m.dom → p ∈ allPairs2 A.states B.states

theorem domOk_nil (A B : TA) : DomOk A B [] := ⟨List.nodup_nil, fun p hp => by simp [PMap.dom] at hp⟩

theorem domOk_insert {A B : TA} {m : PMap} (h : DomOk A B m) {p : Nat × Nat} (hp : p ∈ allPairs2 A.states B.states) :
    DomOk A B (buInsert m p).1 := by
  cases hl : m.lookup p with
  | some n => rw [buInsert_some hl]; exact h
  | none =>
    rw [buInsert_none hl]
    constructor
    · show ((m ++ [(p, m.length)]).map Prod.fst).Nodup
      rw [List.map_append, List.nodup_append]
      refine ⟨h.1, by simp, ?_⟩
      intro a ha b hb hab
      simp only [List.map_cons, List.map_nil, List.mem_singleton] at hb
      subst hb
      subst hab
      exact lookup_none_iff.mp hl ha
    · intro x hx
      rcases dom_snoc.mp hx with h1 | h1
      · exact h.2 x h1
      · rw [h1]; exact hp

theorem parents_mem {A B : TA} {r r' : Rule} (hm : Matching A B r r') :
    (r.parent, r'.parent) ∈ allPairs2 A.states B.states :=
  mem_allPairs2.mpr ⟨mem_states.mpr (Or.inr ⟨r, hm.1, Or.inl rfl⟩), mem_states.mpr (Or.inr ⟨r', hm.2.1, Or.inl rfl⟩)⟩

theorem domOk_procPair {A B : TA} {r r' : Rule} {m : PMap} (hm : Matching A B r r') (h : DomOk A B m)
    (st : List BUEntry) (rs : List Rule) : DomOk A B (buProcPair r r' m st rs).1 := by
  by_cases hk : ∀ c, c ∈ r.kids.zip r'.kids → c ∈ m.dom
  · rw [buProcPair_ready st rs hk]
    exact domOk_insert h (parents_mem hm)
  · have hk' : ∃ c, c ∈ r.kids.zip r'.kids ∧ c ∉ m.dom := by
      apply Classical.byContradiction
      intro hne
      apply hk
      intro c hc
      apply Classical.byContradiction
      intro hcd
      exact hne ⟨c, hc, hcd⟩
    rw [buProcPair_notready st rs hk']
    exact h

theorem domOk_procAll {A B : TA} : ∀ (L : List (Rule × Rule)) (m : PMap) (st : List BUEntry) (rs : List Rule),
    (∀ rr, rr ∈ L → Matching A B rr.1 rr.2) → DomOk A B m → DomOk A B (buProcAll L m st rs).1
  | [], m, st, rs, _, h => by simpa only [buProcAll] using h
  | rr :: rest, m, st, rs, hL, h => by
    simp only [buProcAll]
    exact domOk_procAll rest _ _ _ (fun x hx => hL x (List.mem_cons_of_mem _ hx))
      (domOk_procPair (hL rr List.mem_cons_self) h st rs)

theorem domOk_leafPhase {A B : TA} : ∀ (L : List (Rule × Rule)) (m : PMap) (st : List BUEntry) (rs : List Rule)
    (fs : List Nat), (∀ rr, rr ∈ L → Matching A B rr.1 rr.2) → DomOk A B m → DomOk A B (buLeafPhase A B L m st rs fs).1
  | [], m, st, rs, fs, _, h => by simpa only [buLeafPhase] using h
  | rr :: rest, m, st, rs, fs, hL, h => by
    simp only [buLeafPhase]
    exact domOk_leafPhase rest _ _ _ _ (fun x hx => hL x (List.mem_cons_of_mem _ hx))
      (domOk_insert h (parents_mem (hL rr List.mem_cons_self)))

theorem length_le_of_domOk {A B : TA} {m : PMap} (h : DomOk A B m) : m.length ≤ A.states.length * B.states.length := by
  have := h.1.length_le_of_subset (fun x hx => h.2 x hx)
  rw [length_allPairs2] at this
  simpa [PMap.dom] using this

/-! ### the loop ends -/

/-- the processed numbers are distinct and below the size of the map -/
theorem ns_lt {A B : TA} {m : PMap} {st : List BUEntry} {ns : List Nat} {rs : List Rule} {fs : List Nat}
    (h : BInv A B m st ns rs fs) (hnd : ns.Nodup) : ns.length ≤ m.length := by
  have hsub : ns ⊆ List.range m.length := by
    intro k hk
    obtain ⟨p, hp⟩ := h.hns k hk
    exact List.mem_range.mpr (h.ok.1 p k hp)
  have := hnd.length_le_of_subset hsub
  simpa using this

theorem buLoop_total {A B : TA} : ∀ (n : Nat) (m : PMap) (st : List BUEntry) (ns : List Nat) (rs : List Rule) (fs : List Nat),
    BInv A B m st ns rs fs → DomOk A B m → ns.Nodup →
    st.length + (A.states.length * B.states.length - ns.length) * pushBound A B ≤ n →
    (buLoop A B n m st ns rs fs).isSome = true
  | 0, m, st, ns, rs, fs, _, _, _, hn => by
    have : st = [] := List.length_eq_zero_iff.mp (by omega)
    subst this
    simp [buLoop]
  | n+1, m, [], ns, rs, fs, _, _, _, _ => by simp [buLoop]
  | n+1, m, e :: st, ns, rs, fs, h, hd, hnd, hn => by
    simp only [buLoop]
    split
    · rename_i hc
      apply buLoop_total n m st ns rs fs (h.skip (List.contains_iff_mem.mp hc)) hd hnd
      simp only [List.length_cons] at hn
      omega
    · rename_i hc
      have hk : e.2 ∉ ns := fun hmem => hc (List.contains_iff_mem.mpr hmem)
      have hnd' : (e.2 :: ns).Nodup := List.nodup_cons.mpr ⟨hk, hnd⟩
      have hpop := h.pop
      have hd' := domOk_procAll (A := A) (B := B) (buMatching A B e.1) m st rs
        (fun rr hrr => (mem_buMatching.mp hrr).1) hd
      have hlen := ns_lt hpop hnd'
      have hN := length_le_of_domOk hd'
      have hst := length_buProcAll_le (buMatching A B e.1) m st rs
      have hM := length_buMatching_le A B e.1
      apply buLoop_total n _ _ _ _ _ hpop hd' hnd'
      simp only [List.length_cons] at hn hlen ⊢
      -- `d = N - |ns| ≥ 1`
      obtain ⟨d, hdd⟩ : ∃ d, A.states.length * B.states.length - ns.length = d + 1 := ⟨A.states.length * B.states.length - ns.length - 1, by omega⟩
      have hd2 : A.states.length * B.states.length - (ns.length + 1) = d := by omega
      rw [hdd, Nat.succ_mul] at hn
      rw [hd2]
      omega

end Ibu

/-- with the fuel `isectBUFuel` the bottom-up model always returns a result -/
theorem isectBURef_isSome (A B : TA) : (isectBURef A B).isSome = true := by
  have hinit := Ibu.init_inv A B
  have hd : Ibu.DomOk A B (buLeafPhase A B (buLeafPairs A B) [] [] [] []).1 :=
    Ibu.domOk_leafPhase _ _ _ _ _ (fun rr hrr => (Ibu.mem_buLeafPairs.mp hrr).1) (Ibu.domOk_nil A B)
  have hlen := Ibu.length_buLeafPhase A B (buLeafPairs A B) [] [] [] []
  have hL := Ibu.length_buLeafPairs_le A B
  have ht := Ibu.buLoop_total (A := A) (B := B) (isectBUFuel A B) _ _ [] _ _ hinit hd List.nodup_nil (by
    rw [hlen]
    unfold isectBUFuel Ibu.pushBound Ibu.maxAr
    simp only [List.length_nil, Nat.sub_zero, Nat.zero_add]
    omega)
  cases hl : buLoop A B (isectBUFuel A B) (buLeafPhase A B (buLeafPairs A B) [] [] [] []).1
      (buLeafPhase A B (buLeafPairs A B) [] [] [] []).2.1 []
      (buLeafPhase A B (buLeafPairs A B) [] [] [] []).2.2.1 (buLeafPhase A B (buLeafPairs A B) [] [] [] []).2.2.2 with
  | none => rw [hl] at ht; simp at ht
  | some res =>
    obtain ⟨m, rs, fs⟩ := res
    unfold isectBURef
    rw [isectBU_of_loop hl]
    rfl

/-- the reference bottom-up product: total and correct -/
theorem isectBURef_lang (A B : TA) :
    ∃ P m, isectBURef A B = some (P, m) ∧ ∀ t, accepts P t = (accepts A t && accepts B t) := by
  cases h : isectBURef A B with
  | none => have := isectBURef_isSome A B; rw [h] at this; simp at this
  | some r => exact ⟨r.1, r.2, rfl, isectBU_lang (fuel := isectBUFuel A B) h⟩

example : (isectBURef IsectBUEx.exS IsectBUEx.exL).map (fun r => r.2) = some [((0, 0), 0), ((1, 0), 1)] := by decide

end Vata
