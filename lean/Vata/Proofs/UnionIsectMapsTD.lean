import Vata.UnionIsectMaps
import Vata.Proofs.IsectModel
import Vata.Proofs.IsectBU
/-!
# Property C02 – `Intersection` started with a pre-filled `ProductTranslMap` (`isectTDFrom`, `Vata/UnionIsectMaps.lean`)

* `Ixf.initPairs_spec`            the first loop: every pair of final states is in the map and ON THE STACK afterwards
* `Ixf.FInv`, `Ixf.FInv.pop`, `Ixf.loop_spec`   the invariant of the work-list loop relative to the entry map `m0`:
                                  the popped pairs are exactly the pairs of final states and the pairs that were not in `m0`
* `isectTDFrom_spec`              what the result IS, for every entry map with `MapOk m0` (numbers below the size,
                                  injective): the product restricted to the EXPLORED pairs `exploredPairs A B m0 m`
* `isectTDFrom_lang`              exactly the intersection when moreover every pre-filled pair is a pair of final states
                                  or has no matching rules (`prefillOkB`)
* `isectTDFrom_sound`             for every `MapOk` entry map the result accepts only trees of the intersection
* `isectTDFrom_lang_empty`        the call with an empty map
The fuel bound is in `Vata/Proofs/UnionIsectMapsTotal.lean`.
-/
namespace Vata
namespace Ixf
open Isx

/-! ### facts about `addPairs` / `isectProc` that need no hypothesis on the map -/

theorem addPairs_dom_mono : ∀ (ps : List (Nat × Nat)) (m : PMap) (st : List (Nat × Nat)) (p : Nat × Nat),
    p ∈ m.dom → p ∈ (addPairs ps m st).1.dom
  | [], _, _, _, h => by simpa only [addPairs] using h
  | q :: ps, m, st, p, h => by
    cases hl : m.lookup q with
    | some n => simp only [addPairs, hl]; exact addPairs_dom_mono ps m st p h
    | none =>
      simp only [addPairs, hl]
      exact addPairs_dom_mono ps _ _ p (dom_snoc.mpr (Or.inl h))

/-- what is pushed is new -/
theorem addPairs_new : ∀ (ps : List (Nat × Nat)) (m : PMap) (st : List (Nat × Nat)) (p : Nat × Nat),
    p ∈ (addPairs ps m st).2.1 → p ∈ st ∨ (p ∉ m.dom ∧ p ∈ ps)
  | [], _, _, _, h => by simp only [addPairs] at h; exact Or.inl h
  | q :: ps, m, st, p, h => by
    cases hl : m.lookup q with
    | some n =>
      simp only [addPairs, hl] at h
      rcases addPairs_new ps m st p h with h1 | ⟨h1, h2⟩
      · exact Or.inl h1
      · exact Or.inr ⟨h1, List.mem_cons_of_mem _ h2⟩
    | none =>
      simp only [addPairs, hl] at h
      rcases addPairs_new ps _ _ p h with h1 | ⟨h1, h2⟩
      · rcases List.mem_cons.mp h1 with h2 | h2
        · rw [h2]; exact Or.inr ⟨lookup_none_iff.mp hl, List.mem_cons_self⟩
        · exact Or.inl h2
      · exact Or.inr ⟨fun hd => h1 (dom_snoc.mpr (Or.inl hd)), List.mem_cons_of_mem _ h2⟩

theorem isectProc_dom_mono {n : Nat} : ∀ (L : List (Rule × Rule)) (m : PMap) (st : List (Nat × Nat)) (rs : List Rule)
    (p : Nat × Nat), p ∈ m.dom → p ∈ (isectProc n L m st rs).1.dom
  | [], _, _, _, _, h => by simpa only [isectProc] using h
  | rr :: rest, m, st, rs, p, h => by
    simp only [isectProc]
    exact isectProc_dom_mono rest _ _ _ p (addPairs_dom_mono _ m st p h)

theorem isectProc_new {n : Nat} : ∀ (L : List (Rule × Rule)) (m : PMap) (st : List (Nat × Nat)) (rs : List Rule)
    (p : Nat × Nat), p ∈ (isectProc n L m st rs).2.1 →
    p ∈ st ∨ (p ∉ m.dom ∧ ∃ rr, rr ∈ L ∧ p ∈ rr.1.kids.zip rr.2.kids)
  | [], _, _, _, _, h => by simp only [isectProc] at h; exact Or.inl h
  | rr :: rest, m, st, rs, p, h => by
    simp only [isectProc] at h
    rcases isectProc_new rest _ _ _ p h with h1 | ⟨h1, x, hx, hp⟩
    · rcases addPairs_new _ m st p h1 with h2 | ⟨h2, h3⟩
      · exact Or.inl h2
      · exact Or.inr ⟨h2, rr, List.mem_cons_self, h3⟩
    · exact Or.inr ⟨fun hd => h1 (addPairs_dom_mono _ m st p hd), x, List.mem_cons_of_mem _ hx, hp⟩

/-- all rules written while the pair with number `n` is processed have the parent `n` -/
theorem isectProc_parent {n : Nat} : ∀ (L : List (Rule × Rule)) (m : PMap) (st : List (Nat × Nat)) (rs : List Rule)
    (ρ : Rule), ρ ∈ (isectProc n L m st rs).2.2 → ρ ∈ rs ∨ ρ.parent = n
  | [], _, _, _, _, h => by simp only [isectProc] at h; exact Or.inl h
  | rr :: rest, m, st, rs, ρ, h => by
    simp only [isectProc] at h
    rcases isectProc_parent rest _ _ _ ρ h with h1 | h1
    · rcases List.mem_append.mp h1 with h2 | h2
      · exact Or.inl h2
      · rw [List.mem_singleton.mp h2]; exact Or.inr rfl
    · exact Or.inr h1

/-! ### the first loop -/

theorem initPairs_spec : ∀ (ps : List (Nat × Nat)) (m : PMap) (st : List (Nat × Nat)), MapOk m →
    MapOk (initPairs ps m st).1 ∧ Ext m (initPairs ps m st).1 ∧
    (∀ p, p ∈ (initPairs ps m st).1.dom → p ∈ m.dom ∨ p ∈ ps) ∧
    (∀ p, p ∈ (initPairs ps m st).2.1 ↔ p ∈ st ∨ p ∈ ps) ∧
    (∀ p, p ∈ ps → p ∈ (initPairs ps m st).1.dom) ∧
    (initPairs ps m st).2.2 = ps.map (lookupF (initPairs ps m st).1)
  | [], m, st, h => by
    simp only [initPairs]
    exact ⟨h, Ext.refl m, fun p hp => Or.inl hp, fun p => by simp, fun p hp => by simp at hp, rfl⟩
  | q :: ps, m, st, h => by
    cases hl : m.lookup q with
    | some n =>
      obtain ⟨i1, i2, i3, i4, i5, i6⟩ := initPairs_spec ps m (q :: st) h
      simp only [initPairs, hl]
      refine ⟨i1, i2, ?_, ?_, ?_, ?_⟩
      · intro p hp
        rcases i3 p hp with h1 | h1
        · exact Or.inl h1
        · exact Or.inr (List.mem_cons_of_mem _ h1)
      · intro p
        rw [i4 p]
        simp only [List.mem_cons]
        constructor
        · rintro ((h1 | h1) | h1)
          · exact Or.inr (Or.inl h1)
          · exact Or.inl h1
          · exact Or.inr (Or.inr h1)
        · rintro (h1 | h1 | h1)
          · exact Or.inl (Or.inr h1)
          · exact Or.inl (Or.inl h1)
          · exact Or.inr h1
      · intro p hp
        rcases List.mem_cons.mp hp with h1 | h1
        · rw [h1]; exact i2.dom (mem_dom_iff.mpr ⟨n, hl⟩)
        · exact i5 p h1
      · rw [List.map_cons, i6]
        congr 1
        simp only [lookupF, i2 q n hl, Option.getD_some]
    | none =>
      obtain ⟨i1, i2, i3, i4, i5, i6⟩ := initPairs_spec ps (m ++ [(q, m.length)]) (q :: st) (mapOk_snoc h hl)
      simp only [initPairs, hl]
      refine ⟨i1, (ext_snoc q _).trans i2, ?_, ?_, ?_, ?_⟩
      · intro p hp
        rcases i3 p hp with h1 | h1
        · rcases dom_snoc.mp h1 with h2 | h2
          · exact Or.inl h2
          · rw [h2]; exact Or.inr List.mem_cons_self
        · exact Or.inr (List.mem_cons_of_mem _ h1)
      · intro p
        rw [i4 p]
        simp only [List.mem_cons]
        constructor
        · rintro ((h1 | h1) | h1)
          · exact Or.inr (Or.inl h1)
          · exact Or.inl h1
          · exact Or.inr (Or.inr h1)
        · rintro (h1 | h1 | h1)
          · exact Or.inl (Or.inr h1)
          · exact Or.inl (Or.inl h1)
          · exact Or.inr h1
      · intro p hp
        rcases List.mem_cons.mp hp with h1 | h1
        · rw [h1]; exact i2.dom (dom_snoc.mpr (Or.inr rfl))
        · exact i5 p h1
      · rw [List.map_cons, i6]
        congr 1
        simp only [lookupF, i2 q _ (lookup_snoc_self hl _), Option.getD_some]

/-! ### the work-list loop relative to the entry map -/

/-- the invariant of the loop; `FP` are the pairs of final states, `m0` the map on entry -/
structure FInv (A B : TA) (FP : List (Nat × Nat)) (m0 m : PMap) (st : List (Nat × Nat)) (rs : List Rule)
    (done : List (Nat × Nat)) : Prop where
  ok : MapOk m
  ext0 : ∀ p, p ∈ m0.dom → p ∈ m.dom
  sound : ∀ ρ, ρ ∈ rs → GoodRule A B m ρ
  par : ∀ ρ, ρ ∈ rs → ∃ pr, pr ∈ done ∧ ρ.parent = lookupF m pr
  complete : ∀ pr, pr ∈ done → DonePair A B m rs pr
  fresh : ∀ p, p ∈ m.dom → p ∉ m0.dom → p ∈ st ∨ p ∈ done
  fin : ∀ p, p ∈ FP → p ∈ st ∨ p ∈ done
  back : ∀ p, p ∈ st ∨ p ∈ done → p ∈ m.dom ∧ (p ∈ FP ∨ p ∉ m0.dom)

theorem FInv.pop {A B : TA} {FP : List (Nat × Nat)} {m0 m : PMap} {pr : Nat × Nat} {st : List (Nat × Nat)}
    {rs : List Rule} {done : List (Nat × Nat)} (h : FInv A B FP m0 m (pr :: st) rs done) :
    FInv A B FP m0 (isectProc (lookupF m pr) (isectMatching A B pr) m st rs).1
      (isectProc (lookupF m pr) (isectMatching A B pr) m st rs).2.1
      (isectProc (lookupF m pr) (isectMatching A B pr) m st rs).2.2 (pr :: done) ∧
    Ext m (isectProc (lookupF m pr) (isectMatching A B pr) m st rs).1 := by
  have hprd : pr ∈ m.dom := (h.back pr (Or.inl List.mem_cons_self)).1
  obtain ⟨n, hn⟩ := mem_dom_iff.mp hprd
  have hlf : lookupF m pr = n := by simp only [lookupF, hn, Option.getD_some]
  have hnew := isectProc_new (n := lookupF m pr) (isectMatching A B pr) m st rs
  have hpar := isectProc_parent (n := lookupF m pr) (isectMatching A B pr) m st rs
  obtain ⟨o1, o2, o3, o4⟩ := isectProc_spec (A := A) (B := B) (pr := pr) (n := n) (isectMatching A B pr) m st rs h.ok hn
    (fun rr hrr => mem_isectMatching.mp hrr)
  rw [hlf] at hnew hpar ⊢
  refine ⟨⟨o1.ok, fun p hp => o1.ext.dom (h.ext0 p hp), ?_, ?_, ?_, ?_, ?_, ?_⟩, o1.ext⟩
  · intro ρ hρ
    rcases o3 ρ hρ with h1 | h1
    · exact (h.sound ρ h1).mono o1.ext
    · exact h1
  · intro ρ hρ
    rcases hpar ρ hρ with h1 | h1
    · obtain ⟨pr', hd, he⟩ := h.par ρ h1
      refine ⟨pr', List.mem_cons_of_mem _ hd, ?_⟩
      rw [he, o1.ext.lookupF (h.back pr' (Or.inr hd)).1]
    · refine ⟨pr, List.mem_cons_self, ?_⟩
      rw [h1, o1.ext.lookupF hprd, hlf]
  · intro pr' hpr'
    rcases List.mem_cons.mp hpr' with h1 | h1
    · rw [h1]
      refine ⟨o1.ext.dom hprd, ?_⟩
      intro r r' hm hp
      exact o4 (r, r') (mem_isectMatching.mpr ⟨hm, hp⟩)
    · exact (h.complete pr' h1).mono o1.ext o2
  · intro p hp hp0
    rcases o1.s1 p hp with h1 | h1
    · rcases h.fresh p h1 hp0 with h2 | h2
      · rcases List.mem_cons.mp h2 with h3 | h3
        · rw [h3]; exact Or.inr List.mem_cons_self
        · exact Or.inl (o1.s2 p h3)
      · exact Or.inr (List.mem_cons_of_mem _ h2)
    · exact Or.inl h1
  · intro p hp
    rcases h.fin p hp with h2 | h2
    · rcases List.mem_cons.mp h2 with h3 | h3
      · rw [h3]; exact Or.inr List.mem_cons_self
      · exact Or.inl (o1.s2 p h3)
    · exact Or.inr (List.mem_cons_of_mem _ h2)
  · intro p hp
    rcases hp with hp | hp
    · rcases hnew p hp with h1 | ⟨h1, _⟩
      · obtain ⟨b1, b2⟩ := h.back p (Or.inl (List.mem_cons_of_mem _ h1))
        exact ⟨o1.ext.dom b1, b2⟩
      · refine ⟨?_, Or.inr (fun h0 => h1 (h.ext0 p h0))⟩
        rcases o1.s3 p hp with h2 | h2
        · exact o1.ext.dom (h.back p (Or.inl (List.mem_cons_of_mem _ h2))).1
        · exact h2
    · rcases List.mem_cons.mp hp with h1 | h1
      · rw [h1]
        exact ⟨o1.ext.dom hprd, (h.back pr (Or.inl List.mem_cons_self)).2⟩
      · obtain ⟨b1, b2⟩ := h.back p (Or.inr h1)
        exact ⟨o1.ext.dom b1, b2⟩

theorem loop_spec {A B : TA} {FP : List (Nat × Nat)} {m0 : PMap} : ∀ (n : Nat) (m : PMap) (st : List (Nat × Nat))
    (rs : List Rule) (done : List (Nat × Nat)) (m' : PMap) (rs' : List Rule),
    FInv A B FP m0 m st rs done → isectLoop A B n m st rs = some (m', rs') →
    Ext m m' ∧ ∃ done', FInv A B FP m0 m' [] rs' done'
  | 0, m, st, rs, done, m', rs', h, he => by
    simp only [isectLoop] at he
    split at he
    · rename_i hs
      have hs' : st = [] := List.isEmpty_iff.mp hs
      simp only [Option.some.injEq, Prod.mk.injEq] at he
      obtain ⟨rfl, rfl⟩ := he
      subst hs'
      exact ⟨Ext.refl _, done, h⟩
    · simp at he
  | n+1, m, [], rs, done, m', rs', h, he => by
    simp only [isectLoop, Option.some.injEq, Prod.mk.injEq] at he
    obtain ⟨rfl, rfl⟩ := he
    exact ⟨Ext.refl _, done, h⟩
  | n+1, m, pr :: st, rs, done, m', rs', h, he => by
    simp only [isectLoop] at he
    obtain ⟨h1, h2⟩ := h.pop
    obtain ⟨h3, h4⟩ := loop_spec n _ _ _ (pr :: done) m' rs' h1 he
    exact ⟨h2.trans h3, h4⟩

theorem init_inv (A B : TA) (m0 : PMap) (hok : MapOk m0) :
    FInv A B (finalPairs A B) m0 (initPairs (finalPairs A B) m0 []).1 (initPairs (finalPairs A B) m0 []).2.1 [] [] := by
  obtain ⟨i1, i2, i3, i4, i5, _⟩ := initPairs_spec (finalPairs A B) m0 [] hok
  refine ⟨i1, fun p hp => i2.dom hp, fun ρ hρ => by simp at hρ, fun ρ hρ => by simp at hρ, fun pr hpr => by simp at hpr,
    ?_, ?_, ?_⟩
  · intro p hp hp0
    rcases i3 p hp with h1 | h1
    · exact absurd h1 hp0
    · exact Or.inl ((i4 p).mpr (Or.inr h1))
  · intro p hp
    exact Or.inl ((i4 p).mpr (Or.inr hp))
  · intro p hp
    rcases hp with hp | hp
    · rcases (i4 p).mp hp with h1 | h1
      · simp at h1
      · exact ⟨i5 p h1, Or.inl h1⟩
    · simp at hp

theorem mem_exploredPairs {A B : TA} {m0 m : PMap} {pr : Nat × Nat} :
    pr ∈ exploredPairs A B m0 m ↔ pr ∈ m.dom ∧ (pr ∈ finalPairs A B ∨ pr ∉ m0.dom) := by
  simp only [exploredPairs, List.mem_filter, Bool.or_eq_true, List.contains_iff_mem, Bool.not_eq_true', ← Bool.not_eq_true]

/-- when the stack is empty the popped pairs are the explored pairs -/
theorem done_iff {A B : TA} {m0 m : PMap} {rs : List Rule} {done : List (Nat × Nat)}
    (h : FInv A B (finalPairs A B) m0 m [] rs done) (pr : Nat × Nat) :
    pr ∈ done ↔ pr ∈ exploredPairs A B m0 m := by
  rw [mem_exploredPairs]
  constructor
  · intro hd; exact h.back pr (Or.inr hd)
  · rintro ⟨h1, h2 | h2⟩
    · rcases h.fin pr h2 with h3 | h3
      · simp at h3
      · exact h3
    · rcases h.fresh pr h1 h2 with h3 | h3
      · simp at h3
      · exact h3

end Ixf

open Isx in
/-- what `Intersection` returns when the map it is given satisfies `MapOk` (numbers below the size, injective): the map
on exit extends the map on entry and is again `MapOk`; it contains all pairs of final states; the result is (as a set
of rules) the product restricted to the EXPLORED pairs – pairs of final states and pairs that were not pre-filled –
numbered by the map; all children of these rules are in the map -/
theorem isectTDFrom_spec {A B : TA} {m0 : PMap} {fuel : Nat} {P : TA} {m : PMap} (hok : Isx.MapOk m0)
    (h : isectTDFrom A B m0 fuel = some (P, m)) :
    Isx.MapOk m ∧ Isx.Ext m0 m ∧ (∀ p, p ∈ A.final → ∀ p', p' ∈ B.final → (p, p') ∈ m.dom) ∧
    (∀ ρ, ρ ∈ P.rules ↔ ρ ∈ (prodOn A B (exploredPairs A B m0 m) (lookupF m)).rules) ∧
    (∀ x, x ∈ P.final ↔ x ∈ (prodOn A B (exploredPairs A B m0 m) (lookupF m)).final) ∧
    (∀ r, r ∈ A.rules → ∀ r', r' ∈ B.rules → r'.sym = r.sym → r'.kids.length = r.kids.length →
      (r.parent, r'.parent) ∈ exploredPairs A B m0 m → ∀ pr, pr ∈ r.kids.zip r'.kids → pr ∈ m.dom) := by
  unfold isectTDFrom at h
  obtain ⟨i1, i2, _, _, i5, i6⟩ := Ixf.initPairs_spec (finalPairs A B) m0 [] hok
  have hinit := Ixf.init_inv A B m0 hok
  cases hl : isectLoop A B fuel (initPairs (finalPairs A B) m0 []).1 (initPairs (finalPairs A B) m0 []).2.1 [] with
  | none => simp [hl] at h
  | some res =>
    obtain ⟨m1, rs⟩ := res
    simp only [hl, Option.some.injEq, Prod.mk.injEq] at h
    obtain ⟨rfl, rfl⟩ := h
    obtain ⟨hext, done, hinv⟩ := Ixf.loop_spec fuel _ _ _ [] m1 rs hinit hl
    have hFF : ∀ pr, pr ∈ finalPairs A B → pr ∈ m1.dom := fun pr hpr => hext.dom (i5 pr hpr)
    have hdone := Ixf.done_iff hinv
    refine ⟨hinv.ok, i2.trans hext, fun p hp p' hp' => hFF (p, p') (mem_finalPairs.mpr ⟨hp, hp'⟩), ?_, ?_, ?_⟩
    · intro ρ
      simp only [prodOn, mem_prodRules]
      constructor
      · intro hρ
        obtain ⟨r, r', ⟨h1, h2, h3, h4⟩, h5, _, h7⟩ := hinv.sound ρ hρ
        obtain ⟨pr, hprd, hpe⟩ := hinv.par ρ hρ
        have hpd : pr ∈ m1.dom := (hinv.back pr (Or.inr hprd)).1
        have : (r.parent, r'.parent) = pr := by
          apply hinv.ok.injOn _ h5 _ hpd
          rw [← hpe, h7]; rfl
        refine ⟨r, h1, r', h2, h3, h4, ?_, h7⟩
        rw [this]; exact (hdone pr).mp hprd
      · rintro ⟨r, h1, r', h2, h3, h4, h5, h7⟩
        rw [h7]
        exact ((hinv.complete _ ((hdone _).mpr h5)).2 r r' ⟨h1, h2, h3, h4⟩ rfl).2
    · intro x
      simp only [prodOn]
      rw [mem_prodFinal, i6, List.map_congr_left (fun pr hpr => (hext.lookupF (i5 pr hpr)).symm)]
    · intro r h1 r' h2 h3 h4 h5 pr hpr
      exact ((hinv.complete _ ((hdone _).mpr h5)).2 r r' ⟨h1, h2, h3, h4⟩ rfl).1 pr hpr

/-! ### Boolean preconditions -/

theorem pmapOkB_sound {m : PMap} (h : pmapOkB m = true) : Isx.MapOk m := by
  simp only [pmapOkB, Bool.and_eq_true, List.all_eq_true, decide_eq_true_eq] at h
  obtain ⟨h1, h2⟩ := h
  refine ⟨fun p n hp => h1 _ (Ibu.mem_of_lookup hp), ?_⟩
  intro p p' n hp hp'
  simp only [pmapInjB, List.all_eq_true, Bool.or_eq_true, bne_iff_ne, beq_iff_eq] at h2
  rcases h2 _ (Ibu.mem_of_lookup hp) _ (Ibu.mem_of_lookup hp') with h3 | h3
  · exact absurd rfl h3
  · exact h3

theorem prefillOkB_sound {A B : TA} {m0 : PMap} (h : prefillOkB A B m0 = true) :
    ∀ pr, pr ∈ m0.dom → pr ∈ finalPairs A B ∨ isectMatching A B pr = [] := by
  intro pr hpr
  simp only [prefillOkB, List.all_eq_true, Bool.or_eq_true, List.contains_iff_mem, List.isEmpty_iff] at h
  obtain ⟨e, he, rfl⟩ := List.mem_map.mp hpr
  exact h e he

/-- **`Intersection` with a pre-filled map is exact** when the map satisfies `MapOk` and every pre-filled pair is a pair
of final states or has no pair of matching rules.  Neither hypothesis can be dropped
(`IsectFromEx.unexplored_counterexample`, `IsectFromEx.collision_counterexample`). -/
theorem isectTDFrom_lang {A B : TA} {m0 : PMap} {fuel : Nat} {P : TA} {m : PMap} (hok : Isx.MapOk m0)
    (hpre : ∀ pr, pr ∈ m0.dom → pr ∈ finalPairs A B ∨ isectMatching A B pr = [])
    (h : isectTDFrom A B m0 fuel = some (P, m)) (t : Tree) : accepts P t = (accepts A t && accepts B t) := by
  obtain ⟨hmok, _, hF, hr, hf, hk⟩ := isectTDFrom_spec hok h
  -- pairs of the domain that are not explored have no matching rules
  have hno : ∀ r, r ∈ A.rules → ∀ r', r' ∈ B.rules → r'.sym = r.sym → r'.kids.length = r.kids.length →
      (r.parent, r'.parent) ∈ m.dom → (r.parent, r'.parent) ∈ exploredPairs A B m0 m := by
    intro r h1 r' h2 h3 h4 h5
    rw [Ixf.mem_exploredPairs]
    refine ⟨h5, ?_⟩
    by_cases h0 : (r.parent, r'.parent) ∈ m0.dom
    · rcases hpre _ h0 with h6 | h6
      · exact Or.inl h6
      · have : (r, r') ∈ isectMatching A B (r.parent, r'.parent) := Isx.mem_isectMatching.mpr ⟨⟨h1, h2, h3, h4⟩, rfl⟩
        rw [h6] at this; simp at this
    · exact Or.inr h0
  have hr' : ∀ ρ, ρ ∈ P.rules ↔ ρ ∈ (prodOn A B m.dom (lookupF m)).rules := by
    intro ρ
    rw [hr ρ]
    simp only [prodOn, mem_prodRules]
    constructor
    · rintro ⟨r, h1, r', h2, h3, h4, h5, h7⟩
      exact ⟨r, h1, r', h2, h3, h4, (Ixf.mem_exploredPairs.mp h5).1, h7⟩
    · rintro ⟨r, h1, r', h2, h3, h4, h5, h7⟩
      exact ⟨r, h1, r', h2, h3, h4, hno r h1 r' h2 h3 h4 h5, h7⟩
  have hcl : Closed A B m.dom := by
    intro r h1 r' h2 h3 h4 h5 pr hpr
    exact hk r h1 r' h2 h3 h4 (hno r h1 r' h2 h3 h4 h5) pr hpr
  rw [Isx.accepts_congr_sets hr' hf t, Bool.eq_iff_iff, Bool.and_eq_true]
  exact isect_cert A B m.dom (lookupF m) hcl hmok.injOn hF t

/-- the call with an empty map (what `Intersection(lhs, rhs)` does with its local map) -/
theorem isectTDFrom_lang_empty {A B : TA} {fuel : Nat} {P : TA} {m : PMap} (h : isectTDFrom A B [] fuel = some (P, m))
    (t : Tree) : accepts P t = (accepts A t && accepts B t) :=
  isectTDFrom_lang Isx.mapOk_nil (fun pr hpr => by simp [PMap.dom] at hpr) h t

/-- the reported map is injective whenever the map on entry was `MapOk` -/
theorem isectTDFrom_map_inj {A B : TA} {m0 : PMap} {fuel : Nat} {P : TA} {m : PMap} (hok : Isx.MapOk m0)
    (h : isectTDFrom A B m0 fuel = some (P, m)) : InjOn (lookupF m) m.dom := (isectTDFrom_spec hok h).1.injOn

end Vata
