import Vata.BddLoad
import Vata.Proofs.LoadDump
import Vata.Proofs.BddAbsTD
import Vata.Proofs.GlueAsgn
/-!
# The Timbuk layer of the BDD encodings – theorems about `Vata/BddLoad.lean` (properties C08, C13)

1. **The numbering** (`loadDesc_spec`): what the translators of a load compute, in terms of the dictionaries they leave:
   the `AddTransition` calls are the transitions of the description – up to the first one whose symbol is rejected
   (`loaded`) – translated by the final dictionaries (`crule`); the exception is that of the rejected symbol.
2. **The tables** (`hasRule_loadBU`, `hasRuleTD_loadTD`): the rules the loaded tables hold for every valuation.
3. **The dumps** (`mem_rawExplBU`, `mem_rawExplTD`, `mem_rawSymBU`): the transitions of the three implemented dumps in
   terms of the rules of the table.
4. **Round trips** (`load_dump_bu`, `load_dump_td`, `reload_dump_*`), the limits (`alias_at_wrap_*`, `td_arity_mod`,
   `td_arity_64_collides`), equal names (`same_name_same_code`), order independence (`load_perm_lang_*`), the symbolic
   parameter (`sym_load_denotes`, `sym_dump_denotes`, `sym_roundtrip_partial`, `sym_roundtrip_fails`), and the
   refinement of the dictionary of assignments as coded (`alphaC_refines`).
-/
namespace Vata
namespace BddLoad
open Dict M BddAbs BddAbsTD

/-! ## 1. the numbering -/

/-- the invariant of the translators of a load: both dictionaries `Ok`, the state counter at the size -/
structure LSt.Ok (s : LSt) : Prop where
  sd : s.sd.Ok
  cnt : s.cnt = s.sd.length
  yd : s.yd.Ok

/-- from `s` to `s'` the state names `Q` and the symbol names `Y` were translated -/
structure Step (s s' : LSt) (Q : List String) (Y : List String) : Prop where
  ok : s'.Ok
  sd : Sub s.sd s'.sd
  yd : Sub s.yd s'.yd
  sdKeys : ∀ q, q ∈ s'.sd.keys ↔ q ∈ s.sd.keys ∨ q ∈ Q
  ydKeys : ∀ k, k ∈ s'.yd.keys ↔ k ∈ s.yd.keys ∨ k ∈ Y
  ydLen : Y = [] → s'.yd = s.yd

theorem Step.refl {s : LSt} (h : s.Ok) : Step s s [] [] :=
  ⟨h, Sub.refl _, Sub.refl _, by simp, by simp, fun _ => rfl⟩

theorem Step.trans {s s' s'' : LSt} {Q Q' : List String} {Y Y' : List String} (h : Step s s' Q Y)
    (h' : Step s' s'' Q' Y') : Step s s'' (Q ++ Q') (Y ++ Y') :=
  ⟨h'.ok, h.sd.trans h'.sd, h.yd.trans h'.yd,
    fun q => by rw [h'.sdKeys, h.sdKeys, List.mem_append, or_assoc],
    fun k => by rw [h'.ydKeys, h.ydKeys, List.mem_append, or_assoc],
    fun e => by
      have e1 : Y = [] := (List.append_eq_nil_iff.mp e).1
      have e2 : Y' = [] := (List.append_eq_nil_iff.mp e).2
      rw [h'.ydLen e2, h.ydLen e1]⟩

theorem Step.congr {s s' : LSt} {Q Q' : List String} {Y Y' : List String} (h : Step s s' Q Y) (eQ : Q = Q')
    (eY : Y = Y') : Step s s' Q' Y' := by subst eQ; subst eY; exact h

theorem trState_spec (s : LSt) (hs : s.Ok) (q : String) :
    Step s (trState s q).2 [q] [] ∧ (trState s q).2.sd.fwd? q = some (trState s q).1 := by
  have h := weak_spec s.sd hs.sd q
  rw [← hs.cnt] at h
  obtain ⟨h1, h2, h3, h4, h5⟩ := h
  refine ⟨⟨⟨h1, h2, hs.yd⟩, h3, Sub.refl _, ?_, by simp [trState], fun _ => rfl⟩, h4⟩
  intro q'; rw [List.mem_singleton]; exact h5 q'

theorem trSym_spec (s : LSt) (hs : s.Ok) (k : String) :
    Step s (trSym s k).2 [] [k] ∧ (trSym s k).2.yd.fwd? k = some (trSym s k).1 := by
  obtain ⟨h1, _, h3, h4, h5⟩ := weak_spec s.yd hs.yd k
  refine ⟨⟨⟨hs.sd, hs.cnt, h1⟩, Sub.refl _, h3, by simp [trSym], ?_, fun e => by cases e⟩, h4⟩
  intro k'; rw [List.mem_singleton]; exact h5 k'

theorem trStates_spec (s : LSt) (hs : s.Ok) (qs : List String) :
    Step s (trStates s qs).2 qs [] ∧ (trStates s qs).1 = qs.map (trStates s qs).2.sd.get := by
  induction qs generalizing s with
  | nil => exact ⟨Step.refl hs, rfl⟩
  | cons q qs ih =>
    obtain ⟨h1, r1⟩ := trState_spec s hs q
    obtain ⟨h2, r2⟩ := ih (trState s q).2 h1.ok
    refine ⟨(h1.trans h2).congr rfl rfl, ?_⟩
    simp only [trStates, List.map_cons]
    rw [← r2, get_of_fwd (h2.sd _ _ r1)]

/-- the state names of a transition, in the order of their translation: the parent first -/
def stNames (t : Trans) : List String := t.2.2 :: t.1

/-- the symbol names a transition makes the alphabet translate -/
def symNames (par : Param) (t : Trans) : List String :=
  match par with
  | .explicit => [t.2.1]
  | .symbolic => []

/-- the exception of the symbol of a transition -/
def symErr (par : Param) (t : Trans) : Option String :=
  match par with
  | .explicit => none
  | .symbolic =>
    match symOfStr t.2.1 with
    | .ok _ => none
    | .error e => some e

/-- the assignment of the symbol of a transition under the alphabet of `s` -/
def cube (par : Param) (s : LSt) (t : Trans) : Cube :=
  match par with
  | .explicit => symAsgn (s.yd.get t.2.1)
  | .symbolic =>
    match symOfStr t.2.1 with
    | .ok a => a
    | .error _ => []

/-- the `AddTransition` that a transition becomes under the dictionaries of `s` -/
def crule (par : Param) (s : LSt) (t : Trans) : CRule := ⟨t.1.map s.sd.get, cube par s t, s.sd.get t.2.2⟩

/-- all names of the transition have a translation -/
structure Covers (par : Param) (s : LSt) (t : Trans) : Prop where
  kids : ∀ q, q ∈ t.1 → q ∈ s.sd.keys
  parent : t.2.2 ∈ s.sd.keys
  sym : par = .explicit → t.2.1 ∈ s.yd.keys

theorem crule_lift {par : Param} {s s' : LSt} {Q : List String} {Y : List String} (h : Step s s' Q Y)
    {t : Trans} (hc : Covers par s t) : crule par s' t = crule par s t := by
  unfold crule
  have hk : t.1.map s'.sd.get = t.1.map s.sd.get := List.map_congr_left (fun q hq => h.sd.get (hc.kids q hq))
  have hp : s'.sd.get t.2.2 = s.sd.get t.2.2 := h.sd.get hc.parent
  have hcube : cube par s' t = cube par s t := by
    cases par with
    | explicit => simp only [cube]; rw [h.yd.get (hc.sym rfl)]
    | symbolic => rfl
  rw [hk, hp, hcube]

theorem Covers.lift {par : Param} {s s' : LSt} {Q : List String} {Y : List String} (h : Step s s' Q Y)
    {t : Trans} (hc : Covers par s t) : Covers par s' t :=
  ⟨fun q hq => h.sd.keys (hc.kids q hq), h.sd.keys hc.parent, fun e => h.yd.keys (hc.sym e)⟩

/-- one transition: the parent, the children and (explicit parameter) the symbol are translated; the result is the
`AddTransition` under the new dictionaries, or the exception of the symbol -/
theorem trRule_spec (par : Param) (s : LSt) (hs : s.Ok) (t : Trans) :
    Step s (trRule par s t).2 (stNames t) (symNames par t) ∧
      (trRule par s t).1 = (match symErr par t with
        | none => .ok (crule par (trRule par s t).2 t)
        | some e => .error e) ∧
      Covers par (trRule par s t).2 t := by
  obtain ⟨h1, r1⟩ := trState_spec s hs t.2.2
  obtain ⟨h2, r2⟩ := trStates_spec (trState s t.2.2).2 h1.ok t.1
  have h12 := (h1.trans h2).congr (Q' := stNames t) (Y' := []) (by simp [stNames]) rfl
  have hpar : t.2.2 ∈ (trStates (trState s t.2.2).2 t.1).2.sd.keys := (h12.sdKeys _).mpr (Or.inr (by simp [stNames]))
  have hkids : ∀ q, q ∈ t.1 → q ∈ (trStates (trState s t.2.2).2 t.1).2.sd.keys :=
    fun q hq => (h12.sdKeys _).mpr (Or.inr (by simp [stNames, hq]))
  have hpget : (trStates (trState s t.2.2).2 t.1).2.sd.get t.2.2 = (trState s t.2.2).1 := get_of_fwd (h2.sd _ _ r1)
  cases par with
  | explicit =>
    obtain ⟨h3, r3⟩ := trSym_spec (trStates (trState s t.2.2).2 t.1).2 h2.ok t.2.1
    have hst := (h12.trans h3).congr (Q' := stNames t) (Y' := symNames .explicit t) (by simp) (by simp [symNames])
    have hE : trRule .explicit s t =
        (.ok ⟨(trStates (trState s t.2.2).2 t.1).1, symAsgn (trSym (trStates (trState s t.2.2).2 t.1).2 t.2.1).1,
          (trState s t.2.2).1⟩, (trSym (trStates (trState s t.2.2).2 t.1).2 t.2.1).2) := rfl
    rw [hE]
    refine ⟨hst, ?_, ?_⟩
    · show Except.ok (CRule.mk _ _ _) = Except.ok (crule _ _ _)
      unfold crule cube
      simp only
      have e1 : (trSym (trStates (trState s t.2.2).2 t.1).2 t.2.1).2.sd = (trStates (trState s t.2.2).2 t.1).2.sd := rfl
      rw [e1, ← r2, hpget, get_of_fwd r3]
    · exact ⟨fun q hq => h3.sd.keys (hkids q hq), h3.sd.keys hpar,
        fun _ => (h3.ydKeys _).mpr (Or.inr (by simp))⟩
  | symbolic =>
    have hst := h12.congr (Q' := stNames t) (Y' := symNames .symbolic t) rfl (by simp [symNames])
    have hsnd : (trRule .symbolic s t).2 = (trStates (trState s t.2.2).2 t.1).2 := by
      simp only [trRule]; split <;> rfl
    rw [hsnd]
    refine ⟨hst, ?_, ⟨hkids, hpar, fun e => by cases e⟩⟩
    simp only [trRule, symErr, crule, cube]
    split <;> simp_all

/-- the part of a transition list that is loaded, and the rejected transition with its exception -/
def loaded (par : Param) : List Trans → List Trans × Option (Trans × String)
  | [] => ([], none)
  | t :: ts =>
    match symErr par t with
    | some e => ([], some (t, e))
    | none => (t :: (loaded par ts).1, (loaded par ts).2)

/-- the names of the rejected transition -/
def badNames (b : Option (Trans × String)) : List String :=
  match b with
  | none => []
  | some (t, _) => stNames t

theorem loaded_explicit (ts : List Trans) : loaded .explicit ts = (ts, none) := by
  induction ts with
  | nil => rfl
  | cons t ts ih => simp only [loaded, symErr, ih]

theorem foldl_stepTrans_err {τ : Type} (add : τ → CRule → τ) (par : Param) (ts : List Trans) (r : Run τ) (e : String)
    (h : r.err = some e) : ts.foldl (stepTrans add par) r = r := by
  induction ts with
  | nil => rfl
  | cons t ts ih =>
    rw [List.foldl_cons]
    have : stepTrans add par r t = r := by simp only [stepTrans, h]
    rw [this, ih]

/-- the loop over the transitions -/
theorem foldl_stepTrans_spec {τ : Type} (add : τ → CRule → τ) (par : Param) (ts : List Trans) (r : Run τ)
    (hr : r.err = none) (hs : r.st.Ok) :
    Step r.st (ts.foldl (stepTrans add par) r).st ((loaded par ts).1.flatMap stNames ++ badNames (loaded par ts).2)
        ((loaded par ts).1.flatMap (symNames par)) ∧
      (ts.foldl (stepTrans add par) r).aut =
        ((loaded par ts).1.map (crule par (ts.foldl (stepTrans add par) r).st)).foldl add r.aut ∧
      (ts.foldl (stepTrans add par) r).err = (loaded par ts).2.map (·.2) ∧
      ∀ t, t ∈ (loaded par ts).1 → Covers par (ts.foldl (stepTrans add par) r).st t := by
  induction ts generalizing r with
  | nil => exact ⟨Step.refl hs, rfl, hr, by simp [loaded]⟩
  | cons t ts ih =>
    obtain ⟨h1, r1, c1⟩ := trRule_spec par r.st hs t
    rw [List.foldl_cons]
    cases he : symErr par t with
    | some e =>
      rw [he] at r1
      have hstep : stepTrans add par r t = ⟨r.aut, (trRule par r.st t).2, some e⟩ := by
        simp only [stepTrans, hr]
        have : trRule par r.st t = (.error e, (trRule par r.st t).2) := Prod.ext r1 rfl
        rw [this]
      rw [hstep, foldl_stepTrans_err add par ts _ e rfl]
      simp only [loaded, he, List.flatMap_nil, List.nil_append, badNames, List.map_nil, List.foldl_nil, Option.map_some]
      have hy : symNames par t = [] := by
        cases par with
        | explicit => simp [symErr] at he
        | symbolic => rfl
      exact ⟨h1.congr rfl hy, trivial, trivial, by simp⟩
    | none =>
      rw [he] at r1
      have hstep : stepTrans add par r t = ⟨add r.aut (crule par (trRule par r.st t).2 t), (trRule par r.st t).2, none⟩ := by
        simp only [stepTrans, hr]
        have : trRule par r.st t = (.ok (crule par (trRule par r.st t).2 t), (trRule par r.st t).2) := Prod.ext r1 rfl
        rw [this]
      rw [hstep]
      obtain ⟨h2, r2, e2, c2⟩ := ih ⟨add r.aut (crule par (trRule par r.st t).2 t), (trRule par r.st t).2, none⟩ rfl h1.ok
      simp only [loaded, he]
      refine ⟨(h1.trans h2).congr (by simp) (by simp), ?_, e2, ?_⟩
      · rw [r2, List.map_cons, List.foldl_cons, crule_lift h2 c1]
      · intro t' ht'
        rcases List.mem_cons.mp ht' with e | hm
        · rw [e]; exact c1.lift h2
        · exact c2 t' hm

theorem foldl_setFinal_BU (qs : List Nat) (A : AutBU) :
    (qs.foldl AutBU.setFinal A).tbl = A.tbl ∧ (qs.foldl AutBU.setFinal A).fin = A.fin ++ qs := by
  induction qs generalizing A with
  | nil => simp
  | cons q qs ih => simp [List.foldl_cons, ih, AutBU.setFinal]

theorem foldl_setFinal_TD (qs : List Nat) (A : AutTD) :
    (qs.foldl AutTD.setFinal A).tbl = A.tbl ∧ (qs.foldl AutTD.setFinal A).fin = A.fin ++ qs := by
  induction qs generalizing A with
  | nil => simp
  | cons q qs ih => simp [List.foldl_cons, ih, AutTD.setFinal]

/-- the state names a load translates -/
def stateNames (par : Param) (d : AutDesc) : List String :=
  d.final ++ ((loaded par d.trans).1.flatMap stNames ++ badNames (loaded par d.trans).2)

/-- what `loadFromAutDescInternal` computes, in terms of the dictionaries it leaves -/
theorem loadDesc_spec {τ : Type} (setFinal : τ → Nat → τ) (add : τ → CRule → τ) (par : Param) (A : τ) (s : LSt)
    (hs : s.Ok) (d : AutDesc) :
    Step s (loadDesc setFinal add par A s d).st (stateNames par d) ((loaded par d.trans).1.flatMap (symNames par)) ∧
      (loadDesc setFinal add par A s d).aut =
        ((loaded par d.trans).1.map (crule par (loadDesc setFinal add par A s d).st)).foldl add
          ((d.final.map (loadDesc setFinal add par A s d).st.sd.get).foldl setFinal A) ∧
      (loadDesc setFinal add par A s d).err = (loaded par d.trans).2.map (·.2) ∧
      ∀ t, t ∈ (loaded par d.trans).1 → Covers par (loadDesc setFinal add par A s d).st t := by
  obtain ⟨h1, r1⟩ := trStates_spec s hs d.final
  obtain ⟨h2, r2, e2, c2⟩ := foldl_stepTrans_spec add par d.trans
    ⟨(trStates s d.final).1.foldl setFinal A, (trStates s d.final).2, none⟩ rfl h1.ok
  refine ⟨(h1.trans h2).congr (by simp [stateNames]) (by simp), ?_, e2, c2⟩
  have hf : (trStates s d.final).1 = d.final.map (loadDesc setFinal add par A s d).st.sd.get := by
    rw [r1]
    exact List.map_congr_left (fun q hq => (h2.sd.get ((h1.sdKeys q).mpr (Or.inr hq))).symm)
  have key : (loadDesc setFinal add par A s d).aut =
      List.foldl add (List.foldl setFinal A (trStates s d.final).1)
        (List.map (crule par (loadDesc setFinal add par A s d).st) (loaded par d.trans).1) := r2
  rw [key, hf]

/-! ## 2. the tables -/

theorem mem_loaded {par : Param} {ts : List Trans} {t : Trans} (h : t ∈ (loaded par ts).1) :
    t ∈ ts ∧ symErr par t = none := by
  induction ts with
  | nil => cases h
  | cons t' ts ih =>
    simp only [loaded] at h
    cases he : symErr par t' with
    | some e => rw [he] at h; cases h
    | none =>
      rw [he] at h
      rcases List.mem_cons.mp h with e | hm
      · rw [e]; exact ⟨List.mem_cons_self, he⟩
      · exact ⟨List.mem_cons_of_mem _ (ih hm).1, (ih hm).2⟩

theorem loaded_of_noErr {par : Param} {ts : List Trans} (h : ∀ t, t ∈ ts → symErr par t = none) :
    loaded par ts = (ts, none) := by
  induction ts with
  | nil => rfl
  | cons t ts ih =>
    simp only [loaded, h t List.mem_cons_self, ih (fun t' ht' => h t' (List.mem_cons_of_mem _ ht'))]

theorem symOfStr_length {f : String} {a : Cube} (h : symOfStr f = .ok a) : a.length = 16 := by
  unfold symOfStr at h
  split at h
  · cases h
  · next hl =>
    split at h
    · cases h
    · next a' ha =>
      cases h
      rw [Glue.ofStr_length ha]
      simp only [symbolSize, ne_eq, Decidable.not_not] at hl
      exact hl

/-- the symbol of a loaded transition is an assignment to the 16 symbol variables -/
theorem cube_length {par : Param} (s : LSt) {t : Trans} (h : symErr par t = none) : (cube par s t).length = 16 := by
  cases par with
  | explicit => exact symAsgn_length _
  | symbolic =>
    simp only [symErr] at h
    simp only [cube]
    split
    · next a ha => exact symOfStr_length ha
    · next e he => rw [he] at h; cases h

theorem foldl_add_BU (crs : List CRule) (A : AutBU) :
    (crs.foldl AutBU.add A).tbl = crs.foldl (fun T c => addCube T c.kids c.asgn c.parent) A.tbl ∧
      (crs.foldl AutBU.add A).fin = A.fin := by
  induction crs generalizing A with
  | nil => exact ⟨rfl, rfl⟩
  | cons c crs ih => simp only [List.foldl_cons]; exact ih (A.add c)

theorem foldl_add_TD (crs : List CRule) (A : AutTD) :
    (crs.foldl AutTD.add A).tbl = crs.foldl (fun T c => addCubeTD T c.parent c.asgn c.kids) A.tbl ∧
      (crs.foldl AutTD.add A).fin = A.fin := by
  induction crs generalizing A with
  | nil => exact ⟨rfl, rfl⟩
  | cons c crs ih => simp only [List.foldl_cons]; exact ih (A.add c)

/-- a sequence of `AddTransition`s on a bottom-up table: the old rules and the cubes of the calls -/
theorem hasRule_foldl_cube (ρ : Nat → Bool) (ks : List Nat) (p : Nat) : ∀ (crs : List CRule) (T : Table),
    HasRule (crs.foldl (fun T c => addCube T c.kids c.asgn c.parent) T) ρ ks p ↔
      HasRule T ρ ks p ∨ ∃ c, c ∈ crs ∧ c.kids = ks ∧ c.parent = p ∧ agrees ρ c.asgn 0 = true
  | [], T => by simp
  | c :: crs, T => by
    rw [List.foldl_cons, hasRule_foldl_cube ρ ks p crs, absBU_add]
    constructor
    · rintro ((h | ⟨h1, h2, h3⟩) | ⟨c', hc', h⟩)
      · exact Or.inl h
      · exact Or.inr ⟨c, List.mem_cons_self, h1.symm, h2.symm, h3⟩
      · exact Or.inr ⟨c', List.mem_cons_of_mem _ hc', h⟩
    · rintro (h | ⟨c', hc', h1, h2, h3⟩)
      · exact Or.inl (Or.inl h)
      · rcases List.mem_cons.mp hc' with rfl | hc'
        · exact Or.inl (Or.inr ⟨h1.symm, h2.symm, h3⟩)
        · exact Or.inr ⟨c', hc', h1, h2, h3⟩

theorem tableOk_foldl_cube : ∀ (crs : List CRule) (T : Table), TableOk T →
    TableOk (crs.foldl (fun T c => addCube T c.kids c.asgn c.parent) T)
  | [], _, h => h
  | c :: crs, T, h => by
    rw [List.foldl_cons]
    exact tableOk_foldl_cube crs _ (tableOk_addCube h _ _ _)

theorem tableWF_foldl_cube : ∀ (crs : List CRule) (T : Table), (∀ c, c ∈ crs → c.asgn.length = 16) → TableWF T →
    TableWF (crs.foldl (fun T c => addCube T c.kids c.asgn c.parent) T)
  | [], _, _, h => h
  | c :: crs, T, hl, h => by
    rw [List.foldl_cons]
    exact tableWF_foldl_cube crs _ (fun c' hc' => hl c' (List.mem_cons_of_mem _ hc'))
      (tableWF_addCube h _ _ (hl c List.mem_cons_self) _)

/-- the tuples with an entry after a sequence of `AddTransition`s -/
theorem keys_foldl_cube (ks : List Nat) : ∀ (crs : List CRule) (T : Table),
    ks ∈ (crs.foldl (fun T c => addCube T c.kids c.asgn c.parent) T).entries.map (·.1) →
      ks ∈ T.entries.map (·.1) ∨ ∃ c, c ∈ crs ∧ c.kids = ks
  | [], _, h => Or.inl h
  | c :: crs, T, h => by
    rw [List.foldl_cons] at h
    rcases keys_foldl_cube ks crs _ h with h | ⟨c', hc', e⟩
    · unfold addCube Table.set at h
      split at h
      · exact Or.inl h
      · simp only [setE, List.map_cons, List.mem_cons, List.mem_map, List.mem_filter] at h
        rcases h with h | ⟨e, ⟨he, _⟩, rfl⟩
        · exact Or.inr ⟨c, List.mem_cons_self, h.symm⟩
        · exact Or.inl (List.mem_map_of_mem he)
    · exact Or.inr ⟨c', List.mem_cons_of_mem _ hc', e⟩

/-- … on a top-down table (the symbols are assignments to the 16 symbol variables) -/
theorem hasRuleTD_foldl_cube (ρ : Nat → Bool) (p : Nat) (ks : List Nat) : ∀ (crs : List CRule) (T : TableTD),
    (∀ c, c ∈ crs → c.asgn.length = 16) →
    (HasRuleTD (crs.foldl (fun T c => addCubeTD T c.parent c.asgn c.kids) T) ρ p ks ↔
      HasRuleTD T ρ p ks ∨ ∃ c, c ∈ crs ∧ c.kids = ks ∧ c.parent = p ∧ agrees ρ c.asgn 0 = true ∧
        arOK ρ ks.length = true)
  | [], T, _ => by simp
  | c :: crs, T, hl => by
    rw [List.foldl_cons, hasRuleTD_foldl_cube ρ p ks crs _ (fun c' hc' => hl c' (List.mem_cons_of_mem _ hc')),
      absTD_add _ _ _ (hl c List.mem_cons_self)]
    constructor
    · rintro ((h | ⟨h1, h2, h3, h4⟩) | ⟨c', hc', h⟩)
      · exact Or.inl h
      · exact Or.inr ⟨c, List.mem_cons_self, h2.symm, h1.symm, h3, by rw [h2]; exact h4⟩
      · exact Or.inr ⟨c', List.mem_cons_of_mem _ hc', h⟩
    · rintro (h | ⟨c', hc', h1, h2, h3, h4⟩)
      · exact Or.inl (Or.inl h)
      · rcases List.mem_cons.mp hc' with rfl | hc'
        · exact Or.inl (Or.inr ⟨h2.symm, h1.symm, h3, by rw [h1]; exact h4⟩)
        · exact Or.inr ⟨c', hc', h1, h2, h3, h4⟩

theorem tableTD_foldl_cube : ∀ (crs : List CRule) (T : TableTD), (∀ c, c ∈ crs → c.asgn.length = 16) →
    TableTDWF T ∧ TableTDBelow T →
    TableTDWF (crs.foldl (fun T c => addCubeTD T c.parent c.asgn c.kids) T) ∧
      TableTDBelow (crs.foldl (fun T c => addCubeTD T c.parent c.asgn c.kids) T)
  | [], _, _, h => h
  | c :: crs, T, hl, h => by
    rw [List.foldl_cons]
    exact tableTD_foldl_cube crs _ (fun c' hc' => hl c' (List.mem_cons_of_mem _ hc'))
      (tableTD_addCube h _ _ (hl c List.mem_cons_self) _)

/-! ### the loaded automata -/

theorem init_ok {yd : SymDict} (h : yd.Ok) : (⟨[], 0, yd⟩ : LSt).Ok := ⟨ok_nil, rfl, h⟩

theorem loadBU_tbl (par : Param) (A : AutBU) (yd : SymDict) (hyd : yd.Ok) (d : AutDesc) :
    (loadBU par A [] yd d).aut.tbl =
      ((loaded par d.trans).1.map (crule par (loadBU par A [] yd d).st)).foldl
        (fun T c => addCube T c.kids c.asgn c.parent) A.tbl := by
  have h := (loadDesc_spec AutBU.setFinal AutBU.add par A ⟨[], 0, yd⟩ (init_ok hyd) d).2.1
  show (loadDesc AutBU.setFinal AutBU.add par A ⟨[], 0, yd⟩ d).aut.tbl = _
  rw [h, (foldl_add_BU _ _).1, (foldl_setFinal_BU _ _).1]
  rfl

theorem loadBU_fin (par : Param) (A : AutBU) (yd : SymDict) (hyd : yd.Ok) (d : AutDesc) :
    (loadBU par A [] yd d).aut.fin = A.fin ++ d.final.map (loadBU par A [] yd d).st.sd.get := by
  have h := (loadDesc_spec AutBU.setFinal AutBU.add par A ⟨[], 0, yd⟩ (init_ok hyd) d).2.1
  show (loadDesc AutBU.setFinal AutBU.add par A ⟨[], 0, yd⟩ d).aut.fin = _
  rw [h, (foldl_add_BU _ _).2, (foldl_setFinal_BU _ _).2]
  rfl

theorem loadTD_tbl (par : Param) (A : AutTD) (yd : SymDict) (hyd : yd.Ok) (d : AutDesc) :
    (loadTD par A [] yd d).aut.tbl =
      ((loaded par d.trans).1.map (crule par (loadTD par A [] yd d).st)).foldl
        (fun T c => addCubeTD T c.parent c.asgn c.kids) A.tbl := by
  have h := (loadDesc_spec AutTD.setFinal AutTD.add par A ⟨[], 0, yd⟩ (init_ok hyd) d).2.1
  show (loadDesc AutTD.setFinal AutTD.add par A ⟨[], 0, yd⟩ d).aut.tbl = _
  rw [h, (foldl_add_TD _ _).1, (foldl_setFinal_TD _ _).1]
  rfl

theorem loadTD_fin (par : Param) (A : AutTD) (yd : SymDict) (hyd : yd.Ok) (d : AutDesc) :
    (loadTD par A [] yd d).aut.fin = A.fin ++ d.final.map (loadTD par A [] yd d).st.sd.get := by
  have h := (loadDesc_spec AutTD.setFinal AutTD.add par A ⟨[], 0, yd⟩ (init_ok hyd) d).2.1
  show (loadDesc AutTD.setFinal AutTD.add par A ⟨[], 0, yd⟩ d).aut.fin = _
  rw [h, (foldl_add_TD _ _).2, (foldl_setFinal_TD _ _).2]
  rfl

/-- the state dictionary and the alphabet do not depend on the encoding -/
theorem loadBU_st_eq_loadTD (par : Param) (A : AutBU) (B : AutTD) (sd : StateDict) (yd : SymDict) (d : AutDesc) :
    (loadBU par A sd yd d).st = (loadTD par B sd yd d).st ∧ (loadBU par A sd yd d).err = (loadTD par B sd yd d).err := by
  unfold loadBU loadTD loadDesc
  generalize (trStates ⟨sd, 0, yd⟩ d.final).2 = s0
  generalize List.foldl AutBU.setFinal A (trStates ⟨sd, 0, yd⟩ d.final).1 = A0
  generalize List.foldl AutTD.setFinal B (trStates ⟨sd, 0, yd⟩ d.final).1 = B0
  suffices h : ∀ (ts : List Trans) (r : Run AutBU) (r' : Run AutTD), r.st = r'.st → r.err = r'.err →
      (ts.foldl (stepTrans AutBU.add par) r).st = (ts.foldl (stepTrans AutTD.add par) r').st ∧
      (ts.foldl (stepTrans AutBU.add par) r).err = (ts.foldl (stepTrans AutTD.add par) r').err from
    h d.trans _ _ rfl rfl
  intro ts
  induction ts with
  | nil => intro r r' h1 h2; exact ⟨h1, h2⟩
  | cons t ts ih =>
    intro r r' h1 h2
    rw [List.foldl_cons, List.foldl_cons]
    apply ih
    · simp only [stepTrans, h1, h2]
      cases r'.err with
      | some e => exact h1
      | none =>
        simp only
        rcases trRule par r'.st t with ⟨⟨e⟩ | ⟨c⟩, s'⟩ <;> rfl
    · simp only [stepTrans, h1, h2]
      cases r'.err with
      | some e => exact h2
      | none =>
        simp only
        rcases trRule par r'.st t with ⟨⟨e⟩ | ⟨c⟩, s'⟩ <;> rfl

/-- **the rules of the bottom-up table after a load** (fresh state dictionary): the old ones and, for every loaded
transition, the rules `ρ(children) → parent` for the valuations `ρ` in the cube of its symbol -/
theorem hasRule_loadBU (par : Param) (A : AutBU) (yd : SymDict) (hyd : yd.Ok) (d : AutDesc) (ρ : Nat → Bool)
    (ks : List Nat) (p : Nat) :
    HasRule (loadBU par A [] yd d).aut.tbl ρ ks p ↔ HasRule A.tbl ρ ks p ∨
      ∃ t, t ∈ (loaded par d.trans).1 ∧ t.1.map (loadBU par A [] yd d).st.sd.get = ks ∧
        (loadBU par A [] yd d).st.sd.get t.2.2 = p ∧ agrees ρ (cube par (loadBU par A [] yd d).st t) 0 = true := by
  rw [loadBU_tbl par A yd hyd d, hasRule_foldl_cube]
  apply or_congr Iff.rfl
  constructor
  · rintro ⟨c, hc, h⟩
    obtain ⟨t, ht, rfl⟩ := List.mem_map.mp hc
    exact ⟨t, ht, h⟩
  · rintro ⟨t, ht, h⟩
    exact ⟨_, List.mem_map_of_mem ht, h⟩

/-- … of the top-down table: the arity variables hold the number of children (its 6 low bits) -/
theorem hasRuleTD_loadTD (par : Param) (A : AutTD) (yd : SymDict) (hyd : yd.Ok) (d : AutDesc) (ρ : Nat → Bool)
    (p : Nat) (ks : List Nat) :
    HasRuleTD (loadTD par A [] yd d).aut.tbl ρ p ks ↔ HasRuleTD A.tbl ρ p ks ∨
      ∃ t, t ∈ (loaded par d.trans).1 ∧ t.1.map (loadTD par A [] yd d).st.sd.get = ks ∧
        (loadTD par A [] yd d).st.sd.get t.2.2 = p ∧ agrees ρ (cube par (loadTD par A [] yd d).st t) 0 = true ∧
        arOK ρ ks.length = true := by
  rw [loadTD_tbl par A yd hyd d, hasRuleTD_foldl_cube]
  · apply or_congr Iff.rfl
    constructor
    · rintro ⟨c, hc, h⟩
      obtain ⟨t, ht, rfl⟩ := List.mem_map.mp hc
      exact ⟨t, ht, h⟩
    · rintro ⟨t, ht, h⟩
      exact ⟨_, List.mem_map_of_mem ht, h⟩
  · intro c hc
    obtain ⟨t, ht, rfl⟩ := List.mem_map.mp hc
    exact cube_length _ (mem_loaded ht).2

theorem table_loadBU (par : Param) (A : AutBU) (yd : SymDict) (hyd : yd.Ok) (d : AutDesc) (hA : TableOk A.tbl)
    (hW : TableWF A.tbl) : TableOk (loadBU par A [] yd d).aut.tbl ∧ TableWF (loadBU par A [] yd d).aut.tbl := by
  rw [loadBU_tbl par A yd hyd d]
  refine ⟨tableOk_foldl_cube _ _ hA, tableWF_foldl_cube _ _ ?_ hW⟩
  intro c hc
  obtain ⟨t, ht, rfl⟩ := List.mem_map.mp hc
  exact cube_length _ (mem_loaded ht).2

theorem table_loadTD (par : Param) (A : AutTD) (yd : SymDict) (hyd : yd.Ok) (d : AutDesc)
    (hA : TableTDWF A.tbl ∧ TableTDBelow A.tbl) :
    TableTDWF (loadTD par A [] yd d).aut.tbl ∧ TableTDBelow (loadTD par A [] yd d).aut.tbl := by
  rw [loadTD_tbl par A yd hyd d]
  refine tableTD_foldl_cube _ _ ?_ hA
  intro c hc
  obtain ⟨t, ht, rfl⟩ := List.mem_map.mp hc
  exact cube_length _ (mem_loaded ht).2

/-! ## 3. the dumps -/

/-- the accumulator of the bottom-up `CondColApplyFunctor` for the code `k`: the parents of the rules for the
valuations whose symbol part is `k` -/
theorem mem_collectBU {m : MT} (hm : WF m) (k : Nat) (p : Nat) :
    p ∈ collectBU m k ↔ ∃ ρ, agrees ρ (symAsgn k) 0 = true ∧ p ∈ eval m ρ := by
  simp only [collectBU, List.mem_flatMap]
  constructor
  · rintro ⟨⟨l, b⟩, hlb, hp⟩
    cases b with
    | false => simp at hp
    | true =>
      obtain ⟨ρ, h1, h2⟩ := (mem_voidApply2 l true m _ hm (construct_wf _ _ _)).mp hlb
      rw [construct_eval_agrees] at h2
      refine ⟨ρ, ?_, by rw [h1]; simpa using hp⟩
      apply Classical.byContradiction
      intro hn
      rw [if_neg hn] at h2
      cases h2
  · rintro ⟨ρ, h1, h2⟩
    refine ⟨(eval m ρ, true), (mem_voidApply2 _ true m _ hm (construct_wf _ _ _)).mpr ⟨ρ, rfl, ?_⟩, by simpa using h2⟩
    rw [construct_eval_agrees, if_pos h1]

/-- the pairs the iterator yields are what `GetMtbdd` returns -/
theorem pairs_get {T : Table} (hT : TableOk T) {e : List Nat × MT} (he : e ∈ pairs T) : e.2 = T.get e.1 := by
  unfold pairs at he
  rcases List.mem_cons.mp he with rfl | he
  · simp [Table.get]
  · unfold Table.get
    rw [if_neg (hT e he).1, (hT e he).2]

theorem pairs_of_hasRule {T : Table} (hT : TableOk T) {ρ : Nat → Bool} {ks : List Nat} {p : Nat}
    (h : HasRule T ρ ks p) : (ks, T.get ks) ∈ pairs T := by
  obtain ⟨e, he, rfl, _⟩ := (pairs_hasRule hT ρ ks p).mpr h
  rw [← pairs_get hT he]; exact he

/-- **the transitions of the bottom-up `dumpToAutDescExplicit`** (before the back translation of the states): the rules
`ρ(ks) → p` of the table for the valuations `ρ` in the cube of the code of a name of the alphabet -/
theorem mem_rawExplBU {yd : SymDict} {A : AutBU} (hT : TableOk A.tbl) (hW : TableWF A.tbl) (ks : List Nat) (f : String)
    (p : Nat) :
    (ks, f, p) ∈ (rawExplBU yd A).trans ↔
      ∃ k, (f, k) ∈ yd ∧ ∃ ρ, agrees ρ (symAsgn k) 0 = true ∧ HasRule A.tbl ρ ks p := by
  simp only [rawExplBU, List.mem_flatMap, List.mem_map, Prod.mk.injEq]
  constructor
  · rintro ⟨e, he, y, hy, q, hq, rfl, rfl, rfl⟩
    have hm := pairs_get hT he
    rw [hm] at hq
    obtain ⟨ρ, h1, h2⟩ := (mem_collectBU (hW e.1).1 y.2 q).mp hq
    exact ⟨y.2, hy, ρ, h1, h2⟩
  · rintro ⟨k, hk, ρ, h1, h2⟩
    refine ⟨(ks, A.tbl.get ks), pairs_of_hasRule hT h2, (f, k), hk, p, ?_, rfl, rfl, rfl⟩
    exact (mem_collectBU (hW ks).1 k p).mpr ⟨ρ, h1, h2⟩

/-- **the transitions of the top-down `dumpToAutDescExplicit`**: for any value of the arity variables -/
theorem mem_rawExplTD {yd : SymDict} {A : AutTD} (hT : TableTDWF A.tbl) (ks : List Nat) (f : String) (p : Nat) :
    (ks, f, p) ∈ (rawExplTD yd A).trans ↔
      ∃ k, (f, k) ∈ yd ∧ ∃ ρ, agrees ρ (symAsgn k) 0 = true ∧ HasRuleTD A.tbl ρ p ks := by
  simp only [rawExplTD, transOfTD, List.mem_flatMap, List.mem_map, Prod.mk.injEq]
  constructor
  · rintro ⟨q, _, y, hy, ks', hks, rfl, rfl, rfl⟩
    obtain ⟨ρ, h1, h2⟩ := (mem_collectTD (hT q) y.2 ks').mp hks
    exact ⟨y.2, hy, ρ, h1, h2⟩
  · rintro ⟨k, hk, ρ, h1, h2⟩
    exact ⟨p, hasRuleTD_key h2, (f, k), hk, ks, (mem_collectTD (hT p) k ks).mpr ⟨ρ, h1, h2⟩, rfl, rfl, rfl⟩

/-- **the transitions of the bottom-up `dumpToAutDescSymbolic`**: a path of `GetPaths` with a parent in its leaf -/
theorem mem_rawSymBU {A : AutBU} (hT : TableOk A.tbl) (ks : List Nat) (f : String) (p : Nat) :
    (ks, f, p) ∈ (rawSymBU A).trans ↔
      (ks, A.tbl.get ks) ∈ pairs A.tbl ∧ ∃ pl, pl ∈ getPaths (A.tbl.get ks) ∧ p ∈ pl.2 ∧
        f = String.ofList (Glue.toStr pl.1) := by
  simp only [rawSymBU, List.mem_flatMap, List.mem_map, Prod.mk.injEq]
  constructor
  · rintro ⟨e, he, pl, hpl, q, hq, rfl, rfl, rfl⟩
    have hm := pairs_get hT he
    refine ⟨by rw [← hm]; exact he, pl, by rw [← hm]; exact hpl, hq, rfl⟩
  · rintro ⟨he, pl, hpl, hq, rfl⟩
    exact ⟨_, he, pl, hpl, p, hq, rfl, rfl, rfl⟩

/-! ## 4. load then dump -/
open Timbuk LoadDump

theorem agrees_symAsgn_gen (ρ : Nat → Bool) (f : Nat) :
    agrees ρ (symAsgn f) 0 = true ↔ ∀ j, j < 16 → ρ j = f.testBit j := by
  have := agrees_go ρ f 16 0
  simp only [Nat.zero_add, Nat.zero_le, true_implies] at this
  rw [symAsgn, List.range_eq_range']
  exact this

/-- two codes below `2^16` whose cubes share a valuation are equal -/
theorem code_unique {ρ : Nat → Bool} {k g : Nat} (hk : k < 2 ^ 16) (hg : g < 2 ^ 16)
    (h1 : agrees ρ (symAsgn k) 0 = true) (h2 : agrees ρ (symAsgn g) 0 = true) : k = g := by
  rw [agrees_symAsgn_gen] at h1 h2
  exact (agrees_symAsgn_lt hk hg).mp ((agrees_symAsgn k g).mpr (fun j hj => (h1 j hj).symm.trans (h2 j hj)))

/-- the cube of a code depends on its 16 low bits only: the code `k + 2^16` IS the code `k` -/
theorem symAsgn_wrap (k : Nat) : symAsgn (k + symbolCodes) = symAsgn k := by
  unfold symAsgn
  apply List.map_congr_left
  intro i hi
  have hi' : i < 16 := List.mem_range.mp hi
  congr 1
  rw [show symbolCodes = 2 ^ 16 from rfl]
  have h1 := Nat.testBit_mod_two_pow (k + 2 ^ 16) 16 i
  have h2 := Nat.testBit_mod_two_pow k 16 i
  simp only [hi', decide_true, Bool.true_and] at h1 h2
  rw [← h1, ← h2, Nat.add_mod_right]

/-- the cubes of two codes share a valuation iff the codes agree on their 16 low bits -/
theorem cubes_meet_iff (k g : Nat) :
    (∃ ρ, agrees ρ (symAsgn k) 0 = true ∧ agrees ρ (symAsgn g) 0 = true) ↔ k % 2 ^ 16 = g % 2 ^ 16 := by
  constructor
  · rintro ⟨ρ, h1, h2⟩
    rw [agrees_symAsgn_gen] at h1 h2
    apply Nat.eq_of_testBit_eq
    intro i
    rw [Nat.testBit_mod_two_pow, Nat.testBit_mod_two_pow]
    by_cases hi : i < 16
    · simp only [hi, decide_true, Bool.true_and]; exact (h1 i hi).symm.trans (h2 i hi)
    · simp [hi]
  · intro h
    refine ⟨bits k, agrees_bits_self k, (agrees_symAsgn k g).mpr ?_⟩
    intro j hj
    have h1 := Nat.testBit_mod_two_pow k 16 j
    have h2 := Nat.testBit_mod_two_pow g 16 j
    simp only [hj, decide_true, Bool.true_and] at h1 h2
    rw [← h1, ← h2, h]

theorem mem_named_trans (nm : Nat → String) (r : Raw) (x : List String × String × String) :
    x ∈ (r.named nm).trans ↔ ∃ y, y ∈ r.trans ∧ x = (y.1.map nm, y.2.1, nm y.2.2) := by
  unfold Raw.named
  rw [normDesc_trans _ x]
  simp only [List.mem_map]
  exact ⟨fun ⟨y, hy, e⟩ => ⟨y, hy, e.symm⟩, fun ⟨y, hy, e⟩ => ⟨y, hy, e.symm⟩⟩

theorem mem_named_final (nm : Nat → String) (r : Raw) (q : String) :
    q ∈ (r.named nm).final ↔ ∃ n, n ∈ r.final ∧ q = nm n := by
  unfold Raw.named
  rw [normDesc_final _ q]
  simp only [List.mem_map]
  exact ⟨fun ⟨y, hy, e⟩ => ⟨y, hy, e.symm⟩, fun ⟨y, hy, e⟩ => ⟨y, hy, e.symm⟩⟩

theorem mem_named_states (nm : Nat → String) (r : Raw) (q : String) :
    q ∈ (r.named nm).states ↔ ∃ n, n ∈ r.states ∧ q = nm n := by
  unfold Raw.named
  rw [normDesc_states _ q]
  simp only [List.mem_map]
  exact ⟨fun ⟨y, hy, e⟩ => ⟨y, hy, e.symm⟩, fun ⟨y, hy, e⟩ => ⟨y, hy, e.symm⟩⟩

theorem named_name_symbols (nm : Nat → String) (r : Raw) : (r.named nm).name = "" ∧ (r.named nm).symbols = [] :=
  ⟨normDesc_name _, normDesc_symbols_nil _ rfl⟩

/-- the dump with a dictionary that names every state the dump mentions -/
theorem dumpRaw_dict {sd : StateDict} {r : Raw} (h : ∀ q, q ∈ r.used → ∃ n, sd.bwd? q = some n) :
    dumpRaw (.dict sd) r = .ok (r.named (nameOf sd)) := by
  unfold dumpRaw
  simp only
  have : r.used.find? (fun q => (sd.bwd? q).isNone) = none := by
    rw [List.find?_eq_none]
    intro q hq
    obtain ⟨n, hn⟩ := h q hq
    simp [hn]
  rw [this]

theorem nameOf_get {sd : StateDict} (h : sd.Ok) {q : String} (hq : q ∈ sd.keys) : nameOf sd (sd.get q) = q := by
  unfold nameOf; rw [h.bwd_get hq]; rfl

/-- what an explicit load on a fresh state dictionary leaves in the translators (either encoding) -/
structure ExplLoad (yd : SymDict) (d : AutDesc) (st : LSt) : Prop where
  ok : st.Ok
  keys : ∀ q, q ∈ st.sd.keys ↔ q ∈ d.final ∨ ∃ t, t ∈ d.trans ∧ (q = t.2.2 ∨ q ∈ t.1)
  cov : ∀ t, t ∈ d.trans → Covers .explicit st t
  sub : Sub yd st.yd
  ydKeys : ∀ k, k ∈ st.yd.keys ↔ k ∈ yd.keys ∨ ∃ t, t ∈ d.trans ∧ k = t.2.1

theorem explLoad_of_spec {yd : SymDict} {d : AutDesc} {st : LSt}
    (h : Step ⟨[], 0, yd⟩ st (stateNames .explicit d) ((loaded .explicit d.trans).1.flatMap (symNames .explicit)))
    (hc : ∀ t, t ∈ (loaded .explicit d.trans).1 → Covers .explicit st t) : ExplLoad yd d st := by
  rw [loaded_explicit] at hc
  refine ⟨h.ok, ?_, hc, h.yd, ?_⟩
  · intro q
    rw [h.sdKeys]
    simp only [stateNames, loaded_explicit, badNames, List.append_nil, List.mem_append, List.mem_flatMap, stNames,
      List.mem_cons, keys, List.map_nil, List.not_mem_nil, false_or]
  · intro k
    rw [h.ydKeys]
    simp only [loaded_explicit, symNames, List.mem_flatMap, List.mem_singleton]

theorem explLoad_bu (A : AutBU) (yd : SymDict) (hyd : yd.Ok) (d : AutDesc) :
    ExplLoad yd d (loadBU .explicit A [] yd d).st ∧ (loadBU .explicit A [] yd d).err = none := by
  obtain ⟨h1, _, h3, h4⟩ := loadDesc_spec AutBU.setFinal AutBU.add .explicit A ⟨[], 0, yd⟩ (init_ok hyd) d
  refine ⟨explLoad_of_spec h1 h4, ?_⟩
  show (loadDesc AutBU.setFinal AutBU.add .explicit A ⟨[], 0, yd⟩ d).err = none
  rw [h3, loaded_explicit]; rfl

theorem explLoad_td (A : AutTD) (yd : SymDict) (hyd : yd.Ok) (d : AutDesc) :
    ExplLoad yd d (loadTD .explicit A [] yd d).st ∧ (loadTD .explicit A [] yd d).err = none := by
  obtain ⟨h1, _, h3, h4⟩ := loadDesc_spec AutTD.setFinal AutTD.add .explicit A ⟨[], 0, yd⟩ (init_ok hyd) d
  refine ⟨explLoad_of_spec h1 h4, ?_⟩
  show (loadDesc AutTD.setFinal AutTD.add .explicit A ⟨[], 0, yd⟩ d).err = none
  rw [h3, loaded_explicit]; rfl

/-- on an alphabet that has not wrapped, the name of a code whose cube meets the cube of a transition's symbol is that
symbol -/
theorem ExplLoad.sym_unique {yd : SymDict} {d : AutDesc} {st : LSt} (h : ExplLoad yd d st)
    (hlim : st.yd.length ≤ symbolCodes) {f : String} {k : Nat} (hk : (f, k) ∈ st.yd) {t : Trans} (ht : t ∈ d.trans)
    {ρ : Nat → Bool} (h1 : agrees ρ (symAsgn k) 0 = true) (h2 : agrees ρ (cube .explicit st t) 0 = true) :
    f = t.2.1 := by
  have hkl : k < st.yd.length := h.ok.yd.mem_vals.mp (List.mem_map.mpr ⟨(f, k), hk, rfl⟩)
  have hgl : st.yd.get t.2.1 < st.yd.length := h.ok.yd.get_lt ((h.cov t ht).sym rfl)
  have hlim' : st.yd.length ≤ 2 ^ 16 := hlim
  have e : k = st.yd.get t.2.1 := code_unique (by omega) (by omega) h1 h2
  have b1 : st.yd.bwd? k = some f := h.ok.yd.bwd_iff.mpr hk
  have b2 : st.yd.bwd? k = some t.2.1 := by rw [e]; exact h.ok.yd.bwd_get ((h.cov t ht).sym rfl)
  exact Option.some.inj (b1.symm.trans b2)

theorem ExplLoad.named_kids {yd : SymDict} {d : AutDesc} {st : LSt} (h : ExplLoad yd d st) {t : Trans}
    (ht : t ∈ d.trans) : (t.1.map st.sd.get).map (nameOf st.sd) = t.1 := by
  rw [List.map_map]
  conv => rhs; rw [← List.map_id t.1]
  exact List.map_congr_left (fun q hq => nameOf_get h.ok.sd ((h.cov t ht).kids q hq))

theorem ExplLoad.named_parent {yd : SymDict} {d : AutDesc} {st : LSt} (h : ExplLoad yd d st) {t : Trans}
    (ht : t ∈ d.trans) : nameOf st.sd (st.sd.get t.2.2) = t.2.2 := nameOf_get h.ok.sd (h.cov t ht).parent

theorem ExplLoad.final_key {yd : SymDict} {d : AutDesc} {st : LSt} (h : ExplLoad yd d st) {q : String}
    (hq : q ∈ d.final) : q ∈ st.sd.keys := (h.keys q).mpr (Or.inl hq)

theorem ExplLoad.has_name {yd : SymDict} {d : AutDesc} {st : LSt} (h : ExplLoad yd d st) {q : String}
    (hq : q ∈ st.sd.keys) : ∃ n, st.sd.bwd? (st.sd.get q) = some n := ⟨q, h.ok.sd.bwd_get hq⟩

/-- the children tuples with an entry in a table loaded into the empty automaton are tuples of loaded transitions -/
theorem pairs_kids_loadBU (par : Param) (yd : SymDict) (hyd : yd.Ok) (d : AutDesc) {e : List Nat × MT}
    (he : e ∈ pairs (loadBU par {} [] yd d).aut.tbl) (hne : e.1 ≠ []) :
    ∃ t, t ∈ (loaded par d.trans).1 ∧ e.1 = t.1.map (loadBU par {} [] yd d).st.sd.get := by
  unfold pairs at he
  rcases List.mem_cons.mp he with rfl | he
  · exact absurd rfl hne
  · have hk : e.1 ∈ (loadBU par {} [] yd d).aut.tbl.entries.map (·.1) := List.mem_map_of_mem he
    rw [loadBU_tbl par {} yd hyd d] at hk
    rcases keys_foldl_cube e.1 _ _ hk with h | ⟨c, hc, e'⟩
    · simp [Table.empty] at h
    · obtain ⟨t, ht, rfl⟩ := List.mem_map.mp hc
      exact ⟨t, ht, e'.symm⟩

section RoundTripBU
variable (d : AutDesc) (yd : SymDict)
local notation "⟪R⟫" => loadBU Param.explicit ({} : AutBU) [] yd d

/-- the rules of the table of an explicit load into the empty bottom-up automaton -/
theorem hasRule_explBU (hyd : yd.Ok) (ρ : Nat → Bool) (ks : List Nat) (p : Nat) :
    HasRule ⟪R⟫.aut.tbl ρ ks p ↔ ∃ t, t ∈ d.trans ∧ t.1.map ⟪R⟫.st.sd.get = ks ∧ ⟪R⟫.st.sd.get t.2.2 = p ∧
      agrees ρ (cube .explicit ⟪R⟫.st t) 0 = true := by
  rw [hasRule_loadBU .explicit {} yd hyd d, loaded_explicit]
  constructor
  · rintro (h | h)
    · exact absurd h (hasRule_empty ρ ks p)
    · exact h
  · exact Or.inr

/-- **the dump of a loaded bottom-up automaton, exactly** (no bound on the alphabet).  A description loaded with the
explicit parameter into a new automaton with a fresh state dictionary on an alphabet that may be in use (`yd.Ok`): the dump
with the dictionaries of the load succeeds, has the final states of the description, lists as `states` the final states
and the children, and lists every transition of the description under EVERY name of the alphabet whose allocation number
agrees with that of its symbol on the 16 low bits (the same code). -/
theorem dump_load_bu_exact (hyd : yd.Ok) :
    ∃ d', dumpBU .explicit (.dict ⟪R⟫.st.sd) ⟪R⟫.st.yd ⟪R⟫.aut = .ok d' ∧ ⟪R⟫.err = none ∧
      d'.final ≈ d.final ∧
      (∀ x, x ∈ d'.trans ↔ ∃ t, t ∈ d.trans ∧ ∃ f k, (f, k) ∈ ⟪R⟫.st.yd ∧
        k % 2 ^ 16 = ⟪R⟫.st.yd.get t.2.1 % 2 ^ 16 ∧ x = (t.1, f, t.2.2)) ∧
      d'.states ≈ d.final ++ d.trans.flatMap (·.1) ∧ d'.name = "" ∧ d'.symbols = [] := by
  obtain ⟨hE, herr⟩ := explLoad_bu {} yd hyd d
  obtain ⟨hT, hW⟩ := table_loadBU .explicit {} yd hyd d tableOk_empty tableWF_empty
  have hfin : ⟪R⟫.aut.fin = d.final.map ⟪R⟫.st.sd.get := by
    rw [loadBU_fin .explicit {} yd hyd d]; rfl
  -- the transitions of the raw dump
  have htr : ∀ ks f p, (ks, f, p) ∈ (rawExplBU ⟪R⟫.st.yd ⟪R⟫.aut).trans ↔
      ∃ t, t ∈ d.trans ∧ ks = t.1.map ⟪R⟫.st.sd.get ∧ p = ⟪R⟫.st.sd.get t.2.2 ∧
        ∃ k, (f, k) ∈ ⟪R⟫.st.yd ∧ k % 2 ^ 16 = ⟪R⟫.st.yd.get t.2.1 % 2 ^ 16 := by
    intro ks f p
    rw [mem_rawExplBU hT hW]
    constructor
    · rintro ⟨k, hk, ρ, h1, h2⟩
      obtain ⟨t, ht, e1, e2, h3⟩ := (hasRule_explBU d yd hyd ρ ks p).mp h2
      exact ⟨t, ht, e1.symm, e2.symm, k, hk, (cubes_meet_iff _ _).mp ⟨ρ, h1, h3⟩⟩
    · rintro ⟨t, ht, rfl, rfl, k, hk, hm⟩
      obtain ⟨ρ, h1, h2⟩ := (cubes_meet_iff _ _).mpr hm
      exact ⟨k, hk, ρ, h1, (hasRule_explBU d yd hyd _ _ _).mpr ⟨t, ht, rfl, rfl, h2⟩⟩
  -- the states of the raw dump
  have hst : ∀ n, n ∈ (rawExplBU ⟪R⟫.st.yd ⟪R⟫.aut).states ↔
      ∃ q, (q ∈ d.final ∨ ∃ t, t ∈ d.trans ∧ q ∈ t.1) ∧ n = ⟪R⟫.st.sd.get q := by
    intro n
    simp only [rawExplBU, List.mem_append, List.mem_flatMap]
    rw [hfin, List.mem_map]
    constructor
    · rintro (⟨q, hq, rfl⟩ | ⟨e, he, hn⟩)
      · exact ⟨q, Or.inl hq, rfl⟩
      · have hne : e.1 ≠ [] := fun h => by rw [h] at hn; cases hn
        obtain ⟨t, ht, e'⟩ := pairs_kids_loadBU .explicit yd hyd d he hne
        rw [loaded_explicit] at ht
        rw [e'] at hn
        obtain ⟨q, hq, rfl⟩ := List.mem_map.mp hn
        exact ⟨q, Or.inr ⟨t, ht, hq⟩, rfl⟩
    · rintro ⟨q, hq | ⟨t, ht, hq⟩, rfl⟩
      · exact Or.inl ⟨q, hq, rfl⟩
      · have hr : HasRule ⟪R⟫.aut.tbl (bits (⟪R⟫.st.yd.get t.2.1)) (t.1.map ⟪R⟫.st.sd.get) (⟪R⟫.st.sd.get t.2.2) :=
          (hasRule_explBU d yd hyd _ _ _).mpr ⟨t, ht, rfl, rfl, agrees_bits_self _⟩
        exact Or.inr ⟨_, pairs_of_hasRule hT hr, List.mem_map_of_mem hq⟩
  -- every state the dump mentions has a name
  have hused : ∀ q, q ∈ (rawExplBU ⟪R⟫.st.yd ⟪R⟫.aut).used → ∃ n, ⟪R⟫.st.sd.bwd? q = some n := by
    intro q hq
    simp only [Raw.used, List.mem_append, List.mem_flatMap] at hq
    rcases hq with (hq | hq) | ⟨y, hy, hq⟩
    · have : q ∈ ⟪R⟫.aut.fin := hq
      rw [hfin] at this
      obtain ⟨n, hn, rfl⟩ := List.mem_map.mp this
      exact hE.has_name (hE.final_key hn)
    · obtain ⟨n, hn, rfl⟩ := (hst q).mp hq
      rcases hn with hn | ⟨t, ht, hn⟩
      · exact hE.has_name (hE.final_key hn)
      · exact hE.has_name ((hE.cov t ht).kids n hn)
    · obtain ⟨ks, f, p⟩ := y
      obtain ⟨t, ht, rfl, rfl, _⟩ := (htr ks f p).mp hy
      simp only [List.mem_singleton] at hq
      rcases hq with hq | rfl
      · obtain ⟨n, hn, rfl⟩ := List.mem_map.mp hq
        exact hE.has_name ((hE.cov t ht).kids n hn)
      · exact hE.has_name (hE.cov t ht).parent
  refine ⟨_, dumpRaw_dict hused, herr, ?_, ?_, ?_, (named_name_symbols _ _).1, (named_name_symbols _ _).2⟩
  · intro q
    rw [mem_named_final]
    show (∃ n, n ∈ ⟪R⟫.aut.fin ∧ _) ↔ _
    rw [hfin]
    constructor
    · rintro ⟨n, hn, rfl⟩
      obtain ⟨q', hq', rfl⟩ := List.mem_map.mp hn
      rw [nameOf_get hE.ok.sd (hE.final_key hq')]; exact hq'
    · intro hq
      exact ⟨_, List.mem_map_of_mem hq, (nameOf_get hE.ok.sd (hE.final_key hq)).symm⟩
  · intro x
    rw [mem_named_trans]
    constructor
    · rintro ⟨⟨ks, f, p⟩, hy, rfl⟩
      obtain ⟨t, ht, rfl, rfl, k, hk, hm⟩ := (htr ks f p).mp hy
      refine ⟨t, ht, f, k, hk, hm, ?_⟩
      simp only
      rw [hE.named_kids ht, hE.named_parent ht]
    · rintro ⟨t, ht, f, k, hk, hm, rfl⟩
      refine ⟨(t.1.map ⟪R⟫.st.sd.get, f, ⟪R⟫.st.sd.get t.2.2), (htr _ _ _).mpr ⟨t, ht, rfl, rfl, k, hk, hm⟩, ?_⟩
      simp only
      rw [hE.named_kids ht, hE.named_parent ht]
  · intro q
    rw [mem_named_states]
    simp only [List.mem_append, List.mem_flatMap]
    constructor
    · rintro ⟨n, hn, rfl⟩
      obtain ⟨q', hq', rfl⟩ := (hst n).mp hn
      rcases hq' with hq' | ⟨t, ht, hq'⟩
      · rw [nameOf_get hE.ok.sd (hE.final_key hq')]; exact Or.inl hq'
      · rw [nameOf_get hE.ok.sd ((hE.cov t ht).kids q' hq')]; exact Or.inr ⟨t, ht, hq'⟩
    · rintro (hq | ⟨t, ht, hq⟩)
      · exact ⟨_, (hst _).mpr ⟨q, Or.inl hq, rfl⟩, (nameOf_get hE.ok.sd (hE.final_key hq)).symm⟩
      · exact ⟨_, (hst _).mpr ⟨q, Or.inr ⟨t, ht, hq⟩, rfl⟩, (nameOf_get hE.ok.sd ((hE.cov t ht).kids q hq)).symm⟩

/-- on an alphabet within `2^16` names the only name with the code of a transition's symbol is that symbol -/
theorem ExplLoad.alias_unique {yd : SymDict} {d : AutDesc} {st : LSt} (h : ExplLoad yd d st)
    (hlim : st.yd.length ≤ symbolCodes) {f : String} {k : Nat} (hk : (f, k) ∈ st.yd) {t : Trans} (ht : t ∈ d.trans)
    (hm : k % 2 ^ 16 = st.yd.get t.2.1 % 2 ^ 16) : f = t.2.1 := by
  obtain ⟨ρ, h1, h2⟩ := (cubes_meet_iff _ _).mpr hm
  exact h.sym_unique hlim hk ht h1 h2

/-- **load then dump, bottom-up encoding.**  … on an alphabet that holds at most `2^16` names AFTER the load: the dump has
the same final states and the same transitions under the same names; its `states` are the final states and the children
(parents that are neither are not listed), `name` and `symbols` are empty.  No hypothesis on ranks or arities. -/
theorem load_dump_bu (hyd : yd.Ok) (hlim : ⟪R⟫.st.yd.length ≤ symbolCodes) :
    ∃ d', dumpBU .explicit (.dict ⟪R⟫.st.sd) ⟪R⟫.st.yd ⟪R⟫.aut = .ok d' ∧ ⟪R⟫.err = none ∧
      d'.final ≈ d.final ∧ d'.trans ≈ d.trans ∧ d'.states ≈ d.final ++ d.trans.flatMap (·.1) ∧
      d'.name = "" ∧ d'.symbols = [] := by
  obtain ⟨hE, _⟩ := explLoad_bu {} yd hyd d
  obtain ⟨d', h1, h2, h3, h4, h5, h6, h7⟩ := dump_load_bu_exact d yd hyd
  refine ⟨d', h1, h2, h3, ?_, h5, h6, h7⟩
  intro x
  rw [h4]
  constructor
  · rintro ⟨t, ht, f, k, hk, hm, rfl⟩
    rw [hE.alias_unique hlim hk ht hm]; exact ht
  · intro hx
    have hsym := (hE.cov x hx).sym rfl
    exact ⟨x, hx, x.2.1, _, fwd?_some_mem (fwd_get hsym), rfl, rfl⟩

end RoundTripBU

/-- the states with an MTBDD after a sequence of top-down `AddTransition`s -/
theorem keysTD_foldl_cube (p : Nat) : ∀ (crs : List CRule) (T : TableTD),
    p ∈ keysTD (crs.foldl (fun T c => addCubeTD T c.parent c.asgn c.kids) T) →
      p ∈ keysTD T ∨ ∃ c, c ∈ crs ∧ c.parent = p
  | [], _, h => Or.inl h
  | c :: crs, T, h => by
    rw [List.foldl_cons] at h
    rcases keysTD_foldl_cube p crs _ h with h | ⟨c', hc', e⟩
    · unfold addCubeTD at h
      rcases (keysTD_setTD _ _ _ _).mp h with h | h
      · exact Or.inr ⟨c, List.mem_cons_self, h.symm⟩
      · exact Or.inl h
    · exact Or.inr ⟨c', List.mem_cons_of_mem _ hc', e⟩

theorem mem_transOfTD {yd : SymDict} {A : AutTD} {p : Nat} {x : List Nat × String × Nat} :
    x ∈ transOfTD yd A.tbl p ↔ x.2.2 = p ∧ ∃ y, y ∈ yd ∧ x.2.1 = y.1 ∧ x.1 ∈ collectTD (getTD A.tbl p) y.2 := by
  obtain ⟨ks, f, q⟩ := x
  simp only [transOfTD, List.mem_flatMap, List.mem_map, Prod.mk.injEq]
  constructor
  · rintro ⟨y, hy, ks', hks, rfl, rfl, rfl⟩
    exact ⟨rfl, y, hy, rfl, hks⟩
  · rintro ⟨rfl, y, hy, rfl, hks⟩
    exact ⟨y, hy, ks, hks, rfl, rfl, rfl⟩

theorem transOfTD_sub {yd : SymDict} {A : AutTD} {p : Nat} (hp : p ∈ keysTD A.tbl) {x : List Nat × String × Nat}
    (hx : x ∈ transOfTD yd A.tbl p) : x ∈ (rawExplTD yd A).trans := by
  simp only [rawExplTD, List.mem_flatMap]
  exact ⟨p, hp, hx⟩

theorem transOfTD_of_raw {yd : SymDict} {A : AutTD} {x : List Nat × String × Nat}
    (hx : x ∈ (rawExplTD yd A).trans) : x.2.2 ∈ keysTD A.tbl ∧ x ∈ transOfTD yd A.tbl x.2.2 := by
  simp only [rawExplTD, List.mem_flatMap] at hx
  obtain ⟨p, hp, hx⟩ := hx
  have := (mem_transOfTD.mp hx).1
  rw [this]
  exact ⟨hp, hx⟩

section RoundTripTD
variable (d : AutDesc) (yd : SymDict)
local notation "⟪R⟫" => loadTD Param.explicit ({} : AutTD) [] yd d

/-- the rules of the table of an explicit load into the empty top-down automaton -/
theorem hasRuleTD_explTD (hyd : yd.Ok) (ρ : Nat → Bool) (p : Nat) (ks : List Nat) :
    HasRuleTD ⟪R⟫.aut.tbl ρ p ks ↔ ∃ t, t ∈ d.trans ∧ t.1.map ⟪R⟫.st.sd.get = ks ∧ ⟪R⟫.st.sd.get t.2.2 = p ∧
      agrees ρ (cube .explicit ⟪R⟫.st t) 0 = true ∧ arOK ρ ks.length = true := by
  rw [hasRuleTD_loadTD .explicit {} yd hyd d, loaded_explicit]
  constructor
  · rintro (h | h)
    · exact absurd h (hasRuleTD_nil ρ p ks)
    · exact h
  · exact Or.inr

/-- the rule of a transition is in the table, under the arity prefix of its number of children modulo 64 -/
theorem hasRuleTD_of_trans (hyd : yd.Ok) {t : Trans} (ht : t ∈ d.trans) :
    HasRuleTD ⟪R⟫.aut.tbl (bitsAr (⟪R⟫.st.yd.get t.2.1) (t.1.length % 64)) (⟪R⟫.st.sd.get t.2.2)
      (t.1.map ⟪R⟫.st.sd.get) := by
  refine (hasRuleTD_explTD d yd hyd _ _ _).mpr ⟨t, ht, rfl, rfl, ?_, ?_⟩
  · unfold bitsAr
    rw [agrees_withArity _ _ _ (by simp only [cube]; rw [symAsgn_length]; omega)]
    exact agrees_bits_self _
  · rw [List.length_map]; exact arOK_withArity_mod _ _

/-- **the dump of a loaded top-down automaton, exactly** (no bound on the alphabet): as `dump_load_bu_exact`; the
`states` of the dump are all states of the description (final states, parents and children).  No hypothesis on ranks or
arities: the dump collects the tuples for every value of the arity variables, so a transition with 64 or more children
comes back as well. -/
theorem dump_load_td_exact (hyd : yd.Ok) :
    ∃ d', dumpTD .explicit (.dict ⟪R⟫.st.sd) ⟪R⟫.st.yd ⟪R⟫.aut = .ok d' ∧ ⟪R⟫.err = none ∧
      d'.final ≈ d.final ∧
      (∀ x, x ∈ d'.trans ↔ ∃ t, t ∈ d.trans ∧ ∃ f k, (f, k) ∈ ⟪R⟫.st.yd ∧
        k % 2 ^ 16 = ⟪R⟫.st.yd.get t.2.1 % 2 ^ 16 ∧ x = (t.1, f, t.2.2)) ∧
      d'.states ≈ d.final ++ d.trans.flatMap (fun t => t.2.2 :: t.1) ∧ d'.name = "" ∧ d'.symbols = [] := by
  obtain ⟨hE, herr⟩ := explLoad_td {} yd hyd d
  obtain ⟨hT, _⟩ := table_loadTD .explicit {} yd hyd d tableTD_nil
  have hfin : ⟪R⟫.aut.fin = d.final.map ⟪R⟫.st.sd.get := by
    rw [loadTD_fin .explicit {} yd hyd d]; rfl
  have htr : ∀ ks f p, (ks, f, p) ∈ (rawExplTD ⟪R⟫.st.yd ⟪R⟫.aut).trans ↔
      ∃ t, t ∈ d.trans ∧ ks = t.1.map ⟪R⟫.st.sd.get ∧ p = ⟪R⟫.st.sd.get t.2.2 ∧
        ∃ k, (f, k) ∈ ⟪R⟫.st.yd ∧ k % 2 ^ 16 = ⟪R⟫.st.yd.get t.2.1 % 2 ^ 16 := by
    intro ks f p
    rw [mem_rawExplTD hT]
    constructor
    · rintro ⟨k, hk, ρ, h1, h2⟩
      obtain ⟨t, ht, e1, e2, h3, _⟩ := (hasRuleTD_explTD d yd hyd ρ p ks).mp h2
      exact ⟨t, ht, e1.symm, e2.symm, k, hk, (cubes_meet_iff _ _).mp ⟨ρ, h1, h3⟩⟩
    · rintro ⟨t, ht, rfl, rfl, k, hk, hm⟩
      obtain ⟨ρ, h1, h2⟩ := (cubes_meet_iff _ _).mpr hm
      refine ⟨k, hk, withArity ρ (t.1.length % 64), ?_, (hasRuleTD_explTD d yd hyd _ _ _).mpr ⟨t, ht, rfl, rfl, ?_, ?_⟩⟩
      · rw [agrees_withArity _ _ _ (by rw [symAsgn_length]; omega)]; exact h1
      · rw [agrees_withArity _ _ _ (by simp only [cube]; rw [symAsgn_length]; omega)]; exact h2
      · rw [List.length_map]; exact arOK_withArity_mod _ _
  have hst : ∀ n, n ∈ (rawExplTD ⟪R⟫.st.yd ⟪R⟫.aut).states ↔ ∃ q, q ∈ ⟪R⟫.st.sd.keys ∧ n = ⟪R⟫.st.sd.get q := by
    intro n
    simp only [rawExplTD, List.mem_append, List.mem_flatMap, List.mem_cons]
    rw [hfin, List.mem_map]
    constructor
    · rintro (⟨q, hq, rfl⟩ | ⟨p, hp, rfl | ⟨x, hx, hn⟩⟩)
      · exact ⟨q, hE.final_key hq, rfl⟩
      · rw [loadTD_tbl .explicit {} yd hyd d] at hp
        rcases keysTD_foldl_cube n _ _ hp with h | ⟨c, hc, e⟩
        · cases h
        · obtain ⟨t, ht, rfl⟩ := List.mem_map.mp hc
          rw [loaded_explicit] at ht
          exact ⟨t.2.2, (hE.cov t ht).parent, e.symm⟩
      · obtain ⟨ks, f, q⟩ := x
        obtain ⟨t, ht, rfl, rfl, _⟩ := (htr ks f q).mp (transOfTD_sub hp hx)
        obtain ⟨q', hq', rfl⟩ := List.mem_map.mp hn
        exact ⟨q', (hE.cov t ht).kids q' hq', rfl⟩
    · rintro ⟨q, hq, rfl⟩
      rcases (hE.keys q).mp hq with hq | ⟨t, ht, rfl | hq⟩
      · exact Or.inl ⟨q, hq, rfl⟩
      · exact Or.inr ⟨_, hasRuleTD_key (hasRuleTD_of_trans d yd hyd ht), Or.inl rfl⟩
      · have hx := (htr _ t.2.1 _).mpr ⟨t, ht, rfl, rfl, _, fwd?_some_mem (fwd_get ((hE.cov t ht).sym rfl)), rfl⟩
        obtain ⟨hk, hx'⟩ := transOfTD_of_raw hx
        exact Or.inr ⟨_, hk, Or.inr ⟨_, hx', List.mem_map_of_mem hq⟩⟩
  have hused : ∀ q, q ∈ (rawExplTD ⟪R⟫.st.yd ⟪R⟫.aut).used → ∃ n, ⟪R⟫.st.sd.bwd? q = some n := by
    intro q hq
    simp only [Raw.used, List.mem_append, List.mem_flatMap] at hq
    rcases hq with (hq | hq) | ⟨y, hy, hq⟩
    · have : q ∈ ⟪R⟫.aut.fin := hq
      rw [hfin] at this
      obtain ⟨n, hn, rfl⟩ := List.mem_map.mp this
      exact hE.has_name (hE.final_key hn)
    · obtain ⟨n, hn, rfl⟩ := (hst q).mp hq
      exact hE.has_name hn
    · obtain ⟨ks, f, p⟩ := y
      obtain ⟨t, ht, rfl, rfl, _⟩ := (htr ks f p).mp hy
      simp only [List.mem_singleton] at hq
      rcases hq with hq | rfl
      · obtain ⟨n, hn, rfl⟩ := List.mem_map.mp hq
        exact hE.has_name ((hE.cov t ht).kids n hn)
      · exact hE.has_name (hE.cov t ht).parent
  refine ⟨_, dumpRaw_dict hused, herr, ?_, ?_, ?_, (named_name_symbols _ _).1, (named_name_symbols _ _).2⟩
  · intro q
    rw [mem_named_final]
    show (∃ n, n ∈ ⟪R⟫.aut.fin ∧ _) ↔ _
    rw [hfin]
    constructor
    · rintro ⟨n, hn, rfl⟩
      obtain ⟨q', hq', rfl⟩ := List.mem_map.mp hn
      rw [nameOf_get hE.ok.sd (hE.final_key hq')]; exact hq'
    · intro hq
      exact ⟨_, List.mem_map_of_mem hq, (nameOf_get hE.ok.sd (hE.final_key hq)).symm⟩
  · intro x
    rw [mem_named_trans]
    constructor
    · rintro ⟨⟨ks, f, p⟩, hy, rfl⟩
      obtain ⟨t, ht, rfl, rfl, k, hk, hm⟩ := (htr ks f p).mp hy
      refine ⟨t, ht, f, k, hk, hm, ?_⟩
      simp only
      rw [hE.named_kids ht, hE.named_parent ht]
    · rintro ⟨t, ht, f, k, hk, hm, rfl⟩
      refine ⟨(t.1.map ⟪R⟫.st.sd.get, f, ⟪R⟫.st.sd.get t.2.2), (htr _ _ _).mpr ⟨t, ht, rfl, rfl, k, hk, hm⟩, ?_⟩
      simp only
      rw [hE.named_kids ht, hE.named_parent ht]
  · intro q
    rw [mem_named_states]
    have hq' : q ∈ d.final ++ d.trans.flatMap (fun t => t.2.2 :: t.1) ↔ q ∈ ⟪R⟫.st.sd.keys := by
      rw [hE.keys q]
      simp only [List.mem_append, List.mem_flatMap, List.mem_cons]
    rw [hq']
    constructor
    · rintro ⟨n, hn, rfl⟩
      obtain ⟨q', hq'', rfl⟩ := (hst n).mp hn
      rw [nameOf_get hE.ok.sd hq'']; exact hq''
    · intro hq
      exact ⟨_, (hst _).mpr ⟨q, hq, rfl⟩, (nameOf_get hE.ok.sd hq).symm⟩

/-- **load then dump, top-down encoding** (at most `2^16` names after the load) -/
theorem load_dump_td (hyd : yd.Ok) (hlim : ⟪R⟫.st.yd.length ≤ symbolCodes) :
    ∃ d', dumpTD .explicit (.dict ⟪R⟫.st.sd) ⟪R⟫.st.yd ⟪R⟫.aut = .ok d' ∧ ⟪R⟫.err = none ∧
      d'.final ≈ d.final ∧ d'.trans ≈ d.trans ∧ d'.states ≈ d.final ++ d.trans.flatMap (fun t => t.2.2 :: t.1) ∧
      d'.name = "" ∧ d'.symbols = [] := by
  obtain ⟨hE, _⟩ := explLoad_td {} yd hyd d
  obtain ⟨d', h1, h2, h3, h4, h5, h6, h7⟩ := dump_load_td_exact d yd hyd
  refine ⟨d', h1, h2, h3, ?_, h5, h6, h7⟩
  intro x
  rw [h4]
  constructor
  · rintro ⟨t, ht, f, k, hk, hm, rfl⟩
    rw [hE.alias_unique hlim hk ht hm]; exact ht
  · intro hx
    have hsym := (hE.cov x hx).sym rfl
    exact ⟨x, hx, x.2.1, _, fwd?_some_mem (fwd_get hsym), rfl, rfl⟩

end RoundTripTD

/-! ## 5. the limits: `2^16` names, 64 children; equal names with different arities -/

/-- a name that the alphabet does not know gets the next number: the size of the dictionary -/
theorem trSym_new (s : LSt) {f : String} (h : f ∉ s.yd.keys) :
    (trSym s f).1 = s.yd.length ∧ (trSym s f).2.yd = s.yd ++ [(f, s.yd.length)] := by
  have hn : s.yd.fwd? f = none := fwd?_eq_none.mpr h
  simp [trSym, Dict.weak, hn, Dict.insert]

/-- a name that the alphabet knows keeps its number; the alphabet is not changed -/
theorem trSym_old (s : LSt) {f : String} {k : Nat} (h : s.yd.fwd? f = some k) :
    (trSym s f).1 = k ∧ (trSym s f).2.yd = s.yd := by
  simp [trSym, Dict.weak, h]

/-- the description with the single transition `b -> q` (no final state) -/
def leafDesc (b q : String) : AutDesc := { name := "", symbols := [], states := [], final := [], trans := [([], b, q)] }

theorem leafDesc_load_bu (yd : SymDict) {b : String} (q : String) (hb : b ∉ yd.keys) :
    (loadBU .explicit {} [] yd (leafDesc b q)).st.yd.get b = yd.length ∧
      (loadBU .explicit {} [] yd (leafDesc b q)).st.yd = yd ++ [(b, yd.length)] := by
  have hn : yd.fwd? b = none := fwd?_eq_none.mpr hb
  have h2 : (loadBU .explicit {} [] yd (leafDesc b q)).st.yd = yd ++ [(b, yd.length)] := by
    simp [loadBU, loadDesc, leafDesc, stepTrans, trRule, trStates, trState, trSym, Dict.weak, hn, Dict.insert]
  refine ⟨?_, h2⟩
  rw [h2]
  apply get_of_fwd
  rw [fwd?_append_none hn]; simp [fwd?]

theorem leafDesc_load_td (yd : SymDict) {b : String} (q : String) (hb : b ∉ yd.keys) :
    (loadTD .explicit {} [] yd (leafDesc b q)).st.yd.get b = yd.length ∧
      (loadTD .explicit {} [] yd (leafDesc b q)).st.yd = yd ++ [(b, yd.length)] := by
  rw [← (loadBU_st_eq_loadTD .explicit {} {} [] yd (leafDesc b q)).1]
  exact leafDesc_load_bu yd q hb

/-- **the 65 537th name (bottom-up).**  On an alphabet with `2^16` names more than the number `k` of the name `a` (e.g. the
first name, `k = 0`, on an alphabet of exactly `2^16` names) the new name `b` gets the code of `a`: the automaton loaded
from `b -> q` dumps `a -> q` as well, a transition that the description does not have.  The load and the dump succeed
(the library logs `backward mapping for … already found` and carries on). -/
theorem alias_at_wrap_bu (yd : SymDict) (hyd : yd.Ok) {a b : String} (q : String) {k : Nat} (ha : (a, k) ∈ yd)
    (hb : b ∉ yd.keys) (hlen : yd.length = k + symbolCodes) :
    ∃ d', dumpBU .explicit (.dict (loadBU .explicit {} [] yd (leafDesc b q)).st.sd)
        (loadBU .explicit {} [] yd (leafDesc b q)).st.yd (loadBU .explicit {} [] yd (leafDesc b q)).aut = .ok d' ∧
      ([], b, q) ∈ d'.trans ∧ ([], a, q) ∈ d'.trans ∧ ([], a, q) ∉ (leafDesc b q).trans := by
  obtain ⟨d', h1, _, _, h4, _⟩ := dump_load_bu_exact (leafDesc b q) yd hyd
  obtain ⟨hg, hy⟩ := leafDesc_load_bu yd q hb
  have hab : a ≠ b := fun e => hb (e ▸ List.mem_map.mpr ⟨(a, k), ha, rfl⟩)
  refine ⟨d', h1, (h4 _).mpr ⟨([], b, q), by simp [leafDesc], b, yd.length, ?_, ?_, rfl⟩,
    (h4 _).mpr ⟨([], b, q), by simp [leafDesc], a, k, ?_, ?_, rfl⟩, by simp [leafDesc, hab]⟩
  · rw [hy]; simp
  · rw [hg]
  · rw [hy]; exact List.mem_append_left _ ha
  · rw [hg, hlen]; exact (Nat.add_mod_right k (2 ^ 16)).symm

/-- **the 65 537th name (top-down)** -/
theorem alias_at_wrap_td (yd : SymDict) (hyd : yd.Ok) {a b : String} (q : String) {k : Nat} (ha : (a, k) ∈ yd)
    (hb : b ∉ yd.keys) (hlen : yd.length = k + symbolCodes) :
    ∃ d', dumpTD .explicit (.dict (loadTD .explicit {} [] yd (leafDesc b q)).st.sd)
        (loadTD .explicit {} [] yd (leafDesc b q)).st.yd (loadTD .explicit {} [] yd (leafDesc b q)).aut = .ok d' ∧
      ([], b, q) ∈ d'.trans ∧ ([], a, q) ∈ d'.trans ∧ ([], a, q) ∉ (leafDesc b q).trans := by
  obtain ⟨d', h1, _, _, h4, _⟩ := dump_load_td_exact (leafDesc b q) yd hyd
  obtain ⟨hg, hy⟩ := leafDesc_load_td yd q hb
  have hab : a ≠ b := fun e => hb (e ▸ List.mem_map.mpr ⟨(a, k), ha, rfl⟩)
  refine ⟨d', h1, (h4 _).mpr ⟨([], b, q), by simp [leafDesc], b, yd.length, ?_, ?_, rfl⟩,
    (h4 _).mpr ⟨([], b, q), by simp [leafDesc], a, k, ?_, ?_, rfl⟩, by simp [leafDesc, hab]⟩
  · rw [hy]; simp
  · rw [hg]
  · rw [hy]; exact List.mem_append_left _ ha
  · rw [hg, hlen]; exact (Nat.add_mod_right k (2 ^ 16)).symm

/-- an alphabet with `n` names (`""`, `"z"`, `"zz"`, …) in the state the translator leaves it -/
def fillAlphabet (n : Nat) : SymDict := (List.range n).map (fun i => (String.ofList (List.replicate i 'z'), i))

theorem fillAlphabet_ok (n : Nat) : (fillAlphabet n).Ok := by
  refine ⟨?_, ?_⟩
  · unfold fillAlphabet Dict.keys
    rw [List.map_map]
    refine List.Pairwise.map _ ?_ (List.nodup_range (n := n))
    intro i j hij e
    apply hij
    have := congrArg (fun s => s.toList.length) e
    simpa using this
  · unfold fillAlphabet Dict.vals
    rw [List.map_map, List.length_map, List.length_range]
    show List.map (fun i => i) (List.range n) = List.range n
    exact List.map_id' _

theorem fillAlphabet_length (n : Nat) : (fillAlphabet n).length = n := by simp [fillAlphabet]

theorem fillAlphabet_mem {n i : Nat} (h : i < n) : (String.ofList (List.replicate i 'z'), i) ∈ fillAlphabet n :=
  List.mem_map.mpr ⟨i, List.mem_range.mpr h, rfl⟩

theorem fillAlphabet_key {n : Nat} {f : String} (h : f ∈ (fillAlphabet n).keys) : ∃ i, f = String.ofList (List.replicate i 'z') := by
  unfold fillAlphabet Dict.keys at h
  rw [List.map_map] at h
  obtain ⟨i, _, rfl⟩ := List.mem_map.mp h
  exact ⟨i, rfl⟩

/-- … instantiated: an alphabet of exactly `2^16` names, the first one is `""` with the code `0…0`; the new name `b` -/
theorem alias_at_wrap_instance :
    (fillAlphabet symbolCodes).Ok ∧ (fillAlphabet symbolCodes).length = 0 + symbolCodes ∧
    ("", 0) ∈ fillAlphabet symbolCodes ∧ "b" ∉ (fillAlphabet symbolCodes).keys := by
  refine ⟨fillAlphabet_ok _, by rw [fillAlphabet_length]; rfl, fillAlphabet_mem (i := 0) (by decide), ?_⟩
  intro h
  obtain ⟨i, hi⟩ := fillAlphabet_key h
  have := congrArg String.toList hi
  simp only [String.toList_ofList] at this
  have h0 : 'b' ∈ List.replicate i 'z' := by rw [← this]; decide
  have := List.eq_of_mem_replicate h0
  exact absurd this (by decide)

/-- **equal names, different arities: ONE symbol.**  The code of a transition's symbol depends on the NAME alone; two
transitions with the same symbol name and any numbers of children are stored under the same valuation of the 16 symbol
variables (bottom-up: under their two tuples; top-down: under their two arity prefixes).  Two different names get two
different numbers, and (on an alphabet within `2^16` names) two disjoint cubes. -/
theorem same_name_same_code (st : LSt) (t t' : Trans) (h : t.2.1 = t'.2.1) :
    cube .explicit st t = cube .explicit st t' := by
  simp only [cube, h]

theorem unranked_one_symbol_bu (d : AutDesc) (yd : SymDict) (hyd : yd.Ok) {t t' : Trans} (ht : t ∈ d.trans)
    (ht' : t' ∈ d.trans) (h : t.2.1 = t'.2.1) :
    ∃ k, HasRule (loadBU .explicit {} [] yd d).aut.tbl (bits k)
        (t.1.map (loadBU .explicit {} [] yd d).st.sd.get) ((loadBU .explicit {} [] yd d).st.sd.get t.2.2) ∧
      HasRule (loadBU .explicit {} [] yd d).aut.tbl (bits k)
        (t'.1.map (loadBU .explicit {} [] yd d).st.sd.get) ((loadBU .explicit {} [] yd d).st.sd.get t'.2.2) := by
  refine ⟨(loadBU .explicit {} [] yd d).st.yd.get t.2.1,
    (hasRule_explBU d yd hyd _ _ _).mpr ⟨t, ht, rfl, rfl, agrees_bits_self _⟩,
    (hasRule_explBU d yd hyd _ _ _).mpr ⟨t', ht', rfl, rfl, ?_⟩⟩
  rw [← same_name_same_code _ t t' h]; exact agrees_bits_self _

theorem unranked_one_symbol_td (d : AutDesc) (yd : SymDict) (hyd : yd.Ok) {t t' : Trans} (ht : t ∈ d.trans)
    (ht' : t' ∈ d.trans) (h : t.2.1 = t'.2.1) :
    ∃ k, HasRuleTD (loadTD .explicit {} [] yd d).aut.tbl (bitsAr k (t.1.length % 64))
        ((loadTD .explicit {} [] yd d).st.sd.get t.2.2) (t.1.map (loadTD .explicit {} [] yd d).st.sd.get) ∧
      HasRuleTD (loadTD .explicit {} [] yd d).aut.tbl (bitsAr k (t'.1.length % 64))
        ((loadTD .explicit {} [] yd d).st.sd.get t'.2.2) (t'.1.map (loadTD .explicit {} [] yd d).st.sd.get) := by
  refine ⟨(loadTD .explicit {} [] yd d).st.yd.get t.2.1, hasRuleTD_of_trans d yd hyd ht, ?_⟩
  have := hasRuleTD_of_trans d yd hyd ht'
  rwa [← h] at this

theorem different_names_different_codes (d : AutDesc) (yd : SymDict) (hyd : yd.Ok) {t t' : Trans} (ht : t ∈ d.trans)
    (ht' : t' ∈ d.trans) (h : t.2.1 ≠ t'.2.1) :
    (loadBU .explicit {} [] yd d).st.yd.get t.2.1 ≠ (loadBU .explicit {} [] yd d).st.yd.get t'.2.1 ∧
    ((loadBU .explicit {} [] yd d).st.yd.length ≤ symbolCodes → ∀ ρ,
      ¬ (agrees ρ (cube .explicit (loadBU .explicit {} [] yd d).st t) 0 = true ∧
         agrees ρ (cube .explicit (loadBU .explicit {} [] yd d).st t') 0 = true)) := by
  obtain ⟨hE, _⟩ := explLoad_bu {} yd hyd d
  have hne : (loadBU .explicit {} [] yd d).st.yd.get t.2.1 ≠ (loadBU .explicit {} [] yd d).st.yd.get t'.2.1 :=
    fun e => h (hE.ok.yd.get_inj ((hE.cov t ht).sym rfl) ((hE.cov t' ht').sym rfl) e)
  refine ⟨hne, fun hlim ρ ⟨h1, h2⟩ => hne ?_⟩
  have l1 := hE.ok.yd.get_lt ((hE.cov t ht).sym rfl)
  have l2 := hE.ok.yd.get_lt ((hE.cov t' ht').sym rfl)
  have hlim' : (loadBU .explicit {} [] yd d).st.yd.length ≤ 2 ^ 16 := hlim
  exact code_unique (by omega) (by omega) h1 h2

/-- **the arity prefix keeps rules of different arity apart** (top-down table, either parameter): two rules that the
table holds for the same valuation of the 22 variables have the same number of children modulo 64 – the same number
when all transitions have fewer than 64 children. -/
theorem td_arity_mod (par : Param) (d : AutDesc) (yd : SymDict) (hyd : yd.Ok) {ρ : Nat → Bool} {p p' : Nat}
    {ks ks' : List Nat} (h : HasRuleTD (loadTD par {} [] yd d).aut.tbl ρ p ks)
    (h' : HasRuleTD (loadTD par {} [] yd d).aut.tbl ρ p' ks') : ks.length % 64 = ks'.length % 64 := by
  have key : ∀ {p ks}, HasRuleTD (loadTD par {} [] yd d).aut.tbl ρ p ks → arOK ρ ks.length = true := by
    intro p ks h
    rcases (hasRuleTD_loadTD par {} yd hyd d ρ p ks).mp h with h | ⟨_, _, _, _, _, h⟩
    · exact absurd h (hasRuleTD_nil ρ p ks)
    · exact h
  have h1 := (arOK_iff ρ _).mp (key h)
  have h2 := (arOK_iff ρ _).mp (key h')
  apply Nat.eq_of_testBit_eq
  intro i
  rw [show (64 : Nat) = 2 ^ 6 from rfl, Nat.testBit_mod_two_pow, Nat.testBit_mod_two_pow]
  by_cases hi : i < 6
  · simp only [hi, decide_true, Bool.true_and]; exact (h1 i hi).symm.trans (h2 i hi)
  · simp [hi]

theorem td_arity_disjoint (par : Param) (d : AutDesc) (yd : SymDict) (hyd : yd.Ok)
    (har : ∀ t, t ∈ d.trans → t.1.length < arityCodes) {ρ : Nat → Bool} {p p' : Nat}
    {ks ks' : List Nat} (h : HasRuleTD (loadTD par {} [] yd d).aut.tbl ρ p ks)
    (h' : HasRuleTD (loadTD par {} [] yd d).aut.tbl ρ p' ks') : ks.length = ks'.length := by
  have key : ∀ {p ks}, HasRuleTD (loadTD par {} [] yd d).aut.tbl ρ p ks → ks.length < 64 := by
    intro p ks h
    rcases (hasRuleTD_loadTD par {} yd hyd d ρ p ks).mp h with h | ⟨t, ht, e, _⟩
    · exact absurd h (hasRuleTD_nil ρ p ks)
    · rw [← e, List.length_map]; exact har t (mem_loaded ht).1
  have := td_arity_mod par d yd hyd h h'
  have l1 := key h
  have l2 := key h'
  omega

/-- **64 children.**  `addArityToSymbol` keeps the 6 low bits of the arity (the assertion `arity <= MAX_SYMBOL_ARITY` is
compiled out): the rule of a transition with 64 children is stored under the arity prefix 0, where
`GetMtbddForArity (mtbdd, 0)` finds it among the leaf rules. -/
theorem td_arity_64_collides (d : AutDesc) (yd : SymDict) (hyd : yd.Ok) {t : Trans} (ht : t ∈ d.trans)
    (h64 : t.1.length = 64) :
    HasRuleTD (loadTD .explicit {} [] yd d).aut.tbl (bitsAr ((loadTD .explicit {} [] yd d).st.yd.get t.2.1) 0)
      ((loadTD .explicit {} [] yd d).st.sd.get t.2.2) (t.1.map (loadTD .explicit {} [] yd d).st.sd.get) ∧
    (t.1.map (loadTD .explicit {} [] yd d).st.sd.get).length = 64 := by
  have := hasRuleTD_of_trans d yd hyd ht
  rw [h64] at this
  exact ⟨this, by rw [List.length_map, h64]⟩

/-- the arity prefix `n` as `GetMtbddForPrefix` reads it is the number `n` on the arity variables -/
theorem arAsgn_get (n j : Nat) (hj : j < 6) : decide ((arAsgn n)[j]? = some (some true)) = n.testBit j := by
  unfold arAsgn
  rw [List.getElem?_map, List.getElem?_range hj]
  cases h : n.testBit j <;> simp [h]

/-- **`GetMtbddForArity`**: every tuple that `GetMtbddForArity (GetMtbdd (p), n)` shows of a loaded top-down table (either
parameter) has `n` children modulo 64 -/
theorem tuplesForArity_mod (par : Param) (d : AutDesc) (yd : SymDict) (hyd : yd.Ok) {p n : Nat} {ks : List Nat}
    (h : ks ∈ tuplesForArity (loadTD par {} [] yd d).aut.tbl p n) : ks.length % 64 = n % 64 := by
  obtain ⟨hT, _⟩ := table_loadTD par {} yd hyd d tableTD_nil
  unfold tuplesForArity at h
  obtain ⟨ρ, hρ⟩ := (mem_leafTuples (getPrefix_wf _ _ (hT p)).1).mp h
  rw [getPrefix_eval _ _ _ (hT p)] at hρ
  have hr : HasRuleTD (loadTD par {} [] yd d).aut.tbl
      (fun i => if i < 16 then ρ i else decide ((arAsgn n)[i - 16]? = some (some true))) p ks := hρ
  rcases (hasRuleTD_loadTD par {} yd hyd d _ p ks).mp hr with h' | ⟨_, _, _, _, _, har⟩
  · exact absurd h' (hasRuleTD_nil _ p ks)
  · have h1 := (arOK_iff _ _).mp har
    apply Nat.eq_of_testBit_eq
    intro i
    rw [show (64 : Nat) = 2 ^ 6 from rfl, Nat.testBit_mod_two_pow, Nat.testBit_mod_two_pow]
    by_cases hi : i < 6
    · simp only [hi, decide_true, Bool.true_and]
      have := h1 i hi
      simp only [show ¬ (i + 16 < 16) by omega, if_false, Nat.add_sub_cancel] at this
      rw [← this, arAsgn_get n i hi]
    · simp [hi]

/-- … and shows the tuple of every transition under the prefix of its number of children modulo 64 – a transition with 64
children under the prefix 0 -/
theorem tuplesForArity_of_trans (d : AutDesc) (yd : SymDict) (hyd : yd.Ok) {t : Trans} (ht : t ∈ d.trans) :
    t.1.map (loadTD .explicit {} [] yd d).st.sd.get ∈
      tuplesForArity (loadTD .explicit {} [] yd d).aut.tbl ((loadTD .explicit {} [] yd d).st.sd.get t.2.2)
        (t.1.length % 64) := by
  obtain ⟨hT, _⟩ := table_loadTD .explicit {} yd hyd d tableTD_nil
  unfold tuplesForArity
  rw [mem_leafTuples (getPrefix_wf _ _ (hT _)).1]
  refine ⟨bits ((loadTD .explicit {} [] yd d).st.yd.get t.2.1), ?_⟩
  rw [getPrefix_eval _ _ _ (hT _)]
  have hr := hasRuleTD_of_trans d yd hyd ht
  have e : (fun i => if i < 16 then bits ((loadTD .explicit {} [] yd d).st.yd.get t.2.1) i
      else decide ((arAsgn (t.1.length % 64))[i - 16]? = some (some true))) =
      fun i => if i < 22 then bitsAr ((loadTD .explicit {} [] yd d).st.yd.get t.2.1) (t.1.length % 64) i
        else false := by
    funext i
    unfold bitsAr withArity
    by_cases h16 : i < 16
    · simp [h16, show i < 22 by omega]
    · by_cases h22 : i < 22
      · simp only [h16, h22, if_false, if_true]
        exact arAsgn_get _ _ (by omega)
      · simp only [h16, h22, if_false]
        unfold arAsgn
        rw [List.getElem?_eq_none (by simp; omega)]
        simp
  rw [e]
  have hb := (table_loadTD .explicit {} yd hyd d tableTD_nil).2 ((loadTD .explicit {} [] yd d).st.sd.get t.2.2)
  have := eval_congr_below (α := List (List Nat)) (x := 22)
    (ρ := fun i => if i < 22 then bitsAr ((loadTD .explicit {} [] yd d).st.yd.get t.2.1) (t.1.length % 64) i else false)
    (ρ' := bitsAr ((loadTD .explicit {} [] yd d).st.yd.get t.2.1) (t.1.length % 64))
    (fun i hi => by simp [hi]) hb
  rw [this]
  exact hr

/-! ## 6. the order of the description does not matter -/

/-- the numbered rule that a transition becomes under the dictionaries of `st` -/
def ruleOf (st : LSt) (t : Trans) : Rule := ⟨st.yd.get t.2.1, t.1.map st.sd.get, st.sd.get t.2.2⟩

/-- the explicit load into the empty bottom-up automaton is `BddAbs.ofRules` of the numbered rules -/
theorem explBU_eq_ofRules (d : AutDesc) (yd : SymDict) (hyd : yd.Ok) :
    (loadBU .explicit {} [] yd d).aut.tbl = ofRules (d.trans.map (ruleOf (loadBU .explicit {} [] yd d).st)) := by
  rw [loadBU_tbl .explicit {} yd hyd d, loaded_explicit, ofRules, List.foldl_map, List.foldl_map]
  rfl

/-- the explicit load into the empty top-down automaton is `BddAbsTD.ofRulesTD` of the numbered rules -/
theorem explTD_eq_ofRulesTD (d : AutDesc) (yd : SymDict) (hyd : yd.Ok) :
    (loadTD .explicit {} [] yd d).aut.tbl = ofRulesTD (d.trans.map (ruleOf (loadTD .explicit {} [] yd d).st)) := by
  rw [loadTD_tbl .explicit {} yd hyd d, loaded_explicit, ofRulesTD, List.foldl_map, List.foldl_map]
  rfl

/-- two descriptions with the same sets of final states and transitions, loaded from the same alphabet on fresh state
dictionaries: the numbered automata are images of each other under bijections of the state and symbol numbers -/
theorem perm_core {d₁ d₂ : AutDesc} {yd : SymDict} {st₁ st₂ : LSt} (h₁ : ExplLoad yd d₁ st₁) (h₂ : ExplLoad yd d₂ st₂)
    (hf : d₁.final ≈ d₂.final) (ht : d₁.trans ≈ d₂.trans) :
    ∃ h g, (Function.Injective h ∧ Function.Surjective h) ∧ (Function.Injective g ∧ Function.Surjective g) ∧
      (∀ q, q ∈ st₁.sd.keys → h (st₁.sd.get q) = st₂.sd.get q) ∧ (∀ k, k ∈ st₁.yd.keys → g (st₁.yd.get k) = st₂.yd.get k) ∧
      ∀ t, accepts ⟨d₂.trans.map (ruleOf st₂), d₂.final.map st₂.sd.get⟩ (t.mapSyms g) =
        accepts ⟨d₁.trans.map (ruleOf st₁), d₁.final.map st₁.sd.get⟩ t := by
  have os1 := h₁.ok.sd
  have os2 := h₂.ok.sd
  have oy1 := h₁.ok.yd
  have oy2 := h₂.ok.yd
  have hks : ∀ q, q ∈ st₁.sd.keys ↔ q ∈ st₂.sd.keys := fun q => by
    rw [h₁.keys, h₂.keys, hf q]
    exact or_congr Iff.rfl (exists_congr fun t => and_congr (ht t) Iff.rfl)
  have hky : ∀ k, k ∈ st₁.yd.keys ↔ k ∈ st₂.yd.keys := fun k => by
    rw [h₁.ydKeys, h₂.ydKeys]
    exact or_congr Iff.rfl (exists_congr fun t => and_congr (ht t) Iff.rfl)
  have hh : ∀ q, q ∈ st₁.sd.keys → transfer st₁.sd st₂.sd (st₁.sd.get q) = st₂.sd.get q :=
    fun q hq => transfer_get st₂.sd os1 hq
  have hg : ∀ k, k ∈ st₁.yd.keys → transfer st₁.yd st₂.yd (st₁.yd.get k) = st₂.yd.get k :=
    fun k hk => transfer_get st₂.yd oy1 hk
  let A₁ : TA := ⟨d₁.trans.map (ruleOf st₁), d₁.final.map st₁.sd.get⟩
  let A₂ : TA := ⟨d₂.trans.map (ruleOf st₂), d₂.final.map st₂.sd.get⟩
  have hrules : ∀ r, r ∈ A₂.rules ↔
      r ∈ (translateSymbols (transfer st₁.yd st₂.yd) (reindex (transfer st₁.sd st₂.sd) A₁)).rules := by
    intro r
    have e : (translateSymbols (transfer st₁.yd st₂.yd) (reindex (transfer st₁.sd st₂.sd) A₁)).rules =
        d₁.trans.map (ruleOf st₂) := by
      simp only [translateSymbols, reindex, A₁, List.map_map]
      apply List.map_congr_left
      intro t htm
      simp only [Function.comp, mapSym, mapRule, ruleOf, List.map_map]
      have hc := h₁.cov t htm
      rw [hg _ (hc.sym rfl), hh _ hc.parent,
        List.map_congr_left (f := transfer st₁.sd st₂.sd ∘ st₁.sd.get) (g := st₂.sd.get) (fun q hq => hh q (hc.kids q hq))]
    rw [e]
    show r ∈ d₂.trans.map (ruleOf st₂) ↔ _
    rw [List.mem_map, List.mem_map]
    exact exists_congr fun t => and_congr (ht t).symm Iff.rfl
  have hfinal : ∀ q, q ∈ A₂.final ↔
      q ∈ (translateSymbols (transfer st₁.yd st₂.yd) (reindex (transfer st₁.sd st₂.sd) A₁)).final := by
    intro q
    have e : (translateSymbols (transfer st₁.yd st₂.yd) (reindex (transfer st₁.sd st₂.sd) A₁)).final =
        d₁.final.map st₂.sd.get := by
      simp only [translateSymbols, reindex, A₁, List.map_map]
      apply List.map_congr_left
      intro n hn
      exact hh n (h₁.final_key hn)
    rw [e]
    show q ∈ d₂.final.map st₂.sd.get ↔ _
    rw [List.mem_map, List.mem_map]
    exact exists_congr fun n => and_congr (hf n).symm Iff.rfl
  have ih := transfer_injective os1 os2 hks
  have ig := transfer_injective oy1 oy2 hky
  refine ⟨transfer st₁.sd st₂.sd, transfer st₁.yd st₂.yd, ⟨ih, transfer_surjective os1 os2 hks⟩,
    ⟨ig, transfer_surjective oy1 oy2 hky⟩, hh, hg, ?_⟩
  intro t
  show accepts A₂ _ = accepts A₁ t
  rw [lang_perm_invariant A₂ _ hrules hfinal, translateSymbols_lang _ (fun a b e => ig e),
    reindex_inj_lang _ A₁ (fun q q' _ _ e => ih e)]

/-- the abstraction of the loaded bottom-up table (the dictionary `syms` = all allocation numbers of the alphabet) is
the numbered automaton – on an alphabet within `2^16` names -/
theorem absBU_loaded (d : AutDesc) (yd : SymDict) (hyd : yd.Ok)
    (hlim : (loadBU .explicit {} [] yd d).st.yd.length ≤ symbolCodes) (t : Tree) :
    accepts (absBU (loadBU .explicit {} [] yd d).st.yd.vals (loadBU .explicit {} [] yd d).aut.tbl
        (loadBU .explicit {} [] yd d).aut.fin) t =
      accepts ⟨d.trans.map (ruleOf (loadBU .explicit {} [] yd d).st),
        d.final.map (loadBU .explicit {} [] yd d).st.sd.get⟩ t := by
  obtain ⟨hE, _⟩ := explLoad_bu {} yd hyd d
  have hlim' : (loadBU .explicit {} [] yd d).st.yd.length ≤ 2 ^ 16 := hlim
  rw [explBU_eq_ofRules d yd hyd, loadBU_fin .explicit {} yd hyd d]
  refine (absBU_ofRules_setEq _ _ _ ?_ ?_).lang t
  · intro r hr
    obtain ⟨t', ht', rfl⟩ := List.mem_map.mp hr
    have hk := (hE.cov t' ht').sym rfl
    have := hE.ok.yd.get_lt hk
    exact ⟨by simp only [ruleOf]; omega, List.mem_map.mpr ⟨_, fwd?_some_mem (fwd_get hk), rfl⟩⟩
  · intro f hf
    have := hE.ok.yd.mem_vals.mp hf
    omega

/-- … of the loaded top-down table – on an alphabet within `2^16` names, for transitions with fewer than 64 children -/
theorem absTD_loaded (d : AutDesc) (yd : SymDict) (hyd : yd.Ok)
    (hlim : (loadTD .explicit {} [] yd d).st.yd.length ≤ symbolCodes)
    (har : ∀ t, t ∈ d.trans → t.1.length < arityCodes) (t : Tree) :
    accepts (absTD (loadTD .explicit {} [] yd d).st.yd.vals (loadTD .explicit {} [] yd d).aut.tbl
        (loadTD .explicit {} [] yd d).aut.fin) t =
      accepts ⟨d.trans.map (ruleOf (loadTD .explicit {} [] yd d).st),
        d.final.map (loadTD .explicit {} [] yd d).st.sd.get⟩ t := by
  obtain ⟨hE, _⟩ := explLoad_td {} yd hyd d
  have hlim' : (loadTD .explicit {} [] yd d).st.yd.length ≤ 2 ^ 16 := hlim
  rw [explTD_eq_ofRulesTD d yd hyd, loadTD_fin .explicit {} yd hyd d]
  refine (absTD_ofRulesTD_setEq _ _ _ ?_ ?_).lang t
  · intro r hr
    obtain ⟨t', ht', rfl⟩ := List.mem_map.mp hr
    have hk := (hE.cov t' ht').sym rfl
    have := hE.ok.yd.get_lt hk
    refine ⟨by simp only [ruleOf]; omega, ?_, List.mem_map.mpr ⟨_, fwd?_some_mem (fwd_get hk), rfl⟩⟩
    simp only [ruleOf, List.length_map]
    exact har t' ht'
  · intro f hf
    have := hE.ok.yd.mem_vals.mp hf
    omega

/-- **the order of the rules does not matter (bottom-up).**  Two descriptions with the same sets of final states and
transitions (e.g. permutations of each other, with repetitions), loaded with the explicit parameter from the same alphabet
on fresh state dictionaries, alphabets within `2^16` names afterwards: the automaton that the second table denotes
(`absBU` over all symbols of the alphabet) accepts exactly the `g`-renamed trees of the first, where `g` is the bijection
of the symbol numbers that translates the first numbering to the second, name by name. -/
theorem load_perm_lang_bu (d₁ d₂ : AutDesc) (yd : SymDict) (hyd : yd.Ok) (hf : d₁.final ≈ d₂.final)
    (ht : d₁.trans ≈ d₂.trans) (hl₁ : (loadBU .explicit {} [] yd d₁).st.yd.length ≤ symbolCodes)
    (hl₂ : (loadBU .explicit {} [] yd d₂).st.yd.length ≤ symbolCodes) :
    ∃ g, (Function.Injective g ∧ Function.Surjective g) ∧
      (∀ k, k ∈ (loadBU .explicit {} [] yd d₁).st.yd.keys →
        g ((loadBU .explicit {} [] yd d₁).st.yd.get k) = (loadBU .explicit {} [] yd d₂).st.yd.get k) ∧
      ∀ t, accepts (absBU (loadBU .explicit {} [] yd d₂).st.yd.vals (loadBU .explicit {} [] yd d₂).aut.tbl
          (loadBU .explicit {} [] yd d₂).aut.fin) (t.mapSyms g) =
        accepts (absBU (loadBU .explicit {} [] yd d₁).st.yd.vals (loadBU .explicit {} [] yd d₁).aut.tbl
          (loadBU .explicit {} [] yd d₁).aut.fin) t := by
  obtain ⟨h, g, _, hg, _, hgk, hl⟩ := perm_core (explLoad_bu {} yd hyd d₁).1 (explLoad_bu {} yd hyd d₂).1 hf ht
  refine ⟨g, hg, hgk, fun t => ?_⟩
  rw [absBU_loaded d₂ yd hyd hl₂, absBU_loaded d₁ yd hyd hl₁, hl]

/-- **the order of the rules does not matter (top-down)**, transitions with fewer than 64 children -/
theorem load_perm_lang_td (d₁ d₂ : AutDesc) (yd : SymDict) (hyd : yd.Ok) (hf : d₁.final ≈ d₂.final)
    (ht : d₁.trans ≈ d₂.trans) (hl₁ : (loadTD .explicit {} [] yd d₁).st.yd.length ≤ symbolCodes)
    (hl₂ : (loadTD .explicit {} [] yd d₂).st.yd.length ≤ symbolCodes)
    (har : ∀ t, t ∈ d₁.trans → t.1.length < arityCodes) :
    ∃ g, (Function.Injective g ∧ Function.Surjective g) ∧
      (∀ k, k ∈ (loadTD .explicit {} [] yd d₁).st.yd.keys →
        g ((loadTD .explicit {} [] yd d₁).st.yd.get k) = (loadTD .explicit {} [] yd d₂).st.yd.get k) ∧
      ∀ t, accepts (absTD (loadTD .explicit {} [] yd d₂).st.yd.vals (loadTD .explicit {} [] yd d₂).aut.tbl
          (loadTD .explicit {} [] yd d₂).aut.fin) (t.mapSyms g) =
        accepts (absTD (loadTD .explicit {} [] yd d₁).st.yd.vals (loadTD .explicit {} [] yd d₁).aut.tbl
          (loadTD .explicit {} [] yd d₁).aut.fin) t := by
  obtain ⟨h, g, _, hg, _, hgk, hl⟩ := perm_core (explLoad_td {} yd hyd d₁).1 (explLoad_td {} yd hyd d₂).1 hf ht
  refine ⟨g, hg, hgk, fun t => ?_⟩
  rw [absTD_loaded d₂ yd hyd hl₂ (fun t' ht' => har t' ((ht t').mpr ht')), absTD_loaded d₁ yd hyd hl₁ har, hl]

/-- both encodings denote the same language as the explicit encoding of the numbered rules – and hence the same as each
other (the translators do not depend on the encoding) -/
theorem bu_td_same_lang (d : AutDesc) (yd : SymDict) (hyd : yd.Ok)
    (hlim : (loadBU .explicit {} [] yd d).st.yd.length ≤ symbolCodes)
    (har : ∀ t, t ∈ d.trans → t.1.length < arityCodes) (t : Tree) :
    accepts (absTD (loadTD .explicit {} [] yd d).st.yd.vals (loadTD .explicit {} [] yd d).aut.tbl
        (loadTD .explicit {} [] yd d).aut.fin) t =
      accepts (absBU (loadBU .explicit {} [] yd d).st.yd.vals (loadBU .explicit {} [] yd d).aut.tbl
        (loadBU .explicit {} [] yd d).aut.fin) t := by
  have e := (loadBU_st_eq_loadTD .explicit {} {} [] yd d).1
  rw [absBU_loaded d yd hyd hlim, absTD_loaded d yd hyd (by rw [← e]; exact hlim) har, e]

/-! ## 7. the symbolic parameter -/

/-- every symbolic assignment has a valuation in its cube -/
theorem exists_agrees (p : Cube) : ∃ ρ, agrees ρ p 0 = true := by
  refine ⟨fun i => p[i]? == some (some true), ?_⟩
  rw [agrees_iff]
  intro j b hj
  simp only [Nat.zero_add, hj]
  cases b <;> simp

/-- the assignment that a symbol string of ANY length denotes (what a reader of the symbolic dump makes of it) -/
def cubeOfStr (f : String) : Option Cube := Glue.ofStr f.toList

theorem cubeOfStr_toStr (a : Cube) : cubeOfStr (String.ofList (Glue.toStr a)) = some a := by
  unfold cubeOfStr; rw [String.toList_ofList]; exact Glue.ofStr_toStr a

theorem symOfStr_cubeOfStr {f : String} {a : Cube} (h : symOfStr f = .ok a) : cubeOfStr f = some a := by
  unfold symOfStr at h
  split at h
  · cases h
  · split at h
    · cases h
    · next a' ha => cases h; exact ha

theorem symOfStr_of_cubeOfStr {f : String} {a : Cube} (h : cubeOfStr f = some a) (hl : f.toList.length = 16) :
    symOfStr f = .ok a := by
  unfold symOfStr
  rw [if_neg (by simp [symbolSize, hl])]
  unfold cubeOfStr at h
  rw [h]

/-- **the symbolic dump denotes the table** (any bottom-up automaton whose table is well formed): for every valuation
`ρ` of the symbol variables the table holds the rule `ρ(ks) → p` iff the dump lists a transition `(ks, f, p)` whose symbol
string `f` – an assignment of whatever length, don't-care beyond its end – has `ρ` in its cube -/
theorem sym_dump_denotes {A : AutBU} (hT : TableOk A.tbl) (hW : TableWF A.tbl) (ρ : Nat → Bool) (ks : List Nat) (p : Nat) :
    HasRule A.tbl ρ ks p ↔
      ∃ f a, (ks, f, p) ∈ (rawSymBU A).trans ∧ cubeOfStr f = some a ∧ agrees ρ a 0 = true := by
  constructor
  · intro h
    obtain ⟨path, hp, hag⟩ := getPaths_complete (hW ks).1 ρ
    refine ⟨String.ofList (Glue.toStr path), path, ?_, cubeOfStr_toStr path, hag⟩
    exact (mem_rawSymBU hT ks _ p).mpr ⟨pairs_of_hasRule hT h, (path, eval (A.tbl.get ks) ρ), hp, h, rfl⟩
  · rintro ⟨f, a, hm, hf, hag⟩
    obtain ⟨_, pl, hpl, hp, rfl⟩ := (mem_rawSymBU hT ks f p).mp hm
    rw [cubeOfStr_toStr] at hf
    cases hf
    have := getPaths_sound (hW ks).1 hpl ρ hag
    unfold HasRule
    rw [this]; exact hp

/-- every transition of the symbolic dump is a rule of the table for some valuation -/
theorem rawSymBU_hasRule {A : AutBU} (hT : TableOk A.tbl) (hW : TableWF A.tbl) {ks : List Nat} {f : String} {p : Nat}
    (h : (ks, f, p) ∈ (rawSymBU A).trans) : ∃ ρ, HasRule A.tbl ρ ks p := by
  obtain ⟨_, pl, _, _, rfl⟩ := (mem_rawSymBU hT ks f p).mp h
  obtain ⟨ρ, hρ⟩ := exists_agrees pl.1
  exact ⟨ρ, (sym_dump_denotes hT hW ρ ks p).mpr ⟨_, pl.1, h, cubeOfStr_toStr _, hρ⟩⟩

/-- what a symbolic load of a description without a rejected symbol leaves in the translators -/
structure SymLoad (yd : SymDict) (d : AutDesc) (st : LSt) : Prop where
  ok : st.Ok
  keys : ∀ q, q ∈ st.sd.keys ↔ q ∈ d.final ∨ ∃ t, t ∈ d.trans ∧ (q = t.2.2 ∨ q ∈ t.1)
  cov : ∀ t, t ∈ d.trans → Covers .symbolic st t
  yd : st.yd = yd

/-- every symbol of the description is accepted by `loadFromAutDescSymbolic` -/
def SymValid (d : AutDesc) : Prop := ∀ t, t ∈ d.trans → ∃ a, symOfStr t.2.1 = .ok a

theorem SymValid.noErr {d : AutDesc} (h : SymValid d) : ∀ t, t ∈ d.trans → symErr .symbolic t = none := by
  intro t ht
  obtain ⟨a, ha⟩ := h t ht
  simp only [symErr, ha]

theorem symLoad_bu (A : AutBU) (yd : SymDict) (hyd : yd.Ok) (d : AutDesc) (hv : SymValid d) :
    SymLoad yd d (loadBU .symbolic A [] yd d).st ∧ (loadBU .symbolic A [] yd d).err = none := by
  obtain ⟨h1, _, h3, h4⟩ := loadDesc_spec AutBU.setFinal AutBU.add .symbolic A ⟨[], 0, yd⟩ (init_ok hyd) d
  rw [loaded_of_noErr hv.noErr] at h1 h3 h4
  refine ⟨⟨h1.ok, ?_, h4, ?_⟩, ?_⟩
  · intro q
    show q ∈ (loadDesc AutBU.setFinal AutBU.add .symbolic A ⟨[], 0, yd⟩ d).st.sd.keys ↔ _
    rw [h1.sdKeys]
    simp only [stateNames, loaded_of_noErr hv.noErr, badNames, List.append_nil, List.mem_append, List.mem_flatMap,
      stNames, List.mem_cons, Dict.keys, List.map_nil, List.not_mem_nil, false_or]
  · exact h1.ydLen (by simp [symNames])
  · show (loadDesc AutBU.setFinal AutBU.add .symbolic A ⟨[], 0, yd⟩ d).err = none
    rw [h3]; rfl

/-- **the symbolic load denotes the description**: the rules of the table of a symbolic load (no rejected symbol) into
the empty bottom-up automaton, for every valuation of the symbol variables -/
theorem sym_load_denotes (d : AutDesc) (yd : SymDict) (hyd : yd.Ok) (hv : SymValid d) (ρ : Nat → Bool) (ks : List Nat)
    (p : Nat) :
    HasRule (loadBU .symbolic {} [] yd d).aut.tbl ρ ks p ↔
      ∃ t a, t ∈ d.trans ∧ symOfStr t.2.1 = .ok a ∧ agrees ρ a 0 = true ∧
        t.1.map (loadBU .symbolic {} [] yd d).st.sd.get = ks ∧ (loadBU .symbolic {} [] yd d).st.sd.get t.2.2 = p := by
  rw [hasRule_loadBU .symbolic {} yd hyd d, loaded_of_noErr hv.noErr]
  constructor
  · rintro (h | ⟨t, ht, e1, e2, hag⟩)
    · exact absurd h (hasRule_empty ρ ks p)
    · obtain ⟨a, ha⟩ := hv t ht
      refine ⟨t, a, ht, ha, ?_, e1, e2⟩
      simpa only [cube, ha] using hag
  · rintro ⟨t, a, ht, ha, hag, e1, e2⟩
    refine Or.inr ⟨t, ht, e1, e2, ?_⟩
    simpa only [cube, ha] using hag

/-- **symbolic load then symbolic dump.**  A description whose symbols are all accepted, loaded with the symbolic parameter
into a new bottom-up automaton with a fresh state dictionary: the alphabet is not touched, the symbolic dump with the
dictionary of the load succeeds, has the same final states, and DENOTES the same rules: for every valuation `ρ` of the 16
symbol variables, the (children, parent) pairs of the dumped transitions whose symbol string has `ρ` in its cube are those
of the transitions of the description whose symbol has.  (The strings themselves differ: the dump lists the paths of the
MTBDDs, cut at the variable of the root.) -/
theorem sym_load_dump_denotes (d : AutDesc) (yd : SymDict) (hyd : yd.Ok) (hv : SymValid d) :
    ∃ d', dumpBU .symbolic (.dict (loadBU .symbolic {} [] yd d).st.sd) (loadBU .symbolic {} [] yd d).st.yd
        (loadBU .symbolic {} [] yd d).aut = .ok d' ∧
      (loadBU .symbolic {} [] yd d).err = none ∧ (loadBU .symbolic {} [] yd d).st.yd = yd ∧
      d'.final ≈ d.final ∧ d'.name = "" ∧ d'.symbols = [] ∧
      ∀ (ρ : Nat → Bool) (ks : List String) (p : String),
        (∃ f a, (ks, f, p) ∈ d'.trans ∧ cubeOfStr f = some a ∧ agrees ρ a 0 = true) ↔
        (∃ t a, t ∈ d.trans ∧ t.1 = ks ∧ t.2.2 = p ∧ symOfStr t.2.1 = .ok a ∧ agrees ρ a 0 = true) := by
  obtain ⟨hS, herr⟩ := symLoad_bu {} yd hyd d hv
  obtain ⟨hT, hW⟩ := table_loadBU .symbolic {} yd hyd d tableOk_empty tableWF_empty
  have hfin : (loadBU .symbolic {} [] yd d).aut.fin = d.final.map (loadBU .symbolic {} [] yd d).st.sd.get := by
    rw [loadBU_fin .symbolic {} yd hyd d]; rfl
  have hname : ∀ {q}, q ∈ (loadBU .symbolic {} [] yd d).st.sd.keys →
      ∃ n, (loadBU .symbolic {} [] yd d).st.sd.bwd? ((loadBU .symbolic {} [] yd d).st.sd.get q) = some n :=
    fun hq => ⟨_, hS.ok.sd.bwd_get hq⟩
  have hfk : ∀ {q}, q ∈ d.final → q ∈ (loadBU .symbolic {} [] yd d).st.sd.keys := fun hq => (hS.keys _).mpr (Or.inl hq)
  have hused : ∀ q, q ∈ (rawSymBU (loadBU .symbolic {} [] yd d).aut).used →
      ∃ n, (loadBU .symbolic {} [] yd d).st.sd.bwd? q = some n := by
    intro q hq
    simp only [Raw.used, List.mem_append, List.mem_flatMap] at hq
    rcases hq with (hq | hq) | ⟨y, hy, hq⟩
    · have : q ∈ (loadBU .symbolic {} [] yd d).aut.fin := hq
      rw [hfin] at this
      obtain ⟨n, hn, rfl⟩ := List.mem_map.mp this
      exact hname (hfk hn)
    · simp only [rawSymBU, List.mem_append, List.mem_flatMap] at hq
      rcases hq with hq | ⟨e, he, hn⟩
      · rw [hfin] at hq
        obtain ⟨n, hn, rfl⟩ := List.mem_map.mp hq
        exact hname (hfk hn)
      · have hne : e.1 ≠ [] := fun h => by rw [h] at hn; cases hn
        obtain ⟨t, ht, e'⟩ := pairs_kids_loadBU .symbolic yd hyd d he hne
        rw [e'] at hn
        obtain ⟨q', hq', rfl⟩ := List.mem_map.mp hn
        exact hname ((hS.cov t (mem_loaded ht).1).kids q' hq')
    · obtain ⟨ks, f, p⟩ := y
      obtain ⟨ρ, hr⟩ := rawSymBU_hasRule hT hW hy
      obtain ⟨t, a, ht, _, _, e1, e2⟩ := (sym_load_denotes d yd hyd hv ρ ks p).mp hr
      simp only [List.mem_singleton] at hq
      rcases hq with hq | rfl
      · rw [← e1] at hq
        obtain ⟨n, hn, rfl⟩ := List.mem_map.mp hq
        exact hname ((hS.cov t ht).kids n hn)
      · rw [← e2]; exact hname (hS.cov t ht).parent
  refine ⟨_, dumpRaw_dict hused, herr, hS.yd, ?_, (named_name_symbols _ _).1, (named_name_symbols _ _).2, ?_⟩
  · intro q
    rw [mem_named_final]
    show (∃ n, n ∈ (loadBU .symbolic {} [] yd d).aut.fin ∧ _) ↔ _
    rw [hfin]
    constructor
    · rintro ⟨n, hn, rfl⟩
      obtain ⟨q', hq', rfl⟩ := List.mem_map.mp hn
      rw [nameOf_get hS.ok.sd (hfk hq')]; exact hq'
    · intro hq
      exact ⟨_, List.mem_map_of_mem hq, (nameOf_get hS.ok.sd (hfk hq)).symm⟩
  · intro ρ ks p
    have hnk : ∀ {t}, t ∈ d.trans → (t.1.map (loadBU .symbolic {} [] yd d).st.sd.get).map
        (nameOf (loadBU .symbolic {} [] yd d).st.sd) = t.1 := by
      intro t ht
      rw [List.map_map]
      conv => rhs; rw [← List.map_id t.1]
      exact List.map_congr_left (fun q hq => nameOf_get hS.ok.sd ((hS.cov t ht).kids q hq))
    have hnp : ∀ {t}, t ∈ d.trans → nameOf (loadBU .symbolic {} [] yd d).st.sd
        ((loadBU .symbolic {} [] yd d).st.sd.get t.2.2) = t.2.2 :=
      fun ht => nameOf_get hS.ok.sd (hS.cov _ ht).parent
    constructor
    · rintro ⟨f, a, hm, hf, hag⟩
      obtain ⟨⟨ks', f', p'⟩, hy, e⟩ := (mem_named_trans _ _ _).mp hm
      simp only [Prod.mk.injEq] at e
      obtain ⟨rfl, rfl, rfl⟩ := e
      have hr := (sym_dump_denotes hT hW ρ ks' p').mpr ⟨f, a, hy, hf, hag⟩
      obtain ⟨t, a', ht, ha', hag', e1, e2⟩ := (sym_load_denotes d yd hyd hv ρ ks' p').mp hr
      refine ⟨t, a', ht, ?_, ?_, ha', hag'⟩
      · rw [← e1, hnk ht]
      · rw [← e2, hnp ht]
    · rintro ⟨t, a, ht, rfl, rfl, ha, hag⟩
      have hr := (sym_load_denotes d yd hyd hv ρ _ _).mpr ⟨t, a, ht, ha, hag, rfl, rfl⟩
      obtain ⟨f, a', hy, hf, hag'⟩ := (sym_dump_denotes hT hW ρ _ _).mp hr
      refine ⟨f, a', (mem_named_trans _ _ _).mpr ⟨_, hy, ?_⟩, hf, hag'⟩
      simp only
      rw [hnk ht, hnp ht]

/-- every symbol of a symbolic dump is a string over `0 1 X` -/
theorem sym_dump_wellformed {A : AutBU} (hT : TableOk A.tbl) (nm : Nat → String) {x : List String × String × String}
    (hx : x ∈ ((rawSymBU A).named nm).trans) : ∃ a, cubeOfStr x.2.1 = some a := by
  obtain ⟨⟨ks, f, p⟩, hy, rfl⟩ := (mem_named_trans _ _ _).mp hx
  obtain ⟨_, pl, _, _, rfl⟩ := (mem_rawSymBU hT ks f p).mp hy
  exact ⟨pl.1, cubeOfStr_toStr _⟩

/-- **symbolic dump then symbolic load – partial.**  The round trip through the symbolic format holds for the dumps all of
whose symbols have the full 16 characters (i.e. every MTBDD of the table tests variable 15 at its root): then
`loadFromAutDescSymbolic` accepts the dumped description (on the same alphabet, fresh state dictionary), and the symbolic
dump of the reloaded automaton has the same final states and denotes the same rules as the original description.
Without the hypothesis the reload throws – `sym_roundtrip_fails`. -/
theorem sym_roundtrip_partial (d : AutDesc) (yd : SymDict) (hyd : yd.Ok) (hv : SymValid d) :
    ∃ d', dumpBU .symbolic (.dict (loadBU .symbolic {} [] yd d).st.sd) (loadBU .symbolic {} [] yd d).st.yd
        (loadBU .symbolic {} [] yd d).aut = .ok d' ∧
      ((∀ x, x ∈ d'.trans → x.2.1.toList.length = 16) →
        ∃ d'', (loadBU .symbolic {} [] yd d').err = none ∧
          dumpBU .symbolic (.dict (loadBU .symbolic {} [] yd d').st.sd) (loadBU .symbolic {} [] yd d').st.yd
            (loadBU .symbolic {} [] yd d').aut = .ok d'' ∧
          d''.final ≈ d.final ∧
          ∀ (ρ : Nat → Bool) (ks : List String) (p : String),
            (∃ f a, (ks, f, p) ∈ d''.trans ∧ cubeOfStr f = some a ∧ agrees ρ a 0 = true) ↔
            (∃ t a, t ∈ d.trans ∧ t.1 = ks ∧ t.2.2 = p ∧ symOfStr t.2.1 = .ok a ∧ agrees ρ a 0 = true)) := by
  obtain ⟨d', h1, _, _, h4, _, _, h7⟩ := sym_load_dump_denotes d yd hyd hv
  refine ⟨d', h1, fun h16 => ?_⟩
  have hT := (table_loadBU .symbolic {} yd hyd d tableOk_empty tableWF_empty).1
  -- the dumped description is accepted
  have hd' : d' = (rawSymBU (loadBU .symbolic {} [] yd d).aut).named (nameOf (loadBU .symbolic {} [] yd d).st.sd) := by
    unfold dumpBU dumpRaw at h1
    simp only at h1
    split at h1
    · cases h1
    · cases h1; rfl
  have hv' : SymValid d' := by
    intro t ht
    have ht' := ht
    rw [hd'] at ht'
    obtain ⟨a, ha⟩ := sym_dump_wellformed hT _ ht'
    exact ⟨a, symOfStr_of_cubeOfStr ha (h16 t ht)⟩
  obtain ⟨d'', g1, g2, _, g4, _, _, g7⟩ := sym_load_dump_denotes d' yd hyd hv'
  refine ⟨d'', g2, g1, fun q => (g4 q).trans (h4 q), fun ρ ks p => ?_⟩
  rw [g7 ρ ks p, ← h7 ρ ks p]
  constructor
  · rintro ⟨t, a, ht, rfl, rfl, ha, hag⟩
    exact ⟨t.2.1, a, ht, symOfStr_cubeOfStr ha, hag⟩
  · rintro ⟨f, a, hm, hf, hag⟩
    exact ⟨(ks, f, p), a, hm, rfl, rfl, symOfStr_of_cubeOfStr hf (h16 _ hm), hag⟩

/-- the leaf rule for ALL symbols, and a unary rule for the symbols `01…` -/
def exAllX : AutDesc :=
  { name := "", symbols := [], states := [], final := ["q"], trans := [([], "XXXXXXXXXXXXXXXX", "q")] }
def exHighX : AutDesc :=
  { name := "", symbols := [], states := [], final := [], trans := [(["p"], "01XXXXXXXXXXXXXX", "q")] }

theorem exAllX_valid : SymValid exAllX := by
  intro t ht
  simp only [exAllX, List.mem_singleton] at ht
  subst ht
  exact ⟨List.replicate 16 none, symOfStr_of_cubeOfStr (by decide) (by decide)⟩

theorem exHighX_valid : SymValid exHighX := by
  intro t ht
  simp only [exHighX, List.mem_singleton] at ht
  subst ht
  exact ⟨some false :: some true :: List.replicate 14 none, symOfStr_of_cubeOfStr (by decide) (by decide)⟩

/-- **Finding: the symbolic dump does not round-trip.**  `GetPaths` starts from the empty assignment and extends it only
up to the variable of the ROOT of the MTBDD, so the symbol strings of `dumpToAutDescSymbolic` are shorter than
`SYMBOL_SIZE` whenever the highest variables are don't-cares: the rule `XXXXXXXXXXXXXXXX -> q` is dumped with the EMPTY
symbol, `01XXXXXXXXXXXXXX(p) -> q` as `01(p) -> q`.  `loadFromAutDescSymbolic` rejects both dumps
(`Invalid symbols size …`; the text of the first one is already rejected by the Timbuk parser: `( ) -> q` has no symbol). -/
theorem sym_roundtrip_fails :
    (dumpBU .symbolic (.dict (loadBU .symbolic {} [] [] exAllX).st.sd) [] (loadBU .symbolic {} [] [] exAllX).aut).toOption.map
        (·.trans) = some [([], "", "q")] ∧
    (loadBU .symbolic {} [] [] { exAllX with trans := [([], "", "q")] }).err = some (errSymbolSize "") ∧
    (dumpBU .symbolic (.dict (loadBU .symbolic {} [] [] exHighX).st.sd) [] (loadBU .symbolic {} [] [] exHighX).aut).toOption.map
        (·.trans) = some [(["p"], "01", "q")] ∧
    (loadBU .symbolic {} [] [] { exHighX with trans := [(["p"], "01", "q")] }).err = some (errSymbolSize "01") := by
  refine ⟨?_, ?_, ?_, ?_⟩ <;> decide +kernel

/-- … through the text: the reload step of the history model fails in the parser / in the loader -/
theorem sym_roundtrip_fails_text :
    (step (run {} [.loadDesc true true .symbolic exAllX]) (.reload 0 .symbolic)).2 =
      some ("Error: 'parse_timbuk: invalid transition \" -> q\"' while parsing \n" ++
        "Ops \nAutomaton anonymous\nStates q \nFinal States q \nTransitions\n -> q\n") ∧
    (step (run {} [.loadDesc true true .symbolic exHighX]) (.reload 0 .symbolic)).2 = some (errSymbolSize "01") := by
  refine ⟨?_, ?_⟩ <;> decide +kernel

/-! ## 8. the reload of an explicit dump -/

theorem Sub.length_le {κ : Type} [DecidableEq κ] {D D' : Dict κ} (hD : D.Ok) (hD' : D'.Ok) (h : Sub D D') :
    D.length ≤ D'.length := by
  apply Classical.byContradiction
  intro hn
  have hpos : D.length - 1 < D.length := by omega
  obtain ⟨k, hk⟩ := hD.bwd_some_of_lt hpos
  have hf := h k _ (hD.bwd_fwd.mp hk)
  have : D.length - 1 ∈ D'.vals := List.mem_map.mpr ⟨(k, D.length - 1), fwd?_some_mem hf, rfl⟩
  have := hD'.mem_vals.mp this
  omega

/-- **dump, load, dump (bottom-up).**  The explicit dump `d'` of a loaded automaton, loaded again (explicit parameter,
fresh state dictionary, the alphabet as the first load left it) and dumped: the same final states and transitions as
`d'`, i.e. as the original description – as long as the alphabet holds at most `2^16` names at the end. -/
theorem reload_dump_bu (d : AutDesc) (yd : SymDict) (hyd : yd.Ok) :
    ∃ d', dumpBU .explicit (.dict (loadBU .explicit {} [] yd d).st.sd) (loadBU .explicit {} [] yd d).st.yd
        (loadBU .explicit {} [] yd d).aut = .ok d' ∧
      ((loadBU .explicit {} [] (loadBU .explicit {} [] yd d).st.yd d').st.yd.length ≤ symbolCodes →
        ∃ d'', dumpBU .explicit (.dict (loadBU .explicit {} [] (loadBU .explicit {} [] yd d).st.yd d').st.sd)
            (loadBU .explicit {} [] (loadBU .explicit {} [] yd d).st.yd d').st.yd
            (loadBU .explicit {} [] (loadBU .explicit {} [] yd d).st.yd d').aut = .ok d'' ∧
          d''.final ≈ d'.final ∧ d''.trans ≈ d'.trans ∧ d''.final ≈ d.final ∧ d''.trans ≈ d.trans) := by
  obtain ⟨hE, _⟩ := explLoad_bu {} yd hyd d
  obtain ⟨d', h1, _, h3, h4, _⟩ := dump_load_bu_exact d yd hyd
  refine ⟨d', h1, fun hl => ?_⟩
  obtain ⟨hE', _⟩ := explLoad_bu {} (loadBU .explicit {} [] yd d).st.yd hE.ok.yd d'
  have hl1 : (loadBU .explicit {} [] yd d).st.yd.length ≤ symbolCodes :=
    Nat.le_trans (Sub.length_le hE.ok.yd hE'.ok.yd hE'.sub) hl
  obtain ⟨_, k1, _, k3, k4, _⟩ := load_dump_bu d yd hyd hl1
  rw [h1] at k1
  cases k1
  obtain ⟨d'', g1, _, g3, g4, _⟩ := load_dump_bu d' (loadBU .explicit {} [] yd d).st.yd hE.ok.yd hl
  exact ⟨d'', g1, g3, g4, fun q => (g3 q).trans (k3 q), fun x => (g4 x).trans (k4 x)⟩

/-- **dump, load, dump (top-down)** -/
theorem reload_dump_td (d : AutDesc) (yd : SymDict) (hyd : yd.Ok) :
    ∃ d', dumpTD .explicit (.dict (loadTD .explicit {} [] yd d).st.sd) (loadTD .explicit {} [] yd d).st.yd
        (loadTD .explicit {} [] yd d).aut = .ok d' ∧
      ((loadTD .explicit {} [] (loadTD .explicit {} [] yd d).st.yd d').st.yd.length ≤ symbolCodes →
        ∃ d'', dumpTD .explicit (.dict (loadTD .explicit {} [] (loadTD .explicit {} [] yd d).st.yd d').st.sd)
            (loadTD .explicit {} [] (loadTD .explicit {} [] yd d).st.yd d').st.yd
            (loadTD .explicit {} [] (loadTD .explicit {} [] yd d).st.yd d').aut = .ok d'' ∧
          d''.final ≈ d'.final ∧ d''.trans ≈ d'.trans ∧ d''.final ≈ d.final ∧ d''.trans ≈ d.trans) := by
  obtain ⟨hE, _⟩ := explLoad_td {} yd hyd d
  obtain ⟨d', h1, _, h3, h4, _⟩ := dump_load_td_exact d yd hyd
  refine ⟨d', h1, fun hl => ?_⟩
  obtain ⟨hE', _⟩ := explLoad_td {} (loadTD .explicit {} [] yd d).st.yd hE.ok.yd d'
  have hl1 : (loadTD .explicit {} [] yd d).st.yd.length ≤ symbolCodes :=
    Nat.le_trans (Sub.length_le hE.ok.yd hE'.ok.yd hE'.sub) hl
  obtain ⟨_, k1, _, k3, k4, _⟩ := load_dump_td d yd hyd hl1
  rw [h1] at k1
  cases k1
  obtain ⟨d'', g1, _, g3, g4, _⟩ := load_dump_td d' (loadTD .explicit {} [] yd d).st.yd hE.ok.yd hl
  exact ⟨d'', g1, g3, g4, fun q => (g3 q).trans (k3 q), fun x => (g4 x).trans (k4 x)⟩

/-! ## 9. the dictionary of assignments as coded

`Vata/BddLoad.lean` keeps for every name the NUMBER of its allocation and reads the stored code off its 16 low bits.
The class stores the assignments themselves and a counter that is an assignment, incremented by
`SymbolicVarAsgn::operator++` (`Glue.inc`: the carry out of variable 15 is dropped).  The two agree: -/

/-- `OnTheFlyAlphabet` as coded: the forward map of `symbolDict_` (insertion order) and `nextSymbol_` -/
structure AlphaC where
  dict : List (String × Glue.Asgn)
  next : Glue.Asgn
deriving DecidableEq

/-- `OnTheFlyAlphabet ()`: `nextSymbol_ (Symbolic::GetZeroSymbol ())` -/
def AlphaC.init : Option AlphaC := Glue.zeroSymbol.map (fun z => ⟨[], z⟩)

/-- `TranslatorWeak (symbolDict_, [&](const StringSymbolType&){ return nextSymbol_++; })` applied to a name: `find`; if
absent `result = nextSymbol_++` (the postfix increment returns the old value), `insert (name, result)` -/
def AlphaC.tr (a : AlphaC) (f : String) : Glue.Asgn × AlphaC :=
  match a.dict.lookup f with
  | some c => (c, a)
  | none => ((Glue.postInc a.next).1, ⟨a.dict ++ [(f, (Glue.postInc a.next).1)], (Glue.postInc a.next).2⟩)

/-- the dictionary of assignments that the dictionary of allocation numbers stands for -/
def absAlpha (yd : SymDict) : AlphaC := ⟨yd.map (fun e => (e.1, symAsgn e.2)), symAsgn yd.length⟩

theorem symAsgn_eq_bitsLE (n : Nat) : symAsgn n = Glue.bitsLE 16 n := (Glue.bitsLE_eq_range_map 16 n).symm

theorem inc_symAsgn (n : Nat) : Glue.inc (symAsgn n) = symAsgn (n + 1) := by
  rw [symAsgn_eq_bitsLE, symAsgn_eq_bitsLE]; exact Glue.inc_bitsLE 16 n

theorem alphaC_init : AlphaC.init = some (absAlpha []) := by
  unfold AlphaC.init Glue.zeroSymbol
  rw [Glue.ofNum_symbol_size 0]
  rfl

theorem lookup_absAlpha (yd : SymDict) (f : String) :
    (yd.map (fun e => (e.1, symAsgn e.2))).lookup f = (yd.fwd? f).map symAsgn := by
  induction yd with
  | nil => rfl
  | cons e yd ih =>
    obtain ⟨k, v⟩ := e
    simp only [List.map_cons, List.lookup_cons, fwd?]
    by_cases h : k = f
    · subst h; simp
    · have hne : ¬ f = k := fun e => h e.symm
      have : (f == k) = false := by simp [hne]
      rw [this, if_neg h]; exact ih

/-- **the model of the alphabet refines the class**: translating a name in the dictionary of assignments as coded gives the
assignment of the number the model hands out, and the dictionary of assignments that the new model dictionary stands for.
In particular the `2^16 + k`-th name gets the assignment of the `k`-th (`symAsgn_wrap`). -/
theorem alphaC_refines (s : LSt) (f : String) :
    (absAlpha s.yd).tr f = (symAsgn (trSym s f).1, absAlpha (trSym s f).2.yd) := by
  unfold AlphaC.tr
  simp only [absAlpha]
  rw [lookup_absAlpha]
  cases h : s.yd.fwd? f with
  | some k =>
    obtain ⟨h1, h2⟩ := trSym_old s h
    simp only [Option.map_some, h1, h2]
  | none =>
    obtain ⟨h1, h2⟩ := trSym_new s (fwd?_eq_none.mp h)
    simp only [Option.map_none, h1, h2, Glue.postInc, inc_symAsgn, List.map_append, List.map_cons, List.map_nil,
      List.length_append, List.length_cons, List.length_nil]

/-! ## 10. the exception of a load; examples -/

/-- the exception of a load is that of the first rejected symbol (never with the explicit parameter); the alphabet is
extended by the symbol names of the transitions before it (not at all with the symbolic parameter) -/
theorem loadBU_err (par : Param) (A : AutBU) (yd : SymDict) (hyd : yd.Ok) (d : AutDesc) :
    (loadBU par A [] yd d).err = (loaded par d.trans).2.map (·.2) ∧
    (par = .explicit → (loadBU par A [] yd d).err = none) ∧
    (par = .symbolic → (loadBU par A [] yd d).st.yd = yd) := by
  obtain ⟨h1, _, h3, _⟩ := loadDesc_spec AutBU.setFinal AutBU.add par A ⟨[], 0, yd⟩ (init_ok hyd) d
  refine ⟨h3, ?_, ?_⟩
  · rintro rfl
    show (loadDesc AutBU.setFinal AutBU.add .explicit A ⟨[], 0, yd⟩ d).err = none
    rw [h3, loaded_explicit]; rfl
  · rintro rfl
    refine h1.ydLen ?_
    generalize (loaded Param.symbolic d.trans).1 = l
    induction l with
    | nil => rfl
    | cons t l ih => simp [symNames]

namespace BddLoadEx

/-- `f` with two and with three children, `a` as a leaf and as a unary symbol, duplicates, unsorted, a final state that
occurs in no transition -/
def exD : AutDesc :=
  { name := "A", symbols := [("f", 2)], states := ["q", "r"], final := ["r", "lonely"],
    trans := [(["q", "q"], "f", "r"), ([], "a", "q"), (["q", "r", "q"], "f", "r"), (["r"], "a", "q"), ([], "a", "q")] }

/-- the same sets, another order -/
def exD' : AutDesc :=
  { name := "", symbols := [], states := [], final := ["lonely", "r", "r"],
    trans := [(["r"], "a", "q"), (["q", "r", "q"], "f", "r"), ([], "a", "q"), (["q", "q"], "f", "r")] }

theorem exD_exD' : exD.final ≈ exD'.final ∧ exD.trans ≈ exD'.trans := by
  refine ⟨fun x => ?_, fun x => ?_⟩ <;> simp [exD, exD'] <;> grind

/-- an alphabet in use -/
def ydUsed : SymDict := [("g", 0), ("a", 1), ("h", 2)]
theorem ydUsed_ok : ydUsed.Ok := ⟨by decide, by decide⟩

theorem exD_bound_bu : (loadBU .explicit {} [] ydUsed exD).st.yd.length ≤ symbolCodes := by decide +kernel
theorem exD'_bound_bu : (loadBU .explicit {} [] ydUsed exD').st.yd.length ≤ symbolCodes := by decide +kernel
theorem exD_bound_td : (loadTD .explicit {} [] ydUsed exD).st.yd.length ≤ symbolCodes := by decide +kernel
theorem exD'_bound_td : (loadTD .explicit {} [] ydUsed exD').st.yd.length ≤ symbolCodes := by decide +kernel

/-- a leaf rule and a rule with 64 children -/
def ex64 : AutDesc :=
  { name := "", symbols := [], states := [], final := ["q"],
    trans := [([], "a", "q"), (List.replicate 64 "q", "f", "q")] }

/-- symbolic: overlapping cubes -/
def exS : AutDesc :=
  { name := "", symbols := [], states := [], final := ["q"],
    trans := [([], "0000000000000000", "q"), (["q", "q"], "0X00000000000001", "p"), (["p"], "1X00000000000001", "q")] }

theorem exS_valid : SymValid exS := by
  intro t ht
  simp only [exS, List.mem_cons, List.not_mem_nil, or_false] at ht
  rcases ht with rfl | rfl | rfl
  · exact ⟨_, symOfStr_of_cubeOfStr (a := symAsgn 0) (by decide) (by decide)⟩
  · exact ⟨_, symOfStr_of_cubeOfStr
      (a := some false :: none :: (List.replicate 13 (some false) ++ [some true])) (by decide) (by decide)⟩
  · exact ⟨_, symOfStr_of_cubeOfStr
      (a := some true :: none :: (List.replicate 13 (some false) ++ [some true])) (by decide) (by decide)⟩

/-- a symbolic description with a rejected symbol in the middle -/
def exSBad : AutDesc :=
  { name := "", symbols := [], states := [], final := ["q"],
    trans := [([], "0000000000000000", "q"), (["q"], "01", "p"), (["p"], "1X00000000000001", "q")] }

end BddLoadEx

end BddLoad
end Vata
