import Vata.Proofs.RcStoreXWf
import Vata.Proofs.RcStoreXHist
/-!
# `WfInv` under `Rename`, and along histories (C17: canonicity at store level for the full operation set)

* `renameNode_wfInv` : `renameNode` preserves `WfInv` when the assertions of the C++ hold along the recursion (`renOkT`)
* `renOkT_of_strictMono` : on an ordered, reduced diagram a renamer that is strictly monotone on the variables that occur passes
  the assertions; `opOkW_of_opOk`
* `stepS_wfInv`, `runX_wfInv`, `runX_wfInv_of_mono`
* `WInv.node_eq_iff_same_function` : the canonicity statement without the "no counter is 0" half of `Inv`
-/
namespace Vata.RcSX
open Vata.R (Data Closed)
open Vata.RcS

/-! ## tree level -/

/-- `strictMonoOn` as a proposition -/
def SMono (ren : Nat → Nat) (L : List Nat) : Prop := ∀ x, x ∈ L → ∀ y, y ∈ L → x < y → ren x < ren y

theorem strictMonoOn_iff {ren : Nat → Nat} {L : List Nat} : strictMonoOn ren L = true ↔ SMono ren L := by
  unfold strictMonoOn SMono
  simp only [List.all_eq_true, Bool.or_eq_true, Bool.not_eq_true', decide_eq_false_iff_not, decide_eq_true_eq]
  constructor
  · intro h x hx y hy hlt
    rcases h x hx y hy with h' | h'
    · exact absurd hlt h'
    · exact h'
  · intro h x hx y hy
    by_cases hlt : x < y
    · exact Or.inr (h x hx y hy hlt)
    · exact Or.inl hlt

theorem SMono.inj {ren : Nat → Nat} {L : List Nat} (m : SMono ren L) {x y : Nat} (hx : x ∈ L) (hy : y ∈ L)
    (e : ren x = ren y) : x = y := by
  rcases Nat.lt_trichotomy x y with hlt | heq | hgt
  · have := m x hx y hy hlt; omega
  · exact heq
  · have := m y hy x hx hgt; omega

/-- `M.rename_inj` for a renamer that is injective on the variables that occur -/
theorem rename_inj_on (r : Nat → Nat) (L : List Nat) (inj : ∀ x, x ∈ L → ∀ y, y ∈ L → r x = r y → x = y) :
    ∀ (a b : M.Node Nat), (∀ x, x ∈ treeVars a → x ∈ L) → (∀ x, x ∈ treeVars b → x ∈ L) →
      M.rename r a = M.rename r b → a = b
  | .leaf _, .leaf _, _, _, h => by simpa [M.rename] using h
  | .leaf _, .node _ _ _, _, _, h => by simp [M.rename] at h
  | .node _ _ _, .leaf _, _, _, h => by simp [M.rename] at h
  | .node x l1 h1, .node y l2 h2, ha, hb, h => by
    simp only [M.rename, M.Node.node.injEq] at h
    have ex : x = y := inj x (ha x (by simp [treeVars])) y (hb y (by simp [treeVars])) h.1
    have el := rename_inj_on r L inj l1 l2 (fun z hz => ha z (by simp [treeVars, hz]))
      (fun z hz => hb z (by simp [treeVars, hz])) h.2.1
    have eh := rename_inj_on r L inj h1 h2 (fun z hz => ha z (by simp [treeVars, hz]))
      (fun z hz => hb z (by simp [treeVars, hz])) h.2.2
    rw [ex, el, eh]

theorem topLt_rename {ren : Nat → Nat} {L : List Nat} (m : SMono ren L) {x : Nat} (hx : x ∈ L) :
    ∀ {a : M.Node Nat}, (∀ y, y ∈ treeVars a → y ∈ L) → M.Below x a → topLt (ren x) (M.rename ren a) = true
  | .leaf _, _, _ => rfl
  | .node y _ _, ha, hb => by
    simp only [M.rename, topLt, decide_eq_true_eq]
    exact m y (ha y (by simp [treeVars])) x hx hb.1

/-- on an ordered, reduced diagram a renamer that is strictly monotone on the variables that occur passes the assertions of
    `renameNode` -/
theorem renOkT_of_sMono {ren : Nat → Nat} {L : List Nat} (m : SMono ren L) :
    ∀ {a : M.Node Nat}, (∀ y, y ∈ treeVars a → y ∈ L) → M.WF a → renOkT ren a = true
  | .leaf _, _, _ => rfl
  | .node x lo hi, ha, ⟨hne, bl, bh, wl, wh⟩ => by
    have hx : x ∈ L := ha x (by simp [treeVars])
    have hl : ∀ y, y ∈ treeVars lo → y ∈ L := fun z hz => ha z (by simp [treeVars, hz])
    have hh : ∀ y, y ∈ treeVars hi → y ∈ L := fun z hz => ha z (by simp [treeVars, hz])
    simp only [renOkT, Bool.and_eq_true, decide_eq_true_eq]
    exact ⟨⟨⟨⟨fun e => hne (rename_inj_on ren L (fun _ p _ q => m.inj p q) lo hi hl hh e), topLt_rename m hx hl bl⟩,
      topLt_rename m hx hh bh⟩, renOkT_of_sMono m hl wl⟩, renOkT_of_sMono m hh wh⟩

theorem renOkT_of_strictMono {ren : Nat → Nat} {a : M.Node Nat} (h : strictMonoOn ren (treeVars a) = true) (wa : M.WF a) :
    renOkT ren a = true :=
  renOkT_of_sMono (strictMonoOn_iff.mp h) (fun _ hy => hy) wa

/-! ## `renameNode` -/

theorem vlt_of_topLt {s : Store} {P : List Nat} (h : WInv s P) {n x : Nat} (hn : n ∈ s.ids)
    (ht : topLt x (diagram s n) = true) : VLt x (s.dat n) := by
  cases hd : s.dat n with
  | leaf v => trivial
  | int lo hi var =>
    rw [h.diagram_int hn hd] at ht
    simp only [topLt, decide_eq_true_eq] at ht
    exact ht

/-- `renameNode` preserves the second invariant when the assertions of the C++ (`assert(lowTree != highTree)`,
    `assert(GetVarFromInternal(…) < newVar)`) hold along the recursion -/
theorem renameNode_wfInv (ren : Nat → Nat) : ∀ (fuel : Nat) (s : Store) (n : Nat), WInv s [] → WfInv s → n ∈ s.ids →
    n < fuel → renOkT ren (diagram s n) = true → WfInv (renameNode ren fuel s n).1
  | 0, _, _, _, _, _, hf, _ => by omega
  | fuel+1, s, n, h, w, hn, hf, ok => by
    simp only [renameNode]
    split
    · exact spawnLeaf_wfInv h w
    · rename_i lo hi var hd
      obtain ⟨c1, c2⟩ := h.closed n hn lo hi var hd
      obtain ⟨o1, o2⟩ := h.ordered n hn lo hi var hd
      rw [h.diagram_int hn hd] at ok
      simp only [renOkT, Bool.and_eq_true, decide_eq_true_eq] at ok
      obtain ⟨⟨⟨⟨kne, kl⟩, kh⟩, okl⟩, okh⟩ := ok
      obtain ⟨w1, e1, m1, _⟩ := renameNode_inv ren fuel s lo h c1 (by omega)
      obtain ⟨w2, e2, m2, _⟩ := renameNode_inv ren fuel _ hi w1 (e1.ids _ c2) (by omega)
      have q1 := renameNode_wfInv ren fuel s lo h w c1 (by omega) okl
      have q2 := renameNode_wfInv ren fuel _ hi w1 q1 (e1.ids _ c2) (by omega) (by rw [h.diagram_ext e1 c2]; exact okh)
      have i1 := renameNode_diagram ren fuel s lo h c1 (by omega)
      have i2 := renameNode_diagram ren fuel _ hi w1 (e1.ids _ c2) (by omega)
      rw [h.diagram_ext e1 c2] at i2
      rw [← w1.diagram_ext e2 m1] at i1
      have hne : (renameNode ren fuel s lo).2 ≠ (renameNode ren fuel (renameNode ren fuel s lo).1 hi).2 := by
        intro e
        apply kne
        rw [← i1, ← i2, e]
      exact spawnInternal_wfInv w2 q2 (e2.ids _ m1) m2 hne
        (vlt_of_topLt w2 (e2.ids _ m1) (by rw [i1]; exact kl)) (vlt_of_topLt w2 m2 (by rw [i2]; exact kh))

theorem rename_wfInv (ren : Nat → Nat) {s : Store} {a dst : Nat} (hi : WInv s []) (w : WfInv s)
    (ok : ∀ ra, find a s.hs = some ra → find dst s.hs = none → renOkT ren (diagram s ra) = true) :
    WfInv (rename ren s a dst) := by
  unfold rename
  split
  · rename_i ra hfa hfd
    exact addHandle_wfInv (renameNode_wfInv ren (ra + 1) s ra hi w (hi.rin ra (root_mem hfa)) (Nat.lt_succ_self _)
      (ok ra hfa hfd))
  · exact w

/-! ## every operation, histories -/

theorem destroy_wfInv' {s : Store} {h : Nat} (hi : WInv s []) (w : WfInv s) : WfInv (destroy s h) := by
  obtain ⟨_, _, _, hsub, hd⟩ := destroy_winv (h := h) hi
  exact w.shrink hd hsub

theorem assign_wfInv' {s : Store} {src dst : Nat} (hi : WInv s []) (w : WfInv s) : WfInv (assign s src dst) := by
  unfold assign
  split
  · exact w
  · split
    · exact copy_wfInv (destroy_wfInv' hi w)
    · exact w

theorem apply2_wfInv' (f : Nat → Nat → Nat) {s : Store} {a b dst : Nat} (hi : WInv s []) (w : WfInv s) :
    WfInv (apply2 f s a b dst) := by
  unfold apply2
  split
  · rename_i ra rb hfa hfb hfd
    exact addHandle_wfInv (recDescend_wfInv f (ra + rb + 1) s ra rb hi w (hi.rin ra (root_mem hfa))
      (hi.rin rb (root_mem hfb)) (Nat.lt_succ_self _)).1
  · exact w

/-- `construct_wfInv` of `StoreRefine.lean` without the "no counter is 0" half of `Inv` -/
theorem construct_wfInv' {s : Store} {h v d : Nat} {asgn : List (Option Bool)} (hi : WInv s []) (w : WfInv s) :
    WfInv (construct s h asgn v d) := by
  simp only [construct]
  split
  · exact w
  · obtain ⟨w1, e1, m1, d1, _⟩ := spawnLeaf_inv (v := v) hi
    have q1 := spawnLeaf_wfInv (v := v) hi w
    split
    · exact addHandle_wfInv q1
    · rename_i hvd
      obtain ⟨w2, e2, m2, d2, _⟩ := spawnLeaf_inv (v := d) w1
      have q2 := spawnLeaf_wfInv (v := d) w1 q1
      have dn : (spawnLeaf (spawnLeaf s v).1 d).1.dat (spawnLeaf s v).2 = .leaf v := by
        rw [e2.dat _ (w1.fresh _ m1)]; exact d1
      have hns : (spawnLeaf s v).2 ≠ (spawnLeaf (spawnLeaf s v).1 d).2 := by
        intro e; rw [e, d2] at dn; cases dn; exact hvd rfl
      have q3 := buildCube_wfInv _ d asgn _ _ 0 w2 q2 m2 (e2.ids _ m1) d2 hns (by rw [dn]; trivial)
      apply addHandle_wfInv
      split
      · split
        · exact q3.shrink rfl (fun x hx => List.mem_of_mem_erase hx)
        · exact q3
      · exact q3

/-- every operation of the extended set preserves `WfInv`, provided an executed `rename` passes the assertions of
    `renameNode` and an executed `extendWith` that builds something has its offset above the root variable (`opOkW`) -/
theorem stepS_wfInv (F : Fns) (dv : Nat → Nat) {s : Store} (op : Op) (hi : WInv s []) (w : WfInv s)
    (ok : opOkW s op = true) : WfInv (stepS F dv s op) := by
  cases op with
  | construct h asgn v d => exact construct_wfInv' hi w
  | copy src dst => exact copy_wfInv w
  | assign src dst => exact assign_wfInv' hi w
  | apply a b dst => exact apply2_wfInv' F.f2 hi w
  | destroy h => exact destroy_wfInv' hi w
  | apply1 a dst => exact apply1_wfInv F.f1 hi w
  | apply3 a b c dst => exact apply3_wfInv F.f3 hi w
  | project a dst vars => exact project_wfInv F.f2 _ hi w
  | rename a dst tab =>
    refine rename_wfInv _ hi w (fun ra hfa hfd => ?_)
    simp only [opOkW, hfa, hfd] at ok
    exact ok
  | extendWith a dst asgn off =>
    refine extendWith_wfInv hi w (fun ra hfa hfd => ?_)
    intro k hk
    simp only [opOkW, hfa, hfd, hk] at ok
    exact vltB_iff.mp ok
  | getPrefix a dst asgn off => exact getPrefix_wfInv w

/-- the strong condition (strict monotonicity on the variables that occur) implies the weak one (the assertions) in a store
    satisfying both invariants -/
theorem opOkW_of_opOk {s : Store} (op : Op) (hi : WInv s []) (w : WfInv s) (ok : opOk s op = true) : opOkW s op = true := by
  cases op with
  | rename a dst tab =>
    simp only [opOk, opOkW] at ok ⊢
    split
    · rename_i ra hfa hfd
      simp only [hfa, hfd] at ok
      exact renOkT_of_strictMono ok (diagram_wf hi w (hi.rin ra (root_mem hfa)))
    · rfl
  | extendWith a dst asgn off =>
    simp only [opOk, opOkW] at ok ⊢
    split
    · rename_i ra hfa hfd
      simp only [hfa, hfd] at ok
      split
      · rfl
      · rename_i k _
        exact vltB_iff.mpr ((vltB_iff.mp ok).mono (Nat.le_add_right _ _))
    · rfl
  | _ => rfl

theorem foldlX_wfInv (F : Fns) : ∀ (ops : List Op) (x : XStore), WInv x.st [] → WfInv x.st → okFrom opOkW F x ops = true →
    WfInv (ops.foldl (stepX F) x).st
  | [], _, _, w, _ => w
  | op :: ops, x, h, w, ok => by
    simp only [okFrom, Bool.and_eq_true] at ok
    exact foldlX_wfInv F ops (stepX F x op) (stepS_winv F x.dv op h).1 (stepS_wfInv F x.dv op h w ok.1) ok.2

theorem okFromW_of_okFrom (F : Fns) : ∀ (ops : List Op) (x : XStore), WInv x.st [] → WfInv x.st → okFrom opOk F x ops = true →
    okFrom opOkW F x ops = true
  | [], _, _, _, _ => rfl
  | op :: ops, x, h, w, ok => by
    simp only [okFrom, Bool.and_eq_true] at ok ⊢
    have okw := opOkW_of_opOk op h w ok.1
    exact ⟨okw, okFromW_of_okFrom F ops (stepX F x op) (stepS_winv F x.dv op h).1 (stepS_wfInv F x.dv op h w okw) ok.2⟩

theorem monoW_of_mono {F : Fns} {ops : List Op} (m : Mono F ops) : MonoW F ops :=
  okFromW_of_okFrom F ops xempty inv_empty.1 wfInv_empty m

/-- after every history that passes the assertions, every allocated inner node is reduced and ordered -/
theorem runX_wfInv (F : Fns) (ops : List Op) (m : MonoW F ops) : WfInv (runX F ops).st :=
  foldlX_wfInv F ops xempty inv_empty.1 wfInv_empty m

theorem runX_wfInv_of_mono (F : Fns) (ops : List Op) (m : Mono F ops) : WfInv (runX F ops).st :=
  runX_wfInv F ops (monoW_of_mono m)

/-! ## canonicity -/

/-- `Inv.node_eq_iff_same_function` without the "no counter is 0" half of `Inv` (stores with garbage left by `Project`) -/
theorem WInv.node_eq_iff_same_function {s : Store} (hi : WInv s []) (w : WfInv s) {r₁ r₂ : Nat} (h₁ : r₁ ∈ s.ids)
    (h₂ : r₂ ∈ s.ids) : r₁ = r₂ ↔ ∀ ρ, denote s r₁ ρ = denote s r₂ ρ := by
  constructor
  · intro e ρ; rw [e]
  · intro he
    exact hi.diagram_inj h₁ h₂ (M.canonicity _ _ (diagram_wf hi w h₁) (diagram_wf hi w h₂) he)

end Vata.RcSX

namespace Vata.RcSX
open Vata.R (Data Closed)
open Vata.RcS

/-! ## the assertions of `renameNode` are exactly "the renamed diagram is ordered and reduced" -/

theorem topLt_iff {x : Nat} {t : M.Node Nat} : topLt x t = true ↔ M.VarLt x t := by
  cases t <;> simp [topLt, M.VarLt]

theorem varLt_of_below {x : Nat} : ∀ {t : M.Node Nat}, M.Below x t → M.VarLt x t
  | .leaf _, _ => trivial
  | .node _ _ _, h => h.1

theorem renOkT_iff_wf (ren : Nat → Nat) : ∀ (t : M.Node Nat), renOkT ren t = true ↔ M.WF (M.rename ren t)
  | .leaf _ => by simp [renOkT, M.rename, M.WF]
  | .node x lo hi => by
    have il := renOkT_iff_wf ren lo
    have ih := renOkT_iff_wf ren hi
    simp only [renOkT, Bool.and_eq_true, decide_eq_true_eq, M.rename, M.WF]
    constructor
    · rintro ⟨⟨⟨⟨hne, tl⟩, th⟩, okl⟩, okh⟩
      exact ⟨hne, M.below_of_wf_varLt (il.mp okl) (topLt_iff.mp tl), M.below_of_wf_varLt (ih.mp okh) (topLt_iff.mp th),
        il.mp okl, ih.mp okh⟩
    · rintro ⟨hne, bl, bh, wl, wh⟩
      exact ⟨⟨⟨⟨hne, topLt_iff.mpr (varLt_of_below bl)⟩, topLt_iff.mpr (varLt_of_below bh)⟩, il.mpr wl⟩, ih.mpr wh⟩

/-- for an executed `Rename` in a store satisfying both invariants: the second invariant survives IFF the assertions of
    `renameNode` hold -/
theorem rename_wfInv_iff (ren : Nat → Nat) {s : Store} {a dst ra : Nat} (hi : WInv s []) (w : WfInv s)
    (ha : find a s.hs = some ra) (hd : find dst s.hs = none) :
    WfInv (rename ren s a dst) ↔ renOkT ren (diagram s ra) = true := by
  constructor
  · intro w'
    obtain ⟨r, hr, hdg, _⟩ := rename_refines ren hi ha hd
    have hw' := (rename_winv ren (a := a) (dst := dst) hi).1
    have := diagram_wf hw' w' (hw'.rin r (root_mem hr))
    rw [hdg] at this
    exact (renOkT_iff_wf ren _).mpr this
  · intro ok
    exact rename_wfInv ren hi w (fun ra' hfa _ => by rw [ha] at hfa; cases hfa; exact ok)

end Vata.RcSX

namespace Vata.RcSX
open Vata.R (Data Closed)
open Vata.RcS

/-! ## the condition on `ExtendWith` is exact -/

theorem constructLoop_wf_sub (tr : Nat → Nat) (sink : M.Node Nat) : ∀ (as : List (Option Bool)) (i : Nat) (p : M.Node Nat),
    M.WF (M.constructLoop tr sink as i p) → M.WF p
  | [], _, _, h => h
  | none :: as, i, p, h => by
    simp only [M.constructLoop] at h
    exact constructLoop_wf_sub tr sink as (i+1) p h
  | some true :: as, i, p, h => by
    simp only [M.constructLoop] at h
    exact (constructLoop_wf_sub tr sink as (i+1) _ h).2.2.2.2
  | some false :: as, i, p, h => by
    simp only [M.constructLoop] at h
    exact (constructLoop_wf_sub tr sink as (i+1) _ h).2.2.2.1

theorem constructLoop_first (tr : Nat → Nat) (sink : M.Node Nat) : ∀ (as : List (Option Bool)) (i : Nat) (p : M.Node Nat)
    (k : Nat), firstSet as = some k → M.WF (M.constructLoop tr sink as i p) → M.VarLt (tr (i + k)) p
  | [], _, _, _, hk, _ => by simp [firstSet] at hk
  | none :: as, i, p, k, hk, h => by
    simp only [M.constructLoop] at h
    simp only [firstSet, Option.map_eq_some_iff] at hk
    obtain ⟨k', hk', rfl⟩ := hk
    have := constructLoop_first tr sink as (i+1) p k' hk' h
    rwa [show i + 1 + k' = i + (k' + 1) by omega] at this
  | some true :: as, i, p, k, hk, h => by
    simp only [M.constructLoop] at h
    simp only [firstSet, Option.some.injEq] at hk
    subst hk
    exact varLt_of_below (constructLoop_wf_sub tr sink as (i+1) _ h).2.2.1
  | some false :: as, i, p, k, hk, h => by
    simp only [M.constructLoop] at h
    simp only [firstSet, Option.some.injEq] at hk
    subst hk
    exact varLt_of_below (constructLoop_wf_sub tr sink as (i+1) _ h).2.1

/-- for an executed `ExtendWith` in a store satisfying both invariants: the second invariant survives IFF the first node
    stacked on the root (if any) carries a variable above the root variable -/
theorem extendWith_wfInv_iff {s : Store} {a dst ra : Nat} (asgn : List (Option Bool)) (off d : Nat) (hi : WInv s [])
    (w : WfInv s) (ha : find a s.hs = some ra) (hd : find dst s.hs = none) :
    WfInv (extendWith s a dst asgn off d) ↔ ∀ k, firstSet asgn = some k → VLt (off + k) (s.dat ra) := by
  constructor
  · intro w' k hk
    have hra : ra ∈ s.ids := hi.rin ra (root_mem ha)
    obtain ⟨r, hr, hdg, _⟩ := extendWith_refines asgn off d hi ha hd
    have hw' := (extendWith_winv (a := a) (dst := dst) (asgn := asgn) (off := off) (d := d) hi).1
    have hwf := diagram_wf hw' w' (hw'.rin r (root_mem hr))
    rw [hdg] at hwf
    unfold M.extendWith M.constructOn at hwf
    split at hwf
    · rename_i hl
      cases hdr : s.dat ra with
      | leaf v => trivial
      | int lo hi' var => rw [hi.diagram_int hra hdr] at hl; cases hl
    · have := constructLoop_first _ _ asgn 0 _ k hk hwf
      have := vlt_of_topLt hi hra (topLt_iff.mpr this)
      rwa [show 0 + k + off = off + k by omega] at this
  · intro ok
    exact extendWith_wfInv hi w (fun ra' hfa _ => by rw [ha] at hfa; cases hfa; exact ok)

/-- for an executed `rename` / `extendWith` in a store satisfying both invariants `opOkW` is exact; the other operations
    always preserve the second invariant -/
theorem stepS_wfInv_iff (F : Fns) (dv : Nat → Nat) {s : Store} (op : Op) (hi : WInv s []) (w : WfInv s) :
    WfInv (stepS F dv s op) ↔ opOkW s op = true := by
  constructor
  · intro w'
    cases op with
    | rename a dst tab =>
      simp only [opOkW]
      split
      · rename_i ra hfa hfd
        exact (rename_wfInv_iff _ hi w hfa hfd).mp w'
      · rfl
    | extendWith a dst asgn off =>
      simp only [opOkW]
      split
      · rename_i ra hfa hfd
        split
        · rfl
        · rename_i k hk
          exact vltB_iff.mpr ((extendWith_wfInv_iff asgn off (dv a) hi w hfa hfd).mp w' k hk)
      · rfl
    | _ => rfl
  · exact stepS_wfInv F dv op hi w

end Vata.RcSX

namespace Vata.RcSX
open Vata.RcS

theorem okFromW_iff (F : Fns) : ∀ (ops : List Op) (x : XStore), WInv x.st [] → WfInv x.st →
    (okFrom opOkW F x ops = true ↔ ∀ n, WfInv ((ops.take n).foldl (stepX F) x).st)
  | [], x, _, w => by
    simp only [okFrom, List.take_nil, List.foldl_nil, true_iff]
    exact fun _ => w
  | op :: ops, x, h, w => by
    simp only [okFrom, Bool.and_eq_true]
    constructor
    · rintro ⟨o1, o2⟩ n
      cases n with
      | zero => exact w
      | succ n =>
        simp only [List.take_succ_cons, List.foldl_cons]
        exact (okFromW_iff F ops (stepX F x op) (stepS_winv F x.dv op h).1 (stepS_wfInv F x.dv op h w o1)).mp o2 n
    · intro hall
      have w1 : WfInv (stepX F x op).st := by
        have := hall 1
        simpa only [List.take_succ_cons, List.take_zero, List.foldl_cons, List.foldl_nil] using this
      have o1 := (stepS_wfInv_iff F x.dv op h w).mp w1
      refine ⟨o1, (okFromW_iff F ops (stepX F x op) (stepS_winv F x.dv op h).1 w1).mpr (fun n => ?_)⟩
      have := hall (n+1)
      simpa only [List.take_succ_cons, List.foldl_cons] using this

/-- `MonoW` is exact: a history satisfies it iff the store is ordered and reduced after every prefix of the history -/
theorem monoW_iff_wfInv_prefixes (F : Fns) (ops : List Op) : MonoW F ops ↔ ∀ n, WfInv (runX F (ops.take n)).st :=
  okFromW_iff F ops xempty inv_empty.1 wfInv_empty

end Vata.RcSX
