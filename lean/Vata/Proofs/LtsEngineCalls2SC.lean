import Vata.Proofs.LtsEngineCalls2SCCfg
import Vata.Proofs.LtsEngineCalls2SLRun2
import Vata.Proofs.LtsUtilSC5
/-!
# The `SharedCounter` call discipline of the LTS engine: the invariant and the single calls

`BV L cfg e i A`: the value `A` (`SC.A`: a number per key index) of counter object `i` shows the counters of block `i` of the
engine state `e` on the labels of `inset(i)`: `A.at (key_[a * states + q]) = cnt[i][a][q]` for `a ∈ inset(i)`, `q ∈ delta1[a]`, and
the key index is below `rows * rowSize`.  Other labels of a shared row may hold stale numbers (`copyLabels` copies whole rows).
`SCI L cfg e aw ph`: the world `aw` has one live counter per block, in phase `ph i`, and (unless fresh) `BV` holds.
`GC L cfg e t ph`: the history `t.sc` is inside `SC.ok` and leads to such a world.
-/
namespace Vata.LEC2
open Vata.L Vata.LE Vata.LU Vata.LEC

theorem sc_okAll_append (cfg : SC.Cfg) : ∀ (t u : List SC.Op) (aw : SC.AWorld),
    SC.okAll cfg aw (t ++ u) = (SC.okAll cfg aw t && SC.okAll cfg (SC.aRun cfg aw t).1 u)
  | [], _, _ => by simp [SC.okAll, SC.aRun]
  | op :: t, u, aw => by simp [SC.okAll, SC.aRun, sc_okAll_append cfg t u, Bool.and_assoc]

theorem sc_aRun_append (cfg : SC.Cfg) : ∀ (t u : List SC.Op) (aw : SC.AWorld),
    (SC.aRun cfg aw (t ++ u)).1 = (SC.aRun cfg (SC.aRun cfg aw t).1 u).1
  | [], _, _ => rfl
  | op :: t, u, aw => by simp only [List.cons_append, SC.aRun, sc_aRun_append cfg t u]

theorem sc_aRun_single (cfg : SC.Cfg) (aw : SC.AWorld) (op : SC.Op) : (SC.aRun cfg aw [op]).1 = SC.aStep cfg aw op := rfl

theorem sc_okAll_single (cfg : SC.Cfg) (aw : SC.AWorld) (op : SC.Op) : SC.okAll cfg aw [op] = SC.ok cfg aw op := by
  simp [SC.okAll]

theorem sc_aRun_cons (cfg : SC.Cfg) (aw : SC.AWorld) (op : SC.Op) (ops : List SC.Op) :
    (SC.aRun cfg aw (op :: ops)).1 = (SC.aRun cfg (SC.aStep cfg aw op) ops).1 := rfl

theorem sc_okAll_cons (cfg : SC.Cfg) (aw : SC.AWorld) (op : SC.Op) (ops : List SC.Op) :
    SC.okAll cfg aw (op :: ops) = (SC.ok cfg aw op && SC.okAll cfg (SC.aStep cfg aw op) ops) := rfl

/-- counter `i` shows the counters of block `i` on the labels of its inset -/
structure BV (L : LTS) (cfg : SC.Cfg) (e : Eng) (i : Nat) (A : SC.A) : Prop where
  vlen : A.val.length = A.rows * cfg.rowSize
  agree : ∀ a q, a ∈ e.ins i → q ∈ delta1 L a →
    kx cfg a q < A.rows * cfg.rowSize ∧ A.at (kx cfg a q) = e.cntv i a q

structure SCI (L : LTS) (cfg : SC.Cfg) (e : Eng) (aw : SC.AWorld) (ph : Nat → SC.Phase) : Prop where
  len : aw.length = e.part.length
  blk : ∀ i, i < e.part.length → ∃ A, aw.getD i none = some A ∧ A.phase = ph i ∧ (ph i ≠ .fresh → BV L cfg e i A)

/-- the `SharedCounter` history so far is inside the discipline and leads to a world that shows the engine's counters -/
def GC (L : LTS) (cfg : SC.Cfg) (e : Eng) (t : Tr2) (ph : Nat → SC.Phase) : Prop :=
  SC.okAll cfg [] t.sc = true ∧ SCI L cfg e (SC.aRun cfg [] t.sc).1 ph

/-- all counters are in use (`init()` or `copyLabels` done) -/
abbrev running : Nat → SC.Phase := fun _ => .running

section
variable {L : LTS} {cfg : SC.Cfg}

theorem ins_congr {e e' : Eng} (h : e'.inset = e.inset) (i : Nat) : e'.ins i = e.ins i := by simp only [Eng.ins, h]

theorem BV.congr {e e' : Eng} {i : Nat} {A : SC.A} (h : BV L cfg e i A) (h2 : e'.inset = e.inset)
    (h3 : ∀ a q, e'.cntv i a q = e.cntv i a q) : BV L cfg e' i A :=
  ⟨h.vlen, fun a q ha hq => by rw [h3]; exact h.agree a q (by rw [← ins_congr h2]; exact ha) hq⟩

theorem SCI.congr {e e' : Eng} {aw : SC.AWorld} {ph : Nat → SC.Phase} (h : SCI L cfg e aw ph)
    (h1 : e'.part.length = e.part.length) (h2 : e'.inset = e.inset) (h3 : ∀ i a q, e'.cntv i a q = e.cntv i a q) :
    SCI L cfg e' aw ph := by
  refine ⟨by rw [h1]; exact h.len, fun i hi => ?_⟩
  obtain ⟨A, hA, hph, hbv⟩ := h.blk i (by rw [← h1]; exact hi)
  exact ⟨A, hA, hph, fun hf => (hbv hf).congr h2 (h3 i)⟩

theorem SCI.phase {e : Eng} {aw : SC.AWorld} {ph ph' : Nat → SC.Phase} (h : SCI L cfg e aw ph)
    (hp : ∀ i, i < e.part.length → ph' i = ph i) : SCI L cfg e aw ph' := by
  refine ⟨h.len, fun i hi => ?_⟩
  obtain ⟨A, hA, hph, hbv⟩ := h.blk i hi
  exact ⟨A, hA, by rw [hp i hi]; exact hph, fun hf => hbv (by rw [← hp i hi]; exact hf)⟩

theorem GC.add {e e' : Eng} {t : Tr2} {ph ph' : Nat → SC.Phase} {ops : List SC.Op} (g : GC L cfg e t ph)
    (h : SC.okAll cfg (SC.aRun cfg [] t.sc).1 ops = true ∧ SCI L cfg e' (SC.aRun cfg (SC.aRun cfg [] t.sc).1 ops).1 ph') :
    GC L cfg e' (t.addSC ops) ph' := by
  refine ⟨?_, ?_⟩
  · show SC.okAll cfg [] (t.sc ++ ops) = true
    rw [sc_okAll_append, g.1, h.1]; rfl
  · show SCI L cfg e' (SC.aRun cfg [] (t.sc ++ ops)).1 ph'
    rw [sc_aRun_append]; exact h.2

theorem GC.congr {e e' : Eng} {t t' : Tr2} {ph : Nat → SC.Phase} (g : GC L cfg e t ph)
    (h1 : e'.part.length = e.part.length) (h2 : e'.inset = e.inset) (h3 : ∀ i a q, e'.cntv i a q = e.cntv i a q)
    (h4 : t'.sc = t.sc) : GC L cfg e' t' ph := by
  unfold GC; rw [h4]; exact ⟨g.1, g.2.congr h1 h2 h3⟩

theorem GC.phase {e : Eng} {t : Tr2} {ph ph' : Nat → SC.Phase} (g : GC L cfg e t ph)
    (hp : ∀ i, i < e.part.length → ph' i = ph i) : GC L cfg e t ph' := ⟨g.1, g.2.phase hp⟩

theorem getD_lt_of_some {aw : SC.AWorld} {i : Nat} {A : SC.A} (h : aw.getD i none = some A) : i < aw.length :=
  SC.P.getD_some_lt h

/-! ### `decr` -/

/-- `b1->counter_.decr(a, pre)` on a positive counter -/
theorem decr_goodC (ok : CfgOK L cfg) {e e' : Eng} {t : Tr2} {b1 a q : Nat} (g : GC L cfg e t running)
    (hb1 : b1 < e.part.length) (hlab : ∀ a', a' ∈ e.ins b1 → a' < labels L) (ha : a ∈ e.ins b1)
    (hq : q ∈ delta1 L a) (hpos : 0 < e.cntv b1 a q)
    (hp : e'.part.length = e.part.length) (hi : e'.inset = e.inset)
    (hc : ∀ i a' q', e'.cntv i a' q' = if i = b1 ∧ a' = a ∧ q' = q then e.cntv b1 a q - 1 else e.cntv i a' q') :
    GC L cfg e' (t.addSC [SC.Op.decr b1 a q]) running := by
  obtain ⟨A, hA, hph, hbv⟩ := g.2.blk b1 hb1
  have hph : A.phase = .running := hph
  have hbv := hbv (by simp)
  have hal := hlab a ha
  have hqn : q < L.n := ((mem_delta1 L a q).mp hq).1
  have hk := ok.key a q hal hqn
  obtain ⟨hlt, hat⟩ := hbv.agree a q ha hq
  refine g.add ⟨?_, ?_⟩
  · rw [sc_okAll_single]
    simp only [SC.ok, hA, hk, hph, Bool.and_eq_true, beq_iff_eq, decide_eq_true_eq]
    exact ⟨⟨trivial, hlt⟩, by rw [hat]; exact hpos⟩
  · rw [sc_aRun_single]
    simp only [SC.aStep, hA, hk]
    have gs : SCI L cfg e (SC.aRun cfg [] t.sc).1 running := g.2
    generalize (SC.aRun cfg [] t.sc).1 = aw at hA gs
    have hb1w : b1 < aw.length := getD_lt_of_some hA
    refine ⟨by rw [List.length_set, hp]; exact gs.len, fun i hi' => ?_⟩
    rw [hp] at hi'
    by_cases hib : i = b1
    · subst hib
      refine ⟨({ A with val := A.val.set (kx cfg a q) (A.at (kx cfg a q) - 1) } : SC.A),
        by rw [SC.P.getD_set, if_pos ⟨rfl, hb1w⟩], hph, fun _ => ⟨?_, ?_⟩⟩
      · show (A.val.set _ _).length = _
        rw [List.length_set]; exact hbv.vlen
      · intro a' q' ha' hq'
        rw [ins_congr hi] at ha'
        obtain ⟨h1, h2⟩ := hbv.agree a' q' ha' hq'
        refine ⟨h1, ?_⟩
        rw [SC.P.at_set A _ _ _ (by rw [hbv.vlen]; exact hlt), hc]
        by_cases hkk : kx cfg a' q' = kx cfg a q
        · obtain ⟨e1, e2⟩ := ok.inj a' q' a q (hlab a' ha') hal hq' hq hkk
          rw [if_pos hkk, if_pos ⟨rfl, e1, e2⟩, hat]
        · rw [if_neg hkk, if_neg (fun h => hkk (by rw [h.2.1, h.2.2])), h2]
    · obtain ⟨Ai, hAi, hphi, hbvi⟩ := gs.blk i hi'
      refine ⟨Ai, by rw [SC.P.getD_set, if_neg (fun h => hib h.1)]; exact hAi, hphi, fun hf => ?_⟩
      exact (hbvi hf).congr hi (fun a' q' => by rw [hc, if_neg (fun h => hib h.1)])

/-! ### `copyCtor` + `copyLabels` (one new block of `split`) -/

theorem getD_append_lt {α : Type} (l : List α) (x d : α) {j : Nat} (h : j < l.length) : (l ++ [x]).getD j d = l.getD j d := by
  simp only [List.getD_eq_getElem?_getD]
  rw [List.getElem?_append_left h]

theorem getD_append_len {α : Type} (l : List α) (x d : α) : (l ++ [x]).getD l.length d = x := by
  simp [List.getD_eq_getElem?_getD]

theorem lt_mul_of_div_lt {idx n rs : Nat} (hrs : 0 < rs) (h : idx / rs < n) : idx < n * rs := by
  rw [Nat.mul_comm]; exact (Nat.div_lt_iff_lt_mul hrs).mp h |> fun h => by rw [Nat.mul_comm]; exact h

/-- `counter_(parent.counter_)` and `newBlock->counter_.copyLabels(newBlock->inset_, block->counter_)` -/
theorem copy_goodC (ok : CfgOK L cfg) {e e' : Eng} {t : Tr2} {b : Nat} {ls : List Nat} (g : GC L cfg e t running)
    (hb : b < e.part.length) (hp : e'.part.length = e.part.length + 1) (hls : e'.ins e.part.length = ls)
    (hlab : ∀ a, a ∈ ls → a < labels L)
    (hins_old : ∀ i, i < e.part.length → ∀ a, a ∈ e'.ins i → a ∈ e.ins i)
    (hins_new : ∀ a, a ∈ ls → a ∈ e.ins b)
    (hc_old : ∀ i a q, i < e.part.length → e'.cntv i a q = e.cntv i a q)
    (hc_new : ∀ a q, a ∈ ls → e'.cntv e.part.length a q = e.cntv b a q) :
    GC L cfg e' (t.addSC [SC.Op.copyCtor b, SC.Op.copyLabels e.part.length b ls]) running := by
  obtain ⟨S, hS, hSph, hSbv⟩ := g.2.blk b hb
  have hSph : S.phase = .running := hSph
  have hSbv := hSbv (by simp)
  refine g.add ?_
  have gs : SCI L cfg e (SC.aRun cfg [] t.sc).1 running := g.2
  generalize (SC.aRun cfg [] t.sc).1 = aw at hS gs
  have hlen := gs.len
  have hbw : b < aw.length := by rw [hlen]; exact hb
  have hne : e.part.length ≠ b := Nat.ne_of_gt hb
  have hS1 : (aw ++ [some (⟨0, [], .fresh⟩ : SC.A)]).getD b none = some S := by rw [getD_append_lt _ _ _ hbw]; exact hS
  have hN1 : (aw ++ [some (⟨0, [], .fresh⟩ : SC.A)]).getD e.part.length none = some ⟨0, [], .fresh⟩ := by
    rw [← hlen]; exact getD_append_len _ _ _
  have hstep1 : SC.aStep cfg aw (SC.Op.copyCtor b) = aw ++ [some ⟨0, [], .fresh⟩] := rfl
  have hnlt : e.part.length < (aw ++ [some (⟨0, [], .fresh⟩ : SC.A)]).length := by rw [List.length_append, hlen]; simp
  constructor
  · rw [sc_okAll_cons, hstep1, sc_okAll_single]
    simp only [SC.ok, hS, hS1, hN1, hSph, Option.isSome_some, Bool.true_and, Bool.and_eq_true, bne_iff_ne, ne_eq,
      List.all_eq_true, decide_eq_true_eq, beq_self_eq_true, and_true]
    exact ⟨hne, fun a ha => by rw [ok.lmlen]; exact hlab a ha⟩
  · rw [sc_aRun_cons, hstep1, sc_aRun_single]
    have hget : ∀ idx, idx / cfg.rowSize ∈ SC.copiedRows cfg ls S.rows →
        ∃ child, (SC.aStep cfg (aw ++ [some ⟨0, [], .fresh⟩]) (.copyLabels e.part.length b ls)).getD e.part.length none = some child ∧
          child.at idx = S.at idx ∧ idx < child.rows * cfg.rowSize ∧ child.phase = .running :=
      fun idx h => SC.Layout.aStep_copyLabels_at cfg _ _ _ ls S idx hnlt hS1 ok.rs h
    have hshape : ∃ C : SC.A, SC.aStep cfg (aw ++ [some ⟨0, [], .fresh⟩]) (.copyLabels e.part.length b ls) =
        (aw ++ [some (⟨0, [], .fresh⟩ : SC.A)]).set e.part.length (some C) ∧ C.val.length = C.rows * cfg.rowSize ∧ C.phase = .running := by
      simp only [SC.aStep, hS1]
      exact ⟨_, rfl, by simp only [List.length_map, List.length_range], rfl⟩
    obtain ⟨C, hC, hCv, hCph⟩ := hshape
    rw [hC] at hget ⊢
    have hCget : ((aw ++ [some (⟨0, [], .fresh⟩ : SC.A)]).set e.part.length (some C)).getD e.part.length none = some C := by
      rw [SC.P.getD_set, if_pos ⟨rfl, hnlt⟩]
    refine ⟨by rw [List.length_set, List.length_append, hp, hlen]; rfl, fun i hi => ?_⟩
    rw [hp] at hi
    by_cases hin : i = e.part.length
    · subst hin
      refine ⟨C, hCget, hCph, fun _ => ⟨hCv, ?_⟩⟩
      intro a q ha hq
      rw [hls] at ha
      obtain ⟨h1, h2⟩ := hSbv.agree a q (hins_new a ha) hq
      have hal := hlab a ha
      have hrow : kx cfg a q / cfg.rowSize ∈ SC.copiedRows cfg ls S.rows := by
        rw [SC.P.mem_copiedRows]
        refine ⟨SC.P.div_lt_rows h1, a, ha, lm cfg a, ?_, ok.rng a q hal hq⟩
        have : a < cfg.labelMap.length := by rw [ok.lmlen]; exact hal
        unfold lm
        rw [List.getD_eq_getElem?_getD, List.getElem?_eq_getElem this]; rfl
      obtain ⟨child, c1, c2, c3, _⟩ := hget _ hrow
      rw [hCget] at c1
      have : C = child := Option.some.inj c1
      subst this
      exact ⟨c3, by rw [c2, h2, hc_new a q ha]⟩
    · have hi' : i < e.part.length := by omega
      obtain ⟨Ai, hAi, hphi, hbvi⟩ := gs.blk i hi'
      refine ⟨Ai, ?_, hphi, fun hf => ?_⟩
      · rw [SC.P.getD_set, if_neg (fun h => hin h.1), getD_append_lt _ _ _ (by rw [hlen]; exact hi')]; exact hAi
      · have := hbvi hf
        exact ⟨this.vlen, fun a q ha hq => by rw [hc_old i a q hi']; exact this.agree a q (hins_old i hi' a ha) hq⟩

end

end Vata.LEC2
