import Vata.Proofs.InclUpSimInv
import Vata.Proofs.InclUpTotal
import Vata.Proofs.PropAux
/-!
# Totality of `inclUpSim` on trimmed operands with a validated preorder

* `run_terminates`        : for a relation that is transitive and reflexive on the parents of the rules, the exploration
                            ends within `2 · |Δ_A| · 2^|Δ_B|` picked pairs (the bound of the algorithm without relation);
* `inclUpSim_of_run_error`: on a trimmed `A` the tree of a `return false` is completed to a separating tree, so the final
                            check never loses a `false`;
* `inclUpSim_total`, `inclUpSim_complete` : on a trimmed `A`, disjoint operands and a relation that is a reflexive and
                            transitive upward simulation of the union, a verdict – the right one – is returned for every
                            fuel above the bound;
* `checkInclUpSim_total`, `checkInclUpSim_complete` : the model of the command-line `CheckInclusion` (sanitise, greatest
                            upward simulation of the union) has no hypothesis left.
-/
namespace Vata
namespace InclUpSim
open InclUp

/-! ### Boolean monotonicity of the subsumption test -/

/-- transitivity and reflexivity (on the parents of the rules of both operands) of the relation -/
structure Preorder (R : Rel) (A B : TA) : Prop where
  trans : ∀ a b c, (a, b) ∈ R → (b, c) ∈ R → (a, c) ∈ R
  refl : ∀ x, x ∈ parents A ∨ x ∈ parents B → (x, x) ∈ R

/-- Boolean test of `Preorder` -/
def preorderB (R : Rel) (A B : TA) : Bool := transB R && (parents A ++ parents B).all (fun x => R.contains (x, x))

theorem preorderB_sound {R : Rel} {A B : TA} (h : preorderB R A B = true) : Preorder R A B := by
  simp only [preorderB, Bool.and_eq_true, List.all_eq_true, List.contains_iff_mem, List.mem_append] at h
  exact ⟨transB_sound h.1, h.2⟩

theorem le_trans {R : Rel} (htr : ∀ a b c, (a, b) ∈ R → (b, c) ∈ R → (a, c) ∈ R) {a b c : Nat}
    (h₁ : le R a b = true) (h₂ : le R b c = true) : le R a c = true :=
  le_iff.mpr (htr _ _ _ (le_iff.mp h₁) (le_iff.mp h₂))

theorem lte_trans {R : Rel} (htr : ∀ a b c, (a, b) ∈ R → (b, c) ∈ R → (a, c) ∈ R) {X Y Z : List Nat}
    (h₁ : lte R X Y = true) (h₂ : lte R Y Z = true) : lte R X Z = true := by
  simp only [lte, Bool.or_eq_true, beq_iff_eq, List.all_eq_true, List.any_eq_true] at h₁ h₂ ⊢
  rcases h₁ with rfl | h₁
  · exact h₂
  · rcases h₂ with rfl | h₂
    · exact Or.inr h₁
    · right
      intro x hx
      obtain ⟨y, hy, hxy⟩ := h₁ x hx
      obtain ⟨z, hz, hyz⟩ := h₂ y hy
      exact ⟨z, hz, le_trans htr hxy hyz⟩

theorem subsumed_addTmp {R : Rel} (htr : ∀ a b c, (a, b) ∈ R → (b, c) ∈ R → (a, c) ∈ R) {P : List Item} {it : Item}
    {q : Nat} {S : List Nat} (h : subsumed R P q S = true) : subsumed R (addTmp R P it) q S = true := by
  unfold addTmp
  split
  · exact h
  · simp only [subsumed, List.any_eq_true, Bool.and_eq_true] at h ⊢
    obtain ⟨i, hi, hq, hS⟩ := h
    cases hr : (le R i.q it.q && lte R it.S i.S) with
    | false => exact ⟨i, List.mem_append_left _ (mem_refine.mpr ⟨hi, hr⟩), hq, hS⟩
    | true =>
      simp only [Bool.and_eq_true] at hr
      exact ⟨it, List.mem_append_right _ (List.mem_singleton.mpr rfl), le_trans htr hq hr.1, lte_trans htr hr.2 hS⟩

/-! ### the termination measure -/

/-- the pairs of the universe that are not yet subsumed -/
def mu (R : Rel) (A B : TA) (P : List Item) : Nat := (InclUp.univ A B).countP (fun p => !subsumed R P p.1 p.2)

def phi (R : Rel) (A B : TA) (st : St) : Nat := 2 * mu R A B st.processed + st.next.length

theorem mu_addTmp_le {R : Rel} (htr : ∀ a b c, (a, b) ∈ R → (b, c) ∈ R → (a, c) ∈ R) (A B : TA) (P : List Item)
    (it : Item) : mu R A B (addTmp R P it) ≤ mu R A B P := by
  apply List.countP_mono_left
  intro p _ hp
  simp only [Bool.not_eq_true'] at hp ⊢
  cases hs : subsumed R P p.1 p.2 with
  | false => rfl
  | true =>
    have := subsumed_addTmp (it := it) htr hs
    rw [hp] at this; cases this

/-- the representative of `it.S` in the universe -/
def repr (B : TA) (it : Item) : List Nat := (parents B).filter (fun x => it.S.contains x)

theorem mem_repr {B : TA} {it : Item} {x : Nat} : x ∈ repr B it ↔ x ∈ parents B ∧ x ∈ it.S := by
  simp only [repr, List.mem_filter, List.contains_iff_mem]

theorem mu_addTmp_lt {R : Rel} {A B : TA} (hR : Preorder R A B) {P : List Item} {it : Item} (hd : Dom A B it)
    (hs : subsumed R P it.q it.S = false) : mu R A B (addTmp R P it) < mu R A B P := by
  apply countP_lt_of_new
  · intro p _ hp
    simp only [Bool.not_eq_true'] at hp ⊢
    cases hs' : subsumed R P p.1 p.2 with
    | false => rfl
    | true =>
      have := subsumed_addTmp (it := it) hR.trans hs'
      rw [hp] at this; cases this
  · refine ⟨(it.q, repr B it), ?_, ?_, ?_⟩
    · simp only [InclUp.univ, List.mem_flatMap, List.mem_map, Prod.mk.injEq]
      exact ⟨it.q, hd.1, _, filter_mem_subsets _ _, rfl, rfl⟩
    · simp only [Bool.not_eq_true']
      cases hs' : subsumed R P it.q (repr B it) with
      | false => rfl
      | true =>
        exfalso
        simp only [subsumed, List.any_eq_true, Bool.and_eq_true] at hs'
        obtain ⟨i, hi, hq, hS⟩ := hs'
        have hlt : lte R (repr B it) it.S = true := by
          simp only [lte, Bool.or_eq_true, List.all_eq_true, List.any_eq_true]
          right
          intro x hx
          exact ⟨x, (mem_repr.mp hx).2, le_iff.mpr (hR.refl x (Or.inr (mem_repr.mp hx).1))⟩
        have : subsumed R P it.q it.S = true := by
          simp only [subsumed, List.any_eq_true, Bool.and_eq_true]
          exact ⟨i, hi, hq, lte_trans hR.trans hS hlt⟩
        rw [hs] at this; cases this
    · simp only [ne_eq, Bool.not_eq_true', Bool.not_eq_false]
      unfold addTmp
      rw [if_neg (by rw [hs]; exact Bool.false_ne_true)]
      simp only [subsumed, List.any_eq_true, Bool.and_eq_true]
      refine ⟨it, List.mem_append_right _ (List.mem_singleton.mpr rfl), le_iff.mpr (hR.refl _ (Or.inl hd.1)), ?_⟩
      simp only [lte, Bool.or_eq_true, List.all_eq_true, List.any_eq_true]
      right
      intro x hx
      exact ⟨x, mem_repr.mpr ⟨hd.2 x hx, hx⟩, le_iff.mpr (hR.refl x (Or.inr (hd.2 x hx)))⟩

theorem length_refine_le (R : Rel) (N : List Item) (q : Nat) (S : List Nat) : (refine R N q S).length ≤ N.length :=
  List.length_filter_le _ _

theorem phi_addItem {R : Rel} {A B : TA} (hR : Preorder R A B) {st : St} {it : Item} (hd : Dom A B it) :
    phi R A B (addItem R st it) ≤ phi R A B st := by
  unfold phi
  rw [addItem_processed]
  cases hs : subsumed R st.processed it.q it.S with
  | true =>
    have h1 : addTmp R st.processed it = st.processed := by unfold addTmp; rw [if_pos hs]
    have h2 : (addItem R st it).next = st.next := by unfold addItem; rw [if_pos hs]
    rw [h1, h2]; exact Nat.le_refl _
  | false =>
    have h1 := mu_addTmp_lt hR hd hs
    have h2 : (addItem R st it).next = insNext it (refine R st.next it.q it.S) := by
      unfold addItem; rw [if_neg (by rw [hs]; exact Bool.false_ne_true)]
    rw [h2, length_insNext]
    have := length_refine_le R st.next it.q it.S
    omega

theorem phi_foldl_addItem {R : Rel} {A B : TA} (hR : Preorder R A B) : ∀ (tmp : List Item) (st : St),
    (∀ i, i ∈ tmp → Dom A B i) → phi R A B (tmp.foldl (addItem R) st) ≤ phi R A B st
  | [], _, _ => Nat.le_refl _
  | it :: tmp, st, h =>
    Nat.le_trans (phi_foldl_addItem hR tmp (addItem R st it) (fun i hi => h i (List.mem_cons_of_mem _ hi)))
      (phi_addItem hR (h it List.mem_cons_self))

theorem dom_mkItem {R : Rel} {A B : TA} {ρ : Rule} (hρ : ρ ∈ A.rules) (is : List Item) :
    Dom A B (mkItem R B ρ is) := by
  constructor
  · exact List.mem_map.mpr ⟨ρ, hρ, rfl⟩
  · intro x hx
    obtain ⟨r, hr, _, _, hp⟩ := mem_post'.mp (mem_macroPost_sub hx)
    exact List.mem_map.mpr ⟨r, hr, hp⟩

theorem phi_procTask {R : Rel} {A B : TA} (hR : Preorder R A B) {it : Item} {ρ : Rule} {j : Nat} {st st' : St}
    (hρ : ρ ∈ A.rules) (h : procTask R A B it ρ j st = .ok st') : phi R A B st' ≤ phi R A B st := by
  unfold procTask at h
  split at h
  · cases h
  · next tmp htmp =>
    simp only [Except.ok.injEq] at h
    subst h
    apply phi_foldl_addItem hR
    intro i hi
    rcases (stepChoices_ok hR.trans htmp).2.2 i hi with hi | ⟨is, _, rfl, _⟩
    · simp at hi
    · exact dom_mkItem hρ is

theorem phi_procTasks {R : Rel} {A B : TA} (hR : Preorder R A B) {it : Item} :
    ∀ {T : List (Rule × Nat)} {st st' : St},
    (∀ p, p ∈ T → p.1 ∈ A.rules) → procTasks R A B it T st = .ok st' → phi R A B st' ≤ phi R A B st
  | [], st, st', _, h => by
    simp only [procTasks, Except.ok.injEq] at h
    subst h; exact Nat.le_refl _
  | (ρ, j) :: T, st, st', hT, h => by
    unfold procTasks at h
    split at h
    · cases h
    · next st₁ h₁ =>
      exact Nat.le_trans (phi_procTasks hR (fun p hp => hT p (List.mem_cons_of_mem _ hp)) h)
        (phi_procTask hR (hT _ List.mem_cons_self) h₁)

theorem loop_terminates {R : Rel} {A B : TA} (hR : Preorder R A B) : ∀ (n : Nat) (st : St), phi R A B st < n →
    ∃ r, loop R A B n st = some r
  | 0, _, h => absurd h (Nat.not_lt_zero _)
  | n+1, st, h => by
    unfold loop
    split
    · exact ⟨_, rfl⟩
    · next it rest hn =>
      split
      · exact ⟨_, rfl⟩
      · next st' h' =>
        apply loop_terminates hR n st'
        have h1 := phi_procTasks hR (fun p hp => (mem_tasks.mp (by exact hp)).1) h'
        have h2 : phi R A B ⟨st.processed, rest⟩ + 1 = phi R A B st := by
          unfold phi; rw [hn]; simp only [List.length_cons]; omega
        omega

theorem phi_leafPhase {R : Rel} {A B : TA} (hR : Preorder R A B) : ∀ {ρs : List Rule} {st st' : St},
    (∀ ρ, ρ ∈ ρs → ρ ∈ A.rules) → leafPhase R A B ρs st = .ok st' → phi R A B st' ≤ phi R A B st
  | [], st, st', _, h => by
    simp only [leafPhase, Except.ok.injEq] at h
    subst h; exact Nat.le_refl _
  | ρ :: ρs, st, st', hρs, h => by
    have hρs' : ∀ ρ', ρ' ∈ ρs → ρ' ∈ A.rules := fun ρ' h => hρs ρ' (List.mem_cons_of_mem _ h)
    unfold leafPhase at h
    split at h
    · simp only at h
      split at h
      · cases h
      · split at h
        · exact phi_leafPhase hR hρs' h
        · exact Nat.le_trans (phi_leafPhase hR hρs' h)
            (phi_addItem hR (dom_mkItem (R := R) (B := B) (hρs ρ List.mem_cons_self) []))
    · exact phi_leafPhase hR hρs' h

/-- the exploration with a preorder ends within the bound of the plain algorithm -/
theorem run_terminates {R : Rel} {A B : TA} (hR : Preorder R A B) {fuel : Nat} (h : fuelBound A B < fuel) :
    ∃ r, run R A B fuel = some r := by
  unfold run
  split
  · exact ⟨_, rfl⟩
  · split
    · exact ⟨_, rfl⟩
    · next st hst =>
      apply loop_terminates hR
      have h1 := phi_leafPhase hR (fun _ h => h) hst
      have h2 : phi R A B ⟨[], []⟩ ≤ 2 * (InclUp.univ A B).length := by
        unfold phi mu
        have := List.countP_le_length (p := fun p : Nat × List Nat => !subsumed R [] p.1 p.2) (l := InclUp.univ A B)
        simp only [List.length_nil]
        omega
      rw [length_univ] at h2
      unfold fuelBound at h
      omega

/-! ### totality -/

theorem inclUpSim_of_run_error {R : Rel} {A B : TA} (hR : SimHyp R A B) (hA : Trimmed A) {fuel : Nat} {q : Nat}
    {t : Tree} (h : run R A B fuel = some (.error (q, t))) :
    inclUpSim A B R fuel = some (false, .witness (complete A q t)) := by
  have he := run_error_ok hR h
  have hq : TdReachable A q := by
    have := he.1
    cases t with
    | node f ts =>
      rw [reach, mem_post'] at this
      obtain ⟨r, hr, _, _, hp⟩ := this
      have hp' : r.parent = q := hp
      exact hp' ▸ hA.2 r hr
  obtain ⟨h1, h2⟩ := complete_ok he (Or.inr (search_complete hA.1 t hq))
  unfold inclUpSim
  rw [h]
  simp only
  rw [if_pos (by rw [h1, h2]; rfl)]

/-- what the validation of the model establishes, plus "preorder": the hypotheses of totality -/
structure Valid (R : Rel) (A B : TA) : Prop where
  sim : isUpSimB (unionDisjoint A B) R = true
  dis : InclDown.disjointB A B = true
  pre : Preorder R A B

theorem Valid.simHyp {R : Rel} {A B : TA} (h : Valid R A B) : SimHyp R A B :=
  ⟨h.pre.trans, (isUpSimB_iff _ R).mp h.sim, InclDown.disjointB_iff.mp h.dis⟩

/-- on a trimmed `A` and a valid preorder the model returns a verdict for every fuel above the bound -/
theorem inclUpSim_total {R : Rel} {A B : TA} (hV : Valid R A B) (hA : Trimmed A) {fuel : Nat}
    (hf : fuelBound A B < fuel) : ∃ b c, inclUpSim A B R fuel = some (b, c) := by
  obtain ⟨r, hr⟩ := run_terminates hV.pre hf
  cases r with
  | ok P => exact ⟨_, _, inclUpSim_of_run_ok hV.pre.trans hV.sim hV.dis hr⟩
  | error e => exact ⟨_, _, inclUpSim_of_run_error hV.simHyp hA (q := e.1) (t := e.2) hr⟩

/-- … and it is the right one -/
theorem inclUpSim_complete {R : Rel} {A B : TA} (hV : Valid R A B) (hA : Trimmed A) {fuel : Nat}
    (hf : fuelBound A B < fuel) :
    (Incl A B → ∃ c, inclUpSim A B R fuel = some (true, c)) ∧
    (¬ Incl A B → ∃ c, inclUpSim A B R fuel = some (false, c)) := by
  obtain ⟨b, c, h⟩ := inclUpSim_total hV hA hf
  have := inclUpSim_iff h
  cases b with
  | true => exact ⟨fun _ => ⟨c, h⟩, fun hn => absurd (this.mp rfl) hn⟩
  | false => exact ⟨fun hi => (by cases this.mpr hi), fun _ => ⟨c, h⟩⟩

/-! ### the exploration proper is right (no final check involved) -/

/-- for a valid preorder: a `return true` of the exploration implies the inclusion; on a trimmed `A` a `return false`
refutes it -/
theorem run_sound {R : Rel} {A B : TA} (hV : Valid R A B) {fuel : Nat} :
    (∀ P, run R A B fuel = some (.ok P) → Incl A B) ∧
    (Trimmed A → ∀ e, run R A B fuel = some (.error e) → ¬ Incl A B) :=
  ⟨fun _ h => inclUpSim_true (inclUpSim_of_run_ok hV.pre.trans hV.sim hV.dis h),
    fun hA e h => inclUpSim_false (inclUpSim_of_run_error hV.simHyp hA (q := e.1) (t := e.2) h)⟩

/-! ### the model of the command-line `CheckInclusion` -/

theorem parents_sub_states {A : TA} {x : Nat} (h : x ∈ parents A) : x ∈ A.states := by
  obtain ⟨r, hr, rfl⟩ := List.mem_map.mp h
  exact SimModel.parent_mem_states hr

/-- the greatest upward simulation of the disjoint union of disjoint operands is a valid preorder -/
theorem valid_upSimRef {A B : TA} (hdis : ∀ q, q ∈ A.states → q ∉ B.states) :
    Valid (upSimRef (unionDisjoint A B)) A B where
  sim := upSimRef_check _
  dis := InclDown.disjointB_iff.mpr hdis
  pre := {
    trans := (greatest_upSim_preorder _).2
    refl := fun x hx => (greatest_upSim_preorder _).1 x (by
      rw [PropAux.mem_states_unionDisjoint]
      rcases hx with hx | hx
      · exact Or.inl (parents_sub_states hx)
      · exact Or.inr (parents_sub_states hx)) }

theorem valid_sanitize (A B : TA) :
    Valid (upSimRef (unionDisjoint (sanitize A B).1 (sanitize A B).2.1)) (sanitize A B).1 (sanitize A B).2.1 :=
  valid_upSimRef (sanitize_disjoint A B)

end InclUpSim

open InclUp InclUpSim

/-- the model of the command-line `CheckInclusion` with `ANTICHAINS_UP_SIM` returns a verdict for every fuel above the
bound, whatever the operands -/
theorem checkInclUpSim_total (A B : TA) {fuel : Nat}
    (hf : fuelBound (sanitize A B).1 (sanitize A B).2.1 < fuel) : ∃ b c, checkInclUpSim A B fuel = some (b, c) :=
  inclUpSim_total (valid_sanitize A B) (trimmed_of_allUsefulB (sanitize_trimmed A B).1) hf

/-- … and it is the right one -/
theorem checkInclUpSim_complete (A B : TA) {fuel : Nat}
    (hf : fuelBound (sanitize A B).1 (sanitize A B).2.1 < fuel) :
    (Incl A B → ∃ c, checkInclUpSim A B fuel = some (true, c)) ∧
    (¬ Incl A B → ∃ c, checkInclUpSim A B fuel = some (false, c)) := by
  have := inclUpSim_complete (valid_sanitize A B) (trimmed_of_allUsefulB (sanitize_trimmed A B).1) hf
  rw [checkIncl_sanitized] at this
  exact this

/-! ### examples (non-vacuity) -/
namespace InclUpSimTotalEx
open InclUpSimEx InclUpEx

example : Valid (upSimRef (unionDisjoint exP exQ)) exP exQ := valid_upSimRef (InclDown.disjointB_iff.mp (by decide))
example : Valid exR exP exQ :=
  ⟨by decide, by decide, preorderB_sound (by decide)⟩
example : Trimmed exP ∧ fuelBound exP exQ < 321 := ⟨trimmed_of_allUsefulB (by decide), by decide⟩
example : ∃ r, run (upSimRef (unionDisjoint exP exQ)) exP exQ 321 = some r :=
  run_terminates (valid_upSimRef (InclDown.disjointB_iff.mp (by decide))).pre (by decide)
example : (Incl exP exQ → ∃ c, inclUpSim exP exQ (upSimRef (unionDisjoint exP exQ)) 321 = some (true, c)) ∧
    (¬ Incl exP exQ → ∃ c, inclUpSim exP exQ (upSimRef (unionDisjoint exP exQ)) 321 = some (false, c)) :=
  inclUpSim_complete (valid_upSimRef (InclDown.disjointB_iff.mp (by decide))) (trimmed_of_allUsefulB (by decide))
    (by decide)
example : fuelBound (sanitize SanEx.exA SanEx.exB).1 (sanitize SanEx.exA SanEx.exB).2.1 < 33 := by decide
example : ∃ c, checkInclUpSim SanEx.exA SanEx.exB 33 = some (true, c) :=
  (checkInclUpSim_complete SanEx.exA SanEx.exB (by decide)).1
    ((checkInclUpSim_iff (A := SanEx.exA) (B := SanEx.exB) (fuel := 20) (c := .closed [(1, [2])]) rfl).mp rfl)
example : ∃ c, checkInclUpSim SanEx.exB SanEx.exA 100 = some (false, c) := ⟨_, rfl⟩
-- the exploration proper is right for a valid preorder
example : Incl exP exQ :=
  (run_sound (R := exR) (A := exP) (B := exQ)
    ⟨by decide, by decide, preorderB_sound (by decide)⟩ (fuel := 20)).1 _ rfl

end InclUpSimTotalEx

end Vata
