import Vata.Basic
/-!
# Termination of the profile-saturation loops (generic part)

The three exact reference engines of the project – `msat` (`Vata/Multi.lean`, tuples of state sets of several tree
automata), `sat` (`Vata/Basic.lean`, pairs of state sets of two tree automata) and `W.sat` (`Vata/Nfa.lean`, pairs of
state sets of two word automata) – are the same loop over different element types:

```
sat (n+1) P = if closed P then some P else sat n (addNew P (step P))        sat 0 P = if closed P then some P else none
```

where `closed P` says that every element of `step P` is *equivalent* (componentwise equal as a set) to an element of `P`
and `addNew` appends the elements of `step P` that are not yet represented.  `gsat` below is that loop for an arbitrary
element type, Boolean equivalence `eqB` and `step`; the concrete loops are shown to be instances by `rfl`-style
inductions in `MultiTotal.lean` / `PairTotal.lean`.

**The termination argument of the loop as written.**  A round that does not stop has found an element `p ∈ step P` that
is not represented in `P`; `addNew` then appends `p` (or an equivalent element met earlier in the same round), so after
the round `p` *is* represented, and nothing that was represented is lost (`addNew` only appends).  Hence *no round wastes
fuel*: every round either stops or strictly increases the set of represented equivalence classes.  Given any finite list
`L` that contains a representative of every element `step` can ever produce (under an invariant `Inv` of the loop), the
measure

  `uncov L P` = number of elements of `L` not represented in `P`

strictly decreases in every round that does not stop (`uncov_lt`), and the loop stops at the latest when it is `0`.
So `uncov L P ≤ fuel` suffices (`gsat_isSome`); for the start value this is at most `L.length`.  No pigeonhole principle
is needed.  A round may add many elements at once, so the bound is pessimistic by design: it is the number of
equivalence classes, the number of rounds actually needed is the *depth* at which the last class appears.
-/
namespace Vata.Total

variable {α : Type}

/-- `p` is represented in `P` -/
def gmem (eqB : α → α → Bool) (P : List α) (p : α) : Bool := P.any (fun p' => eqB p' p)

def gaddNew (eqB : α → α → Bool) (P : List α) : List α → List α
  | [] => P
  | p :: ps => if gmem eqB P p then gaddNew eqB P ps else gaddNew eqB (P ++ [p]) ps

def gclosed (eqB : α → α → Bool) (step : List α → List α) (P : List α) : Bool := (step P).all (gmem eqB P)

def gsat (eqB : α → α → Bool) (step : List α → List α) : Nat → List α → Option (List α)
  | 0, P => if gclosed eqB step P then some P else none
  | n+1, P => if gclosed eqB step P then some P else gsat eqB step n (gaddNew eqB P (step P))

/-- the Boolean relation is an equivalence -/
structure IsEqv (eqB : α → α → Bool) : Prop where
  refl : ∀ a, eqB a a = true
  symm : ∀ a b, eqB a b = true → eqB b a = true
  trans : ∀ a b c, eqB a b = true → eqB b c = true → eqB a c = true

/-- the measure: elements of the universe `L` not yet represented in `P` -/
def uncov (eqB : α → α → Bool) (L P : List α) : Nat := (L.filter (fun u => !gmem eqB P u)).length

theorem gmem_iff {eqB : α → α → Bool} {P : List α} {p : α} :
    gmem eqB P p = true ↔ ∃ p', p' ∈ P ∧ eqB p' p = true := by
  simp [gmem, List.any_eq_true]

theorem gmem_mono {eqB : α → α → Bool} {P P' : List α} (h : ∀ x, x ∈ P → x ∈ P') {p : α}
    (hp : gmem eqB P p = true) : gmem eqB P' p = true := by
  obtain ⟨p', h1, h2⟩ := gmem_iff.mp hp
  exact gmem_iff.mpr ⟨p', h p' h1, h2⟩

/-- `addNew` only appends -/
theorem sub_gaddNew (eqB : α → α → Bool) (N : List α) : ∀ (P : List α) (x : α), x ∈ P → x ∈ gaddNew eqB P N := by
  induction N with
  | nil => intro P x hx; exact hx
  | cons p ps ih =>
    intro P x hx
    simp only [gaddNew]
    split
    · exact ih P x hx
    · exact ih _ x (List.mem_append_left _ hx)

/-- after `addNew P N` every element of `N` is represented -/
theorem gmem_gaddNew {eqB : α → α → Bool} (he : IsEqv eqB) (N : List α) :
    ∀ (P : List α) (p : α), p ∈ N → gmem eqB (gaddNew eqB P N) p = true := by
  induction N with
  | nil => intro P p hp; cases hp
  | cons q qs ih =>
    intro P p hp
    simp only [gaddNew]
    rcases List.mem_cons.mp hp with hpq | hp
    · subst hpq
      split
      · rename_i hm
        exact gmem_mono (sub_gaddNew eqB qs P) hm
      · apply gmem_iff.mpr
        exact ⟨p, sub_gaddNew eqB qs _ p (List.mem_append_right _ (List.mem_singleton.mpr rfl)), he.refl p⟩
    · split
      · exact ih P p hp
      · exact ih _ p hp

theorem length_filter_le_of_imp {p q : α → Bool} : ∀ (L : List α), (∀ x, x ∈ L → p x = true → q x = true) →
    (L.filter p).length ≤ (L.filter q).length
  | [], _ => Nat.le_refl _
  | x :: L, h => by
    have ih := length_filter_le_of_imp L (fun y hy => h y (List.mem_cons_of_mem _ hy))
    have hx := h x List.mem_cons_self
    simp only [List.filter_cons]
    cases hp : p x
    · cases hq : q x
      · simpa using ih
      · simp only [Bool.false_eq_true, if_false, if_true, List.length_cons]; omega
    · rw [hx hp]
      simpa using ih

theorem length_filter_lt_of_imp {p q : α → Bool} : ∀ (L : List α), (∀ x, x ∈ L → p x = true → q x = true) →
    ∀ u, u ∈ L → p u = false → q u = true → (L.filter p).length < (L.filter q).length
  | [], _, u, hu, _, _ => by cases hu
  | x :: L, h, u, hu, hpu, hqu => by
    have hle := length_filter_le_of_imp L (fun y hy => h y (List.mem_cons_of_mem _ hy))
    have hx := h x List.mem_cons_self
    simp only [List.filter_cons]
    rcases List.mem_cons.mp hu with hux | hu
    · subst hux
      rw [hpu, hqu]
      simp only [Bool.false_eq_true, if_false, if_true, List.length_cons]; omega
    · have ih := length_filter_lt_of_imp L (fun y hy => h y (List.mem_cons_of_mem _ hy)) u hu hpu hqu
      cases hp : p x
      · cases hq : q x
        · simpa using ih
        · simp only [Bool.false_eq_true, if_false, if_true, List.length_cons]; omega
      · rw [hx hp]
        simpa using ih

/-- representing more never increases the measure -/
theorem uncov_le {eqB : α → α → Bool} (L : List α) {P P' : List α} (h : ∀ x, x ∈ P → x ∈ P') :
    uncov eqB L P' ≤ uncov eqB L P := by
  unfold uncov
  apply length_filter_le_of_imp
  intro u _ hu
  simp only [Bool.not_eq_true'] at hu ⊢
  cases hm : gmem eqB P u
  · rfl
  · rw [gmem_mono h hm] at hu; cases hu

/-- representing a new element of the universe strictly decreases the measure -/
theorem uncov_lt {eqB : α → α → Bool} (L : List α) {P P' : List α} (h : ∀ x, x ∈ P → x ∈ P')
    {u : α} (hu : u ∈ L) (h0 : gmem eqB P u = false) (h1 : gmem eqB P' u = true) :
    uncov eqB L P' < uncov eqB L P := by
  unfold uncov
  apply length_filter_lt_of_imp L _ u hu
  · simp [h1]
  · simp [h0]
  · intro x _ hx
    simp only [Bool.not_eq_true'] at hx ⊢
    cases hm : gmem eqB P x
    · rfl
    · rw [gmem_mono h hm] at hx; cases hx

theorem uncov_le_length (eqB : α → α → Bool) (L P : List α) : uncov eqB L P ≤ L.length :=
  List.length_filter_le _ _

/-- **Generic totality.**  If `L` represents everything `step` produces from a set satisfying the loop invariant, the
loop returns a value as soon as the fuel is at least the number of elements of `L` not yet represented. -/
theorem gsat_isSome {eqB : α → α → Bool} (he : IsEqv eqB) (step : List α → List α) (L : List α)
    (Inv : List α → Prop)
    (hinv : ∀ P, Inv P → Inv (gaddNew eqB P (step P)))
    (hcov : ∀ P, Inv P → ∀ p, p ∈ step P → ∃ u, u ∈ L ∧ eqB u p = true) :
    ∀ (fuel : Nat) (P : List α), Inv P → uncov eqB L P ≤ fuel → (gsat eqB step fuel P).isSome = true := by
  -- a round that does not stop represents a universe element that was not represented
  have key : ∀ P, Inv P → gclosed eqB step P = false →
      uncov eqB L (gaddNew eqB P (step P)) < uncov eqB L P := by
    intro P hP hc
    have : ∃ p, p ∈ step P ∧ gmem eqB P p = false := by
      unfold gclosed at hc
      have := List.all_eq_false.mp hc
      obtain ⟨p, hp, hm⟩ := this
      exact ⟨p, hp, by simpa using hm⟩
    obtain ⟨p, hp, hm⟩ := this
    obtain ⟨u, hu, hup⟩ := hcov P hP p hp
    apply uncov_lt L (sub_gaddNew eqB (step P) P) hu
    · cases hmu : gmem eqB P u
      · rfl
      · obtain ⟨p', hp', he'⟩ := gmem_iff.mp hmu
        rw [gmem_iff.mpr ⟨p', hp', he.trans _ _ _ he' hup⟩] at hm; cases hm
    · obtain ⟨p', hp', he'⟩ := gmem_iff.mp (gmem_gaddNew he (step P) P p hp)
      exact gmem_iff.mpr ⟨p', hp', he.trans _ _ _ he' (he.symm _ _ hup)⟩
  intro fuel
  induction fuel with
  | zero =>
    intro P hP hle
    simp only [gsat]
    cases hc : gclosed eqB step P
    · have := key P hP hc; omega
    · simp
  | succ n ih =>
    intro P hP hle
    simp only [gsat]
    cases hc : gclosed eqB step P
    · simp only [Bool.false_eq_true, if_false]
      have := key P hP hc
      exact ih _ (hinv P hP) (by omega)
    · simp

/-- the result of the loop, when there is one, is closed (for completeness of the generic picture) -/
theorem gsat_closed {eqB : α → α → Bool} (step : List α → List α) :
    ∀ (fuel : Nat) (P R : List α), gsat eqB step fuel P = some R → gclosed eqB step R = true := by
  intro fuel
  induction fuel with
  | zero =>
    intro P R h
    simp only [gsat] at h
    split at h
    · cases h; assumption
    · cases h
  | succ n ih =>
    intro P R h
    simp only [gsat] at h
    split at h
    · cases h; assumption
    · exact ih _ _ h

/-- more fuel never changes a result -/
theorem gsat_mono {eqB : α → α → Bool} (step : List α → List α) :
    ∀ (fuel : Nat) (P R : List α), gsat eqB step fuel P = some R → gsat eqB step (fuel + 1) P = some R := by
  intro fuel
  induction fuel with
  | zero =>
    intro P R h
    simp only [gsat] at h ⊢
    split at h
    · rename_i hc; simp [hc, h]
    · cases h
  | succ n ih =>
    intro P R h
    rw [gsat] at h ⊢
    split at h
    · rename_i hc; simp [hc, h]
    · rename_i hc
      simp only [hc, if_false, Bool.false_eq_true]
      exact ih _ _ h

/-! ### subsets of a finite list, as a universe of state sets -/

/-- all sublists of `l` (every subset of the elements of `l` is set-equal to one of them, `subs_cover`) -/
def subs : List Nat → List (List Nat)
  | [] => [[]]
  | x :: xs => subs xs ++ (subs xs).map (fun s => x :: s)

theorem length_subs : ∀ l : List Nat, (subs l).length = 2 ^ l.length
  | [] => rfl
  | x :: xs => by
    simp only [subs, List.length_append, List.length_map, length_subs xs, List.length_cons, Nat.pow_succ]
    omega

theorem subs_cover : ∀ (U s : List Nat), (∀ x, x ∈ s → x ∈ U) → ∃ u, u ∈ subs U ∧ ∀ x, x ∈ u ↔ x ∈ s
  | [], s, h => by
    refine ⟨[], List.mem_singleton.mpr rfl, ?_⟩
    intro x
    constructor
    · intro hx; cases hx
    · intro hx; exact absurd (h x hx) (by simp)
  | y :: U, s, h => by
    have hs' : ∀ x, x ∈ s.filter (fun z => z != y) → x ∈ U := by
      intro x hx
      simp only [List.mem_filter, bne_iff_ne, ne_eq] at hx
      rcases List.mem_cons.mp (h x hx.1) with h1 | h1
      · exact absurd h1 hx.2
      · exact h1
    obtain ⟨u, hu, hue⟩ := subs_cover U _ hs'
    by_cases hy : y ∈ s
    · refine ⟨y :: u, ?_, ?_⟩
      · simp only [subs, List.mem_append, List.mem_map]
        exact Or.inr ⟨u, hu, rfl⟩
      · intro x
        simp only [List.mem_cons, hue, List.mem_filter, bne_iff_ne, ne_eq]
        constructor
        · rintro (h1 | h1)
          · rw [h1]; exact hy
          · exact h1.1
        · intro hx
          by_cases hxy : x = y
          · exact Or.inl hxy
          · exact Or.inr ⟨hx, hxy⟩
    · refine ⟨u, ?_, ?_⟩
      · simp only [subs, List.mem_append]
        exact Or.inl hu
      · intro x
        simp only [hue, List.mem_filter, bne_iff_ne, ne_eq]
        constructor
        · intro h1; exact h1.1
        · intro hx
          refine ⟨hx, ?_⟩
          intro hxy; rw [hxy] at hx; exact hy hx

/-- length of a "product" list -/
theorem length_flatMap_map {β γ : Type} (f : β → γ → α) (M : List γ) : ∀ (l : List β),
    (l.flatMap (fun s => M.map (f s))).length = l.length * M.length
  | [] => by simp
  | b :: l => by
    simp only [List.flatMap_cons, List.length_append, List.length_map, length_flatMap_map f M l, List.length_cons]
    rw [Nat.add_mul, Nat.one_mul, Nat.add_comm]

end Vata.Total
