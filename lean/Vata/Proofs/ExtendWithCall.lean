import Vata.ExtendWithCall
import Vata.Proofs.BddAbsTD
import Vata.Proofs.RcStoreXWfRename
/-!
# The `ExtendWith` call of `GetTopDownAut` is inside the precondition of canonicity – proofs (properties C17 / C08)

* `belowB_iff`, `wfB_iff`, `below_iff_vars`, `rootLt_of_below`, `below_mapLeaf` : the checkers;
* `EntWF T` : every STORED MTBDD of the table is ordered, reduced and over the variables `< 16` (no `TableOk` needed;
  `entWF_tableWF` gives the `TableWF` of the C08 files);  `entWF_built` : it holds of every `BuiltBU` table;
* `extendedBdd_wf` : the extension is `WF` and over the variables `< 22`;  `getTopDownAut_wf_of_entWF`;
* `opOk_extendWith_of_below` : the store-level side condition `RcSX.opOk` of the call.
-/
namespace Vata.ExtCall
open M BddAbs BddAbsTD
variable {α β : Type}

/-! ### the checkers -/

theorem belowB_iff {x : Nat} : ∀ {a : Node α}, belowB x a = true ↔ Below x a
  | .leaf _ => by simp [belowB, Below]
  | .node y lo hi => by
    simp only [belowB, Below, Bool.and_eq_true, decide_eq_true_eq, belowB_iff (a := lo), belowB_iff (a := hi)]
    exact and_assoc

theorem wfB_iff [DecidableEq α] : ∀ {a : Node α}, wfB a = true ↔ WF a
  | .leaf _ => by simp [wfB, WF]
  | .node x lo hi => by
    simp only [wfB, WF, Bool.and_eq_true, decide_eq_true_eq, belowB_iff, wfB_iff (a := lo), wfB_iff (a := hi)]
    constructor
    · rintro ⟨⟨⟨⟨h1, h2⟩, h3⟩, h4⟩, h5⟩; exact ⟨h1, h2, h3, h4, h5⟩
    · rintro ⟨h1, h2, h3, h4, h5⟩; exact ⟨⟨⟨⟨h1, h2⟩, h3⟩, h4⟩, h5⟩

theorem below_iff_vars {x : Nat} : ∀ {a : Node α}, Below x a ↔ ∀ v, v ∈ nodeVars a → v < x
  | .leaf _ => by simp [Below, nodeVars]
  | .node y lo hi => by
    simp only [Below, nodeVars, List.mem_cons, List.mem_append, below_iff_vars (a := lo), below_iff_vars (a := hi)]
    constructor
    · rintro ⟨h, hl, hh⟩ v hv
      rcases hv with hv | hv | hv
      · rw [hv]; exact h
      · exact hl v hv
      · exact hh v hv
    · intro h
      exact ⟨h y (Or.inl rfl), fun v hv => h v (Or.inr (Or.inl hv)), fun v hv => h v (Or.inr (Or.inr hv))⟩

theorem rootLt_of_below {x : Nat} : ∀ {a : Node α}, Below x a → rootLt x a = true
  | .leaf _, _ => rfl
  | .node _ _ _, h => decide_eq_true h.1

theorem below_mapLeaf (c : α → β) {x : Nat} : ∀ {a : Node α}, Below x (mapLeaf c a) ↔ Below x a
  | .leaf _ => Iff.rfl
  | .node y lo hi => by
    simp only [mapLeaf, Below, below_mapLeaf c (a := lo), below_mapLeaf c (a := hi)]

/-! ### the invariant of the stored MTBDDs -/

/-- ordered, reduced, only symbol variables -/
def Good (m : MT) : Prop := WF m ∧ Below symbolSize m

/-- every stored MTBDD is `Good` -/
def EntWF (T : Table) : Prop := Good T.nullary ∧ ∀ e, e ∈ T.entries → Good e.2

theorem good_leaf (v : List Nat) : Good (.leaf v) := ⟨trivial, trivial⟩

theorem good_apply2 (f : List Nat → List Nat → List Nat) {a b : MT} (ha : Good a) (hb : Good b) : Good (apply2 f a b) :=
  ⟨apply2_wf _ _ _ ha.1 hb.1, apply2_below _ _ _ ha.2 hb.2⟩

theorem good_apply1 (f : List Nat → List Nat) {a : MT} (ha : Good a) : Good (apply1 f a) :=
  ⟨apply1_wf f ha.1, apply1_below f ha.2⟩

theorem good_construct {asgn : List (Option Bool)} (hl : asgn.length ≤ symbolSize) (v d : List Nat) :
    Good (construct asgn v d) :=
  ⟨construct_wf _ _ _, Below.mono hl (construct_below asgn v d)⟩

theorem good_getE {es : List (List Nat × MT)} (h : ∀ e, e ∈ es → Good e.2) (ks : List Nat) : Good (getE es ks) := by
  induction es with
  | nil => exact good_leaf _
  | cons e es ih =>
    obtain ⟨k, m⟩ := e
    simp only [getE]
    split
    · exact h (k, m) List.mem_cons_self
    · exact ih (fun e' he' => h e' (List.mem_cons_of_mem _ he'))

theorem entWF_get {T : Table} (h : EntWF T) (ks : List Nat) : Good (T.get ks) := by
  unfold Table.get
  split
  · exact h.1
  · exact good_getE h.2 ks

/-- the invariant of the C08 files -/
theorem entWF_tableWF {T : Table} (h : EntWF T) : TableWF T := fun ks => entWF_get h ks

/-- conversely, for a table whose entries are what `GetMtbdd` returns -/
theorem tableWF_entWF {T : Table} (hO : TableOk T) (h : TableWF T) : EntWF T :=
  ⟨by have := h []; simpa [Table.get, Good, symbolSize] using this, fun e he => (pairs_wf hO h e (List.mem_cons_of_mem _ he))⟩

theorem entWF_stored {T : Table} : EntWF T ↔ ∀ m, m ∈ stored T → Good m := by
  simp only [EntWF, stored, List.mem_cons, List.mem_map]
  constructor
  · rintro ⟨h1, h2⟩ m hm
    rcases hm with hm | ⟨e, he, hm⟩
    · rw [hm]; exact h1
    · rw [← hm]; exact h2 e he
  · intro h
    exact ⟨h _ (Or.inl rfl), fun e he => h _ (Or.inr ⟨e, he, rfl⟩)⟩

theorem entWF_empty : EntWF Table.empty := ⟨good_leaf _, fun _ he => by cases he⟩

theorem entWF_set {T : Table} (h : EntWF T) (ks : List Nat) {m : MT} (hm : Good m) : EntWF (T.set ks m) := by
  unfold Table.set
  split
  · exact ⟨hm, h.2⟩
  · refine ⟨h.1, fun e he => ?_⟩
    simp only [setE, List.mem_cons, List.mem_filter] at he
    rcases he with he | ⟨he, _⟩
    · rw [he]; exact hm
    · exact h.2 e he

theorem entWF_addCube {T : Table} (h : EntWF T) (ks : List Nat) {asgn : List (Option Bool)}
    (hl : asgn.length ≤ symbolSize) (p : Nat) : EntWF (addCube T ks asgn p) :=
  entWF_set h ks (good_apply2 _ (entWF_get h ks) (good_construct hl _ _))

theorem entWF_addTransition {T : Table} (h : EntWF T) (ks : List Nat) (f p : Nat) : EntWF (addTransition T ks f p) :=
  entWF_addCube h ks (Nat.le_of_eq (symAsgn_length f)) p

theorem entWF_unionT {T₁ T₂ : Table} (h1 : EntWF T₁) (h2 : EntWF T₂) : EntWF (unionT T₁ T₂) := by
  refine ⟨good_apply2 _ h1.1 h2.1, fun e he => ?_⟩
  simp only [unionT, List.mem_map] at he
  obtain ⟨k, _, hk⟩ := he
  rw [← hk]
  exact good_apply2 _ (good_getE h1.2 k) (good_getE h2.2 k)

theorem entWF_unionDisj {T₁ T₂ : Table} (h1 : EntWF T₁) (h2 : EntWF T₂) : EntWF (unionDisj T₁ T₂) := by
  refine ⟨good_apply2 _ h1.1 h2.1, fun e he => ?_⟩
  simp only [unionDisj, List.mem_append] at he
  rcases he with he | he
  · exact h2.2 e he
  · exact h1.2 e he

theorem entWF_isectAt (tr : Nat × Nat → Nat) {T T₁ T₂ : Table} (h : EntWF T) (h1 : EntWF T₁) (h2 : EntWF T₂)
    (ks₁ ks₂ ks : List Nat) : EntWF (isectAt tr T T₁ T₂ ks₁ ks₂ ks) :=
  entWF_set h ks (good_apply2 _ (entWF_get h1 ks₁) (entWF_get h2 ks₂))

theorem entWF_removeUnreachableBU {T : Table} (h : EntWF T) (final : List Nat) :
    EntWF (removeUnreachableBU T final).1 := by
  refine ⟨h.1, fun e he => ?_⟩
  simp only [removeUnreachableBU, List.mem_filter] at he
  exact h.2 e he.1

theorem entWF_removeUselessBU {T : Table} (h : EntWF T) (final : List Nat) :
    EntWF (removeUselessBU T final).1 := by
  refine ⟨good_apply1 _ h.1, fun e he => ?_⟩
  simp only [removeUselessBU, List.mem_map, List.mem_filter] at he
  obtain ⟨e', ⟨he', _⟩, hee⟩ := he
  rw [← hee]
  exact good_apply1 _ (h.2 e' he')

/-- every table the modelled operations can build has only `Good` MTBDDs stored -/
theorem entWF_built {T : Table} (h : BuiltBU T) : EntWF T := by
  induction h with
  | empty => exact entWF_empty
  | addCube ks asgn p _ hl ih => exact entWF_addCube ih ks hl p
  | unionT _ _ ih1 ih2 => exact entWF_unionT ih1 ih2
  | unionDisj _ _ ih1 ih2 => exact entWF_unionDisj ih1 ih2
  | isectAt tr ks₁ ks₂ ks _ _ _ ih ih1 ih2 => exact entWF_isectAt tr ih ih1 ih2 ks₁ ks₂ ks
  | unreach final _ ih => exact entWF_removeUnreachableBU ih final
  | useless final _ ih => exact entWF_removeUselessBU ih final

theorem built_ofRules (rs : List Rule) : BuiltBU (ofRules rs) := by
  have : ∀ (rs : List Rule) (T : Table), BuiltBU T →
      BuiltBU (rs.foldl (fun T r => addTransition T r.kids r.sym r.parent) T) := by
    intro rs
    induction rs with
    | nil => intro T h; exact h
    | cons r rs ih =>
      intro T h
      rw [List.foldl_cons]
      exact ih _ (BuiltBU.addCube _ _ _ h (Nat.le_of_eq (symAsgn_length _)))
  exact this rs _ BuiltBU.empty

/-! ### the call -/

theorem pairs_good {T : Table} (h : EntWF T) : ∀ e, e ∈ pairs T → Good e.2 := by
  intro e he
  rcases List.mem_cons.mp he with he | he
  · rw [he]; exact h.1
  · exact h.2 e he

/-- what `invertStep` applies the inverter to is `extendedBdd` -/
theorem invertStep_eq (p : Nat) (acc : MTD) (e : List Nat × MT) :
    invertStep p acc e = apply2 (invertLeaf p e.1) (extendedBdd e) acc := rfl

/-- the result of the call is ordered, reduced and uses the variables `< 16 + 6` only -/
theorem extendedBdd_wf {e : List Nat × MT} (he : Good e.2) :
    WF (extendedBdd e) ∧ Below (symbolSize + arityLength) (extendedBdd e) := by
  have h := constructOn_wf (fun x => x + 16) (fun i => by omega) (arAsgn e.1.length) e.2 ([] : List Nat) he.1
    (by simpa [symbolSize] using he.2)
  rw [arAsgn_length] at h
  exact h

theorem getTopDownAut_wf_of_entWF {T : Table} (h : EntWF T) (final : List Nat) :
    TableTDWF (getTopDownAut T final) ∧ TableTDBelow (getTopDownAut T final) := by
  have outer : ∀ (L : List Nat) (R : TableTD), TableTDWF R ∧ TableTDBelow R →
      TableTDWF (L.foldl (fun R p => setTD R p ((pairs T).foldl (invertStep p) (getTD R p))) R) ∧
      TableTDBelow (L.foldl (fun R p => setTD R p ((pairs T).foldl (invertStep p) (getTD R p))) R) := by
    intro L
    induction L with
    | nil => intro R hR; exact hR
    | cons q L ih =>
      intro R hR
      rw [List.foldl_cons]
      exact ih _ (tableTD_set hR _ _ (invert_inner_wf q _ _ ⟨hR.1 q, hR.2 q⟩ (pairs_good h)))
  exact outer _ _ tableTD_nil

/-! ### store level -/

open Vata.RcS Vata.RcSX in
/-- the root of a diagram over the variables `< x` passes the test `vltB x` of `opOk` -/
theorem vltB_of_below {dat : Nat → Vata.R.Data} {x n : Nat} (h : Below x (unfold dat (n+1) n)) : vltB x (dat n) = true := by
  cases hd : dat n with
  | leaf v => rfl
  | int lo hi var =>
    simp only [unfold, hd] at h
    exact decide_eq_true h.1

open Vata.RcS Vata.RcSX in
/-- `opOk` of an `extendWith` whose operand handle holds a diagram over the variables below the offset -/
theorem opOk_extendWith_of_below {s : Store} {a ra : Nat} (dst : Nat) (asgn : List (Option Bool)) {offset : Nat}
    (ha : find a s.hs = some ra) (hb : Below offset (unfold s.dat (ra+1) ra)) :
    opOk s (.extendWith a dst asgn offset) = true := by
  simp only [opOk, ha]
  split
  · rename_i ra' _ h1 _
    cases h1
    exact vltB_of_below hb
  · rfl

end Vata.ExtCall
