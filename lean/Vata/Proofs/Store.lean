import Vata.Store
/-!
# C12 – the three-level rule store refines a pair of sets (proofs for `Vata/Store.lean`)

Main results (for EVERY operation list `ops`):
`store_inv`, `iterate_exact`, `acceptTrans_exact`, `down_exact`, `contains_exact`, `usedStates_exact`, `transEmpty_exact`,
plus `final_exact`, `isFinal_exact`, `downEmpty_exact`, `invB_iff` (the Boolean checker decides the invariant).
-/
namespace Vata.Store

/-! ### association lists with unique keys -/

def KeysNodup {β : Type} (l : List (Nat × β)) : Prop := (l.map Prod.fst).Nodup

theorem keysNodup_nil {β : Type} : KeysNodup ([] : List (Nat × β)) := List.nodup_nil

theorem keysNodup_cons {β : Type} {k : Nat} {v : β} {l : List (Nat × β)} :
    KeysNodup ((k, v) :: l) ↔ (∀ v', (k, v') ∉ l) ∧ KeysNodup l := by
  simp only [KeysNodup, List.map_cons, List.nodup_cons, List.mem_map, not_exists, not_and]
  constructor
  · rintro ⟨h1, h2⟩
    exact ⟨fun v' hm => h1 (k, v') hm rfl, h2⟩
  · rintro ⟨h1, h2⟩
    refine ⟨?_, h2⟩
    rintro ⟨k', v'⟩ hm e
    simp only at e
    subst e
    exact h1 v' hm

theorem lookup_cons' {β : Type} (a k : Nat) (b : β) (l : List (Nat × β)) :
    List.lookup a ((k, b) :: l) = if a = k then some b else List.lookup a l := by
  rw [List.lookup_cons]
  by_cases h : a = k
  · simp [h]
  · have : (a == k) = false := by simpa using h
    simp [this, h]

theorem mem_of_lookup {β : Type} {l : List (Nat × β)} {k : Nat} {v : β} (h : l.lookup k = some v) : (k, v) ∈ l := by
  induction l with
  | nil => simp at h
  | cons kv l ih =>
    obtain ⟨k0, v0⟩ := kv
    rw [lookup_cons'] at h
    split at h
    · rename_i e
      cases h
      rw [e]
      exact List.mem_cons_self
    · exact List.mem_cons_of_mem _ (ih h)

theorem lookup_of_mem {β : Type} {l : List (Nat × β)} (hnd : KeysNodup l) {k : Nat} {v : β} (h : (k, v) ∈ l) :
    l.lookup k = some v := by
  induction l with
  | nil => simp at h
  | cons kv l ih =>
    obtain ⟨k0, v0⟩ := kv
    have hnd' := keysNodup_cons.mp hnd
    rw [lookup_cons']
    rcases List.mem_cons.mp h with e | h'
    · cases e; simp
    · have hne : k ≠ k0 := by
        intro e
        rw [e] at h'
        exact hnd'.1 v h'
      rw [if_neg hne]
      exact ih hnd'.2 h'

theorem mem_iff_lookup {β : Type} {l : List (Nat × β)} (hnd : KeysNodup l) {k : Nat} {v : β} :
    (k, v) ∈ l ↔ l.lookup k = some v := ⟨lookup_of_mem hnd, mem_of_lookup⟩

theorem lookup_upsert {β : Type} (k k' : Nat) (g : Option β → β) (l : List (Nat × β)) :
    (upsert k g l).lookup k' = if k' = k then some (g (l.lookup k)) else l.lookup k' := by
  induction l with
  | nil => simp [upsert, lookup_cons']
  | cons kv l ih =>
    obtain ⟨k0, v0⟩ := kv
    simp only [upsert]
    split
    · rename_i h; subst h
      simp only [lookup_cons']
      split <;> simp_all
    · rename_i h
      simp only [lookup_cons', ih]
      have h' : ¬ k = k0 := fun e => h e.symm
      by_cases e1 : k' = k
      · subst e1; simp [h']
      · simp [e1]

theorem mem_keys_upsert {β : Type} (k k' : Nat) (g : Option β → β) (l : List (Nat × β)) :
    k' ∈ (upsert k g l).map Prod.fst ↔ k' ∈ l.map Prod.fst ∨ k' = k := by
  induction l with
  | nil => simp [upsert]
  | cons kv l ih =>
    obtain ⟨k0, v0⟩ := kv
    simp only [upsert]
    split
    · rename_i h
      simp only [List.map_cons, List.mem_cons]
      constructor
      · exact Or.inl
      · rintro (h' | h')
        · exact h'
        · left; rw [h', h]
    · simp only [List.map_cons, List.mem_cons, ih]
      constructor
      · rintro (h' | h' | h')
        · exact Or.inl (Or.inl h')
        · exact Or.inl (Or.inr h')
        · exact Or.inr h'
      · rintro ((h' | h') | h')
        · exact Or.inl h'
        · exact Or.inr (Or.inl h')
        · exact Or.inr (Or.inr h')

theorem keysNodup_upsert {β : Type} (k : Nat) (g : Option β → β) {l : List (Nat × β)} (hnd : KeysNodup l) :
    KeysNodup (upsert k g l) := by
  induction l with
  | nil => simp [upsert, KeysNodup]
  | cons kv l ih =>
    obtain ⟨k0, v0⟩ := kv
    have hnd' : k0 ∉ l.map Prod.fst ∧ KeysNodup l := by
      simpa only [KeysNodup, List.map_cons, List.nodup_cons] using hnd
    simp only [upsert]
    split
    · simpa only [KeysNodup, List.map_cons, List.nodup_cons] using hnd'
    · rename_i h
      simp only [KeysNodup, List.map_cons, List.nodup_cons]
      refine ⟨?_, ih hnd'.2⟩
      rw [mem_keys_upsert]
      rintro (h' | h')
      · exact hnd'.1 h'
      · exact h h'

theorem forall_upsert {β : Type} {P : β → Prop} (k : Nat) (g : Option β → β) {l : List (Nat × β)}
    (h0 : P (g none)) (h1 : ∀ v, P v → P (g (some v))) (hl : ∀ kv, kv ∈ l → P kv.2) :
    ∀ kv, kv ∈ upsert k g l → P kv.2 := by
  induction l with
  | nil =>
    intro kv hkv
    simp only [upsert, List.mem_singleton] at hkv
    rw [hkv]; exact h0
  | cons kv0 l ih =>
    obtain ⟨k0, v0⟩ := kv0
    intro kv hkv
    simp only [upsert] at hkv
    split at hkv
    · rcases List.mem_cons.mp hkv with e | h'
      · rw [e]; exact h1 v0 (hl (k0, v0) List.mem_cons_self)
      · exact hl kv (List.mem_cons_of_mem _ h')
    · rcases List.mem_cons.mp hkv with e | h'
      · rw [e]; exact hl (k0, v0) List.mem_cons_self
      · exact ih (fun kv h => hl kv (List.mem_cons_of_mem _ h)) kv h'

theorem upsert_ne_nil {β : Type} (k : Nat) (g : Option β → β) (l : List (Nat × β)) : upsert k g l ≠ [] := by
  cases l with
  | nil => simp [upsert]
  | cons kv l =>
    obtain ⟨k0, v0⟩ := kv
    simp only [upsert]
    split <;> simp

/-! ### duplicate-free insertion -/

theorem mem_insG {α : Type} [BEq α] [LawfulBEq α] (x y : α) (l : List α) :
    y ∈ (if l.contains x then l else l ++ [x]) ↔ y ∈ l ∨ y = x := by
  split
  · rename_i h
    rw [List.contains_iff_mem] at h
    constructor
    · exact Or.inl
    · rintro (h' | h')
      · exact h'
      · rw [h']; exact h
  · simp [List.mem_append]

theorem nodup_insG {α : Type} [BEq α] [LawfulBEq α] (x : α) {l : List α} (hl : l.Nodup) :
    (if l.contains x then l else l ++ [x]).Nodup := by
  split
  · exact hl
  · rename_i h
    rw [List.contains_iff_mem] at h
    rw [List.nodup_append]
    refine ⟨hl, by simp, ?_⟩
    intro a ha b hb
    simp only [List.mem_singleton] at hb
    intro e
    rw [e, hb] at ha
    exact h ha

theorem mem_insTuple {t t' : List Nat} {ts : TupleSet} : t' ∈ insTuple t ts ↔ t' ∈ ts ∨ t' = t := mem_insG t t' ts
theorem nodup_insTuple (t : List Nat) {ts : TupleSet} (h : ts.Nodup) : (insTuple t ts).Nodup := nodup_insG t h
theorem insTuple_ne_nil (t : List Nat) (ts : TupleSet) : insTuple t ts ≠ [] := by
  intro h
  have : t ∈ insTuple t ts := mem_insTuple.mpr (Or.inr rfl)
  rw [h] at this
  simp at this

theorem mem_insN {x y : Nat} {l : List Nat} : y ∈ insN x l ↔ y ∈ l ∨ y = x := mem_insG x y l
theorem nodup_insN (x : Nat) {l : List Nat} (h : l.Nodup) : (insN x l).Nodup := nodup_insG x h

theorem mem_foldl_insN {x : Nat} (l init : List Nat) :
    x ∈ l.foldl (fun acc q => insN q acc) init ↔ x ∈ init ∨ x ∈ l := by
  induction l generalizing init with
  | nil => simp
  | cons y l ih =>
    rw [List.foldl_cons, ih, mem_insN, List.mem_cons]
    constructor
    · rintro ((h | h) | h)
      · exact Or.inl h
      · exact Or.inr (Or.inl h)
      · exact Or.inr (Or.inr h)
    · rintro (h | h | h)
      · exact Or.inl (Or.inl h)
      · exact Or.inl (Or.inr h)
      · exact Or.inr h

theorem nodup_foldl_insN (l : List Nat) {init : List Nat} (h : init.Nodup) :
    (l.foldl (fun acc q => insN q acc) init).Nodup := by
  induction l generalizing init with
  | nil => exact h
  | cons y l ih => rw [List.foldl_cons]; exact ih (nodup_insN y h)

/-! ### the representation invariant -/

/-- symbol keys unique, at least one symbol, no empty tuple set, no duplicate tuple -/
structure ClusterInv (c : Cluster) : Prop where
  keys : KeysNodup c
  nonempty : c ≠ []
  tuples : ∀ ft, ft ∈ c → ft.2 ≠ [] ∧ ft.2.Nodup

/-- state keys unique, every cluster well formed, the final-state set has no duplicates -/
structure Inv (s : Store) : Prop where
  keys : KeysNodup s.clusters
  clusters : ∀ qc, qc ∈ s.clusters → ClusterInv qc.2
  final : s.final.Nodup

theorem inv_empty : Inv empty := ⟨keysNodup_nil, by intro qc h; simp [empty] at h, List.nodup_nil⟩

theorem addToCluster_inv (f : Nat) (t : List Nat) {c : Cluster} (hk : KeysNodup c)
    (ht : ∀ ft, ft ∈ c → ft.2 ≠ [] ∧ ft.2.Nodup) : ClusterInv (addToCluster f t c) := by
  refine ⟨keysNodup_upsert _ _ hk, upsert_ne_nil _ _ _, ?_⟩
  apply forall_upsert (P := fun ts : TupleSet => ts ≠ [] ∧ ts.Nodup)
  · exact ⟨insTuple_ne_nil _ _, nodup_insTuple _ List.nodup_nil⟩
  · intro ts hts
    exact ⟨insTuple_ne_nil _ _, nodup_insTuple _ hts.2⟩
  · exact ht

theorem inv_addTransition {s : Store} (h : Inv s) (r : Rule) : Inv (addTransition s r) := by
  refine ⟨keysNodup_upsert _ _ h.keys, ?_, h.final⟩
  apply forall_upsert (P := ClusterInv)
  · exact addToCluster_inv _ _ keysNodup_nil (by intro ft hft; simp at hft)
  · intro c hc
    exact addToCluster_inv _ _ hc.keys hc.tuples
  · exact h.clusters

theorem inv_step {s : Store} (h : Inv s) (op : Op) : Inv (step s op) := by
  cases op with
  | add r => exact inv_addTransition h r
  | setFinal q => exact ⟨h.keys, h.clusters, nodup_insN q h.final⟩
  | setFinals qs => exact ⟨h.keys, h.clusters, nodup_foldl_insN qs h.final⟩
  | eraseFinal => exact ⟨h.keys, h.clusters, List.nodup_nil⟩
  | clear => exact inv_empty

theorem inv_foldl {s : Store} (h : Inv s) (ops : List Op) : Inv (ops.foldl step s) := by
  induction ops generalizing s with
  | nil => exact h
  | cons op ops ih => exact ih (inv_step h op)

/-! ### lookups with default (what `uniqueCluster` / `uniqueTuplePtrSet` start from) -/

def clusterOf (s : Store) (q : Nat) : Cluster := (s.clusters.lookup q).getD []
def tuplesOf (c : Cluster) (f : Nat) : TupleSet := (c.lookup f).getD []

theorem contains_eq (s : Store) (r : Rule) :
    contains s r = (tuplesOf (clusterOf s r.parent) r.sym).contains r.kids := by
  unfold contains clusterOf tuplesOf
  cases s.clusters.lookup r.parent with
  | none => simp
  | some c =>
    simp only [Option.getD_some]
    cases c.lookup r.sym with
    | none => simp
    | some ts => simp

theorem tuplesOf_addToCluster (f f' : Nat) (t : List Nat) (c : Cluster) :
    tuplesOf (addToCluster f t c) f' = if f' = f then insTuple t (tuplesOf c f) else tuplesOf c f' := by
  unfold tuplesOf addToCluster
  rw [lookup_upsert]
  split <;> simp

theorem clusterOf_addTransition (s : Store) (r : Rule) (q : Nat) :
    clusterOf (addTransition s r) q =
      if q = r.parent then addToCluster r.sym r.kids (clusterOf s r.parent) else clusterOf s q := by
  unfold clusterOf addTransition addToMap
  simp only [lookup_upsert]
  split <;> simp

theorem contains_addTransition (s : Store) (r r' : Rule) :
    contains (addTransition s r) r' = true ↔ contains s r' = true ∨ r' = r := by
  rw [contains_eq, contains_eq, clusterOf_addTransition]
  by_cases hp : r'.parent = r.parent
  · rw [if_pos hp, tuplesOf_addToCluster]
    by_cases hs : r'.sym = r.sym
    · rw [if_pos hs, List.contains_iff_mem, mem_insTuple, List.contains_iff_mem, hp, hs]
      constructor
      · rintro (h | h)
        · exact Or.inl h
        · right
          cases r; cases r'; simp_all
      · rintro (h | h)
        · exact Or.inl h
        · right; rw [h]
    · rw [if_neg hs, hp]
      constructor
      · exact Or.inl
      · rintro (h | h)
        · exact h
        · exact absurd (by rw [h]) hs
  · rw [if_neg hp]
    constructor
    · exact Or.inl
    · rintro (h | h)
      · exact h
      · exact absurd (by rw [h]) hp

/-! ### membership in the flattening -/

theorem mem_flatCluster {q : Nat} {c : Cluster} {r : Rule} :
    r ∈ flatCluster q c ↔ r.parent = q ∧ ∃ ts, (r.sym, ts) ∈ c ∧ r.kids ∈ ts := by
  simp only [flatCluster, List.mem_flatMap, List.mem_map]
  constructor
  · rintro ⟨⟨f, ts⟩, hft, t, ht, e⟩
    subst e
    exact ⟨rfl, ts, hft, ht⟩
  · rintro ⟨hq, ts, hft, ht⟩
    refine ⟨(r.sym, ts), hft, r.kids, ht, ?_⟩
    cases r; simp_all

theorem mem_iterate {s : Store} {r : Rule} :
    r ∈ iterate s ↔ ∃ c, (r.parent, c) ∈ s.clusters ∧ ∃ ts, (r.sym, ts) ∈ c ∧ r.kids ∈ ts := by
  simp only [iterate, List.mem_flatMap, mem_flatCluster]
  constructor
  · rintro ⟨⟨q, c⟩, hqc, hq, h⟩
    simp only at hq h
    subst hq
    exact ⟨c, hqc, h⟩
  · rintro ⟨c, hqc, h⟩
    exact ⟨(r.parent, c), hqc, rfl, h⟩

theorem contains_iff_mem_iterate {s : Store} (h : Inv s) (r : Rule) : contains s r = true ↔ r ∈ iterate s := by
  rw [mem_iterate]
  unfold contains
  constructor
  · intro hc
    split at hc
    · cases hc
    · rename_i c hl
      have hm := mem_of_lookup hl
      refine ⟨c, hm, ?_⟩
      split at hc
      · cases hc
      · rename_i ts hl2
        exact ⟨ts, mem_of_lookup hl2, List.contains_iff_mem.mp hc⟩
  · rintro ⟨c, hm, ts, hm2, ht⟩
    rw [lookup_of_mem h.keys hm]
    simp only
    rw [lookup_of_mem (h.clusters _ hm).keys hm2]
    simp only
    exact List.contains_iff_mem.mpr ht

/-! ### every rule is yielded once -/

theorem nodup_flatCluster (q : Nat) {c : Cluster} (hk : KeysNodup c) (ht : ∀ ft, ft ∈ c → ft.2.Nodup) :
    (flatCluster q c).Nodup := by
  unfold flatCluster
  rw [List.nodup_iff_pairwise_ne, List.pairwise_flatMap]
  constructor
  · intro ft hft
    rw [List.pairwise_map]
    have := List.nodup_iff_pairwise_ne.mp (ht ft hft)
    apply List.Pairwise.imp _ this
    intro a b hab e
    apply hab
    injection e
  · have hk' : List.Pairwise (fun a b : Nat × TupleSet => a.1 ≠ b.1) c := by
      have := List.nodup_iff_pairwise_ne.mp hk
      rwa [List.pairwise_map] at this
    apply List.Pairwise.imp _ hk'
    intro a b hab x hx y hy e
    simp only [List.mem_map] at hx hy
    obtain ⟨t1, _, e1⟩ := hx
    obtain ⟨t2, _, e2⟩ := hy
    apply hab
    rw [← e1, ← e2] at e
    injection e

theorem nodup_iterate {s : Store} (h : Inv s) : (iterate s).Nodup := by
  unfold iterate
  rw [List.nodup_iff_pairwise_ne, List.pairwise_flatMap]
  constructor
  · intro qc hqc
    have hc := h.clusters qc hqc
    exact List.nodup_iff_pairwise_ne.mp (nodup_flatCluster qc.1 hc.keys (fun ft hft => (hc.tuples ft hft).2))
  · have hk' : List.Pairwise (fun a b : Nat × Cluster => a.1 ≠ b.1) s.clusters := by
      have := List.nodup_iff_pairwise_ne.mp h.keys
      rwa [List.pairwise_map] at this
    apply List.Pairwise.imp _ hk'
    intro a b hab x hx y hy e
    apply hab
    rw [← (mem_flatCluster.mp hx).1, ← (mem_flatCluster.mp hy).1, e]

/-! ### the other views in terms of `iterate` -/

theorem mem_down {s : Store} (h : Inv s) {q : Nat} {r : Rule} : r ∈ down s q ↔ r ∈ iterate s ∧ r.parent = q := by
  unfold down
  rw [mem_iterate]
  split
  · rename_i hl
    constructor
    · intro hr; simp at hr
    · rintro ⟨⟨c, hm, _⟩, hq⟩
      rw [← hq, lookup_of_mem h.keys hm] at hl
      cases hl
  · rename_i c hl
    rw [mem_flatCluster]
    constructor
    · rintro ⟨hq, hts⟩
      refine ⟨⟨c, ?_, hts⟩, hq⟩
      rw [hq]; exact mem_of_lookup hl
    · rintro ⟨⟨c', hm, hts⟩, hq⟩
      rw [← hq, lookup_of_mem h.keys hm] at hl
      cases hl
      exact ⟨hq, hts⟩

theorem nodup_down {s : Store} (h : Inv s) (q : Nat) : (down s q).Nodup := by
  unfold down
  split
  · exact List.nodup_nil
  · rename_i c hl
    have hc := h.clusters _ (mem_of_lookup hl)
    exact nodup_flatCluster q hc.keys (fun ft hft => (hc.tuples ft hft).2)

theorem downEmpty_iff {s : Store} (h : Inv s) (q : Nat) : downEmpty s q = true ↔ ∀ r, r ∈ iterate s → r.parent ≠ q := by
  unfold downEmpty
  constructor
  · intro hn r hr hq
    obtain ⟨c, hm, _⟩ := mem_iterate.mp hr
    rw [← hq, lookup_of_mem h.keys hm] at hn
    cases hn
  · intro hall
    cases hl : s.clusters.lookup q with
    | none => rfl
    | some c =>
      exfalso
      have hm := mem_of_lookup hl
      have hc := h.clusters _ hm
      cases hcc : c with
      | nil => exact hc.nonempty hcc
      | cons ft c' =>
        obtain ⟨f, ts⟩ := ft
        have hft : (f, ts) ∈ c := by rw [hcc]; exact List.mem_cons_self
        cases hts : ts with
        | nil => exact (hc.tuples _ hft).1 hts
        | cons t ts' =>
          have ht : t ∈ ts := by rw [hts]; exact List.mem_cons_self
          exact hall ⟨f, t, q⟩ (mem_iterate.mpr ⟨c, hm, ts, hft, ht⟩) rfl

theorem mem_acceptTrans {s : Store} (h : Inv s) {r : Rule} :
    r ∈ acceptTrans s ↔ r ∈ iterate s ∧ r.parent ∈ s.final := by
  simp only [acceptTrans, List.mem_flatMap, mem_down h]
  constructor
  · rintro ⟨q, hq, hr, e⟩
    rw [e]; exact ⟨hr, hq⟩
  · rintro ⟨hr, hq⟩
    exact ⟨r.parent, hq, hr, rfl⟩

theorem nodup_acceptTrans {s : Store} (h : Inv s) : (acceptTrans s).Nodup := by
  unfold acceptTrans
  rw [List.nodup_iff_pairwise_ne, List.pairwise_flatMap]
  constructor
  · intro q _
    exact List.nodup_iff_pairwise_ne.mp (nodup_down h q)
  · apply List.Pairwise.imp _ (List.nodup_iff_pairwise_ne.mp h.final)
    intro a b hab x hx y hy e
    apply hab
    rw [← ((mem_down h).mp hx).2, ← ((mem_down h).mp hy).2, e]

theorem mem_foldl_rules {x : Nat} (rs : List Rule) (init : List Nat) :
    x ∈ rs.foldl (fun acc r => insN r.parent (r.kids.foldl (fun a y => insN y a) acc)) init ↔
      x ∈ init ∨ ∃ r, r ∈ rs ∧ (x = r.parent ∨ x ∈ r.kids) := by
  induction rs generalizing init with
  | nil => simp
  | cons r rs ih =>
    rw [List.foldl_cons, ih, mem_insN, mem_foldl_insN]
    constructor
    · rintro (((h | h) | h) | ⟨r', hr', h⟩)
      · exact Or.inl h
      · exact Or.inr ⟨r, List.mem_cons_self, Or.inr h⟩
      · exact Or.inr ⟨r, List.mem_cons_self, Or.inl h⟩
      · exact Or.inr ⟨r', List.mem_cons_of_mem _ hr', h⟩
    · rintro (h | ⟨r', hr', h⟩)
      · exact Or.inl (Or.inl (Or.inl h))
      · rcases List.mem_cons.mp hr' with e | hr''
        · rw [e] at h
          rcases h with h | h
          · exact Or.inl (Or.inr h)
          · exact Or.inl (Or.inl (Or.inr h))
        · exact Or.inr ⟨r', hr'', h⟩

theorem nodup_foldl_rules (rs : List Rule) {init : List Nat} (h : init.Nodup) :
    (rs.foldl (fun acc r => insN r.parent (r.kids.foldl (fun a y => insN y a) acc)) init).Nodup := by
  induction rs generalizing init with
  | nil => exact h
  | cons r rs ih =>
    rw [List.foldl_cons]
    exact ih (nodup_insN _ (nodup_foldl_insN _ h))

theorem mem_usedStates {s : Store} {x : Nat} :
    x ∈ usedStates s ↔ x ∈ s.final ∨ ∃ r, r ∈ iterate s ∧ (x = r.parent ∨ x ∈ r.kids) := by
  unfold usedStates
  simp only
  rw [mem_foldl_insN, mem_foldl_rules]
  constructor
  · rintro ((h | h) | h)
    · simp at h
    · exact Or.inr h
    · exact Or.inl h
  · rintro (h | h)
    · exact Or.inr h
    · exact Or.inl (Or.inr h)

theorem nodup_usedStates (s : Store) : (usedStates s).Nodup := by
  unfold usedStates
  exact nodup_foldl_insN _ (nodup_foldl_rules _ List.nodup_nil)

theorem transEmpty_iff {s : Store} (h : Inv s) : transEmpty s = true ↔ iterate s = [] := by
  unfold transEmpty
  constructor
  · intro he
    have : s.clusters = [] := by simpa using he
    simp [iterate, this]
  · intro he
    cases hcl : s.clusters with
    | nil => rfl
    | cons qc m =>
      exfalso
      obtain ⟨q, c⟩ := qc
      have hm : (q, c) ∈ s.clusters := by rw [hcl]; exact List.mem_cons_self
      have hc := h.clusters _ hm
      cases hcc : c with
      | nil => exact hc.nonempty hcc
      | cons ft c' =>
        obtain ⟨f, ts⟩ := ft
        have hft : (f, ts) ∈ c := by rw [hcc]; exact List.mem_cons_self
        cases hts : ts with
        | nil => exact (hc.tuples _ hft).1 hts
        | cons t ts' =>
          have ht : t ∈ ts := by rw [hts]; exact List.mem_cons_self
          have : (⟨f, t, q⟩ : Rule) ∈ iterate s := mem_iterate.mpr ⟨c, hm, ts, hft, ht⟩
          rw [he] at this
          simp at this

/-! ### refinement of the specification -/

/-- the store `s` represents the pair of sets `a` -/
structure Refines (s : Store) (a : Abs) : Prop where
  inv : Inv s
  rules : ∀ r, r ∈ iterate s ↔ r ∈ a.rules
  final : ∀ q, q ∈ s.final ↔ q ∈ a.final

theorem refines_empty : Refines empty ⟨[], []⟩ :=
  ⟨inv_empty, by intro r; simp [empty, iterate], by intro q; simp [empty]⟩

theorem mem_iterate_addTransition {s : Store} (h : Inv s) (r r' : Rule) :
    r' ∈ iterate (addTransition s r) ↔ r' ∈ iterate s ∨ r' = r := by
  rw [← contains_iff_mem_iterate (inv_addTransition h r), ← contains_iff_mem_iterate h, contains_addTransition]

theorem refines_step {s : Store} {a : Abs} (h : Refines s a) (op : Op) : Refines (step s op) (specStep a op) := by
  refine ⟨inv_step h.inv op, ?_, ?_⟩
  · intro r'
    cases op with
    | add r =>
      simp only [step, specStep, List.mem_cons]
      rw [mem_iterate_addTransition h.inv, h.rules]
      exact Or.comm
    | setFinal q => exact h.rules r'
    | setFinals qs => exact h.rules r'
    | eraseFinal => exact h.rules r'
    | clear => simp [step, specStep, clear, iterate]
  · intro q'
    cases op with
    | add r => exact h.final q'
    | setFinal q =>
      simp only [step, specStep, setFinal, List.mem_cons]
      rw [mem_insN, h.final]
      exact Or.comm
    | setFinals qs =>
      simp only [step, specStep, setFinals, List.mem_append]
      rw [mem_foldl_insN, h.final]
      exact Or.comm
    | eraseFinal => simp [step, specStep, eraseFinal]
    | clear => simp [step, specStep, clear]

theorem refines_foldl {s : Store} {a : Abs} (h : Refines s a) (ops : List Op) :
    Refines (ops.foldl step s) (ops.foldl specStep a) := by
  induction ops generalizing s a with
  | nil => exact h
  | cons op ops ih => exact ih (refines_step h op)

theorem refines_run (ops : List Op) : Refines (run ops) (specRun ops) := refines_foldl refines_empty ops

/-! ### main theorems: every operation history -/

/-- keys unique at both levels, no empty cluster, no empty tuple set, no duplicate tuple (and no duplicate final state) -/
theorem store_inv (ops : List Op) : Inv (run ops) := (refines_run ops).inv

theorem iterate_exact (ops : List Op) :
    (iterate (run ops)).Nodup ∧ ∀ r, r ∈ iterate (run ops) ↔ r ∈ (specRun ops).rules :=
  ⟨nodup_iterate (store_inv ops), (refines_run ops).rules⟩

theorem final_exact (ops : List Op) :
    (run ops).final.Nodup ∧ ∀ q, q ∈ (run ops).final ↔ q ∈ (specRun ops).final :=
  ⟨(store_inv ops).final, (refines_run ops).final⟩

theorem isFinal_exact (ops : List Op) (q : Nat) : isFinal (run ops) q = true ↔ q ∈ (specRun ops).final := by
  unfold isFinal
  rw [List.contains_iff_mem]
  exact (refines_run ops).final q

theorem acceptTrans_exact (ops : List Op) :
    (acceptTrans (run ops)).Nodup ∧
      ∀ r, r ∈ acceptTrans (run ops) ↔ r ∈ (specRun ops).rules ∧ r.parent ∈ (specRun ops).final := by
  have h := refines_run ops
  refine ⟨nodup_acceptTrans h.inv, ?_⟩
  intro r
  rw [mem_acceptTrans h.inv, h.rules, h.final]

theorem down_exact (ops : List Op) (q : Nat) :
    (down (run ops) q).Nodup ∧ ∀ r, r ∈ down (run ops) q ↔ r ∈ (specRun ops).rules ∧ r.parent = q := by
  have h := refines_run ops
  refine ⟨nodup_down h.inv q, ?_⟩
  intro r
  rw [mem_down h.inv, h.rules]

theorem downEmpty_exact (ops : List Op) (q : Nat) :
    downEmpty (run ops) q = true ↔ ∀ r, r ∈ (specRun ops).rules → r.parent ≠ q := by
  have h := refines_run ops
  rw [downEmpty_iff h.inv]
  constructor
  · intro hh r hr; exact hh r ((h.rules r).mpr hr)
  · intro hh r hr; exact hh r ((h.rules r).mp hr)

theorem contains_exact (ops : List Op) (r : Rule) : contains (run ops) r = true ↔ r ∈ (specRun ops).rules := by
  have h := refines_run ops
  rw [contains_iff_mem_iterate h.inv, h.rules]

theorem usedStates_exact (ops : List Op) :
    (usedStates (run ops)).Nodup ∧
      ∀ q, q ∈ usedStates (run ops) ↔
        q ∈ (specRun ops).final ∨ ∃ r, r ∈ (specRun ops).rules ∧ (q = r.parent ∨ q ∈ r.kids) := by
  have h := refines_run ops
  refine ⟨nodup_usedStates _, ?_⟩
  intro q
  rw [mem_usedStates, h.final]
  constructor
  · rintro (hq | ⟨r, hr, hq⟩)
    · exact Or.inl hq
    · exact Or.inr ⟨r, (h.rules r).mp hr, hq⟩
  · rintro (hq | ⟨r, hr, hq⟩)
    · exact Or.inl hq
    · exact Or.inr ⟨r, (h.rules r).mpr hr, hq⟩

theorem transEmpty_exact (ops : List Op) : transEmpty (run ops) = true ↔ (specRun ops).rules = [] := by
  have h := refines_run ops
  rw [transEmpty_iff h.inv]
  constructor
  · intro he
    cases hr : (specRun ops).rules with
    | nil => rfl
    | cons r rs =>
      have : r ∈ iterate (run ops) := (h.rules r).mpr (by rw [hr]; exact List.mem_cons_self)
      rw [he] at this
      simp at this
  · intro he
    cases hr : iterate (run ops) with
    | nil => rfl
    | cons r rs =>
      have : r ∈ (specRun ops).rules := (h.rules r).mp (by rw [hr]; exact List.mem_cons_self)
      rw [he] at this
      simp at this

/-! ### the Boolean checker decides the invariant -/

theorem keysNodupB_iff {β : Type} (l : List (Nat × β)) : keysNodupB l = true ↔ KeysNodup l := by
  induction l with
  | nil => simp [keysNodupB, KeysNodup]
  | cons kv l ih =>
    obtain ⟨k, v⟩ := kv
    simp only [keysNodupB, Bool.and_eq_true, ih, KeysNodup, List.map_cons, List.nodup_cons]
    apply and_congr_left'
    simp only [Bool.not_eq_true', List.any_eq_false, beq_iff_eq, List.mem_map, not_exists, not_and]

theorem nodupB_iff (ts : List (List Nat)) : nodupB ts = true ↔ ts.Nodup := by
  induction ts with
  | nil => simp [nodupB]
  | cons t ts ih =>
    simp only [nodupB, Bool.and_eq_true, ih, List.nodup_cons, Bool.not_eq_true', ← Bool.not_eq_true,
      List.contains_iff_mem]

theorem nodupNB_iff (l : List Nat) : nodupNB l = true ↔ l.Nodup := by
  induction l with
  | nil => simp [nodupNB]
  | cons t ts ih =>
    simp only [nodupNB, Bool.and_eq_true, ih, List.nodup_cons, Bool.not_eq_true', ← Bool.not_eq_true,
      List.contains_iff_mem]

theorem clusterInvB_iff (c : Cluster) : clusterInvB c = true ↔ ClusterInv c := by
  simp only [clusterInvB, Bool.and_eq_true, keysNodupB_iff, List.all_eq_true, nodupB_iff, Bool.not_eq_true',
    List.isEmpty_eq_false_iff]
  constructor
  · rintro ⟨⟨h1, h2⟩, h3⟩
    exact ⟨h1, h2, h3⟩
  · rintro ⟨h1, h2, h3⟩
    exact ⟨⟨h1, h2⟩, h3⟩

theorem invB_iff (s : Store) : invB s = true ↔ Inv s := by
  simp only [invB, Bool.and_eq_true, keysNodupB_iff, List.all_eq_true, clusterInvB_iff, nodupNB_iff]
  constructor
  · rintro ⟨⟨h1, h2⟩, h3⟩
    exact ⟨h1, h2, h3⟩
  · rintro ⟨h1, h2, h3⟩
    exact ⟨⟨h1, h2⟩, h3⟩

/-! ### non-vacuity: a concrete history (one symbol with tuples of different lengths, re-insertion, clear, finals) -/
namespace StoreEx

def r1 : Rule := ⟨7, [], 1⟩
def r2 : Rule := ⟨7, [1, 1], 1⟩       -- same symbol number, other arity, same cluster
def r3 : Rule := ⟨8, [1, 2], 2⟩
def r4 : Rule := ⟨7, [2], 3⟩

def ops1 : List Op :=
  [.add r1, .setFinal 2, .add r2, .add r3, .add r1, .setFinals [3, 2, 5], .add r4, .add r3]

example : run ops1 =
    ⟨[(1, [(7, [[], [1, 1]])]), (2, [(8, [[1, 2]])]), (3, [(7, [[2]])])], [2, 3, 5]⟩ := by decide
example : iterate (run ops1) = [r1, r2, r3, r4] := by decide
example : acceptTrans (run ops1) = [r3, r4] := by decide
example : down (run ops1) 1 = [r1, r2] ∧ down (run ops1) 4 = [] := by decide
example : contains (run ops1) r2 = true ∧ contains (run ops1) ⟨7, [1], 1⟩ = false := by decide
example : usedStates (run ops1) = [1, 2, 3, 5] := by decide
example : invB (run ops1) = true := by decide
example : Inv (run ops1) := store_inv ops1
example : transEmpty (run ops1) = false ∧ transEmpty (run (ops1 ++ [.clear])) = true := by decide
/-- `Clear` also forgets the final states, `EraseFinalStates` keeps the rules -/
example : run (ops1 ++ [.clear, .add r4]) = ⟨[(3, [(7, [[2]])])], []⟩ := by decide
example : (run (ops1 ++ [.eraseFinal])).final = [] ∧ iterate (run (ops1 ++ [.eraseFinal])) = [r1, r2, r3, r4] := by
  decide
/-- the invariant is not trivial: these stores violate it (duplicate key / empty cluster / empty tuple set / duplicate tuple) -/
example : invB ⟨[(1, [(7, [[]])]), (1, [(8, [[]])])], []⟩ = false ∧ invB ⟨[(1, [])], []⟩ = false ∧
    invB ⟨[(1, [(7, [])])], []⟩ = false ∧ invB ⟨[(1, [(7, [[2], [2]])])], []⟩ = false := by decide
/-- without the invariant the iterator would yield a rule twice -/
example : iterate ⟨[(1, [(7, [[2], [2]])])], []⟩ = [⟨7, [2], 1⟩, ⟨7, [2], 1⟩] := by decide

end StoreEx

end Vata.Store
