import Vata.Proofs.CowHeapFA3
import Vata.Proofs.NfaStart
import Vata.Proofs.Store
/-!
# What the values of the finite-automaton heap model denote (proofs for `Vata/CowHeapFA.lean`, property C11) – part 1

`NEquiv A B`: two automata with start symbols are the same up to list order – the same SETS of start states, final states and
transitions, and the same start-symbol map as a function (`smFind`).  The language depends on this only (`NEquiv.lang`).

This file: `vAdd`, `vReverse`, `vUnionDisj`, `vReindex` denote `nfasAddTrans`, `nfasReverse`, `nfasUnionDisjoint`,
`nfasUnionDisjoint d (nfasMap idx s)`; the representation invariant `WFV` and its preservation.
-/
namespace Vata.CowHeapFA

open Vata Vata.W Vata.NfaS
open Vata.Store (Cluster upsert insTuple addToCluster addToMap KeysNodup)
open Vata.CowHeap (Val)
open Vata.CowHeapX (missing mem_missing)

/-! ### equality up to list order -/

/-- the same automaton up to the order (and multiplicity) of the lists; the start-symbol maps agree as functions -/
structure NEquiv (A B : NFAS) : Prop where
  start : ∀ q, q ∈ A.start ↔ q ∈ B.start
  final : ∀ q, q ∈ A.final ↔ q ∈ B.final
  trans : ∀ e, e ∈ A.trans ↔ e ∈ B.trans
  syms : ∀ q, smFind A.startSyms q = smFind B.startSyms q

theorem NEquiv.refl (A : NFAS) : NEquiv A A := ⟨fun _ => Iff.rfl, fun _ => Iff.rfl, fun _ => Iff.rfl, fun _ => rfl⟩
theorem NEquiv.symm {A B : NFAS} (h : NEquiv A B) : NEquiv B A :=
  ⟨fun q => (h.start q).symm, fun q => (h.final q).symm, fun e => (h.trans e).symm, fun q => (h.syms q).symm⟩
theorem NEquiv.trans' {A B C : NFAS} (h : NEquiv A B) (h' : NEquiv B C) : NEquiv A C :=
  ⟨fun q => (h.start q).trans (h'.start q), fun q => (h.final q).trans (h'.final q),
    fun e => (h.trans e).trans (h'.trans e), fun q => (h.syms q).trans (h'.syms q)⟩
theorem NEquiv.of_eq {A B : NFAS} (h : A = B) : NEquiv A B := h ▸ NEquiv.refl A

theorem NEquiv.path {A B : NFAS} (h : NEquiv A B) {p q : Nat} {w : List Nat} :
    Path A.toNFA p w q ↔ Path B.toNFA p w q :=
  ⟨Path.mono (fun e he => (h.trans e).mp he), Path.mono (fun e he => (h.trans e).mpr he)⟩

/-- the language depends on the sets only -/
theorem NEquiv.lang {A B : NFAS} (h : NEquiv A B) (w : List Nat) : acceptsW A.toNFA w = acceptsW B.toNFA w := by
  rw [Bool.eq_iff_iff, acceptsW_iff, acceptsW_iff]
  constructor
  · rintro ⟨s, hs, q, hq, hp⟩; exact ⟨s, (h.start s).mp hs, q, (h.final q).mp hq, h.path.mp hp⟩
  · rintro ⟨s, hs, q, hq, hp⟩; exact ⟨s, (h.start s).mpr hs, q, (h.final q).mpr hq, h.path.mpr hp⟩

theorem NEquiv.symsOf {A B : NFAS} (h : NEquiv A B) (q : Nat) : A.symsOf q = B.symsOf q := by
  simp only [NFAS.symsOf, smGet, h.syms q]

theorem NEquiv.reach {A B : NFAS} (h : NEquiv A B) (q : Nat) : NfaReach A.toNFA q ↔ NfaReach B.toNFA q := by
  constructor
  · rintro ⟨s, hs, w, hp⟩; exact ⟨s, (h.start s).mp hs, w, h.path.mp hp⟩
  · rintro ⟨s, hs, w, hp⟩; exact ⟨s, (h.start s).mpr hs, w, h.path.mpr hp⟩

/-! ### the start-symbol map -/

theorem smFind_smInsert (m : SymMap) (q : Nat) (S : List Nat) (p : Nat) :
    smFind (smInsert m q S) p =
      match smFind m p with
      | some v => some v
      | none => if q = p then some S else none := by
  unfold smInsert
  cases hq : smFind m q with
  | none =>
    simp only [smHas, hq, Option.isSome_none, Bool.false_eq_true, if_false]
    rw [smFind_append]
    cases hp : smFind m p with
    | some v => rfl
    | none => simp only [smFind]
  | some v =>
    simp only [smHas, hq, Option.isSome_some, if_true]
    cases hp : smFind m p with
    | some v' => rfl
    | none =>
      simp only
      have : ¬ q = p := fun e => by rw [e, hp] at hq; cases hq
      rw [if_neg this]

/-- the map after `insert`ing the entries `(key x, val x)` one by one = the map with these entries appended -/
theorem smFind_foldl_insert {α : Type} (key : α → Nat) (val : α → List Nat) (l : List α) (m : SymMap) (p : Nat) :
    smFind (l.foldl (fun m x => smInsert m (key x) (val x)) m) p =
      smFind (m ++ l.map (fun x => (key x, val x))) p := by
  induction l generalizing m with
  | nil => simp
  | cons x l ih =>
    rw [List.foldl_cons, ih, smFind_append, smFind_append, smFind_smInsert]
    cases hp : smFind m p with
    | some v => rfl
    | none =>
      simp only [List.map_cons, smFind]
      by_cases e : key x = p
      · simp [e]
      · simp only [e, if_false]

theorem smFind_congr_append {m₁ m₁' m₂ m₂' : SymMap} (q : Nat) (h1 : smFind m₁ q = smFind m₁' q)
    (h2 : smFind m₂ q = smFind m₂' q) : smFind (m₁ ++ m₂) q = smFind (m₁' ++ m₂') q := by
  rw [smFind_append, smFind_append, h1, h2]

/-! ### `upsert` seen through a view -/

/-- a view `G` of the entries that `g` extends by the elements satisfying `P`: the view of the whole list is extended by
    `P`.  (No hypothesis on the keys: `upsert` changes the FIRST entry of the key, the view sees all entries.) -/
theorem mem_flatMap_upsert {β γ : Type} (G : Nat → β → List γ) (P : γ → Prop) (k : Nat) (g : Option β → β)
    (h0 : ∀ x, x ∈ G k (g none) ↔ P x) (h1 : ∀ v x, x ∈ G k (g (some v)) ↔ x ∈ G k v ∨ P x)
    (l : List (Nat × β)) (x : γ) :
    x ∈ (upsert k g l).flatMap (fun kv => G kv.1 kv.2) ↔ x ∈ l.flatMap (fun kv => G kv.1 kv.2) ∨ P x := by
  induction l with
  | nil => simp [upsert, h0]
  | cons kv l ih =>
    obtain ⟨k0, v0⟩ := kv
    simp only [upsert]
    split
    · rename_i e
      subst e
      simp only [List.flatMap_cons, List.mem_append, h1]
      constructor
      · rintro ((h | h) | h)
        · exact Or.inl (Or.inl h)
        · exact Or.inr h
        · exact Or.inl (Or.inr h)
      · rintro ((h | h) | h)
        · exact Or.inl (Or.inl h)
        · exact Or.inr h
        · exact Or.inl (Or.inr h)
    · simp only [List.flatMap_cons, List.mem_append, ih]
      constructor
      · rintro (h | h | h)
        · exact Or.inl (Or.inl h)
        · exact Or.inl (Or.inr h)
        · exact Or.inr h
      · rintro ((h | h) | h)
        · exact Or.inl h
        · exact Or.inr (Or.inl h)
        · exact Or.inr (Or.inr h)

/-- the same for a fold of `upsert`s -/
theorem mem_flatMap_foldl_upsert {α β γ : Type} (G : Nat → β → List γ) (key : α → Nat) (g : α → Option β → β)
    (P : α → γ → Prop)
    (h0 : ∀ a x, x ∈ G (key a) (g a none) ↔ P a x)
    (h1 : ∀ a v x, x ∈ G (key a) (g a (some v)) ↔ x ∈ G (key a) v ∨ P a x)
    (src : List α) (l : List (Nat × β)) (x : γ) :
    x ∈ (src.foldl (fun l a => upsert (key a) (g a) l) l).flatMap (fun kv => G kv.1 kv.2) ↔
      x ∈ l.flatMap (fun kv => G kv.1 kv.2) ∨ ∃ a, a ∈ src ∧ P a x := by
  induction src generalizing l with
  | nil => simp
  | cons a src ih =>
    rw [List.foldl_cons, ih, mem_flatMap_upsert G (P a) (key a) (g a) (h0 a) (h1 a)]
    simp only [List.mem_cons]
    constructor
    · rintro ((h | h) | ⟨b, hb, h⟩)
      · exact Or.inl h
      · exact Or.inr ⟨a, Or.inl rfl, h⟩
      · exact Or.inr ⟨b, Or.inr hb, h⟩
    · rintro (h | ⟨b, hb | hb, h⟩)
      · exact Or.inl (Or.inl h)
      · subst hb; exact Or.inl (Or.inr h)
      · exact Or.inr ⟨b, hb, h⟩

/-! ### the transitions of a value -/

/-- the transitions of one cluster -/
def clTrans (q : Nat) (c : Cluster) : List (Nat × Nat × Nat) :=
  c.flatMap (fun st => st.2.map (fun r => (q, st.1, r.headD 0)))

theorem transOf_eq (t : Val) : transOf t = t.flatMap (fun qc => clTrans qc.1 qc.2) := rfl

theorem mem_foldl_insTuple {α : Type} (f : α → List Nat) (l : List α) (ts : Store.TupleSet) (t : List Nat) :
    t ∈ l.foldl (fun ts x => insTuple (f x) ts) ts ↔ t ∈ ts ∨ ∃ x, x ∈ l ∧ t = f x := by
  induction l generalizing ts with
  | nil => simp
  | cons x l ih =>
    rw [List.foldl_cons, ih, Store.mem_insTuple]
    simp only [List.mem_cons]
    constructor
    · rintro ((h | h) | ⟨y, hy, h⟩)
      · exact Or.inl h
      · exact Or.inr ⟨x, Or.inl rfl, h⟩
      · exact Or.inr ⟨y, Or.inr hy, h⟩
    · rintro (h | ⟨y, hy | hy, h⟩)
      · exact Or.inl (Or.inl h)
      · subst hy; exact Or.inl (Or.inr h)
      · exact Or.inr ⟨y, hy, h⟩

theorem mem_clTrans_addToCluster (q a r : Nat) (c : Cluster) (e : Nat × Nat × Nat) :
    e ∈ clTrans q (addToCluster a [r] c) ↔ e ∈ clTrans q c ∨ e = (q, a, r) := by
  unfold clTrans addToCluster
  refine mem_flatMap_upsert (β := Store.TupleSet) (fun a' ts => List.map (fun r' => (q, a', r'.headD 0)) ts)
    (fun e => e = (q, a, r)) a (fun o => insTuple [r] (o.getD [])) ?_ ?_ c e
  · intro x
    simp only [Option.getD_none, List.mem_map, Store.mem_insTuple, List.not_mem_nil, false_or]
    constructor
    · rintro ⟨t, rfl, rfl⟩; rfl
    · rintro rfl; exact ⟨[r], rfl, rfl⟩
  · intro v x
    simp only [Option.getD_some, List.mem_map, Store.mem_insTuple]
    constructor
    · rintro ⟨t, ht | rfl, rfl⟩
      · exact Or.inl ⟨t, ht, rfl⟩
      · exact Or.inr rfl
    · rintro (⟨t, ht, rfl⟩ | rfl)
      · exact ⟨t, Or.inl ht, rfl⟩
      · exact ⟨[r], Or.inr rfl, rfl⟩

/-- `AddTransition` adds the transition – whatever the state of the container -/
theorem mem_transOf_addToMap (l a r : Nat) (t : Val) (e : Nat × Nat × Nat) :
    e ∈ transOf (addToMap l a [r] t) ↔ e ∈ transOf t ∨ e = (l, a, r) := by
  rw [transOf_eq, transOf_eq]
  unfold addToMap
  refine mem_flatMap_upsert (β := Cluster) clTrans (fun e => e = (l, a, r)) l
    (fun o => addToCluster a [r] (o.getD [])) ?_ ?_ t e
  · intro x
    rw [Option.getD_none, mem_clTrans_addToCluster]
    simp [clTrans]
  · intro v x
    rw [Option.getD_some, mem_clTrans_addToCluster]

/-- `AddTransition` -/
theorem vAdd_denote (l a r : Nat) (v : FAVal) : NEquiv (vAdd l a r v).toNFAS (nfasAddTrans v.toNFAS l a r) := by
  refine ⟨fun _ => Iff.rfl, fun _ => Iff.rfl, fun e => ?_, fun _ => rfl⟩
  show e ∈ transOf (addToMap l a [r] v.trans) ↔ e ∈ transOf v.trans ++ [(l, a, r)]
  rw [mem_transOf_addToMap]
  simp

/-! ### `Reverse` -/

theorem mem_transOf_foldl_addToMap (tr : List (Nat × Nat × Nat)) (t : Val) (e : Nat × Nat × Nat) :
    e ∈ transOf (tr.foldl (fun t e => addToMap e.2.2 e.2.1 [e.1] t) t) ↔
      e ∈ transOf t ∨ ∃ x, x ∈ tr ∧ e = (x.2.2, x.2.1, x.1) := by
  induction tr generalizing t with
  | nil => simp
  | cons x tr ih =>
    rw [List.foldl_cons, ih, mem_transOf_addToMap]
    simp only [List.mem_cons]
    constructor
    · rintro ((h | h) | ⟨y, hy, h⟩)
      · exact Or.inl h
      · exact Or.inr ⟨x, Or.inl rfl, h⟩
      · exact Or.inr ⟨y, Or.inr hy, h⟩
    · rintro (h | ⟨y, hy | hy, h⟩)
      · exact Or.inl (Or.inl h)
      · subst hy; exact Or.inl (Or.inr h)
      · exact Or.inr ⟨y, hy, h⟩

/-- `Reverse` -/
theorem vReverse_denote (v : FAVal) : NEquiv (vReverse v).toNFAS (nfasReverse v.toNFAS) := by
  refine ⟨fun _ => Iff.rfl, fun _ => Iff.rfl, fun e => ?_, fun q => ?_⟩
  · show e ∈ transOf ((transOf v.trans).foldl (fun t e => addToMap e.2.2 e.2.1 [e.1] t) []) ↔
      e ∈ (transOf v.trans).map (fun e => (e.2.2, e.2.1, e.1))
    rw [mem_transOf_foldl_addToMap]
    simp only [transOf, List.flatMap_nil, List.not_mem_nil, false_or, List.mem_map]
    constructor
    · rintro ⟨x, hx, rfl⟩; exact ⟨x, hx, rfl⟩
    · rintro ⟨x, hx, rfl⟩; exact ⟨x, hx, rfl⟩
  · show smFind (v.mem.final.foldl (fun m q => smInsert m q []) v.mem.ssym) q =
      smFind (v.mem.ssym ++ (v.mem.final.filter (fun f => !smHas v.mem.ssym f)).map (fun f => (f, []))) q
    rw [smFind_foldl_insert (fun q => q) (fun _ => []), smFind_append, smFind_append]
    cases hq : smFind v.mem.ssym q with
    | some s => rfl
    | none =>
      simp only
      rw [smFind_map_pairs, smFind_map_pairs]
      have hh : smHas v.mem.ssym q = false := by simp [smHas, hq]
      cases h1 : List.find? (fun s => decide (s = q)) v.mem.final with
      | none =>
        have := List.find?_eq_none.mp h1
        rw [List.find?_eq_none.mpr]
        intro x hx
        exact this x (List.mem_filter.mp hx).1
      | some s =>
        have hs := List.find?_some h1
        have hm := List.mem_of_find?_eq_some h1
        simp only [decide_eq_true_eq] at hs
        subst hs
        have : s ∈ v.mem.final.filter (fun f => !smHas v.mem.ssym f) := by
          rw [List.mem_filter]; exact ⟨hm, by simp [hh]⟩
        cases h2 : List.find? (fun x => decide (x = s)) (v.mem.final.filter (fun f => !smHas v.mem.ssym f)) with
        | none =>
          have := List.find?_eq_none.mp h2 s this
          simp at this
        | some s' => rfl

/-! ### `UnionDisjointStates` -/

theorem mem_foldl_insN (l init : List Nat) (x : Nat) : x ∈ l.foldl Vata.insN init ↔ x ∈ init ∨ x ∈ l := by
  induction l generalizing init with
  | nil => simp
  | cons y l ih =>
    rw [List.foldl_cons, ih, NfaS.mem_insN]
    simp only [List.mem_cons]
    constructor
    · rintro ((h | h) | h)
      · exact Or.inl h
      · exact Or.inr (Or.inl h)
      · exact Or.inr (Or.inr h)
    · rintro (h | h | h)
      · exact Or.inl (Or.inl h)
      · exact Or.inl (Or.inr h)
      · exact Or.inr h

/-- what the C++ `assert`s about the operands of `UnionDisjointStates`, as far as the transition containers go: no state
    has a cluster in both (the keys of the right operand being distinct, which `WFV` says) -/
def DisjKeys (s t : FAVal) : Prop := ∀ kc, kc ∈ t.trans → s.trans.lookup kc.1 = none

/-- `UnionDisjointStates`, for operands without a common source state -/
theorem vUnionDisj_denote (s t : FAVal) (ht : KeysNodup t.trans) (hd : DisjKeys s t) :
    NEquiv (vUnionDisj s t).toNFAS (nfasUnionDisjoint s.toNFAS t.toNFAS) := by
  refine ⟨fun q => ?_, fun q => ?_, fun e => ?_, fun q => ?_⟩
  · show q ∈ t.mem.start.foldl Vata.insN s.mem.start ↔ q ∈ s.mem.start ++ t.mem.start
    rw [mem_foldl_insN, List.mem_append]
  · show q ∈ t.mem.final.foldl Vata.insN s.mem.final ↔ q ∈ s.mem.final ++ t.mem.final
    rw [mem_foldl_insN, List.mem_append]
  · show e ∈ transOf (s.trans ++ missing s.trans t.trans) ↔ e ∈ transOf s.trans ++ transOf t.trans
    rw [Vata.CowHeapX.missing_of_disjoint s.trans t.trans ht hd]
    simp only [transOf, List.flatMap_append]
  · show smFind (t.mem.ssym.foldl (fun m e => smInsert m e.1 e.2) s.mem.ssym) q = smFind (s.mem.ssym ++ t.mem.ssym) q
    rw [smFind_foldl_insert (α := Nat × List Nat) (fun e => e.1) (fun e => e.2)]
    simp

/-- without disjointness only `⊆` holds: `insert` does not overwrite the cluster of the left operand -/
theorem vUnionDisj_sub (s t : FAVal) (e : Nat × Nat × Nat) (he : e ∈ (vUnionDisj s t).toNFAS.trans) :
    e ∈ (nfasUnionDisjoint s.toNFAS t.toNFAS).trans := by
  have he' : e ∈ transOf (s.trans ++ missing s.trans t.trans) := he
  show e ∈ transOf s.trans ++ transOf t.trans
  simp only [transOf, List.flatMap_append, List.mem_append] at he' ⊢
  rcases he' with h | h
  · exact Or.inl h
  · right
    rw [List.mem_flatMap] at h ⊢
    obtain ⟨qc, hqc, h⟩ := h
    exact ⟨qc, mem_missing hqc, h⟩

/-! ### `ReindexStates` -/

/-- all stored right-hand sides are non-empty tuples (they are singletons in every history) -/
def TuplesOk (t : Val) : Prop := ∀ qc, qc ∈ t → ∀ st, st ∈ qc.2 → ∀ r, r ∈ st.2 → r ≠ []

/-- the representation invariant of a value: one cluster per state, non-empty tuples -/
structure WFV (v : FAVal) : Prop where
  keys : KeysNodup v.trans
  tup : TuplesOk v.trans

theorem mem_clTrans_reindexCluster (idx : Nat → Nat) (q : Nat) (src c : Cluster) (e : Nat × Nat × Nat) :
    e ∈ clTrans q (reindexCluster idx src c) ↔
      e ∈ clTrans q c ∨ ∃ st, st ∈ src ∧ ∃ r, r ∈ st.2 ∧ e = (q, st.1, (r.map idx).headD 0) := by
  unfold clTrans reindexCluster
  refine mem_flatMap_foldl_upsert (α := Nat × Store.TupleSet) (β := Store.TupleSet)
    (fun a' ts => List.map (fun r' => (q, a', r'.headD 0)) ts) (fun st => st.1)
    (fun st o => st.2.foldl (fun ts t => insTuple (t.map idx) ts) (o.getD []))
    (fun st e => ∃ r, r ∈ st.2 ∧ e = (q, st.1, (r.map idx).headD 0)) ?_ ?_ src c e
  · intro st x
    simp only [Option.getD_none, List.mem_map, mem_foldl_insTuple, List.not_mem_nil, false_or]
    constructor
    · rintro ⟨t, ⟨r, hr, rfl⟩, rfl⟩; exact ⟨r, hr, rfl⟩
    · rintro ⟨r, hr, rfl⟩; exact ⟨_, ⟨r, hr, rfl⟩, rfl⟩
  · intro st v x
    simp only [Option.getD_some, List.mem_map, mem_foldl_insTuple]
    constructor
    · rintro ⟨t, ht | ⟨r, hr, rfl⟩, rfl⟩
      · exact Or.inl ⟨t, ht, rfl⟩
      · exact Or.inr ⟨r, hr, rfl⟩
    · rintro (⟨t, ht, rfl⟩ | ⟨r, hr, rfl⟩)
      · exact ⟨t, Or.inl ht, rfl⟩
      · exact ⟨_, Or.inr ⟨r, hr, rfl⟩, rfl⟩

theorem mem_transOf_reindexTrans (idx : Nat → Nat) (src t : Val) (e : Nat × Nat × Nat) :
    e ∈ transOf (reindexTrans idx src t) ↔
      e ∈ transOf t ∨ ∃ qc, qc ∈ src ∧ ∃ st, st ∈ qc.2 ∧ ∃ r, r ∈ st.2 ∧ e = (idx qc.1, st.1, (r.map idx).headD 0) := by
  rw [transOf_eq, transOf_eq]
  unfold reindexTrans
  refine mem_flatMap_foldl_upsert (α := Nat × Cluster) (β := Cluster) clTrans (fun qc => idx qc.1)
    (fun qc o => reindexCluster idx qc.2 (o.getD []))
    (fun qc e => ∃ st, st ∈ qc.2 ∧ ∃ r, r ∈ st.2 ∧ e = (idx qc.1, st.1, (r.map idx).headD 0)) ?_ ?_ src t e
  · intro qc x
    rw [Option.getD_none, mem_clTrans_reindexCluster]
    simp [clTrans]
  · intro qc v x
    rw [Option.getD_some, mem_clTrans_reindexCluster]

theorem headD_map_of_ne_nil (idx : Nat → Nat) {r : List Nat} (h : r ≠ []) : (r.map idx).headD 0 = idx (r.headD 0) := by
  cases r with
  | nil => exact absurd rfl h
  | cons x r => rfl

theorem mem_foldl_setFinal (idx : Nat → Nat) (l : List Nat) (d : FAVal) :
    (l.foldl (fun d q => vSetFinal (idx q) d) d).mem.start = d.mem.start ∧
    (l.foldl (fun d q => vSetFinal (idx q) d) d).mem.ssym = d.mem.ssym ∧
    ∀ x, x ∈ (l.foldl (fun d q => vSetFinal (idx q) d) d).mem.final ↔ x ∈ d.mem.final ∨ x ∈ l.map idx := by
  induction l generalizing d with
  | nil => simp
  | cons y l ih =>
    rw [List.foldl_cons]
    obtain ⟨h1, h2, h3⟩ := ih (vSetFinal (idx y) d)
    refine ⟨h1, h2, fun x => ?_⟩
    rw [h3]
    simp only [vSetFinal, NfaS.mem_insN, List.map_cons, List.mem_cons]
    constructor
    · rintro ((h | h) | h)
      · exact Or.inl h
      · exact Or.inr (Or.inl h)
      · exact Or.inr (Or.inr h)
    · rintro (h | h | h)
      · exact Or.inl (Or.inl h)
      · exact Or.inl (Or.inr h)
      · exact Or.inr h

theorem mem_foldl_setExistingStart (idx : Nat → Nat) (sy : Nat → List Nat) (l : List Nat) (d : FAVal) :
    (l.foldl (fun d q => vSetExistingStart (idx q) (sy q) d) d).mem.final = d.mem.final ∧
    (∀ p, smFind (l.foldl (fun d q => vSetExistingStart (idx q) (sy q) d) d).mem.ssym p =
      smFind (d.mem.ssym ++ l.map (fun q => (idx q, sy q))) p) ∧
    ∀ x, x ∈ (l.foldl (fun d q => vSetExistingStart (idx q) (sy q) d) d).mem.start ↔ x ∈ d.mem.start ∨ x ∈ l.map idx := by
  induction l generalizing d with
  | nil => simp
  | cons y l ih =>
    rw [List.foldl_cons]
    obtain ⟨h1, h2, h3⟩ := ih (vSetExistingStart (idx y) (sy y) d)
    refine ⟨h1, fun p => ?_, fun x => ?_⟩
    · rw [h2, smFind_append, smFind_append]
      simp only [vSetExistingStart, smFind_smInsert, List.map_cons, smFind]
      cases smFind d.mem.ssym p with
      | some v => rfl
      | none =>
        simp only
        by_cases e : idx y = p
        · simp [e]
        · simp only [e, if_false]
    · rw [h3]
      simp only [vSetExistingStart, NfaS.mem_insN, List.map_cons, List.mem_cons]
      constructor
      · rintro ((h | h) | h)
        · exact Or.inl h
        · exact Or.inr (Or.inl h)
        · exact Or.inr (Or.inr h)
      · rintro (h | h | h)
        · exact Or.inl (Or.inl h)
        · exact Or.inl (Or.inr h)
        · exact Or.inr h

/-- `src.ReindexStates(dst, idx)` adds the image of `src` to `dst`: in the words of `Vata/NfaStart.lean`, the componentwise
    union of `dst` with `nfasMap idx src` (`nfasUnionWith` is two of these into a fresh automaton: `vUnion_denote`) -/
theorem vReindex_denote (idx : Nat → Nat) (s d : FAVal) (hs : TuplesOk s.trans) :
    NEquiv (vReindex idx s d).toNFAS (nfasUnionDisjoint d.toNFAS (nfasMap idx s.toNFAS)) := by
  obtain ⟨f1, f2, f3⟩ := mem_foldl_setFinal idx s.mem.final d
  obtain ⟨g1, g2, g3⟩ := mem_foldl_setExistingStart idx (smGet s.mem.ssym) s.mem.start
    (s.mem.final.foldl (fun d q => vSetFinal (idx q) d) d)
  refine ⟨fun q => ?_, fun q => ?_, fun e => ?_, fun q => ?_⟩
  · show q ∈ (s.mem.start.foldl (fun d q => vSetExistingStart (idx q) (smGet s.mem.ssym q) d)
        (s.mem.final.foldl (fun d q => vSetFinal (idx q) d) d)).mem.start ↔ q ∈ d.mem.start ++ s.mem.start.map idx
    rw [g3, f1, List.mem_append]
  · show q ∈ (s.mem.start.foldl (fun d q => vSetExistingStart (idx q) (smGet s.mem.ssym q) d)
        (s.mem.final.foldl (fun d q => vSetFinal (idx q) d) d)).mem.final ↔ q ∈ d.mem.final ++ s.mem.final.map idx
    rw [g1, f3, List.mem_append]
  · show e ∈ transOf (reindexTrans idx s.trans d.trans) ↔
      e ∈ transOf d.trans ++ (transOf s.trans).map (fun e => (idx e.1, e.2.1, idx e.2.2))
    rw [mem_transOf_reindexTrans, List.mem_append]
    apply or_congr Iff.rfl
    simp only [transOf, List.mem_map, List.mem_flatMap]
    constructor
    · rintro ⟨qc, hqc, st, hst, r, hr, rfl⟩
      refine ⟨(qc.1, st.1, r.headD 0), ⟨qc, hqc, st, hst, r, hr, rfl⟩, ?_⟩
      rw [headD_map_of_ne_nil idx (hs qc hqc st hst r hr)]
    · rintro ⟨x, ⟨qc, hqc, st, hst, r, hr, rfl⟩, rfl⟩
      refine ⟨qc, hqc, st, hst, r, hr, ?_⟩
      rw [headD_map_of_ne_nil idx (hs qc hqc st hst r hr)]
  · show smFind (s.mem.start.foldl (fun d q => vSetExistingStart (idx q) (smGet s.mem.ssym q) d)
        (s.mem.final.foldl (fun d q => vSetFinal (idx q) d) d)).mem.ssym q =
      smFind (d.mem.ssym ++ s.mem.start.map (fun x => (idx x, smGet s.mem.ssym x))) q
    rw [g2, f2]

end Vata.CowHeapFA
