import Vata.Proofs.IsectBU
/-!
# Property C02 – `IntersectionBU`: the work-list loop of the model (`Vata/IsectBU.lean`) always passes its certificate check

* `Ibu.buProcPair_ready`, `Ibu.buProcPair_notready`   the body of the innermost loop: a pair of rules is turned into a
                          product rule exactly when all its children pairs are known BEFORE the tentative insertion of the
                          parent pair (the guard `isSelfLoopToNewState` and the `erase` make the tentative insertion
                          unobservable)
* `Ibu.BInv`              the invariant of the loop (map, stack, `newStates`, rules, final states)
* `Ibu.buLoop_inv`        … is kept until the stack is empty
* `Ibu.binv_cert`         … and implies `buCertB` on an empty stack
* `isectBU_of_loop`       hence `isectBU` returns whenever the loop ends within the fuel: the check cannot fail
-/
namespace Vata
namespace Ibu
open Isx

/-! ### insertion, erasure -/

theorem buInsert_some {m : PMap} {p : Nat × Nat} {n : Nat} (h : m.lookup p = some n) : buInsert m p = (m, n, false) := by
  simp only [buInsert, h]

theorem buInsert_none {m : PMap} {p : Nat × Nat} (h : m.lookup p = none) :
    buInsert m p = (m ++ [(p, m.length)], m.length, true) := by
  simp only [buInsert, h]

/-- entry `i` of the map carries the number `i` -/
def NumOk (m : PMap) : Prop := ∀ (i : Nat) (e : (Nat × Nat) × Nat), m[i]? = some e → e.2 = i

theorem numOk_nil : NumOk [] := fun i e h => by simp at h

theorem numOk_snoc {m : PMap} (h : NumOk m) (p : Nat × Nat) : NumOk (m ++ [(p, m.length)]) := by
  intro i e he
  by_cases hi : i < m.length
  · rw [List.getElem?_append_left hi] at he
    exact h i e he
  · rw [List.getElem?_append_right (Nat.le_of_not_lt hi)] at he
    by_cases h0 : i - m.length = 0
    · rw [h0] at he
      simp only [List.getElem?_cons_zero, Option.some.injEq] at he
      subst he
      simp only
      omega
    · obtain ⟨j, hj⟩ := Nat.exists_eq_succ_of_ne_zero h0
      rw [hj] at he
      simp at he

theorem pmapInjB_of_numOk {m : PMap} (h : NumOk m) : pmapInjB m = true := by
  simp only [pmapInjB, List.all_eq_true, Bool.or_eq_true, bne_iff_ne, beq_iff_eq]
  intro e he e' he'
  obtain ⟨i, hi⟩ := List.mem_iff_getElem?.mp he
  obtain ⟨j, hj⟩ := List.mem_iff_getElem?.mp he'
  by_cases hn : e.2 = e'.2
  · right
    have : i = j := by rw [← h i e hi, ← h j e' hj]; exact hn
    subst this
    rw [hi] at hj
    rw [Option.some.inj hj]
  · exact Or.inl hn

/-- what `insert` does -/
structure Ins (m : PMap) (p : Nat × Nat) : Prop where
  ok : MapOk m → MapOk (buInsert m p).1
  num : NumOk m → NumOk (buInsert m p).1
  ext : Ext m (buInsert m p).1
  look : (buInsert m p).1.lookup p = some (buInsert m p).2.1
  dom : ∀ x, x ∈ (buInsert m p).1.dom → x ∈ m.dom ∨ x = p
  look_new : ∀ x n, (buInsert m p).1.lookup x = some n → m.lookup x = some n ∨ (x = p ∧ n = (buInsert m p).2.1)

theorem ins (m : PMap) (p : Nat × Nat) : Ins m p := by
  cases hl : m.lookup p with
  | some n =>
    have hb := buInsert_some hl
    refine ⟨?_, ?_, ?_, ?_, ?_, ?_⟩ <;> rw [hb]
    · exact fun h => h
    · exact fun h => h
    · exact Ext.refl m
    · exact hl
    · exact fun x hx => Or.inl hx
    · exact fun x n hx => Or.inl hx
  | none =>
    have hb := buInsert_none hl
    refine ⟨?_, ?_, ?_, ?_, ?_, ?_⟩ <;> rw [hb]
    · exact fun h => mapOk_snoc h hl
    · exact fun h => numOk_snoc h p
    · exact ext_snoc p _
    · exact lookup_snoc_self hl _
    · exact fun x hx => dom_snoc.mp hx
    intro x n hx
    simp only at hx ⊢
    rw [lookup_snoc, Option.or_eq_some_iff] at hx
    rcases hx with hx | ⟨_, hx⟩
    · exact Or.inl hx
    · by_cases hxp : x = p
      · rw [if_pos hxp] at hx; exact Or.inr ⟨hxp, (Option.some.inj hx).symm⟩
      · rw [if_neg hxp] at hx; cases hx

theorem buErase_snoc {m : PMap} {p : Nat × Nat} (h : m.lookup p = none) (v : Nat) : buErase (m ++ [(p, v)]) p = m := by
  unfold buErase
  rw [List.filter_append]
  have h1 : m.filter (fun e => !(e.1 == p)) = m := by
    rw [List.filter_eq_self]
    intro e he
    have hnd : p ∉ m.dom := lookup_none_iff.mp h
    have : e.1 ≠ p := fun hep => hnd (hep ▸ List.mem_map.mpr ⟨e, he, rfl⟩)
    simpa using this
  rw [h1]
  simp

/-! ### the children tuple -/

theorem buKidsTr_some {m : PMap} {isNew : Bool} {par : Nat × Nat} : ∀ (cs : List (Nat × Nat)),
    (∀ c, c ∈ cs → c ∈ m.dom ∧ (isNew = true → c ≠ par)) → buKidsTr m isNew par cs = some (cs.map (lookupF m))
  | [], _ => rfl
  | c :: cs, h => by
    obtain ⟨hd, hn⟩ := h c List.mem_cons_self
    obtain ⟨n, hl⟩ := mem_dom_iff.mp hd
    have hg : (isNew && c == par) = false := by
      cases isNew with
      | false => rfl
      | true => simpa using hn rfl
    simp only [buKidsTr, hl, hg, buKidsTr_some cs (fun x hx => h x (List.mem_cons_of_mem _ hx)), List.map_cons,
      Option.map_some, lookupF, Option.getD_some]
    rfl

theorem buKidsTr_none {m : PMap} {isNew : Bool} {par : Nat × Nat} : ∀ (cs : List (Nat × Nat)),
    (∃ c, c ∈ cs ∧ (c ∉ m.dom ∨ (isNew = true ∧ c = par))) → buKidsTr m isNew par cs = none
  | [], h => by obtain ⟨c, hc, _⟩ := h; simp at hc
  | c :: cs, h => by
    cases hl : m.lookup c with
    | none => simp only [buKidsTr, hl]
    | some n =>
      by_cases hg : (isNew && c == par) = true
      · simp only [buKidsTr, hl, hg, if_true]
      · have hg' : (isNew && c == par) = false := by simpa using hg
        obtain ⟨x, hx, hbad⟩ := h
        rcases List.mem_cons.mp hx with hxc | hxc
        · subst hxc
          rcases hbad with hb | ⟨hb1, hb2⟩
          · exact absurd (mem_dom_iff.mpr ⟨n, hl⟩) hb
          · rw [hb1, hb2] at hg'; simp at hg'
        · simp only [buKidsTr, hl, hg', buKidsTr_none cs ⟨x, hxc, hbad⟩, Option.map_none]
          rfl

/-! ### the body of the innermost loop -/

/-- all children pairs are known: the product rule is added (w.r.t. the map after the insertion of the parent pair) and
the parent entry is pushed -/
theorem buProcPair_ready {r r' : Rule} {m : PMap} (st : List BUEntry) (rs : List Rule)
    (h : ∀ c, c ∈ r.kids.zip r'.kids → c ∈ m.dom) :
    buProcPair r r' m st rs = ((buInsert m (r.parent, r'.parent)).1,
      ((r.parent, r'.parent), (buInsert m (r.parent, r'.parent)).2.1) :: st,
      rs ++ [PRule (buInsert m (r.parent, r'.parent)).1 r r']) := by
  have I := ins m (r.parent, r'.parent)
  have hk : buKidsTr (buInsert m (r.parent, r'.parent)).1 (buInsert m (r.parent, r'.parent)).2.2 (r.parent, r'.parent)
      (r.kids.zip r'.kids) = some ((r.kids.zip r'.kids).map (lookupF (buInsert m (r.parent, r'.parent)).1)) := by
    apply buKidsTr_some
    intro c hc
    refine ⟨I.ext.dom (h c hc), ?_⟩
    intro hnew hcp
    cases hl : m.lookup (r.parent, r'.parent) with
    | some n => rw [buInsert_some hl] at hnew; cases hnew
    | none => exact lookup_none_iff.mp hl (hcp ▸ h c hc)
  unfold buProcPair
  simp only [hk]
  unfold PRule
  simp only [lookupF, I.look, Option.getD_some]

/-- some children pair is unknown: nothing changes (the tentative insertion is undone) -/
theorem buProcPair_notready {r r' : Rule} {m : PMap} (st : List BUEntry) (rs : List Rule)
    (h : ∃ c, c ∈ r.kids.zip r'.kids ∧ c ∉ m.dom) : buProcPair r r' m st rs = (m, st, rs) := by
  obtain ⟨c, hc, hcd⟩ := h
  cases hl : m.lookup (r.parent, r'.parent) with
  | some n =>
    have hk : buKidsTr m false (r.parent, r'.parent) (r.kids.zip r'.kids) = none :=
      buKidsTr_none _ ⟨c, hc, Or.inl hcd⟩
    unfold buProcPair
    simp only [buInsert_some hl, hk]
    rfl
  | none =>
    have hk : buKidsTr (m ++ [((r.parent, r'.parent), m.length)]) true (r.parent, r'.parent) (r.kids.zip r'.kids) = none := by
      apply buKidsTr_none
      refine ⟨c, hc, ?_⟩
      by_cases hcp : c = (r.parent, r'.parent)
      · exact Or.inr ⟨rfl, hcp⟩
      · left
        intro hd
        rcases dom_snoc.mp hd with h1 | h1
        · exact hcd h1
        · exact hcp h1
    unfold buProcPair
    simp only [buInsert_none hl, hk, if_true, buErase_snoc hl]

/-! ### steps -/

/-- what a batch of work does to the map, the stack and the rules -/
structure BStep (A B : TA) (m : PMap) (st : List BUEntry) (rs : List Rule) (m' : PMap) (st' : List BUEntry)
    (rs' : List Rule) : Prop where
  ok : MapOk m'
  num : NumOk m'
  ext : Ext m m'
  st_sub : ∀ e, e ∈ st → e ∈ st'
  st_new : ∀ e, e ∈ st' → e ∈ st ∨ m'.lookup e.1 = some e.2
  dom_new : ∀ p n, m'.lookup p = some n → m.lookup p = some n ∨ (p, n) ∈ st'
  rs_sub : ∀ ρ, ρ ∈ rs → ρ ∈ rs'
  rs_new : ∀ ρ, ρ ∈ rs' → ρ ∈ rs ∨ GoodRule A B m' ρ

theorem BStep.refl {A B : TA} {m : PMap} (h : MapOk m) (hn : NumOk m) (st : List BUEntry) (rs : List Rule) :
    BStep A B m st rs m st rs :=
  ⟨h, hn, Ext.refl m, fun _ he => he, fun _ he => Or.inl he, fun _ _ hp => Or.inl hp, fun _ hρ => hρ, fun _ hρ => Or.inl hρ⟩

theorem BStep.trans {A B : TA} {m m' m'' : PMap} {st st' st'' : List BUEntry} {rs rs' rs'' : List Rule}
    (h : BStep A B m st rs m' st' rs') (h' : BStep A B m' st' rs' m'' st'' rs'') : BStep A B m st rs m'' st'' rs'' := by
  refine ⟨h'.ok, h'.num, h.ext.trans h'.ext, fun e he => h'.st_sub e (h.st_sub e he), ?_, ?_,
    fun ρ hρ => h'.rs_sub ρ (h.rs_sub ρ hρ), ?_⟩
  · intro e he
    rcases h'.st_new e he with h1 | h1
    · rcases h.st_new e h1 with h2 | h2
      · exact Or.inl h2
      · exact Or.inr (h'.ext _ _ h2)
    · exact Or.inr h1
  · intro p n hp
    rcases h'.dom_new p n hp with h1 | h1
    · rcases h.dom_new p n h1 with h2 | h2
      · exact Or.inl h2
      · exact Or.inr (h'.st_sub _ h2)
    · exact Or.inr h1
  · intro ρ hρ
    rcases h'.rs_new ρ hρ with h1 | h1
    · rcases h.rs_new ρ h1 with h2 | h2
      · exact Or.inl h2
      · exact Or.inr (h2.mono h'.ext)
    · exact Or.inr h1

/-- inserting the parent pair of a matching rule pair whose children pairs are known, pushing it and adding the rule -/
theorem bstep_add {A B : TA} {r r' : Rule} {m : PMap} (hm : Matching A B r r') (hok : MapOk m) (hnum : NumOk m)
    (st : List BUEntry) (rs : List Rule) (h : ∀ c, c ∈ r.kids.zip r'.kids → c ∈ m.dom) :
    BStep A B m st rs (buInsert m (r.parent, r'.parent)).1
      (((r.parent, r'.parent), (buInsert m (r.parent, r'.parent)).2.1) :: st)
      (rs ++ [PRule (buInsert m (r.parent, r'.parent)).1 r r']) := by
  have I := ins m (r.parent, r'.parent)
  refine ⟨I.ok hok, I.num hnum, I.ext, fun e he => List.mem_cons_of_mem _ he, ?_, ?_,
    fun ρ hρ => List.mem_append_left _ hρ, ?_⟩
  · intro e he
    rcases List.mem_cons.mp he with h1 | h1
    · rw [h1]; exact Or.inr I.look
    · exact Or.inl h1
  · intro p n hp
    rcases I.look_new p n hp with h1 | ⟨h1, h2⟩
    · exact Or.inl h1
    · rw [h1, h2]; exact Or.inr List.mem_cons_self
  · intro ρ hρ
    rcases List.mem_append.mp hρ with h1 | h1
    · exact Or.inl h1
    · right
      rw [List.mem_singleton.mp h1]
      exact ⟨r, r', hm, mem_dom_iff.mpr ⟨_, I.look⟩, fun x hx => I.ext.dom (h x hx), rfl⟩

theorem buProcPair_step {A B : TA} {r r' : Rule} {m : PMap} (hm : Matching A B r r') (hok : MapOk m) (hnum : NumOk m)
    (st : List BUEntry) (rs : List Rule) :
    BStep A B m st rs (buProcPair r r' m st rs).1 (buProcPair r r' m st rs).2.1 (buProcPair r r' m st rs).2.2 ∧
    ((∀ c, c ∈ r.kids.zip r'.kids → c ∈ m.dom) →
      (r.parent, r'.parent) ∈ (buProcPair r r' m st rs).1.dom ∧
      PRule (buProcPair r r' m st rs).1 r r' ∈ (buProcPair r r' m st rs).2.2) := by
  by_cases h : ∀ c, c ∈ r.kids.zip r'.kids → c ∈ m.dom
  · rw [buProcPair_ready st rs h]
    refine ⟨bstep_add hm hok hnum st rs h, fun _ => ⟨mem_dom_iff.mpr ⟨_, (ins m _).look⟩, ?_⟩⟩
    exact List.mem_append_right _ List.mem_cons_self
  · have h' : ∃ c, c ∈ r.kids.zip r'.kids ∧ c ∉ m.dom := by
      apply Classical.byContradiction
      intro hne
      apply h
      intro c hc
      apply Classical.byContradiction
      intro hcd
      exact hne ⟨c, hc, hcd⟩
    rw [buProcPair_notready st rs h']
    exact ⟨BStep.refl hok hnum st rs, fun hall => absurd hall h⟩

theorem buProcAll_spec {A B : TA} : ∀ (L : List (Rule × Rule)) (m : PMap) (st : List BUEntry) (rs : List Rule),
    MapOk m → NumOk m → (∀ rr, rr ∈ L → Matching A B rr.1 rr.2) →
    BStep A B m st rs (buProcAll L m st rs).1 (buProcAll L m st rs).2.1 (buProcAll L m st rs).2.2 ∧
    (∀ rr, rr ∈ L → (∀ c, c ∈ rr.1.kids.zip rr.2.kids → c ∈ m.dom) →
      (rr.1.parent, rr.2.parent) ∈ (buProcAll L m st rs).1.dom ∧
      PRule (buProcAll L m st rs).1 rr.1 rr.2 ∈ (buProcAll L m st rs).2.2)
  | [], m, st, rs, hok, hnum, _ => by
    simp only [buProcAll]
    exact ⟨BStep.refl hok hnum st rs, fun rr h => by simp at h⟩
  | rr :: rest, m, st, rs, hok, hnum, hL => by
    obtain ⟨s1, c1⟩ := buProcPair_step (hL rr List.mem_cons_self) hok hnum st rs
    obtain ⟨s2, c2⟩ := buProcAll_spec (A := A) (B := B) rest _ (buProcPair rr.1 rr.2 m st rs).2.1 (buProcPair rr.1 rr.2 m st rs).2.2
      s1.ok s1.num (fun x hx => hL x (List.mem_cons_of_mem _ hx))
    simp only [buProcAll]
    refine ⟨s1.trans s2, ?_⟩
    intro x hx hkids
    rcases List.mem_cons.mp hx with h | h
    · subst h
      obtain ⟨d1, d2⟩ := c1 hkids
      refine ⟨s2.ext.dom d1, ?_⟩
      rw [PRule_ext s2.ext d1 (fun y hy => s1.ext.dom (hkids y hy))]
      exact s2.rs_sub _ d2
    · exact c2 x h (fun y hy => s1.ext.dom (hkids y hy))

/-! ### the leaf phase -/

theorem buLeafPhase_spec {A B : TA} : ∀ (L : List (Rule × Rule)) (m : PMap) (st : List BUEntry) (rs : List Rule)
    (fs : List Nat), MapOk m → NumOk m → (∀ rr, rr ∈ L → Matching A B rr.1 rr.2 ∧ rr.1.kids = []) →
    BStep A B m st rs (buLeafPhase A B L m st rs fs).1 (buLeafPhase A B L m st rs fs).2.1 (buLeafPhase A B L m st rs fs).2.2.1 ∧
    (∀ rr, rr ∈ L → (rr.1.parent, rr.2.parent) ∈ (buLeafPhase A B L m st rs fs).1.dom ∧
      PRule (buLeafPhase A B L m st rs fs).1 rr.1 rr.2 ∈ (buLeafPhase A B L m st rs fs).2.2.1) ∧
    (∀ x, x ∈ (buLeafPhase A B L m st rs fs).2.2.2 → x ∈ fs ∨
      ∃ pr, (buLeafPhase A B L m st rs fs).1.lookup pr = some x ∧ pr.1 ∈ A.final ∧ pr.2 ∈ B.final)
  | [], m, st, rs, fs, hok, hnum, _ => by
    simp only [buLeafPhase]
    exact ⟨BStep.refl hok hnum st rs, fun rr h => by simp at h, fun x hx => Or.inl hx⟩
  | rr :: rest, m, st, rs, fs, hok, hnum, hL => by
    obtain ⟨hm, hk⟩ := hL rr List.mem_cons_self
    have hz : rr.1.kids.zip rr.2.kids = [] := by rw [hk]; rfl
    have hkids : ∀ c, c ∈ rr.1.kids.zip rr.2.kids → c ∈ m.dom := by rw [hz]; intro c hc; simp at hc
    have I := ins m (rr.1.parent, rr.2.parent)
    have s1 := bstep_add hm hok hnum st rs hkids
    have hnew : (⟨rr.1.sym, [], (buInsert m (rr.1.parent, rr.2.parent)).2.1⟩ : Rule) =
        PRule (buInsert m (rr.1.parent, rr.2.parent)).1 rr.1 rr.2 := by
      unfold PRule
      rw [hz]
      simp only [List.map_nil, lookupF, I.look, Option.getD_some]
    obtain ⟨s2, c2, f2⟩ := buLeafPhase_spec (A := A) (B := B) rest (buInsert m (rr.1.parent, rr.2.parent)).1
      (((rr.1.parent, rr.2.parent), (buInsert m (rr.1.parent, rr.2.parent)).2.1) :: st)
      (rs ++ [⟨rr.1.sym, [], (buInsert m (rr.1.parent, rr.2.parent)).2.1⟩])
      (if A.final.contains rr.1.parent && B.final.contains rr.2.parent then fs ++ [(buInsert m (rr.1.parent, rr.2.parent)).2.1] else fs)
      s1.ok s1.num (fun x hx => hL x (List.mem_cons_of_mem _ hx))
    simp only [buLeafPhase]
    rw [hnew] at s2 c2 f2 ⊢
    have hd1 : (rr.1.parent, rr.2.parent) ∈ (buInsert m (rr.1.parent, rr.2.parent)).1.dom := mem_dom_iff.mpr ⟨_, I.look⟩
    refine ⟨s1.trans s2, ?_, ?_⟩
    · intro x hx
      rcases List.mem_cons.mp hx with h | h
      · rw [h]
        refine ⟨s2.ext.dom hd1, ?_⟩
        rw [PRule_ext s2.ext hd1 (fun y hy => I.ext.dom (hkids y hy))]
        exact s2.rs_sub _ (List.mem_append_right _ List.mem_cons_self)
      · exact c2 x h
    · intro x hx
      rcases f2 x hx with h | h
      · split at h
        · rename_i hfin
          rcases List.mem_append.mp h with h1 | h1
          · exact Or.inl h1
          · right
            simp only [Bool.and_eq_true, List.contains_iff_mem] at hfin
            rw [List.mem_singleton.mp h1]
            exact ⟨(rr.1.parent, rr.2.parent), s2.ext _ _ I.look, hfin.1, hfin.2⟩
        · exact Or.inl h
      · exact Or.inr h

theorem mem_buLeafPairs {A B : TA} {rr : Rule × Rule} :
    rr ∈ buLeafPairs A B ↔ Matching A B rr.1 rr.2 ∧ rr.1.kids = [] := by
  obtain ⟨r, r'⟩ := rr
  simp only [buLeafPairs, Matching, List.mem_flatMap, List.mem_map, List.mem_filter, Bool.and_eq_true, beq_iff_eq,
    Prod.mk.injEq, List.isEmpty_iff]
  constructor
  · rintro ⟨a, ⟨ha, hak⟩, b, ⟨hb, hbk, hs⟩, rfl, rfl⟩
    exact ⟨⟨ha, hb, hs, by rw [hak, hbk]⟩, hak⟩
  · rintro ⟨⟨ha, hb, hs, hl⟩, hak⟩
    refine ⟨r, ⟨ha, hak⟩, r', ⟨hb, ?_, hs⟩, rfl, rfl⟩
    rw [hak] at hl
    exact List.length_eq_zero_iff.mp hl

/-! ### the rule pairs examined for a popped pair -/

theorem mem_buMatching {A B : TA} {pr : Nat × Nat} {rr : Rule × Rule} :
    rr ∈ buMatching A B pr ↔ Matching A B rr.1 rr.2 ∧ pr ∈ rr.1.kids.zip rr.2.kids := by
  obtain ⟨r, r'⟩ := rr
  obtain ⟨p, q⟩ := pr
  simp only [buMatching, Matching, List.mem_flatMap, List.mem_range]
  constructor
  · rintro ⟨a, ha, i, hi, hmem⟩
    split at hmem
    · rename_i hpi
      simp only [List.mem_map, List.mem_filter, Bool.and_eq_true, beq_iff_eq, Prod.mk.injEq] at hmem
      obtain ⟨b, ⟨hb, ⟨hs, hl⟩, hqi⟩, rfl, rfl⟩ := hmem
      refine ⟨⟨ha, hb, hs, hl⟩, ?_⟩
      rw [List.mem_iff_getElem?]
      refine ⟨i, ?_⟩
      rw [List.getElem?_zip_eq_some]
      exact ⟨by simpa using hpi, hqi⟩
    · simp at hmem
  · rintro ⟨⟨ha, hb, hs, hl⟩, hz⟩
    obtain ⟨i, hi⟩ := List.mem_iff_getElem?.mp hz
    rw [List.getElem?_zip_eq_some] at hi
    obtain ⟨h1, h2⟩ := hi
    have hil : i < r.kids.length := by
      obtain ⟨hlt, _⟩ := List.getElem?_eq_some_iff.mp h1
      exact hlt
    refine ⟨r, ha, i, hil, ?_⟩
    rw [if_pos (by simpa using h1)]
    simp only [List.mem_map, List.mem_filter, Bool.and_eq_true, beq_iff_eq, Prod.mk.injEq]
    exact ⟨r', ⟨hb, ⟨hs, hl⟩, h2⟩, trivial, rfl⟩

/-! ### the invariant of the work-list loop -/

/-- the pair `x` has been popped and processed -/
def Done (m : PMap) (ns : List Nat) (x : Nat × Nat) : Prop := ∃ k, m.lookup x = some k ∧ k ∈ ns

structure BInv (A B : TA) (m : PMap) (st : List BUEntry) (ns : List Nat) (rs : List Rule) (fs : List Nat) : Prop where
  ok : MapOk m
  num : NumOk m
  hst : ∀ e, e ∈ st → m.lookup e.1 = some e.2
  hdom : ∀ p n, m.lookup p = some n → (p, n) ∈ st ∨ n ∈ ns
  hns : ∀ k, k ∈ ns → ∃ p, m.lookup p = some k
  sound : ∀ ρ, ρ ∈ rs → GoodRule A B m ρ
  complete : ∀ r r', Matching A B r r' → (∀ x, x ∈ r.kids.zip r'.kids → Done m ns x) →
    (r.parent, r'.parent) ∈ m.dom ∧ PRule m r r' ∈ rs
  fsound : ∀ x, x ∈ fs → ∃ pr, m.lookup pr = some x ∧ pr.1 ∈ A.final ∧ pr.2 ∈ B.final
  fcomplete : ∀ pr k, m.lookup pr = some k → k ∈ ns → pr.1 ∈ A.final → pr.2 ∈ B.final → k ∈ fs

/-- a pair that is done after a step was done before or is the popped pair -/
theorem done_back {m m' : PMap} {ns : List Nat} {pr : Nat × Nat} {k : Nat} (hok' : MapOk m') (hext : Ext m m')
    (hns : ∀ j, j ∈ ns → ∃ p, m.lookup p = some j) (hpr : m.lookup pr = some k) {x : Nat × Nat} {j : Nat}
    (hx : m'.lookup x = some j) (hj : j ∈ k :: ns) : x = pr ∨ (m.lookup x = some j ∧ j ∈ ns) := by
  rcases List.mem_cons.mp hj with h | h
  · left
    rw [h] at hx
    exact hok'.2 x pr k hx (hext _ _ hpr)
  · right
    obtain ⟨p, hp⟩ := hns j h
    have : p = x := hok'.2 p x j (hext _ _ hp) hx
    rw [← this]
    exact ⟨hp, h⟩

/-- popping an entry whose number is already in `newStates` -/
theorem BInv.skip {A B : TA} {m : PMap} {e : BUEntry} {st : List BUEntry} {ns : List Nat} {rs : List Rule} {fs : List Nat}
    (h : BInv A B m (e :: st) ns rs fs) (he : e.2 ∈ ns) : BInv A B m st ns rs fs := by
  refine ⟨h.ok, h.num, fun x hx => h.hst x (List.mem_cons_of_mem _ hx), ?_, h.hns, h.sound, h.complete, h.fsound, h.fcomplete⟩
  intro p n hp
  rcases h.hdom p n hp with h1 | h1
  · rcases List.mem_cons.mp h1 with h2 | h2
    · right
      rw [← h2] at he
      exact he
    · exact Or.inl h2
  · exact Or.inr h1

/-- popping and processing an entry -/
theorem BInv.pop {A B : TA} {m : PMap} {e : BUEntry} {st : List BUEntry} {ns : List Nat} {rs : List Rule} {fs : List Nat}
    (h : BInv A B m (e :: st) ns rs fs) :
    BInv A B (buProcAll (buMatching A B e.1) m st rs).1 (buProcAll (buMatching A B e.1) m st rs).2.1 (e.2 :: ns)
      (buProcAll (buMatching A B e.1) m st rs).2.2
      (if A.final.contains e.1.1 && B.final.contains e.1.2 then fs ++ [e.2] else fs) := by
  obtain ⟨pr, k⟩ := e
  have hpr : m.lookup pr = some k := h.hst _ List.mem_cons_self
  obtain ⟨s, c⟩ := buProcAll_spec (A := A) (B := B) (buMatching A B pr) m st rs h.ok h.num
    (fun rr hrr => (mem_buMatching.mp hrr).1)
  have hpr' := s.ext _ _ hpr
  have hfsub : ∀ x, x ∈ fs → x ∈ (if A.final.contains pr.1 && B.final.contains pr.2 then fs ++ [k] else fs) := by
    intro x hx
    split
    · exact List.mem_append_left _ hx
    · exact hx
  refine ⟨s.ok, s.num, ?_, ?_, ?_, ?_, ?_, ?_, ?_⟩
  · intro x hx
    rcases s.st_new x hx with h1 | h1
    · exact s.ext _ _ (h.hst x (List.mem_cons_of_mem _ h1))
    · exact h1
  · intro p n hp
    rcases s.dom_new p n hp with h1 | h1
    · rcases h.hdom p n h1 with h2 | h2
      · rcases List.mem_cons.mp h2 with h3 | h3
        · right
          rw [(Prod.mk.inj h3).2]
          exact List.mem_cons_self
        · exact Or.inl (s.st_sub _ h3)
      · exact Or.inr (List.mem_cons_of_mem _ h2)
    · exact Or.inl h1
  · intro j hj
    rcases List.mem_cons.mp hj with h1 | h1
    · rw [h1]; exact ⟨pr, hpr'⟩
    · obtain ⟨p, hp⟩ := h.hns j h1
      exact ⟨p, s.ext _ _ hp⟩
  · intro ρ hρ
    rcases s.rs_new ρ hρ with h1 | h1
    · exact (h.sound ρ h1).mono s.ext
    · exact h1
  · intro r r' hm hdone
    -- every children pair was done before or is the popped pair; in both cases it was known before the step
    have hback : ∀ x, x ∈ r.kids.zip r'.kids → x = pr ∨ Done m ns x := by
      intro x hx
      obtain ⟨j, hj1, hj2⟩ := hdone x hx
      rcases done_back s.ok s.ext h.hns hpr hj1 hj2 with h1 | h1
      · exact Or.inl h1
      · exact Or.inr ⟨j, h1⟩
    have hknown : ∀ x, x ∈ r.kids.zip r'.kids → x ∈ m.dom := by
      intro x hx
      rcases hback x hx with h1 | ⟨j, h1, _⟩
      · rw [h1]; exact mem_dom_iff.mpr ⟨k, hpr⟩
      · exact mem_dom_iff.mpr ⟨j, h1⟩
    by_cases hin : pr ∈ r.kids.zip r'.kids
    · exact c (r, r') (mem_buMatching.mpr ⟨hm, hin⟩) hknown
    · have hold : ∀ x, x ∈ r.kids.zip r'.kids → Done m ns x := by
        intro x hx
        rcases hback x hx with h1 | h1
        · exact absurd (h1 ▸ hx) hin
        · exact h1
      obtain ⟨d1, d2⟩ := h.complete r r' hm hold
      refine ⟨s.ext.dom d1, ?_⟩
      rw [PRule_ext s.ext d1 hknown]
      exact s.rs_sub _ d2
  · intro x hx
    split at hx
    · rename_i hfin
      rcases List.mem_append.mp hx with h1 | h1
      · obtain ⟨p, hp, hf⟩ := h.fsound x h1
        exact ⟨p, s.ext _ _ hp, hf⟩
      · simp only [Bool.and_eq_true, List.contains_iff_mem] at hfin
        rw [List.mem_singleton.mp h1]
        exact ⟨pr, hpr', hfin.1, hfin.2⟩
    · obtain ⟨p, hp, hf⟩ := h.fsound x hx
      exact ⟨p, s.ext _ _ hp, hf⟩
  · intro p j hp hj hfa hfb
    rcases done_back s.ok s.ext h.hns hpr hp hj with h1 | ⟨h1, h2⟩
    · subst h1
      have hjk : j = k := by rw [hpr'] at hp; exact (Option.some.inj hp).symm
      rw [if_pos (by simp only [Bool.and_eq_true, List.contains_iff_mem]; exact ⟨hfa, hfb⟩), hjk]
      exact List.mem_append_right _ List.mem_cons_self
    · exact hfsub _ (h.fcomplete p j h1 h2 hfa hfb)

theorem buLoop_inv {A B : TA} : ∀ (n : Nat) (m : PMap) (st : List BUEntry) (ns : List Nat) (rs : List Rule) (fs : List Nat)
    (m' : PMap) (rs' : List Rule) (fs' : List Nat), BInv A B m st ns rs fs →
    buLoop A B n m st ns rs fs = some (m', rs', fs') → Ext m m' ∧ ∃ ns', BInv A B m' [] ns' rs' fs'
  | 0, m, st, ns, rs, fs, m', rs', fs', h, he => by
    simp only [buLoop] at he
    split at he
    · rename_i hs
      have hs' : st = [] := List.isEmpty_iff.mp hs
      simp only [Option.some.injEq, Prod.mk.injEq] at he
      obtain ⟨rfl, rfl, rfl⟩ := he
      subst hs'
      exact ⟨Ext.refl _, ns, h⟩
    · cases he
  | n+1, m, [], ns, rs, fs, m', rs', fs', h, he => by
    simp only [buLoop, Option.some.injEq, Prod.mk.injEq] at he
    obtain ⟨rfl, rfl, rfl⟩ := he
    exact ⟨Ext.refl _, ns, h⟩
  | n+1, m, e :: st, ns, rs, fs, m', rs', fs', h, he => by
    simp only [buLoop] at he
    split at he
    · rename_i hc
      exact buLoop_inv n m st ns rs fs m' rs' fs' (h.skip (List.contains_iff_mem.mp hc)) he
    · obtain ⟨h3, h4⟩ := buLoop_inv n _ _ _ _ _ m' rs' fs' h.pop he
      refine ⟨Ext.trans ?_ h3, h4⟩
      exact (buProcAll_spec (A := A) (B := B) (buMatching A B e.1) m st rs h.ok h.num
        (fun rr hrr => (mem_buMatching.mp hrr).1)).1.ext

/-- the invariant holds after the leaf phase -/
theorem init_inv (A B : TA) :
    BInv A B (buLeafPhase A B (buLeafPairs A B) [] [] [] []).1 (buLeafPhase A B (buLeafPairs A B) [] [] [] []).2.1 []
      (buLeafPhase A B (buLeafPairs A B) [] [] [] []).2.2.1 (buLeafPhase A B (buLeafPairs A B) [] [] [] []).2.2.2 := by
  obtain ⟨s, c, f⟩ := buLeafPhase_spec (A := A) (B := B) (buLeafPairs A B) [] [] [] [] mapOk_nil numOk_nil
    (fun rr hrr => mem_buLeafPairs.mp hrr)
  refine ⟨s.ok, s.num, ?_, ?_, fun k hk => by simp at hk, ?_, ?_, ?_, fun _ _ _ hk => by simp at hk⟩
  · intro e he
    rcases s.st_new e he with h1 | h1
    · simp at h1
    · exact h1
  · intro p n hp
    rcases s.dom_new p n hp with h1 | h1
    · simp at h1
    · exact Or.inl h1
  · intro ρ hρ
    rcases s.rs_new ρ hρ with h1 | h1
    · simp at h1
    · exact h1
  · intro r r' hm hdone
    have hk : r.kids = [] := by
      cases hrk : r.kids with
      | nil => rfl
      | cons a as =>
        cases hrk' : r'.kids with
        | nil => have := hm.2.2.2; rw [hrk, hrk'] at this; simp at this
        | cons b bs =>
          obtain ⟨j, _, hj⟩ := hdone (a, b) (by rw [hrk, hrk']; simp [List.zip_cons_cons])
          simp at hj
    exact c (r, r') (mem_buLeafPairs.mpr ⟨hm, hk⟩)
  · intro x hx
    rcases f x hx with h1 | h1
    · simp at h1
    · exact h1

/-- on an empty stack the invariant implies the certificate check -/
theorem binv_cert {A B : TA} {m : PMap} {ns : List Nat} {rs : List Rule} {fs : List Nat} (h : BInv A B m [] ns rs fs) :
    buCertB A B m rs fs = true := by
  have hdone : ∀ x, x ∈ m.dom → Done m ns x := by
    intro x hx
    obtain ⟨n, hn⟩ := mem_dom_iff.mp hx
    rcases h.hdom x n hn with h1 | h1
    · simp at h1
    · exact ⟨n, hn, h1⟩
  simp only [buCertB, Bool.and_eq_true]
  refine ⟨⟨⟨pmapInjB_of_numOk h.num, ?_⟩, ?_⟩, ?_⟩
  · rw [buClosedB_iff]
    intro r hr r' hr' hs hl hd
    exact (h.complete r r' ⟨hr, hr', hs, hl⟩ (fun x hx => hdone x (hd x hx))).1
  · rw [rulesEq_iff]
    intro ρ
    rw [mem_prodRulesBU]
    constructor
    · intro hρ
      obtain ⟨r, r', ⟨h1, h2, h3, h4⟩, _, h6, h7⟩ := h.sound ρ hρ
      exact ⟨r, h1, r', h2, h3, h4, h6, h7⟩
    · rintro ⟨r, h1, r', h2, h3, h4, h6, h7⟩
      rw [h7]
      exact (h.complete r r' ⟨h1, h2, h3, h4⟩ (fun x hx => hdone x (h6 x hx))).2
  · rw [seteq_iff]
    intro x
    rw [mem_prodFinalBU]
    constructor
    · intro hx
      obtain ⟨pr, hp, hfa, hfb⟩ := h.fsound x hx
      exact ⟨pr, mem_dom_iff.mpr ⟨x, hp⟩, hfa, hfb, by simp only [lookupF, hp, Option.getD_some]⟩
    · rintro ⟨pr, hpd, hfa, hfb, hx⟩
      obtain ⟨k, hk, hkn⟩ := hdone pr hpd
      have : x = k := by rw [← hx]; simp only [lookupF, hk, Option.getD_some]
      rw [this]
      exact h.fcomplete pr k hk hkn hfa hfb

end Ibu

/-- the certificate check of `isectBU` cannot fail: whenever the loop ends within the fuel, the model returns its result -/
theorem isectBU_of_loop {A B : TA} {fuel : Nat} {m : PMap} {rs : List Rule} {fs : List Nat}
    (h : buLoop A B fuel (buLeafPhase A B (buLeafPairs A B) [] [] [] []).1
      (buLeafPhase A B (buLeafPairs A B) [] [] [] []).2.1 []
      (buLeafPhase A B (buLeafPairs A B) [] [] [] []).2.2.1 (buLeafPhase A B (buLeafPairs A B) [] [] [] []).2.2.2 = some (m, rs, fs)) :
    isectBU A B fuel = some (⟨rs, fs⟩, m) := by
  obtain ⟨_, ns', hinv⟩ := Ibu.buLoop_inv fuel _ _ _ _ _ m rs fs (Ibu.init_inv A B) h
  unfold isectBU
  simp only [h]
  rw [if_pos (Ibu.binv_cert hinv)]

/-- `isectBU` returns `none` only when the fuel is exhausted -/
theorem isectBU_none_iff {A B : TA} {fuel : Nat} :
    isectBU A B fuel = none ↔ buLoop A B fuel (buLeafPhase A B (buLeafPairs A B) [] [] [] []).1
      (buLeafPhase A B (buLeafPairs A B) [] [] [] []).2.1 []
      (buLeafPhase A B (buLeafPairs A B) [] [] [] []).2.2.1 (buLeafPhase A B (buLeafPairs A B) [] [] [] []).2.2.2 = none := by
  constructor
  · intro hn
    cases hl : buLoop A B fuel (buLeafPhase A B (buLeafPairs A B) [] [] [] []).1
      (buLeafPhase A B (buLeafPairs A B) [] [] [] []).2.1 []
      (buLeafPhase A B (buLeafPairs A B) [] [] [] []).2.2.1 (buLeafPhase A B (buLeafPairs A B) [] [] [] []).2.2.2 with
    | none => rfl
    | some res =>
      obtain ⟨m, rs, fs⟩ := res
      rw [isectBU_of_loop hl] at hn
      cases hn
  · intro hl
    unfold isectBU
    simp only [hl]

-- non-vacuity: the loop of the examples ends within the fuel
example : ∃ m rs fs, buLoop IsectBUEx.exS IsectBUEx.exL 20
    (buLeafPhase IsectBUEx.exS IsectBUEx.exL (buLeafPairs IsectBUEx.exS IsectBUEx.exL) [] [] [] []).1
    (buLeafPhase IsectBUEx.exS IsectBUEx.exL (buLeafPairs IsectBUEx.exS IsectBUEx.exL) [] [] [] []).2.1 []
    (buLeafPhase IsectBUEx.exS IsectBUEx.exL (buLeafPairs IsectBUEx.exS IsectBUEx.exL) [] [] [] []).2.2.1
    (buLeafPhase IsectBUEx.exS IsectBUEx.exL (buLeafPairs IsectBUEx.exS IsectBUEx.exL) [] [] [] []).2.2.2 = some (m, rs, fs) :=
  ⟨_, _, _, rfl⟩
example : (isectBU IsectBUEx.exS IsectBUEx.exL 20).isSome = true := by decide

end Vata
