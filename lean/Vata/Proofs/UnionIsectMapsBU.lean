import Vata.UnionIsectMaps
import Vata.Proofs.IsectBUInv
/-!
# Property C02 – `IntersectionBU` started from a caller-supplied map (`isectBUFrom`, `Vata/UnionIsectMaps.lean`)

* `isectBUFrom_nil`          from the EMPTY map `isectBUFrom` is `isectBU` (whose final certificate check never fails), so
                             everything proved about `isectBU` holds for the as-coded output
* `isectBUFrom_lang_empty`   in particular the language is the intersection
* `IsectBUFromEx`            `decide`d runs with pre-filled maps.  Unlike `Intersection`, `IntersectionBU` pushes an entry
                             after EVERY rule it writes and in the leaf phase (`stack.push_back(&*productState)`,
                             `stack.push_back(&*newProduct)`, whether or not the pair was new), so a pre-filled pair is
                             processed as soon as it is reached bottom-up: the runs that go wrong for `Intersection`
                             (`IsectFromEx.unexplored_counterexample`, `reuse_counterexample`) are right here.  Numbers that
                             are not below the size still collide (`bu_collision_counterexample`; here the language gets too
                             SMALL, because `newStates` is keyed by the number and the second pair with the number is skipped).
No general theorem about `isectBUFrom` with a non-empty `MapOk` map is proved (see `Vata/Properties/C02_Maps.lean`).
-/
namespace Vata

/-- from the empty map the as-coded output is the certified one -/
theorem isectBUFrom_nil (A B : TA) (fuel : Nat) : isectBUFrom A B [] fuel = isectBU A B fuel := by
  cases hl : buLoop A B fuel (buLeafPhase A B (buLeafPairs A B) [] [] [] []).1
      (buLeafPhase A B (buLeafPairs A B) [] [] [] []).2.1 []
      (buLeafPhase A B (buLeafPairs A B) [] [] [] []).2.2.1 (buLeafPhase A B (buLeafPairs A B) [] [] [] []).2.2.2 with
  | none =>
    rw [isectBU_none_iff.mpr hl]
    unfold isectBUFrom
    simp only [hl]
  | some res =>
    obtain ⟨m, rs, fs⟩ := res
    rw [isectBU_of_loop hl]
    unfold isectBUFrom
    simp only [hl]

theorem isectBUFrom_lang_empty {A B : TA} {fuel : Nat} {P : TA} {m : PMap} (h : isectBUFrom A B [] fuel = some (P, m))
    (t : Tree) : accepts P t = (accepts A t && accepts B t) := by
  rw [isectBUFrom_nil] at h
  exact isectBU_lang h t

theorem isectBUFrom_map_inj_empty {A B : TA} {fuel : Nat} {P : TA} {m : PMap} (h : isectBUFrom A B [] fuel = some (P, m)) :
    InjOn (lookupF m) m.dom := by
  rw [isectBUFrom_nil] at h
  exact isectBU_map_inj h

namespace IsectBUFromEx

/-- `a → 0`, `h(0) → 1`, final `1`: the language is `{h(a)}` -/
def exA : TA := ⟨[⟨0, [], 0⟩, ⟨2, [0], 1⟩], [1]⟩
def tA : Tree := .node 0 []
def tHA : Tree := .node 2 [.node 0 []]

def obs (r : Option (TA × PMap)) : Option (List Rule × List Nat × PMap) := r.map (fun r => (r.1.rules, r.1.final, r.2))

example : obs (isectBUFrom exA exA [] 6) = some ([⟨0, [], 0⟩, ⟨2, [0], 1⟩], [1], [((0, 0), 0), ((1, 1), 1)]) := by decide
-- the pre-filled maps for which `Intersection` is wrong: `IntersectionBU` is right
example : obs (isectBUFrom exA exA [((0, 0), 0)] 6) = some ([⟨0, [], 0⟩, ⟨2, [0], 1⟩], [1], [((0, 0), 0), ((1, 1), 1)]) := by
  decide
example : obs (isectBUFrom exA exA [((1, 1), 0), ((0, 0), 1)] 6) =
    some ([⟨0, [], 1⟩, ⟨2, [1], 0⟩], [0], [((1, 1), 0), ((0, 0), 1)]) := by decide
-- re-use of the map of a previous `IntersectionBU`
example : obs (isectBUFrom exA exA [((0, 0), 0), ((1, 1), 1)] 6) =
    some ([⟨0, [], 0⟩, ⟨2, [0], 1⟩], [1], [((0, 0), 0), ((1, 1), 1)]) := by decide
-- a pre-filled pair that is never reached bottom-up stays in the map and gets no rules
example : obs (isectBUFrom exA exA [((0, 1), 0)] 6) =
    some ([⟨0, [], 1⟩, ⟨2, [1], 2⟩], [2], [((0, 1), 0), ((0, 0), 1), ((1, 1), 2)]) := by decide

/-- **numbers that are not below the size: the language is too small.**  `IntersectionBU(A, A, &m)` with `A = {h(a)}` and
`m = {(1,1) ↦ 1}` on entry: the leaf pair `(0,0)` gets the fresh number `size() = 1`; when `(1,1)` is popped its number is
already in `newStates`, it is skipped and never marked final.  The result has no final state although `h(a)` is in the
intersection -/
theorem bu_collision_counterexample :
    obs (isectBUFrom exA exA [((1, 1), 1)] 6) = some ([⟨0, [], 1⟩, ⟨2, [1], 1⟩], [], [((1, 1), 1), ((0, 0), 1)]) ∧
    (isectBUFrom exA exA [((1, 1), 1)] 6).map (fun r => accepts r.1 tHA) = some false ∧ accepts exA tHA = true :=
  ⟨by decide, by decide, by decide⟩

example : ∃ P m, isectBUFrom exA exA [] 6 = some (P, m) ∧ ∀ t, accepts P t = (accepts exA t && accepts exA t) := by
  cases h : isectBUFrom exA exA [] 6 with
  | none => exact absurd h (by decide)
  | some r => exact ⟨r.1, r.2, rfl, isectBUFrom_lang_empty h⟩

end IsectBUFromEx

end Vata
