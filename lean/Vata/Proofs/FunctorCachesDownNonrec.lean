import Vata.FunctorCachesDownNonrec
import Vata.Proofs.FunctorCachesDownOptGen
import Vata.Proofs.FunctorCachesDownRun
/-!
# The caches of the non-recursive downward inclusion algorithm are transparent – with the library's deleter (C01)

Model: `Vata/FunctorCachesDownNonrec.lean`; cache-free model: `InclDown.expandN` / `cachedCall` / `rootLoopN`.

The simulation relation is `FCD.DRel` (of `Vata/Proofs/FunctorCachesDownSim.lean`) on the projection of the state that forgets
the variable `S` and the pool of reclaimed frames: the handles left in reclaimed frames are never compared, they only keep
objects alive longer, so every `hCollect` whose roots contain the handles the relation speaks about preserves it
(`DRel.collect`).  `lookupS_rel`: `S = biggerTypeCache.lookup(..)` with any allocator; `callSimN_rel`, `callStdN_rel`: the two
call sites; `expandNC_rel`: the induction on the depth of the emulated calls; `runNC_eq` and the certify-then-trust models.
-/
namespace Vata
namespace FCD
open Vata.InclDown Vata.CM
open Vata.FCU (Heap hval hLookup hCollect Live pickLeast)
open Vata.InclUp (normS prodWit Wit)

/-- forget `S` and the pool -/
def projN (s : StN) : StC := ⟨s.nonIncl, s.trues, s.h⟩

def DRelN (o : Ord) (ctx : List (Nat × List Nat)) (cc : List CP) (s : StN) (ccV : List Pair) (st : St) : Prop :=
  DRel o ctx cc (projN s) ccV st

/-- deaths with roots that contain every handle the relation speaks about -/
theorem DRel.collect {o : Ord} {ctx : List (Nat × List Nat)} {ccC : List CP} {stC : StC} {cc : List Pair} {st : St}
    (h : DRel o ctx ccC stC cc st) (roots : List Nat)
    (hcov : ∀ a, ((∃ x, x ∈ ctx ∧ x.1 = a) ∨ (∃ x, x ∈ ccC ∧ x.2 = a) ∨ (∃ x, x ∈ stC.nonIncl ∧ x.2.1 = a)) → a ∈ roots) :
    DRel o ctx ccC { stC with h := hCollect .lib roots stC.h } cc st := by
  obtain ⟨g1, g2⟩ := hCollectD_spec h.hi roots
  exact h.heap g1 (fun a ha hl => g2 a (hcov a ha) hl) (fun _ hx => hx)

theorem mem_rootsN {bf : Nat} {frozen : List Nat} {cc : List CP} {st : StN} {a : Nat} :
    a ∈ rootsN bf frozen cc st ↔ a = bf ∨ a = st.S ∨ a ∈ frozen ∨ (∃ x, x ∈ cc ∧ x.2 = a) ∨
      (∃ x, x ∈ st.nonIncl ∧ x.2.1 = a) ∨ a ∈ st.pool.flatMap FrameN.handles := by
  simp only [rootsN, List.mem_cons, List.mem_append, List.mem_map, or_assoc]

/-- the deaths of the model keep the relation: the frozen handles, `S`, `top.childrenCache` and `nonincluded` are roots -/
theorem DRelN.collect {o : Ord} {ctx : List (Nat × List Nat)} {ccC : List CP} {s : StN} {cc : List Pair} {st : St}
    (h : DRelN o ctx ccC s cc st) (bf : Nat) {frozen : List Nat} (hroots : ∀ x, x ∈ ctx → x.1 ∈ frozen ∨ x.1 = s.S) :
    DRelN o ctx ccC { s with h := hCollect .lib (rootsN bf frozen ccC s) s.h } cc st := by
  refine DRel.collect (stC := projN s) h _ (fun a ha => mem_rootsN.mpr ?_)
  rcases ha with ⟨x, hx, rfl⟩ | hcc | hni
  · rcases hroots x hx with hx | hx
    · exact Or.inr (Or.inr (Or.inl hx))
    · exact Or.inr (Or.inl hx)
  · exact Or.inr (Or.inr (Or.inr (Or.inl hcc)))
  · exact Or.inr (Or.inr (Or.inr (Or.inr (Or.inl hni))))

/-- `S = biggerTypeCache.lookup(Q)` with any allocator: afterwards `S` is live with value `Q` -/
theorem lookupS_rel {o : Ord} (pick : List Nat → Nat) {ctx : List (Nat × List Nat)} {ccC : List CP} {s : StN}
    {cc : List Pair} {st : St} (h : DRelN o ctx ccC s cc st) (bf : Nat) {frozen : List Nat}
    (hroots : ∀ x, x ∈ ctx → x.1 ∈ frozen) (Q : List Nat) :
    DRelN o (((lookupS .lib pick bf frozen ccC s Q).S, Q) :: ctx) ccC (lookupS .lib pick bf frozen ccC s Q) cc st ∧
    (lookupS .lib pick bf frozen ccC s Q).nonIncl = s.nonIncl ∧ (lookupS .lib pick bf frozen ccC s Q).trues = s.trues := by
  obtain ⟨l1, l2, l3, l4⟩ := hLookupD_spec pick h.hi Q
  have h1 : DRel o ctx ccC { projN s with h := (hLookup pick s.h Q).1 } cc st :=
    DRel.heap h l1 (fun a _ ha => l4 a ha) (fun _ hx => hx)
  have h2 := DRel.cons h1 (a := (hLookup pick s.h Q).2) (Q := Q) l2 l3
  refine ⟨?_, rfl, rfl⟩
  have h3 : DRelN o (((hLookup pick s.h Q).2, Q) :: ctx) ccC { s with h := (hLookup pick s.h Q).1, S := (hLookup pick s.h Q).2 }
      cc st := h2
  refine DRelN.collect h3 bf (fun x hx => ?_)
  rcases List.mem_cons.mp hx with rfl | hx
  · exact Or.inr rfl
  · exact Or.inl (hroots x hx)

/-- the `childrenCache` of the calling frame is frozen while the emulated call runs -/
theorem DRel.freeze {o : Ord} {ctx : List (Nat × List Nat)} {ccC : List CP} {stC : StC} {cc : List Pair} {st : St}
    (h : DRel o ctx ccC stC cc st) :
    DRel o (ctx ++ ccC.map (fun x => (x.2, hval stC.h x.2))) [] stC [] st := by
  refine ⟨h.hi, ?_, (fun _ hx => by cases hx), h.lni, rfl, h.eni, h.etr⟩
  intro x hx
  rcases List.mem_append.mp hx with hx | hx
  · exact h.ok x hx
  · obtain ⟨y, hy, rfl⟩ := List.mem_map.mp hx
    exact ⟨h.lcc y hy, rfl⟩

theorem DRel.thaw {o : Ord} {ctx : List (Nat × List Nat)} {ccC : List CP} {h0 : Heap} {stC : StC} {cc : List Pair} {st : St}
    (hecc : ccC.map (derefP h0) = cc)
    (h : DRel o (ctx ++ ccC.map (fun x => (x.2, hval h0 x.2))) [] stC [] st) : DRel o ctx ccC stC cc st := by
  have hl : ∀ x, x ∈ ccC → Live stC.h x.2 ∧ hval stC.h x.2 = hval h0 x.2 := fun x hx =>
    h.ok (x.2, hval h0 x.2) (List.mem_append.mpr (Or.inr (List.mem_map.mpr ⟨x, hx, rfl⟩)))
  refine ⟨h.hi, fun x hx => h.ok x (List.mem_append.mpr (Or.inl hx)), fun x hx => (hl x hx).1, h.lni, ?_, h.eni, h.etr⟩
  rw [← hecc]
  apply List.map_congr_left
  intro x hx
  simp only [derefP, (hl x hx).2]

/-- the result of an emulated call against the result of `expandN`: same verdict, the caller's cache is passed through, `S` is
the argument again -/
def RetRelN (o : Ord) (ctx : List (Nat × List Nat)) (S0 : Nat) (ccV : List Pair) : Option (Verdict × StN) → Ret → Prop
  | none, none => True
  | some (v, s'), some (v', cc', st') => v = v' ∧ cc' = ccV ∧ s'.S = S0 ∧ DRelN o ctx [] s' [] st'
  | _, _ => False

theorem retRelN_elim {o : Ord} {ctx : List (Nat × List Nat)} {S0 : Nat} {ccV : List Pair} {rc : Option (Verdict × StN)}
    {r : Ret} (h : RetRelN o ctx S0 ccV rc r) :
    (rc = none ∧ r = none) ∨
    ∃ v s' st', rc = some (v, s') ∧ r = some (v, ccV, st') ∧ s'.S = S0 ∧ DRelN o ctx [] s' [] st' := by
  cases rc with
  | none =>
    cases r with
    | none => exact Or.inl ⟨rfl, rfl⟩
    | some y => simp [RetRelN] at h
  | some x =>
    obtain ⟨v, s'⟩ := x
    cases r with
    | none => simp [RetRelN] at h
    | some y =>
      obtain ⟨v', cc', st'⟩ := y
      simp only [RetRelN] at h
      obtain ⟨rfl, rfl, h3, h4⟩ := h
      exact Or.inr ⟨_, _, _, rfl, rfl, h3, h4⟩

/-- the hypothesis on the emulated call used by both call sites -/
def CalleeOK (o : Ord) (ctx : List (Nat × List Nat)) (e : List Nat → StN → Nat → Option (Verdict × StN)) (c : Call) : Prop :=
  ∀ q Q (fz : List (Nat × List Nat)) (s : StN) (st : St) (ccV : List Pair),
    DRelN o ((s.S, Q) :: (ctx ++ fz)) [] s [] st →
    RetRelN o ((s.S, Q) :: (ctx ++ fz)) s.S ccV (e (fz.map (·.1)) s q) (c ccV st q Q)

theorem cons_append_ctx {o : Ord} {ctx fz : List (Nat × List Nat)} {x : Nat × List Nat} {ccC : List CP} {stC : StC}
    {cc : List Pair} {st : St} (h : DRel o ((x :: ctx) ++ fz) ccC stC cc st) : DRel o (x :: (ctx ++ fz)) ccC stC cc st := h

/-- the call site of the first phase -/
theorem callSimN_rel {o : Ord} (pick : List Nat → Nat) {ctx : List (Nat × List Nat)} {bf : Nat} {frozen : List Nat}
    {e : List Nat → StN → Nat → Option (Verdict × StN)} {c : Call} (hroots : ∀ x, x ∈ ctx → x.1 ∈ frozen)
    (he : CalleeOK o ctx e c) : CallRelG (DRelN o ctx) (callSimN .lib pick bf frozen e) c := fun q Q ccC s cc st h => by
  obtain ⟨h2, _, _⟩ := lookupS_rel pick h bf hroots Q
  have h3 := cons_append_ctx (DRel.freeze h2)
  have hfz : (ccC.map (fun x => (x.2, hval (projN (lookupS .lib pick bf frozen ccC s Q)).h x.2))).map (·.1) = ccC.map (·.2) := by
    rw [List.map_map]; rfl
  have hh := he q Q _ _ st cc h3
  rw [hfz] at hh
  simp only [callSimN]
  rcases retRelN_elim hh with ⟨e1, e2⟩ | ⟨v, s', st', e1, e2, hS, hrel⟩
  · simp only [e1, e2]; exact retRelG_none
  · simp only [e1, e2]
    have hrel1 : DRelN o ((s'.S, Q) :: ctx) ccC s' cc st' := by
      rw [hS]
      exact DRel.thaw (ctx := ((lookupS .lib pick bf frozen ccC s Q).S, Q) :: ctx) h2.ecc hrel
    have hrel2 : DRelN o ctx ccC s' cc st' :=
      ⟨hrel1.hi, fun x hx => hrel1.ok x (List.mem_cons_of_mem _ hx), hrel1.lcc, hrel1.lni, hrel1.ecc, hrel1.eni, hrel1.etr⟩
    exact retRelG_some (DRelN.collect hrel2 bf (fun x hx => Or.inl (hroots x hx)))

theorem DRel.tail {o : Ord} {ctx : List (Nat × List Nat)} {x : Nat × List Nat} {ccC : List CP} {stC : StC}
    {cc : List Pair} {st : St} (h : DRel o (x :: ctx) ccC stC cc st) : DRel o ctx ccC stC cc st :=
  ⟨h.hi, fun y hy => h.ok y (List.mem_cons_of_mem _ hy), h.lcc, h.lni, h.ecc, h.eni, h.etr⟩

/-- the call site of the loop over the choice functions, with the tests and updates of `childrenCache` / `nonincluded` -/
theorem callStdN_rel {o : Ord} (hr : ∀ q, o.leB q q = true) (pick : List Nat → Nat) {ctx : List (Nat × List Nat)} {bf : Nat}
    {frozen : List Nat} {e : List Nat → StN → Nat → Option (Verdict × StN)} {c : Call}
    (hroots : ∀ x, x ∈ ctx → x.1 ∈ frozen) (he : CalleeOK o ctx e c) :
    CallRelG (DRelN o ctx) (callStdN o .lib pick bf frozen e) (cachedCall o c) := fun q Q ccC s cc st h => by
  obtain ⟨h2, _, _⟩ := lookupS_rel pick h bf hroots Q
  simp only [callStdN, cachedCall]
  generalize lookupS .lib pick bf frozen ccC s Q = s2 at h2 ⊢
  obtain ⟨ha, hQ⟩ := h2.ok _ List.mem_cons_self
  have ha : Live s2.h s2.S := ha
  have hQ : hval s2.h s2.S = Q := hQ
  obtain ⟨e0, m0, c0⟩ := coversC_spec hr ccC q s2.S h2.hi ha h2.lcc
  have e0' : (coversC o ccC q s2.S s2.h).2 = covers o cc q Q := by
    rw [← h2.ecc, ← hQ]; exact e0
  have h2' : DRelN o ((s2.S, Q) :: ctx) ccC { s2 with h := (coversC o ccC q s2.S s2.h).1 } cc st :=
    DRel.sameStore h2 m0 c0
  rw [e0']
  by_cases hc : covers o cc q Q = true
  · rw [if_pos hc, if_pos hc]
    exact retRelG_some (DRel.tail h2')
  rw [if_neg hc, if_neg hc]
  have h3 := cons_append_ctx (DRel.freeze h2')
  have hfz : (ccC.map (fun x => (x.2, hval (projN { s2 with h := (coversC o ccC q s2.S s2.h).1 }).h x.2))).map (·.1)
      = ccC.map (·.2) := by
    rw [List.map_map]; rfl
  have hh := he q Q _ { s2 with h := (coversC o ccC q s2.S s2.h).1 } st cc h3
  rw [hfz] at hh
  rcases retRelN_elim hh with ⟨e1, e2⟩ | ⟨v, s', st', e1, e2, hS, hrel⟩
  · simp only [e1, e2]; exact retRelG_none
  · simp only [e1, e2]
    have hS : s'.S = s2.S := hS
    have hrel1 : DRelN o ((s2.S, Q) :: ctx) ccC s' cc st' :=
      DRel.thaw (ctx := (s2.S, Q) :: ctx) h2'.ecc hrel
    obtain ⟨ha', hQ'⟩ := hrel1.ok _ List.mem_cons_self
    have ha' : Live s'.h s2.S := ha'
    have hQ' : hval s'.h s2.S = Q := hQ'
    cases v with
    | holds =>
      simp only []
      obtain ⟨e4, m4, c4⟩ := refC_spec hr true (fun x : CP => o.leA x.1 q) (·.2) s2.S ccC s'.h hrel1.hi ha' hrel1.lcc
      have hrel4 : DRelN o ctx ((refC o true (fun x : CP => o.leA x.1 q) (·.2) s2.S ccC s'.h).2 ++ [(q, s2.S)])
          { s' with h := (refC o true (fun x : CP => o.leA x.1 q) (·.2) s2.S ccC s'.h).1 }
          (cc.filter (fun x => !(o.leA x.1 q && setLe o Q x.2)) ++ [(q, Q)]) st' := by
        refine ⟨m4, ?_, ?_, ?_, ?_, ?_, hrel1.etr⟩
        · intro x hx
          obtain ⟨l, v⟩ := hrel1.ok x (List.mem_cons_of_mem _ hx)
          exact ⟨(FCU.live_store c4 _).mpr l, (FCU.hval_store c4 _).trans v⟩
        · intro x hx
          apply (FCU.live_store c4 _).mpr
          rcases List.mem_append.mp hx with hx | hx
          · rw [e4] at hx
            exact hrel1.lcc x (List.mem_filter.mp hx).1
          · rw [List.mem_singleton.mp hx]; exact ha'
        · intro x hx
          exact (FCU.live_store c4 _).mpr (hrel1.lni x hx)
        · show ((refC o true (fun x : CP => o.leA x.1 q) (·.2) s2.S ccC s'.h).2 ++ [(q, s2.S)]).map
            (derefP (refC o true (fun x : CP => o.leA x.1 q) (·.2) s2.S ccC s'.h).1) = _
          rw [derefP_store c4, e4, List.map_append, ← hrel1.ecc, List.filter_map]
          have hf : (fun x : CP => !(o.leA x.1 q && cmpV o true s'.h x.2 s2.S)) =
              ((fun x : Pair => !(o.leA x.1 q && setLe o Q x.2)) ∘ derefP (projN s').h) := by
            funext x
            simp only [cmpV, Function.comp, derefP, if_true]
            rw [hQ']; rfl
          rw [hf]
          simp only [List.map_cons, List.map_nil, derefP]
          rw [hQ']; rfl
        · show s'.nonIncl.map (derefN (refC o true (fun x : CP => o.leA x.1 q) (·.2) s2.S ccC s'.h).1) = _
          rw [derefN_store c4]; exact hrel1.eni
      exact retRelG_some (DRelN.collect hrel4 bf (fun x hx => Or.inl (hroots x hx)))
    | fails t =>
      simp only []
      obtain ⟨e4, m4, c4, s4⟩ := niAddC_spec hr s'.nonIncl q s2.S t hrel1.hi ha' hrel1.lni
      have m4 : HInvD o (niAddC o s'.nonIncl q s2.S t s'.h).1 := m4
      have c4 : (niAddC o s'.nonIncl q s2.S t s'.h).1.store = s'.h.store := c4
      have s4 : ∀ x, x ∈ (niAddC o s'.nonIncl q s2.S t s'.h).2 → x ∈ s'.nonIncl ∨ x = (q, s2.S, t) := s4
      have e4' : (niAddC o s'.nonIncl q s2.S t s'.h).2.map (derefN s'.h) = niAdd o st'.nonIncl q Q t := by
        rw [← hrel1.eni, ← hQ']; exact e4
      have hrel4 : DRelN o ctx ccC
          { s' with nonIncl := (niAddC o s'.nonIncl q s2.S t s'.h).2, h := (niAddC o s'.nonIncl q s2.S t s'.h).1 } cc
          ⟨niAdd o st'.nonIncl q Q t, st'.trues⟩ := by
        refine ⟨m4, ?_, ?_, ?_, ?_, ?_, hrel1.etr⟩
        · intro x hx
          obtain ⟨l, v⟩ := hrel1.ok x (List.mem_cons_of_mem _ hx)
          exact ⟨(FCU.live_store c4 _).mpr l, (FCU.hval_store c4 _).trans v⟩
        · intro x hx
          exact (FCU.live_store c4 _).mpr (hrel1.lcc x hx)
        · intro x hx
          apply (FCU.live_store c4 _).mpr
          rcases s4 x hx with hx | rfl
          · exact hrel1.lni x hx
          · exact ha'
        · show ccC.map (derefP (niAddC o s'.nonIncl q s2.S t s'.h).1) = _
          rw [derefP_store c4]; exact hrel1.ecc
        · show (niAddC o s'.nonIncl q s2.S t s'.h).2.map (derefN (niAddC o s'.nonIncl q s2.S t s'.h).1) = _
          rw [derefN_store c4]; exact e4'
      exact retRelG_some (DRelN.collect hrel4 bf (fun x hx => Or.inl (hroots x hx)))

/-- **an emulated call with its caches simulates `InclDown.expandN`**, for every allocator, with the library's deleter -/
theorem expandNC_rel {o : Ord} (hr : ∀ q, o.leB q q = true) (pick : List Nat → Nat) (A B : TA) (wit : Wit) (bf : Nat) :
    ∀ (fuel : Nat) (ws : List CP) (outer : List Nat) (wsV : List Pair) (ctx : List (Nat × List Nat)),
    (∀ h, CtxOK h ctx → ws.map (derefP h) = wsV) → (∀ x, x ∈ ws → ∃ V, (x.2, V) ∈ ctx) →
    ∀ (pb : Option Nat) (p : Nat) (P : List Nat) (s : StN) (st : St) (ccV : List Pair), (s.S, P) ∈ ctx →
    (∀ x, x ∈ ctx → x.1 = s.S ∨ x.1 ∈ ws.map (·.2) ∨ x.1 ∈ outer) →
    DRelN o ctx [] s [] st →
    RetRelN o ctx s.S ccV (expandNC o .lib pick A B wit bf fuel ws outer pb s p) (expandN o A B wit fuel wsV ccV st p P)
  | 0, _, _, _, _, _, _, _, _, _, _, _, _, _, _, _ => by simp [expandNC, expandN, RetRelN]
  | fuel+1, ws, outer, wsV, ctx, hws, hwc, pb, p, P, s, st, ccV, hmem, hcov, h => by
    obtain ⟨ha, hP⟩ := h.ok _ hmem
    have ha : Live s.h s.S := ha
    have hP : hval s.h s.S = P := hP
    have hwsl : ∀ x, x ∈ ws → Live s.h x.2 := fun x hx => by
      obtain ⟨V, hV⟩ := hwc x hx
      exact (h.ok _ hV).1
    simp only [expandNC, expandN]
    rw [hP]
    by_cases hc0 : byPre o p P = true
    · rw [if_pos hc0, if_pos hc0]; exact ⟨rfl, rfl, rfl, h⟩
    rw [if_neg hc0, if_neg hc0]
    -- workset.contains
    obtain ⟨e1, m1, c1⟩ := coversC_spec hr ws p s.S h.hi ha hwsl
    have e1 : (coversC o ws p s.S s.h).2 = covers o wsV p P := by
      rw [← hws _ h.ok, ← hP]; exact e1
    have m1 : HInvD o (coversC o ws p s.S s.h).1 := m1
    have c1 : (coversC o ws p s.S s.h).1.store = s.h.store := c1
    rw [e1]
    by_cases hc1 : covers o wsV p P = true
    · rw [if_pos hc1, if_pos hc1]; exact ⟨rfl, rfl, rfl, DRel.sameStore h m1 c1⟩
    rw [if_neg hc1, if_neg hc1]
    have h1 : DRelN o ctx [] { s with h := (coversC o ws p s.S s.h).1 } [] st := DRel.sameStore h m1 c1
    -- nonincluded.contains
    obtain ⟨e2, m2, c2⟩ := niFindC_spec hr s.nonIncl p s.S m1 ((FCU.live_store c1 _).mpr ha) h1.lni
    have e2 : ((niFindC o s.nonIncl p s.S (coversC o ws p s.S s.h).1).2).map (derefN (coversC o ws p s.S s.h).1) =
        niFind o st.nonIncl p P := by
      rw [← h1.eni, ← hP, ← FCU.hval_store c1]; exact e2
    have c2' := c2.trans c1
    cases hn : (niFindC o s.nonIncl p s.S (coversC o ws p s.S s.h).1).2 with
    | some x =>
      rw [hn] at e2
      simp only [Option.map_some] at e2
      rw [← e2]
      exact ⟨rfl, rfl, rfl, DRel.sameStore h m2 c2'⟩
    | none =>
      rw [hn] at e2
      simp only [Option.map_none] at e2
      rw [← e2]
      simp only []
      -- EXPAND_PUSH, clear(): the stale frame goes
      have h2 : DRelN o ctx []
          { s with h := (niFindC o s.nonIncl p s.S (coversC o ws p s.S s.h).1).1, pool := s.pool.drop 1 } [] st :=
        DRel.sameStore h m2 c2'
      have hfro : ∀ x, x ∈ ctx → x.1 ∈ s.S :: ws.map (·.2) ++ outer := by
        intro x hx
        simp only [List.cons_append, List.mem_cons, List.mem_append]
        rcases hcov x hx with hx | hx | hx
        · exact Or.inl hx
        · exact Or.inr (Or.inl hx)
        · exact Or.inr (Or.inr hx)
      have h3 := DRelN.collect h2 bf (frozen := s.S :: ws.map (·.2) ++ outer) (fun x hx => Or.inl (hfro x hx))
      obtain ⟨_, hP3⟩ := h3.ok _ hmem
      have hcallee : CalleeOK o ctx
          (fun extra => expandNC o .lib pick A B wit bf fuel ((p, s.S) :: ws) (outer ++ extra) (some s.S))
          (expandN o A B wit fuel ((p, P) :: wsV)) := by
        intro q Q fz s1 st1 ccV1 hrel
        have hsub : ∀ x, x ∈ ctx → x ∈ (s1.S, Q) :: (ctx ++ fz) := fun x hx =>
          List.mem_cons_of_mem _ (List.mem_append.mpr (Or.inl hx))
        apply expandNC_rel hr pick A B wit bf fuel
        · intro hh hok
          have hok' : CtxOK hh ctx := fun x hx => hok x (hsub x hx)
          simp only [List.map_cons, hws hh hok', derefP, (hok' _ hmem).2]
        · intro x hx
          rcases List.mem_cons.mp hx with rfl | hx
          · exact ⟨P, hsub _ hmem⟩
          · obtain ⟨V, hV⟩ := hwc x hx
            exact ⟨V, hsub _ hV⟩
        · exact List.mem_cons_self
        · intro x hx
          simp only [List.map_cons, List.mem_cons, List.mem_append, List.mem_map]
          rcases List.mem_cons.mp hx with rfl | hx
          · exact Or.inl rfl
          · rcases List.mem_append.mp hx with hx | hx
            · rcases hcov x hx with hx | hx | hx
              · exact Or.inr (Or.inl (Or.inl hx))
              · exact Or.inr (Or.inl (Or.inr (List.mem_map.mp hx)))
              · exact Or.inr (Or.inr (Or.inl hx))
            · exact Or.inr (Or.inr (Or.inr ⟨x, hx, rfl⟩))
        · exact hrel
      have hcall1 := callSimN_rel pick (bf := bf) hfro hcallee
      have hcall2 := callStdN_rel hr pick (bf := bf) hfro hcallee
      have hP3' : hval (hCollect Wiring.lib (rootsN bf (s.S :: ws.map (·.2) ++ outer) []
          { s with h := (niFindC o s.nonIncl p s.S (coversC o ws p s.S s.h).1).1, pool := s.pool.drop 1 })
          (niFindC o s.nonIncl p s.S (coversC o ws p s.S s.h).1).1) s.S = P := hP3
      rw [hP3']
      rcases retRelG_elim (bodyG_rel hcall1 hcall2 A B wit (fun l => normS (maxElems o l [])) p P [] _ [] st h3) with
        ⟨e5, e6⟩ | ⟨v, cc1, s', cc1V, stV, e5, e6, hb⟩
      · rw [e5, e6]; trivial
      · rw [e5, e6]
        obtain ⟨_, hP'⟩ := hb.ok _ hmem
        have hP' : hval s'.h s.S = P := hP'
        cases v with
        | holds =>
          simp only []
          rw [hP']
          refine ⟨rfl, rfl, rfl, ?_⟩
          exact ⟨hb.hi, hb.ok, (fun _ hx => by cases hx), hb.lni, rfl, hb.eni,
            by show addTrue s'.trues (p, P) = addTrue stV.trues (p, P); rw [show s'.trues = stV.trues from hb.etr]⟩
        | fails t =>
          simp only []
          refine ⟨rfl, rfl, rfl, ?_⟩
          exact ⟨hb.hi, hb.ok, (fun _ hx => by cases hx), hb.lni, rfl, hb.eni, h.etr⟩

/-! ### the whole run -/

def RFinN (o : Ord) : Option (Except Tree StN) → Option (Except Tree St) → Prop
  | none, none => True
  | some (.error t), some (.error t') => t = t'
  | some (.ok s), some (.ok s') =>
    HInvD o s.h ∧ (∀ x, x ∈ s.nonIncl → Live s.h x.2.1) ∧ s.nonIncl.map (derefN s.h) = s'.nonIncl ∧ s.trues = s'.trues
  | _, _ => False

theorem rootLoopNC_rel {o : Ord} (hr : ∀ q, o.leB q q = true) (pick : List Nat → Nat) (A B : TA) (wit : Wit) (fuel : Nat)
    (bf : Nat) (FB : List Nat) : ∀ (fs : List Nat) (s : StN) (st : St), DRelN o [(bf, FB)] [] s [] st →
    RFinN o (rootLoopNC o .lib pick A B wit fuel bf fs s) (rootLoopN o A B wit fuel FB fs st)
  | [], s, st, h => by
    simp only [rootLoopNC, rootLoopN, RFinN]; exact ⟨h.hi, h.lni, h.eni, h.etr⟩
  | f :: fs, s, st, h => by
    have h0 : DRelN o [(bf, FB)] [] { s with S := bf, pool := [] } [] st := h
    have hh := expandNC_rel hr pick A B wit bf fuel [] [] [] [(bf, FB)] (fun _ _ => rfl) (fun x hx => by cases hx)
      none f FB { s with S := bf, pool := [] } st [] List.mem_cons_self
      (fun x hx => Or.inl (by rw [List.mem_singleton.mp hx])) h0
    simp only [rootLoopNC, rootLoopN]
    rcases retRelN_elim hh with ⟨e1, e2⟩ | ⟨v, s', st', e1, e2, _, hrel⟩
    · rw [e1, e2]; trivial
    · rw [e1, e2]
      cases v with
      | holds =>
        simp only []
        apply rootLoopNC_rel hr pick A B wit fuel bf FB fs
        have h1 : DRelN o [(bf, FB)] [] { s' with S := bf, pool := [] } [] st' := hrel
        exact DRelN.collect h1 bf (frozen := []) (fun x hx => Or.inr (by rw [List.mem_singleton.mp hx]))
      | fails t => simp [RFinN]

theorem runNC_rel {o : Ord} (hr : ∀ q, o.leB q q = true) (pick : List Nat → Nat) (A B : TA) (fuel : Nat) :
    RFinN o (runNC o .lib pick A B fuel) (rootLoopN o A B (prodWit A) fuel (normS B.final) (dedup A.final) ⟨[], []⟩) := by
  obtain ⟨l1, l2, l3, _⟩ := hLookupD_spec pick (HInvD.empty o) (normS B.final)
  apply rootLoopNC_rel hr pick A B (prodWit A) fuel
  exact ⟨l1, fun x hx => by rw [List.mem_singleton.mp hx]; exact ⟨l2, l3⟩, (fun _ hx => by cases hx),
    (fun _ hx => by cases hx), rfl, rfl, rfl⟩

theorem viewN_of_RFinN {o : Ord} {rc : Option (Except Tree StN)} {r : Option (Except Tree St)} (h : RFinN o rc r) :
    viewN rc = r := by
  cases rc with
  | none => cases r with
    | none => rfl
    | some y => simp [RFinN] at h
  | some x =>
    cases r with
    | none => cases x <;> simp [RFinN] at h
    | some y =>
      cases x with
      | error t => cases y with
        | error t' => simp only [RFinN] at h; simp [viewN, h]
        | ok s' => simp [RFinN] at h
      | ok s => cases y with
        | error t' => simp [RFinN] at h
        | ok s' =>
          simp only [RFinN] at h
          obtain ⟨_, _, h3, h4⟩ := h
          cases s'
          simp only at h3 h4
          simp [viewN, h3, h4]

/-- **`checkInternal` with its caches = the cache-free `rootLoopN`**: same `return true` / `return false` (with the same ghost
witness), `none` at the same fuel, and on `return true` `nonincluded` read through the heap and the ghost set agree; for every
allocator -/
theorem runNC_eq {o : Ord} (hr : ∀ q, o.leB q q = true) (pick : List Nat → Nat) (A B : TA) (fuel : Nat) :
    viewN (runNC o .lib pick A B fuel) =
      rootLoopN o A B (prodWit A) fuel (normS B.final) (dedup A.final) ⟨[], []⟩ :=
  viewN_of_RFinN (runNC_rel hr pick A B fuel)

theorem truesOfN_runNC_eq {o : Ord} (hr : ∀ q, o.leB q q = true) (pick : List Nat → Nat) (A B : TA) (fuel : Nat) :
    truesOfN (runNC o .lib pick A B fuel) = InclDown.runN o A B fuel := by
  have e : truesOfN (runNC o .lib pick A B fuel) = match viewN (runNC o .lib pick A B fuel) with
      | none => none
      | some (.ok st) => some (.ok st.trues)
      | some (.error w) => some (.error w) := by
    cases runNC o .lib pick A B fuel with
    | none => rfl
    | some x => cases x <;> rfl
  rw [e, runNC_eq hr]; rfl

theorem rawVerdictN_runNC_eq {o : Ord} (hr : ∀ q, o.leB q q = true) (pick : List Nat → Nat) (A B : TA) (fuel : Nat) :
    rawVerdictN (runNC o .lib pick A B fuel) = (InclDown.runN o A B fuel).map (fun r => match r with
      | .ok _ => true
      | .error _ => false) := by
  rw [← truesOfN_runNC_eq hr pick]
  cases runNC o .lib pick A B fuel with
  | none => rfl
  | some x => cases x <;> rfl

/-- **`inclDownNonrec_cached_eq`**: for every allocator `ANTICHAINS_DOWN_NONREC_NOSIM` with `biggerTypeCache`, `lteCache` and the
library's deleter returns exactly what the cache-free model `inclDownNonrec` returns -/
theorem inclDownNonrec_cached_eq (pick : List Nat → Nat) (A B : TA) (fuel : Nat) :
    inclDownNonrecC .lib pick A B fuel = inclDownNonrec A B fuel := by
  unfold inclDownNonrecC inclDownNonrec
  rw [truesOfN_runNC_eq idOrd_refl]

theorem inclDownNonrecSim_cached_eq (pick : List Nat → Nat) (A B : TA) (R : Rel) (fuel : Nat) :
    inclDownNonrecSimC .lib pick A B R fuel = inclDownNonrecSim A B R fuel := by
  unfold inclDownNonrecSimC inclDownNonrecSim
  rw [truesOfN_runNC_eq (ordOf_refl R A B)]

theorem checkInclDownNonrec_cached_eq (pick : List Nat → Nat) (A B : TA) (fuel : Nat) :
    checkInclDownNonrecC .lib pick A B fuel = checkInclDownNonrec A B fuel :=
  inclDownNonrec_cached_eq pick _ _ fuel

/-- the invariant of `lteCache` at the end of a run that returns `true` -/
theorem runNC_heap_sound {o : Ord} (hr : ∀ q, o.leB q q = true) (pick : List Nat → Nat) (A B : TA) (fuel : Nat) {s : StN}
    (hf : runNC o .lib pick A B fuel = some (.ok s)) : HInvD o s.h ∧ heapOKD o s.h = true := by
  have hrel := runNC_rel hr pick A B fuel
  rw [hf] at hrel
  cases hp : rootLoopN o A B (prodWit A) fuel (normS B.final) (dedup A.final) ⟨[], []⟩ with
  | none => rw [hp] at hrel; simp [RFinN] at hrel
  | some y =>
    rw [hp] at hrel
    cases y with
    | error t => simp [RFinN] at hrel
    | ok s' =>
      simp only [RFinN] at hrel
      exact ⟨hrel.1, heapOKD_of_HInvD hrel.1⟩

end FCD
end Vata
