import Vata.C20Models
import Vata.Proofs.BddTrimCodedBuild
import Vata.Proofs.TrimCodedInit
/-!
# C20: the propagation of the top-down BDD `RemoveUselessStates` never fails `erase(node) != 1` nor `FindFwd`

`C20M.usefulCodedC` is `BddTrimCoded.usefulCoded` with a flag raised where the C++ runs into `assert(false)`:
`Graph::GetIngress(andNode).erase(node) != 1` and a failed `orNodes.FindFwd`.  Proved here: the flag stays down and the
result is the one of `usefulCoded`.

* `GOk` / `BOk`: the graph built by `AddEdge` only is symmetric (`a ∈ egress(m) → m ∈ ingress(a)`), its egress sets and
  `termNodes` are duplicate-free (they are `std::set`s filled by `insert`) – kept by every step of the construction.
* `EInv`: the invariant of `while (!nodeStack.empty())` with the ghost list `popped` of the nodes popped so far: a node is
  erased from an ingress set only in the round in which it is popped; the stack is duplicate-free and disjoint from `popped`
  (a node is pushed only when its state is not yet in `usefulStates`, and the states of all stacked and popped nodes are) – so no
  node is popped twice and every `erase` finds its element.
-/
namespace Vata.C20M
open Vata Vata.BddTrimCoded M BddAbs BddAbsTD

/-! ### the graph of the construction: symmetric, duplicate-free -/

structure GOk (G : Graph) : Prop where
  sym : ∀ m a, a ∈ G.egr m → m ∈ G.ing a
  egrND : ∀ x, (G.egr x).Nodup

theorem gok_empty : GOk Graph.empty := ⟨fun _ _ h => (by cases h), fun _ => List.nodup_nil⟩

theorem gok_addNode {G : Graph} (h : GOk G) : GOk G.addNode.1 := ⟨h.sym, h.egrND⟩

theorem gok_addEdge {G : Graph} (h : GOk G) (s d : Nat) : GOk (G.addEdge s d) := by
  constructor
  · intro m a ha
    rcases mem_addEdge_egr.mp ha with h1 | ⟨h1, h2⟩
    · exact mem_addEdge_ing.mpr (Or.inl (h.sym m a h1))
    · exact mem_addEdge_ing.mpr (Or.inr ⟨h2, h1⟩)
  · intro x
    simp only [Graph.addEdge]
    split
    · exact TrimCoded.nodup_ins' _ (h.egrND x)
    · exact h.egrND x

structure BOk (B : Build) : Prop where
  g : GOk B.G
  termND : B.term.Nodup

theorem bok_stateStep {a : Nat} {B : Build} (h : BOk B) (s : Nat) : BOk (stateStep a B s) := by
  unfold stateStep
  split
  · exact ⟨gok_addEdge h.g _ _, h.termND⟩
  · exact ⟨gok_addEdge (gok_addNode h.g) _ _, h.termND⟩

theorem bok_stateFold {a : Nat} : ∀ (l : List Nat) (B : Build), BOk B → BOk (l.foldl (stateStep a) B)
  | [], _, h => h
  | s :: l, _, h => bok_stateFold l _ (bok_stateStep h s)

theorem bok_tupleStep {proc : Nat} {B : Build} (h : BOk B) (t : List Nat) : BOk (tupleStep proc B t) := by
  unfold tupleStep
  split
  · exact ⟨h.g, TrimCoded.nodup_ins' _ h.termND⟩
  · split
    · exact ⟨gok_addEdge h.g _ _, h.termND⟩
    · have h1 : BOk { B with G := B.G.addNode.1, andN := B.andN ++ [(B.G.addNode.2, t)] } := ⟨gok_addNode h.g, h.termND⟩
      have h2 := bok_stateFold (a := B.G.addNode.2) t _ h1
      exact ⟨gok_addEdge h2.g _ _, h2.termND⟩

theorem bok_tupleFold {proc : Nat} : ∀ (l : List (List Nat)) (B : Build), BOk B → BOk (l.foldl (tupleStep proc) B)
  | [], _, h => h
  | t :: l, _, h => bok_tupleFold l _ (bok_tupleStep h t)

/-- the body of the loop of `initBuild` -/
def initStepB (B : Build) (f : Nat) : Build :=
  { B with G := B.G.addNode.1, orN := B.orN ++ [(B.G.addNode.2, f)], ws := (B.G.addNode.2, f) :: B.ws }

theorem bok_initFold : ∀ (l : List Nat) (B : Build), BOk B → BOk (l.foldl initStepB B)
  | [], _, h => h
  | f :: l, B, h => bok_initFold l _ (show BOk (initStepB B f) from ⟨gok_addNode h.g, h.termND⟩)

theorem bok_initBuild (F : List Nat) : BOk (initBuild F) :=
  bok_initFold F ⟨Graph.empty, [], [], [], []⟩ ⟨gok_empty, List.nodup_nil⟩

theorem bok_buildLoop (T : TableTD) : ∀ (fuel : Nat) (B B' : Build), BOk B → buildLoop T fuel B = some B' → BOk B' := by
  intro fuel
  induction fuel with
  | zero =>
    intro B B' h hb
    unfold buildLoop at hb
    split at hb
    · simp only [Option.some.injEq] at hb; subst hb; exact h
    · simp at hb
  | succ f ih =>
    intro B B' h hb
    unfold buildLoop at hb
    split at hb
    · simp only [Option.some.injEq] at hb; subst hb; exact h
    · rename_i _ n s ws _
      simp only at hb
      exact ih _ _ (bok_tupleFold _ _ (show BOk { B with ws := ws } from ⟨h.g, h.termND⟩)) hb

/-! ### the invariant of the propagation -/

/-- `popped`: the nodes popped so far (the current one included); `n`, `l`: the current node and the AND nodes of its egress
set that the loop `for (andNode : GetEgress(node))` has not visited yet (`l = []` between two rounds) -/
structure EInv (B : Build) (P : Mark) (popped : List Nat) (n : Nat) (l : List Nat) : Prop where
  ing : ∀ a m, m ∈ B.G.ing a → (m ∉ popped ∨ (m = n ∧ a ∈ l)) → m ∈ P.G.ing a
  subE : ∀ x m, m ∈ P.G.egr x → m ∈ B.G.egr x
  egrND : ∀ x, (P.G.egr x).Nodup
  stkND : P.stk.Nodup
  stkNP : ∀ m, m ∈ P.stk → m ∉ popped
  stkOr : ∀ m, m ∈ P.stk → ∃ s, (m, s) ∈ B.orN
  usef : ∀ m, m ∈ P.stk ∨ m ∈ popped → stateOf B.orN m ∈ P.useful
  lND : l.Nodup
  lIng : ∀ a, a ∈ l → n ∈ B.G.ing a ∧ n ∈ popped ∧ a ∈ B.G.egr n

variable {T : TableTD} {F : List Nat} {B : Build}

theorem fwd_ok (hS : Spec T F B) {m s : Nat} (h : (m, s) ∈ B.orN) : fwdFails B.orN m = false := by
  unfold fwdFails
  rw [findFwd_of_mem hS.orFun h]
  rfl

theorem markStep_einv {P : Mark} {popped : List Nat} {n : Nat} {l : List Nat} (hI : EInv B P popped n l) {m s : Nat}
    (hm : (m, s) ∈ B.orN) : EInv B (markStep B.orN P m) popped n l := by
  unfold markStep
  split
  · exact hI
  · rename_i hc
    have hnu : stateOf B.orN m ∉ P.useful := fun h => hc (List.contains_iff_mem.mpr h)
    have hms : m ∉ P.stk := fun h => hnu (hI.usef m (Or.inl h))
    have hmp : m ∉ popped := fun h => hnu (hI.usef m (Or.inr h))
    exact {
      ing := hI.ing, subE := hI.subE, egrND := hI.egrND,
      stkND := List.nodup_cons.mpr ⟨hms, hI.stkND⟩,
      stkNP := by
        intro m' hm'
        rcases List.mem_cons.mp hm' with rfl | h
        · exact hmp
        · exact hI.stkNP m' h
      stkOr := by
        intro m' hm'
        rcases List.mem_cons.mp hm' with rfl | h
        · exact ⟨s, hm⟩
        · exact hI.stkOr m' h
      usef := by
        intro m' hm'
        simp only [List.mem_append, List.mem_singleton]
        rcases hm' with h | h
        · rcases List.mem_cons.mp h with rfl | h
          · exact Or.inr rfl
          · exact Or.inl (hI.usef m' (Or.inl h))
        · exact Or.inl (hI.usef m' (Or.inr h))
      lND := hI.lND, lIng := hI.lIng }

theorem markStep_G (orN : List (Nat × Nat)) (P : Mark) (m : Nat) : (markStep orN P m).G = P.G := by
  unfold markStep; split <;> rfl

theorem markFold_einv (hS : Spec T F B) {popped : List Nat} {n : Nat} {l : List Nat} : ∀ (ms : List Nat) (P : Mark) (b : Bool),
    EInv B P popped n l → (∀ m, m ∈ ms → ∃ s, (m, s) ∈ B.orN) →
    EInv B (ms.foldl (markStep B.orN) P) popped n l ∧
      ms.foldl (markStepC B.orN) (P, b) = (ms.foldl (markStep B.orN) P, b)
  | [], _, _, hI, _ => ⟨hI, rfl⟩
  | m :: ms, P, b, hI, hms => by
    obtain ⟨s, hs⟩ := hms m List.mem_cons_self
    have e : markStepC B.orN (P, b) m = (markStep B.orN P m, b) := by
      simp only [markStepC, fwd_ok hS hs, Bool.or_false]
    rw [List.foldl_cons, List.foldl_cons, e]
    exact markFold_einv hS ms _ b (markStep_einv hI hs) (fun m' hm' => hms m' (List.mem_cons_of_mem _ hm'))

theorem markFold_G (orN : List (Nat × Nat)) : ∀ (ms : List Nat) (P : Mark), (ms.foldl (markStep orN) P).G = P.G
  | [], _ => rfl
  | m :: ms, P => by rw [List.foldl_cons, markFold_G orN ms, markStep_G]

/-- the body of `for (andNode : GetEgress(node))`: the erased element is there -/
theorem satisfyStep_einv (hS : Spec T F B) {P : Mark} {popped : List Nat} {n s0 a : Nat} {rest : List Nat}
    (hn : (n, s0) ∈ B.orN) (hI : EInv B P popped n (a :: rest)) (b : Bool) :
    EInv B (satisfyStep B.orN n P a) popped n rest ∧
      satisfyStepC B.orN n (P, b) a = (satisfyStep B.orN n P a, b) := by
  obtain ⟨hna, hnp, hae⟩ := hI.lIng a List.mem_cons_self
  have hmem : n ∈ P.G.ing a := hI.ing a n hna (Or.inr ⟨rfl, List.mem_cons_self⟩)
  have hbad : (!(P.G.ing a).contains n) = false := by simp [hmem]
  have harest : a ∉ rest := (List.nodup_cons.mp hI.lND).1
  have hI1 : EInv B { P with G := P.G.eraseIng a n } popped n rest := {
    ing := by
      intro a' m hm hc
      have hm' : m ∈ P.G.ing a' := by
        apply hI.ing a' m hm
        rcases hc with h | ⟨h1, h2⟩
        · exact Or.inl h
        · exact Or.inr ⟨h1, List.mem_cons_of_mem _ h2⟩
      simp only [Graph.eraseIng]
      split
      · rename_i e
        refine List.mem_filter.mpr ⟨hm', ?_⟩
        simp only [bne_iff_ne, ne_eq]
        intro e'
        rcases hc with h | ⟨_, h2⟩
        · exact h (e' ▸ hnp)
        · exact harest (e ▸ h2)
      · exact hm'
    subE := hI.subE, egrND := hI.egrND, stkND := hI.stkND, stkNP := hI.stkNP, stkOr := hI.stkOr, usef := hI.usef,
    lND := (List.nodup_cons.mp hI.lND).2,
    lIng := fun a' ha' => hI.lIng a' (List.mem_cons_of_mem _ ha') }
  obtain ⟨t, hat⟩ := hS.orEgr n s0 a hn hae
  unfold satisfyStep satisfyStepC
  dsimp only
  rw [hbad, Bool.or_false]
  split
  · have hor : ∀ m, m ∈ (P.G.eraseIng a n).egr a → ∃ s, (m, s) ∈ B.orN := by
      intro m hm
      obtain ⟨p, hp, _⟩ := hS.andEgr a t m hat (hI.subE a m hm)
      exact ⟨p, hp⟩
    exact markFold_einv hS _ _ b hI1 hor
  · exact ⟨hI1, rfl⟩

theorem satisfyFold_einv (hS : Spec T F B) {popped : List Nat} {n s0 : Nat} (hn : (n, s0) ∈ B.orN) :
    ∀ (l : List Nat) (P : Mark) (b : Bool), EInv B P popped n l →
    EInv B (l.foldl (satisfyStep B.orN n) P) popped n [] ∧
      l.foldl (satisfyStepC B.orN n) (P, b) = (l.foldl (satisfyStep B.orN n) P, b)
  | [], _, _, hI => ⟨hI, rfl⟩
  | a :: rest, P, b, hI => by
    obtain ⟨h1, h2⟩ := satisfyStep_einv hS hn hI b
    rw [List.foldl_cons, List.foldl_cons, h2]
    exact satisfyFold_einv hS hn rest _ b h1

theorem eraseEgrFold (node : Nat) : ∀ (l : List Nat) (G : Graph),
    (l.foldl (fun G a => G.eraseEgr a node) G).ing = G.ing ∧
    (∀ x m, m ∈ (l.foldl (fun G a => G.eraseEgr a node) G).egr x → m ∈ G.egr x) ∧
    ((∀ x, (G.egr x).Nodup) → ∀ x, ((l.foldl (fun G a => G.eraseEgr a node) G).egr x).Nodup)
  | [], _ => ⟨rfl, fun _ _ h => h, fun h => h⟩
  | a :: l, G => by
    obtain ⟨h1, h2, h3⟩ := eraseEgrFold node l (G.eraseEgr a node)
    rw [List.foldl_cons]
    have hsub : ∀ x m, m ∈ (G.eraseEgr a node).egr x → m ∈ G.egr x := by
      intro x m hm
      simp only [Graph.eraseEgr] at hm
      split at hm
      · exact (List.mem_filter.mp hm).1
      · exact hm
    refine ⟨h1, fun x m hm => hsub x m (h2 x m hm), fun hnd => h3 ?_⟩
    intro x
    simp only [Graph.eraseEgr]
    split
    · exact (hnd x).filter _
    · exact hnd x

/-- one round of `while (!nodeStack.empty())` -/
theorem popStep_einv (hS : Spec T F B) (hB : BOk B) {P : Mark} {popped : List Nat} {n0 n : Nat} {stk : List Nat}
    (hI : EInv B P popped n0 []) (hstk : P.stk = n :: stk) (b : Bool) :
    EInv B (popStep B.orN n { P with stk := stk }) (n :: popped) n [] ∧
      popStepC B.orN n ({ P with stk := stk }, b) = (popStep B.orN n { P with stk := stk }, b) := by
  obtain ⟨s0, hn⟩ := hI.stkOr n (by rw [hstk]; exact List.mem_cons_self)
  have hnd := hI.stkND
  rw [hstk] at hnd
  have hnstk : n ∉ stk := (List.nodup_cons.mp hnd).1
  have hnp : n ∉ popped := hI.stkNP n (by rw [hstk]; exact List.mem_cons_self)
  obtain ⟨e1, e2, e3⟩ := eraseEgrFold n (P.G.ing n) P.G
  have hI1 : EInv B { P with stk := stk, G := (P.G.ing n).foldl (fun G a => G.eraseEgr a n) P.G } (n :: popped) n
      (((P.G.ing n).foldl (fun G a => G.eraseEgr a n) P.G).egr n) := {
    ing := by
      intro a m hm hc
      show m ∈ ((P.G.ing n).foldl (fun G a => G.eraseEgr a n) P.G).ing a
      rw [e1]
      apply hI.ing a m hm
      rcases hc with h | ⟨h1, _⟩
      · exact Or.inl fun h' => h (List.mem_cons_of_mem _ h')
      · exact Or.inl (h1 ▸ hnp)
    subE := fun x m hm => hI.subE x m (e2 x m hm)
    egrND := e3 hI.egrND
    stkND := (List.nodup_cons.mp hnd).2
    stkNP := by
      intro m hm hp
      rcases List.mem_cons.mp hp with rfl | hp
      · exact hnstk hm
      · exact hI.stkNP m (by rw [hstk]; exact List.mem_cons_of_mem _ hm) hp
    stkOr := fun m hm => hI.stkOr m (by rw [hstk]; exact List.mem_cons_of_mem _ hm)
    usef := by
      intro m hm
      apply hI.usef m
      rcases hm with h | h
      · exact Or.inl (by rw [hstk]; exact List.mem_cons_of_mem _ h)
      · rcases List.mem_cons.mp h with rfl | h
        · exact Or.inl (by rw [hstk]; exact List.mem_cons_self)
        · exact Or.inr h
    lND := e3 hI.egrND n
    lIng := by
      intro a ha
      have : a ∈ B.G.egr n := hI.subE n a (e2 n a ha)
      exact ⟨hB.g.sym n a this, List.mem_cons_self, this⟩ }
  unfold popStep popStepC
  exact satisfyFold_einv hS hn _ _ b hI1

theorem propLoop_einv (hS : Spec T F B) (hB : BOk B) : ∀ (fuel : Nat) (P : Mark) (popped : List Nat) (n0 : Nat) (b : Bool),
    EInv B P popped n0 [] →
    propLoopC B.orN fuel (P, b) = (propLoop B.orN fuel P).map (fun P' => (P', b)) := by
  intro fuel
  induction fuel with
  | zero =>
    intro P popped n0 b _
    unfold propLoopC propLoop
    cases P.stk <;> rfl
  | succ f ih =>
    intro P popped n0 b hI
    unfold propLoopC propLoop
    cases hstk : P.stk with
    | nil => rfl
    | cons n stk =>
      simp only
      obtain ⟨h1, h2⟩ := popStep_einv hS hB hI hstk b
      rw [h2]
      exact ih _ _ n b h1

theorem initMarkFold_einv (hS : Spec T F B) : ∀ (l : List Nat) (P : Mark) (b : Bool), EInv B P [] 0 [] →
    (l.Nodup ∧ ∀ n, n ∈ l → n ∉ P.stk ∧ ∃ s, (n, s) ∈ B.orN) →
    EInv B (l.foldl (fun P n => { P with stk := n :: P.stk, useful := ins (stateOf B.orN n) P.useful }) P) [] 0 [] ∧
      l.foldl (fun Pb n => ({ Pb.1 with stk := n :: Pb.1.stk, useful := ins (stateOf B.orN n) Pb.1.useful },
        Pb.2 || fwdFails B.orN n)) (P, b) =
      (l.foldl (fun P n => { P with stk := n :: P.stk, useful := ins (stateOf B.orN n) P.useful }) P, b)
  | [], _, _, hI, _ => ⟨hI, rfl⟩
  | n :: l, P, b, hI, ⟨hnd, hl⟩ => by
    obtain ⟨hns, s, hs⟩ := hl n List.mem_cons_self
    rw [List.foldl_cons, List.foldl_cons]
    simp only [fwd_ok hS hs, Bool.or_false]
    have hI1 : EInv B { P with stk := n :: P.stk, useful := ins (stateOf B.orN n) P.useful } [] 0 [] := {
      ing := hI.ing, subE := hI.subE, egrND := hI.egrND
      stkND := List.nodup_cons.mpr ⟨hns, hI.stkND⟩
      stkNP := fun _ _ h => by cases h
      stkOr := by
        intro m hm
        rcases List.mem_cons.mp hm with rfl | h
        · exact ⟨s, hs⟩
        · exact hI.stkOr m h
      usef := by
        intro m hm
        rw [mem_ins]
        rcases hm with h | h
        · rcases List.mem_cons.mp h with rfl | h
          · exact Or.inr rfl
          · exact Or.inl (hI.usef m (Or.inl h))
        · cases h
      lND := List.nodup_nil
      lIng := fun _ h => by cases h }
    refine initMarkFold_einv hS l _ b hI1 ⟨(List.nodup_cons.mp hnd).2, ?_⟩
    intro m hm
    refine ⟨?_, (hl m (List.mem_cons_of_mem _ hm)).2⟩
    intro h
    rcases List.mem_cons.mp h with rfl | h
    · exact (List.nodup_cons.mp hnd).1 hm
    · exact (hl m (List.mem_cons_of_mem _ hm)).1 h

/-- **the checked propagation**: on the graph the construction as coded builds, no `erase` misses its element and no
`FindFwd` fails; the marking is the one of `propLoop` -/
theorem propLoopC_eq (hS : Spec T F B) (hB : BOk B) (fuel : Nat) :
    propLoopC B.orN fuel (initMarkC B) = (propLoop B.orN fuel (initMark B)).map (fun P => (P, false)) := by
  have h0 : EInv B ⟨B.G, [], []⟩ [] 0 [] := {
    ing := fun _ _ h _ => h, subE := fun _ _ h => h, egrND := hB.g.egrND, stkND := List.nodup_nil
    stkNP := fun _ h => by cases h
    stkOr := fun _ h => by cases h
    usef := fun _ h => by rcases h with h | h <;> cases h
    lND := List.nodup_nil
    lIng := fun _ h => by cases h }
  obtain ⟨h1, h2⟩ := initMarkFold_einv hS B.term _ false h0 ⟨hB.termND, fun n hn =>
    ⟨fun h => (by cases h), (by obtain ⟨p, hp, _⟩ := hS.termOk n hn; exact ⟨p, hp⟩)⟩⟩
  unfold initMarkC initMark
  rw [h2]
  exact propLoop_einv hS hB fuel _ [] 0 false h1

/-- **`usefulCodedC`**: the flag is down on every run (`F` duplicate-free: `GetFinalStates()` is a set), and the useful states
are those of `usefulCoded` -/
theorem usefulCodedC_eq (T : TableTD) {F : List Nat} (hF : F.Nodup) (fuel : Nat) :
    usefulCodedC T F fuel = (usefulCoded T F fuel).map (fun U => (U, false)) := by
  unfold usefulCodedC usefulCoded
  cases hb : buildLoop T fuel (initBuild F) with
  | none => rfl
  | some B =>
    simp only
    rw [propLoopC_eq (buildLoop_spec hF hb) (bok_buildLoop T fuel _ _ (bok_initBuild F) hb) fuel]
    cases propLoop B.orN fuel (initMark B) <;> rfl

end Vata.C20M
