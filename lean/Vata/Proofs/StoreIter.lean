import Vata.StoreIter
import Vata.Proofs.Store
/-!
# The iterator protocol of the rule store – proofs for `Vata/StoreIter.lean`
-/
namespace Vata.Store

/-! ### generic: a machine that follows a list -/
namespace Machine
variable {α : Type}

/-- lift a predicate on index tuples to iterator states: `end()` is fine, `stuck` is not -/
def GoodSt (Good : α → Prop) : St α → Prop
  | .at a => Good a
  | .fin => True
  | .stuck => False

/-- `rest p` is what remains to be yielded from `p`; at every good position `operator*` yields its head and `operator++`
leads to a good position for its tail -/
structure Sim (M : Machine α) (Good : α → Prop) (rest : St α → List Rule) : Prop where
  fin : rest .fin = []
  step : ∀ a, Good a → ∃ r, M.get a = some r ∧ rest (.at a) = r :: rest (M.step a) ∧ GoodSt Good (M.step a)

theorem drive_sim {M : Machine α} {Good : α → Prop} {rest : St α → List Rule} (h : Sim M Good rest) :
    ∀ (n : Nat) (p : St α) (acc : List Rule), GoodSt Good p → (rest p).length = n →
      M.drive n p acc = .done (acc.reverse ++ rest p) := by
  intro n
  induction n with
  | zero =>
    intro p acc hg hl
    cases p with
    | fin => simp [drive, h.fin]
    | stuck => exact absurd hg (by simp [GoodSt])
    | «at» a =>
      obtain ⟨r, _, hr, _⟩ := h.step a hg
      rw [hr] at hl
      simp at hl
  | succ n ih =>
    intro p acc hg hl
    cases p with
    | fin => simp [drive, h.fin]
    | stuck => exact absurd hg (by simp [GoodSt])
    | «at» a =>
      obtain ⟨r, hget, hr, hg'⟩ := h.step a hg
      rw [hr] at hl
      simp only [List.length_cons, Nat.add_right_cancel_iff] at hl
      simp only [drive, hget]
      rw [ih _ _ hg' hl, hr]
      simp

theorem posAt_sim {M : Machine α} {Good : α → Prop} {rest : St α → List Rule} (h : Sim M Good rest)
    (h0 : GoodSt Good M.start) :
    ∀ n, n ≤ (rest M.start).length → GoodSt Good (M.posAt n) ∧ rest (M.posAt n) = (rest M.start).drop n := by
  intro n
  induction n with
  | zero => intro _; exact ⟨h0, by simp [posAt]⟩
  | succ n ih =>
    intro hn
    obtain ⟨hg, hr⟩ := ih (by omega)
    have hlen : ((rest M.start).drop n).length = (rest M.start).length - n := List.length_drop
    have hd : (rest M.start).drop (n + 1) = ((rest M.start).drop n).drop 1 := by
      rw [List.drop_drop]
    simp only [posAt]
    cases hp : M.posAt n with
    | fin =>
      rw [hp, h.fin] at hr
      rw [← hr] at hlen
      simp at hlen
      omega
    | stuck => rw [hp] at hg; exact absurd hg (by simp [GoodSt])
    | «at» a =>
      rw [hp] at hg hr
      obtain ⟨r, _, hr', hg'⟩ := h.step a hg
      refine ⟨hg', ?_⟩
      rw [hd, ← hr, hr']
      simp [next]

/-- the `n`-th increment of `begin()` dereferences to the `n`-th element -/
theorem deref_posAt_sim {M : Machine α} {Good : α → Prop} {rest : St α → List Rule} (h : Sim M Good rest)
    (h0 : GoodSt Good M.start) (n : Nat) (hn : n < (rest M.start).length) :
    M.deref (M.posAt n) = some ((rest M.start)[n]) := by
  obtain ⟨hg, hr⟩ := posAt_sim h h0 n (by omega)
  have hd : (rest M.start).drop n = (rest M.start)[n] :: (rest M.start).drop (n + 1) := List.drop_eq_getElem_cons hn
  cases hp : M.posAt n with
  | fin =>
    rw [hp, h.fin, hd] at hr
    cases hr
  | stuck => rw [hp] at hg; exact absurd hg (by simp [GoodSt])
  | «at» a =>
    rw [hp] at hg hr
    obtain ⟨r, hget, hr', _⟩ := h.step a hg
    rw [hr', hd] at hr
    injection hr with e _
    simp only [deref, hget, e]

/-- after exactly `|rest start|` increments the iterator equals `end()` -/
theorem posAt_len_sim {M : Machine α} {Good : α → Prop} {rest : St α → List Rule} (h : Sim M Good rest)
    (h0 : GoodSt Good M.start) : M.posAt (rest M.start).length = .fin := by
  obtain ⟨hg, hr⟩ := posAt_sim h h0 _ (Nat.le_refl _)
  rw [List.drop_length] at hr
  cases hp : M.posAt (rest M.start).length with
  | fin => rfl
  | stuck => rw [hp] at hg; exact absurd hg (by simp [GoodSt])
  | «at» a =>
    rw [hp] at hg hr
    obtain ⟨r, _, hr', _⟩ := h.step a hg
    rw [hr'] at hr
    cases hr

/-- no earlier increment is `end()` or stuck -/
theorem posAt_at_sim {M : Machine α} {Good : α → Prop} {rest : St α → List Rule} (h : Sim M Good rest)
    (h0 : GoodSt Good M.start) (n : Nat) (hn : n < (rest M.start).length) : ∃ a, M.posAt n = .at a := by
  have hd := deref_posAt_sim h h0 n hn
  cases hp : M.posAt n with
  | fin => rw [hp] at hd; simp [deref] at hd
  | stuck => rw [hp] at hd; simp [deref] at hd
  | «at» a => exact ⟨a, rfl⟩

/-- iterators reached by different numbers of increments are different (so `it1 == it2` tells positions apart) -/
theorem posAt_inj_sim {M : Machine α} {Good : α → Prop} {rest : St α → List Rule} (h : Sim M Good rest)
    (h0 : GoodSt Good M.start) {n m : Nat} (hn : n ≤ (rest M.start).length) (hm : m ≤ (rest M.start).length)
    (e : M.posAt n = M.posAt m) : n = m := by
  have h1 := (posAt_sim h h0 n hn).2
  have h2 := (posAt_sim h h0 m hm).2
  rw [e, h2] at h1
  have := congrArg List.length h1
  simp only [List.length_drop] at this
  omega

/-- the same with the list named: the form used for the three iterators -/
theorem sim_protocol {M : Machine α} {Good : α → Prop} {rest : St α → List Rule} (h : Sim M Good rest)
    (h0 : GoodSt Good M.start) {l : List Rule} (hl : rest M.start = l) :
    (∀ n (hn : n < l.length), (∃ a, M.posAt n = .at a) ∧ M.deref (M.posAt n) = some l[n]) ∧
    M.posAt l.length = .fin ∧
    M.traverse l.length = .done l := by
  subst hl
  refine ⟨fun n hn => ⟨posAt_at_sim h h0 n hn, deref_posAt_sim h h0 n hn⟩, posAt_len_sim h h0, ?_⟩
  have := drive_sim h _ M.start [] h0 rfl
  simpa [traverse] using this

/-- no increment up to and including the one that reaches `end()` is stuck, and every one before can be dereferenced -/
theorem sim_safe {M : Machine α} {Good : α → Prop} {rest : St α → List Rule} (h : Sim M Good rest)
    (h0 : GoodSt Good M.start) {l : List Rule} (hl : rest M.start = l) (n : Nat) (hn : n ≤ l.length) :
    M.posAt n ≠ .stuck ∧ (n < l.length → (M.deref (M.posAt n)).isSome = true) := by
  obtain ⟨h1, h2, _⟩ := sim_protocol h h0 hl
  constructor
  · by_cases hlt : n < l.length
    · obtain ⟨⟨a, ha⟩, _⟩ := h1 n hlt
      rw [ha]; exact fun e => by cases e
    · have : n = l.length := by omega
      rw [this, h2]; exact fun e => by cases e
  · intro hlt
    rw [(h1 n hlt).2]; rfl

end Machine

/-! ### list helpers -/
namespace It

theorem drop_of_get {α : Type} {l : List α} {i : Nat} {x : α} (h : l[i]? = some x) :
    l.drop i = x :: l.drop (i + 1) := by
  obtain ⟨hi, hx⟩ := List.getElem?_eq_some_iff.mp h
  rw [List.drop_eq_getElem_cons hi, hx]

theorem lt_of_get {α : Type} {l : List α} {i : Nat} {x : α} (h : l[i]? = some x) : i < l.length :=
  (List.getElem?_eq_some_iff.mp h).1

theorem mem_of_get {α : Type} {l : List α} {i : Nat} {x : α} (h : l[i]? = some x) : x ∈ l :=
  List.mem_of_getElem? h

theorem get_succ {α : Type} {l : List α} {i : Nat} {x : α} (h : l[i]? = some x) (hne : i + 1 ≠ l.length) :
    ∃ y, l[i + 1]? = some y := by
  have hi := lt_of_get h
  have hi' : i + 1 < l.length := by omega
  exact ⟨l[i + 1], List.getElem?_eq_getElem hi'⟩

theorem drop_succ_nil {α : Type} {l : List α} {i : Nat} (he : i + 1 = l.length) : l.drop (i + 1) = [] := by
  rw [he]; exact List.drop_length

theorem get_zero_of_ne_nil {α : Type} {l : List α} (h : l ≠ []) : ∃ y, l[0]? = some y := by
  cases l with
  | nil => exact absurd rfl h
  | cons y l => exact ⟨y, rfl⟩

theorem flatCluster_cons (q : Nat) (ft : Nat × TupleSet) (c : Cluster) :
    flatCluster q (ft :: c) = ft.2.map (fun t => (⟨ft.1, t, q⟩ : Rule)) ++ flatCluster q c := by
  simp [flatCluster]

theorem flatCluster_nil (q : Nat) : flatCluster q [] = [] := rfl

end It

/-! ### inside one cluster -/

/-- both indices point to existing entries -/
def GoodIn (c : Cluster) (j k : Nat) : Prop := ∃ ft t, c[j]? = some ft ∧ ft.2[k]? = some t

/-- what remains of the cluster from `(j, k)` on -/
def restIn (q : Nat) (c : Cluster) (j k : Nat) : List Rule :=
  match c[j]? with
  | none => []
  | some ft => (ft.2.drop k).map (fun t => (⟨ft.1, t, q⟩ : Rule)) ++ flatCluster q (c.drop (j + 1))

/-- no tuple set of the cluster is empty -/
def NoEmptyC (c : Cluster) : Prop := ∀ ft, ft ∈ c → ft.2 ≠ []

theorem advance_spec (q : Nat) {c : Cluster} (hc : NoEmptyC c) {j k : Nat} (hg : GoodIn c j k) :
    ∃ r, getIn q c j k = some r ∧
      match advance c j k with
      | .pos j' k' => GoodIn c j' k' ∧ restIn q c j k = r :: restIn q c j' k'
      | .out => restIn q c j k = [r]
      | .stuck => False := by
  obtain ⟨ft, t, hj, hk⟩ := hg
  refine ⟨⟨ft.1, t, q⟩, by simp [getIn, hj, hk], ?_⟩
  have hklt := It.lt_of_get hk
  have hr : restIn q c j k = (⟨ft.1, t, q⟩ : Rule) ::
      ((ft.2.drop (k + 1)).map (fun t => (⟨ft.1, t, q⟩ : Rule)) ++ flatCluster q (c.drop (j + 1))) := by
    simp [restIn, hj, It.drop_of_get hk]
  by_cases h1 : k + 1 ≠ ft.2.length
  · have ha : advance c j k = .pos j (k + 1) := by
      simp only [advance, hj]
      rw [if_neg (by omega), if_pos h1]
    rw [ha]
    simp only
    obtain ⟨t', hk'⟩ := It.get_succ hk h1
    refine ⟨⟨ft, t', hj, hk'⟩, ?_⟩
    rw [hr]
    simp [restIn, hj]
  · have h1' : k + 1 = ft.2.length := by omega
    rw [It.drop_succ_nil h1'] at hr
    by_cases h2 : j + 1 ≠ c.length
    · have ha : advance c j k = .pos (j + 1) 0 := by
        simp only [advance, hj]
        rw [if_neg (by omega), if_neg h1, if_pos h2]
      rw [ha]
      simp only
      obtain ⟨ft', hj'⟩ := It.get_succ hj h2
      obtain ⟨t', hk'⟩ := It.get_zero_of_ne_nil (hc ft' (It.mem_of_get hj'))
      refine ⟨⟨ft', t', hj', hk'⟩, ?_⟩
      rw [hr, It.drop_of_get hj', It.flatCluster_cons]
      simp [restIn, hj']
    · have h2' : j + 1 = c.length := by omega
      have ha : advance c j k = .out := by
        simp only [advance, hj]
        rw [if_neg (by omega), if_neg h1, if_neg h2]
      rw [ha]
      simp only
      rw [hr, It.drop_succ_nil h2']
      simp [It.flatCluster_nil]

/-- `begin()` of a non-empty cluster without empty tuple sets -/
theorem restIn_zero (q : Nat) {c : Cluster} (hne : c ≠ []) (hc : NoEmptyC c) :
    GoodIn c 0 0 ∧ restIn q c 0 0 = flatCluster q c := by
  cases c with
  | nil => exact absurd rfl hne
  | cons ft c' =>
    obtain ⟨t, ht⟩ := It.get_zero_of_ne_nil (hc ft List.mem_cons_self)
    exact ⟨⟨ft, t, rfl, ht⟩, by simp [restIn, It.flatCluster_cons]⟩

/-! ### what the iterators need -/

/-- no cluster is empty, no tuple set is empty -/
def NoEmpty (s : Store) : Prop := ∀ qc, qc ∈ s.clusters → qc.2 ≠ [] ∧ NoEmptyC qc.2

theorem noEmpty_of_inv {s : Store} (h : Inv s) : NoEmpty s :=
  fun qc hqc => ⟨(h.clusters qc hqc).nonempty, fun ft hft => ((h.clusters qc hqc).tuples ft hft).1⟩

theorem noEmptyB_iff (s : Store) : noEmptyB s = true ↔ NoEmpty s := by
  simp only [noEmptyB, NoEmpty, NoEmptyC, List.all_eq_true, Bool.and_eq_true, Bool.not_eq_true',
    List.isEmpty_eq_false_iff]

/-! ### `Iterator` -/

/-- all three indices point to existing entries -/
def Good3 (s : Store) : Nat × Nat × Nat → Prop
  | (i, j, k) => ∃ qc, s.clusters[i]? = some qc ∧ GoodIn qc.2 j k

/-- the rules of the clusters from index `i` on -/
def restFrom (s : Store) (i : Nat) : List Rule := (s.clusters.drop i).flatMap (fun qc => flatCluster qc.1 qc.2)

/-- what remains to be yielded from a position -/
def rest3 (s : Store) : Pos → List Rule
  | .at (i, j, k) =>
    match s.clusters[i]? with
    | none => []
    | some qc => restIn qc.1 qc.2 j k ++ restFrom s (i + 1)
  | _ => []

theorem restFrom_get {s : Store} {i : Nat} {qc : Nat × Cluster} (h : s.clusters[i]? = some qc) :
    restFrom s i = flatCluster qc.1 qc.2 ++ restFrom s (i + 1) := by
  simp [restFrom, It.drop_of_get h]

theorem restFrom_zero (s : Store) : restFrom s 0 = iterate s := by simp [restFrom, iterate]

theorem enter_spec {s : Store} (hs : NoEmpty s) {i : Nat} {qc : Nat × Cluster} (h : s.clusters[i]? = some qc) :
    Machine.GoodSt (Good3 s) (enter s i) ∧ rest3 s (enter s i) = restFrom s i := by
  obtain ⟨hne, hc⟩ := hs qc (It.mem_of_get h)
  have he : enter s i = .at (i, 0, 0) := by
    simp only [enter, h]
    rw [if_neg (by simpa using hne)]
  obtain ⟨hg, hr⟩ := restIn_zero qc.1 hne hc
  rw [he]
  refine ⟨⟨qc, h, hg⟩, ?_⟩
  simp only [rest3, h]
  rw [hr, restFrom_get h]

theorem rest3_at {s : Store} {i : Nat} {qc : Nat × Cluster} (h : s.clusters[i]? = some qc) (j k : Nat) :
    rest3 s (.at (i, j, k)) = restIn qc.1 qc.2 j k ++ restFrom s (i + 1) := by
  simp only [rest3, h]

theorem iterStep_eq {s : Store} {i : Nat} {qc : Nat × Cluster} (h : s.clusters[i]? = some qc) (j k : Nat) :
    iterStep s (i, j, k) =
      match advance qc.2 j k with
      | .pos j' k' => .at (i, j', k')
      | .stuck => .stuck
      | .out => if i + 1 ≠ s.clusters.length then enter s (i + 1) else .fin := by
  simp only [iterStep, h]
  cases advance qc.2 j k <;> rfl

theorem iter_sim {s : Store} (hs : NoEmpty s) : (iterM s).Sim (Good3 s) (rest3 s) := by
  refine ⟨rfl, ?_⟩
  rintro ⟨i, j, k⟩ ⟨qc, hi, hg⟩
  obtain ⟨r, hget, hadv⟩ := advance_spec qc.1 (hs qc (It.mem_of_get hi)).2 hg
  refine ⟨r, by simp [iterM, iterGet, hi, hget], ?_⟩
  show rest3 s (.at (i, j, k)) = r :: rest3 s (iterStep s (i, j, k)) ∧ Machine.GoodSt (Good3 s) (iterStep s (i, j, k))
  rw [rest3_at hi, iterStep_eq hi]
  cases ha : advance qc.2 j k with
  | pos j' k' =>
    rw [ha] at hadv
    simp only at hadv ⊢
    rw [rest3_at hi, hadv.2]
    exact ⟨rfl, ⟨qc, hi, hadv.1⟩⟩
  | stuck => rw [ha] at hadv; exact hadv.elim
  | out =>
    rw [ha] at hadv
    simp only at hadv ⊢
    rw [hadv]
    by_cases hn : i + 1 ≠ s.clusters.length
    · rw [if_pos hn]
      obtain ⟨qc', hi'⟩ := It.get_succ hi hn
      obtain ⟨hg', hr'⟩ := enter_spec hs hi'
      exact ⟨by rw [hr']; rfl, hg'⟩
    · rw [if_neg hn]
      have hn' : i + 1 = s.clusters.length := by omega
      refine ⟨?_, trivial⟩
      simp [rest3, restFrom, It.drop_succ_nil hn']

theorem begin_spec {s : Store} (hs : NoEmpty s) :
    Machine.GoodSt (Good3 s) (begin s) ∧ rest3 s (begin s) = iterate s := by
  cases hcl : s.clusters with
  | nil => simp [begin, hcl, Machine.GoodSt, rest3, iterate]
  | cons qc m =>
    have h0 : s.clusters[0]? = some qc := by rw [hcl]; rfl
    obtain ⟨hne, hc⟩ := hs qc (It.mem_of_get h0)
    have hb : begin s = enter s 0 := by
      obtain ⟨q, c⟩ := qc
      cases c with
      | nil => exact absurd rfl hne
      | cons ft c' =>
        obtain ⟨f, ts⟩ := ft
        have hts : ts ≠ [] := hc (f, ts) List.mem_cons_self
        simp only [begin, hcl, enter, List.getElem?_cons_zero, List.isEmpty_cons]
        rw [if_neg (by simpa using hts)]
        simp
    rw [hb, ← restFrom_zero]
    exact enter_spec hs h0

/-- the protocol of `Iterator` on a store without empty inner containers -/
theorem iter_protocol {s : Store} (hs : NoEmpty s) :
    (∀ n (hn : n < (iterate s).length),
      (∃ a, (iterM s).posAt n = .at a) ∧ deref s ((iterM s).posAt n) = some (iterate s)[n]) ∧
    (iterM s).posAt (iterate s).length = .fin ∧
    iterAll s = .done (iterate s) :=
  Machine.sim_protocol (iter_sim hs) (begin_spec hs).1 (begin_spec hs).2

/-- **`Iterator` enumerates `iterate s` in order and never gets stuck.**  For a store satisfying the invariant: the
`n`-th increment of `begin()` (`n < |iterate s|`) is a proper position (not `end()`, not stuck) and `operator*` there
yields the `n`-th element of `iterate s`; the range-`for` loop terminates normally having yielded exactly `iterate s`. -/
theorem iter_enumerates {s : Store} (h : Inv s) :
    (∀ n (hn : n < (iterate s).length),
      (∃ a, (iterM s).posAt n = .at a) ∧ deref s ((iterM s).posAt n) = some (iterate s)[n]) ∧
    iterAll s = .done (iterate s) :=
  ⟨(iter_protocol (noEmpty_of_inv h)).1, (iter_protocol (noEmpty_of_inv h)).2.2⟩

/-- **`Iterator` reaches `end()` after exactly `|iterate s|` increments** (and, by `iter_enumerates`, not earlier) -/
theorem iter_terminates {s : Store} (h : Inv s) : (iterM s).posAt (iterate s).length = .fin :=
  (iter_protocol (noEmpty_of_inv h)).2.1

/-- `posAt` is iterated `next` from `begin` -/
theorem iter_posAt_zero (s : Store) : (iterM s).posAt 0 = begin s := rfl
theorem iter_posAt_succ (s : Store) (n : Nat) : (iterM s).posAt (n + 1) = next s ((iterM s).posAt n) := rfl

/-! ### `AcceptTransIterator` -/

theorem findIx_some {β : Type} {q : Nat} {l : List (Nat × β)} {i : Nat} (h : findIx q l = some i) :
    ∃ c, l[i]? = some (q, c) ∧ l.lookup q = some c := by
  induction l generalizing i with
  | nil => simp [findIx] at h
  | cons kv l ih =>
    obtain ⟨k, v⟩ := kv
    simp only [findIx] at h
    rw [lookup_cons']
    by_cases hk : k = q
    · rw [if_pos hk] at h
      cases h
      exact ⟨v, by rw [hk]; rfl, by rw [if_pos hk.symm]⟩
    · rw [if_neg hk] at h
      cases hf : findIx q l with
      | none => rw [hf] at h; cases h
      | some i' =>
        rw [hf] at h
        cases h
        obtain ⟨c, h1, h2⟩ := ih hf
        exact ⟨c, by simpa using h1, by rw [if_neg (fun e => hk e.symm)]; exact h2⟩

theorem findIx_none {β : Type} {q : Nat} {l : List (Nat × β)} (h : findIx q l = none) : l.lookup q = none := by
  induction l with
  | nil => rfl
  | cons kv l ih =>
    obtain ⟨k, v⟩ := kv
    simp only [findIx] at h
    rw [lookup_cons']
    by_cases hk : k = q
    · rw [if_pos hk] at h; cases h
    · rw [if_neg hk] at h
      rw [if_neg (fun e => hk e.symm)]
      apply ih
      cases hf : findIx q l with
      | none => rfl
      | some i' => rw [hf] at h; cases h

theorem It.get_of_drop {α : Type} {l : List α} {f : Nat} {x : α} {r : List α} (h : l.drop f = x :: r) :
    l[f]? = some x ∧ l.drop (f + 1) = r := by
  constructor
  · have : (l.drop f)[0]? = l[f + 0]? := List.getElem?_drop
    rw [h] at this
    simpa using this.symm
  · have : l.drop (f + 1) = (l.drop f).drop 1 := by rw [List.drop_drop]
    rw [this, h]
    rfl

/-- the final-state index points to a final state whose cluster is the one `find` returned -/
def GoodA (s : Store) : Nat × Nat × Nat × Nat → Prop
  | (f, i, j, k) => ∃ q, s.final[f]? = some q ∧ findIx q s.clusters = some i ∧ Good3 s (i, j, k)

def restA (s : Store) : APos → List Rule
  | .at (f, i, j, k) =>
    match s.clusters[i]? with
    | none => []
    | some qc => restIn qc.1 qc.2 j k ++ (s.final.drop (f + 1)).flatMap (down s)
  | _ => []

theorem restA_at {s : Store} {i : Nat} {qc : Nat × Cluster} (h : s.clusters[i]? = some qc) (f j k : Nat) :
    restA s (.at (f, i, j, k)) = restIn qc.1 qc.2 j k ++ (s.final.drop (f + 1)).flatMap (down s) := by
  simp only [restA, h]

theorem enter_eq {s : Store} (hs : NoEmpty s) {i : Nat} {qc : Nat × Cluster} (h : s.clusters[i]? = some qc) :
    enter s i = .at (i, 0, 0) := by
  simp only [enter, h]
  rw [if_neg (by simpa using (hs qc (It.mem_of_get h)).1)]

theorem acceptInit_spec {s : Store} (hs : NoEmpty s) :
    ∀ (qs : List Nat) (f : Nat), s.final.drop f = qs →
      Machine.GoodSt (GoodA s) (acceptInit s f qs) ∧ restA s (acceptInit s f qs) = qs.flatMap (down s) := by
  intro qs
  induction qs with
  | nil => intro f _; exact ⟨trivial, rfl⟩
  | cons q qs ih =>
    intro f hd
    obtain ⟨hf, hd'⟩ := It.get_of_drop hd
    cases hfi : findIx q s.clusters with
    | none =>
      have hdown : down s q = [] := by simp [down, findIx_none hfi]
      simp only [acceptInit, hfi, List.flatMap_cons, hdown, List.nil_append]
      exact ih (f + 1) hd'
    | some i =>
      obtain ⟨c, hi, hl⟩ := findIx_some hfi
      have hdown : down s q = flatCluster q c := by simp [down, hl]
      obtain ⟨hne, hc⟩ := hs (q, c) (It.mem_of_get hi)
      obtain ⟨hg, hr⟩ := restIn_zero q hne hc
      simp only [acceptInit, hfi, enter_eq hs hi]
      refine ⟨⟨q, hf, hfi, (q, c), hi, hg⟩, ?_⟩
      rw [restA_at hi, hd', List.flatMap_cons, hdown]
      simp only [hr]

theorem acceptStep_eq {s : Store} {i : Nat} {qc : Nat × Cluster} (h : s.clusters[i]? = some qc) (f j k : Nat) :
    acceptStep s (f, i, j, k) =
      match advance qc.2 j k with
      | .pos j' k' => .at (f, i, j', k')
      | .stuck => .stuck
      | .out => acceptInit s (f + 1) (s.final.drop (f + 1)) := by
  simp only [acceptStep, h]
  cases advance qc.2 j k <;> rfl

theorem accept_sim {s : Store} (hs : NoEmpty s) : (acceptM s).Sim (GoodA s) (restA s) := by
  refine ⟨rfl, ?_⟩
  rintro ⟨f, i, j, k⟩ ⟨q, hf, hfi, qc, hi, hg⟩
  obtain ⟨r, hget, hadv⟩ := advance_spec qc.1 (hs qc (It.mem_of_get hi)).2 hg
  refine ⟨r, by simp [acceptM, acceptGet, iterGet, hi, hget], ?_⟩
  show restA s (.at (f, i, j, k)) = r :: restA s (acceptStep s (f, i, j, k)) ∧
    Machine.GoodSt (GoodA s) (acceptStep s (f, i, j, k))
  rw [restA_at hi, acceptStep_eq hi]
  cases ha : advance qc.2 j k with
  | pos j' k' =>
    rw [ha] at hadv
    simp only at hadv ⊢
    rw [restA_at hi, hadv.2]
    exact ⟨rfl, ⟨q, hf, hfi, qc, hi, hadv.1⟩⟩
  | stuck => rw [ha] at hadv; exact hadv.elim
  | out =>
    rw [ha] at hadv
    simp only at hadv ⊢
    obtain ⟨hg', hr'⟩ := acceptInit_spec hs _ (f + 1) rfl
    rw [hadv, hr']
    exact ⟨rfl, hg'⟩

theorem acceptBegin_spec {s : Store} (hs : NoEmpty s) :
    Machine.GoodSt (GoodA s) (acceptBegin s) ∧ restA s (acceptBegin s) = acceptTrans s := by
  have hb : acceptBegin s = acceptInit s 0 s.final := by
    have hg := (begin_spec hs).1
    unfold acceptBegin
    cases hbs : begin s with
    | stuck => rw [hbs] at hg; exact hg.elim
    | fin => rfl
    | «at» a => rfl
  rw [hb]
  exact acceptInit_spec hs s.final 0 rfl

/-- the protocol of `AcceptTransIterator` on a store without empty inner containers -/
theorem acceptIter_protocol {s : Store} (hs : NoEmpty s) :
    (∀ n (hn : n < (acceptTrans s).length),
      (∃ a, (acceptM s).posAt n = .at a) ∧ (acceptM s).deref ((acceptM s).posAt n) = some (acceptTrans s)[n]) ∧
    (acceptM s).posAt (acceptTrans s).length = .fin ∧
    acceptAll s = .done (acceptTrans s) :=
  Machine.sim_protocol (accept_sim hs) (acceptBegin_spec hs).1 (acceptBegin_spec hs).2

/-- **`AcceptTransIterator` enumerates `acceptTrans s` in order and never gets stuck** -/
theorem acceptIter_enumerates {s : Store} (h : Inv s) :
    (∀ n (hn : n < (acceptTrans s).length),
      (∃ a, (acceptM s).posAt n = .at a) ∧ (acceptM s).deref ((acceptM s).posAt n) = some (acceptTrans s)[n]) ∧
    acceptAll s = .done (acceptTrans s) :=
  ⟨(acceptIter_protocol (noEmpty_of_inv h)).1, (acceptIter_protocol (noEmpty_of_inv h)).2.2⟩

/-- **`AcceptTransIterator` reaches `end()` after exactly `|acceptTrans s|` increments** -/
theorem acceptIter_terminates {s : Store} (h : Inv s) : (acceptM s).posAt (acceptTrans s).length = .fin :=
  (acceptIter_protocol (noEmpty_of_inv h)).2.1

/-! ### `DownAccessorIterator` -/

def GoodD (s : Store) (q : Nat) : Nat × Nat → Prop
  | (j, k) => ∃ c, downCluster s q = some c ∧ GoodIn c j k

def restD (s : Store) (q : Nat) : DPos → List Rule
  | .at (j, k) =>
    match downCluster s q with
    | none => []
    | some c => restIn q c j k
  | _ => []

theorem restD_at {s : Store} {q : Nat} {c : Cluster} (h : downCluster s q = some c) (j k : Nat) :
    restD s q (.at (j, k)) = restIn q c j k := by
  simp only [restD, h]

theorem downStep_eq {s : Store} {q : Nat} {c : Cluster} (h : downCluster s q = some c) (j k : Nat) :
    downStep s q (j, k) =
      match advance c j k with
      | .pos j' k' => .at (j', k')
      | .stuck => .stuck
      | .out => .fin := by
  simp only [downStep, h]
  cases advance c j k <;> rfl

theorem down_sim {s : Store} (hs : NoEmpty s) (q : Nat) : (downM s q).Sim (GoodD s q) (restD s q) := by
  refine ⟨rfl, ?_⟩
  rintro ⟨j, k⟩ ⟨c, hc, hg⟩
  have hmem : (q, c) ∈ s.clusters := mem_of_lookup hc
  obtain ⟨r, hget, hadv⟩ := advance_spec q (hs (q, c) hmem).2 hg
  refine ⟨r, by simp [downM, downGet, hc, hget], ?_⟩
  show restD s q (.at (j, k)) = r :: restD s q (downStep s q (j, k)) ∧
    Machine.GoodSt (GoodD s q) (downStep s q (j, k))
  rw [restD_at hc, downStep_eq hc]
  cases ha : advance c j k with
  | pos j' k' =>
    rw [ha] at hadv
    simp only at hadv ⊢
    rw [restD_at hc, hadv.2]
    exact ⟨rfl, ⟨c, hc, hadv.1⟩⟩
  | stuck => rw [ha] at hadv; exact hadv.elim
  | out =>
    rw [ha] at hadv
    simp only at hadv ⊢
    rw [hadv]
    exact ⟨rfl, trivial⟩

theorem downBegin_spec {s : Store} (hs : NoEmpty s) (q : Nat) :
    Machine.GoodSt (GoodD s q) (downBegin s q) ∧ restD s q (downBegin s q) = down s q := by
  cases hc : downCluster s q with
  | none =>
    have hd : down s q = [] := by
      simp only [downCluster] at hc
      simp [down, hc]
    simp only [downBegin, hc, hd]
    exact ⟨trivial, rfl⟩
  | some c =>
    have hd : down s q = flatCluster q c := by
      simp only [downCluster] at hc
      simp [down, hc]
    obtain ⟨hne, hcc⟩ := hs (q, c) (mem_of_lookup hc)
    obtain ⟨hg, hr⟩ := restIn_zero q hne hcc
    have hb : downBegin s q = .at (0, 0) := by
      cases c with
      | nil => exact absurd rfl hne
      | cons ft c' =>
        obtain ⟨f, ts⟩ := ft
        have hts : ts ≠ [] := hcc (f, ts) List.mem_cons_self
        simp only [downBegin, hc]
        rw [if_neg (by simpa using hts)]
    rw [hb, restD_at hc, hr, hd]
    exact ⟨⟨c, hc, hg⟩, rfl⟩

/-- the protocol of `DownAccessorIterator` on a store without empty inner containers -/
theorem downIter_protocol {s : Store} (hs : NoEmpty s) (q : Nat) :
    (∀ n (hn : n < (down s q).length),
      (∃ a, (downM s q).posAt n = .at a) ∧ (downM s q).deref ((downM s q).posAt n) = some (down s q)[n]) ∧
    (downM s q).posAt (down s q).length = .fin ∧
    downAll s q = .done (down s q) :=
  Machine.sim_protocol (down_sim hs q) (downBegin_spec hs q).1 (downBegin_spec hs q).2

/-- **`DownAccessorIterator` enumerates `down s q` in order and never gets stuck** -/
theorem downIter_enumerates {s : Store} (h : Inv s) (q : Nat) :
    (∀ n (hn : n < (down s q).length),
      (∃ a, (downM s q).posAt n = .at a) ∧ (downM s q).deref ((downM s q).posAt n) = some (down s q)[n]) ∧
    downAll s q = .done (down s q) :=
  ⟨(downIter_protocol (noEmpty_of_inv h) q).1, (downIter_protocol (noEmpty_of_inv h) q).2.2⟩

/-- **`DownAccessorIterator` reaches `end()` after exactly `|down s q|` increments** -/
theorem downIter_terminates {s : Store} (h : Inv s) (q : Nat) : (downM s q).posAt (down s q).length = .fin :=
  (downIter_protocol (noEmpty_of_inv h) q).2.1

/-- `DownAccessor::empty()` is the view `downEmpty` (by definition), and on a store satisfying the invariant it is true
exactly when `begin() == end()`, i.e. exactly when the accessor yields nothing -/
theorem downIter_empty {s : Store} (h : Inv s) (q : Nat) :
    downIterEmpty s q = downEmpty s q ∧
    (downIterEmpty s q = true ↔ downBegin s q = .fin) ∧
    (downIterEmpty s q = true ↔ down s q = []) := by
  have hs := noEmpty_of_inv h
  refine ⟨rfl, ?_, ?_⟩
  · cases hc : downCluster s q with
    | none => simp [downIterEmpty, downBegin, hc]
    | some c =>
      obtain ⟨hne, hcc⟩ := hs (q, c) (mem_of_lookup hc)
      cases c with
      | nil => exact absurd rfl hne
      | cons ft c' =>
        obtain ⟨f, ts⟩ := ft
        have hts : ts ≠ [] := hcc (f, ts) List.mem_cons_self
        simp only [downIterEmpty, downBegin, hc]
        rw [if_neg (by simpa using hts)]
        simp
  · obtain ⟨hg, hr⟩ := downBegin_spec hs q
    cases hc : downCluster s q with
    | none =>
      have hd : down s q = [] := by
        simp only [downCluster] at hc
        simp [down, hc]
      simp [downIterEmpty, hc, hd]
    | some c =>
      obtain ⟨hne, hcc⟩ := hs (q, c) (mem_of_lookup hc)
      have hd : down s q = flatCluster q c := by
        simp only [downCluster] at hc
        simp [down, hc]
      cases c with
      | nil => exact absurd rfl hne
      | cons ft c' =>
        obtain ⟨f, ts⟩ := ft
        have hts : ts ≠ [] := hcc (f, ts) List.mem_cons_self
        cases ts with
        | nil => exact absurd rfl hts
        | cons t ts' => simp [downIterEmpty, hc, hd, flatCluster]

/-! ### safety: no step of a complete traversal is undefined -/

theorem iter_safe {s : Store} (hs : NoEmpty s) (n : Nat) (hn : n ≤ (iterate s).length) :
    (iterM s).posAt n ≠ .stuck ∧ (n < (iterate s).length → (deref s ((iterM s).posAt n)).isSome = true) :=
  Machine.sim_safe (iter_sim hs) (begin_spec hs).1 (begin_spec hs).2 n hn

theorem acceptIter_safe {s : Store} (hs : NoEmpty s) (n : Nat) (hn : n ≤ (acceptTrans s).length) :
    (acceptM s).posAt n ≠ .stuck ∧
      (n < (acceptTrans s).length → ((acceptM s).deref ((acceptM s).posAt n)).isSome = true) :=
  Machine.sim_safe (accept_sim hs) (acceptBegin_spec hs).1 (acceptBegin_spec hs).2 n hn

theorem downIter_safe {s : Store} (hs : NoEmpty s) (q n : Nat) (hn : n ≤ (down s q).length) :
    (downM s q).posAt n ≠ .stuck ∧
      (n < (down s q).length → ((downM s q).deref ((downM s q).posAt n)).isSome = true) :=
  Machine.sim_safe (down_sim hs q) (downBegin_spec hs q).1 (downBegin_spec hs q).2 n hn

/-! ### iterator comparison: positions reached by different numbers of increments differ -/

theorem iter_positions_distinct {s : Store} (h : Inv s) {n m : Nat} (hn : n ≤ (iterate s).length)
    (hm : m ≤ (iterate s).length) (e : (iterM s).posAt n = (iterM s).posAt m) : n = m := by
  have hs := noEmpty_of_inv h
  have hl : rest3 s (iterM s).start = iterate s := (begin_spec hs).2
  exact Machine.posAt_inj_sim (iter_sim hs) (begin_spec hs).1 (by rw [hl]; exact hn) (by rw [hl]; exact hm) e

theorem acceptIter_positions_distinct {s : Store} (h : Inv s) {n m : Nat} (hn : n ≤ (acceptTrans s).length)
    (hm : m ≤ (acceptTrans s).length) (e : (acceptM s).posAt n = (acceptM s).posAt m) : n = m := by
  have hs := noEmpty_of_inv h
  have hl : restA s (acceptM s).start = acceptTrans s := (acceptBegin_spec hs).2
  exact Machine.posAt_inj_sim (accept_sim hs) (acceptBegin_spec hs).1 (by rw [hl]; exact hn) (by rw [hl]; exact hm) e

theorem downIter_positions_distinct {s : Store} (h : Inv s) (q : Nat) {n m : Nat} (hn : n ≤ (down s q).length)
    (hm : m ≤ (down s q).length) (e : (downM s q).posAt n = (downM s q).posAt m) : n = m := by
  have hs := noEmpty_of_inv h
  have hl : restD s q (downM s q).start = down s q := (downBegin_spec hs q).2
  exact Machine.posAt_inj_sim (down_sim hs q) (downBegin_spec hs q).1 (by rw [hl]; exact hn) (by rw [hl]; exact hm) e

/-! ### converse for `Iterator`: a traversal that completes has met no empty inner container -/

theorem It.mem_take_succ {α : Type} {l : List α} {i : Nat} {x y : α} (h : l[i]? = some x) (hy : y ∈ l.take (i + 1)) :
    y ∈ l.take i ∨ y = x := by
  rw [List.take_add_one, h] at hy
  simpa using hy

theorem It.take_all {α : Type} {l : List α} {i : Nat} (h : i + 1 = l.length) : l.take (i + 1) = l := by
  rw [h]; exact List.take_length

theorem getIn_some {q : Nat} {c : Cluster} {j k : Nat} {r : Rule} (h : getIn q c j k = some r) :
    ∃ ft t, c[j]? = some ft ∧ ft.2[k]? = some t := by
  unfold getIn at h
  cases hj : c[j]? with
  | none => rw [hj] at h; cases h
  | some ft =>
    rw [hj] at h
    simp only at h
    cases hk : ft.2[k]? with
    | none => rw [hk] at h; cases h
    | some t => exact ⟨ft, t, rfl, hk⟩

/-- everything in front of the position has been found non-empty -/
def Seen (s : Store) : Pos → Prop
  | .at (i, j, _) => (∀ qc, qc ∈ s.clusters.take i → qc.2 ≠ [] ∧ NoEmptyC qc.2) ∧
      ∃ qc, s.clusters[i]? = some qc ∧ ∀ ft, ft ∈ qc.2.take j → ft.2 ≠ []
  | .fin => NoEmpty s
  | .stuck => True

theorem seen_begin (s : Store) : Seen s (begin s) := by
  cases hcl : s.clusters with
  | nil =>
    simp only [begin, hcl, Seen]
    intro qc hqc
    rw [hcl] at hqc
    cases hqc
  | cons qc m =>
    obtain ⟨q, c⟩ := qc
    cases c with
    | nil => simp only [begin, hcl]; trivial
    | cons ft c' =>
      obtain ⟨f, ts⟩ := ft
      simp only [begin, hcl]
      split
      · trivial
      · refine ⟨by intro qc hqc; simp at hqc, (q, (f, ts) :: c'), by rw [hcl]; rfl, by intro ft hft; simp at hft⟩

theorem seen_step {s : Store} {a : Nat × Nat × Nat} {r : Rule} (hseen : Seen s (.at a)) (hget : iterGet s a = some r) :
    Seen s (iterStep s a) := by
  obtain ⟨i, j, k⟩ := a
  obtain ⟨hpre, qc, hi, hjs⟩ := hseen
  simp only [iterGet, hi] at hget
  obtain ⟨ft, t, hj, hk⟩ := getIn_some hget
  have hklt := It.lt_of_get hk
  have hft : ft.2 ≠ [] := by
    intro e
    rw [e] at hklt
    simp at hklt
  rw [iterStep_eq hi]
  by_cases h1 : k + 1 ≠ ft.2.length
  · have ha : advance qc.2 j k = .pos j (k + 1) := by
      simp only [advance, hj]
      rw [if_neg (by omega), if_pos h1]
    rw [ha]
    exact ⟨hpre, qc, hi, hjs⟩
  · by_cases h2 : j + 1 ≠ qc.2.length
    · have ha : advance qc.2 j k = .pos (j + 1) 0 := by
        simp only [advance, hj]
        rw [if_neg (by omega), if_neg h1, if_pos h2]
      rw [ha]
      refine ⟨hpre, qc, hi, ?_⟩
      intro ft' hft'
      rcases It.mem_take_succ hj hft' with h | h
      · exact hjs ft' h
      · rw [h]; exact hft
    · have h2' : j + 1 = qc.2.length := by omega
      have ha : advance qc.2 j k = .out := by
        simp only [advance, hj]
        rw [if_neg (by omega), if_neg h1, if_neg h2]
      rw [ha]
      simp only
      have hqc : qc.2 ≠ [] ∧ NoEmptyC qc.2 := by
        constructor
        · intro e
          rw [e] at hj
          simp at hj
        · intro ft' hft'
          rw [← It.take_all h2'] at hft'
          rcases It.mem_take_succ hj hft' with h | h
          · exact hjs ft' h
          · rw [h]; exact hft
      have hpre' : ∀ qc', qc' ∈ s.clusters.take (i + 1) → qc'.2 ≠ [] ∧ NoEmptyC qc'.2 := by
        intro qc' hqc'
        rcases It.mem_take_succ hi hqc' with h | h
        · exact hpre qc' h
        · rw [h]; exact hqc
      by_cases hn : i + 1 ≠ s.clusters.length
      · rw [if_pos hn]
        obtain ⟨qc', hi'⟩ := It.get_succ hi hn
        simp only [enter, hi']
        split
        · trivial
        · exact ⟨hpre', qc', hi', by intro ft hft; simp at hft⟩
      · rw [if_neg hn]
        have hn' : i + 1 = s.clusters.length := by omega
        intro qc' hqc'
        rw [← It.take_all hn'] at hqc'
        exact hpre' qc' hqc'

theorem drive_done_seen {s : Store} {out : List Rule} :
    ∀ (n : Nat) (p : Pos) (acc : List Rule), (iterM s).drive n p acc = .done out → Seen s p → NoEmpty s := by
  intro n
  induction n with
  | zero =>
    intro p acc hd hseen
    cases p with
    | fin => exact hseen
    | stuck => simp [Machine.drive] at hd
    | «at» a => simp [Machine.drive] at hd
  | succ n ih =>
    intro p acc hd hseen
    cases p with
    | fin => exact hseen
    | stuck => simp [Machine.drive] at hd
    | «at» a =>
      cases hget : iterGet s a with
      | none => simp [Machine.drive, iterM, hget] at hd
      | some r =>
        simp only [Machine.drive, iterM, hget] at hd
        exact ih _ _ hd (seen_step hseen hget)

/-- **Exact characterisation.**  The loop over `Iterator` completes (reaches `end()` without executing undefined
behaviour, for some fuel) if and only if the store has no empty cluster and no empty tuple set – and then it yields
`iterate s`. -/
theorem iter_done_iff (s : Store) :
    (∃ fuel out, (iterM s).traverse fuel = .done out) ↔ NoEmpty s :=
  ⟨fun ⟨fuel, _, h⟩ => drive_done_seen fuel _ [] h (seen_begin s),
   fun hs => ⟨_, _, (iter_protocol hs).2.2⟩⟩

theorem iterAll_done_iff (s : Store) : iterAll s = .done (iterate s) ↔ NoEmpty s :=
  ⟨fun h => (iter_done_iff s).mp ⟨_, _, h⟩, fun hs => (iter_protocol hs).2.2⟩

/-! ### without the invariant the iterators execute undefined behaviour -/
namespace IterEx
open StoreEx

/-- an empty cluster at the front -/
def bad1 : Store := ⟨[(1, [])], [1]⟩
/-- an empty tuple set behind a proper one -/
def bad2 : Store := ⟨[(1, [(7, [[2]]), (8, [])])], [1]⟩
/-- an empty cluster behind a proper one -/
def bad3 : Store := ⟨[(1, [(7, [[2]])]), (2, [])], [2, 1]⟩

end IterEx

open IterEx in
/-- **On stores that violate the invariant the state machines get stuck** (this is the undefined behaviour the
invariant excludes).
* `bad1` (first cluster empty): the constructor of `begin()` fails its `assert` / dereferences `begin()` of the empty
  cluster – for all three iterators.
* `bad2` (empty tuple set): `operator++` moves from the only tuple of symbol 7 to `begin()` of the empty tuple set of
  symbol 8 (a harmless step), where `operator*` dereferences a past-the-end iterator (`deref = none`) and the next
  `operator++` increments it; the loops stop as `stuck` after one rule.
* `bad3` (empty cluster later): `Iterator::operator++` on the last tuple of cluster 1, and `init()` of
  `AcceptTransIterator` for the final state 2, dereference `begin()` of the empty cluster. -/
theorem iter_stuck_without_inv :
    (invB bad1 = false ∧ begin bad1 = .stuck ∧ acceptBegin bad1 = .stuck ∧ downBegin bad1 1 = .stuck) ∧
    (invB bad2 = false ∧ begin bad2 = .at (0, 0, 0) ∧ next bad2 (begin bad2) = .at (0, 1, 0) ∧
      deref bad2 (.at (0, 1, 0)) = none ∧ next bad2 (.at (0, 1, 0)) = .stuck ∧
      (iterM bad2).traverse 5 = .stuck [⟨7, [2], 1⟩] ∧ (acceptM bad2).traverse 5 = .stuck [⟨7, [2], 1⟩] ∧
      (downM bad2 1).traverse 5 = .stuck [⟨7, [2], 1⟩]) ∧
    (invB bad3 = false ∧ begin bad3 = .at (0, 0, 0) ∧ next bad3 (begin bad3) = .stuck ∧
      (iterM bad3).traverse 5 = .stuck [⟨7, [2], 1⟩] ∧ acceptBegin bad3 = .stuck ∧ downBegin bad3 2 = .stuck) := by
  decide

namespace IterEx
open StoreEx

/-- the three stores violate `Inv` (and `NoEmpty`) as propositions, too -/
theorem bad_not_inv : ¬ Inv bad1 ∧ ¬ Inv bad2 ∧ ¬ Inv bad3 ∧ ¬ NoEmpty bad1 ∧ ¬ NoEmpty bad2 ∧ ¬ NoEmpty bad3 := by
  refine ⟨?_, ?_, ?_, ?_, ?_, ?_⟩
  · rw [← invB_iff]; decide
  · rw [← invB_iff]; decide
  · rw [← invB_iff]; decide
  · rw [← noEmptyB_iff]; decide
  · rw [← noEmptyB_iff]; decide
  · rw [← noEmptyB_iff]; decide

/-! non-vacuity: traversals of `StoreEx.ops1` (three clusters, two tuples under one symbol, final state 5 without a
cluster) and of a store with two symbols in one cluster and a final state in front that has no cluster -/

def ops2 : List Op :=
  [.add ⟨7, [], 1⟩, .add ⟨8, [1], 1⟩, .add ⟨8, [1, 1], 1⟩, .add ⟨7, [1], 2⟩, .setFinals [3, 2, 1]]

example : Inv (run ops1) ∧ Inv (run ops2) := ⟨store_inv _, store_inv _⟩
example : run ops2 = ⟨[(1, [(7, [[]]), (8, [[1], [1, 1]])]), (2, [(7, [[1]])])], [3, 2, 1]⟩ := by decide

example : (List.range 6).map (iterM (run ops1)).posAt =
    [.at (0, 0, 0), .at (0, 0, 1), .at (1, 0, 0), .at (2, 0, 0), .fin, .stuck] := by decide
example : (List.range 5).map (iterM (run ops2)).posAt =
    [.at (0, 0, 0), .at (0, 1, 0), .at (0, 1, 1), .at (1, 0, 0), .fin] := by decide
example : iterAll (run ops1) = .done [r1, r2, r3, r4] ∧ iterate (run ops1) = [r1, r2, r3, r4] := by decide
example : iterAll (run ops2) = .done (iterate (run ops2)) ∧ (iterate (run ops2)).length = 4 := by decide
example : iterAll empty = .done [] ∧ begin empty = .fin := by decide

example : (List.range 3).map (acceptM (run ops1)).posAt = [.at (0, 1, 0, 0), .at (1, 2, 0, 0), .fin] := by decide
example : (List.range 5).map (acceptM (run ops2)).posAt =
    [.at (1, 1, 0, 0), .at (2, 0, 0, 0), .at (2, 0, 1, 0), .at (2, 0, 1, 1), .fin] := by decide
example : acceptAll (run ops1) = .done [r3, r4] ∧ acceptTrans (run ops1) = [r3, r4] := by decide
example : acceptAll (run ops2) = .done [⟨7, [1], 2⟩, ⟨7, [], 1⟩, ⟨8, [1], 1⟩, ⟨8, [1, 1], 1⟩] := by decide
/-- no final state has a cluster: `begin() == end()` although the map is not empty (`end_` stays `false`) -/
example : acceptBegin (run [.add r1, .setFinal 9]) = .fin ∧ begin (run [.add r1, .setFinal 9]) = .at (0, 0, 0) := by
  decide

example : (List.range 4).map (downM (run ops2) 1).posAt = [.at (0, 0), .at (1, 0), .at (1, 1), .fin] := by decide
example : downAll (run ops1) 1 = .done [r1, r2] ∧ downAll (run ops1) 5 = .done [] ∧
    downIterEmpty (run ops1) 5 = true ∧ downIterEmpty (run ops1) 1 = false ∧ downBegin (run ops1) 5 = .fin := by decide

end IterEx

end Vata.Store
