import Vata.StoreInterned
import Vata.Proofs.CacheModel
/-!
# The tuple cache under an arbitrary multiset of pointer holders (`Vata/StoreInterned.lean`) – cache level

`CInv c R`: the cache `c` is consistent with the multiset `R` of all `TuplePtr`s alive in the process:
no two entries hold equal tuples, no two entries have the same address, the `use_count` of an entry is the number
of pointers to it (and is positive), every pointer points to an entry.
-/
namespace Vata.StoreI
open Vata.CM

structure CInv (c : CacheSt) (R : List Nat) : Prop where
  fk : ∀ v x y, (v, x) ∈ c → (v, y) ∈ c → x = y
  fid : ∀ v v' id rc rc', (v, id, rc) ∈ c → (v', id, rc') ∈ c → v = v'
  cnt : ∀ v id rc, (v, id, rc) ∈ c → rc = R.count id ∧ 0 < rc
  live : ∀ id, id ∈ R → ∃ v rc, (v, id, rc) ∈ c

theorem cinv_nil : CInv [] [] := ⟨by simp, by simp, by simp, by simp⟩

theorem byId_mem {c : CacheSt} {id : Nat} {v : List Nat} {rc : Nat} (h : byId c id = some (v, rc)) : (v, id, rc) ∈ c := by
  unfold byId at h
  have hm := aget_mem h
  simp only [List.mem_map] at hm
  obtain ⟨⟨a, b, d⟩, he, heq⟩ := hm
  simp only [Prod.mk.injEq] at heq
  obtain ⟨h1, h2, h3⟩ := heq
  subst h1; subst h2; subst h3
  exact he

theorem byId_none {c : CacheSt} {id : Nat} (h : byId c id = none) : ∀ v rc, (v, id, rc) ∉ c := by
  intro v rc hm
  have hm' : (id, (v, rc)) ∈ c.map (fun e => (e.2.1, (e.1, e.2.2))) := List.mem_map.2 ⟨_, hm, rfl⟩
  obtain ⟨x, hx⟩ := aget_of_mem hm'
  unfold byId at h
  rw [hx] at h
  cases h

theorem CInv.byId_eq {c : CacheSt} {R : List Nat} (h : CInv c R) {v : List Nat} {id rc : Nat} (hm : (v, id, rc) ∈ c) :
    byId c id = some (v, rc) := by
  cases hb : byId c id with
  | none => exact absurd hm (byId_none hb v rc)
  | some x =>
    obtain ⟨v', rc'⟩ := x
    have hm' := byId_mem hb
    have e1 := h.fid _ _ _ _ _ hm hm'
    subst e1
    have e2 := h.fk _ _ _ hm hm'
    simp only [Prod.mk.injEq, true_and] at e2
    subst e2
    rfl

theorem aget_none_not_mem {c : CacheSt} {v : List Nat} (h : aget c v = none) : ∀ x, (v, x) ∉ c := by
  intro x hm
  obtain ⟨y, hy⟩ := aget_of_mem hm
  rw [hy] at h
  cases h

theorem CInv.aget_eq {c : CacheSt} {R : List Nat} (h : CInv c R) {v : List Nat} {x : Nat × Nat} (hm : (v, x) ∈ c) :
    aget c v = some x := by
  obtain ⟨y, hy⟩ := aget_of_mem hm
  rw [hy, h.fk _ _ _ (aget_mem hy) hm]

theorem CInv.derefC_eq {c : CacheSt} {R : List Nat} (h : CInv c R) {v : List Nat} {id rc : Nat} (hm : (v, id, rc) ∈ c) :
    derefC c id = v := by
  unfold derefC
  rw [h.byId_eq hm]

/-- two live pointers are equal iff the tuples they point to are equal -/
theorem CInv.deref_inj {c : CacheSt} {R : List Nat} (h : CInv c R) {a b : Nat} (ha : a ∈ R) (hb : b ∈ R)
    (e : derefC c a = derefC c b) : a = b := by
  obtain ⟨va, ra, hma⟩ := h.live a ha
  obtain ⟨vb, rb, hmb⟩ := h.live b hb
  rw [h.derefC_eq hma, h.derefC_eq hmb] at e
  subst e
  have := h.fk _ _ _ hma hmb
  simp only [Prod.mk.injEq] at this
  exact this.1

theorem CInv.congr {c : CacheSt} {R R' : List Nat} (h : CInv c R) (hc : ∀ id, R'.count id = R.count id) : CInv c R' := by
  refine ⟨h.fk, h.fid, ?_, ?_⟩
  · intro v id rc hm
    rw [hc]
    exact h.cnt v id rc hm
  · intro id hid
    apply h.live
    have : 0 < R'.count id := List.count_pos_iff.2 hid
    rw [hc] at this
    exact List.count_pos_iff.1 this

theorem mem_ids' {c : CacheSt} {id : Nat} : id ∈ ids c ↔ ∃ v n, (v, id, n) ∈ c := by
  unfold ids
  simp only [List.mem_map]
  constructor
  · rintro ⟨⟨v, i, n⟩, hm, e⟩
    simp only at e
    subst e
    exact ⟨v, n, hm⟩
  · rintro ⟨v, n, hm⟩
    exact ⟨_, hm, rfl⟩

theorem CInv.liveIds_eq {c : CacheSt} {R : List Nat} (h : CInv c R) {id : Nat} : id ∈ liveIds c ↔ id ∈ ids c := by
  unfold liveIds
  rw [mem_ids', mem_ids']
  constructor
  · rintro ⟨v, n, hm⟩
    exact ⟨v, n, (List.mem_filter.1 hm).1⟩
  · rintro ⟨v, n, hm⟩
    refine ⟨v, n, List.mem_filter.2 ⟨hm, ?_⟩⟩
    simpa using (h.cnt v id n hm).2

/-- one more pointer to an existing entry -/
theorem CInv.bump {c : CacheSt} {R : List Nat} (h : CInv c R) {v : List Nat} {id rc : Nat} (hm : (v, id, rc) ∈ c) :
    CInv (aset c v (id, rc + 1)) (id :: R) ∧
    (∀ v' id' rc', (v', id', rc') ∈ c → ∃ rc'', (v', id', rc'') ∈ aset c v (id, rc + 1)) := by
  refine ⟨⟨?_, ?_, ?_, ?_⟩, ?_⟩
  · intro w x y hx hy
    rw [mem_aset] at hx hy
    rcases hx with ⟨hx, nx⟩ | hx <;> rcases hy with ⟨hy, ny⟩ | hy
    · exact h.fk _ _ _ hx hy
    · simp only [Prod.mk.injEq] at hy; exact absurd hy.1 nx
    · simp only [Prod.mk.injEq] at hx; exact absurd hx.1 ny
    · simp only [Prod.mk.injEq] at hx hy; rw [hx.2, hy.2]
  · intro w w' i r r' hx hy
    rw [mem_aset] at hx hy
    rcases hx with ⟨hx, nx⟩ | hx <;> rcases hy with ⟨hy, ny⟩ | hy
    · exact h.fid _ _ _ _ _ hx hy
    · simp only [Prod.mk.injEq] at hy
      obtain ⟨e1, e2, _⟩ := hy
      subst e1; subst e2
      exact h.fid _ _ _ _ _ hx hm
    · simp only [Prod.mk.injEq] at hx
      obtain ⟨e1, e2, _⟩ := hx
      subst e1; subst e2
      exact h.fid _ _ _ _ _ hm hy
    · simp only [Prod.mk.injEq] at hx hy; rw [hx.1, hy.1]
  · intro w i r hx
    rw [mem_aset] at hx
    rcases hx with ⟨hx, nx⟩ | hx
    · have hne : id ≠ i := by
        intro e
        subst e
        exact nx (h.fid _ _ _ _ _ hx hm)
      rw [List.count_cons_of_ne hne]
      exact h.cnt _ _ _ hx
    · simp only [Prod.mk.injEq] at hx
      obtain ⟨_, e2, e3⟩ := hx
      subst e2; subst e3
      rw [List.count_cons_self, ← (h.cnt _ _ _ hm).1]
      exact ⟨rfl, Nat.succ_pos _⟩
  · intro i hi
    by_cases e : i = id
    · subst e
      exact ⟨v, rc + 1, mem_aset.2 (Or.inr rfl)⟩
    · have hi' : i ∈ R := by
        rcases List.mem_cons.1 hi with h' | h'
        · exact absurd h' e
        · exact h'
      obtain ⟨w, r, hw⟩ := h.live i hi'
      have : w ≠ v := by
        intro e'
        subst e'
        have := h.fk _ _ _ hw hm
        simp only [Prod.mk.injEq] at this
        exact e this.1
      exact ⟨w, r, mem_aset.2 (Or.inl ⟨hw, this⟩)⟩
  · intro w i r hw
    by_cases e : w = v
    · subst e
      have := h.fk _ _ _ hw hm
      simp only [Prod.mk.injEq] at this
      obtain ⟨e1, _⟩ := this
      subst e1
      exact ⟨rc + 1, mem_aset.2 (Or.inr rfl)⟩
    · exact ⟨r, mem_aset.2 (Or.inl ⟨hw, e⟩)⟩

/-- a new node at an address no entry has -/
theorem CInv.fresh {c : CacheSt} {R : List Nat} (h : CInv c R) {v : List Nat} {ch : Nat} (hv : aget c v = none)
    (hch : ch ∉ ids c) :
    CInv (aset c v (ch, 1)) (ch :: R) ∧
    (∀ v' id' rc', (v', id', rc') ∈ c → ∃ rc'', (v', id', rc'') ∈ aset c v (ch, 1)) := by
  have hnv := aget_none_not_mem hv
  have hnc : ∀ w r, (w, ch, r) ∉ c := fun w r hm => hch (mem_ids'.2 ⟨w, r, hm⟩)
  have hcR : ch ∉ R := fun hc => by
    obtain ⟨w, r, hw⟩ := h.live ch hc
    exact hnc w r hw
  refine ⟨⟨?_, ?_, ?_, ?_⟩, ?_⟩
  · intro w x y hx hy
    rw [mem_aset] at hx hy
    rcases hx with ⟨hx, nx⟩ | hx <;> rcases hy with ⟨hy, ny⟩ | hy
    · exact h.fk _ _ _ hx hy
    · simp only [Prod.mk.injEq] at hy; exact absurd hy.1 nx
    · simp only [Prod.mk.injEq] at hx; exact absurd hx.1 ny
    · simp only [Prod.mk.injEq] at hx hy; rw [hx.2, hy.2]
  · intro w w' i r r' hx hy
    rw [mem_aset] at hx hy
    rcases hx with ⟨hx, nx⟩ | hx <;> rcases hy with ⟨hy, ny⟩ | hy
    · exact h.fid _ _ _ _ _ hx hy
    · simp only [Prod.mk.injEq] at hy
      obtain ⟨_, e2, _⟩ := hy
      subst e2
      exact absurd hx (hnc _ _)
    · simp only [Prod.mk.injEq] at hx
      obtain ⟨_, e2, _⟩ := hx
      subst e2
      exact absurd hy (hnc _ _)
    · simp only [Prod.mk.injEq] at hx hy; rw [hx.1, hy.1]
  · intro w i r hx
    rw [mem_aset] at hx
    rcases hx with ⟨hx, nx⟩ | hx
    · have hne : ch ≠ i := by
        intro e
        subst e
        exact hnc _ _ hx
      rw [List.count_cons_of_ne hne]
      exact h.cnt _ _ _ hx
    · simp only [Prod.mk.injEq] at hx
      obtain ⟨_, e2, e3⟩ := hx
      subst e2; subst e3
      rw [List.count_cons_self, List.count_eq_zero_of_not_mem hcR]
      exact ⟨rfl, Nat.succ_pos _⟩
  · intro i hi
    rcases List.mem_cons.1 hi with e | hi'
    · subst e
      exact ⟨v, 1, mem_aset.2 (Or.inr rfl)⟩
    · obtain ⟨w, r, hw⟩ := h.live i hi'
      have : w ≠ v := by
        intro e'
        subst e'
        exact hnv _ hw
      exact ⟨w, r, mem_aset.2 (Or.inl ⟨hw, this⟩)⟩
  · intro w i r hw
    have : w ≠ v := by
      intro e'
      subst e'
      exact hnv _ hw
    exact ⟨r, mem_aset.2 (Or.inl ⟨hw, this⟩)⟩

/-- `Cache::lookup` -/
theorem CInv.lookupC {c c' : CacheSt} {R : List Nat} (h : CInv c R) {t : List Nat} {ch p : Nat}
    (hl : lookupC c t ch = some (c', p)) :
    CInv c' (p :: R) ∧ (∃ rc, (t, p, rc) ∈ c') ∧
    (∀ v' id' rc', (v', id', rc') ∈ c → ∃ rc'', (v', id', rc'') ∈ c') := by
  unfold StoreI.lookupC at hl
  split at hl
  · rename_i id rc hg
    simp only [Option.some.injEq, Prod.mk.injEq] at hl
    obtain ⟨e1, e2⟩ := hl
    subst e1; subst e2
    have hb := h.bump (aget_mem hg)
    exact ⟨hb.1, ⟨rc + 1, mem_aset.2 (Or.inr rfl)⟩, hb.2⟩
  · rename_i hg
    split at hl
    · cases hl
    · rename_i hch
      simp only [Option.some.injEq, Prod.mk.injEq] at hl
      obtain ⟨e1, e2⟩ := hl
      subst e1; subst e2
      have hf := h.fresh hg (fun hc => hch (h.liveIds_eq.2 hc))
      exact ⟨hf.1, ⟨1, mem_aset.2 (Or.inr rfl)⟩, hf.2⟩

/-- copy of a live pointer -/
theorem CInv.acquireC {c : CacheSt} {R : List Nat} (h : CInv c R) {p : Nat} (hp : p ∈ R) :
    CInv (acquireC c p) (p :: R) ∧
    (∀ v' id' rc', (v', id', rc') ∈ c → ∃ rc'', (v', id', rc'') ∈ acquireC c p) := by
  obtain ⟨v, rc, hm⟩ := h.live p hp
  unfold StoreI.acquireC
  rw [h.byId_eq hm]
  exact h.bump hm

/-- death of one pointer -/
theorem CInv.releaseC {c : CacheSt} {R : List Nat} {p : Nat} (h : CInv c (p :: R)) :
    CInv (releaseC .lib c p) R ∧
    (∀ v' id' rc', id' ∈ R → (v', id', rc') ∈ c → ∃ rc'', (v', id', rc'') ∈ releaseC .lib c p) := by
  obtain ⟨v, rc, hm⟩ := h.live p (List.mem_cons_self ..)
  have hc := h.cnt _ _ _ hm
  rw [List.count_cons_self] at hc
  unfold StoreI.releaseC
  rw [h.byId_eq hm]
  simp only [show (Mode.lib = Mode.noErase) = False from by simp, if_false]
  have hcnt : ∀ w i r, (w, i, r) ∈ c → w ≠ v → r = R.count i ∧ 0 < r := by
    intro w i r hx nx
    have hne : p ≠ i := by
      intro e
      subst e
      exact nx (h.fid _ _ _ _ _ hx hm)
    have := h.cnt _ _ _ hx
    rwa [List.count_cons_of_ne hne] at this
  have hlive : ∀ i, i ∈ R → i ≠ p → ∃ w r, (w, i, r) ∈ c ∧ w ≠ v := by
    intro i hi e
    obtain ⟨w, r, hw⟩ := h.live i (List.mem_cons_of_mem _ hi)
    refine ⟨w, r, hw, ?_⟩
    intro e'
    subst e'
    have := h.fk _ _ _ hw hm
    simp only [Prod.mk.injEq] at this
    exact e this.1
  split
  · -- last pointer: the entry is erased
    rename_i hle
    have h0 : R.count p = 0 := by omega
    have hpR : p ∉ R := fun hp => by
      have := List.count_pos_iff.2 hp
      omega
    refine ⟨⟨?_, ?_, ?_, ?_⟩, ?_⟩
    · intro w x y hx hy
      exact h.fk _ _ _ (mem_adel.1 hx).1 (mem_adel.1 hy).1
    · intro w w' i r r' hx hy
      exact h.fid _ _ _ _ _ (mem_adel.1 hx).1 (mem_adel.1 hy).1
    · intro w i r hx
      exact hcnt w i r (mem_adel.1 hx).1 (mem_adel.1 hx).2
    · intro i hi
      obtain ⟨w, r, hw, nw⟩ := hlive i hi (fun e => hpR (e ▸ hi))
      exact ⟨w, r, mem_adel.2 ⟨hw, nw⟩⟩
    · intro w i r hi hw
      obtain ⟨w', r', hw', nw'⟩ := hlive i hi (fun e => hpR (e ▸ hi))
      have := h.fid _ _ _ _ _ hw hw'
      subst this
      exact ⟨r, mem_adel.2 ⟨hw, nw'⟩⟩
  · rename_i hgt
    refine ⟨⟨?_, ?_, ?_, ?_⟩, ?_⟩
    · intro w x y hx hy
      rw [mem_aset] at hx hy
      rcases hx with ⟨hx, nx⟩ | hx <;> rcases hy with ⟨hy, ny⟩ | hy
      · exact h.fk _ _ _ hx hy
      · simp only [Prod.mk.injEq] at hy; exact absurd hy.1 nx
      · simp only [Prod.mk.injEq] at hx; exact absurd hx.1 ny
      · simp only [Prod.mk.injEq] at hx hy; rw [hx.2, hy.2]
    · intro w w' i r r' hx hy
      rw [mem_aset] at hx hy
      rcases hx with ⟨hx, nx⟩ | hx <;> rcases hy with ⟨hy, ny⟩ | hy
      · exact h.fid _ _ _ _ _ hx hy
      · simp only [Prod.mk.injEq] at hy
        obtain ⟨e1, e2, _⟩ := hy
        subst e1; subst e2
        exact h.fid _ _ _ _ _ hx hm
      · simp only [Prod.mk.injEq] at hx
        obtain ⟨e1, e2, _⟩ := hx
        subst e1; subst e2
        exact h.fid _ _ _ _ _ hm hy
      · simp only [Prod.mk.injEq] at hx hy; rw [hx.1, hy.1]
    · intro w i r hx
      rw [mem_aset] at hx
      rcases hx with ⟨hx, nx⟩ | hx
      · exact hcnt w i r hx nx
      · simp only [Prod.mk.injEq] at hx
        obtain ⟨_, e2, e3⟩ := hx
        subst e2; subst e3
        omega
    · intro i hi
      by_cases e : i = p
      · subst e
        exact ⟨v, rc - 1, mem_aset.2 (Or.inr rfl)⟩
      · obtain ⟨w, r, hw, nw⟩ := hlive i hi e
        exact ⟨w, r, mem_aset.2 (Or.inl ⟨hw, nw⟩)⟩
    · intro w i r _ hw
      by_cases e : w = v
      · subst e
        have := h.fk _ _ _ hw hm
        simp only [Prod.mk.injEq] at this
        obtain ⟨e1, _⟩ := this
        subst e1
        exact ⟨rc - 1, mem_aset.2 (Or.inr rfl)⟩
      · exact ⟨r, mem_aset.2 (Or.inl ⟨hw, e⟩)⟩

/-- all pointers of a dying container are released one after the other -/
theorem CInv.foldl_releaseC (L : List Nat) {c : CacheSt} {E : List Nat} (h : CInv c (L ++ E)) :
    CInv (L.foldl (StoreI.releaseC Mode.lib) c) E ∧
    (∀ v' id' rc', id' ∈ E → (v', id', rc') ∈ c → ∃ rc'', (v', id', rc'') ∈ L.foldl (StoreI.releaseC Mode.lib) c) := by
  induction L generalizing c with
  | nil => exact ⟨h, fun v' id' rc' _ hm => ⟨rc', hm⟩⟩
  | cons p L ih =>
    have h1 := CInv.releaseC (R := L ++ E) h
    have h2 := ih h1.1
    refine ⟨h2.1, ?_⟩
    intro v' id' rc' hi hm
    obtain ⟨r1, hr1⟩ := h1.2 v' id' rc' (List.mem_append_right _ hi) hm
    exact h2.2 v' id' r1 hi hr1

/-- all pointers of a container are copied one after the other -/
theorem CInv.foldl_acquireC (L : List Nat) {c : CacheSt} {R : List Nat} (h : CInv c R) (hL : ∀ p, p ∈ L → p ∈ R) :
    CInv (L.foldl StoreI.acquireC c) (L.reverse ++ R) ∧
    (∀ v' id' rc', (v', id', rc') ∈ c → ∃ rc'', (v', id', rc'') ∈ L.foldl StoreI.acquireC c) := by
  induction L generalizing c R with
  | nil => exact ⟨by simpa using h, fun v' id' rc' hm => ⟨rc', hm⟩⟩
  | cons p L ih =>
    have h1 := CInv.acquireC h (hL p (List.mem_cons_self ..))
    have h2 := ih h1.1 (fun q hq => List.mem_cons_of_mem _ (hL q (List.mem_cons_of_mem _ hq)))
    refine ⟨?_, ?_⟩
    · have := h2.1
      simpa [List.reverse_cons, List.append_assoc] using this
    · intro v' id' rc' hm
      obtain ⟨r1, hr1⟩ := h1.2 v' id' rc' hm
      exact h2.2 v' id' r1 hr1

end Vata.StoreI
