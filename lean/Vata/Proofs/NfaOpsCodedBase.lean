import Vata.NfaOpsCoded
import Vata.Proofs.NfaOps
import Vata.Proofs.NfaStart
/-!
# Coded word-automata operations: basic facts (orders, clusters, set-equal automata)
-/
namespace Vata.NfaC
open Vata.W

theorem NfaOrd.ident_ok : NfaOrd.ident.Ok := ⟨fun _ _ => Iff.rfl, fun _ _ => Iff.rfl, fun _ _ => Iff.rfl⟩
theorem NfaOrd.rev_ok : NfaOrd.rev.Ok :=
  ⟨fun _ _ => List.mem_reverse, fun _ _ => List.mem_reverse, fun _ _ => List.mem_reverse⟩

theorem mem_iterSet {f : List Nat → List Nat} (hf : ∀ l x, x ∈ f l ↔ x ∈ l) {l : List Nat} {x : Nat} :
    x ∈ iterSet f l ↔ x ∈ l := by
  rw [iterSet, List.mem_eraseDups, hf]

theorem mem_insT {T : List (Nat × Nat × Nat)} {e x : Nat × Nat × Nat} : x ∈ insT T e ↔ x ∈ T ∨ x = e := by
  unfold insT
  split
  · rename_i h
    have := List.contains_iff_mem.mp h
    constructor
    · exact Or.inl
    · rintro (h | h)
      · exact h
      · rw [h]; exact this
  · simp [List.mem_append]

/-- the cluster of `q`: exactly the transitions leaving `q` -/
theorem mem_nfaClusterOf {o : NfaOrd} (ho : o.Ok) {N : NFA} {q a x : Nat} :
    (∃ c, c ∈ nfaClusterOf o N q ∧ c.1 = a ∧ x ∈ c.2) ↔ (q, a, x) ∈ N.trans := by
  simp only [nfaClusterOf, List.mem_map]
  constructor
  · rintro ⟨c, ⟨a', _, rfl⟩, rfl, hx⟩
    simp only at hx
    rw [mem_iterSet ho.1] at hx
    simp only [List.mem_map, List.mem_filter, beq_iff_eq] at hx
    obtain ⟨⟨p, b, y⟩, ⟨⟨he, h1⟩, h2⟩, h3⟩ := hx
    simp only at h1 h2 h3
    subst h1; subst h2; subst h3
    exact he
  · intro he
    refine ⟨_, ⟨a, ?_, rfl⟩, rfl, ?_⟩
    · rw [mem_iterSet ho.2.1]
      simp only [List.mem_map, List.mem_filter, beq_iff_eq]
      exact ⟨(q, a, x), ⟨he, rfl⟩, rfl⟩
    · simp only
      rw [mem_iterSet ho.1]
      simp only [List.mem_map, List.mem_filter, beq_iff_eq]
      exact ⟨(q, a, x), ⟨⟨he, rfl⟩, rfl⟩, rfl⟩

/-- the symbols of a cluster are distinct: `find` by symbol finds THE entry -/
theorem nfaClusterOf_find {o : NfaOrd} {N : NFA} {q : Nat} {c : Nat × List Nat} (hc : c ∈ nfaClusterOf o N q) :
    (nfaClusterOf o N q).find? (fun d => d.1 == c.1) = some c := by
  simp only [nfaClusterOf, List.mem_map] at hc ⊢
  obtain ⟨a, ha, rfl⟩ := hc
  simp only
  generalize iterSet o.syms _ = L at ha ⊢
  induction L with
  | nil => exact nomatch ha
  | cons b L ih =>
    simp only [List.map_cons, List.find?_cons]
    by_cases hb : b = a
    · subst hb; simp
    · have : (b == a) = false := by simpa using hb
      simp only [this]
      rcases List.mem_cons.mp ha with h | h
      · exact absurd h.symm hb
      · exact ih h

theorem nfaClusterOf_isEmpty {o : NfaOrd} (ho : o.Ok) {N : NFA} {q : Nat} (h : (nfaClusterOf o N q).isEmpty = true) :
    ∀ a x, (q, a, x) ∉ N.trans := by
  intro a x he
  obtain ⟨c, hc, _⟩ := (mem_nfaClusterOf ho).mpr he
  rw [List.isEmpty_iff] at h
  rw [h] at hc
  exact nomatch hc

theorem mem_nfaClusterTargets {o : NfaOrd} (ho : o.Ok) {N : NFA} {q x : Nat} :
    x ∈ nfaClusterTargets o N q ↔ ∃ a, (q, a, x) ∈ N.trans := by
  simp only [nfaClusterTargets, List.mem_flatMap]
  constructor
  · rintro ⟨c, hc, hx⟩; exact ⟨c.1, (mem_nfaClusterOf ho).mp ⟨c, hc, rfl, hx⟩⟩
  · rintro ⟨a, he⟩
    obtain ⟨c, hc, _, hx⟩ := (mem_nfaClusterOf ho).mpr he
    exact ⟨c, hc, hx⟩

/-! ### automata with the same sets of start states, final states, transitions -/

/-- same start states, final states and transitions, as sets -/
def NfaSetEq (R N : NFA) : Prop :=
  (∀ q, q ∈ R.start ↔ q ∈ N.start) ∧ (∀ q, q ∈ R.final ↔ q ∈ N.final) ∧ (∀ e, e ∈ R.trans ↔ e ∈ N.trans)

theorem NfaSetEq.refl (N : NFA) : NfaSetEq N N := ⟨fun _ => Iff.rfl, fun _ => Iff.rfl, fun _ => Iff.rfl⟩
theorem NfaSetEq.symm {R N : NFA} (h : NfaSetEq R N) : NfaSetEq N R :=
  ⟨fun q => (h.1 q).symm, fun q => (h.2.1 q).symm, fun e => (h.2.2 e).symm⟩
theorem NfaSetEq.trans {R M N : NFA} (h : NfaSetEq R M) (h' : NfaSetEq M N) : NfaSetEq R N :=
  ⟨fun q => (h.1 q).trans (h'.1 q), fun q => (h.2.1 q).trans (h'.2.1 q), fun e => (h.2.2 e).trans (h'.2.2 e)⟩

theorem NfaSetEq.sub {R N : NFA} (h : NfaSetEq R N) : NfaSub R N :=
  ⟨fun q => (h.1 q).mp, fun q => (h.2.1 q).mp, fun e => (h.2.2 e).mp⟩

theorem NfaSetEq.lang {R N : NFA} (h : NfaSetEq R N) (w : List Nat) : acceptsW R w = acceptsW N w := by
  rw [Bool.eq_iff_iff]
  exact ⟨h.sub.lang w, h.symm.sub.lang w⟩

theorem NfaSetEq.reverse {R N : NFA} (h : NfaSetEq R N) : NfaSetEq (nfaReverse R) (nfaReverse N) := by
  refine ⟨h.2.1, h.1, ?_⟩
  rintro ⟨p, a, q⟩
  rw [mem_nfaReverse_trans, mem_nfaReverse_trans]
  exact h.2.2 _

/-- Boolean form (for `decide`d examples) -/
def nfaSetEqB (R N : NFA) : Bool := nfaSubB R N && nfaSubB N R

end Vata.NfaC
