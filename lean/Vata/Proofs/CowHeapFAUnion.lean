import Vata.CowHeapFAUnion
import Vata.Proofs.CowHeapFACand2
import Vata.Proofs.NfaUnionCoded
/-!
# `Union` through the heap model is `nfasUnionWith` (proofs for `Vata/CowHeapFAUnion.lean`, property C11 / C10)

* `vUnion_denote`: the value the block `new d; reindex a d fA; reindex b d fB` leaves denotes `nfasUnionWith fA fB A B` up to
  list order – no injectivity needed for that; `vUnion_lang`: with injective translators with disjoint images the language is
  the union.
* `nfasReindexInto_nequiv`, `nfaUnionCodedFrom_nequiv`: the coded `ReindexStates` / `Union` of `Vata/NfaLoadDump.lean` are
  `nfasUnionDisjoint _ (nfasMap _ _)` / `nfasUnionWith` up to list order, so the heap model agrees with `(nfaUnionCoded …).1`.
* `fa_union_block`: the block run after any history.
* `denBlk`, `fa_history_fold_blocks`: the fold theorem for histories with `Union` blocks.
-/
namespace Vata.CowHeapFA

open Vata Vata.W Vata.NfaS Vata.NfaLD
open Vata.Store (KeysNodup)
open Vata.CowHeap (upd upd_same upd_other)

/-! ### the value -/

theorem vNew_toNFAS : vNew.toNFAS = nfasEmpty := rfl

/-- two `ReindexStates` into the empty automaton = `Union` with the two maps -/
theorem nfasUnionWith_eq (fA fB : Nat → Nat) (A B : NFAS) :
    nfasUnionDisjoint (nfasUnionDisjoint nfasEmpty (nfasMap fA A)) (nfasMap fB B) = nfasUnionWith fA fB A B := rfl

theorem nfasUnionWith_eq' (fA fB : Nat → Nat) (A B : NFAS) :
    nfasUnionDisjoint (nfasMap fA A) (nfasMap fB B) = nfasUnionWith fA fB A B := rfl

/-- **the value `Union` builds denotes `nfasUnionWith`** (up to list order) – for ANY translators -/
theorem vUnion_denote (fA fB : Nat → Nat) (A B : FAVal) (hA : TuplesOk A.trans) (hB : TuplesOk B.trans) :
    NEquiv (vUnion fA fB A B).toNFAS (nfasUnionWith fA fB A.toNFAS B.toNFAS) := by
  have h1 := vReindex_denote fA A vNew hA
  have h2 := vReindex_denote fB B (vReindex fA A vNew) hB
  have h3 := h2.trans' (nfasUnionDisjoint_congr h1 (NEquiv.refl (nfasMap fB B.toNFAS)))
  rw [vNew_toNFAS, nfasUnionWith_eq] at h3
  exact h3

/-- the language of the value `Union` builds -/
theorem vUnion_lang (fA fB : Nat → Nat) (A B : FAVal) (hA : TuplesOk A.trans) (hB : TuplesOk B.trans)
    (hiA : NfaInjOn fA (nfaStates A.toNFA)) (hiB : NfaInjOn fB (nfaStates B.toNFA))
    (hdis : ∀ p, p ∈ nfaStates A.toNFA → ∀ q, q ∈ nfaStates B.toNFA → fA p ≠ fB q) (w : List Nat) :
    acceptsW (vUnion fA fB A B).toNFA w = (acceptsW A.toNFA w || acceptsW B.toNFA w) :=
  ((vUnion_denote fA fB A B hA hB).lang w).trans (nfasUnionWith_lang fA fB A.toNFAS B.toNFAS w hiA hiB hdis)

/-! ### the coded `ReindexStates` / `Union` of `Vata/NfaLoadDump.lean` -/

theorem foldStarts_startSyms (f : Nat → Nat) (g : Nat → List Nat) (l : List Nat) (D : NFAS) :
    (foldStarts f g l D).startSyms = l.foldl (fun m q => smInsert m (f q) (g q)) D.startSyms := by
  induction l generalizing D with
  | nil => rfl
  | cons s l ih =>
    show (foldStarts f g l (nfasSetExistingStart D (f s) (g s))).startSyms = _
    rw [ih]; rfl

/-- `ReindexStates (dst, index)` as coded in `NfaLoadDump.lean` is the componentwise union with the image, up to list order -/
theorem nfasReindexInto_nequiv (D : NFAS) (f : Nat → Nat) (A : NFAS) :
    NEquiv (nfasReindexInto D f A) (nfasUnionDisjoint D (nfasMap f A)) := by
  obtain ⟨h1, h2, h3, h4, h5⟩ := nfasReindexInto_spec D f A
  refine ⟨fun q => ?_, fun q => ?_, fun e => ?_, fun p => ?_⟩
  · rw [h3 q]
    show _ ↔ q ∈ D.start ++ A.start.map f
    rw [List.mem_append]
  · rw [h2 q]
    show _ ↔ q ∈ D.final ++ A.final.map f
    rw [List.mem_append]
  · rw [show (nfasReindexInto D f A).trans = _ from h1]
    exact Iff.rfl
  · rw [h4, foldStarts_startSyms, smFind_foldl_insert, h5]
    rfl

/-- the result of the coded `Union` (two weak translators, one counter) is `nfasUnionWith` for the maps it reports -/
theorem nfaUnionCodedFrom_nequiv (c : Nat) (oA oB : List Nat) (A B : NFAS) (mL mR : SMap) :
    NEquiv (nfaUnionCodedFrom c oA oB A B mL mR).1
      (nfasUnionWith (applyMap (nfaUnionCodedFrom c oA oB A B mL mR).2.1)
        (applyMap (nfaUnionCodedFrom c oA oB A B mL mR).2.2) A B) := by
  show NEquiv (nfasReindexInto (nfasReindexInto nfasEmpty (applyMap (weakTrAll oA mL c).1) A)
      (applyMap (weakTrAll oB mR (weakTrAll oA mL c).2).1) B) _
  have h1 := nfasReindexInto_nequiv nfasEmpty (applyMap (weakTrAll oA mL c).1) A
  have h2 := nfasReindexInto_nequiv (nfasReindexInto nfasEmpty (applyMap (weakTrAll oA mL c).1) A)
    (applyMap (weakTrAll oB mR (weakTrAll oA mL c).2).1) B
  have h3 := h2.trans' (nfasUnionDisjoint_congr h1 (NEquiv.refl (nfasMap (applyMap (weakTrAll oB mR (weakTrAll oA mL c).2).1) B)))
  rw [nfasUnionWith_eq] at h3
  exact h3

/-- **the heap model's `Union` and `nfaUnionCoded` agree**: with the maps `unionMaps` the coded translators report, the value
    the block builds denotes `(nfaUnionCoded …).1` up to list order -/
theorem vUnion_nfaUnionCoded (A B : FAVal) (pL pR : Option SMap) (hA : TuplesOk A.trans) (hB : TuplesOk B.trans) :
    NEquiv (vUnion (applyMap (unionMaps A B pL pR).1) (applyMap (unionMaps A B pL pR).2) A B).toNFAS
      (nfaUnionCoded A.toNFAS B.toNFAS pL pR).1 :=
  (vUnion_denote _ _ A B hA hB).trans'
    (nfaUnionCodedFrom_nequiv (unionCnt (pL.getD []) (pR.getD [])) (nfaVisitOrder A.toNFAS) (nfaVisitOrder B.toNFAS)
      A.toNFAS B.toNFAS (pL.getD []) (pR.getD [])).symm

/-! ### the block on values, and after a history -/

theorem upd_upd {β : Type} (f : Nat → β) (k : Nat) (x y : β) : upd (upd f k x) k y = upd f k y := by
  funext z
  unfold upd
  by_cases e : z = k <;> simp [e]

/-- the three operations of `Union`, on independent values: operands live, `dst` not ⇒ only `dst` changes, to `vUnion` -/
theorem spec_unionOps (e : Nat → Option FAVal) (a b dst : Nat) (fA fB : Nat → Nat) (A B : FAVal)
    (ha : e a = some A) (hb : e b = some B) (hd : e dst = none) :
    (unionOps a b dst fA fB).foldl specStep e = upd e dst (some (vUnion fA fB A B)) := by
  have had : a ≠ dst := fun h => by rw [h, hd] at ha; cases ha
  have hbd : b ≠ dst := fun h => by rw [h, hd] at hb; cases hb
  have e1 : specStep e (.new dst) = upd e dst (some vNew) := by
    simp only [specStep, hd, Option.isSome_none, Bool.false_eq_true, if_false]
  have e2 : specStep (upd e dst (some vNew)) (.reindex a dst fA) = upd e dst (some (vReindex fA A vNew)) := by
    have : upd e dst (some vNew) a = some A := by rw [upd_other _ _ had]; exact ha
    simp only [specStep, this, upd_same, ne_eq, had, not_false_eq_true, if_true, upd_upd]
  have e3 : specStep (upd e dst (some (vReindex fA A vNew))) (.reindex b dst fB) =
      upd e dst (some (vReindex fB B (vReindex fA A vNew))) := by
    have : upd e dst (some (vReindex fA A vNew)) b = some B := by rw [upd_other _ _ hbd]; exact hb
    simp only [specStep, this, upd_same, ne_eq, hbd, not_false_eq_true, if_true, upd_upd]
  show specStep (specStep (specStep e (.new dst)) (.reindex a dst fA)) (.reindex b dst fB) = _
  rw [e1, e2, e3]; rfl

theorem exec_append (ops l : List Op) : exec (ops ++ l) = l.foldl step (exec ops) := by
  unfold exec; rw [List.foldl_append]

theorem absFA_exec_append (ops l : List Op) : absFA (exec (ops ++ l)) = l.foldl specStep (absFA (exec ops)) := by
  rw [exec_append, (fa_history_refines (fa_history_inv ops) l).1]

/-- **`Union` after any history**: with live operands and a dead target, the heap after the block reads `vUnion` through
    `dst` and what it read before through every other handle -/
theorem fa_union_block (ops : List Op) (a b dst : Nat) (fA fB : Nat → Nat) (A B : FAVal)
    (ha : absFA (exec ops) a = some A) (hb : absFA (exec ops) b = some B) (hd : absFA (exec ops) dst = none) :
    absFA (exec (ops ++ unionOps a b dst fA fB)) = upd (absFA (exec ops)) dst (some (vUnion fA fB A B)) := by
  rw [absFA_exec_append, spec_unionOps _ a b dst fA fB A B ha hb hd]

/-! ### the fold theorem with `Union` blocks -/

/-- `Union` respects "the same up to list order" when each translator is injective on the START states of its operand -/
theorem nfasUnionWith_congr (fA fB : Nat → Nat) {A A' B B' : NFAS} (h : NEquiv A A') (h' : NEquiv B B')
    (hA : NfaInjOn fA A.start) (hB : NfaInjOn fB B.start) :
    NEquiv (nfasUnionWith fA fB A B) (nfasUnionWith fA fB A' B') := by
  have := nfasUnionDisjoint_congr (nfasMap_congr fA h hA) (nfasMap_congr fB h' hB)
  rw [nfasUnionWith_eq', nfasUnionWith_eq'] at this
  exact this

/-- `Union` on the automata the objects denote: operands live, target dead ⇒ the target denotes `nfasUnionWith`; nothing
    happens otherwise (not what the block does then – `BlkOk` excludes it: `Union` returns a NEW object, its operands exist) -/
def denUnion (e : Nat → Option NFAS) (a b dst : Nat) (fA fB : Nat → Nat) : Nat → Option NFAS :=
  match e a, e b with
  | some A, some B => if (e dst).isNone then upd e dst (some (nfasUnionWith fA fB A B)) else e
  | _, _ => e

/-- `denStep` for blocks -/
def denBlk (e : Nat → Option NFAS) : Blk → (Nat → Option NFAS)
  | .op o => denStep e o
  | .union a b dst fA fB => denUnion e a b dst fA fB

/-- what the block fold theorem asks of a block executed in the environment `e` of values: a single operation satisfies
    `FoldOk`; for `Union` the operands are live, the target is not, and each translator is injective on the start states of
    its operand -/
def BlkOk (e : Nat → Option FAVal) : Blk → Prop
  | .op o => FoldOk e o
  | .union a b dst fA fB =>
    (∃ A, e a = some A ∧ NfaInjOn fA A.mem.start) ∧ (∃ B, e b = some B ∧ NfaInjOn fB B.mem.start) ∧ e dst = none

/-- the hypothesis of the congruence of `denBlk` -/
def DenBlkOk (e : Nat → Option NFAS) : Blk → Prop
  | .op o => DenOk e o ∧ NotCand o
  | .union a b _ fA fB => (∀ A, e a = some A → NfaInjOn fA A.start) ∧ (∀ B, e b = some B → NfaInjOn fB B.start)

theorem BlkOk.denBlkOk {e : Nat → Option FAVal} {b : Blk} (h : BlkOk e b) : DenBlkOk (den e) b := by
  cases b with
  | op o => exact ⟨FoldOk.denOk h, FoldOk.notCand h⟩
  | union a b dst fA fB =>
    obtain ⟨⟨A, hA, iA⟩, ⟨B, hB, iB⟩, _⟩ := h
    constructor
    · intro X hX; rw [den_some hA] at hX; cases hX; exact iA
    · intro X hX; rw [den_some hB] at hX; cases hX; exact iB

theorem denBlk_congr {e e' : Nat → Option NFAS} (hab : EnvEq e e') (b : Blk) (hok : DenBlkOk e b) :
    EnvEq (denBlk e b) (denBlk e' b) := by
  cases b with
  | op o => exact denStep_congr hab o hok.1 hok.2
  | union x y dst fA fB =>
    have h1 := hab x
    have h2 := hab y
    have hn := (hab dst).isNone_eq
    simp only [denBlk, denUnion]
    cases ha : e x <;> cases hb : e' x <;> rw [ha, hb] at h1
    · exact hab
    · exact absurd h1 id
    · exact absurd h1 id
    · cases hc : e y <;> cases hd : e' y <;> rw [hc, hd] at h2
      · exact hab
      · exact absurd h2 id
      · exact absurd h2 id
      · simp only [hn]
        split
        · exact envEq_upd2 hab dst (nfasUnionWith_congr fA fB h1 h2 (hok.1 _ ha) (hok.2 _ hc))
        · exact hab

/-- one block after any history -/
theorem fa_history_denote_blk (ops : List Op) (b : Blk) (hok : BlkOk (absFA (exec ops)) b) :
    EnvEq (den (absFA (exec (ops ++ b.ops)))) (denBlk (den (absFA (exec ops))) b) := by
  cases b with
  | op o => exact fa_history_denote_step ops o (FoldOk.opOk hok) (FoldOk.notCand hok)
  | union x y dst fA fB =>
    obtain ⟨⟨A, hA, _⟩, ⟨B, hB, _⟩, hd⟩ := hok
    show EnvEq (den (absFA (exec (ops ++ unionOps x y dst fA fB)))) (denUnion (den (absFA (exec ops))) x y dst fA fB)
    rw [fa_union_block ops x y dst fA fB A B hA hB hd, den_upd]
    simp only [denUnion, den_some hA, den_some hB, den_none hd, Option.isNone_none, if_true, Option.map_some]
    exact envEq_upd _ dst
      (vUnion_denote fA fB A B (envWF_history ops x A hA).tup (envWF_history ops y B hB).tup)

theorem blkOps_take_succ (bs : List Blk) (n : Nat) (h : n < bs.length) :
    blkOps (bs.take (n + 1)) = blkOps (bs.take n) ++ bs[n].ops := by
  unfold blkOps
  rw [List.take_succ_eq_append_getElem h, List.flatMap_append]
  simp

/-- **one equation for a whole history with `Union` blocks** -/
theorem fa_history_fold_blocks (bs : List Blk)
    (hok : ∀ n (h : n < bs.length), BlkOk (absFA (execB (bs.take n))) bs[n]) :
    EnvEq (den (absFA (execB bs))) (bs.foldl denBlk den0) := by
  have key : ∀ n, n ≤ bs.length →
      EnvEq (den (absFA (execB (bs.take n)))) ((bs.take n).foldl denBlk den0) := by
    intro n
    induction n with
    | zero =>
      intro _
      rw [List.take_zero]
      show EnvEq (den (absFA initFA)) den0
      rw [absFA_init]
      exact EnvEq.refl _
    | succ n ih =>
      intro hn
      have hlt : n < bs.length := hn
      have h := hok n hlt
      unfold execB at h ⊢
      rw [blkOps_take_succ bs n hlt, List.take_succ_eq_append_getElem hlt, List.foldl_append]
      refine (fa_history_denote_blk (blkOps (bs.take n)) bs[n] h).trans ?_
      exact denBlk_congr (ih (Nat.le_of_lt hlt)) bs[n] h.denBlkOk
  have := key bs.length (Nat.le_refl _)
  rw [List.take_length] at this
  exact this

/-- a block history made of single operations is an operation history: the two folds are the same function -/
theorem foldl_denBlk_ops (ops : List Op) (e : Nat → Option NFAS) :
    (ops.map Blk.op).foldl denBlk e = ops.foldl denStep e := by
  induction ops generalizing e with
  | nil => rfl
  | cons o ops ih => exact ih (denStep e o)

theorem blkOps_map_op (ops : List Op) : blkOps (ops.map Blk.op) = ops := by
  unfold blkOps
  induction ops with
  | nil => rfl
  | cons o ops ih => simp [Blk.ops, List.flatMap_cons] at ih ⊢; exact ih

end Vata.CowHeapFA
