import Vata.Proofs.NfaInclSimAC
import Vata.Proofs.NfaInclTotal
/-!
# The exploration of `ANTICHAINS_SIM` (`NfaIncl.runACSim`) is right by itself

`Vata/Proofs/NfaInclSimAC.lean` trusts only the final Boolean checks of `nfaInclACSim`.  Here the work-list algorithm with the
simulation comparator is analysed, as `Vata/Proofs/NfaInclTotal.lean` does for the identity relation:

* `containsSim_iff`, `mem_refineSim` : when `singleAntichain_` holds the state of every stored pair (`SingleOK`, an invariant),
  the candidate lists are transparent: `contains` is "covered modulo `R`" (`CovR`), `refine` erases the pairs above the new one;
* `runACSim_error_ok`  : a `return false` at the word `w` is justified: `A` accepts `w`, `B` does not (for EVERY relation);
* `InvS`, `addPairSim_inv`, `makePostSim_inv`, `loopACSim_cert`, `initACSim_inv` : the loop invariant (`next_ ⊆ antichain_`,
  every stored pair is pending or has all its successors skipped by `checkSmallerInBigger` or covered modulo `R`, no stored
  pair is bad, the stored pairs live on the states of `A` resp. `B`, `singleAntichain_` is complete); needs `R` transitive and
  reflexive on the states of the operands (NOT that it is a simulation);
* `runACSim_ok_cert`   : a finished `true` run leaves an antichain that passes `nfaUpCertSimB` (state-disjoint operands);
* `nfaInclACSimRaw_eq`, `nfaInclACSimRaw_iff` : on every finished run the unchecked verdict is the checked one, hence exact
  when `R` is a simulation preorder on `A ⊎ B`.
-/
namespace Vata
open Vata.W
namespace NfaIncl

/-! ### the candidate lists are transparent -/

/-- `(q, S)` is covered modulo `R` by a pair of `P`: some `(c, T) ∈ P` with `q R c` and `T ≤ S` (`∀∃` modulo `R`) -/
def CovR (R : Rel) (P : List Item) (q : Nat) (S : List Nat) : Prop :=
  ∃ j, j ∈ P ∧ (q, j.q) ∈ R ∧ Lte R j.S S

/-- Boolean form of `CovR` (no candidate list) -/
def covRB (R : Rel) (P : List Item) (q : Nat) (S : List Nat) : Bool :=
  P.any (fun i => relGet R q i.q && lteSim R i.S S)

theorem covRB_iff {R : Rel} {P : List Item} {q : Nat} {S : List Nat} : covRB R P q S = true ↔ CovR R P q S := by
  simp only [covRB, List.any_eq_true, Bool.and_eq_true, relGet_iff, lteSim_iff, CovR]

theorem Lte.mono_right {R : Rel} {S T T' : List Nat} (h : Lte R S T) (hT : ∀ x, x ∈ T → x ∈ T') : Lte R S T' := by
  intro x hx
  obtain ⟨y, hy, hxy⟩ := h x hx
  exact ⟨y, hT y hy, hxy⟩

theorem CovR.mono_right {R : Rel} {P : List Item} {q : Nat} {S S' : List Nat} (h : CovR R P q S)
    (hS : ∀ x, x ∈ S → x ∈ S') : CovR R P q S' := by
  obtain ⟨j, hj, hq, hl⟩ := h
  exact ⟨j, hj, hq, hl.mono_right hS⟩

/-- `singleAntichain_` holds the state of every pair of `P` -/
def SingleOK (single : List Nat) (P : List Item) : Prop := ∀ i, i ∈ P → i.q ∈ single

theorem containsSim_cov {R : Rel} {P : List Item} {single : List Nat} {q : Nat} {S : List Nat}
    (h : containsSim R P (candSim R single q) S = true) : CovR R P q S := by
  simp only [containsSim, candSim, List.any_eq_true, List.mem_filter, Bool.and_eq_true, beq_iff_eq, relGet_iff,
    lteSim_iff] at h
  obtain ⟨c, ⟨_, hr⟩, i, hi, hq, hl⟩ := h
  exact ⟨i, hi, by rw [hq]; exact hr, hl⟩

theorem containsSim_iff {R : Rel} {P : List Item} {single : List Nat} {q : Nat} {S : List Nat}
    (hso : SingleOK single P) : containsSim R P (candSim R single q) S = true ↔ CovR R P q S := by
  refine ⟨containsSim_cov, ?_⟩
  rintro ⟨j, hj, hq, hl⟩
  simp only [containsSim, candSim, List.any_eq_true, List.mem_filter, Bool.and_eq_true, beq_iff_eq, relGet_iff,
    lteSim_iff]
  exact ⟨j.q, ⟨hso j hj, hq⟩, j, hj, rfl, hl⟩

theorem mem_refineSim {R : Rel} {P : List Item} {single : List Nat} {q : Nat} {S : List Nat} {i : Item} :
    i ∈ refineSim R P (candRevSim R single q) S ↔
      i ∈ P ∧ ¬ (i.q ∈ single ∧ (i.q, q) ∈ R ∧ Lte R S i.S) := by
  simp only [refineSim, candRevSim, List.mem_filter, Bool.not_eq_true', Bool.and_eq_false_iff]
  constructor
  · rintro ⟨h1, h2⟩
    refine ⟨h1, ?_⟩
    rintro ⟨hs, hr, hl⟩
    rcases h2 with h2 | h2
    · have : (List.filter (fun c => relGet R c q) single).contains i.q = true := by
        rw [List.contains_iff_mem, List.mem_filter]; exact ⟨hs, relGet_iff.mpr hr⟩
      rw [h2] at this; cases this
    · rw [lteSim_iff.mpr hl] at h2; cases h2
  · rintro ⟨h1, h2⟩
    refine ⟨h1, ?_⟩
    cases hc : (List.filter (fun c => relGet R c q) single).contains i.q with
    | false => exact Or.inl rfl
    | true =>
      right
      rw [List.contains_iff_mem, List.mem_filter, relGet_iff] at hc
      cases hl : lteSim R S i.S with
      | false => rfl
      | true => exact (h2 ⟨hc.1, hc.2, lteSim_iff.mp hl⟩).elim

/-! ### `addPairSim` -/

/-- `AddToSingleAC` -/
def addSingle (single : List Nat) (q : Nat) : List Nat := if single.contains q then single else single ++ [q]

theorem mem_addSingle {single : List Nat} {q x : Nat} : x ∈ addSingle single q ↔ x ∈ single ∨ x = q := by
  unfold addSingle
  split
  · next h =>
    constructor
    · exact Or.inl
    · rintro (h' | rfl)
      · exact h'
      · exact List.contains_iff_mem.mp h
  · simp

theorem addPairSim_pos {R : Rel} {st : StS} {it : Item}
    (h : containsSim R st.antichain (candSim R st.single it.q) it.S = true) : addPairSim R st it = st := by
  unfold addPairSim; rw [if_pos h]

theorem addPairSim_neg {R : Rel} {st : StS} {it : Item}
    (h : containsSim R st.antichain (candSim R st.single it.q) it.S = false) :
    addPairSim R st it =
      ⟨refineSim R st.antichain (candRevSim R st.single it.q) it.S ++ [it],
       if containsSim R st.next (candSim R (addSingle st.single it.q) it.q) it.S then st.next
       else insNext it (refineSim R st.next (candRevSim R (addSingle st.single it.q) it.q) it.S),
       addSingle st.single it.q⟩ := by
  unfold addPairSim; rw [if_neg (by rw [h]; exact Bool.false_ne_true)]; rfl

theorem mem_addPairSim_antichain {R : Rel} {st : StS} {it i : Item} (h : i ∈ (addPairSim R st it).antichain) :
    i ∈ st.antichain ∨ i = it := by
  cases hs : containsSim R st.antichain (candSim R st.single it.q) it.S with
  | true => rw [addPairSim_pos hs] at h; exact Or.inl h
  | false =>
    rw [addPairSim_neg hs] at h
    rcases List.mem_append.mp h with h | h
    · exact Or.inl (mem_refineSim.mp h).1
    · exact Or.inr (List.mem_singleton.mp h)

theorem mem_addPairSim_next {R : Rel} {st : StS} {it i : Item} (h : i ∈ (addPairSim R st it).next) :
    i ∈ st.next ∨ i = it := by
  cases hs : containsSim R st.antichain (candSim R st.single it.q) it.S with
  | true => rw [addPairSim_pos hs] at h; exact Or.inl h
  | false =>
    rw [addPairSim_neg hs] at h
    simp only at h
    split at h
    · exact Or.inl h
    · rcases mem_insNext.mp h with h | h
      · exact Or.inr h
      · exact Or.inl (mem_refineSim.mp h).1

/-- `singleAntichain_` stays complete -/
theorem addPairSim_single_ok {R : Rel} {st : StS} {it : Item} (h : SingleOK st.single st.antichain) :
    SingleOK (addPairSim R st it).single (addPairSim R st it).antichain := by
  cases hs : containsSim R st.antichain (candSim R st.single it.q) it.S with
  | true => rw [addPairSim_pos hs]; exact h
  | false =>
    rw [addPairSim_neg hs]
    intro i hi
    rcases List.mem_append.mp hi with hi | hi
    · exact mem_addSingle.mpr (Or.inl (h i (mem_refineSim.mp hi).1))
    · rw [List.mem_singleton.mp hi]; exact mem_addSingle.mpr (Or.inr rfl)

/-- being covered modulo a transitive `R` is never lost: an erased pair is covered by the inserted one -/
theorem addPairSim_cov_mono {R : Rel} (ht : ∀ p q r, (p, q) ∈ R → (q, r) ∈ R → (p, r) ∈ R) {st : StS} {it : Item}
    {q : Nat} {S : List Nat} (h : CovR R st.antichain q S) : CovR R (addPairSim R st it).antichain q S := by
  cases hs : containsSim R st.antichain (candSim R st.single it.q) it.S with
  | true => rw [addPairSim_pos hs]; exact h
  | false =>
    rw [addPairSim_neg hs]
    obtain ⟨j, hj, hq, hl⟩ := h
    by_cases hr : j.q ∈ st.single ∧ (j.q, it.q) ∈ R ∧ Lte R it.S j.S
    · exact ⟨it, List.mem_append_right _ (List.mem_singleton.mpr rfl), ht _ _ _ hq hr.2.1, hr.2.2.trans ht hl⟩
    · exact ⟨j, List.mem_append_left _ (mem_refineSim.mpr ⟨hj, hr⟩), hq, hl⟩

/-- the added pair is covered afterwards (`R` reflexive on the pair) -/
theorem addPairSim_cov_self {R : Rel} (st : StS) (it : Item) (hq : (it.q, it.q) ∈ R)
    (hS : ∀ x, x ∈ it.S → (x, x) ∈ R) : CovR R (addPairSim R st it).antichain it.q it.S := by
  cases hs : containsSim R st.antichain (candSim R st.single it.q) it.S with
  | true => rw [addPairSim_pos hs]; exact containsSim_cov hs
  | false =>
    rw [addPairSim_neg hs]
    exact ⟨it, List.mem_append_right _ (List.mem_singleton.mpr rfl), hq, fun x hx => ⟨x, hx, hS x hx⟩⟩

/-! ### `makePostSim` and `initACSim`: generic inductions -/

theorem makePostSim_cons (A B : NFA) (R : Rel) (it : Item) (e : Nat × Nat × Nat) (es : List (Nat × Nat × Nat))
    (st : StS) :
    makePostSim A B R it (e :: es) st =
      if e.1 == it.q then
        (if badB A B (succItem B it e) then .error (succItem B it e).w
         else if smallerInBigger R e.2.2 (succItem B it e).S then makePostSim A B R it es st
         else makePostSim A B R it es (addPairSim R st (succItem B it e)))
      else makePostSim A B R it es st := rfl

/-- a property preserved by `addPairSim` with the pairs `MakePost` builds is preserved by `makePostSim` -/
theorem makePostSim_ind {A B : NFA} {R : Rel} {it : Item} (Q : StS → Prop)
    (hadd : ∀ st e, e ∈ A.trans → e.1 = it.q → ¬ badB A B (succItem B it e) = true → Q st →
      Q (addPairSim R st (succItem B it e))) :
    ∀ (es : List (Nat × Nat × Nat)) (st st' : StS), (∀ e, e ∈ es → e ∈ A.trans) → Q st →
      makePostSim A B R it es st = .ok st' → Q st'
  | [], st, st', _, hQ, h => by
    simp only [makePostSim, Except.ok.injEq] at h
    subst h; exact hQ
  | e :: es, st, st', hes, hQ, h => by
    have hes' : ∀ e', e' ∈ es → e' ∈ A.trans := fun e' h' => hes e' (List.mem_cons_of_mem _ h')
    rw [makePostSim_cons] at h
    split at h
    · next hq =>
      split at h
      · cases h
      · next hb =>
        split at h
        · exact makePostSim_ind Q hadd es st st' hes' hQ h
        · exact makePostSim_ind Q hadd es _ st' hes'
            (hadd st e (hes e List.mem_cons_self) (by simpa using hq) hb hQ) h
    · exact makePostSim_ind Q hadd es st st' hes' hQ h

/-- a `return false` of `makePostSim` comes from a bad successor -/
theorem makePostSim_error {A B : NFA} {R : Rel} {it : Item} : ∀ (es : List (Nat × Nat × Nat)) (st : StS) (w : List Nat),
    makePostSim A B R it es st = .error w →
      ∃ e, e ∈ es ∧ e.1 = it.q ∧ badB A B (succItem B it e) = true ∧ w = (succItem B it e).w
  | [], st, w, h => by simp [makePostSim] at h
  | e :: es, st, w, h => by
    rw [makePostSim_cons] at h
    split at h
    · next hq =>
      split at h
      · next hb =>
        simp only [Except.error.injEq] at h
        exact ⟨e, List.mem_cons_self, by simpa using hq, hb, h.symm⟩
      · split at h
        · obtain ⟨e', he', h'⟩ := makePostSim_error es _ w h
          exact ⟨e', List.mem_cons_of_mem _ he', h'⟩
        · obtain ⟨e', he', h'⟩ := makePostSim_error es _ w h
          exact ⟨e', List.mem_cons_of_mem _ he', h'⟩
    · obtain ⟨e', he', h'⟩ := makePostSim_error es _ w h
      exact ⟨e', List.mem_cons_of_mem _ he', h'⟩

theorem initACSim_cons (A B : NFA) (R : Rel) (S0 : List Nat) (s : Nat) (ss : List Nat) (st : StS) :
    initACSim A B R S0 (s :: ss) st =
      if badB A B ⟨s, S0, []⟩ then .error [] else initACSim A B R S0 ss (addPairSim R st ⟨s, S0, []⟩) := rfl

/-- a property preserved by `addPairSim` with the start pairs is preserved by `initACSim` -/
theorem initACSim_ind {A B : NFA} {R : Rel} (Q : StS → Prop)
    (hadd : ∀ st s, s ∈ A.start → ¬ badB A B ⟨s, normS B.start, []⟩ = true → Q st →
      Q (addPairSim R st ⟨s, normS B.start, []⟩)) :
    ∀ (ss : List Nat) (st st' : StS), (∀ s, s ∈ ss → s ∈ A.start) → Q st →
      initACSim A B R (normS B.start) ss st = .ok st' → Q st'
  | [], st, st', _, hQ, h => by
    simp only [initACSim, Except.ok.injEq] at h
    subst h; exact hQ
  | s :: ss, st, st', hss, hQ, h => by
    rw [initACSim_cons] at h
    split at h
    · cases h
    · next hb =>
      exact initACSim_ind Q hadd ss _ st' (fun s' h' => hss s' (List.mem_cons_of_mem _ h'))
        (hadd st s (hss s List.mem_cons_self) hb hQ) h

theorem initACSim_error {A B : NFA} {R : Rel} : ∀ (ss : List Nat) (st : StS) (w : List Nat),
    initACSim A B R (normS B.start) ss st = .error w →
      ∃ s, s ∈ ss ∧ badB A B ⟨s, normS B.start, []⟩ = true ∧ w = []
  | [], st, w, h => by simp [initACSim] at h
  | s :: ss, st, w, h => by
    rw [initACSim_cons] at h
    split at h
    · next hb =>
      simp only [Except.error.injEq] at h
      exact ⟨s, List.mem_cons_self, hb, h.symm⟩
    · obtain ⟨s', hs', h'⟩ := initACSim_error ss _ w h
      exact ⟨s', List.mem_cons_of_mem _ hs', h'⟩

/-! ### the words of the pairs; a `return false` is justified for every relation -/

def AllOKS (A B : NFA) (st : StS) : Prop :=
  (∀ i, i ∈ st.antichain → WordOK A B i) ∧ (∀ i, i ∈ st.next → WordOK A B i)

theorem addPairSim_ok {A B : NFA} {R : Rel} {st : StS} {it : Item} (h : AllOKS A B st) (hi : WordOK A B it) :
    AllOKS A B (addPairSim R st it) := by
  constructor
  · intro i hm
    rcases mem_addPairSim_antichain hm with hm | rfl
    · exact h.1 i hm
    · exact hi
  · intro i hm
    rcases mem_addPairSim_next hm with hm | rfl
    · exact h.2 i hm
    · exact hi

theorem makePostSim_ok {A B : NFA} {R : Rel} {it : Item} (hi : WordOK A B it) {st st' : StS} (h : AllOKS A B st)
    (hp : makePostSim A B R it A.trans st = .ok st') : AllOKS A B st' :=
  makePostSim_ind (AllOKS A B) (fun _ _ he hq _ hQ => addPairSim_ok hQ (succItem_ok hi he hq)) A.trans st st'
    (fun _ h => h) h hp

theorem makePostSim_error_ok {A B : NFA} {R : Rel} {it : Item} (hi : WordOK A B it) {st : StS} {w : List Nat}
    (hp : makePostSim A B R it A.trans st = .error w) : acceptsW A w = true ∧ acceptsW B w = false := by
  obtain ⟨e, he, hq, hb, rfl⟩ := makePostSim_error A.trans st w hp
  exact bad_counterexample (succItem_ok hi he hq) hb

theorem loopACSim_ok {A B : NFA} {R : Rel} : ∀ (n : Nat) (st : StS), AllOKS A B st →
    (∀ P, loopACSim A B R n st = some (.ok P) → ∀ i, i ∈ P → WordOK A B i) ∧
    (∀ w, loopACSim A B R n st = some (.error w) → acceptsW A w = true ∧ acceptsW B w = false)
  | 0, _, _ => by constructor <;> intro _ h <;> simp [loopACSim] at h
  | n+1, st, hst => by
    unfold loopACSim
    split
    · constructor
      · intro P h
        simp only [Option.some.injEq, Except.ok.injEq] at h
        subst h; exact hst.1
      · intro w h; simp at h
    · next it rest hn =>
      have hit : WordOK A B it := hst.2 it (by rw [hn]; exact List.mem_cons_self)
      have hst' : AllOKS A B ⟨st.antichain, rest, st.single⟩ :=
        ⟨hst.1, fun i hi => hst.2 i (by rw [hn]; exact List.mem_cons_of_mem _ hi)⟩
      split
      · next w hw =>
        constructor
        · intro P h; simp at h
        · intro w' h
          simp only [Option.some.injEq, Except.error.injEq] at h
          subst h; exact makePostSim_error_ok hit hw
      · next st' h' => exact loopACSim_ok n st' (makePostSim_ok hit hst' h')

theorem initACSim_ok {A B : NFA} {R : Rel} {st' : StS}
    (h : initACSim A B R (normS B.start) A.start ⟨[], [], []⟩ = .ok st') : AllOKS A B st' :=
  initACSim_ind (AllOKS A B) (fun _ _ hs _ hQ => addPairSim_ok hQ (initItem_ok hs)) A.start _ st' (fun _ h => h)
    ⟨fun _ h => by simp at h, fun _ h => by simp at h⟩ h

/-- a `return false` of the exploration is justified – whatever the relation is -/
theorem runACSim_error_ok {A B : NFA} {R : Rel} {fuel : Nat} {w : List Nat}
    (h : runACSim A B R fuel = some (.error w)) : acceptsW A w = true ∧ acceptsW B w = false := by
  unfold runACSim at h
  split at h
  · next w' hw =>
    simp only [Option.some.injEq, Except.error.injEq] at h
    subst h
    obtain ⟨s, hs, hb, rfl⟩ := initACSim_error A.start _ _ hw
    exact bad_counterexample (i := ⟨s, normS B.start, []⟩) (initItem_ok hs) hb
  · next st hst => exact (loopACSim_ok fuel st (initACSim_ok hst)).2 w h

/-- the pairs of a finished `true` run carry words that reach them -/
theorem runACSim_ok_words {A B : NFA} {R : Rel} {fuel : Nat} {P : List Item}
    (h : runACSim A B R fuel = some (.ok P)) : ∀ i, i ∈ P → WordOK A B i := by
  unfold runACSim at h
  split at h
  · simp at h
  · next st hst => exact (loopACSim_ok fuel st (initACSim_ok hst)).1 P h

/-! ### the loop invariant -/

/-- what the proofs need of `R`: transitive, and reflexive on the states the pairs of the exploration live on -/
structure PreOn (A B : NFA) (R : Rel) : Prop where
  reflA : ∀ q, q ∈ domS A → (q, q) ∈ R
  reflB : ∀ q, q ∈ domS B → (q, q) ∈ R
  trans : ∀ p q r, (p, q) ∈ R → (q, r) ∈ R → (p, r) ∈ R

/-- every successor of the pair is skipped by `checkSmallerInBigger` or covered modulo `R` by `P` -/
def DoneS (A B : NFA) (R : Rel) (P : List Item) (i : Item) : Prop :=
  ∀ a q', (i.q, a, q') ∈ A.trans →
    (∃ s, s ∈ stepW B i.S a ∧ (q', s) ∈ R) ∨ CovR R P q' (stepW B i.S a)

/-- the invariant of the exploration; `H` describes the pair being processed -/
structure InvS (A B : NFA) (R : Rel) (H : Item → Prop) (st : StS) : Prop where
  single_ok : SingleOK st.single st.antichain
  next_sub : ∀ i, i ∈ st.next → i ∈ st.antichain
  done : ∀ i, i ∈ st.antichain → i ∈ st.next ∨ DoneS A B R st.antichain i ∨ H i
  good : ∀ i, i ∈ st.antichain → i.q ∈ A.final → W.accepting B i.S = true
  dom : ∀ i, i ∈ st.antichain → Dom A B i

theorem addPairSim_inv {A B : NFA} {R : Rel} (hpre : PreOn A B R) {H : Item → Prop} {st : StS} {it : Item}
    (h : InvS A B R H st) (hg : it.q ∈ A.final → W.accepting B it.S = true) (hd : Dom A B it) :
    InvS A B R H (addPairSim R st it) := by
  cases hs : containsSim R st.antichain (candSim R st.single it.q) it.S with
  | true => rw [addPairSim_pos hs]; exact h
  | false =>
    have hmono : ∀ {q S}, CovR R st.antichain q S → CovR R (addPairSim R st it).antichain q S :=
      addPairSim_cov_mono hpre.trans
    have hso := addPairSim_single_ok (R := R) (it := it) h.single_ok
    -- the work-list is inside the antichain, so the pair is not covered there either
    have hsn : ¬ containsSim R st.next (candSim R (addSingle st.single it.q) it.q) it.S = true := by
      intro hn
      obtain ⟨j, hj, hq, hl⟩ := containsSim_cov hn
      have := (containsSim_iff h.single_ok).mpr ⟨j, h.next_sub j hj, hq, hl⟩
      rw [hs] at this; cases this
    have hnext : (addPairSim R st it).next =
        insNext it (refineSim R st.next (candRevSim R (addSingle st.single it.q) it.q) it.S) := by
      rw [addPairSim_neg hs]; simp only; rw [if_neg hsn]
    have hanti : (addPairSim R st it).antichain =
        refineSim R st.antichain (candRevSim R st.single it.q) it.S ++ [it] := by
      rw [addPairSim_neg hs]
    refine ⟨hso, ?_, ?_, ?_, ?_⟩
    · intro i hi
      rw [hnext] at hi
      rw [hanti]
      rcases mem_insNext.mp hi with rfl | hi
      · exact List.mem_append_right _ (List.mem_singleton.mpr rfl)
      · obtain ⟨h1, h2⟩ := mem_refineSim.mp hi
        exact List.mem_append_left _ (mem_refineSim.mpr
          ⟨h.next_sub i h1, fun hc => h2 ⟨mem_addSingle.mpr (Or.inl hc.1), hc.2⟩⟩)
    · intro i hi
      have hi' := hi
      rw [hanti] at hi'
      rcases List.mem_append.mp hi' with hi' | hi'
      · obtain ⟨h1, h2⟩ := mem_refineSim.mp hi'
        rcases h.done i h1 with hd' | hd' | hd'
        · left; rw [hnext]
          exact mem_insNext.mpr (Or.inr (mem_refineSim.mpr ⟨hd', fun hc => h2 ⟨h.single_ok i h1, hc.2⟩⟩))
        · right; left; intro a q' he
          rcases hd' a q' he with hsk | hc
          · exact Or.inl hsk
          · exact Or.inr (hmono hc)
        · exact Or.inr (Or.inr hd')
      · left; rw [hnext, List.mem_singleton.mp hi']; exact mem_insNext.mpr (Or.inl rfl)
    · intro i hi
      rcases mem_addPairSim_antichain hi with hi | rfl
      · exact h.good i hi
      · exact hg
    · intro i hi
      rcases mem_addPairSim_antichain hi with hi | rfl
      · exact h.dom i hi
      · exact hd

theorem cov_self_of_dom {A B : NFA} {R : Rel} (hpre : PreOn A B R) (st : StS) {it : Item} (hd : Dom A B it) :
    CovR R (addPairSim R st it).antichain it.q it.S :=
  addPairSim_cov_self st it (hpre.reflA _ hd.1) (fun x hx => hpre.reflB x (hd.2 x hx))

/-- the state `MakePost` leaves: the invariant, nothing lost, and all successors of the picked pair skipped or covered -/
theorem makePostSim_inv {A B : NFA} {R : Rel} (hpre : PreOn A B R) {it : Item} {H : Item → Prop} :
    ∀ (es : List (Nat × Nat × Nat)) (st st' : StS),
    (∀ e, e ∈ es → e ∈ A.trans) → InvS A B R H st → makePostSim A B R it es st = .ok st' →
      InvS A B R H st' ∧ (∀ q S, CovR R st.antichain q S → CovR R st'.antichain q S) ∧
      (∀ e, e ∈ es → e.1 = it.q →
        (∃ s, s ∈ stepW B it.S e.2.1 ∧ (e.2.2, s) ∈ R) ∨ CovR R st'.antichain e.2.2 (stepW B it.S e.2.1))
  | [], st, st', _, hI, h => by
    simp only [makePostSim, Except.ok.injEq] at h
    subst h
    exact ⟨hI, fun _ _ h => h, fun _ he => by simp at he⟩
  | e :: es, st, st', hes, hI, h => by
    have hes' : ∀ e', e' ∈ es → e' ∈ A.trans := fun e' h' => hes e' (List.mem_cons_of_mem _ h')
    rw [makePostSim_cons] at h
    split at h
    · next hq =>
      split at h
      · cases h
      · next hb =>
        split at h
        · next hsk =>
          -- skipped by `checkSmallerInBigger`
          obtain ⟨h1, h2, h3⟩ := makePostSim_inv hpre es st st' hes' hI h
          refine ⟨h1, h2, ?_⟩
          intro e' he' hq'
          rcases List.mem_cons.mp he' with rfl | he'
          · left
            simp only [smallerInBigger, List.any_eq_true, relGet_iff] at hsk
            obtain ⟨s, hs, hr⟩ := hsk
            exact ⟨s, mem_normS.mp hs, hr⟩
          · exact h3 e' he' hq'
        · have hd : Dom A B (succItem B it e) := dom_succItem (hes e List.mem_cons_self)
          obtain ⟨h1, h2, h3⟩ := makePostSim_inv hpre es _ st' hes' (addPairSim_inv hpre hI (not_badB hb) hd) h
          refine ⟨h1, fun q S hs => h2 q S (addPairSim_cov_mono hpre.trans hs), ?_⟩
          intro e' he' hq'
          rcases List.mem_cons.mp he' with rfl | he'
          · right
            have := h2 _ _ (cov_self_of_dom hpre st hd)
            exact this.mono_right (fun x hx => mem_normS.mp hx)
          · exact h3 e' he' hq'
    · next hq =>
      obtain ⟨h1, h2, h3⟩ := makePostSim_inv hpre es st st' hes' hI h
      refine ⟨h1, h2, ?_⟩
      intro e' he' hq'
      rcases List.mem_cons.mp he' with rfl | he'
      · exact (hq (by simpa using hq')).elim
      · exact h3 e' he' hq'

/-- what a finished `true` run leaves -/
structure CertPS (A B : NFA) (R : Rel) (P : List Item) : Prop where
  start : ∀ s, s ∈ A.start → CovR R P s B.start
  closed : ∀ i, i ∈ P → DoneS A B R P i
  good : ∀ i, i ∈ P → i.q ∈ A.final → W.accepting B i.S = true
  dom : ∀ i, i ∈ P → Dom A B i

theorem loopACSim_cert {A B : NFA} {R : Rel} (hpre : PreOn A B R) :
    ∀ (n : Nat) (st : StS) (P : List Item), InvS A B R (fun _ => False) st →
    (∀ s, s ∈ A.start → CovR R st.antichain s B.start) → loopACSim A B R n st = some (.ok P) → CertPS A B R P
  | 0, _, _, _, _, h => by simp [loopACSim] at h
  | n+1, st, P, hI, hS, h => by
    unfold loopACSim at h
    split at h
    · next hn =>
      simp only [Option.some.injEq, Except.ok.injEq] at h
      subst h
      refine ⟨hS, ?_, hI.good, hI.dom⟩
      intro i hi
      rcases hI.done i hi with hd | hd | hd
      · rw [hn] at hd; simp at hd
      · exact hd
      · exact hd.elim
    · next it rest hn =>
      split at h
      · simp at h
      · next st' h' =>
        have hI' : InvS A B R (fun i => i = it) ⟨st.antichain, rest, st.single⟩ := by
          refine ⟨hI.single_ok, ?_, ?_, hI.good, hI.dom⟩
          · intro i hi; exact hI.next_sub i (by rw [hn]; exact List.mem_cons_of_mem _ hi)
          · intro i hi
            rcases hI.done i hi with hd | hd | hd
            · rw [hn] at hd
              rcases List.mem_cons.mp hd with hd | hd
              · exact Or.inr (Or.inr hd)
              · exact Or.inl hd
            · exact Or.inr (Or.inl hd)
            · exact hd.elim
        obtain ⟨h1, h2, h3⟩ := makePostSim_inv hpre A.trans _ st' (fun _ h => h) hI' h'
        apply loopACSim_cert hpre n st' P ?_ (fun s hs => h2 _ _ (hS s hs)) h
        refine ⟨h1.single_ok, h1.next_sub, ?_, h1.good, h1.dom⟩
        intro i hi
        rcases h1.done i hi with hd | hd | hd
        · exact Or.inl hd
        · exact Or.inr (Or.inl hd)
        · right; left
          subst hd
          intro a q' he
          exact h3 (i.q, a, q') he rfl

theorem initACSim_inv {A B : NFA} {R : Rel} (hpre : PreOn A B R) :
    ∀ (ss : List Nat) (st st' : StS), (∀ s, s ∈ ss → s ∈ A.start) → InvS A B R (fun _ => False) st →
    initACSim A B R (normS B.start) ss st = .ok st' →
      InvS A B R (fun _ => False) st' ∧ (∀ q S, CovR R st.antichain q S → CovR R st'.antichain q S) ∧
      (∀ s, s ∈ ss → CovR R st'.antichain s B.start)
  | [], st, st', _, hI, h => by
    simp only [initACSim, Except.ok.injEq] at h
    subst h
    exact ⟨hI, fun _ _ h => h, fun _ hs => by simp at hs⟩
  | s :: ss, st, st', hss, hI, h => by
    rw [initACSim_cons] at h
    split at h
    · cases h
    · next hb =>
      have hd : Dom A B ⟨s, normS B.start, []⟩ := dom_initItem (hss s List.mem_cons_self)
      obtain ⟨h1, h2, h3⟩ := initACSim_inv hpre ss _ st' (fun s' h' => hss s' (List.mem_cons_of_mem _ h'))
        (addPairSim_inv hpre hI (not_badB hb) hd) h
      refine ⟨h1, fun q S hs => h2 q S (addPairSim_cov_mono hpre.trans hs), ?_⟩
      intro s' hs'
      rcases List.mem_cons.mp hs' with rfl | hs'
      · have := h2 _ _ (cov_self_of_dom hpre st hd)
        exact this.mono_right (fun x hx => mem_normS.mp hx)
      · exact h3 s' hs'

theorem invS_empty (A B : NFA) (R : Rel) : InvS A B R (fun _ => False) ⟨[], [], []⟩ :=
  ⟨fun _ h => by simp at h, fun _ h => by simp at h, fun _ h => by simp at h, fun _ h => by simp at h,
    fun _ h => by simp at h⟩

theorem runACSim_ok_certP {A B : NFA} {R : Rel} (hpre : PreOn A B R) {fuel : Nat} {P : List Item}
    (h : runACSim A B R fuel = some (.ok P)) : CertPS A B R P := by
  unfold runACSim at h
  split at h
  · simp at h
  · next st hst =>
    obtain ⟨h1, _, h3⟩ := initACSim_inv hpre A.start _ st (fun _ h => h) (invS_empty A B R) hst
    exact loopACSim_cert hpre fuel st P h1 h3 h

/-! ### the final antichain passes the certificate check -/

theorem domS_sub_nfaStates {N : NFA} {q : Nat} (h : q ∈ domS N) : q ∈ nfaStates N := by
  rcases List.mem_append.mp h with h | h
  · exact start_mem_nfaStates h
  · obtain ⟨⟨p, a, r⟩, he, rfl⟩ := List.mem_map.mp h
    exact tgt_mem_nfaStates he

theorem stepW_union_right_mem {A B : NFA} {S : List Nat} {a x : Nat} (h : x ∈ stepW B S a) :
    x ∈ stepW (nfaUnionDisjoint A B) S a := by
  obtain ⟨p, hp, he⟩ := mem_stepW.mp h
  exact mem_stepW.mpr ⟨p, hp, List.mem_append_right _ he⟩

theorem certPS_upCertSimB {A B : NFA} {R : Rel} (hdis : ∀ q, q ∈ nfaStates A → q ∈ nfaStates B → False)
    {P : List Item} (h : CertPS A B R P) : nfaUpCertSimB A B R (pairs P) = true := by
  simp only [nfaUpCertSimB, pairs, Bool.and_eq_true, List.all_eq_true, List.any_eq_true, Bool.or_eq_true, bne_iff_ne,
    ne_eq, Bool.not_eq_true', relGet_iff, lteSim_iff, smallerInBigger, List.mem_map]
  refine ⟨⟨?_, ?_⟩, ?_⟩
  · intro s hs
    obtain ⟨j, hj, hq, hl⟩ := h.start s hs
    exact ⟨_, ⟨j, hj, rfl⟩, hq, hl⟩
  · rintro _ ⟨i, hi, rfl⟩ e he
    by_cases hq : e.1 = i.q
    · have heA : (i.q, e.2.1, e.2.2) ∈ A.trans := by
        rcases List.mem_append.mp he with he | he
        · rw [← hq]; exact he
        · exact (hdis i.q (domS_sub_nfaStates (h.dom i hi).1) (by rw [← hq]; exact src_mem_nfaStates he)).elim
      rcases h.closed i hi e.2.1 e.2.2 heA with ⟨s, hs, hr⟩ | ⟨j, hj, hr, hl⟩
      · exact Or.inl (Or.inr ⟨s, stepW_union_right_mem hs, hr⟩)
      · exact Or.inr ⟨_, ⟨j, hj, rfl⟩, hr, hl.mono_right (fun x hx => stepW_union_right_mem hx)⟩
    · exact Or.inl (Or.inl hq)
  · rintro _ ⟨i, hi, rfl⟩
    by_cases hf : i.q ∈ (nfaUnionDisjoint A B).final
    · right
      rcases List.mem_append.mp hf with hfA | hfB
      · obtain ⟨x, hx, hxf⟩ := accepting_iff.mp (h.good i hi hfA)
        exact accepting_iff.mpr ⟨x, hx, List.mem_append_right _ hxf⟩
      · exact (hdis i.q (domS_sub_nfaStates (h.dom i hi).1) (final_mem_nfaStates hfB)).elim
    · left
      cases hc : (nfaUnionDisjoint A B).final.contains i.q with
      | false => rfl
      | true => exact (hf (List.contains_iff_mem.mp hc)).elim

theorem preOn_of_pre {A B : NFA} {R : Rel}
    (hrefl : ∀ q, q ∈ nfaStates (nfaUnionDisjoint A B) → (q, q) ∈ R)
    (ht : ∀ p q r, (p, q) ∈ R → (q, r) ∈ R → (p, r) ∈ R) : PreOn A B R := by
  have hU : ∀ q, q ∈ nfaStates A ∨ q ∈ nfaStates B → q ∈ nfaStates (nfaUnionDisjoint A B) := by
    intro q hq
    rw [mem_nfaStates]
    rcases hq with hq | hq
    · rcases mem_nfaStates.mp hq with h | h | ⟨e, he, h⟩
      · exact Or.inl (List.mem_append_left _ h)
      · exact Or.inr (Or.inl (List.mem_append_left _ h))
      · exact Or.inr (Or.inr ⟨e, List.mem_append_left _ he, h⟩)
    · rcases mem_nfaStates.mp hq with h | h | ⟨e, he, h⟩
      · exact Or.inl (List.mem_append_right _ h)
      · exact Or.inr (Or.inl (List.mem_append_right _ h))
      · exact Or.inr (Or.inr ⟨e, List.mem_append_right _ he, h⟩)
  exact ⟨fun q hq => hrefl q (hU q (Or.inl (domS_sub_nfaStates hq))),
    fun q hq => hrefl q (hU q (Or.inr (domS_sub_nfaStates hq))), ht⟩

/-- the antichain of a finished `true` run passes the certificate check: state-disjoint operands, `R` reflexive on the
states of `A ⊎ B` and transitive (that `R` is a simulation is NOT used) -/
theorem runACSim_ok_cert {A B : NFA} {R : Rel} (hdis : ∀ q, q ∈ nfaStates A → q ∈ nfaStates B → False)
    (hrefl : ∀ q, q ∈ nfaStates (nfaUnionDisjoint A B) → (q, q) ∈ R)
    (ht : ∀ p q r, (p, q) ∈ R → (q, r) ∈ R → (p, r) ∈ R) {fuel : Nat} {P : List Item}
    (h : runACSim A B R fuel = some (.ok P)) : nfaUpCertSimB A B R (P.map (fun i => (i.q, i.S))) = true :=
  certPS_upCertSimB hdis (runACSim_ok_certP (preOn_of_pre hrefl ht) h)

end NfaIncl

open NfaIncl

/-- on every finished run the unchecked verdict (what the C++ returns) is the verdict of the certify-then-trust model -/
theorem nfaInclACSimRaw_eq {A B : NFA} {R : Rel} (hdis : ∀ q, q ∈ nfaStates A → q ∈ nfaStates B → False)
    (hrefl : ∀ q, q ∈ nfaStates (nfaUnionDisjoint A B) → (q, q) ∈ R)
    (ht : ∀ p q r, (p, q) ∈ R → (q, r) ∈ R → (p, r) ∈ R) (fuel : Nat) :
    nfaInclACSim A B R fuel = nfaInclACSimRaw A B R fuel := by
  unfold nfaInclACSim nfaInclACSimRaw
  cases h : runACSim A B R fuel with
  | none => rfl
  | some r =>
    cases r with
    | ok P => simp only; rw [if_pos (runACSim_ok_cert hdis hrefl ht h)]
    | error w =>
      simp only
      obtain ⟨h1, h2⟩ := runACSim_error_ok h
      rw [h1, h2]; rfl

/-- every verdict of the exploration alone is exact when `R` is a simulation preorder on the disjoint union -/
theorem nfaInclACSimRaw_iff {A B : NFA} {R : Rel} (hdis : ∀ q, q ∈ nfaStates A → q ∈ nfaStates B → False)
    (hR : NfaSimPre (nfaUnionDisjoint A B) R) {fuel : Nat} {b : Bool} (h : nfaInclACSimRaw A B R fuel = some b) :
    b = true ↔ InclW A B := by
  rw [← nfaInclACSimRaw_eq hdis hR.2.1 hR.2.2] at h
  exact nfaInclACSim_iff hdis hR.1 hR.2.2 h

end Vata
