import Vata.Proofs.BddTrimCodedBU
/-!
# The bottom-up `RemoveUselessStates` as coded, 1: the first loop computes `reachable`, the final loop restricts (C08)

* the first loop of `buUselessSt` (with the graph) and the loop of `buUnreachSt` walk in lock-step on `reachable`, `workset`,
  `tuples` (`buGLoop_sim`), hence `reachable` = `prodStates (skelBU T F)` at the end (`bu_useless_coded_reach`);
* the final loop `for (tupleBddPair : GetTransTable())` keeps exactly the rules all of whose states are in `useful`
  (`hasRule_restrictFold`).
-/
namespace Vata
namespace BddTrimCoded
open M BddAbs BddAbsTD

/-! ### lock-step with the loop of `RemoveUnreachableStates` -/

def SimG (g : BuGSt) (b : BuSt) : Prop := g.reach = b.reach ∧ g.ws = b.ws ∧ g.tuples = b.tuples

theorem collectG_rw (tup : List Nat) : ∀ (L : List Nat) (fs : FSt),
    ((L.foldl (collectStepG tup) fs).reach, (L.foldl (collectStepG tup) fs).ws) = L.foldl collectStep (fs.reach, fs.ws)
  | [], _ => rfl
  | q :: L, fs => by
    simp only [List.foldl_cons]
    rw [collectG_rw tup L (collectStepG tup fs q)]
    rfl

theorem collectG_reach (tup : List Nat) (fs : FSt) (m : MT) :
    (collectG tup fs m).reach = (collect (fs.reach, fs.ws) m).1 ∧ (collectG tup fs m).ws = (collect (fs.reach, fs.ws) m).2 := by
  have := collectG_rw tup (leafParents m) fs
  unfold collectG collect
  rw [← this]
  exact ⟨rfl, rfl⟩

theorem scanStepG_sim (s : Nat) {g : BuGSt} {b : BuSt} (h : SimG g b) (e : List Nat × MT) :
    SimG (scanStepG s g e) (scanStep s b e) := by
  obtain ⟨r, ws, tu, G, d⟩ := g
  obtain ⟨r', ws', tu', R⟩ := b
  obtain ⟨h1, h2, h3⟩ := h
  simp only at h1 h2 h3
  subst h1 h2 h3
  unfold scanStepG scanStep
  simp only
  split
  · obtain ⟨c1, c2⟩ := collectG_reach e.1 ⟨r, ws, G, d⟩ e.2
    exact ⟨c1, c2, rfl⟩
  · exact ⟨rfl, rfl, rfl⟩

theorem scanG_fold_sim (s : Nat) : ∀ (l : List (List Nat × MT)) {g : BuGSt} {b : BuSt}, SimG g b →
    SimG (l.foldl (scanStepG s) g) (l.foldl (scanStep s) b)
  | [], _, _, h => h
  | e :: l, _, _, h => scanG_fold_sim s l (scanStepG_sim s h e)

theorem buGLoop_sim : ∀ (fuel : Nat) (g g' : BuGSt) (b : BuSt), SimG g b → buGLoop fuel g = some g' →
    ∃ b', buUnreachLoop fuel b = some b' ∧ SimG g' b'
  | fuel, ⟨r, [], tu, G, d⟩, g', ⟨r', ws', tu', R⟩, h, e => by
    obtain ⟨h1, h2, h3⟩ := h
    simp only at h1 h2 h3
    subst h1 h2 h3
    have e1 : buGLoop fuel ⟨r, [], tu, G, d⟩ = some ⟨r, [], tu, G, d⟩ := by cases fuel <;> simp [buGLoop]
    have e2 : buUnreachLoop fuel ⟨r, [], tu, R⟩ = some ⟨r, [], tu, R⟩ := by cases fuel <;> simp [buUnreachLoop]
    rw [e1] at e
    cases e
    exact ⟨_, e2, rfl, rfl, rfl⟩
  | 0, ⟨r, s :: ws, tu, G, d⟩, g', _, _, e => by simp [buGLoop] at e
  | fuel + 1, ⟨r, s :: ws, tu, G, d⟩, g', ⟨r', ws', tu', R⟩, h, e => by
    obtain ⟨h1, h2, h3⟩ := h
    simp only at h1 h2 h3
    subst h1 h2 h3
    simp only [buGLoop] at e
    simp only [buUnreachLoop]
    exact buGLoop_sim fuel _ g' _ (scanG_fold_sim s tu (g := ⟨r, ws, [], G, d⟩) (b := ⟨r, ws, [], R⟩) ⟨rfl, rfl, rfl⟩) e

theorem buGInit_sim (T : Table) : SimG (buGInit T) (buUnreachInit T) := by
  obtain ⟨c1, c2⟩ := collectG_reach [] ⟨[], [], Graph.empty, []⟩ T.nullary
  exact ⟨c1, c2, rfl⟩

/-- **the first loop of `RemoveUselessStates` as coded**: at its end `reachable` is the set of productive states -/
theorem buGLoop_reach {T : Table} (hT : TableOk T) (F : List Nat) {fuel : Nat} {g : BuGSt}
    (h : buGLoop fuel (buGInit T) = some g) :
    (∀ q, q ∈ g.reach ↔ q ∈ prodStates (skelBU T F)) ∧ g.ws = [] ∧ (∀ e, e ∈ g.tuples → ∃ q, q ∈ e.1 ∧ q ∉ g.reach) := by
  obtain ⟨b', hb, h1, h2, h3⟩ := buGLoop_sim fuel _ g _ (buGInit_sim T) h
  have := bu_unreach_coded_reach hT F (st := b') hb
  rw [h1, h2, h3]
  exact this

/-! ### the final loop -/

theorem restrictStep_nonempty (U : List Nat) (R : Table) {e : List Nat × MT} (he : e.1 ≠ []) :
    restrictStep U R e = if e.1.all (fun q => U.contains q) then ⟨R.nullary, setE R.entries e.1 (apply1 (usefulLeaf U) e.2)⟩
      else R := by
  unfold restrictStep Table.set
  simp [he]

theorem restrict_fold (U : List Nat) (ks : List Nat) (m : MT) : ∀ (es : List (List Nat × MT)) (R : Table),
    (∀ e, e ∈ es → e.1 ≠ []) → (∀ e, e ∈ es → e.1 = ks → e.2 = m) →
    (es.foldl (restrictStep U) R).nullary = R.nullary ∧
    getE (es.foldl (restrictStep U) R).entries ks =
      if ks.all (fun q => U.contains q) = true ∧ ks ∈ es.map (·.1) then apply1 (usefulLeaf U) m else getE R.entries ks
  | [], R, _, _ => by simp
  | e :: es, R, h1, h2 => by
    have ih := restrict_fold U ks m es (restrictStep U R e) (fun e' he' => h1 e' (List.mem_cons_of_mem _ he'))
      (fun e' he' => h2 e' (List.mem_cons_of_mem _ he'))
    simp only [List.foldl_cons]
    rw [ih.1, ih.2, restrictStep_nonempty U R (h1 e List.mem_cons_self)]
    by_cases hk : e.1 = ks
    · have hm := h2 e List.mem_cons_self hk
      subst hk
      by_cases hp : e.1.all (fun q => U.contains q) = true
      · simp only [hp, if_true, true_and, List.map_cons, List.mem_cons, true_or, getE_setE, hm]
        split <;> simp
      · simp only [hp]
        simp
    · have hmem : ks ∈ (e :: es).map (·.1) ↔ ks ∈ es.map (·.1) := by
        simp only [List.map_cons, List.mem_cons]
        exact ⟨fun h => h.elim (fun e' => absurd e'.symm hk) id, Or.inr⟩
      simp only [hmem]
      split
      · simp only [getE_setE, if_neg hk, and_true]
      · simp

/-- the final loop of `RemoveUselessStates` keeps exactly the rules all of whose states are in `useful` -/
theorem hasRule_restrictFold {T : Table} (hT : TableOk T) (U : List Nat) (ρ : Nat → Bool) (ks : List Nat) (p : Nat) :
    HasRule ((pairs T).foldl (restrictStep U) Table.empty) ρ ks p ↔
      HasRule T ρ ks p ∧ p ∈ U ∧ ∀ k, k ∈ ks → k ∈ U := by
  have h0 : restrictStep U Table.empty ([], T.nullary) = ⟨apply1 (usefulLeaf U) T.nullary, []⟩ := by
    simp [restrictStep, Table.set, Table.empty]
  obtain ⟨f1, f2⟩ := restrict_fold U ks (getE T.entries ks) T.entries ⟨apply1 (usefulLeaf U) T.nullary, []⟩
    (fun e he => (hT e he).1) (fun e he hk => by rw [← (hT e he).2, hk])
  unfold HasRule Table.get
  simp only [pairs, List.foldl_cons, h0]
  by_cases hks : ks = []
  · subst hks
    simp only [if_true, f1, apply1_eval, mem_usefulLeaf, List.not_mem_nil, false_implies, implies_true, and_true]
  · simp only [if_neg hks, f2]
    split
    · next h =>
      simp only [List.all_eq_true, List.contains_iff_mem] at h
      rw [apply1_eval, mem_usefulLeaf]
      exact ⟨fun h' => ⟨h'.1, h'.2, h.1⟩, fun h' => ⟨h'.1, h'.2.1⟩⟩
    · next h =>
      simp only [List.all_eq_true, List.contains_iff_mem] at h
      simp only [getE, eval, List.not_mem_nil, false_iff]
      intro h'
      apply h
      refine ⟨h'.2.2, ?_⟩
      apply Classical.byContradiction
      intro hn
      rw [getE_not_key hn] at h'
      simp [eval] at h'

/-- **`RemoveUselessStates` (bottom-up) as coded, conditional on the traversal**: if the traversal computes the set
`useful` of the abstract model and the dictionary `nodes` has a node exactly for the reachable states, the answer is
the answer of `removeUselessBU`.  (The two conditions are discharged in `Vata/Proofs/BddTrimCodedBU4.lean`: `bu_useless_coded_useful`, `bu_useless_coded_spec`.) -/
theorem bu_useless_coded_spec_partial {T : Table} (hT : TableOk T) (F : List Nat) {fuel : Nat} {g : BuGSt} {tr : TrSt}
    (h : buUselessSt T F fuel = some (g, tr))
    (hU : ∀ q, q ∈ tr.useful ↔ q ∈ tdReach (restrict (skelBU T F) (prodStates (skelBU T F))))
    (hN : ∀ q, (findBwd g.nodes q).isSome = true ↔ q ∈ g.reach) :
    ∃ R, buUselessCoded T F fuel = some R ∧
      (∀ ρ ks p, HasRule R.1 ρ ks p ↔ HasRule (removeUselessBU T F).1 ρ ks p) ∧ R.2 = (removeUselessBU T F).2 := by
  have hg : buGLoop fuel (buGInit T) = some g := by
    unfold buUselessSt at h
    split at h
    · cases h
    · next st hst =>
      simp only at h
      split at h
      · cases h
      · simp only [Option.some.injEq, Prod.mk.injEq] at h
        rw [hst, h.1]
  obtain ⟨hr, _, _⟩ := buGLoop_reach hT F hg
  refine ⟨_, by unfold buUselessCoded; rw [h]; rfl, fun ρ ks p => ?_, ?_⟩
  · rw [hasRule_removeUselessBU, hasRule_restrictFold hT]
    simp only [hU]
  · show F.filter _ = F.filter _
    apply List.filter_congr
    intro q _
    rw [Bool.eq_iff_iff, hN, hr]
    simp only [List.contains_iff_mem]

end BddTrimCoded
end Vata
