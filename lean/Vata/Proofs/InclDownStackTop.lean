import Vata.Proofs.InclDownStackMain
/-!
# The stack machine against the recursive model: `expand`, `checkInternal`, the certified wrapper

`expandStack_of_expandN` : whatever the recursive model `expandN` returns (any fuel), the machine returns from the
initial state of `expand` within some number of transitions, with the same `nonincluded` (and ghost `trues`);
`runS_of_runN`, `inclDownNonrecStack_of_rec` : the same for `checkInternal` and the certify-then-trust wrapper;
`inclDownNonrecStack_eq` : every answer of the stack machine is the answer of the recursive model (for the fuel
`fuelBoundD A B + 1`), whence exactness.
-/
namespace Vata
namespace InclDownStack
open InclDown
open InclUp (normS Wit)

section
variable {o : Ord} {A B : TA} {wit : Wit}

theorem expandStack_of_expandN {fuel : Nat} {cc : List Pair} {st : St} {p : Nat} {P : List Nat} {v : Verdict}
    {cc' : List Pair} {st' : St} (h : expandN o A B wit fuel [] cc st p P = some (v, cc', st')) :
    ∃ n, ∀ k, n ≤ k → expandStack o A B wit popAll k st p P = some (v, st') := by
  obtain ⟨_, hr⟩ := expandN_reach (o := o) (A := A) (B := B) (wit := wit) fuel [] cc st p P v cc' st' h
  obtain ⟨n, hn⟩ := hr Frame.init [] 0 (.fails (.node 0 []))
  have h2 : runM o A B wit popAll 2 ⟨.ret, Frame.init, [], [], st', p, P, 0, v⟩ = some (v, st') := by
    simp [runM, stepM]
  exact ⟨n + 2, fun k hk => runM_mono (runM_of_steps n hn h2) hk⟩

theorem expandStack_mono {pop : Frame → Frame → Frame} {n k : Nat} {st : St} {p : Nat} {P : List Nat}
    {r : Verdict × St} (h : expandStack o A B wit pop n st p P = some r) (hk : n ≤ k) :
    expandStack o A B wit pop k st p P = some r := runM_mono h hk

theorem rootLoopS_mono {pop : Frame → Frame → Frame} {n k : Nat} (hk : n ≤ k) {FB : List Nat} :
    ∀ (fs : List Nat) (st : St) (r : Except Tree St), rootLoopS o A B wit pop n FB fs st = some r →
      rootLoopS o A B wit pop k FB fs st = some r
  | [], st, r, h => by simpa [rootLoopS] using h
  | f :: fs, st, r, h => by
    simp only [rootLoopS] at h ⊢
    split at h
    · cases h
    · next st1 heq => rw [expandStack_mono heq hk]; exact rootLoopS_mono hk fs st1 r h
    · next w st1 heq => rw [expandStack_mono heq hk]; exact h

theorem rootLoopS_of_rootLoopN {fuel : Nat} {FB : List Nat} :
    ∀ (fs : List Nat) (st : St) (r : Except Tree St), rootLoopN o A B wit fuel FB fs st = some r →
      ∃ n, ∀ k, n ≤ k → rootLoopS o A B wit popAll k FB fs st = some r
  | [], st, r, h => ⟨0, fun k _ => by simpa [rootLoopS, rootLoopN] using h⟩
  | f :: fs, st, r, h => by
    simp only [rootLoopN] at h
    split at h
    · cases h
    · next cc1 st1 heq =>
      obtain ⟨n1, h1⟩ := expandStack_of_expandN heq
      obtain ⟨n2, h2⟩ := rootLoopS_of_rootLoopN fs st1 r h
      refine ⟨max n1 n2, fun k hk => ?_⟩
      simp only [rootLoopS]
      rw [h1 k (by omega)]
      exact h2 k (by omega)
    · next w cc1 st1 heq =>
      obtain ⟨n1, h1⟩ := expandStack_of_expandN heq
      refine ⟨n1, fun k hk => ?_⟩
      simp only [rootLoopS]
      rw [h1 k hk]
      exact h

end

theorem runS_of_runN {o : Ord} {A B : TA} {fuel : Nat} {r : Except Tree (List Pair)}
    (h : runN o A B fuel = some r) : ∃ n, ∀ k, n ≤ k → runS o A B popAll k = some r := by
  unfold runN at h
  split at h
  · cases h
  · next st heq =>
    obtain ⟨n, hn⟩ := rootLoopS_of_rootLoopN _ _ _ heq
    exact ⟨n, fun k hk => by unfold runS; rw [hn k hk]; exact h⟩
  · next w heq =>
    obtain ⟨n, hn⟩ := rootLoopS_of_rootLoopN _ _ _ heq
    exact ⟨n, fun k hk => by unfold runS; rw [hn k hk]; exact h⟩

theorem runS_mono {o : Ord} {A B : TA} {pop : Frame → Frame → Frame} {n k : Nat} (hk : n ≤ k)
    {r : Except Tree (List Pair)} (h : runS o A B pop n = some r) : runS o A B pop k = some r := by
  unfold runS at h ⊢
  split at h
  · cases h
  · next st heq => rw [rootLoopS_mono hk _ _ _ heq]; exact h
  · next w heq => rw [rootLoopS_mono hk _ _ _ heq]; exact h

/-- every answer of `checkInternal` with the stack machine is the answer of the recursive model with the fuel
`fuelBoundD A B + 1` -/
theorem runS_eq_runN {o : Ord} (hr : OrdRefl o) {A B : TA} {k : Nat} {r : Except Tree (List Pair)}
    (h : runS o A B popAll k = some r) : runN o A B (fuelBoundD A B + 1) = some r := by
  obtain ⟨r', hr'⟩ := runN_terminates (o := o) hr (A := A) (B := B) (fuel := fuelBoundD A B + 1) (by omega)
  obtain ⟨n, hn⟩ := runS_of_runN hr'
  have h1 := runS_mono (Nat.le_max_left k n) h
  have h2 := hn (max k n) (Nat.le_max_right k n)
  rw [h1] at h2
  rw [hr']
  exact h2.symm

end InclDownStack

open InclDown InclDownStack

theorem inclDownNonrecStack_of_rec {A B : TA} {fuel : Nat} {r : Bool × InclUp.Cert}
    (h : inclDownNonrec A B fuel = some r) : ∃ n, ∀ k, n ≤ k → inclDownNonrecStack A B k = some r := by
  unfold inclDownNonrec at h
  cases hrun : runN idOrd A B fuel with
  | none => rw [hrun] at h; simp [finish] at h
  | some res =>
    obtain ⟨n, hn⟩ := runS_of_runN hrun
    refine ⟨n, fun k hk => ?_⟩
    unfold inclDownNonrecStack
    rw [hn k hk, ← hrun]
    exact h

theorem inclDownNonrecStack_eq {A B : TA} {k : Nat} {r : Bool × InclUp.Cert}
    (h : inclDownNonrecStack A B k = some r) : inclDownNonrec A B (fuelBoundD A B + 1) = some r := by
  unfold inclDownNonrecStack at h
  cases hrun : runS idOrd A B popAll k with
  | none => rw [hrun] at h; simp [finish] at h
  | some res =>
    unfold inclDownNonrec
    rw [runS_eq_runN ordRefl_id hrun, ← hrun]
    exact h

end Vata
