import Vata.Proofs.InclDownStack
/-!
# The stack machine of `expand` refines the recursive model — choice functions, tuples, symbols, calls

Continues `Vata/Proofs/InclDownStack.lean`: the `do … while (top.choiceFunction.next())` loop against `cfAll`, the
loops over the lhs tuples and over the symbols against `procTuple` / `procGroup` / `body`, and by induction on the
fuel of `expandN` the call itself (`expandN_reach`); then `runM`, `rootLoopS`, `runS` against `rootLoopN`, `runN`.
-/
namespace Vata
namespace InclDownStack
open InclDown
open InclUp (normS Wit)

/-- the fields of a frame no loop inside the frame changes -/
def K0 (t t' : Frame) : Prop :=
  t'.retAddr = t.retAddr ∧ t'.p_S = t.p_S ∧ t'.P_B = t.P_B ∧ t'.trues0 = t.trues0
/-- … and those the loops inside the loop over the lhs tuples do not change -/
def K2 (t t' : Frame) : Prop := K0 t t' ∧ t'.a = t.a ∧ t'.tupleSetIter = t.tupleSetIter ∧ t'.W = t.W

theorem K0.refl (t : Frame) : K0 t t := ⟨rfl, rfl, rfl, rfl⟩
theorem K0.trans {t t' t'' : Frame} (h : K0 t t') (h' : K0 t' t'') : K0 t t'' :=
  ⟨h'.1.trans h.1, h'.2.1.trans h.2.1, h'.2.2.1.trans h.2.2.1, h'.2.2.2.trans h.2.2.2⟩
theorem K2.refl (t : Frame) : K2 t t := ⟨K0.refl t, rfl, rfl, rfl⟩
theorem K2.trans {t t' t'' : Frame} (h : K2 t t') (h' : K2 t' t'') : K2 t t'' :=
  ⟨h.1.trans h'.1, h'.2.1.trans h.2.1, h'.2.2.1.trans h.2.2.1, h'.2.2.2.trans h.2.2.2⟩

theorem rep_succ_append {α : Type} (m : Nat) (x : α) (cs : List α) :
    List.replicate (m + 1) x ++ cs = List.replicate m x ++ x :: cs := by
  rw [List.replicate_succ']; simp

section
variable {o : Ord} {A B : TA} {wit : Wit}

/-! ### `do { … } while (top.choiceFunction.next())` = `cfAll` -/

theorem reach_cfAll {call1 : Call} {ws : List Pair} (H : CallOK o A B wit call1 ws) (K : List Frame)
    (lhs : List Nat) (r1 : List (List Nat)) (f n0 : Nat) (ra0 : List (Nat × Nat)) (W : List (List Nat))
    (hn : 0 < lhs.length) :
    ∀ (m : Nat) (cs : List Nat) (top : Frame), top.tupleSetIter = lhs :: r1 → top.cfArity = lhs.length →
      top.a = (f, n0) :: ra0 → top.W = W → top.choiceFunction = List.replicate m 0 ++ cs →
    ∀ (st : St) (v : Verdict) (cc' : List Pair) (st' : St) (r : Nat) (S : List Nat) (ra : Nat) (fnd : Verdict),
      cfAll (oneCf (cachedCall o call1) wit (fun l => normS (maxElems o l [])) f lhs W) lhs.length m cs
        top.childrenCache st = some (v, cc', st') →
      match v with
      | .holds => ∃ top' r' S' ra' fnd', K2 top top' ∧ top'.cfArity = top.cfArity ∧ top'.childrenCache = cc' ∧
          top'.choiceFunction = List.replicate m (lhs.length - 1) ++ cs ∧
          Reach o A B wit ⟨.doChoice, top, K, ws, st, r, S, ra, fnd⟩ ⟨.nextchoice, top', K, ws, st', r', S', ra', fnd'⟩
      | .fails w => ∃ top' r' S' ra', K0 top top' ∧
          Reach o A B wit ⟨.doChoice, top, K, ws, st, r, S, ra, fnd⟩
            ⟨.popReturn, top', K, ws, st', r', S', ra', .fails w⟩ := by
  intro m
  induction m with
  | zero =>
    intro cs top h1 h2 h3 hW hcf st v cc' st' r S ra fnd h
    subst hW
    have hcf' : cs = top.choiceFunction := by simpa using hcf.symm
    subst hcf'
    have s1 : stepM o A B wit popAll ⟨.doChoice, top, K, ws, st, r, S, ra, fnd⟩
        = .inl ⟨.forCfI, { top with i := 0, trees := [], childrenCache := top.childrenCache }, K, ws, st, r, S, ra,
            .fails (.node 0 [])⟩ := by
      simp [stepM]
    simp only [cfAll, oneCf] at h
    split at h
    · cases h
    · next ts cc1 st1 heq =>
      simp only [Option.some.injEq, Prod.mk.injEq] at h
      obtain ⟨rfl, rfl, rfl⟩ := h
      obtain ⟨i', trees', r', S', ra', hR⟩ := reach_cfI H K top lhs r1 f n0 ra0 h1 h2 h3 lhs 0 rfl top.childrenCache st []
        (some ts) cc1 st1 r S ra (.node 0 []) heq
      exact ⟨{ top with i := i', trees := trees', childrenCache := cc1 }, r', S', ra', ⟨rfl, rfl, rfl, rfl⟩,
        by simpa using Reach.head s1 hR⟩
    · next cc1 st1 heq =>
      simp only [Option.some.injEq, Prod.mk.injEq] at h
      obtain ⟨rfl, rfl, rfl⟩ := h
      obtain ⟨i', trees', r', S', ra', fnd', hR⟩ := reach_cfI H K top lhs r1 f n0 ra0 h1 h2 h3 lhs 0 rfl
        top.childrenCache st [] none cc1 st1 r S ra (.node 0 []) heq
      exact ⟨{ top with i := i', trees := trees', childrenCache := cc1 }, r', S', ra', fnd',
        ⟨⟨rfl, rfl, rfl, rfl⟩, rfl, rfl, rfl⟩, rfl, rfl, by simp, Reach.head s1 hR⟩
  | succ m ih =>
    intro cs top h1 h2 h3 hW hcf st v cc' st' r S ra fnd h
    simp only [cfAll] at h
    rw [List.range_eq_range'] at h
    rw [rep_succ_append] at hcf
    rw [rep_succ_append]
    have claim : ∀ (k j : Nat), j + k = lhs.length → k ≠ 0 →
        ∀ (top : Frame), top.tupleSetIter = lhs :: r1 → top.cfArity = lhs.length →
          top.a = (f, n0) :: ra0 → top.W = W → top.choiceFunction = List.replicate m 0 ++ j :: cs →
        ∀ (st : St) (v : Verdict) (cc' : List Pair) (st' : St) (r : Nat) (S : List Nat) (ra : Nat) (fnd : Verdict),
          forAllL (fun i cc st => cfAll (oneCf (cachedCall o call1) wit (fun l => normS (maxElems o l [])) f lhs W)
            lhs.length m (i :: cs) cc st) (List.range' j k) top.childrenCache st = some (v, cc', st') →
          match v with
          | .holds => ∃ top' r' S' ra' fnd', K2 top top' ∧ top'.cfArity = top.cfArity ∧ top'.childrenCache = cc' ∧
              top'.choiceFunction = List.replicate m (lhs.length - 1) ++ (lhs.length - 1) :: cs ∧
              Reach o A B wit ⟨.doChoice, top, K, ws, st, r, S, ra, fnd⟩
                ⟨.nextchoice, top', K, ws, st', r', S', ra', fnd'⟩
          | .fails w => ∃ top' r' S' ra', K0 top top' ∧
              Reach o A B wit ⟨.doChoice, top, K, ws, st, r, S, ra, fnd⟩
                ⟨.popReturn, top', K, ws, st', r', S', ra', .fails w⟩ := by
      intro k
      induction k with
      | zero => intro j _ h0; exact absurd rfl h0
      | succ k ihk =>
        intro j hj _ top h1 h2 h3 hW hcf st v cc' st' r S ra fnd h
        rw [List.range'_succ] at h
        simp only [forAllL] at h
        split at h
        · cases h
        · next cc1 st1 heq =>
          obtain ⟨top1, r1', S1, ra1, fnd1, hK, hA1, hC1, hF1, hR1⟩ :=
            ih (j :: cs) top h1 h2 h3 hW hcf st .holds cc1 st1 r S ra fnd heq
          subst hC1
          cases k with
          | zero =>
            simp only [List.range'_zero, forAllL, Option.some.injEq, Prod.mk.injEq] at h
            obtain ⟨rfl, rfl, rfl⟩ := h
            have hj' : j = lhs.length - 1 := by omega
            subst hj'
            exact ⟨top1, r1', S1, ra1, fnd1, hK, hA1, rfl, hF1, hR1⟩
          | succ k =>
            have hne : j + 1 ≠ lhs.length := by omega
            have s2 : stepM o A B wit popAll ⟨.nextchoice, top1, K, ws, st1, r1', S1, ra1, fnd1⟩
                = .inl ⟨.doChoice, { top1 with choiceFunction := List.replicate m 0 ++ (j + 1) :: cs }, K, ws, st1,
                    r1', S1, ra1, fnd1⟩ := by
              simp [stepM, hA1, h2, hF1, cfNext_carry lhs.length hn j hne cs m]
            have hK' : K2 top1 { top1 with choiceFunction := List.replicate m 0 ++ (j + 1) :: cs } := K2.refl _
            have := ihk (j + 1) (by omega) (by omega)
              { top1 with choiceFunction := List.replicate m 0 ++ (j + 1) :: cs }
              (hK.2.2.1.trans h1) (hA1.trans h2) (hK.2.1.trans h3) (hK.2.2.2.trans hW) rfl st1 v cc' st' r1' S1 ra1 fnd1 h
            cases v with
            | holds =>
              obtain ⟨top2, r2, S2, ra2, fnd2, hK2, hA2, hC2, hF2, hR2⟩ := this
              exact ⟨top2, r2, S2, ra2, fnd2, hK.trans (hK'.trans hK2), hA2.trans hA1, hC2, hF2,
                hR1.trans (Reach.head s2 hR2)⟩
            | fails w =>
              obtain ⟨top2, r2, S2, ra2, hK2, hR2⟩ := this
              exact ⟨top2, r2, S2, ra2, hK.1.trans (hK'.1.trans hK2), hR1.trans (Reach.head s2 hR2)⟩
        · next w cc1 st1 heq =>
          simp only [Option.some.injEq, Prod.mk.injEq] at h
          obtain ⟨rfl, rfl, rfl⟩ := h
          exact ih (j :: cs) top h1 h2 h3 hW hcf st (.fails w) cc1 st1 r S ra fnd heq
    exact claim lhs.length 0 (by omega) (by omega) top h1 h2 h3 hW hcf st v cc' st' r S ra fnd h

/-! ### one lhs tuple = `procTuple` -/

theorem reach_procTuple {call1 : Call} {ws : List Pair} (H : CallOK o A B wit call1 ws) (K : List Frame)
    (lhs : List Nat) (r1 : List (List Nat)) (f n0 : Nat) (ra0 : List (Nat × Nat)) (W : List (List Nat))
    (hn : 0 < lhs.length) (hz : ∀ w, w ∈ W → lhs.zip w ≠ [])
    (top : Frame) (h1 : top.tupleSetIter = lhs :: r1) (h3 : top.a = (f, n0) :: ra0) (hW : top.W = W)
    (st : St) (v : Verdict) (cc' : List Pair) (st' : St) (r : Nat) (S : List Nat) (ra : Nat) (fnd : Verdict)
    (h : procTuple call1 (cachedCall o call1) wit (fun l => normS (maxElems o l [])) f W lhs top.childrenCache st
      = some (v, cc', st')) :
    match v with
    | .holds => ∃ top' r' S' ra' fnd', K2 top top' ∧ top'.childrenCache = cc' ∧
        Reach o A B wit ⟨.forTuple, top, K, ws, st, r, S, ra, fnd⟩ ⟨.nexttuple, top', K, ws, st', r', S', ra', fnd'⟩
    | .fails w => ∃ top' r' S' ra', K0 top top' ∧
        Reach o A B wit ⟨.forTuple, top, K, ws, st, r, S, ra, fnd⟩
          ⟨.popReturn, top', K, ws, st', r', S', ra', .fails w⟩ := by
  subst hW
  have s1 : stepM o A B wit popAll ⟨.forTuple, top, K, ws, st, r, S, ra, fnd⟩
      = .inl ⟨.forTuple2, { top with tupleSetIter2 := top.W, i := top.i }, K, ws, st, r, S, ra, fnd⟩ := by
    simp [stepM, h1]
  simp only [procTuple] at h
  split at h
  · cases h
  · next cc1 st1 heq =>
    simp only [Option.some.injEq, Prod.mk.injEq] at h
    obtain ⟨rfl, rfl, rfl⟩ := h
    obtain ⟨hcc, i', ti2', r', S', ra', fnd', hR⟩ :=
      reach_tuple2 H K top lhs r1 h1 top.W hz top.childrenCache st true cc1 st1 top.i r S ra fnd heq
    simp only [if_true] at hR
    exact ⟨{ top with tupleSetIter2 := ti2', i := i' }, r', S', ra', fnd', K2.refl _, hcc.symm, Reach.head s1 hR⟩
  · next cc1 st1 heq =>
    obtain ⟨hcc, i', ti2', r', S', ra', fnd', hR⟩ :=
      reach_tuple2 H K top lhs r1 h1 top.W hz top.childrenCache st false cc1 st1 top.i r S ra fnd heq
    subst hcc
    simp only [Bool.false_eq_true, if_false] at hR
    have s2 : stepM o A B wit popAll
        ⟨.choiceInit, { top with tupleSetIter2 := ti2', i := i' }, K, ws, st1, r', S', ra', fnd'⟩
        = .inl ⟨.doChoice,
            { top with tupleSetIter2 := ti2', i := i', choiceFunction := List.replicate top.W.length 0, cfArity := lhs.length },
            K, ws, st1, r', S', ra', fnd'⟩ := by
      simp [stepM, h1]
    have := reach_cfAll H K lhs r1 f n0 ra0 top.W hn top.W.length []
      { top with tupleSetIter2 := ti2', i := i', choiceFunction := List.replicate top.W.length 0, cfArity := lhs.length }
      h1 rfl h3 rfl (by simp) st1 v cc' st' r' S' ra' fnd' h
    cases v with
    | holds =>
      obtain ⟨top3, r3, S3, ra3, fnd3, hK3, hA3, hC3, hF3, hR3⟩ := this
      have hA3' : top3.cfArity = lhs.length := hA3
      have hF3' : top3.choiceFunction = List.replicate top.W.length (lhs.length - 1) := by simpa using hF3
      have s3 : stepM o A B wit popAll ⟨.nextchoice, top3, K, ws, st', r3, S3, ra3, fnd3⟩
          = .inl ⟨.nexttuple, { top3 with choiceFunction := List.replicate top.W.length 0 }, K, ws, st', r3, S3, ra3,
              fnd3⟩ := by
        simp [stepM, hA3', hF3', cfNext_last lhs.length hn]
      have hK0 : K2 top
          { top with tupleSetIter2 := ti2', i := i', choiceFunction := List.replicate top.W.length 0, cfArity := lhs.length } :=
        K2.refl _
      have hK4 : K2 top3 { top3 with choiceFunction := List.replicate top.W.length 0 } := K2.refl _
      exact ⟨_, r3, S3, ra3, fnd3, hK0.trans (hK3.trans hK4), hC3,
        Reach.head s1 (hR.trans (Reach.head s2 (hR3.trans (Reach.step s3))))⟩
    | fails w =>
      obtain ⟨top3, r3, S3, ra3, hK3, hR3⟩ := this
      have hK0 : K0 top
          { top with tupleSetIter2 := ti2', i := i', choiceFunction := List.replicate top.W.length 0, cfArity := lhs.length } :=
        K0.refl _
      exact ⟨top3, r3, S3, ra3, hK0.trans hK3, Reach.head s1 (hR.trans (Reach.head s2 hR3))⟩

/-! ### the loop over the lhs tuples of a symbol -/

theorem reach_tuples {call1 : Call} {ws : List Pair} (H : CallOK o A B wit call1 ws) (K : List Frame)
    (f n0 : Nat) (ra0 : List (Nat × Nat)) (W : List (List Nat)) :
    ∀ (L : List (List Nat)), (∀ lhs, lhs ∈ L → 0 < lhs.length ∧ ∀ w, w ∈ W → lhs.zip w ≠ []) →
    ∀ (top : Frame), top.tupleSetIter = L → top.a = (f, n0) :: ra0 → top.W = W →
    ∀ (st : St) (v : Verdict) (cc' : List Pair) (st' : St) (r : Nat) (S : List Nat) (ra : Nat) (fnd : Verdict),
      forAllL (procTuple call1 (cachedCall o call1) wit (fun l => normS (maxElems o l [])) f W) L top.childrenCache st
        = some (v, cc', st') →
      match v with
      | .holds => ∃ top' r' S' ra' fnd', K0 top top' ∧ top'.a = ra0 ∧ top'.childrenCache = cc' ∧
          Reach o A B wit ⟨.forTuple, top, K, ws, st, r, S, ra, fnd⟩ ⟨.forA, top', K, ws, st', r', S', ra', fnd'⟩
      | .fails w => ∃ top' r' S' ra', K0 top top' ∧
          Reach o A B wit ⟨.forTuple, top, K, ws, st, r, S, ra, fnd⟩
            ⟨.popReturn, top', K, ws, st', r', S', ra', .fails w⟩ := by
  intro L
  induction L with
  | nil =>
    intro _ top h1 h3 hW st v cc' st' r S ra fnd h
    simp only [forAllL, Option.some.injEq, Prod.mk.injEq] at h
    obtain ⟨rfl, rfl, rfl⟩ := h
    exact ⟨{ top with a := top.a.tail }, r, S, ra, fnd, K0.refl _, by simp [h3], rfl,
      Reach.step (by simp [stepM, h1])⟩
  | cons lhs L ih =>
    intro hL top h1 h3 hW st v cc' st' r S ra fnd h
    obtain ⟨hn, hz⟩ := hL lhs List.mem_cons_self
    simp only [forAllL] at h
    split at h
    · cases h
    · next cc1 st1 heq =>
      obtain ⟨top1, r1', S1, ra1, fnd1, hK1, hC1, hR1⟩ :=
        reach_procTuple H K lhs L f n0 ra0 W hn hz top h1 h3 hW st .holds cc1 st1 r S ra fnd heq
      subst hC1
      have s2 : stepM o A B wit popAll ⟨.nexttuple, top1, K, ws, st1, r1', S1, ra1, fnd1⟩
          = .inl ⟨.forTuple, { top1 with tupleSetIter := top1.tupleSetIter.tail }, K, ws, st1, r1', S1, ra1, fnd1⟩ := by
        simp [stepM]
      have hti : ({ top1 with tupleSetIter := top1.tupleSetIter.tail } : Frame).tupleSetIter = L := by
        simp [hK1.2.2.1, h1]
      have hK2' : K0 top1 { top1 with tupleSetIter := top1.tupleSetIter.tail } := K0.refl _
      have := ih (fun l hl => hL l (List.mem_cons_of_mem _ hl)) { top1 with tupleSetIter := top1.tupleSetIter.tail }
        hti (hK1.2.1.trans h3) (hK1.2.2.2.trans hW) st1 v cc' st' r1' S1 ra1 fnd1 h
      cases v with
      | holds =>
        obtain ⟨top2, r2, S2, ra2, fnd2, hK2, hA2, hC2, hR2⟩ := this
        exact ⟨top2, r2, S2, ra2, fnd2, hK1.1.trans (hK2'.trans hK2), hA2, hC2, hR1.trans (Reach.head s2 hR2)⟩
      | fails w =>
        obtain ⟨top2, r2, S2, ra2, hK2, hR2⟩ := this
        exact ⟨top2, r2, S2, ra2, hK1.1.trans (hK2'.trans hK2), hR1.trans (Reach.head s2 hR2)⟩
    · next w cc1 st1 heq =>
      simp only [Option.some.injEq, Prod.mk.injEq] at h
      obtain ⟨rfl, rfl, rfl⟩ := h
      exact reach_procTuple H K lhs L f n0 ra0 W hn hz top h1 h3 hW st (.fails w) cc1 st1 r S ra fnd heq

/-! ### the loop over the symbols = `body` -/

theorem lhsTuples_length {A : TA} {p f n : Nat} {l : List Nat} (h : l ∈ lhsTuples A p f n) : l.length = n := by
  obtain ⟨ρ, _, _, _, hl, hk⟩ := mem_lhsTuples.mp h
  rw [← hk]; exact hl

theorem rhsTuples_length {B : TA} {P : List Nat} {f n : Nat} {w : List Nat} (h : w ∈ rhsTuples B P f n) :
    w.length = n := by
  obtain ⟨σ, hσ, hk⟩ := mem_rhsTuples.mp h
  rw [← hk]; exact (mem_rulesOf.mp hσ).2.2.2

theorem zip_ne_nil {l w : List Nat} {n : Nat} (hn : n ≠ 0) (hl : l.length = n) (hw : w.length = n) : l.zip w ≠ [] := by
  intro h
  have := congrArg List.length h
  simp only [List.length_zip, List.length_nil] at this
  omega

theorem reach_body {call1 : Call} {ws : List Pair} (H : CallOK o A B wit call1 ws) (K : List Frame)
    (p : Nat) (P : List Nat) :
    ∀ (gs : List (Nat × Nat)) (top : Frame), top.a = gs → top.p_S = p → top.P_B = P →
    ∀ (st : St) (v : Verdict) (cc' : List Pair) (st' : St) (r : Nat) (S : List Nat) (ra : Nat) (fnd : Verdict),
      forAllL (fun g => procGroup call1 (cachedCall o call1) A B wit (fun l => normS (maxElems o l [])) p P g.1 g.2)
        gs top.childrenCache st = some (v, cc', st') →
      ∃ top' r' S' ra', K0 top top' ∧
        Reach o A B wit ⟨.forA, top, K, ws, st, r, S, ra, fnd⟩ ⟨.popReturn, top', K, ws, st', r', S', ra', v⟩ := by
  intro gs
  induction gs with
  | nil =>
    intro top ha hp hP st v cc' st' r S ra fnd h
    simp only [forAllL, Option.some.injEq, Prod.mk.injEq] at h
    obtain ⟨rfl, rfl, rfl⟩ := h
    exact ⟨top, r, S, ra, K0.refl _, Reach.step (by simp [stepM, ha])⟩
  | cons g gs ih =>
    intro top ha hp hP st v cc' st' r S ra fnd h
    obtain ⟨f, n⟩ := g
    simp only [forAllL] at h
    cases hpg : procGroup call1 (cachedCall o call1) A B wit (fun l => normS (maxElems o l [])) p P f n
        top.childrenCache st with
    | none => rw [hpg] at h; cases h
    | some x =>
      obtain ⟨v1, cc1, st1⟩ := x
      rw [hpg] at h
      unfold procGroup at hpg
      by_cases hn0 : n = 0
      · by_cases hWe : (rhsTuples B P f n).isEmpty = true
        · simp only [hn0, if_true] at hpg
          rw [hn0] at hWe
          simp only [hWe, if_true, Option.some.injEq, Prod.mk.injEq] at hpg
          obtain ⟨rfl, rfl, rfl⟩ := hpg
          simp only [Option.some.injEq, Prod.mk.injEq] at h
          obtain ⟨rfl, rfl, rfl⟩ := h
          exact ⟨top, r, S, ra, K0.refl _, Reach.step (by simp [stepM, ha, hP, hn0, hWe])⟩
        · simp only [hn0, if_true] at hpg
          rw [hn0] at hWe
          simp only [hWe, if_false, Option.some.injEq, Prod.mk.injEq, Bool.false_eq_true] at hpg
          obtain ⟨rfl, rfl, rfl⟩ := hpg
          simp only at h
          have s1 : stepM o A B wit popAll ⟨.forA, top, K, ws, st, r, S, ra, fnd⟩
              = .inl ⟨.forA, { top with a := top.a.tail }, K, ws, st, r, S, ra, fnd⟩ := by
            simp [stepM, ha, hP, hn0, hWe]
          obtain ⟨top', r', S', ra', hK, hR⟩ := ih { top with a := top.a.tail } (by simp [ha]) hp hP st v cc' st'
            r S ra fnd h
          exact ⟨top', r', S', ra', (K0.refl top).trans hK, Reach.head s1 hR⟩
      · by_cases hWe : (rhsTuples B P f n).isEmpty = true
        · simp only [hn0, if_false, hWe, if_true, Option.some.injEq, Prod.mk.injEq] at hpg
          obtain ⟨rfl, rfl, rfl⟩ := hpg
          simp only [Option.some.injEq, Prod.mk.injEq] at h
          obtain ⟨rfl, rfl, rfl⟩ := h
          exact ⟨{ top with W := rhsTuples B P f n }, r, S, ra, K0.refl _,
            Reach.step (by simp [stepM, ha, hP, hp, hn0, hWe])⟩
        · simp only [hn0, if_false, hWe, Bool.false_eq_true] at hpg
          have s1 : stepM o A B wit popAll ⟨.forA, top, K, ws, st, r, S, ra, fnd⟩
              = .inl ⟨.forTuple, { top with W := rhsTuples B P f n, tupleSetIter := lhsTuples A p f n }, K, ws, st,
                  r, S, ra, fnd⟩ := by
            simp [stepM, ha, hP, hp, hn0, hWe]
          have hL : ∀ lhs, lhs ∈ lhsTuples A p f n → 0 < lhs.length ∧ ∀ w, w ∈ rhsTuples B P f n → lhs.zip w ≠ [] := by
            intro lhs hl
            have := lhsTuples_length hl
            exact ⟨by omega, fun w hw => zip_ne_nil hn0 this (rhsTuples_length hw)⟩
          have := reach_tuples H K f n gs (rhsTuples B P f n) (lhsTuples A p f n) hL
            { top with W := rhsTuples B P f n, tupleSetIter := lhsTuples A p f n } rfl ha rfl st v1 cc1 st1 r S ra fnd hpg
          have hK1 : K0 top { top with W := rhsTuples B P f n, tupleSetIter := lhsTuples A p f n } := K0.refl _
          cases v1 with
          | holds =>
            obtain ⟨top2, r2, S2, ra2, fnd2, hK2, hA2, hC2, hR2⟩ := this
            subst hC2
            simp only at h
            obtain ⟨top', r', S', ra', hK, hR⟩ := ih top2 hA2 (hK2.2.1.trans hp) (hK2.2.2.1.trans hP) st1 v cc' st'
              r2 S2 ra2 fnd2 h
            exact ⟨top', r', S', ra', hK1.trans (hK2.trans hK), Reach.head s1 (hR2.trans hR)⟩
          | fails w =>
            obtain ⟨top2, r2, S2, ra2, hK2, hR2⟩ := this
            simp only [Option.some.injEq, Prod.mk.injEq] at h
            obtain ⟨rfl, rfl, rfl⟩ := h
            exact ⟨top2, r2, S2, ra2, hK1.trans hK2, Reach.head s1 hR2⟩

/-! ### the call: induction on the fuel of the recursive model -/

theorem expandN_reach : ∀ (fuel : Nat) (ws : List Pair), CallOK o A B wit (expandN o A B wit fuel ws) ws
  | 0, ws => by
    intro cc st q Q v cc' st' h
    simp [expandN] at h
  | fuel+1, ws => by
    intro cc st q Q v cc' st' h
    simp only [expandN] at h
    split at h
    · next hpre =>
      simp only [Option.some.injEq, Prod.mk.injEq] at h
      obtain ⟨rfl, rfl, rfl⟩ := h
      exact ⟨rfl, fun top K k f0 => Reach.step (by simp [stepM, hpre])⟩
    · next hpre =>
      split at h
      · next hcov =>
        simp only [Option.some.injEq, Prod.mk.injEq] at h
        obtain ⟨rfl, rfl, rfl⟩ := h
        exact ⟨rfl, fun top K k f0 => Reach.step (by simp [stepM, hpre, hcov])⟩
      · next hcov =>
        split at h
        · next x hni =>
          simp only [Option.some.injEq, Prod.mk.injEq] at h
          obtain ⟨rfl, rfl, rfl⟩ := h
          exact ⟨rfl, fun top K k f0 => Reach.step (by simp [stepM, hpre, hcov, hni])⟩
        · next hni =>
          have H := expandN_reach fuel ((q, Q) :: ws)
          have s1 : ∀ (top : Frame) (K : List Frame) (k : Nat) (f0 : Verdict),
              stepM o A B wit popAll ⟨.call, top, K, ws, st, q, Q, k, f0⟩
              = .inl ⟨.forA,
                  { top with p_S := q, P_B := Q, retAddr := k, childrenCache := [], a := lhsGroups A q, trues0 := st.trues },
                  top :: K, (q, Q) :: ws, st, q, Q, k, f0⟩ := by
            intro top K k f0
            simp [stepM, hpre, hcov, hni]
          simp only [body] at h
          split at h
          · cases h
          · next cc1 st1 hb =>
            simp only [Option.some.injEq, Prod.mk.injEq] at h
            obtain ⟨rfl, rfl, rfl⟩ := h
            refine ⟨rfl, fun top K k f0 => ?_⟩
            obtain ⟨top', r', S', ra', hK, hR⟩ := reach_body H (top :: K) q Q (lhsGroups A q)
              { top with p_S := q, P_B := Q, retAddr := k, childrenCache := [], a := lhsGroups A q, trues0 := st.trues }
              rfl rfl rfl st .holds cc1 st1 q Q k f0 hb
            obtain ⟨hk1, hk2, hk3, hk4⟩ := hK
            have s2 : stepM o A B wit popAll ⟨.popReturn, top', top :: K, (q, Q) :: ws, st1, r', S', ra', .holds⟩
                = .inl ⟨.ret, top, K, ws, ⟨st1.nonIncl, addTrue st1.trues (q, Q)⟩, q, Q, k, .holds⟩ := by
              simp only [stepM, popAll, List.tail_cons]
              rw [hk1, hk2, hk3]
            exact Reach.head (s1 top K k f0) (hR.trans (Reach.step s2))
          · next w cc1 st1 hb =>
            simp only [Option.some.injEq, Prod.mk.injEq] at h
            obtain ⟨rfl, rfl, rfl⟩ := h
            refine ⟨rfl, fun top K k f0 => ?_⟩
            obtain ⟨top', r', S', ra', hK, hR⟩ := reach_body H (top :: K) q Q (lhsGroups A q)
              { top with p_S := q, P_B := Q, retAddr := k, childrenCache := [], a := lhsGroups A q, trues0 := st.trues }
              rfl rfl rfl st (.fails w) cc1 st1 q Q k f0 hb
            obtain ⟨hk1, hk2, hk3, hk4⟩ := hK
            have s2 : stepM o A B wit popAll ⟨.popReturn, top', top :: K, (q, Q) :: ws, st1, r', S', ra', .fails w⟩
                = .inl ⟨.ret, top, K, ws, ⟨st1.nonIncl, st.trues⟩, q, Q, k, .fails w⟩ := by
              simp only [stepM, popAll, List.tail_cons]
              rw [hk1, hk2, hk3, hk4]
            exact Reach.head (s1 top K k f0) (hR.trans (Reach.step s2))

end
end InclDownStack
end Vata
