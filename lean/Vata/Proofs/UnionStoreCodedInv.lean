import Vata.Proofs.UnionStoreCoded
/-!
# `Union` on the rule store – proofs, part 2: the FULL store invariant of the result

`uniqueCluster(q')` / `uniqueTuplePtrSet(f)` create a possibly empty cluster / tuple set; when the source has no empty cluster and
no empty tuple set (`NE`, part of `Store.Inv`) the very next `insert` fills it, and the store after the creation followed by the
insert is EQUAL (as a value) to the store after the insert alone.  Hence a `ReindexStates(dst, …)` that does not throw leaves
exactly `foldl AddTransition (SetStatesFinal dst finals') rules'` – the answer to the first item of the "still not proved" list of
`C14_Coded` – and keeps `Store.Inv`.
-/
namespace Vata.UnionStoreCoded
open Vata.Store Vata.RenameCoded

theorem upsert_upsert {β : Type} (k : Nat) (g1 g2 : Option β → β) : ∀ (l : List (Nat × β)),
    upsert k g2 (upsert k g1 l) = upsert k (fun o => g2 (some (g1 o))) l
  | [] => by simp [upsert]
  | (k', v) :: l => by
    by_cases h : k' = k
    · simp [upsert, h]
    · simp [upsert, h, upsert_upsert k g1 g2 l]

/-- `uniqueTuplePtrSet(f)` followed by the `insert` through the same pointers = the `insert` alone -/
theorem add_touchTS (q f : Nat) (t : List Nat) (s : Store) :
    addTransition (touchTupleSet q f s) ⟨f, t, q⟩ = addTransition s ⟨f, t, q⟩ := by
  simp only [addTransition, touchTupleSet, addToMap, addToCluster, upsert_upsert, Option.getD_some]

/-- `uniqueCluster(q)` followed by `uniqueTuplePtrSet(f)` on that cluster = the latter alone -/
theorem touchTS_touchC (q f : Nat) (s : Store) : touchTupleSet q f (touchCluster q s) = touchTupleSet q f s := by
  simp only [touchTupleSet, touchCluster, upsert_upsert, Option.getD_some]

/-- no empty cluster, no empty tuple set -/
def NE (m : List (Nat × Cluster)) : Prop := ∀ qc, qc ∈ m → qc.2 ≠ [] ∧ ∀ ft, ft ∈ qc.2 → ft.2 ≠ []

theorem ne_of_inv {s : Store} (h : Inv s) : NE s.clusters :=
  fun qc hqc => ⟨(h.clusters qc hqc).nonempty, fun ft hft => ((h.clusters qc hqc).tuples ft hft).1⟩

theorem foldl_tupleEvs (h : Nat → Nat) (q f : Nat) : ∀ (ts : TupleSet) (s : Store),
    (tupleEvs h q f ts).foldl stepEv s = (rulesOf (tupleEvs h q f ts)).foldl addTransition s
  | [], _ => rfl
  | t :: ts, s => by
    have := foldl_tupleEvs h q f ts (addTransition s ⟨f, t.map h, q⟩)
    simp only [tupleEvs, List.map_cons, List.foldl_cons, stepEv, rulesOf, List.filterMap_cons] at this ⊢
    exact this

theorem foldl_symbolEvs (h : Nat → Nat) (q : Nat) : ∀ (c : Cluster) (s : Store), (∀ ft, ft ∈ c → ft.2 ≠ []) →
    (symbolEvs h q c).foldl stepEv s = (rulesOf (symbolEvs h q c)).foldl addTransition s
  | [], _, _ => rfl
  | ft :: c, s, hne => by
    have e : symbolEvs h q (ft :: c) = Ev.touchTS q ft.1 :: (tupleEvs h q ft.1 ft.2 ++ symbolEvs h q c) := by
      simp [symbolEvs]
    have hr : rulesOf (Ev.touchTS q ft.1 :: (tupleEvs h q ft.1 ft.2 ++ symbolEvs h q c)) =
        rulesOf (tupleEvs h q ft.1 ft.2) ++ rulesOf (symbolEvs h q c) := by
      rw [← rulesOf_append]; simp [rulesOf]
    rw [e, hr, List.foldl_cons, List.foldl_append, List.foldl_append,
      ← foldl_symbolEvs h q c _ (fun ft' hft' => hne ft' (List.mem_cons_of_mem _ hft'))]
    congr 1
    cases hts : ft.2 with
    | nil => exact absurd hts (hne ft List.mem_cons_self)
    | cons t ts =>
      rw [← foldl_tupleEvs]
      simp only [tupleEvs, List.map_cons, List.foldl_cons, stepEv, add_touchTS]

theorem foldl_clusterEvs (h : Nat → Nat) : ∀ (m : List (Nat × Cluster)) (s : Store), NE m →
    (clusterEvs h m).foldl stepEv s = (rulesOf (clusterEvs h m)).foldl addTransition s
  | [], _, _ => rfl
  | qc :: m, s, hne => by
    have e : clusterEvs h (qc :: m) = Ev.touchC (h qc.1) :: (symbolEvs h (h qc.1) qc.2 ++ clusterEvs h m) := by
      simp [clusterEvs]
    have hr : rulesOf (Ev.touchC (h qc.1) :: (symbolEvs h (h qc.1) qc.2 ++ clusterEvs h m)) =
        rulesOf (symbolEvs h (h qc.1) qc.2) ++ rulesOf (clusterEvs h m) := by
      rw [← rulesOf_append]; simp [rulesOf]
    have hq := hne qc List.mem_cons_self
    rw [e, hr, List.foldl_cons, List.foldl_append, List.foldl_append,
      ← foldl_clusterEvs h m _ (fun qc' hqc' => hne qc' (List.mem_cons_of_mem _ hqc'))]
    congr 1
    rw [← foldl_symbolEvs h (h qc.1) qc.2 s hq.2]
    cases hc : qc.2 with
    | nil => exact absurd hc hq.1
    | cons ft c =>
      have e2 : symbolEvs h (h qc.1) (ft :: c) = Ev.touchTS (h qc.1) ft.1 :: (tupleEvs h (h qc.1) ft.1 ft.2 ++ symbolEvs h (h qc.1) c) := by
        simp [symbolEvs]
      rw [e2]
      simp only [List.foldl_cons, stepEv, touchTS_touchC]

/-- a stateless translator that does not throw, source without empty cluster / tuple set: the destination afterwards is the
destination with the translated final states inserted and the translated rules ADDED one by one, in iteration order -/
theorem reindexInto_opt_exact (g : Nat → Option Nat) (src dst : Store) (hne : NE src.clusters)
    (hthr : (reindexInto (optT g) src dst () true).thrown = none) :
    (reindexInto (optT g) src dst () true).dst =
      ((iterate src).map (mapRule (gd g))).foldl addTransition (setFinals dst (src.final.map (gd g))) := by
  obtain ⟨hc, fpre, fsuf, f1, f2, f3⟩ := finalsLoop_opt g src.final dst
  cases hr : (finalsLoop (optT g) src.final dst ()).thrown with
  | some k => simp [reindexInto, hr] at hthr
  | none =>
    have := f2 hr
    subst this
    rw [List.append_nil] at f1
    subst f1
    have hd : (finalsLoop (optT g) src.final dst ()).dst = setFinals dst (src.final.map (gd g)) := by
      rw [← store_eta (finalsLoop (optT g) src.final dst ()).dst, hc, f3]
      rfl
    obtain ⟨pre, suf, e1, e2, e3⟩ := clustersLoop_ev g src.clusters (finalsLoop (optT g) src.final dst ()).dst
    have hthr' : (clustersLoop (optT g) src.clusters (finalsLoop (optT g) src.final dst ()).dst ()).thrown = none := by
      simpa [reindexInto, hr] using hthr
    have := e2 hthr'
    subst this
    rw [List.append_nil] at e1
    subst e1
    simp only [reindexInto, if_true, hr]
    rw [e3, hd, foldl_clusterEvs _ _ _ hne, rulesOf_clusterEvs (gd g) src.clusters src.final]

/-- the same for one call with the weak translator of `Union` -/
theorem weak_run_exact (src dst : Store) (m : SMap) (c : Nat) (hne : NE src.clusters) :
    (reindexInto (weakT .counter) src dst ⟨m, c⟩ true).dst =
      ((iterate src).map (mapRule (gd (fun k => (weakTrAll (lookupOrder src true) m c).1.lookup k)))).foldl addTransition
        (setFinals dst (src.final.map (gd (fun k => (weakTrAll (lookupOrder src true) m c).1.lookup k)))) := by
  obtain ⟨e1, e2, _⟩ := weak_run src dst m c
  have h := (reindexInto_gen (lawful_weakT .counter) src dst ⟨m, c⟩ true).2
    (fun k => (reindexInto (weakT .counter) src dst ⟨m, c⟩ true).tr.map.lookup k) (Le.refl _)
    (by intro k hk; rw [e1] at hk; cases hk)
  have hthr : (reindexInto (optT (fun k => (reindexInto (weakT .counter) src dst ⟨m, c⟩ true).tr.map.lookup k))
      src dst () true).thrown = none := by rw [h]; exact e1
  have := reindexInto_opt_exact _ src dst hne hthr
  rw [h] at this
  simp only at this
  rw [this, e2]

theorem inv_setFinals {s : Store} (h : Inv s) (qs : List Nat) : Inv (setFinals s qs) := inv_step h (.setFinals qs)

/-- one call keeps the full store invariant -/
theorem weak_run_inv (src dst : Store) (m : SMap) (c : Nat) (hs : Inv src) (hd : Inv dst) :
    Inv (reindexInto (weakT .counter) src dst ⟨m, c⟩ true).dst := by
  rw [weak_run_exact src dst m c (ne_of_inv hs)]
  exact inv_foldl_add (inv_setFinals hd _) _

/-- `Union` of two stores satisfying the invariant satisfies it (no empty cluster, no empty tuple set, keys unique, …) -/
theorem union_store_inv (A B : Store) (mL mR : SMap) (hA : Inv A) (hB : Inv B) : Inv (unionStoreCoded A B mL mR).1 := by
  simp only [unionStoreCoded]
  exact weak_run_inv B _ mR _ hB (weak_run_inv A empty mL _ hA inv_empty)

end Vata.UnionStoreCoded
