import Vata.Proofs.InclDownStackSteps
/-!
# Counting the transitions of the stack machine of `expand` — choice functions, tuples, symbols, the call

Continues `Vata/Proofs/InclDownStackSteps.lean` (`t` = the bound for one simulated call):

* `costCfAll n c m` : the `do … while (top.choiceFunction.next())` loop over the `n ^ m` choice functions of `m` rhs tuples,
  `c` = the cost of one choice function (`doChoice` + the loop over the positions); the recursion is that of `cfAll`
  (`n` rounds of the inner enumeration, one `_nextchoice` transition between two rounds);
* `costTuple n w t` : one lhs tuple of arity `n` against `w` rhs tuples (phase 1, `choiceInit`, the choice functions,
  `_nexttuple`);  `costTupleB a b t` : the same as a closed expression, monotone in the arity bound `a` and the bound `b`
  on `|W|`;
* `reach_tuples_n`, `reach_body_n` : the loops over the lhs tuples (at most `l`) and the symbols (at most `g`);
* `stepT a b l g fuel` : the bound for a call of nesting depth `fuel`, `expandN_reach_n` : the induction on the fuel.
-/
namespace Vata
namespace InclDownStack
open InclDown
open InclUp (normS Wit)

/-- the cost of the choice-function loop for `m` more tuples (`n` = the arity, `c` = the cost of one choice function) -/
def costCfAll (n c : Nat) : Nat → Nat
  | 0 => c
  | m+1 => n * (costCfAll n c m + 1)

/-- `forTuple` … `_nexttuple` / `EXPAND_POP_RETURN` for one lhs tuple of arity `n` against `w` rhs tuples -/
def costTuple (n w t : Nat) : Nat := w * (n * (t + 3) + 3) + costCfAll n (n * (t + 3) + 2) w + 4

/-- a closed bound for `costTuple`, monotone in the arity bound `a` and in the bound `b` on the number of rhs tuples -/
def costTupleB (a b t : Nat) : Nat := b * (a * (t + 3) + 3) + (a * (t + 3) + 3) * (a + 1) ^ b + 3

theorem costCfAll_closed (n c : Nat) : ∀ m, costCfAll n c m + 1 ≤ (c + 1) * (n + 1) ^ m
  | 0 => by simp [costCfAll]
  | m+1 => by
    have ih := costCfAll_closed n c m
    have hpos : 1 ≤ (c + 1) * (n + 1) ^ m := Nat.mul_pos (by omega) (Nat.pow_pos (by omega))
    have h1 := Nat.mul_le_mul_left n ih
    have e : (c + 1) * (n + 1) ^ (m + 1) = n * ((c + 1) * (n + 1) ^ m) + (c + 1) * (n + 1) ^ m := by
      rw [Nat.pow_succ, ← Nat.mul_assoc, Nat.mul_add, Nat.mul_one, Nat.mul_comm _ n]
    simp only [costCfAll]
    rw [e]
    omega

theorem costTuple_le {n w a b : Nat} (t : Nat) (hn : n ≤ a) (hw : w ≤ b) : costTuple n w t ≤ costTupleB a b t := by
  have h1 : n * (t + 3) ≤ a * (t + 3) := Nat.mul_le_mul_right _ hn
  have h2 : w * (n * (t + 3) + 3) ≤ b * (a * (t + 3) + 3) := Nat.mul_le_mul hw (by omega)
  have h3 := costCfAll_closed n (n * (t + 3) + 2) w
  have h4 : (n + 1) ^ w ≤ (a + 1) ^ b :=
    Nat.le_trans (Nat.pow_le_pow_left (by omega) w) (Nat.pow_le_pow_right (by omega) hw)
  have h5 : (n * (t + 3) + 2 + 1) * (n + 1) ^ w ≤ (a * (t + 3) + 3) * (a + 1) ^ b := Nat.mul_le_mul (by omega) h4
  unfold costTuple costTupleB
  omega

section
variable {o : Ord} {A B : TA} {wit : Wit}

/-! ### `do { … } while (top.choiceFunction.next())` = `cfAll` -/

theorem reach_cfAll_n {t : Nat} {call1 : Call} {ws : List Pair} (H : CallOKN o A B wit t call1 ws) (K : List Frame)
    (lhs : List Nat) (r1 : List (List Nat)) (f n0 : Nat) (ra0 : List (Nat × Nat)) (W : List (List Nat))
    (hn : 0 < lhs.length) :
    ∀ (m : Nat) (cs : List Nat) (top : Frame), top.tupleSetIter = lhs :: r1 → top.cfArity = lhs.length →
      top.a = (f, n0) :: ra0 → top.W = W → top.choiceFunction = List.replicate m 0 ++ cs →
    ∀ (st : St) (v : Verdict) (cc' : List Pair) (st' : St) (r : Nat) (S : List Nat) (ra : Nat) (fnd : Verdict),
      cfAll (oneCf (cachedCall o call1) wit (fun l => normS (maxElems o l [])) f lhs W) lhs.length m cs
        top.childrenCache st = some (v, cc', st') →
      match v with
      | .holds => ∃ top' r' S' ra' fnd', K2 top top' ∧ top'.cfArity = top.cfArity ∧ top'.childrenCache = cc' ∧
          top'.choiceFunction = List.replicate m (lhs.length - 1) ++ cs ∧
          ReachN o A B wit (costCfAll lhs.length (lhs.length * (t + 3) + 2) m)
            ⟨.doChoice, top, K, ws, st, r, S, ra, fnd⟩ ⟨.nextchoice, top', K, ws, st', r', S', ra', fnd'⟩
      | .fails w => ∃ top' r' S' ra', K0 top top' ∧
          ReachN o A B wit (costCfAll lhs.length (lhs.length * (t + 3) + 2) m)
            ⟨.doChoice, top, K, ws, st, r, S, ra, fnd⟩
            ⟨.popReturn, top', K, ws, st', r', S', ra', .fails w⟩ := by
  intro m
  induction m with
  | zero =>
    intro cs top h1 h2 h3 hW hcf st v cc' st' r S ra fnd h
    subst hW
    have hcf' : cs = top.choiceFunction := by simpa using hcf.symm
    subst hcf'
    have s1 : stepM o A B wit popAll ⟨.doChoice, top, K, ws, st, r, S, ra, fnd⟩
        = .inl ⟨.forCfI, { top with i := 0, trees := [], childrenCache := top.childrenCache }, K, ws, st, r, S, ra,
            .fails (.node 0 [])⟩ := by
      simp [stepM]
    simp only [cfAll, oneCf] at h
    split at h
    · cases h
    · next ts cc1 st1 heq =>
      simp only [Option.some.injEq, Prod.mk.injEq] at h
      obtain ⟨rfl, rfl, rfl⟩ := h
      obtain ⟨i', trees', r', S', ra', hR⟩ := reach_cfI_n H K top lhs r1 f n0 ra0 h1 h2 h3 lhs 0 rfl top.childrenCache st []
        (some ts) cc1 st1 r S ra (.node 0 []) heq
      exact ⟨{ top with i := i', trees := trees', childrenCache := cc1 }, r', S', ra', ⟨rfl, rfl, rfl, rfl⟩,
        by simpa [costCfAll] using ReachN.head s1 hR⟩
    · next cc1 st1 heq =>
      simp only [Option.some.injEq, Prod.mk.injEq] at h
      obtain ⟨rfl, rfl, rfl⟩ := h
      obtain ⟨i', trees', r', S', ra', fnd', hR⟩ := reach_cfI_n H K top lhs r1 f n0 ra0 h1 h2 h3 lhs 0 rfl
        top.childrenCache st [] none cc1 st1 r S ra (.node 0 []) heq
      exact ⟨{ top with i := i', trees := trees', childrenCache := cc1 }, r', S', ra', fnd',
        ⟨⟨rfl, rfl, rfl, rfl⟩, rfl, rfl, rfl⟩, rfl, rfl, by simp, ReachN.head s1 hR⟩
  | succ m ih =>
    intro cs top h1 h2 h3 hW hcf st v cc' st' r S ra fnd h
    simp only [cfAll] at h
    rw [List.range_eq_range'] at h
    rw [rep_succ_append] at hcf
    rw [rep_succ_append]
    have claim : ∀ (k j : Nat), j + k = lhs.length → k ≠ 0 →
        ∀ (top : Frame), top.tupleSetIter = lhs :: r1 → top.cfArity = lhs.length →
          top.a = (f, n0) :: ra0 → top.W = W → top.choiceFunction = List.replicate m 0 ++ j :: cs →
        ∀ (st : St) (v : Verdict) (cc' : List Pair) (st' : St) (r : Nat) (S : List Nat) (ra : Nat) (fnd : Verdict),
          forAllL (fun i cc st => cfAll (oneCf (cachedCall o call1) wit (fun l => normS (maxElems o l [])) f lhs W)
            lhs.length m (i :: cs) cc st) (List.range' j k) top.childrenCache st = some (v, cc', st') →
          match v with
          | .holds => ∃ top' r' S' ra' fnd', K2 top top' ∧ top'.cfArity = top.cfArity ∧ top'.childrenCache = cc' ∧
              top'.choiceFunction = List.replicate m (lhs.length - 1) ++ (lhs.length - 1) :: cs ∧
              ReachN o A B wit (k * (costCfAll lhs.length (lhs.length * (t + 3) + 2) m + 1))
                ⟨.doChoice, top, K, ws, st, r, S, ra, fnd⟩
                ⟨.nextchoice, top', K, ws, st', r', S', ra', fnd'⟩
          | .fails w => ∃ top' r' S' ra', K0 top top' ∧
              ReachN o A B wit (k * (costCfAll lhs.length (lhs.length * (t + 3) + 2) m + 1))
                ⟨.doChoice, top, K, ws, st, r, S, ra, fnd⟩
                ⟨.popReturn, top', K, ws, st', r', S', ra', .fails w⟩ := by
      intro k
      induction k with
      | zero => intro j _ h0; exact absurd rfl h0
      | succ k ihk =>
        intro j hj _ top h1 h2 h3 hW hcf st v cc' st' r S ra fnd h
        have hmul : (k + 1) * (costCfAll lhs.length (lhs.length * (t + 3) + 2) m + 1)
            = k * (costCfAll lhs.length (lhs.length * (t + 3) + 2) m + 1)
              + (costCfAll lhs.length (lhs.length * (t + 3) + 2) m + 1) := by
          rw [Nat.add_mul, Nat.one_mul]
        rw [List.range'_succ] at h
        simp only [forAllL] at h
        split at h
        · cases h
        · next cc1 st1 heq =>
          obtain ⟨top1, r1', S1, ra1, fnd1, hK, hA1, hC1, hF1, hR1⟩ :=
            ih (j :: cs) top h1 h2 h3 hW hcf st .holds cc1 st1 r S ra fnd heq
          subst hC1
          cases k with
          | zero =>
            simp only [List.range'_zero, forAllL, Option.some.injEq, Prod.mk.injEq] at h
            obtain ⟨rfl, rfl, rfl⟩ := h
            have hj' : j = lhs.length - 1 := by omega
            subst hj'
            exact ⟨top1, r1', S1, ra1, fnd1, hK, hA1, rfl, hF1, hR1.mono (by omega)⟩
          | succ k =>
            have hne : j + 1 ≠ lhs.length := by omega
            have s2 : stepM o A B wit popAll ⟨.nextchoice, top1, K, ws, st1, r1', S1, ra1, fnd1⟩
                = .inl ⟨.doChoice, { top1 with choiceFunction := List.replicate m 0 ++ (j + 1) :: cs }, K, ws, st1,
                    r1', S1, ra1, fnd1⟩ := by
              simp [stepM, hA1, h2, hF1, cfNext_carry lhs.length hn j hne cs m]
            have hK' : K2 top1 { top1 with choiceFunction := List.replicate m 0 ++ (j + 1) :: cs } := K2.refl _
            have := ihk (j + 1) (by omega) (by omega)
              { top1 with choiceFunction := List.replicate m 0 ++ (j + 1) :: cs }
              (hK.2.2.1.trans h1) (hA1.trans h2) (hK.2.1.trans h3) (hK.2.2.2.trans hW) rfl st1 v cc' st' r1' S1 ra1 fnd1 h
            cases v with
            | holds =>
              obtain ⟨top2, r2, S2, ra2, fnd2, hK2, hA2, hC2, hF2, hR2⟩ := this
              exact ⟨top2, r2, S2, ra2, fnd2, hK.trans (hK'.trans hK2), hA2.trans hA1, hC2, hF2,
                (hR1.trans (ReachN.head s2 hR2)).mono (by rw [hmul]; omega)⟩
            | fails w =>
              obtain ⟨top2, r2, S2, ra2, hK2, hR2⟩ := this
              exact ⟨top2, r2, S2, ra2, hK.1.trans (hK'.1.trans hK2),
                (hR1.trans (ReachN.head s2 hR2)).mono (by rw [hmul]; omega)⟩
        · next w cc1 st1 heq =>
          simp only [Option.some.injEq, Prod.mk.injEq] at h
          obtain ⟨rfl, rfl, rfl⟩ := h
          obtain ⟨top2, r2, S2, ra2, hK2, hR2⟩ := ih (j :: cs) top h1 h2 h3 hW hcf st (.fails w) cc1 st1 r S ra fnd heq
          exact ⟨top2, r2, S2, ra2, hK2, hR2.mono (by rw [hmul]; omega)⟩
    exact claim lhs.length 0 (by omega) (by omega) top h1 h2 h3 hW hcf st v cc' st' r S ra fnd h

/-! ### one lhs tuple = `procTuple` -/

theorem reach_procTuple_n {t : Nat} {call1 : Call} {ws : List Pair} (H : CallOKN o A B wit t call1 ws) (K : List Frame)
    (lhs : List Nat) (r1 : List (List Nat)) (f n0 : Nat) (ra0 : List (Nat × Nat)) (W : List (List Nat))
    (hn : 0 < lhs.length) (hz : ∀ w, w ∈ W → lhs.zip w ≠ [])
    (top : Frame) (h1 : top.tupleSetIter = lhs :: r1) (h3 : top.a = (f, n0) :: ra0) (hW : top.W = W)
    (st : St) (v : Verdict) (cc' : List Pair) (st' : St) (r : Nat) (S : List Nat) (ra : Nat) (fnd : Verdict)
    (h : procTuple call1 (cachedCall o call1) wit (fun l => normS (maxElems o l [])) f W lhs top.childrenCache st
      = some (v, cc', st')) :
    match v with
    | .holds => ∃ top' r' S' ra' fnd', K2 top top' ∧ top'.childrenCache = cc' ∧
        ReachN o A B wit (costTuple lhs.length W.length t)
          ⟨.forTuple, top, K, ws, st, r, S, ra, fnd⟩ ⟨.nexttuple, top', K, ws, st', r', S', ra', fnd'⟩
    | .fails w => ∃ top' r' S' ra', K0 top top' ∧
        ReachN o A B wit (costTuple lhs.length W.length t)
          ⟨.forTuple, top, K, ws, st, r, S, ra, fnd⟩
          ⟨.popReturn, top', K, ws, st', r', S', ra', .fails w⟩ := by
  subst hW
  have s1 : stepM o A B wit popAll ⟨.forTuple, top, K, ws, st, r, S, ra, fnd⟩
      = .inl ⟨.forTuple2, { top with tupleSetIter2 := top.W, i := top.i }, K, ws, st, r, S, ra, fnd⟩ := by
    simp [stepM, h1]
  simp only [procTuple] at h
  split at h
  · cases h
  · next cc1 st1 heq =>
    simp only [Option.some.injEq, Prod.mk.injEq] at h
    obtain ⟨rfl, rfl, rfl⟩ := h
    obtain ⟨hcc, i', ti2', r', S', ra', fnd', hR⟩ :=
      reach_tuple2_n H K top lhs r1 h1 top.W hz top.childrenCache st true cc1 st1 top.i r S ra fnd heq
    simp only [if_true] at hR
    exact ⟨{ top with tupleSetIter2 := ti2', i := i' }, r', S', ra', fnd', K2.refl _, hcc.symm,
      (ReachN.head s1 hR).mono (by unfold costTuple; omega)⟩
  · next cc1 st1 heq =>
    obtain ⟨hcc, i', ti2', r', S', ra', fnd', hR⟩ :=
      reach_tuple2_n H K top lhs r1 h1 top.W hz top.childrenCache st false cc1 st1 top.i r S ra fnd heq
    subst hcc
    simp only [Bool.false_eq_true, if_false] at hR
    have s2 : stepM o A B wit popAll
        ⟨.choiceInit, { top with tupleSetIter2 := ti2', i := i' }, K, ws, st1, r', S', ra', fnd'⟩
        = .inl ⟨.doChoice,
            { top with tupleSetIter2 := ti2', i := i', choiceFunction := List.replicate top.W.length 0, cfArity := lhs.length },
            K, ws, st1, r', S', ra', fnd'⟩ := by
      simp [stepM, h1]
    have := reach_cfAll_n H K lhs r1 f n0 ra0 top.W hn top.W.length []
      { top with tupleSetIter2 := ti2', i := i', choiceFunction := List.replicate top.W.length 0, cfArity := lhs.length }
      h1 rfl h3 rfl (by simp) st1 v cc' st' r' S' ra' fnd' h
    cases v with
    | holds =>
      obtain ⟨top3, r3, S3, ra3, fnd3, hK3, hA3, hC3, hF3, hR3⟩ := this
      have hA3' : top3.cfArity = lhs.length := hA3
      have hF3' : top3.choiceFunction = List.replicate top.W.length (lhs.length - 1) := by simpa using hF3
      have s3 : stepM o A B wit popAll ⟨.nextchoice, top3, K, ws, st', r3, S3, ra3, fnd3⟩
          = .inl ⟨.nexttuple, { top3 with choiceFunction := List.replicate top.W.length 0 }, K, ws, st', r3, S3, ra3,
              fnd3⟩ := by
        simp [stepM, hA3', hF3', cfNext_last lhs.length hn]
      have hK0 : K2 top
          { top with tupleSetIter2 := ti2', i := i', choiceFunction := List.replicate top.W.length 0, cfArity := lhs.length } :=
        K2.refl _
      have hK4 : K2 top3 { top3 with choiceFunction := List.replicate top.W.length 0 } := K2.refl _
      exact ⟨_, r3, S3, ra3, fnd3, hK0.trans (hK3.trans hK4), hC3,
        (ReachN.head s1 (hR.trans (ReachN.head s2 (hR3.trans (ReachN.step s3))))).mono (by unfold costTuple; omega)⟩
    | fails w =>
      obtain ⟨top3, r3, S3, ra3, hK3, hR3⟩ := this
      have hK0 : K0 top
          { top with tupleSetIter2 := ti2', i := i', choiceFunction := List.replicate top.W.length 0, cfArity := lhs.length } :=
        K0.refl _
      exact ⟨top3, r3, S3, ra3, hK0.trans hK3,
        (ReachN.head s1 (hR.trans (ReachN.head s2 hR3))).mono (by unfold costTuple; omega)⟩

/-! ### the loop over the lhs tuples of a symbol -/

theorem reach_tuples_n {t : Nat} {call1 : Call} {ws : List Pair} (H : CallOKN o A B wit t call1 ws) (K : List Frame)
    (f n0 : Nat) (ra0 : List (Nat × Nat)) (W : List (List Nat)) (c : Nat) :
    ∀ (L : List (List Nat)), (∀ lhs, lhs ∈ L → 0 < lhs.length ∧ costTuple lhs.length W.length t ≤ c ∧
        ∀ w, w ∈ W → lhs.zip w ≠ []) →
    ∀ (top : Frame), top.tupleSetIter = L → top.a = (f, n0) :: ra0 → top.W = W →
    ∀ (st : St) (v : Verdict) (cc' : List Pair) (st' : St) (r : Nat) (S : List Nat) (ra : Nat) (fnd : Verdict),
      forAllL (procTuple call1 (cachedCall o call1) wit (fun l => normS (maxElems o l [])) f W) L top.childrenCache st
        = some (v, cc', st') →
      match v with
      | .holds => ∃ top' r' S' ra' fnd', K0 top top' ∧ top'.a = ra0 ∧ top'.childrenCache = cc' ∧
          ReachN o A B wit (L.length * (c + 1) + 1)
            ⟨.forTuple, top, K, ws, st, r, S, ra, fnd⟩ ⟨.forA, top', K, ws, st', r', S', ra', fnd'⟩
      | .fails w => ∃ top' r' S' ra', K0 top top' ∧
          ReachN o A B wit (L.length * (c + 1) + 1)
            ⟨.forTuple, top, K, ws, st, r, S, ra, fnd⟩
            ⟨.popReturn, top', K, ws, st', r', S', ra', .fails w⟩ := by
  intro L
  induction L with
  | nil =>
    intro _ top h1 h3 hW st v cc' st' r S ra fnd h
    simp only [forAllL, Option.some.injEq, Prod.mk.injEq] at h
    obtain ⟨rfl, rfl, rfl⟩ := h
    exact ⟨{ top with a := top.a.tail }, r, S, ra, fnd, K0.refl _, by simp [h3], rfl,
      (ReachN.step (by simp [stepM, h1])).mono (by omega)⟩
  | cons lhs L ih =>
    intro hL top h1 h3 hW st v cc' st' r S ra fnd h
    obtain ⟨hn, hc, hz⟩ := hL lhs List.mem_cons_self
    have hlen : (lhs :: L).length * (c + 1) = L.length * (c + 1) + (c + 1) := by
      rw [List.length_cons, Nat.add_mul, Nat.one_mul]
    simp only [forAllL] at h
    split at h
    · cases h
    · next cc1 st1 heq =>
      obtain ⟨top1, r1', S1, ra1, fnd1, hK1, hC1, hR1⟩ :=
        reach_procTuple_n H K lhs L f n0 ra0 W hn hz top h1 h3 hW st .holds cc1 st1 r S ra fnd heq
      subst hC1
      have s2 : stepM o A B wit popAll ⟨.nexttuple, top1, K, ws, st1, r1', S1, ra1, fnd1⟩
          = .inl ⟨.forTuple, { top1 with tupleSetIter := top1.tupleSetIter.tail }, K, ws, st1, r1', S1, ra1, fnd1⟩ := by
        simp [stepM]
      have hti : ({ top1 with tupleSetIter := top1.tupleSetIter.tail } : Frame).tupleSetIter = L := by
        simp [hK1.2.2.1, h1]
      have hK2' : K0 top1 { top1 with tupleSetIter := top1.tupleSetIter.tail } := K0.refl _
      have := ih (fun l hl => hL l (List.mem_cons_of_mem _ hl)) { top1 with tupleSetIter := top1.tupleSetIter.tail }
        hti (hK1.2.1.trans h3) (hK1.2.2.2.trans hW) st1 v cc' st' r1' S1 ra1 fnd1 h
      cases v with
      | holds =>
        obtain ⟨top2, r2, S2, ra2, fnd2, hK2, hA2, hC2, hR2⟩ := this
        exact ⟨top2, r2, S2, ra2, fnd2, hK1.1.trans (hK2'.trans hK2), hA2, hC2,
          (hR1.trans (ReachN.head s2 hR2)).mono (by rw [hlen]; omega)⟩
      | fails w =>
        obtain ⟨top2, r2, S2, ra2, hK2, hR2⟩ := this
        exact ⟨top2, r2, S2, ra2, hK1.1.trans (hK2'.trans hK2),
          (hR1.trans (ReachN.head s2 hR2)).mono (by rw [hlen]; omega)⟩
    · next w cc1 st1 heq =>
      simp only [Option.some.injEq, Prod.mk.injEq] at h
      obtain ⟨rfl, rfl, rfl⟩ := h
      obtain ⟨top2, r2, S2, ra2, hK2, hR2⟩ :=
        reach_procTuple_n H K lhs L f n0 ra0 W hn hz top h1 h3 hW st (.fails w) cc1 st1 r S ra fnd heq
      exact ⟨top2, r2, S2, ra2, hK2, hR2.mono (by rw [hlen]; omega)⟩

/-! ### the loop over the symbols = `body` -/

/-- the cost of the loop over the symbols of one frame: `g` symbols, at most `l` lhs tuples each, arities at most `a`,
at most `b` rhs tuples, `t` for a call -/
def costBody (a b l g t : Nat) : Nat := g * (l * (costTupleB a b t + 1) + 2) + 1

theorem reach_body_n {t a b l : Nat} {call1 : Call} {ws : List Pair} (H : CallOKN o A B wit t call1 ws)
    (K : List Frame) (p : Nat) (P : List Nat)
    (hb : ∀ f n, (rhsTuples B P f n).length ≤ b) (hl : ∀ f n, (lhsTuples A p f n).length ≤ l) :
    ∀ (gs : List (Nat × Nat)), (∀ g, g ∈ gs → g.2 ≤ a) →
    ∀ (top : Frame), top.a = gs → top.p_S = p → top.P_B = P →
    ∀ (st : St) (v : Verdict) (cc' : List Pair) (st' : St) (r : Nat) (S : List Nat) (ra : Nat) (fnd : Verdict),
      forAllL (fun g => procGroup call1 (cachedCall o call1) A B wit (fun l => normS (maxElems o l [])) p P g.1 g.2)
        gs top.childrenCache st = some (v, cc', st') →
      ∃ top' r' S' ra', K0 top top' ∧
        ReachN o A B wit (costBody a b l gs.length t)
          ⟨.forA, top, K, ws, st, r, S, ra, fnd⟩ ⟨.popReturn, top', K, ws, st', r', S', ra', v⟩ := by
  intro gs
  induction gs with
  | nil =>
    intro _ top ha hp hP st v cc' st' r S ra fnd h
    simp only [forAllL, Option.some.injEq, Prod.mk.injEq] at h
    obtain ⟨rfl, rfl, rfl⟩ := h
    exact ⟨top, r, S, ra, K0.refl _, (ReachN.step (by simp [stepM, ha])).mono (by unfold costBody; omega)⟩
  | cons g gs ih =>
    intro hga top ha hp hP st v cc' st' r S ra fnd h
    obtain ⟨f, n⟩ := g
    have hna : n ≤ a := hga (f, n) List.mem_cons_self
    have hga' : ∀ g, g ∈ gs → g.2 ≤ a := fun g hg => hga g (List.mem_cons_of_mem _ hg)
    have hlen : costBody a b l ((f, n) :: gs).length t
        = costBody a b l gs.length t + (l * (costTupleB a b t + 1) + 2) := by
      unfold costBody
      rw [List.length_cons, Nat.add_mul, Nat.one_mul]
      omega
    simp only [forAllL] at h
    cases hpg : procGroup call1 (cachedCall o call1) A B wit (fun l => normS (maxElems o l [])) p P f n
        top.childrenCache st with
    | none => rw [hpg] at h; cases h
    | some x =>
      obtain ⟨v1, cc1, st1⟩ := x
      rw [hpg] at h
      unfold procGroup at hpg
      by_cases hn0 : n = 0
      · by_cases hWe : (rhsTuples B P f n).isEmpty = true
        · simp only [hn0, if_true] at hpg
          rw [hn0] at hWe
          simp only [hWe, if_true, Option.some.injEq, Prod.mk.injEq] at hpg
          obtain ⟨rfl, rfl, rfl⟩ := hpg
          simp only [Option.some.injEq, Prod.mk.injEq] at h
          obtain ⟨rfl, rfl, rfl⟩ := h
          exact ⟨top, r, S, ra, K0.refl _,
            (ReachN.step (by simp [stepM, ha, hP, hn0, hWe])).mono (by rw [hlen]; omega)⟩
        · simp only [hn0, if_true] at hpg
          rw [hn0] at hWe
          simp only [hWe, if_false, Option.some.injEq, Prod.mk.injEq, Bool.false_eq_true] at hpg
          obtain ⟨rfl, rfl, rfl⟩ := hpg
          simp only at h
          have s1 : stepM o A B wit popAll ⟨.forA, top, K, ws, st, r, S, ra, fnd⟩
              = .inl ⟨.forA, { top with a := top.a.tail }, K, ws, st, r, S, ra, fnd⟩ := by
            simp [stepM, ha, hP, hn0, hWe]
          obtain ⟨top', r', S', ra', hK, hR⟩ := ih hga' { top with a := top.a.tail } (by simp [ha]) hp hP st v cc' st'
            r S ra fnd h
          exact ⟨top', r', S', ra', (K0.refl top).trans hK, (ReachN.head s1 hR).mono (by rw [hlen]; omega)⟩
      · by_cases hWe : (rhsTuples B P f n).isEmpty = true
        · simp only [hn0, if_false, hWe, if_true, Option.some.injEq, Prod.mk.injEq] at hpg
          obtain ⟨rfl, rfl, rfl⟩ := hpg
          simp only [Option.some.injEq, Prod.mk.injEq] at h
          obtain ⟨rfl, rfl, rfl⟩ := h
          exact ⟨{ top with W := rhsTuples B P f n }, r, S, ra, K0.refl _,
            (ReachN.step (by simp [stepM, ha, hP, hp, hn0, hWe])).mono (by rw [hlen]; omega)⟩
        · simp only [hn0, if_false, hWe, Bool.false_eq_true] at hpg
          have s1 : stepM o A B wit popAll ⟨.forA, top, K, ws, st, r, S, ra, fnd⟩
              = .inl ⟨.forTuple, { top with W := rhsTuples B P f n, tupleSetIter := lhsTuples A p f n }, K, ws, st,
                  r, S, ra, fnd⟩ := by
            simp [stepM, ha, hP, hp, hn0, hWe]
          have hL : ∀ lhs, lhs ∈ lhsTuples A p f n → 0 < lhs.length ∧
              costTuple lhs.length (rhsTuples B P f n).length t ≤ costTupleB a b t ∧
              ∀ w, w ∈ rhsTuples B P f n → lhs.zip w ≠ [] := by
            intro lhs hl
            have := lhsTuples_length hl
            exact ⟨by omega, costTuple_le t (by omega) (hb f n),
              fun w hw => zip_ne_nil hn0 this (rhsTuples_length hw)⟩
          have := reach_tuples_n H K f n gs (rhsTuples B P f n) (costTupleB a b t) (lhsTuples A p f n) hL
            { top with W := rhsTuples B P f n, tupleSetIter := lhsTuples A p f n } rfl ha rfl st v1 cc1 st1 r S ra fnd hpg
          have hK1 : K0 top { top with W := rhsTuples B P f n, tupleSetIter := lhsTuples A p f n } := K0.refl _
          have hll : (lhsTuples A p f n).length * (costTupleB a b t + 1) ≤ l * (costTupleB a b t + 1) :=
            Nat.mul_le_mul_right _ (hl f n)
          cases v1 with
          | holds =>
            obtain ⟨top2, r2, S2, ra2, fnd2, hK2, hA2, hC2, hR2⟩ := this
            subst hC2
            simp only at h
            obtain ⟨top', r', S', ra', hK, hR⟩ := ih hga' top2 hA2 (hK2.2.1.trans hp) (hK2.2.2.1.trans hP) st1 v cc' st'
              r2 S2 ra2 fnd2 h
            exact ⟨top', r', S', ra', hK1.trans (hK2.trans hK),
              (ReachN.head s1 (hR2.trans hR)).mono (by rw [hlen]; omega)⟩
          | fails w =>
            obtain ⟨top2, r2, S2, ra2, hK2, hR2⟩ := this
            simp only [Option.some.injEq, Prod.mk.injEq] at h
            obtain ⟨rfl, rfl, rfl⟩ := h
            exact ⟨top2, r2, S2, ra2, hK1.trans hK2, (ReachN.head s1 hR2).mono (by rw [hlen]; omega)⟩

end
end InclDownStack
end Vata
