import Vata.Lang
import Vata.Proofs.Compl
/-!
# Complement over an alphabet that grew (stale symbol index) – proofs for `Vata/Properties/C06_Stale.lean`

`ExplicitDownwardComplementation::Compute` iterates `for (auto symbolIndexPair : symbolMap)` over the symbol / rank index
of the alphabet.  The model `Compl.complTD A Sg fuel` takes this index as the parameter `Sg`.  A (seeded) variant of the
code keeps the index in a function-static map keyed by the alphabet OBJECT and never refreshes it; `symIndexCached` below
is that lookup.  The lemmas compare `complTD A Sg` with `complTD A Sg'` for `Sg ⊆ Sg'`.

Small spec-level definitions used only here (`usesSym`, `symIndexCached`, `complCached`) are kept in this file.
-/
namespace Vata
namespace Compl

/-! ### trees over a smaller / larger alphabet -/

mutual
theorem overSig_mono {Sg Sg' : List (Nat × Nat)} (hs : ∀ fa, fa ∈ Sg → fa ∈ Sg') :
    ∀ t : Tree, overSig Sg t = true → overSig Sg' t = true
  | .node f ts => by
    simp only [overSig, Bool.and_eq_true, List.contains_iff_mem]
    intro h
    exact ⟨hs _ h.1, overSigL_mono hs ts h.2⟩
theorem overSigL_mono {Sg Sg' : List (Nat × Nat)} (hs : ∀ fa, fa ∈ Sg → fa ∈ Sg') :
    ∀ ts : List Tree, overSigL Sg ts = true → overSigL Sg' ts = true
  | [] => by simp [overSigL]
  | t :: ts => by
    simp only [overSigL, Bool.and_eq_true]
    intro h
    exact ⟨overSig_mono hs t h.1, overSigL_mono hs ts h.2⟩
end

mutual
/-- some node of the tree carries the symbol `fa.1` with `fa.2` children -/
def usesSym (fa : Nat × Nat) : Tree → Bool
  | .node f ts => (f, lenT ts) == fa || usesSymL fa ts
def usesSymL (fa : Nat × Nat) : List Tree → Bool
  | [] => false
  | t :: ts => usesSym fa t || usesSymL fa ts
end

mutual
theorem overSig_false_of_usesSym {Sg : List (Nat × Nat)} {fa : Nat × Nat} (hfa : fa ∉ Sg) :
    ∀ t : Tree, usesSym fa t = true → overSig Sg t = false
  | .node f ts => by
    simp only [usesSym, overSig, Bool.or_eq_true, beq_iff_eq, Bool.and_eq_false_iff]
    rintro (h | h)
    · left
      rw [h]
      cases hc : Sg.contains fa with
      | false => rfl
      | true => exact absurd (List.contains_iff_mem.mp hc) hfa
    · exact Or.inr (overSigL_false_of_usesSymL hfa ts h)
theorem overSigL_false_of_usesSymL {Sg : List (Nat × Nat)} {fa : Nat × Nat} (hfa : fa ∉ Sg) :
    ∀ ts : List Tree, usesSymL fa ts = true → overSigL Sg ts = false
  | [] => by simp [usesSymL]
  | t :: ts => by
    simp only [usesSymL, overSigL, Bool.or_eq_true, Bool.and_eq_false_iff]
    rintro (h | h)
    · exact Or.inl (overSig_false_of_usesSym hfa t h)
    · exact Or.inr (overSigL_false_of_usesSymL hfa ts h)
end

mutual
/-- conversely: a tree that is not over `Sg` uses a ranked symbol that is not in `Sg` -/
theorem exists_usesSym_of_overSig_false {Sg : List (Nat × Nat)} :
    ∀ t : Tree, overSig Sg t = false → ∃ fa, fa ∉ Sg ∧ usesSym fa t = true
  | .node f ts => by
    simp only [overSig, Bool.and_eq_false_iff]
    rintro (h | h)
    · refine ⟨(f, lenT ts), ?_, ?_⟩
      · intro hm
        rw [List.contains_iff_mem.mpr hm] at h
        cases h
      · simp [usesSym]
    · obtain ⟨fa, h1, h2⟩ := exists_usesSymL_of_overSigL_false ts h
      exact ⟨fa, h1, by simp [usesSym, h2]⟩
theorem exists_usesSymL_of_overSigL_false {Sg : List (Nat × Nat)} :
    ∀ ts : List Tree, overSigL Sg ts = false → ∃ fa, fa ∉ Sg ∧ usesSymL fa ts = true
  | [] => by simp [overSigL]
  | t :: ts => by
    simp only [overSigL, Bool.and_eq_false_iff]
    rintro (h | h)
    · obtain ⟨fa, h1, h2⟩ := exists_usesSym_of_overSig_false t h
      exact ⟨fa, h1, by simp [usesSymL, h2]⟩
    · obtain ⟨fa, h1, h2⟩ := exists_usesSymL_of_overSigL_false ts h
      exact ⟨fa, h1, by simp [usesSymL, h2]⟩
end

/-! ### the two complements -/

/-- "`C` is the complement of `A` over `Sg`" (the specification of C06) -/
def IsComplOver (C A : TA) (Sg : List (Nat × Nat)) : Prop :=
  ∀ t, (overSig Sg t = true → accepts C t = !accepts A t) ∧ (overSig Sg t = false → accepts C t = false)

theorem complTD_isComplOver {A : TA} {Sg : List (Nat × Nat)} {fuel : Nat} {C : TA}
    (h : complTD A Sg fuel = some C) : IsComplOver C A Sg := complTD_spec h

/-- on the trees over the smaller alphabet the complements over `Sg` and over `Sg' ⊇ Sg` agree -/
theorem complTD_agree_on_smaller {A : TA} {Sg Sg' : List (Nat × Nat)} {f₁ f₂ : Nat} {C C' : TA}
    (hs : ∀ fa, fa ∈ Sg → fa ∈ Sg') (h : complTD A Sg f₁ = some C) (h' : complTD A Sg' f₂ = some C')
    (t : Tree) (ht : overSig Sg t = true) : accepts C t = accepts C' t := by
  rw [(complTD_spec h t).1 ht, (complTD_spec h' t).1 (overSig_mono hs t ht)]

/-- a tree using a ranked symbol that is not in `Sg` is rejected by the complement over `Sg` -/
theorem complTD_rejects_new {A : TA} {Sg : List (Nat × Nat)} {fuel : Nat} {C : TA} (h : complTD A Sg fuel = some C)
    {fa : Nat × Nat} (hfa : fa ∉ Sg) (t : Tree) (hu : usesSym fa t = true) : accepts C t = false :=
  (complTD_spec h t).2 (overSig_false_of_usesSym hfa t hu)

/-- exact characterisation: the complement computed over `Sg ⊆ Sg'` is a complement over `Sg'` iff `A` accepts every tree
over `Sg'` that is not over `Sg` -/
theorem complTD_smaller_isComplOver_iff {A : TA} {Sg Sg' : List (Nat × Nat)} {fuel : Nat} {C : TA}
    (hs : ∀ fa, fa ∈ Sg → fa ∈ Sg') (h : complTD A Sg fuel = some C) :
    IsComplOver C A Sg' ↔ ∀ t, overSig Sg' t = true → overSig Sg t = false → accepts A t = true := by
  constructor
  · intro hc t h1 h2
    have e1 := (hc t).1 h1
    rw [(complTD_spec h t).2 h2] at e1
    cases hA : accepts A t with
    | true => rfl
    | false => rw [hA] at e1; cases e1
  · intro hall t
    refine ⟨fun h1 => ?_, fun h1 => ?_⟩
    · cases h2 : overSig Sg t with
      | true => exact (complTD_spec h t).1 h2
      | false => rw [(complTD_spec h t).2 h2, hall t h1 h2]; rfl
    · cases h2 : overSig Sg t with
      | true => rw [overSig_mono hs t h2] at h1; cases h1
      | false => exact (complTD_spec h t).2 h2

/-! ### the stale index: a function-static map keyed by the alphabet object -/

/-- the seeded lookup `static std::unordered_map<const Alphabet*, SymbolMap> cache; auto it = cache.find(alphabet);
if (it == cache.end()) it = cache.insert({alphabet, alphabet->GetSymbolDict()}).first; symbolMap = it->second;`:
the index used by the call and the new content of the static map.  `id` stands for the address of the alphabet object,
`SgNow` for its content at the time of the call. -/
def symIndexCached (cache : List (Nat × List (Nat × Nat))) (id : Nat) (SgNow : List (Nat × Nat)) :
    List (Nat × List (Nat × Nat)) × List (Nat × Nat) :=
  match cache.lookup id with
  | some Sg => (cache, Sg)
  | none => ((id, SgNow) :: cache, SgNow)

/-- `Complement` with the seeded static index: the new static map and the result -/
def complCached (cache : List (Nat × List (Nat × Nat))) (id : Nat) (A : TA) (SgNow : List (Nat × Nat)) (fuel : Nat) :
    List (Nat × List (Nat × Nat)) × Option TA :=
  let r := symIndexCached cache id SgNow
  (r.1, complTD A r.2 fuel)

/-- the first call on an alphabet object uses (and stores) the current content -/
theorem complCached_first (id : Nat) (A : TA) (Sg : List (Nat × Nat)) (fuel : Nat) :
    complCached [] id A Sg fuel = ([(id, Sg)], complTD A Sg fuel) := by
  simp [complCached, symIndexCached, List.lookup]

/-- every later call on the same object uses the content of the FIRST call, whatever the alphabet holds now -/
theorem complCached_second (id : Nat) (A B : TA) (Sg Sg' : List (Nat × Nat)) (f₁ f₂ : Nat) :
    complCached (complCached [] id A Sg f₁).1 id B Sg' f₂ = ([(id, Sg)], complTD B Sg f₂) := by
  simp [complCached, symIndexCached, List.lookup]

end Compl
end Vata
