import Vata.Proofs.UnionIsectMapsTD
import Vata.Proofs.Rename
/-!
# Property C02 – `isectTDFrom`: the fuel `isectFromFuel` suffices for EVERY entry map; soundness for every `MapOk` entry map;
the examples and counterexamples for pre-filled maps

* `isectTDFrom_total`     measure `|stack| + #(pairs of states not yet in the map)`: a pop removes one stack entry and every
                          push belongs to a pair that enters the map at that moment.  No hypothesis on the entry map.
* `isectTDFrom_sound`     with `MapOk m0` the result accepts only trees of `L(A) ∩ L(B)` (the language can only be too SMALL):
                          its rules are rules of the product on ALL pairs of states under an injective numbering that
                          extends the reported map.
* `IsectFromEx`           `decide`d examples: the unexplored pre-filled pair (language too small), the numbers that are not
                          below the size (collision, language too large), the re-use of the map of a previous call.
-/
namespace Vata
namespace Ixf
open Isx

/-! ### totality -/

/-- the pairs of states that are not yet in the map -/
def cnt (A B : TA) (m : PMap) : Nat := (allPairs2 A.states B.states).countP (fun p => !m.dom.contains p)

theorem cnt_snoc {A B : TA} {m : PMap} {p : Nat × Nat} (hU : p ∈ allPairs2 A.states B.states) (hp : p ∉ m.dom) (v : Nat) :
    cnt A B (m ++ [(p, v)]) + 1 ≤ cnt A B m := by
  apply countP_lt_of_new
  · intro x _ hx
    simp only [Bool.not_eq_true', ← Bool.not_eq_true, List.contains_iff_mem] at hx ⊢
    exact fun h => hx (dom_snoc.mpr (Or.inl h))
  · refine ⟨p, hU, ?_, ?_⟩
    · simp only [Bool.not_eq_true', ← Bool.not_eq_true, List.contains_iff_mem]
      exact hp
    · intro hc
      simp only [Bool.not_eq_true', ← Bool.not_eq_true, List.contains_iff_mem] at hc
      exact hc (dom_snoc.mpr (Or.inr rfl))

theorem addPairs_measure {A B : TA} : ∀ (ps : List (Nat × Nat)) (m : PMap) (st : List (Nat × Nat)),
    (∀ p, p ∈ ps → p ∈ allPairs2 A.states B.states) →
    (addPairs ps m st).2.1.length + cnt A B (addPairs ps m st).1 ≤ st.length + cnt A B m
  | [], m, st, _ => by simp only [addPairs]; exact Nat.le_refl _
  | q :: ps, m, st, hU => by
    cases hl : m.lookup q with
    | some n =>
      simp only [addPairs, hl]
      exact addPairs_measure ps m st (fun x hx => hU x (List.mem_cons_of_mem _ hx))
    | none =>
      simp only [addPairs, hl]
      have h1 := addPairs_measure (A := A) (B := B) ps (m ++ [(q, m.length)]) (q :: st)
        (fun x hx => hU x (List.mem_cons_of_mem _ hx))
      have h2 := cnt_snoc (A := A) (B := B) (hU q List.mem_cons_self) (lookup_none_iff.mp hl) m.length
      simp only [List.length_cons] at h1
      omega

theorem isectProc_measure {A B : TA} {n : Nat} : ∀ (L : List (Rule × Rule)) (m : PMap) (st : List (Nat × Nat))
    (rs : List Rule), (∀ rr, rr ∈ L → ∀ x, x ∈ rr.1.kids.zip rr.2.kids → x ∈ allPairs2 A.states B.states) →
    (isectProc n L m st rs).2.1.length + cnt A B (isectProc n L m st rs).1 ≤ st.length + cnt A B m
  | [], m, st, rs, _ => by simp only [isectProc]; exact Nat.le_refl _
  | rr :: rest, m, st, rs, hU => by
    simp only [isectProc]
    have h1 := addPairs_measure (A := A) (B := B) (rr.1.kids.zip rr.2.kids) m st (hU rr List.mem_cons_self)
    have h2 := isectProc_measure (A := A) (B := B) (n := n) rest (addPairs (rr.1.kids.zip rr.2.kids) m st).1
      (addPairs (rr.1.kids.zip rr.2.kids) m st).2.1
      (rs ++ [⟨rr.1.sym, (addPairs (rr.1.kids.zip rr.2.kids) m st).2.2, n⟩]) (fun x hx => hU x (List.mem_cons_of_mem _ hx))
    omega

theorem loop_total {A B : TA} : ∀ (n : Nat) (m : PMap) (st : List (Nat × Nat)) (rs : List Rule),
    st.length + cnt A B m ≤ n → (isectLoop A B n m st rs).isSome = true
  | 0, m, [], rs, _ => by simp [isectLoop]
  | 0, m, _ :: _, rs, h => by simp only [List.length_cons] at h; omega
  | n+1, m, [], rs, _ => by simp [isectLoop]
  | n+1, m, pr :: st, rs, h => by
    simp only [isectLoop]
    apply loop_total n
    have h1 := isectProc_measure (A := A) (B := B) (n := lookupF m pr) (isectMatching A B pr) m st rs matching_zip_states
    simp only [List.length_cons] at h
    omega

theorem initPairs_length : ∀ (ps : List (Nat × Nat)) (m : PMap) (st : List (Nat × Nat)),
    (initPairs ps m st).2.1.length = st.length + ps.length
  | [], m, st => by simp [initPairs]
  | q :: ps, m, st => by
    cases hl : m.lookup q with
    | some n => simp only [initPairs, hl, initPairs_length ps m (q :: st), List.length_cons]; omega
    | none => simp only [initPairs, hl, initPairs_length ps _ (q :: st), List.length_cons]; omega

theorem cnt_le (A B : TA) (m : PMap) : cnt A B m ≤ A.states.length * B.states.length := by
  unfold cnt
  rw [← length_allPairs2]
  exact List.countP_le_length

end Ixf

/-- **totality**: with the fuel `isectFromFuel` (or more) the model returns a result, whatever the entry map -/
theorem isectTDFrom_total (A B : TA) (m0 : PMap) (fuel : Nat) (hf : isectFromFuel A B ≤ fuel) :
    (isectTDFrom A B m0 fuel).isSome = true := by
  have h1 := Ixf.initPairs_length (finalPairs A B) m0 []
  have h2 := Ixf.cnt_le A B (initPairs (finalPairs A B) m0 []).1
  have ht := Ixf.loop_total (A := A) (B := B) fuel (initPairs (finalPairs A B) m0 []).1 (initPairs (finalPairs A B) m0 []).2.1 []
    (by unfold isectFromFuel at hf; simp only [List.length_nil] at h1; omega)
  unfold isectTDFrom
  cases hl : isectLoop A B fuel (initPairs (finalPairs A B) m0 []).1 (initPairs (finalPairs A B) m0 []).2.1 [] with
  | none => rw [hl] at ht; simp at ht
  | some res =>
    obtain ⟨m1, rs⟩ := res
    simp only [hl]
    rfl

/-! ### soundness for every `MapOk` entry map -/
namespace Ixf
open Isx

/-- an injective numbering of ALL pairs of states that extends the map -/
def extNum (B : TA) (m : PMap) (p : Nat × Nat) : Nat :=
  if p ∈ m.dom then lookupF m p else m.length + pairNum (stateBound B) p

theorem extNum_inj {A B : TA} {m : PMap} (hok : MapOk m) : InjOn (extNum B m) (allPairs2 A.states B.states) := by
  intro x hx y hy he
  have hlt : ∀ p, p ∈ m.dom → lookupF m p < m.length := by
    intro p hp
    obtain ⟨n, hn⟩ := mem_dom_iff.mp hp
    simp only [lookupF, hn, Option.getD_some]
    exact hok.1 p n hn
  unfold extNum at he
  by_cases h1 : x ∈ m.dom <;> by_cases h2 : y ∈ m.dom
  · rw [if_pos h1, if_pos h2] at he; exact hok.injOn x h1 y h2 he
  · rw [if_pos h1, if_neg h2] at he; have := hlt x h1; omega
  · rw [if_neg h1, if_pos h2] at he; have := hlt y h2; omega
  · rw [if_neg h1, if_neg h2] at he
    obtain ⟨_, hx2⟩ := mem_allPairs2.mp hx
    obtain ⟨_, hy2⟩ := mem_allPairs2.mp hy
    obtain ⟨e1, e2⟩ := pairNum_inj (lt_stateBound hx2) (lt_stateBound hy2) (Nat.add_left_cancel he)
    exact Prod.ext e1 e2

end Ixf

open Isx in
/-- **soundness without a condition on WHICH pairs are pre-filled**: if the entry map is `MapOk`, every tree the result
accepts is in both languages -/
theorem isectTDFrom_sound {A B : TA} {m0 : PMap} {fuel : Nat} {P : TA} {m : PMap} (hok : Isx.MapOk m0)
    (h : isectTDFrom A B m0 fuel = some (P, m)) (t : Tree) (ht : accepts P t = true) :
    accepts A t = true ∧ accepts B t = true := by
  obtain ⟨hmok, _, hF, hr, hf, hk⟩ := isectTDFrom_spec hok h
  have hU : ∀ r, r ∈ A.rules → ∀ r', r' ∈ B.rules → ∀ pr, pr ∈ r.kids.zip r'.kids → pr ∈ allPairs2 A.states B.states := by
    intro r hr r' hr' pr hpr
    obtain ⟨k, k'⟩ := pr
    obtain ⟨h1, h2⟩ := List.of_mem_zip hpr
    exact mem_allPairs2.mpr ⟨kid_mem_states hr h1, kid_mem_states hr' h2⟩
  apply (isect_cert A B (allPairs2 A.states B.states) (Ixf.extNum B m) ?_ (Ixf.extNum_inj hmok) ?_ t).mp
  · refine accepts_sub ?_ ?_ t ht
    · intro ρ hρ
      obtain ⟨r, h1, r', h2, h3, h4, h5, h7⟩ := mem_prodRules.mp ((hr ρ).mp hρ)
      refine mem_prodRules.mpr ⟨r, h1, r', h2, h3, h4,
        mem_allPairs2.mpr ⟨Rn.parent_mem_states h1, Rn.parent_mem_states h2⟩, ?_⟩
      rw [h7]
      have hpd : (r.parent, r'.parent) ∈ m.dom := (Ixf.mem_exploredPairs.mp h5).1
      congr 1
      · apply List.map_congr_left
        intro x hx
        simp only [Ixf.extNum, if_pos (hk r h1 r' h2 h3 h4 h5 x hx)]
      · simp only [Ixf.extNum, if_pos hpd]
    · intro x hx
      obtain ⟨pr, hpr, rfl⟩ := List.mem_map.mp (mem_prodFinal.mp ((hf x).mp hx))
      obtain ⟨g1, g2⟩ := mem_finalPairs.mp hpr
      have : lookupF m pr = Ixf.extNum B m pr := by simp only [Ixf.extNum, if_pos (hF _ g1 _ g2)]
      rw [this]
      exact mem_prodFinal.mpr (List.mem_map.mpr ⟨pr, hpr, rfl⟩)
  · intro r hr r' hr' _ _ _ pr hpr
    exact hU r hr r' hr' pr hpr
  · intro p hp p' hp'
    exact mem_allPairs2.mpr ⟨mem_states.mpr (Or.inl hp), mem_states.mpr (Or.inl hp')⟩

/-! ### examples and counterexamples -/
namespace IsectFromEx

/-- `a → 0`, `h(0) → 1`, final `1`: the language is `{h(a)}` -/
def exA : TA := ⟨[⟨0, [], 0⟩, ⟨2, [0], 1⟩], [1]⟩
def tA : Tree := .node 0 []
def tHA : Tree := .node 2 [.node 0 []]
def tHHA : Tree := .node 2 [.node 2 [.node 0 []]]

def obs (r : Option (TA × PMap)) : Option (List Rule × List Nat × PMap) := r.map (fun r => (r.1.rules, r.1.final, r.2))

-- the empty map: the pair of final states gets `0`, its child pair `1`
example : obs (isectTDFrom exA exA [] 6) = some ([⟨2, [1], 0⟩, ⟨0, [], 1⟩], [0], [((1, 1), 0), ((0, 0), 1)]) := by decide
-- a harmless pre-filled map (a pair that is no pair of states of the operands): fresh numbers start at the SIZE `1`
example : obs (isectTDFrom exA exA [((8, 9), 0)] 6) =
    some ([⟨2, [2], 1⟩, ⟨0, [], 2⟩], [1], [((8, 9), 0), ((1, 1), 1), ((0, 0), 2)]) := by decide
example : pmapOkB [((8, 9), 0)] = true ∧ prefillOkB exA exA [((8, 9), 0)] = true := by decide
-- a pre-filled pair of final states is explored
example : obs (isectTDFrom exA exA [((1, 1), 0)] 6) = some ([⟨2, [1], 0⟩, ⟨0, [], 1⟩], [0], [((1, 1), 0), ((0, 0), 1)]) := by
  decide
example : pmapOkB [((1, 1), 0)] = true ∧ prefillOkB exA exA [((1, 1), 0)] = true := by decide
-- the fuel bound
example : isectFromFuel exA exA = 5 ∧ (isectTDFrom exA exA [] 1).isNone = true := by decide
-- the checks are not vacuous
example : pmapOkB [((1, 1), 1)] = false ∧ pmapOkB [((1, 1), 0), ((0, 0), 0)] = false ∧
    prefillOkB exA exA [((0, 0), 0)] = false := by decide

/-- **a pre-filled pair that is not a pair of final states is never explored: the language is too small.**
`Intersection(A, A, &m)` with `A = {h(a)}` and `m = {(0,0) ↦ 0}` on entry (a `MapOk` map): the child pair `(0,0)` of the
rule `h(0,0) → (1,1)` is found in the map, is not pushed, and the leaf rule `a → (0,0)` is never written.  The result has
the single rule `h(0) → 1` and accepts nothing, although `h(a)` is in the intersection -/
theorem unexplored_counterexample :
    pmapOkB [((0, 0), 0)] = true ∧
    obs (isectTDFrom exA exA [((0, 0), 0)] 6) = some ([⟨2, [0], 1⟩], [1], [((0, 0), 0), ((1, 1), 1)]) ∧
    (isectTDFrom exA exA [((0, 0), 0)] 6).map (fun r => accepts r.1 tHA) = some false ∧ accepts exA tHA = true :=
  ⟨by decide, by decide, by decide, by decide⟩

/-- **re-using the map of a previous call is such a case.**  The map `m₁` that `Intersection(A, A, &m)` fills from the
empty map is `MapOk`; a second `Intersection(A, A, &m)` with the same map object explores the pair of final states only
and returns an automaton with the empty language -/
theorem reuse_counterexample :
    obs (isectTDFrom exA exA [] 6) = some ([⟨2, [1], 0⟩, ⟨0, [], 1⟩], [0], [((1, 1), 0), ((0, 0), 1)]) ∧
    pmapOkB [((1, 1), 0), ((0, 0), 1)] = true ∧
    obs (isectTDFrom exA exA [((1, 1), 0), ((0, 0), 1)] 6) = some ([⟨2, [1], 0⟩], [0], [((1, 1), 0), ((0, 0), 1)]) ∧
    (isectTDFrom exA exA [((1, 1), 0), ((0, 0), 1)] 6).map (fun r => accepts r.1 tHA) = some false ∧
    accepts exA tHA = true := ⟨by decide, by decide, by decide, by decide, by decide⟩

/-- **numbers that are not below the size collide with fresh numbers: the language is too large.**
`m = {(1,1) ↦ 1}` on entry (size 1): the child pair `(0,0)` gets the fresh number `size() = 1`, the number of `(1,1)`.
The result `h(1) → 1`, `a → 1`, final `1` accepts `a` and `h(h(a))`, which are not in `L(A)` -/
theorem collision_counterexample :
    prefillOkB exA exA [((1, 1), 1)] = true ∧ pmapOkB [((1, 1), 1)] = false ∧
    obs (isectTDFrom exA exA [((1, 1), 1)] 6) = some ([⟨2, [1], 1⟩, ⟨0, [], 1⟩], [1], [((1, 1), 1), ((0, 0), 1)]) ∧
    (isectTDFrom exA exA [((1, 1), 1)] 6).map (fun r => (accepts r.1 tA, accepts r.1 tHHA)) = some (true, true) ∧
    accepts exA tA = false ∧ accepts exA tHHA = false := ⟨by decide, by decide, by decide, by decide, by decide, by decide⟩

/-- the theorems apply to the harmless pre-filled maps above -/
example : ∃ P m, isectTDFrom exA exA [((8, 9), 0)] 6 = some (P, m) ∧ ∀ t, accepts P t = (accepts exA t && accepts exA t) := by
  cases h : isectTDFrom exA exA [((8, 9), 0)] 6 with
  | none => exact absurd h (by decide)
  | some r =>
    exact ⟨r.1, r.2, rfl, isectTDFrom_lang (pmapOkB_sound (by decide)) (prefillOkB_sound (by decide)) h⟩

end IsectFromEx

end Vata
