import Vata.LtsEngineCalls2
import Vata.Proofs.LtsUtilLayout
import Vata.Proofs.LtsEngineInit
/-! # The key layout `scCfg L poison` of the engine: the facts the `SharedCounter` discipline proof needs -/
namespace Vata.LEC2
open Vata.L Vata.LE Vata.LU

/-- `key_[a * states + q]` -/
def kx (cfg : SC.Cfg) (a q : Nat) : Nat := cfg.key.getD (a * cfg.states + q) 0
/-- `labelMap_[a]` -/
def lm (cfg : SC.Cfg) (a : Nat) : Nat × Nat := cfg.labelMap.getD a (0, 0)

structure CfgOK (L : LTS) (cfg : SC.Cfg) : Prop where
  rs : 0 < cfg.rowSize
  lmlen : cfg.labelMap.length = labels L
  key : ∀ a q, a < labels L → q < L.n → SC.keyIdx cfg a q = some (kx cfg a q)
  inj : ∀ a q a' q', a < labels L → a' < labels L → q ∈ delta1 L a → q' ∈ delta1 L a' →
    kx cfg a q = kx cfg a' q' → a = a' ∧ q = q'
  rng : ∀ a q, a < labels L → q ∈ delta1 L a →
    (lm cfg a).1 ≤ kx cfg a q / cfg.rowSize ∧ kx cfg a q / cfg.rowSize < (lm cfg a).2

/-! ### helpers -/

theorem getRowSize_go_ge (t : Nat) : ∀ (fuel r : Nat), r ≤ SC.getRowSize.go t fuel r := by
  intro fuel
  induction fuel with
  | zero => intro r; exact Nat.le_refl _
  | succ f ih =>
    intro r
    simp only [SC.getRowSize.go]
    split
    · exact Nat.le_trans (by omega) (ih (r * 2))
    · exact Nat.le_refl _

theorem getRowSize_pos (n : Nat) : 0 < SC.getRowSize n := by
  have := getRowSize_go_ge (Nat.sqrt n / 2) 64 32
  unfold SC.getRowSize
  simp only
  omega

/-- the list of the sets `delta1[a]` -/
def dsOf (L : LTS) : List (List Nat) := (List.range (labels L)).map (delta1 L)

theorem dsOf_length (L : LTS) : (dsOf L).length = labels L := by simp [dsOf]

theorem dsOf_getD (L : LTS) {a : Nat} (ha : a < labels L) : (dsOf L).getD a [] = delta1 L a := by
  simp [dsOf, List.getD_eq_getElem?_getD, ha]

theorem dsOf_hd (L : LTS) : ∀ d ∈ dsOf L, d.Nodup ∧ ∀ q ∈ d, q < L.n := by
  intro d hd
  simp only [dsOf, List.mem_map] at hd
  obtain ⟨a, _, rfl⟩ := hd
  refine ⟨nodup_delta1 L a, fun q hq => ?_⟩
  simp only [delta1, List.mem_filter, List.mem_range] at hq
  exact hq.1

theorem delta1_length_le (L : LTS) (a : Nat) : (delta1 L a).length ≤ L.n := by
  unfold delta1
  have := List.length_filter_le (hasOut L a) (List.range L.n)
  simpa using this

/-- `off` is monotone, strictly past the whole set of the smaller label -/
theorem off_mono_strict (ds : List (List Nat)) {a : Nat} :
    ∀ (a' : Nat), a < a' → a' ≤ ds.length → SC.Layout.off ds a + (ds.getD a []).length ≤ SC.Layout.off ds a' := by
  intro a'
  induction a' with
  | zero => intro h; cases h
  | succ b ih =>
    intro hab hb
    have hb' : b < ds.length := by omega
    rw [SC.Layout.off_succ ds b hb']
    rcases Nat.lt_succ_iff_lt_or_eq.1 hab with h | h
    · have := ih h (by omega); omega
    · subst h; exact Nat.le_refl _

theorem off_le_mul (ds : List (List Nat)) (n : Nat) (hlen : ∀ d ∈ ds, d.length ≤ n) :
    ∀ a, a ≤ ds.length → SC.Layout.off ds a ≤ a * n := by
  intro a
  induction a with
  | zero => intro _; simp [SC.Layout.off]
  | succ b ih =>
    intro hb
    have hb' : b < ds.length := by omega
    rw [SC.Layout.off_succ ds b hb', Nat.add_mul, Nat.one_mul]
    have h1 := ih (by omega)
    have hm : ds.getD b [] ∈ ds := by
      simp [List.getD_eq_getElem?_getD, List.getElem?_eq_getElem hb']
    have h2 := hlen _ hm
    omega

theorem getD_idxOf {l : List Nat} {q : Nat} (h : q ∈ l) : l.getD (l.idxOf q) 0 = q := by
  have hlt : l.idxOf q < l.length := List.idxOf_lt_length_of_mem h
  rw [List.getD_eq_getElem?_getD, List.getElem?_eq_getElem hlt]
  simp

/-- the key of `q ∈ delta1 L a` -/
theorem kx_scCfg (L : LTS) (poison : Nat) {a q : Nat} (ha : a < labels L) (hq : q ∈ delta1 L a) :
    kx (scCfg L poison) a q = SC.Layout.off (dsOf L) a + (delta1 L a).idxOf q := by
  have hlt : (delta1 L a).idxOf q < ((dsOf L).getD a []).length := by
    rw [dsOf_getD L ha]; exact List.idxOf_lt_length_of_mem hq
  have := SC.Layout.layout_key (rowSize := SC.getRowSize L.n) (dsOf_hd L) (a := a) (j := (delta1 L a).idxOf q)
    (by rw [dsOf_length]; exact ha) hlt
  rw [dsOf_getD L ha, getD_idxOf hq] at this
  exact this

theorem off_small (L : LTS) {a : Nat} (ha : a < labels L) :
    SC.Layout.off (dsOf L) a + (delta1 L a).length ≤ labels L * L.n := by
  have h := off_le_mul (dsOf L) L.n (fun d hd => by
    simp only [dsOf, List.mem_map] at hd
    obtain ⟨b, _, rfl⟩ := hd
    exact delta1_length_le L b) (a + 1) (by rw [dsOf_length]; omega)
  rw [SC.Layout.off_succ _ _ (by rw [dsOf_length]; exact ha), dsOf_getD L ha] at h
  have : (a + 1) * L.n ≤ labels L * L.n := Nat.mul_le_mul_right _ ha
  omega

theorem scCfg_ok (L : LTS) (poison : Nat) (hsmall : labels L * L.n < 2 ^ 64) : CfgOK L (scCfg L poison) := by
  refine ⟨getRowSize_pos L.n, ?_, ?_, ?_, ?_⟩
  · show (SC.mkLayout (SC.getRowSize L.n) L.n (dsOf L)).2.length = labels L
    rw [SC.Layout.layout_labelMap_length (dsOf_hd L), dsOf_length]
  · intro a q ha hq
    have hlen : (scCfg L poison).key.length = labels L * L.n := by
      show (SC.mkLayout (SC.getRowSize L.n) L.n (dsOf L)).1.length = labels L * L.n
      rw [SC.Layout.layout_key_length _ _ (dsOf_hd L), dsOf_length]
    have hst : (scCfg L poison).states = L.n := rfl
    have hb : a * (scCfg L poison).states + q < (scCfg L poison).key.length := by
      rw [hlen, hst]; exact SC.Layout.mul_add_lt ha hq
    have hrs : 0 < (scCfg L poison).rowSize := getRowSize_pos L.n
    unfold SC.keyIdx
    rw [if_pos ⟨hb, hrs⟩]
    rfl
  · intro a q a' q' ha ha' hq hq' hk
    rw [kx_scCfg L poison ha hq, kx_scCfg L poison ha' hq'] at hk
    have hj : (delta1 L a).idxOf q < (delta1 L a).length := List.idxOf_lt_length_of_mem hq
    have hj' : (delta1 L a').idxOf q' < (delta1 L a').length := List.idxOf_lt_length_of_mem hq'
    have haa : a = a' := by
      rcases Nat.lt_trichotomy a a' with h | h | h
      · have := off_mono_strict (dsOf L) a' h (by rw [dsOf_length]; omega)
        rw [dsOf_getD L ha] at this
        omega
      · exact h
      · have := off_mono_strict (dsOf L) a h (by rw [dsOf_length]; omega)
        rw [dsOf_getD L ha'] at this
        omega
    subst haa
    refine ⟨rfl, ?_⟩
    have hjj : (delta1 L a).idxOf q = (delta1 L a).idxOf q' := by omega
    rw [← getD_idxOf hq, ← getD_idxOf hq', hjj]
  · intro a q ha hq
    rw [kx_scCfg L poison ha hq]
    have hlt : (delta1 L a).idxOf q < ((dsOf L).getD a []).length := by
      rw [dsOf_getD L ha]; exact List.idxOf_lt_length_of_mem hq
    have hs : SC.Layout.off (dsOf L) a + ((dsOf L).getD a []).length < 2 ^ 64 := by
      rw [dsOf_getD L ha]
      have := off_small L ha
      omega
    exact SC.Layout.layout_row_in_range (rowSize := SC.getRowSize L.n) (dsOf_hd L)
      (by rw [dsOf_length]; exact ha) hlt hs

end Vata.LEC2
