import Vata.Proofs.UnionStoreCodedInv
import Vata.Proofs.IsectModel
/-!
# `UnionDisjointStates` and `Intersection` on the rule store – proofs
-/
namespace Vata.UnionStoreCoded
open Vata.Store Vata.RenameCoded

/-! ### `UnionDisjointStates` -/

/-- `insert(first, last)` of elements with pairwise different keys none of which is present: they are appended -/
theorem insertClusters_disj : ∀ (rhs m : List (Nat × Cluster)), KeysNodup rhs → (∀ qc, qc ∈ rhs → m.lookup qc.1 = none) →
    insertClusters rhs m = m ++ rhs
  | [], m, _, _ => by simp [insertClusters]
  | qc :: rhs, m, hnd, hd => by
    obtain ⟨q, c⟩ := qc
    have h0 : m.lookup q = none := hd (q, c) List.mem_cons_self
    have hnd' := keysNodup_cons.mp hnd
    have e : insertCluster m (q, c) = m ++ [(q, c)] := by simp [insertCluster, h0]
    have ih := insertClusters_disj rhs (m ++ [(q, c)]) hnd'.2 (by
      intro qc' hqc'
      rw [List.lookup_append, hd qc' (List.mem_cons_of_mem _ hqc')]
      have hne : qc'.1 ≠ q := by
        intro e'
        apply hnd'.1 qc'.2
        rw [← e']
        exact hqc'
      have hb : (qc'.1 == q) = false := by simpa using hne
      simp [List.lookup, hb])
    simp only [insertClusters, List.foldl_cons, e] at ih ⊢
    rw [ih, List.append_assoc]
    rfl

theorem foldl_insN_disj : ∀ (qs init : List Nat), qs.Nodup → (∀ q, q ∈ qs → q ∉ init) →
    qs.foldl (fun acc q => insN q acc) init = init ++ qs
  | [], init, _, _ => by simp
  | q :: qs, init, hnd, hd => by
    have h0 : q ∉ init := hd q List.mem_cons_self
    have hnd' := List.nodup_cons.mp hnd
    have e : insN q init = init ++ [q] := by
      unfold insN
      rw [if_neg]
      rw [List.contains_iff_mem]
      exact h0
    rw [List.foldl_cons, e, foldl_insN_disj qs (init ++ [q]) hnd'.2 (by
      intro q' hq' hm
      rcases List.mem_append.mp hm with hm | hm
      · exact hd q' (List.mem_cons_of_mem _ hq') hm
      · rw [List.mem_singleton] at hm
        exact hnd'.1 (hm ▸ hq')), List.append_assoc]
    rfl

/-- under the invariant every key of the cluster map is the parent of a rule, hence a state -/
theorem key_mem_states {s : Store} (h : Inv s) {q : Nat} {c : Cluster} (hm : (q, c) ∈ s.clusters) : q ∈ (toTA s).states := by
  have hc := h.clusters (q, c) hm
  cases hcc : c with
  | nil => exact absurd hcc hc.nonempty
  | cons ft c' =>
    obtain ⟨f, ts⟩ := ft
    have hft : (f, ts) ∈ c := by rw [hcc]; exact List.mem_cons_self
    cases hts : ts with
    | nil => exact absurd hts (hc.tuples _ hft).1
    | cons t ts' =>
      have ht : t ∈ ts := by rw [hts]; exact List.mem_cons_self
      have hr : (⟨f, t, q⟩ : Rule) ∈ (toTA s).rules := mem_iterate.mpr ⟨c, hm, ts, hft, ht⟩
      exact Rn.parent_mem_states hr

/-- state-disjoint operands satisfying the invariant: the result is the concatenation of the two cluster maps and of the two
final-state sets -/
theorem unionDisj_eq (A B : Store) (hA : Inv A) (hB : Inv B)
    (hdis : ∀ q, q ∈ (toTA A).states → q ∉ (toTA B).states) :
    unionDisjStoreCoded A B = ⟨A.clusters ++ B.clusters, A.final ++ B.final⟩ := by
  unfold unionDisjStoreCoded
  rw [insertClusters_disj B.clusters A.clusters hB.keys, foldl_insN_disj B.final A.final hB.final]
  · intro q hq hq'
    exact hdis q (Rn.final_mem_states (A := toTA A) hq') (Rn.final_mem_states (A := toTA B) hq)
  · intro qc hqc
    cases hl : A.clusters.lookup qc.1 with
    | none => rfl
    | some c =>
      exact absurd (key_mem_states hB (q := qc.1) (c := qc.2) hqc) (hdis _ (key_mem_states hA (mem_of_lookup hl)))

theorem unionDisj_inv (A B : Store) (hA : Inv A) (hB : Inv B)
    (hdis : ∀ q, q ∈ (toTA A).states → q ∉ (toTA B).states) : Inv (unionDisjStoreCoded A B) := by
  rw [unionDisj_eq A B hA hB hdis]
  refine ⟨?_, ?_, ?_⟩
  · unfold KeysNodup
    rw [List.map_append, List.nodup_append]
    refine ⟨hA.keys, hB.keys, ?_⟩
    intro a ha b hb e
    obtain ⟨qc, hqc, e1⟩ := List.mem_map.mp ha
    obtain ⟨qc', hqc', e2⟩ := List.mem_map.mp hb
    subst e1; subst e2
    exact hdis _ (key_mem_states hA (q := qc.1) (c := qc.2) hqc) (e ▸ key_mem_states hB (q := qc'.1) (c := qc'.2) hqc')
  · intro qc hqc
    rcases List.mem_append.mp hqc with h | h
    · exact hA.clusters qc h
    · exact hB.clusters qc h
  · show (A.final ++ B.final).Nodup
    rw [List.nodup_append]
    refine ⟨hA.final, hB.final, ?_⟩
    intro a ha b hb e
    exact hdis a (Rn.final_mem_states (A := toTA A) ha) (e ▸ Rn.final_mem_states (A := toTA B) hb)

/-! ### `Intersection` -/

theorem foldl_add_snoc (rs : List Rule) (x : Rule) (s : Store) :
    (rs ++ [x]).foldl addTransition s = addTransition (rs.foldl addTransition s) x := by
  rw [List.foldl_append]; rfl

theorem isectProcS_eq (n : Nat) (s0 : Store) : ∀ (rrs : List (Rule × Rule)) (m : PMap) (st : List (Nat × Nat)) (rs : List Rule),
    isectProcS n rrs m st (rs.foldl addTransition s0) =
      ((isectProc n rrs m st rs).1, (isectProc n rrs m st rs).2.1, (isectProc n rrs m st rs).2.2.foldl addTransition s0)
  | [], _, _, _ => rfl
  | rr :: rest, m, st, rs => by
    simp only [isectProcS, isectProc]
    rw [← foldl_add_snoc]
    exact isectProcS_eq n s0 rest _ _ _

theorem isectLoopS_eq (A B : TA) (s0 : Store) : ∀ (fuel : Nat) (m : PMap) (st : List (Nat × Nat)) (rs : List Rule),
    isectLoopS A B fuel m st (rs.foldl addTransition s0) =
      (isectLoop A B fuel m st rs).map (fun p => (p.1, p.2.foldl addTransition s0))
  | 0, m, st, rs => by
    simp only [isectLoopS, isectLoop]
    split <;> rfl
  | _+1, m, [], rs => rfl
  | n+1, m, pr :: st, rs => by
    simp only [isectLoopS, isectLoop]
    rw [isectProcS_eq]
    exact isectLoopS_eq A B s0 n _ _ _

/-- `Intersection` on stores IS `isectTD` with the rules added one by one to the store that holds the final states -/
theorem isectStoreCoded_eq (A B : Store) (fuel : Nat) :
    isectStoreCoded A B fuel =
      (isectTD (toTA A) (toTA B) fuel).map (fun r => (r.1.rules.foldl addTransition (setFinals empty r.1.final), r.2)) := by
  have h := isectLoopS_eq (toTA A) (toTA B) (setFinals empty (addPairs (finalPairs (toTA A) (toTA B)) [] []).2.2) fuel
    (addPairs (finalPairs (toTA A) (toTA B)) [] []).1 (addPairs (finalPairs (toTA A) (toTA B)) [] []).2.1 []
  rw [List.foldl_nil] at h
  unfold isectStoreCoded isectTD
  simp only
  rw [h]
  cases hl : isectLoop (toTA A) (toTA B) fuel (addPairs (finalPairs (toTA A) (toTA B)) [] []).1
      (addPairs (finalPairs (toTA A) (toTA B)) [] []).2.1 [] with
  | none => rfl
  | some p =>
    obtain ⟨m, rs⟩ := p
    simp only [Option.map_some]
    split <;> rfl

/-- what a successful run returns -/
theorem isectStoreCoded_spec {A B : Store} {fuel : Nat} {S : Store} {m : PMap} (h : isectStoreCoded A B fuel = some (S, m)) :
    ∃ P, isectTD (toTA A) (toTA B) fuel = some (P, m) ∧ S = P.rules.foldl addTransition (setFinals empty P.final) ∧
      Inv S ∧ (∀ x, x ∈ iterate S ↔ x ∈ P.rules) ∧ (∀ q, q ∈ S.final ↔ q ∈ P.final) := by
  rw [isectStoreCoded_eq] at h
  cases hT : isectTD (toTA A) (toTA B) fuel with
  | none => rw [hT] at h; cases h
  | some r =>
    obtain ⟨P, m'⟩ := r
    rw [hT] at h
    simp only [Option.map_some, Option.some.injEq, Prod.mk.injEq] at h
    obtain ⟨h1, h2⟩ := h
    subst h2
    have hi : Inv (setFinals empty P.final) := inv_setFinals inv_empty _
    refine ⟨P, rfl, h1.symm, ?_, ?_, ?_⟩
    · rw [← h1]; exact inv_foldl_add hi _
    · intro x
      rw [← h1, mem_iterate_foldl_add hi]
      simp [iterate, setFinals, empty]
    · intro q
      rw [← h1]
      have : ∀ (rs : List Rule) (s : Store), (rs.foldl addTransition s).final = s.final := by
        intro rs
        induction rs with
        | nil => intro s; rfl
        | cons r rs ih => intro s; rw [List.foldl_cons, ih]; rfl
      rw [this]
      simp [setFinals, empty, mem_foldl_insN]

end Vata.UnionStoreCoded
