import Vata.Proofs.TrimCodedInit
/-!
# `RemoveUselessStates` as coded, part 2: the work-list loop (`mainLoop`)

`Inv A σ s0 pend`: the loop invariant; `s0` is the state popped last and `pend` the part of `stateMap[s0]` that the
inner `for` has not processed yet (`pend = []` between two iterations of the `while`).  The invariant contains the
C++ assertion `assert(childrenSet_.count(state))` of `reachedBy` (`Inv.assert_holds`), which is what makes every
transition fire at most once, which is what makes `remaining == 0` imply "every transition fired".
-/
namespace Vata.TrimCoded
open Vata

/-- `x` has been popped from the work-list -/
def Done (σ : St) (x : Nat) : Prop := x ∈ σ.reach ∧ x ∉ σ.work

theorem done_pushState (σ : St) (p x : Nat) : Done (σ.pushState p) x ↔ Done σ x := by
  unfold Done
  rw [mem_pushState_reach, mem_pushState_work]
  by_cases hp : p ∈ σ.reach
  · constructor
    · rintro ⟨h1 | h1, h2⟩
      · exact ⟨h1, fun h => h2 (Or.inl h)⟩
      · exact ⟨h1 ▸ hp, fun h => h2 (Or.inl h)⟩
    · rintro ⟨h1, h2⟩
      refine ⟨Or.inl h1, ?_⟩
      rintro (h | ⟨_, h⟩)
      · exact h2 h
      · exact h hp
  · constructor
    · rintro ⟨h1 | h1, h2⟩
      · exact ⟨h1, fun h => h2 (Or.inl h)⟩
      · exact absurd (Or.inr ⟨h1, hp⟩) h2
    · rintro ⟨h1, h2⟩
      refine ⟨Or.inl h1, ?_⟩
      rintro (h | ⟨h, _⟩)
      · exact h2 h
      · exact hp (h ▸ h1)

structure Inv (A : TA) (σ : St) (s0 : Nat) (pend : List Nat) : Prop where
  wsub : ∀ q, q ∈ σ.work → q ∈ σ.reach
  wnd : σ.work.Nodup
  sound : ∀ q, q ∈ σ.reach → q ∈ prodStates A
  cs : ∀ j r, A.rules[j]? = some r → ∃ c, σ.infos[j]? = some ⟨r, c⟩ ∧
        (∀ x, x ∈ c ↔ x ∈ r.kids ∧ (¬ Done σ x ∨ (x = s0 ∧ j ∈ pend))) ∧
        (c = [] → j ∈ σ.rtrans ∧ r.parent ∈ σ.reach)
  rt : ∀ j, j ∈ σ.rtrans → ∃ r, A.rules[j]? = some r ∧ σ.infos[j]? = some ⟨r, []⟩
  rtnd : σ.rtrans.Nodup
  sm : ∀ s j, j ∈ smGet σ.smap s ↔ ∃ r, A.rules[j]? = some r ∧ s ∈ r.kids
  smnd : ∀ s, (smGet σ.smap s).Nodup
  cnt : A.rules.length ≤ σ.remaining + σ.rtrans.length
  pendnd : pend.Nodup
  pendsub : ∀ j, j ∈ pend → j ∈ smGet σ.smap s0
  s0done : pend ≠ [] → Done σ s0

/-- the state after the first loop satisfies the invariant -/
theorem inv_init (A : TA) (s0 : Nat) : Inv A (initLoop A A.rules.length) s0 [] := by
  have h := initLoop_inv A A.rules.length (Nat.le_refl _)
  have hlt : ∀ {j r}, A.rules[j]? = some r → j < A.rules.length := by
    intro j r hj
    obtain ⟨hl, _⟩ := List.getElem?_eq_some_iff.mp hj
    exact hl
  have hnd : ∀ x, ¬ Done (initLoop A A.rules.length) x := by
    intro x hx
    exact hx.2 ((h.workmem x).mpr hx.1)
  constructor
  · intro q hq; exact (h.workmem q).mp hq
  · exact h.worknd
  · exact h.sound
  · intro j r hj
    refine ⟨dedupL r.kids, ?_, ?_, ?_⟩
    · rw [h.infos, List.getElem?_map, hj]; rfl
    · intro x
      rw [mem_dedupL]
      constructor
      · intro hx; exact ⟨hx, Or.inl (hnd x)⟩
      · intro hx; exact hx.1
    · intro hc
      have hk : r.kids = [] := by
        cases hkk : r.kids with
        | nil => rfl
        | cons a l =>
          have : a ∈ dedupL r.kids := mem_dedupL.mpr (by rw [hkk]; exact List.mem_cons_self)
          rw [hc] at this
          exact absurd this List.not_mem_nil
      exact ⟨(h.rt j).mpr ⟨r, hj, hlt hj, hk⟩, h.leafp j r hj (hlt hj) hk⟩
  · intro j hj
    obtain ⟨r, h1, _, h3⟩ := (h.rt j).mp hj
    refine ⟨r, h1, ?_⟩
    rw [h.infos, List.getElem?_map, h1]
    simp only [Option.map_some, mkInfo, h3]
    rfl
  · exact h.rtnd
  · intro s j
    rw [h.sm]
    constructor
    · rintro ⟨r, h1, _, h3⟩; exact ⟨r, h1, h3⟩
    · rintro ⟨r, h1, h3⟩; exact ⟨r, h1, hlt h1, h3⟩
  · exact h.smnd
  · exact h.cnt
  · exact List.nodup_nil
  · intro j hj; exact absurd hj List.not_mem_nil
  · intro hp; exact absurd rfl hp

/-- the assertion `assert(childrenSet_.count(state))` in `reachedBy` never fails -/
theorem Inv.assert_holds {A : TA} {σ : St} {s0 j : Nat} {rest : List Nat} (h : Inv A σ s0 (j :: rest)) :
    ∃ r c, A.rules[j]? = some r ∧ σ.infos[j]? = some ⟨r, c⟩ ∧ s0 ∈ c := by
  obtain ⟨r, hr, hs⟩ := (h.sm s0 j).mp (h.pendsub j List.mem_cons_self)
  obtain ⟨c, hc, hmem, _⟩ := h.cs j r hr
  exact ⟨r, c, hr, hc, (hmem s0).mpr ⟨hs, Or.inr ⟨rfl, List.mem_cons_self⟩⟩⟩

theorem Inv.rt_lt {A : TA} {σ : St} {s0 : Nat} {pend : List Nat} (h : Inv A σ s0 pend) :
    σ.rtrans.length ≤ A.rules.length := by
  apply nodup_length_le _ _ h.rtnd
  intro j hj
  obtain ⟨r, hr, _⟩ := h.rt j hj
  obtain ⟨hl, _⟩ := List.getElem?_eq_some_iff.mp hr
  exact hl

/-- the state after `reachedBy` returned `false` -/
def eraseSt (σ : St) (j : Nat) (r : Rule) (c : List Nat) : St := { σ with infos := σ.infos.set j ⟨r, c⟩ }
/-- the state after `reachedBy` returned `true`, before the insertion of the parent -/
def fireSt (dec : Rule → Nat) (σ : St) (j : Nat) (r : Rule) : St :=
  { σ with infos := σ.infos.set j ⟨r, []⟩, rtrans := σ.rtrans ++ [j], remaining := σ.remaining - dec r }

theorem innerStep_fire {dec : Rule → Nat} {s : Nat} {σ : St} {j : Nat} {r : Rule} {c : List Nat}
    (hc : σ.infos[j]? = some ⟨r, c⟩) (he : c.filter (fun x => x != s) = []) :
    innerStep dec s σ j = (fireSt dec σ j r).pushState r.parent := by
  unfold innerStep
  rw [hc]
  simp only [Info.reachedBy, he, List.isEmpty_nil, if_true]
  rfl

theorem innerStep_nofire {dec : Rule → Nat} {s : Nat} {σ : St} {j : Nat} {r : Rule} {c : List Nat}
    (hc : σ.infos[j]? = some ⟨r, c⟩) (he : c.filter (fun x => x != s) ≠ []) :
    innerStep dec s σ j = eraseSt σ j r (c.filter (fun x => x != s)) := by
  unfold innerStep
  rw [hc]
  have : (c.filter (fun x => x != s)).isEmpty = false := by
    cases hh : c.filter (fun x => x != s) with
    | nil => exact absurd hh he
    | cons a l => rfl
  simp only [Info.reachedBy, this, Bool.false_eq_true, if_false]
  rfl

/-- one iteration of the inner `for` keeps the invariant -/
theorem innerStep_inv {A : TA} {dec : Rule → Nat} (hdec : ∀ r, dec r ≤ 1) {σ : St} {s0 j : Nat} {rest : List Nat}
    (h : Inv A σ s0 (j :: rest)) : Inv A (innerStep dec s0 σ j) s0 rest := by
  obtain ⟨r, c, hr, hc, hs0c⟩ := h.assert_holds
  have hrA : r ∈ A.rules := List.mem_of_getElem? hr
  have hjlt : j < σ.infos.length := by
    obtain ⟨hl, _⟩ := List.getElem?_eq_some_iff.mp hc
    exact hl
  have hjrest : j ∉ rest := (List.nodup_cons.mp h.pendnd).1
  have hdone : Done σ s0 := h.s0done (List.cons_ne_nil _ _)
  obtain ⟨c', hc', hmem, hnil⟩ := h.cs j r hr
  have hcc : c' = c := by
    rw [hc] at hc'
    exact (Info.mk.inj (Option.some.inj hc')).2.symm
  subst hcc
  have hjrt : j ∉ σ.rtrans := by
    intro hj
    obtain ⟨r', hr', hi'⟩ := h.rt j hj
    rw [hc] at hi'
    have : c' = [] := (Info.mk.inj (Option.some.inj hi')).2
    rw [this] at hs0c
    exact absurd hs0c List.not_mem_nil
  -- membership in the set after `erase`
  have hmem' : ∀ (D : Nat → Prop), (∀ x, D x ↔ Done σ x) → ∀ x, x ∈ c'.filter (fun x => x != s0) ↔
      x ∈ r.kids ∧ (¬ D x ∨ (x = s0 ∧ j ∈ rest)) := by
    intro D hD x
    rw [List.mem_filter, hmem, hD]
    simp only [bne_iff_ne, ne_eq]
    constructor
    · rintro ⟨⟨h1, h2 | ⟨h2, _⟩⟩, h3⟩
      · exact ⟨h1, Or.inl h2⟩
      · exact absurd h2 h3
    · rintro ⟨h1, h2 | ⟨_, h2⟩⟩
      · refine ⟨⟨h1, Or.inl h2⟩, ?_⟩
        intro hx
        rw [hx] at h2
        exact h2 hdone
      · exact absurd h2 hjrest
  -- the other entries of `infos`
  have hother : ∀ (D : Nat → Prop) (info : Info), (∀ x, D x ↔ Done σ x) → ∀ j' r', j' ≠ j → A.rules[j']? = some r' →
      ∃ c, (σ.infos.set j info)[j']? = some ⟨r', c⟩ ∧
        (∀ x, x ∈ c ↔ x ∈ r'.kids ∧ (¬ D x ∨ (x = s0 ∧ j' ∈ rest))) ∧
        (c = [] → j' ∈ σ.rtrans ∧ r'.parent ∈ σ.reach) := by
    intro D info hD j' r' hne hr'
    obtain ⟨c2, h1, h2, h3⟩ := h.cs j' r' hr'
    refine ⟨c2, ?_, ?_, h3⟩
    · rw [List.getElem?_set_ne (Ne.symm hne)]
      exact h1
    · intro x
      rw [h2, hD]
      simp only [List.mem_cons, hne, false_or]
  by_cases hempty : c'.filter (fun x => x != s0) = []
  · rw [innerStep_fire hc hempty]
    -- every child of the fired rule is reachable
    have hkids : ∀ x, x ∈ r.kids → x ∈ σ.reach := by
      intro x hx
      by_cases hxc : x ∈ c'
      · by_cases hxs : x = s0
        · rw [hxs]; exact hdone.1
        · have : x ∈ c'.filter (fun x => x != s0) := List.mem_filter.mpr ⟨hxc, by simpa using hxs⟩
          rw [hempty] at this
          exact absurd this List.not_mem_nil
      · by_cases hd : Done σ x
        · exact hd.1
        · exact absurd ((hmem x).mpr ⟨hx, Or.inl hd⟩) hxc
    have hD := done_pushState (fireSt dec σ j r) r.parent
    have hmemE := hmem'
    rw [hempty] at hmemE
    constructor
    · intro q hq
      rw [mem_pushState_work] at hq
      rw [mem_pushState_reach]
      rcases hq with hq | ⟨hq, _⟩
      · exact Or.inl (h.wsub q hq)
      · exact Or.inr hq
    · exact pushState_work_nodup _ _ h.wsub h.wnd
    · intro q hq
      rw [mem_pushState_reach] at hq
      rcases hq with hq | hq
      · exact h.sound q hq
      · rw [hq]
        exact prodStates_closed A r hrA (fun x hx => h.sound x (hkids x hx))
    · intro j' r' hr'
      rw [pushState_infos, pushState_rtrans]
      simp only [fireSt]
      by_cases hj : j' = j
      · subst hj
        have : r' = r := getElem?_inj hr' hr
        subst this
        refine ⟨[], ?_, ?_, ?_⟩
        · rw [List.getElem?_set_self hjlt]
        · exact hmemE _ hD
        · intro _
          exact ⟨List.mem_append_right _ List.mem_cons_self, (mem_pushState_reach _ _ _).mpr (Or.inr rfl)⟩
      · obtain ⟨c2, h1, h2, h3⟩ := hother _ ⟨r, []⟩ hD j' r' hj hr'
        refine ⟨c2, h1, h2, ?_⟩
        intro hc2
        exact ⟨List.mem_append_left _ (h3 hc2).1, (mem_pushState_reach _ _ _).mpr (Or.inl (h3 hc2).2)⟩
    · intro j' hj'
      rw [pushState_rtrans] at hj'
      rw [pushState_infos]
      simp only [fireSt, List.mem_append, List.mem_singleton] at hj' ⊢
      by_cases hj : j' = j
      · subst hj
        refine ⟨r, hr, ?_⟩
        rw [List.getElem?_set_self hjlt]
      · rcases hj' with hj' | hj'
        · obtain ⟨r', h1, h2⟩ := h.rt j' hj'
          refine ⟨r', h1, ?_⟩
          rw [List.getElem?_set_ne (Ne.symm hj)]
          exact h2
        · exact absurd hj' hj
    · rw [pushState_rtrans]
      exact nodup_snoc h.rtnd hjrt
    · intro s j'
      rw [pushState_smap]
      exact h.sm s j'
    · intro s
      rw [pushState_smap]
      exact h.smnd s
    · rw [pushState_remaining, pushState_rtrans]
      simp only [fireSt, List.length_append, List.length_singleton]
      have := h.cnt
      have := hdec r
      omega
    · exact (List.nodup_cons.mp h.pendnd).2
    · intro j' hj'
      rw [pushState_smap]
      exact h.pendsub j' (List.mem_cons_of_mem _ hj')
    · intro _
      exact (hD s0).mpr hdone
  · rw [innerStep_nofire hc hempty]
    have hne := hempty
    have hD : ∀ x, Done (eraseSt σ j r (c'.filter (fun x => x != s0))) x ↔ Done σ x :=
      fun x => Iff.rfl
    constructor
    · exact h.wsub
    · exact h.wnd
    · exact h.sound
    · intro j' r' hr'
      simp only [eraseSt]
      by_cases hj : j' = j
      · subst hj
        have : r' = r := getElem?_inj hr' hr
        subst this
        refine ⟨c'.filter (fun x => x != s0), ?_, ?_, ?_⟩
        · rw [List.getElem?_set_self hjlt]
        · exact hmem' _ hD
        · intro he
          exact absurd he hne
      · exact hother _ ⟨r, c'.filter (fun x => x != s0)⟩ hD j' r' hj hr'
    · intro j' hj'
      have hj : j' ≠ j := fun e => hjrt (e ▸ hj')
      obtain ⟨r', h1, h2⟩ := h.rt j' hj'
      refine ⟨r', h1, ?_⟩
      simp only [eraseSt]
      rw [List.getElem?_set_ne (Ne.symm hj)]
      exact h2
    · exact h.rtnd
    · exact h.sm
    · exact h.smnd
    · exact h.cnt
    · exact (List.nodup_cons.mp h.pendnd).2
    · intro j' hj'
      exact h.pendsub j' (List.mem_cons_of_mem _ hj')
    · intro _
      exact (hD s0).mpr hdone

/-! ### the measure -/

theorem innerStep_shape (dec : Rule → Nat) (s : Nat) (σ : St) (j : Nat) :
    ((innerStep dec s σ j).work = σ.work ∧ (innerStep dec s σ j).rtrans = σ.rtrans) ∨
    ((innerStep dec s σ j).work.length ≤ σ.work.length + 1 ∧ (innerStep dec s σ j).rtrans.length = σ.rtrans.length + 1) := by
  unfold innerStep
  split
  · exact Or.inl ⟨rfl, rfl⟩
  · split
    · right
      rw [pushState_rtrans]
      refine ⟨pushState_work_length _ _, ?_⟩
      simp
    · exact Or.inl ⟨rfl, rfl⟩

/-- work-list length + number of transitions that have not fired -/
def measure (A : TA) (σ : St) : Nat := σ.work.length + (A.rules.length - σ.rtrans.length)

theorem innerStep_measure {A : TA} {dec : Rule → Nat} (hdec : ∀ r, dec r ≤ 1) {σ : St} {s0 j : Nat} {rest : List Nat}
    (h : Inv A σ s0 (j :: rest)) : measure A (innerStep dec s0 σ j) ≤ measure A σ := by
  have h' := (innerStep_inv hdec h).rt_lt
  unfold measure
  rcases innerStep_shape dec s0 σ j with ⟨h1, h2⟩ | ⟨h1, h2⟩
  · rw [h1, h2]; exact Nat.le_refl _
  · omega

theorem inner_inv {A : TA} {dec : Rule → Nat} (hdec : ∀ r, dec r ≤ 1) {s0 : Nat} : ∀ (pend : List Nat) (σ : St),
    Inv A σ s0 pend → Inv A (pend.foldl (innerStep dec s0) σ) s0 [] ∧
      measure A (pend.foldl (innerStep dec s0) σ) ≤ measure A σ
  | [], _, h => ⟨h, Nat.le_refl _⟩
  | j :: rest, σ, h => by
    rw [List.foldl_cons]
    obtain ⟨h1, h2⟩ := inner_inv hdec rest _ (innerStep_inv hdec h)
    exact ⟨h1, Nat.le_trans h2 (innerStep_measure hdec h)⟩

/-- popping `s` -/
theorem inv_pop {A : TA} {σ : St} {s0 s : Nat} {w : List Nat} (h : Inv A σ s0 []) (hw : σ.work = s :: w) :
    Inv A { σ with work := w } s (smGet σ.smap s) := by
  have hsR : s ∈ σ.reach := h.wsub s (by rw [hw]; exact List.mem_cons_self)
  have hnd := h.wnd
  rw [hw] at hnd
  have hsw : s ∉ w := (List.nodup_cons.mp hnd).1
  have hDs : Done { σ with work := w } s := ⟨hsR, hsw⟩
  have hD : ∀ x, x ≠ s → (Done { σ with work := w } x ↔ Done σ x) := by
    intro x hx
    unfold Done
    simp only [hw, List.mem_cons, hx, false_or]
  have hDs' : ¬ Done σ s := fun hd => hd.2 (by rw [hw]; exact List.mem_cons_self)
  constructor
  · intro q hq
    exact h.wsub q (by rw [hw]; exact List.mem_cons_of_mem _ hq)
  · exact (List.nodup_cons.mp hnd).2
  · exact h.sound
  · intro j r hr
    obtain ⟨c, h1, h2, h3⟩ := h.cs j r hr
    refine ⟨c, h1, ?_, h3⟩
    intro x
    rw [h2]
    by_cases hx : x = s
    · subst hx
      constructor
      · rintro ⟨hk, _⟩
        exact ⟨hk, Or.inr ⟨rfl, (h.sm x j).mpr ⟨r, hr, hk⟩⟩⟩
      · rintro ⟨hk, _⟩
        exact ⟨hk, Or.inl hDs'⟩
    · rw [hD x hx]
      simp only [List.not_mem_nil, and_false, or_false, hx, false_and]
  · exact h.rt
  · exact h.rtnd
  · exact h.sm
  · exact h.smnd
  · exact h.cnt
  · exact h.smnd s
  · intro j hj; exact hj
  · intro _; exact hDs

theorem mainLoop_inv {A : TA} {dec : Rule → Nat} (hdec : ∀ r, dec r ≤ 1) : ∀ (f : Nat) (σ : St) (s0 : Nat),
    Inv A σ s0 [] → measure A σ ≤ f →
    (∃ s1, Inv A (mainLoop dec f σ) s1 []) ∧ (mainLoop dec f σ).work = []
  | 0, σ, s0, h, hm => by
    unfold mainLoop
    refine ⟨⟨s0, h⟩, ?_⟩
    unfold measure at hm
    exact List.eq_nil_of_length_eq_zero (by omega)
  | f+1, σ, s0, h, hm => by
    unfold mainLoop
    cases hw : σ.work with
    | nil => exact ⟨⟨s0, h⟩, hw⟩
    | cons s w =>
      simp only
      have hp := inv_pop h hw
      have hmp : measure A { σ with work := w } + 1 = measure A σ := by
        unfold measure
        rw [hw]
        simp only [List.length_cons]
        omega
      have hg : smGet σ.smap s = (σ.smap.lookup s).getD [] := rfl
      cases hl : σ.smap.lookup s with
      | none =>
        simp only
        rw [hg, hl] at hp
        exact mainLoop_inv hdec f _ s hp (by omega)
      | some v =>
        simp only
        rw [hg, hl] at hp
        obtain ⟨h1, h2⟩ := inner_inv hdec v _ hp
        exact mainLoop_inv hdec f _ s h1 (by omega)

theorem measure_init (A : TA) : measure A (initLoop A A.rules.length) ≤ A.rules.length := by
  have h := initLoop_inv A A.rules.length (Nat.le_refl _)
  have := h.wlen
  have := (inv_init A 0).rt_lt
  unfold measure
  omega

/-- the final state: the invariant holds and the work-list is empty (totality: the fuel `|rules|` suffices) -/
theorem finalSt_inv (A : TA) {dec : Rule → Nat} (hdec : ∀ r, dec r ≤ 1) :
    (∃ s1, Inv A (finalSt dec A) s1 []) ∧ (finalSt dec A).work = [] :=
  mainLoop_inv hdec _ _ 0 (inv_init A 0) (measure_init A)

end Vata.TrimCoded
