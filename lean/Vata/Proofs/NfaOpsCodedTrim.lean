import Vata.Proofs.NfaOpsCodedBase
/-!
# `Reverse`, `RemoveUnreachableStates`, `RemoveUselessStates` as coded refine the relation-level models
-/
namespace Vata.NfaC
open Vata.W

/-- a fold whose body only adds elements described by `R` -/
theorem mem_foldl_acc {α β : Type} (F : List α → β → List α) (R : β → α → Prop)
    (hF : ∀ T b t, t ∈ F T b ↔ t ∈ T ∨ R b t) : ∀ (L : List β) (T : List α) (t : α),
    t ∈ L.foldl F T ↔ t ∈ T ∨ ∃ b, b ∈ L ∧ R b t
  | [], T, t => by simp
  | b :: L, T, t => by
    rw [List.foldl_cons, mem_foldl_acc F R hF L, hF]
    constructor
    · rintro ((h | h) | ⟨c, hc, h⟩)
      · exact Or.inl h
      · exact Or.inr ⟨b, List.mem_cons_self, h⟩
      · exact Or.inr ⟨c, List.mem_cons_of_mem _ hc, h⟩
    · rintro (h | ⟨c, hc, h⟩)
      · exact Or.inl (Or.inl h)
      · rcases List.mem_cons.mp hc with e | hc
        · subst e; exact Or.inl (Or.inr h)
        · exact Or.inr ⟨c, hc, h⟩

/-! ### `Reverse` -/

theorem mem_nfasReverseCoded_trans {o : NfaOrd} (ho : o.Ok) (f : Bool) (A : NFAS) (t : Nat × Nat × Nat) :
    t ∈ (nfasReverseCoded o f A).trans ↔ (t.2.2, t.2.1, t.1) ∈ A.trans := by
  show t ∈ (iterSet o.srcs (A.trans.map (·.1))).foldl (fun T p =>
    (nfaClusterOf o A.toNFA p).foldl (fun T c => c.2.foldl (fun T q => insT T (q, c.1, p)) T) T) [] ↔ _
  rw [mem_foldl_acc _ (fun p t => ∃ c, c ∈ nfaClusterOf o A.toNFA p ∧ ∃ q, q ∈ c.2 ∧ t = (q, c.1, p))]
  · constructor
    · rintro (h | ⟨p, _, c, hc, q, hq, rfl⟩)
      · exact nomatch h
      · exact (mem_nfaClusterOf ho).mp ⟨c, hc, rfl, hq⟩
    · intro h
      obtain ⟨c, hc, ha, hq⟩ := (mem_nfaClusterOf ho).mpr h
      refine Or.inr ⟨t.2.2, ?_, c, hc, t.1, hq, ?_⟩
      · rw [mem_iterSet ho.2.2]; exact List.mem_map.mpr ⟨_, h, rfl⟩
      · rw [ha]
  · intro T p t
    rw [mem_foldl_acc _ (fun (c : Nat × List Nat) t => ∃ q, q ∈ c.2 ∧ t = (q, c.1, p))]
    intro T c t
    rw [mem_foldl_acc _ (fun (q : Nat) t => t = (q, c.1, p))]
    intro T q t
    exact mem_insT

/-- `Reverse` as coded is `nfaReverse` (the transitions as a set) -/
theorem nfasReverseCoded_setEq {o : NfaOrd} (ho : o.Ok) (f : Bool) (A : NFAS) :
    NfaSetEq (nfasReverseCoded o f A).toNFA (nfaReverse A.toNFA) := by
  refine ⟨fun _ => Iff.rfl, fun _ => Iff.rfl, ?_⟩
  rintro ⟨p, a, q⟩
  rw [mem_nfaReverse_trans]
  exact mem_nfasReverseCoded_trans ho f A (p, a, q)

theorem smFold_insert_has (L : List Nat) : ∀ (m : SymMap) (q : Nat),
    smHas (L.foldl (fun m s => smInsert m s []) m) q = (smHas m q || L.contains q)
  | m, q => by
    induction L generalizing m with
    | nil => simp
    | cons s L ih =>
      rw [List.foldl_cons, ih, NfaS.smHas_smInsert, List.contains_cons, Bool.or_assoc]
      congr 1

theorem smFold_insert_get (L : List Nat) : ∀ (m : SymMap) (q : Nat),
    smGet (L.foldl (fun m s => smInsert m s []) m) q = smGet m q
  | m, q => by
    induction L generalizing m with
    | nil => rfl
    | cons s L ih =>
      rw [List.foldl_cons, ih, NfaS.smGet_smInsert]
      split
      · rename_i h
        rw [h.2]; exact (NfaS.smGet_eq_nil_of_not_has h.1).symm
      · rfl

/-- the start-symbol map of the current `Reverse`: the same entries as the relation-level model -/
theorem nfasReverseCoded_syms {o : NfaOrd} (ho : o.Ok) (A : NFAS) (q : Nat) :
    smHas (nfasReverseCoded o true A).startSyms q = smHas (nfasReverse A).startSyms q ∧
    (nfasReverseCoded o true A).symsOf q = (nfasReverse A).symsOf q := by
  constructor
  · rw [nfasReverse_has]
    show smHas ((iterSet o.sts A.final).foldl (fun m s => smInsert m s []) A.startSyms) q = _
    rw [smFold_insert_has]
    congr 1
    rw [Bool.eq_iff_iff, List.contains_iff_mem, List.contains_iff_mem, mem_iterSet ho.1]
  · rw [nfasReverse_symsOf]
    exact smFold_insert_get _ _ _

/-! ### `RemoveUnreachableStates` -/

/-- what a segment `xs` of the inner loops does to (`reachableStates`, `newStates`) -/
structure UnreachSeg (N : NFA) (xs : List Nat) (s s' : List Nat × List Nat) : Prop where
  sub1 : ∀ q, q ∈ s.1 → q ∈ s'.1
  sub2 : ∀ q, q ∈ s.2 → q ∈ s'.2
  all : ∀ x, x ∈ xs → x ∈ s'.1
  new : ∀ q, q ∈ s'.1 → q ∈ s.1 ∨ (q ∈ s'.2 ∧ q ∈ xs)
  stk : ∀ q, q ∈ s'.2 → q ∈ s.2 ∨ q ∈ xs
  meas : (∀ x, x ∈ xs → ∃ p a, (p, a, x) ∈ N.trans) → s'.2.length + nfaOut N s'.1 ≤ s.2.length + nfaOut N s.1

theorem UnreachSeg.refl (N : NFA) (s : List Nat × List Nat) : UnreachSeg N [] s s :=
  { sub1 := fun _ h => h, sub2 := fun _ h => h, all := fun _ h => (nomatch h), new := fun _ h => Or.inl h,
    stk := fun _ h => Or.inl h, meas := fun _ => Nat.le_refl _ }

theorem UnreachSeg.trans {N : NFA} {xs ys : List Nat} {s0 s1 s2 : List Nat × List Nat}
    (h1 : UnreachSeg N xs s0 s1) (h2 : UnreachSeg N ys s1 s2) : UnreachSeg N (xs ++ ys) s0 s2 where
  sub1 q h := h2.sub1 q (h1.sub1 q h)
  sub2 q h := h2.sub2 q (h1.sub2 q h)
  all x hx := by
    rcases List.mem_append.mp hx with h | h
    · exact h2.sub1 x (h1.all x h)
    · exact h2.all x h
  new q h := by
    rcases h2.new q h with h | ⟨h, hx⟩
    · rcases h1.new q h with h | ⟨h, hx⟩
      · exact Or.inl h
      · exact Or.inr ⟨h2.sub2 q h, List.mem_append_left _ hx⟩
    · exact Or.inr ⟨h, List.mem_append_right _ hx⟩
  stk q h := by
    rcases h2.stk q h with h | h
    · rcases h1.stk q h with h | h
      · exact Or.inl h
      · exact Or.inr (List.mem_append_left _ h)
    · exact Or.inr (List.mem_append_right _ h)
  meas h := Nat.le_trans (h2.meas (fun x hx => h x (List.mem_append_right _ hx)))
    (h1.meas (fun x hx => h x (List.mem_append_left _ hx)))

theorem UnreachSeg.one (N : NFA) (x : Nat) (s : List Nat × List Nat) : UnreachSeg N [x] s (unreachIns s x) := by
  unfold unreachIns
  split
  · rename_i h
    have hx := List.contains_iff_mem.mp h
    refine ⟨fun _ h => h, fun _ h => h, ?_, fun _ h => Or.inl h, fun _ h => Or.inl h, fun _ => Nat.le_refl _⟩
    intro y hy; rw [List.mem_singleton] at hy; rw [hy]; exact hx
  · rename_i h
    have hx : x ∉ s.1 := fun h' => h (List.contains_iff_mem.mpr h')
    refine ⟨fun _ h => List.mem_append_left _ h, fun _ h => List.mem_cons_of_mem _ h, ?_, ?_, ?_, ?_⟩
    · intro y hy; rw [List.mem_singleton] at hy; rw [hy]; exact List.mem_append_right _ (List.mem_singleton.mpr rfl)
    · intro q hq
      rcases List.mem_append.mp hq with h | h
      · exact Or.inl h
      · rw [List.mem_singleton] at h; rw [h]; exact Or.inr ⟨List.mem_cons_self, List.mem_singleton.mpr rfl⟩
    · intro q hq
      rcases List.mem_cons.mp hq with h | h
      · exact Or.inr (List.mem_singleton.mpr h)
      · exact Or.inl h
    · intro hx'
      obtain ⟨p, a, he⟩ := hx' x (List.mem_singleton.mpr rfl)
      have : nfaOut N (s.1 ++ [x]) < nfaOut N s.1 := by
        unfold nfaOut
        apply length_filter_lt_of_imp _ _ _ (p, a, x) _ _ _ he
        · intro e he'
          rw [not_contains_iff] at he' ⊢
          exact fun h' => he' (List.mem_append_left _ h')
        · exact not_contains_iff.mpr hx
        · rw [not_contains_iff]
          exact fun hn => hn (List.mem_append_right _ (List.mem_singleton.mpr rfl))
      simp only [List.length_cons]
      omega

theorem unreachSeg_fold (N : NFA) : ∀ (xs : List Nat) (s : List Nat × List Nat),
    UnreachSeg N xs s (xs.foldl unreachIns s)
  | [], s => UnreachSeg.refl N s
  | x :: xs, s => by
    rw [List.foldl_cons]
    exact (UnreachSeg.one N x s).trans (unreachSeg_fold N xs _)

/-- the invariant of the search -/
structure UnreachInv (N : NFA) (s : List Nat × List Nat) : Prop where
  hstart : ∀ q, q ∈ N.start → q ∈ s.1
  stk : ∀ q, q ∈ s.2 → q ∈ s.1
  reach : ∀ q, q ∈ s.1 → NfaReach N q
  done : ∀ q, q ∈ s.1 → q ∉ s.2 → ∀ a x, (q, a, x) ∈ N.trans → x ∈ s.1

theorem unreachInv_init {o : NfaOrd} (ho : o.Ok) (N : NFA) : UnreachInv N (unreachInit o N) := by
  refine ⟨fun q h => (mem_iterSet ho.1).mpr h, fun q h => List.mem_reverse.mp h,
    fun q h => NfaReach.of_start ((mem_iterSet ho.1).mp h), ?_⟩
  intro q h hn
  exact absurd (List.mem_reverse.mpr h) hn

theorem unreachInv_turn {o : NfaOrd} (ho : o.Ok) {N : NFA} {seen rest : List Nat} {act : Nat}
    (inv : UnreachInv N (seen, act :: rest)) :
    UnreachInv N ((nfaClusterTargets o N act).foldl unreachIns (seen, rest)) := by
  have seg := unreachSeg_fold N (nfaClusterTargets o N act) (seen, rest)
  have hact : act ∈ seen := inv.stk act List.mem_cons_self
  refine ⟨fun q h => seg.sub1 q (inv.hstart q h), ?_, ?_, ?_⟩
  · intro q hq
    rcases seg.stk q hq with h | h
    · exact seg.sub1 q (inv.stk q (List.mem_cons_of_mem _ h))
    · exact seg.all q h
  · intro q hq
    rcases seg.new q hq with h | ⟨_, h⟩
    · exact inv.reach q h
    · obtain ⟨a, he⟩ := (mem_nfaClusterTargets ho).mp h
      exact (inv.reach act hact).step he
  · intro q hq hn a x he
    rcases seg.new q hq with h | ⟨h, _⟩
    · by_cases hqa : q = act
      · subst hqa
        exact seg.all x ((mem_nfaClusterTargets ho).mpr ⟨a, he⟩)
      · apply seg.sub1
        apply inv.done q h _ a x he
        intro h'
        rcases List.mem_cons.mp h' with h' | h'
        · exact hqa h'
        · exact hn (seg.sub2 q h')
    · exact absurd h hn

theorem unreachLoop_inv {o : NfaOrd} (ho : o.Ok) (N : NFA) : ∀ (fuel : Nat) (s : List Nat × List Nat) (R : List Nat),
    UnreachInv N s → unreachLoop o N fuel s = some R → UnreachInv N (R, [])
  | 0, s, R, inv, h => by
    simp only [unreachLoop] at h
    split at h
    · rename_i he
      cases h
      have : s = (s.1, []) := by rw [← List.isEmpty_iff.mp he]
      rw [this] at inv; exact inv
    · cases h
  | n + 1, (seen, []), R, inv, h => by
    simp only [unreachLoop] at h
    cases h; exact inv
  | n + 1, (seen, act :: rest), R, inv, h => by
    simp only [unreachLoop] at h
    split at h
    · rename_i he
      refine unreachLoop_inv ho N n _ R ?_ h
      have hno := nfaClusterOf_isEmpty ho he
      refine ⟨inv.hstart, fun q hq => inv.stk q (List.mem_cons_of_mem _ hq), inv.reach, ?_⟩
      intro q hq hn a x hx
      by_cases hqa : q = act
      · subst hqa; exact absurd hx (hno a x)
      · apply inv.done q hq _ a x hx
        intro h'
        rcases List.mem_cons.mp h' with h' | h'
        · exact hqa h'
        · exact hn h'
    · exact unreachLoop_inv ho N n _ R (unreachInv_turn ho inv) h

theorem unreachLoop_total {o : NfaOrd} (ho : o.Ok) (N : NFA) : ∀ (fuel : Nat) (s : List Nat × List Nat),
    s.2.length + nfaOut N s.1 ≤ fuel → ∃ R, unreachLoop o N fuel s = some R
  | 0, s, h => by
    have : s.2 = [] := List.length_eq_zero_iff.mp (by omega)
    exact ⟨s.1, by simp [unreachLoop, this]⟩
  | n + 1, (seen, []), _ => ⟨seen, by simp [unreachLoop]⟩
  | n + 1, (seen, act :: rest), h => by
    simp only [unreachLoop]
    simp only [List.length_cons] at h
    split
    · exact unreachLoop_total ho N n _ (by simp only; omega)
    · apply unreachLoop_total ho N n
      have := (unreachSeg_fold N (nfaClusterTargets o N act) (seen, rest)).meas (fun x hx => by
        obtain ⟨a, he⟩ := (mem_nfaClusterTargets ho).mp hx
        exact ⟨act, a, he⟩)
      simp only at this
      omega

/-- the set `reachableStates` at the end is the set of reachable states -/
theorem nfaReachCoded_spec {o : NfaOrd} (ho : o.Ok) (N : NFA) (fuel : Nat) (R : List Nat)
    (h : nfaReachCoded o N fuel = some R) : ∀ q, q ∈ R ↔ q ∈ nfaReachable N := by
  have inv := unreachLoop_inv ho N fuel _ R (unreachInv_init ho N) h
  intro q
  rw [mem_nfaReachable_iff]
  constructor
  · exact inv.reach q
  · rintro ⟨s, hs, w, hp⟩
    exact (Path.restrict (A := N) (fun x => x ∈ R)
      (fun p a q he hpR => ⟨he, inv.done p hpR (fun h => nomatch h) a q he⟩) hp (inv.hstart s hs)).2

theorem nfaReachCoded_total {o : NfaOrd} (ho : o.Ok) (N : NFA) : ∃ R, nfaReachCoded o N (unreachFuel o N) = some R := by
  apply unreachLoop_total ho
  simp only [unreachInit, unreachFuel, List.length_reverse, nfaOut]
  exact Nat.add_le_add_left (List.length_filter_le _ _) _

/-- the result automaton built from the set `R` -/
theorem unreachBuild_spec (A : NFAS) : ∀ (L : List Nat) (res : NFAS),
    let r := L.foldl (fun res q =>
      let res1 := if A.final.contains q then nfasSetFinal res q else res
      (⟨⟨res1.start, res1.final, res1.trans ++ A.trans.filter (fun e => e.1 == q)⟩, res1.startSyms⟩ : NFAS)) res
    r.start = res.start ∧ r.startSyms = res.startSyms ∧
    (∀ n, n ∈ r.final ↔ n ∈ res.final ∨ (n ∈ L ∧ n ∈ A.final)) ∧
    (∀ e, e ∈ r.trans ↔ e ∈ res.trans ∨ (e ∈ A.trans ∧ e.1 ∈ L))
  | [], res => by simp
  | q :: L, res => by
    intro r
    have ih := unreachBuild_spec A L (
      let res1 := if A.final.contains q then nfasSetFinal res q else res
      (⟨⟨res1.start, res1.final, res1.trans ++ A.trans.filter (fun e => e.1 == q)⟩, res1.startSyms⟩ : NFAS))
    obtain ⟨h1, h2, h3, h4⟩ := ih
    refine ⟨?_, ?_, ?_, ?_⟩
    · show r.start = _
      rw [show r.start = _ from h1]; split <;> rfl
    · rw [show r.startSyms = _ from h2]; split <;> rfl
    · intro n
      rw [show n ∈ r.final ↔ _ from h3 n]
      simp only [List.mem_cons]
      split
      · rename_i hf
        have hf' := List.contains_iff_mem.mp hf
        simp only [nfasSetFinal, NfaS.mem_insN]
        constructor
        · rintro ((h | h) | ⟨h, h'⟩)
          · exact Or.inl h
          · exact Or.inr ⟨Or.inl h, h ▸ hf'⟩
          · exact Or.inr ⟨Or.inr h, h'⟩
        · rintro (h | ⟨h | h, h'⟩)
          · exact Or.inl (Or.inl h)
          · exact Or.inl (Or.inr h)
          · exact Or.inr ⟨h, h'⟩
      · rename_i hf
        have hf' : q ∉ A.final := fun h => hf (List.contains_iff_mem.mpr h)
        constructor
        · rintro (h | ⟨h, h'⟩)
          · exact Or.inl h
          · exact Or.inr ⟨Or.inr h, h'⟩
        · rintro (h | ⟨h | h, h'⟩)
          · exact Or.inl h
          · exact absurd (h ▸ h') hf'
          · exact Or.inr ⟨h, h'⟩
    · intro e
      rw [show e ∈ r.trans ↔ _ from h4 e]
      have : ∀ (res1 : NFAS), (e ∈ res1.trans ++ A.trans.filter (fun e => e.1 == q) ∨ (e ∈ A.trans ∧ e.1 ∈ L)) ↔
          (e ∈ res1.trans ∨ (e ∈ A.trans ∧ e.1 ∈ q :: L)) := by
        intro res1
        simp only [List.mem_append, List.mem_filter, beq_iff_eq, List.mem_cons]
        constructor
        · rintro ((h | ⟨h, h'⟩) | ⟨h, h'⟩)
          · exact Or.inl h
          · exact Or.inr ⟨h, Or.inl h'⟩
          · exact Or.inr ⟨h, Or.inr h'⟩
        · rintro (h | ⟨h, h' | h'⟩)
          · exact Or.inl (Or.inl h)
          · exact Or.inl (Or.inr ⟨h, h'⟩)
          · exact Or.inr ⟨h, h'⟩
      split
      · exact this _
      · exact this _

theorem nfasUnreachCodedF_isSome {o : NfaOrd} (ho : o.Ok) (A : NFAS) :
    ∃ R, nfaReachCoded o A.toNFA (unreachFuel o A.toNFA) = some R ∧
      nfasUnreachCoded o A = unreachBuild o A R := by
  obtain ⟨R, hR⟩ := nfaReachCoded_total ho A.toNFA
  exact ⟨R, hR, by simp [nfasUnreachCoded, nfasUnreachCodedF, hR]⟩

/-- `RemoveUnreachableStates` as coded: the same start states, start symbols, and (as sets) final states and transitions as
the relation-level model -/
theorem nfasUnreachCoded_setEq {o : NfaOrd} (ho : o.Ok) (A : NFAS) :
    NfaSetEq (nfasUnreachCoded o A).toNFA (nfaRemoveUnreachable A.toNFA) ∧
    (nfasUnreachCoded o A).startSyms = A.startSyms ∧ (nfasUnreachCoded o A).start = A.start := by
  obtain ⟨R, hR, e⟩ := nfasUnreachCodedF_isSome ho A
  have hspec := nfaReachCoded_spec ho _ _ _ hR
  obtain ⟨h1, h2, h3, h4⟩ := unreachBuild_spec A (iterSet o.sts R) ⟨⟨A.start, [], []⟩, A.startSyms⟩
  rw [e]
  refine ⟨⟨?_, ?_, ?_⟩, h2, h1⟩
  · intro q; rw [nfaRemoveUnreachable_start]; exact Iff.of_eq (congrArg (q ∈ ·) h1)
  · intro q
    rw [nfaRemoveUnreachable_eq]
    simp only [nfaRestrict, List.mem_filter, List.contains_iff_mem]
    refine (h3 q).trans ?_
    rw [mem_iterSet ho.1, hspec]
    constructor
    · rintro (h | ⟨h, h'⟩)
      · exact nomatch h
      · exact ⟨h', h⟩
    · rintro ⟨h, h'⟩; exact Or.inr ⟨h', h⟩
  · intro e
    rw [nfaRemoveUnreachable_eq]
    simp only [nfaRestrict, List.mem_filter, List.contains_iff_mem]
    refine (h4 e).trans ?_
    rw [mem_iterSet ho.1, hspec]
    constructor
    · rintro (h | h)
      · exact nomatch h
      · exact h
    · exact Or.inr

/-! ### `RemoveUselessStates` -/

theorem NfaSetEq.path {R N : NFA} (h : NfaSetEq R N) {p q : Nat} {w : List Nat} : Path R p w q ↔ Path N p w q :=
  ⟨Path.mono (fun e => (h.2.2 e).mp), Path.mono (fun e => (h.2.2 e).mpr)⟩

theorem NfaSetEq.removeUnreachable {R N : NFA} (h : NfaSetEq R N) :
    NfaSetEq (nfaRemoveUnreachable R) (nfaRemoveUnreachable N) := by
  have hr : ∀ q, (∃ s, s ∈ R.start ∧ ∃ w, Path R s w q) ↔ (∃ s, s ∈ N.start ∧ ∃ w, Path N s w q) := by
    intro q
    constructor
    · rintro ⟨s, hs, w, hp⟩; exact ⟨s, (h.1 s).mp hs, w, h.path.mp hp⟩
    · rintro ⟨s, hs, w, hp⟩; exact ⟨s, (h.1 s).mpr hs, w, h.path.mpr hp⟩
  refine ⟨?_, ?_, ?_⟩
  · intro q; rw [nfaRemoveUnreachable_start, nfaRemoveUnreachable_start]; exact h.1 q
  · intro q; rw [mem_nfaRemoveUnreachable_final, mem_nfaRemoveUnreachable_final, h.2.1, hr]
  · intro e; rw [mem_nfaRemoveUnreachable_trans, mem_nfaRemoveUnreachable_trans, h.2.2, hr]

/-- `RemoveUselessStates` as coded is, as sets, the relation-level `nfaRemoveUseless` – for every iteration order, and also
with the `Reverse` of before the repair D5 (which differs in the start-symbol map only) -/
theorem nfasUselessCoded_setEq {o : NfaOrd} (ho : o.Ok) (f : Bool) (A : NFAS) :
    NfaSetEq (nfasUselessCoded o f A).toNFA (nfaRemoveUseless A.toNFA) := by
  unfold nfasUselessCoded nfaRemoveUseless
  have h1 := (nfasUnreachCoded_setEq ho A).1
  have h2 := (nfasReverseCoded_setEq ho f (nfasUnreachCoded o A)).trans h1.reverse
  have h3 := (nfasUnreachCoded_setEq ho (nfasReverseCoded o f (nfasUnreachCoded o A))).1.trans h2.removeUnreachable
  exact (nfasReverseCoded_setEq ho f _).trans h3.reverse


/-! ### the start-symbol map through `RemoveUselessStates` -/

/-- the same entries (presence and content) at every state -/
def SymObsEq (X Y : NFAS) : Prop := ∀ q, smHas X.startSyms q = smHas Y.startSyms q ∧ X.symsOf q = Y.symsOf q

theorem SymObsEq.reverse {o : NfaOrd} (ho : o.Ok) {X Y : NFAS} (h : SymObsEq X Y) (hf : ∀ q, q ∈ X.final ↔ q ∈ Y.final) :
    SymObsEq (nfasReverseCoded o true X) (nfasReverse Y) := by
  intro q
  obtain ⟨h1, h2⟩ := nfasReverseCoded_syms ho X q
  refine ⟨?_, ?_⟩
  · rw [h1, nfasReverse_has, nfasReverse_has, (h q).1]
    congr 1
    rw [Bool.eq_iff_iff, List.contains_iff_mem, List.contains_iff_mem]; exact hf q
  · rw [h2, nfasReverse_symsOf, nfasReverse_symsOf]; exact (h q).2

theorem SymObsEq.unreach {o : NfaOrd} (ho : o.Ok) {X Y : NFAS} (h : SymObsEq X Y) :
    SymObsEq (nfasUnreachCoded o X) (nfasRemoveUnreachable Y) := by
  intro q
  have e := (nfasUnreachCoded_setEq ho X).2.1
  refine ⟨?_, ?_⟩
  · rw [e]; exact (h q).1
  · show smGet (nfasUnreachCoded o X).startSyms q = _
    rw [e]; exact (h q).2

/-- the current `RemoveUselessStates` as coded leaves the same start-symbol entries as the relation-level model -/
theorem nfasUselessCoded_syms {o : NfaOrd} (ho : o.Ok) (A : NFAS) :
    SymObsEq (nfasUselessCoded o true A) (nfasRemoveUseless A) := by
  unfold nfasUselessCoded nfasRemoveUseless
  have h0 : SymObsEq A A := fun _ => ⟨rfl, rfl⟩
  have s1 := (nfasUnreachCoded_setEq ho A).1
  have h1 := h0.unreach ho
  have h2 := h1.reverse ho s1.2.1
  have s2 : NfaSetEq (nfasReverseCoded o true (nfasUnreachCoded o A)).toNFA (nfasReverse (nfasRemoveUnreachable A)).toNFA :=
    (nfasReverseCoded_setEq ho true _).trans s1.reverse
  have h3 := h2.unreach ho
  have s3 : NfaSetEq (nfasUnreachCoded o (nfasReverseCoded o true (nfasUnreachCoded o A))).toNFA
      (nfasRemoveUnreachable (nfasReverse (nfasRemoveUnreachable A))).toNFA :=
    (nfasUnreachCoded_setEq ho _).1.trans s2.removeUnreachable
  exact h3.reverse ho s3.2.1

end Vata.NfaC
